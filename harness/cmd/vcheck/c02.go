package main

import (
	"encoding/base64"
	"encoding/json"
	"fmt"
	"go/ast"
	"go/parser"
	"go/token"
	"math/rand"
	"os"
	"path/filepath"
	"regexp"
	"sort"
	"strings"
	"sync"
	"sync/atomic"
	"time"

	"verifharness/internal/dagm"
	"verifharness/internal/ev"
	"verifharness/internal/node"
	"verifharness/internal/snap"
	"verifharness/internal/tlc"
)

func init() { checks["C02"] = checkC02 }

const c2Token = "c02-admin-token"

// ---------- TLC side ----------

type gateRq struct {
	Scope     string `json:"scope"`
	Method    string `json:"method"`
	Action    string `json:"action"`
	Versioned bool   `json:"versioned"`
	Declared  bool   `json:"declared"`
	Blob      bool   `json:"blob"`
}

type gateRow struct {
	Rq       gateRq `json:"rq"`
	Locked   bool   `json:"locked"`
	Mode     string `json:"mode"`
	TokenSet bool   `json:"tokenset"`
	Tok      string `json:"tok"`
	Out      string `json:"out"`
	Exc      bool   `json:"exc"`
	Frozen   bool   `json:"frozen"`
	Child    bool   `json:"child"`
}

func (r gateRq) key() string {
	return fmt.Sprintf("%s|%s|%s|%v|%v|%v", r.Scope, r.Method, r.Action, r.Versioned, r.Declared, r.Blob)
}

func rowKey(rq gateRq, locked bool, mode string, tokenset bool, tok string) string {
	return fmt.Sprintf("%s|%v|%s|%v|%s", rq.key(), locked, mode, tokenset, tok)
}

type gateStep struct {
	Op     string `json:"op"`
	Rq     gateRq `json:"rq"`
	V      int    `json:"v"`
	Tok    string `json:"tok"`
	Mode   string `json:"mode"`
	Locked bool   `json:"locked"`
	Out    string `json:"out"`
	Exc    bool   `json:"exc"`
	P      int    `json:"p"`
	Q      int    `json:"q"`
	Fn     string `json:"fn"`
	On     bool   `json:"on"`
	NN2    int    `json:"nn2"`
	LK2    []bool `json:"lk2"`
}

type gateBehaviour struct {
	Hist     []gateStep `json:"hist"`
	Cfg      string     `json:"cfg"`
	TokenSet bool       `json:"tokenset"`
	MaxNodes int        `json:"maxnodes"`
}

type gateConsts struct {
	MaxNodes     int
	StartModes   []string
	TokenSet     bool
	Toks         []string
	AllClasses   bool
	ModeSwitches bool
	History      bool
	EffNote      bool
	HistLen      int
}

// tlaBool, tlaStrSet and trunc are shared helpers (c16.go).

func (g gateConsts) cfg(extra string) string {
	return fmt.Sprintf("SPECIFICATION Spec\nCONSTANTS\n  MaxNodes = %d\n  StartModes = %s\n  TokenSet = %s\n  Toks = %s\n  AllClasses = %s\n  ModeSwitches = %s\n  History = %s\n  EffNote = %s\n  HistLen = %d\n%sCHECK_DEADLOCK FALSE\n",
		g.MaxNodes, tlaStrSet(g.StartModes), tlaBool(g.TokenSet), tlaStrSet(g.Toks), tlaBool(g.AllClasses), tlaBool(g.ModeSwitches), tlaBool(g.History), tlaBool(g.EffNote), g.HistLen, extra)
}

const gateProps = "INVARIANTS TypeOK Inv_ParentsCommitted Inv_ModeIsConfiguredOrSwitched\nPROPERTIES Act_C02_Frozen Act_RefusedIsStutter Act_CommitIsPermanent\nVIEW View\n"

var allModes = []string{"default", "readonly", "fullwrite"}
var allToks = []string{"none", "wrong", "right"}

// gateTable model-checks the gate model (every request class at every node with every
// token, mode switches, restart) and returns the decision table TLC printed.
func gateTable(c *Ctx, maxNodes, workers int) (map[string]gateRow, *tlc.Result) {
	g := gateConsts{MaxNodes: maxNodes, StartModes: allModes, TokenSet: true, Toks: allToks, AllClasses: true, ModeSwitches: true}
	cfg := g.cfg(strings.Replace(gateProps, "INVARIANTS ", "INVARIANTS EmitTable ", 1))
	name := fmt.Sprintf("gen_gate%d.cfg", maxNodes)
	r := c.MustModelCheck(tlc.Opts{Module: "Gate", Config: name, Workers: workers,
		Files: map[string][]byte{name: []byte(cfg)}, Timeout: 20 * time.Minute})
	table := map[string]gateRow{}
	PrintedJSON(r.Output, func(raw []byte) {
		if len(table) > 0 {
			return
		}
		var t struct {
			Table []gateRow `json:"table"`
		}
		if json.Unmarshal(raw, &t) != nil {
			return
		}
		for _, row := range t.Table {
			table[rowKey(row.Rq, row.Locked, row.Mode, row.TokenSet, row.Tok)] = row
		}
	})
	if len(table) == 0 {
		infra("Gate emitted no decision table:\n%s", r.Tail(1500))
	}
	return table, r
}

// gateSimulate lets TLC generate behaviours of the Gate machine for replay.
func gateSimulate(c *Ctx, g gateConsts, num int, seed int64, cfgName string) []gateBehaviour {
	r := c.RunTLC(tlc.Opts{Module: "Gate", Config: cfgName, Workers: 1, Simulate: fmt.Sprintf("num=%d", num), Depth: g.HistLen + 3, Seed: seed,
		Files: map[string][]byte{cfgName: []byte(g.cfg(""))}, Timeout: 10 * time.Minute})
	if strings.Contains(r.Output, "Error:") {
		infra("Gate simulation failed: %s\n%s", r.Violation, r.Tail(1500))
	}
	var out []gateBehaviour
	PrintedJSON(r.Output, func(raw []byte) {
		var b gateBehaviour
		if json.Unmarshal(raw, &b) == nil && len(b.Hist) > 0 {
			b.TokenSet = g.TokenSet
			b.MaxNodes = g.MaxNodes
			out = append(out, b)
		}
	})
	if len(out) == 0 {
		infra("Gate simulation produced no behaviour:\n%s", r.Tail(1500))
	}
	return out
}

// ---------- source side ----------

// selectorKeywords returns the keywords instanceSelector itself dispatches on (blobstore).
func selectorKeywords(repoDir string) []string {
	fset := token.NewFileSet()
	f, err := parser.ParseFile(fset, filepath.Join(repoDir, "server", "web.go"), nil, 0)
	must(err, "parse web.go")
	set := map[string]bool{}
	for _, decl := range f.Decls {
		fd, ok := decl.(*ast.FuncDecl)
		if !ok || fd.Name.Name != "instanceSelector" || fd.Body == nil {
			continue
		}
		isKw := func(e ast.Expr) bool {
			ix, ok := e.(*ast.IndexExpr)
			if !ok {
				return false
			}
			s, ok := strLit(ix.Index)
			return ok && s == "keyword"
		}
		ast.Inspect(fd.Body, func(n ast.Node) bool {
			if be, ok := n.(*ast.BinaryExpr); ok && (be.Op == token.EQL || be.Op == token.NEQ) {
				if isKw(be.X) {
					if s, ok := strLit(be.Y); ok {
						set[s] = true
					}
				}
			}
			return true
		})
	}
	var out []string
	for k := range set {
		out = append(out, k)
	}
	sort.Strings(out)
	return out
}

// methodDeclDir finds the package directory and receiver type that declare method name
// for the Go type pkgPath.typeName, following embedded struct fields (AST only).
func methodDeclDir(repoDir, pkgPath, typeName, method string, depth int) (string, string, error) {
	if !strings.HasPrefix(pkgPath, dvidModule) || depth > 4 {
		return "", "", fmt.Errorf("type %s.%s is outside the dvid module", pkgPath, typeName)
	}
	dir := filepath.Join(repoDir, strings.TrimPrefix(pkgPath, dvidModule))
	fset := token.NewFileSet()
	pkgs, err := parser.ParseDir(fset, dir, func(fi os.FileInfo) bool { return !strings.HasSuffix(fi.Name(), "_test.go") }, 0)
	if err != nil {
		return "", "", err
	}
	type emb struct{ pkg, typ string }
	var embedded []emb
	for _, pkg := range pkgs {
		for _, f := range pkg.Files {
			imports := map[string]string{}
			for _, im := range f.Imports {
				p, _ := strLit(im.Path)
				name := filepath.Base(p)
				if im.Name != nil {
					name = im.Name.Name
				}
				imports[name] = p
			}
			for _, decl := range f.Decls {
				switch d := decl.(type) {
				case *ast.FuncDecl:
					if d.Name.Name == method && d.Recv != nil && len(d.Recv.List) == 1 {
						rt := d.Recv.List[0].Type
						if st, ok := rt.(*ast.StarExpr); ok {
							rt = st.X
						}
						if id, ok := rt.(*ast.Ident); ok && id.Name == typeName {
							return dir, typeName, nil
						}
					}
				case *ast.GenDecl:
					for _, sp := range d.Specs {
						ts, ok := sp.(*ast.TypeSpec)
						if !ok || ts.Name.Name != typeName {
							continue
						}
						st, ok := ts.Type.(*ast.StructType)
						if !ok {
							continue
						}
						for _, fld := range st.Fields.List {
							if len(fld.Names) != 0 {
								continue
							}
							t := fld.Type
							if se, ok := t.(*ast.StarExpr); ok {
								t = se.X
							}
							switch x := t.(type) {
							case *ast.SelectorExpr:
								if id, ok := x.X.(*ast.Ident); ok {
									embedded = append(embedded, emb{imports[id.Name], x.Sel.Name})
								}
							case *ast.Ident:
								embedded = append(embedded, emb{pkgPath, x.Name})
							}
						}
					}
				}
			}
		}
	}
	for _, e := range embedded {
		if d, t, err := methodDeclDir(repoDir, e.pkg, e.typ, method, depth+1); err == nil {
			return d, t, nil
		}
	}
	return "", "", fmt.Errorf("no method %s for %s.%s", method, pkgPath, typeName)
}

type c2Routes struct {
	nodeActs map[string][]string
	repoActs map[string][]string
	selKws   []string
	kwCache  map[string][]string // "dir|type" -> keywords
	mutPrefix map[string]string  // "pkg|type" -> key prefix into kwMutBranch
	mu       sync.Mutex
	repoDir  string
}

func c2LoadRoutes() *c2Routes {
	dir := repoSourceDir()
	routes := webRoutes(dir)
	return &c2Routes{repoDir: dir, nodeActs: levelActions(routes, "/api/node/:uuid/"), repoActs: levelActions(routes, "/api/repo/:uuid/"),
		selKws: selectorKeywords(dir), kwCache: map[string][]string{}}
}

// keywords returns the endpoint keywords served for an instance of the given Go type.
func (rt *c2Routes) keywords(in *c2Inst) []string {
	rt.mu.Lock()
	defer rt.mu.Unlock()
	k := in.GoPkg + "|" + in.GoType
	if kws, ok := rt.kwCache[k]; ok {
		return kws
	}
	dir, typ, err := methodDeclDir(rt.repoDir, in.GoPkg, in.GoType, "ServeHTTP", 0)
	must(err, "locate ServeHTTP of "+in.Type)
	kws, switches, err := serveHTTPKeywords(dir, typ)
	must(err, "parse ServeHTTP of "+in.Type)
	if rt.mutPrefix == nil {
		rt.mutPrefix = map[string]string{}
	}
	rt.mutPrefix[k] = dir + "|" + typ + ":"
	if switches == 0 || len(kws) < 2 {
		infra("datatype %s: ServeHTTP in %s has no switch on the endpoint keyword that the extractor understands (found %d keywords)", in.Type, dir, len(kws))
	}
	set := map[string]bool{"verif-unknown-keyword": true}
	for _, s := range kws {
		set[s] = true
	}
	for _, s := range rt.selKws {
		set[s] = true
	}
	var out []string
	for s := range set {
		if s != "" && !strings.ContainsAny(s, "/? ") {
			out = append(out, s)
		}
	}
	sort.Strings(out)
	rt.kwCache[k] = out
	return out
}

// hasMutBranch: does the keyword's case clause in the datatype's ServeHTTP test for POST / PUT / DELETE?
func (rt *c2Routes) hasMutBranch(in *c2Inst, kw string) bool {
	rt.keywords(in)
	rt.mu.Lock()
	p := rt.mutPrefix[in.GoPkg+"|"+in.GoType]
	rt.mu.Unlock()
	kwMutBranchMu.Lock()
	defer kwMutBranchMu.Unlock()
	return kwMutBranch[p+kw]
}

// c2MustBeEffective: (type|keyword|method) whose documented payload was added in the third round
var c2MustBeEffective = []string{"labelmap|blocks|POST", "labelmap|ingest-supervoxels|POST", "labelarray|blocks|POST",
	"neuronjson|keyvalues|POST", "annotation|labels|POST", "neuronjson|json_schema|POST", "neuronjson|schema|POST", "neuronjson|schema_batch|POST"}

// ---------- prepared repository ----------

// c2Repo is a populated repository with committed nodes R (root), A, C and an open node B.
type c2Repo struct {
	w         *c2World
	committed []string // R, A, C
	open      string   // B
}

func c2Prepare(c *Ctx, cfg node.Config, variant int, only map[string]bool) *c2Repo {
	cfg.AllowSplit = true
	n := c.StartNode(cfg)
	w := c2NewWorld(n, variant, only)
	w.populate()
	root := w.root
	w.okPost("POST", "/api/node/"+root+"/note", []byte(`{"note":"root note"}`))
	w.okPost("POST", "/api/node/"+root+"/log", []byte(`{"log":["root log 1","root log 2"]}`))
	w.okPost("POST", "/api/node/"+root+"/commit", []byte(`{"note":"committed root","log":["commit log"]}`))
	child := func(method string, body string) string {
		r := w.okPost("POST", "/api/node/"+root+"/"+method, []byte(body))
		var o struct{ Child string }
		json.Unmarshal(r.Bytes(), &o)
		return o.Child
	}
	a := child("newversion", `{"note":"A"}`)
	w.write(a, 1, "put")
	if variant%2 == 0 {
		w.write(a, 1, "del")
	}
	w.okPost("POST", "/api/node/"+a+"/commit", []byte(`{"note":"committed A"}`))
	cc := child("branch", `{"branch":"c","note":"C"}`)
	w.write(cc, 2, "del")
	w.write(cc, 2, "put")
	w.okPost("POST", "/api/node/"+cc+"/log", []byte(`{"log":["c log"]}`))
	w.okPost("POST", "/api/node/"+cc+"/commit", []byte(`{}`))
	b := child("branch", `{"branch":"b","note":"B"}`)
	w.write(b, 3, "put")
	must(n.Idle(), "idle")
	return &c2Repo{w: w, committed: []string{root, a, cc}, open: b}
}

// stabilise takes the snapshot twice and drops reads that differ between two
// back-to-back executions (they cannot witness anything).
func (rp *c2Repo) stabilise(reads []snap.Read) []string {
	a := rp.w.take(reads)
	var dropped []string
	for i := 0; i < 2; i++ {
		b := rp.w.take(reads)
		for _, d := range snap.Diff(a, b) {
			k := diffKey(d)
			if !rp.w.unstable[k] {
				rp.w.unstable[k] = true
				dropped = append(dropped, k)
			}
		}
	}
	return dropped
}

// confirm re-reads a snapshot that differs from its baseline and keeps only the
// differences that are stable (the same different answer every time): an answer that
// varies between identical reads is an unstable encoding, not a change of state.
func (rp *c2Repo) confirm(base *snap.Snap, reads []snap.Read, d []string) []string {
	if len(d) == 0 {
		return nil
	}
	keep := map[string]bool{}
	for _, x := range d {
		keep[diffKey(x)] = true
	}
	var sub []snap.Read
	for _, rd := range reads {
		if keep[rd.Key] {
			sub = append(sub, rd)
		}
	}
	first := rp.w.take(sub)
	stable := map[string]string{}
	for _, e := range first.Entries {
		stable[e.Key] = fmt.Sprint(e.Status, e.Digest)
	}
	for i := 0; i < 3; i++ {
		again := rp.w.take(sub)
		for _, e := range again.Entries {
			if stable[e.Key] != fmt.Sprint(e.Status, e.Digest) {
				delete(stable, e.Key)
				rp.w.unstable[e.Key] = true
			}
		}
	}
	bm := map[string]string{}
	for _, e := range base.Entries {
		bm[e.Key] = fmt.Sprint(e.Status, e.Digest)
	}
	var out []string
	for _, x := range d {
		k := diffKey(x)
		if v, ok := stable[k]; ok && v != bm[k] {
			out = append(out, x)
		}
	}
	return out
}

const c02TarSV = "tarsupervoxels-root-context"

// knownFilter removes the differences explained by a listed known finding (and prints its
// KNOWN-FINDING line); everything else is returned and reported.
func knownFilter(run *ev.Run, w *c2World, d []string) []string {
	if len(d) == 0 || !run.KnownActive(c02TarSV) {
		return d
	}
	var rest []string
	for _, x := range d {
		k := diffKey(x) // data/<name>@<uuid>/<sub>
		explained := false
		if strings.HasPrefix(k, "data/") {
			name := k[5:]
			if i := strings.Index(name, "@"); i > 0 {
				name = name[:i]
			}
			if in := w.byName[name]; in != nil && in.Type == "tarsupervoxels" {
				explained = true
			}
		}
		if explained {
			run.ReportKnown(c02TarSV)
		} else {
			rest = append(rest, x)
		}
	}
	return rest
}

var reUUID = regexp.MustCompile(`[0-9a-f]{32}`)

func stripUUIDs(s string) string { return reUUID.ReplaceAllString(s, "*") }

func diffKey(d string) string {
	if i := strings.Index(d, ": "); i >= 0 {
		return d[:i]
	}
	return d
}

// ---------- the sweep ----------

type c2Config struct {
	Mode     string `json:"mode"`
	TokenSet bool   `json:"tokenset"`
}

type c2Sent struct {
	Method string `json:"method"`
	URL    string `json:"url"`
	Body   string `json:"body,omitempty"`
	Tok    string `json:"tok"`
	Status int    `json:"status"`
	Resp   string `json:"resp,omitempty"`
	Expect string `json:"spec_outcome"`
}

type c2Divergence struct {
	Kind      string      `json:"kind"`
	Config    c2Config    `json:"config"`
	Variant   int         `json:"population_variant"`
	Target    string      `json:"target"`
	Instance  *c2Inst     `json:"instance,omitempty"`
	Keyword   string      `json:"keyword,omitempty"`
	Requests  []c2Sent    `json:"requests"`
	Diffs     []string    `json:"diffs,omitempty"`
	Row       interface{} `json:"spec_row,omitempty"`
	Behaviour interface{} `json:"behaviour,omitempty"`
	Step      int         `json:"step,omitempty"`
	Note      string      `json:"note,omitempty"`
}

type c2Stats struct {
	requests, snapshots, refusedChecked, childChecked, excRequests int64
	crashes, hangs                                                 int64
	troubles                                                       []string
	desyncs                                                        []string
	mu                                                             sync.Mutex
	effective                                                      map[string]bool // type|keyword|method whose request changed a committed node when the gate was open
	ineffective                                                    map[string]bool
	pairs                                                          map[string]bool // type|keyword
	otherPopulated, otherDeleted                                   int64           // later history: versions of the extra synced labelmap populated / populated instances deleted
	childKinds                                                     map[string]int  // "<action> via <addressing>" -> child-creation verdicts
	mutPairs                                                       map[string]bool // type|keyword whose case clause in ServeHTTP has a POST / PUT / DELETE branch
	unstable                                                       map[string]bool
	skipped                                                        map[string]string
	rowsHit                                                        map[string]bool
}

func tokQuery(tok string, tokenSet bool) string {
	switch tok {
	case "wrong":
		return "admintoken=not-the-token"
	case "right":
		if tokenSet {
			return "admintoken=" + c2Token
		}
		return "admintoken=" + c2Token // the server has no token: this is no privilege
	}
	return ""
}

func joinQuery(a, b string) string {
	switch {
	case a == "" && b == "":
		return ""
	case a == "":
		return "?" + b
	case b == "":
		return "?" + a
	}
	return "?" + a + "&" + b
}

type c2Sweeper struct {
	sampleOnce    sync.Once
	withAdminPass bool // also send the requests that carry the right admin token (no verdict applies to them)
	c             *Ctx
	run           *ev.Run
	table         map[string]gateRow
	routes        *c2Routes
	st            *c2Stats
}

func (s *c2Sweeper) row(rq gateRq, cfg c2Config, tok string) gateRow {
	k := rowKey(rq, true, cfg.Mode, cfg.TokenSet, tok)
	row, ok := s.table[k]
	if !ok {
		infra("request class %s has no row in the decision table", k)
	}
	s.st.mu.Lock()
	s.st.rowsHit[k] = true
	s.st.mu.Unlock()
	return row
}

// send executes one request; a dead node is restarted once (the crash is recorded, it is
// C20's subject, not a C02 verdict).
func (s *c2Sweeper) send(rp *c2Repo, method, url string, body []byte) (node.Resp, bool) {
	rq := node.Req{Op: "http", Method: method, URL: url}
	if len(body) > 0 {
		rq.Body = base64.StdEncoding.EncodeToString(body)
	}
	r, err := rp.w.n.DoTimeout(rq, 20*time.Second)
	atomic.AddInt64(&s.st.requests, 1)
	if err == nil {
		return r, true
	}
	// a dead or hung node is C20's subject, not a C02 verdict: record, restart, go on
	if err == node.ErrDead {
		atomic.AddInt64(&s.st.crashes, 1)
	} else {
		atomic.AddInt64(&s.st.hangs, 1)
	}
	s.st.mu.Lock()
	s.st.troubles = append(s.st.troubles, fmt.Sprintf("%v: %s %s | stderr: %s", err, method, trunc(url, 160), trunc(rp.w.n.StderrTail(1500), 1500)))
	s.st.mu.Unlock()
	must(rp.w.n.Restart(false), "restart after crash/hang")
	return node.Resp{Status: 599}, false
}

func (s *c2Sweeper) idle(rp *c2Repo) {
	r, err := rp.w.n.DoTimeout(node.Req{Op: "idle", WaitMS: 20000}, 40*time.Second)
	if err == nil && r.Err == "" {
		return
	}
	if err == node.ErrDead {
		atomic.AddInt64(&s.st.crashes, 1)
	} else {
		atomic.AddInt64(&s.st.hangs, 1)
	}
	s.st.mu.Lock()
	s.st.troubles = append(s.st.troubles, fmt.Sprintf("idle: %v %s | stderr: %s", err, r.Err, trunc(rp.w.n.StderrTail(1500), 1500)))
	s.st.mu.Unlock()
	must(rp.w.n.Restart(false), "restart after crash/hang")
}

// sweepInstance sends, for one instance, every keyword x method x payload x token.
func (s *c2Sweeper) sweepInstance(rp *c2Repo, cfg c2Config, in *c2Inst, rng *rand.Rand, part, parts int) {
	w := rp.w
	kws := s.routes.keywords(in)
	if parts > 1 {
		var sub []string
		for i, kw := range kws {
			if i%parts == part {
				sub = append(sub, kw)
			}
		}
		kws = sub
	}
	methods := []string{"GET", "HEAD", "POST", "PUT", "DELETE"}
	var pairs [][2]string
	for _, kw := range kws {
		for _, m := range methods {
			pairs = append(pairs, [2]string{m, kw})
		}
	}
	var declared []bool
	must(w.n.Call("gate.ismutation", map[string]interface{}{"uuid": w.root, "name": in.Name, "pairs": pairs}, &declared), "gate.ismutation")
	decl := map[string]bool{}
	for i, p := range pairs {
		decl[p[0]+" "+p[1]] = declared[i]
	}
	focus := w.focus(in.Name)
	readsAt := map[string][]snap.Read{}
	baseAt := map[string]*snap.Snap{}
	for _, u := range rp.committed {
		readsAt[u] = w.contentReads([]string{u}, focus)
		baseAt[u] = w.take(readsAt[u])
		atomic.AddInt64(&s.st.snapshots, 1)
	}
	toksPlain := []string{"none", "wrong"}
	if !cfg.TokenSet {
		toksPlain = append(toksPlain, "right") // a token presented to a server that has none is no privilege
	}
	perMethod := cfg.Mode == "fullwrite" // measure payload effectiveness per method where the gate is open
	k := 0
	for _, kw := range kws {
		s.st.mu.Lock()
		s.st.pairs[in.Type+"|"+kw] = true
		if s.routes.hasMutBranch(in, kw) {
			s.st.mutPairs[in.Type+"|"+kw] = true
		}
		s.st.mu.Unlock()
		// pass 1: requests without privilege; pass 2 (token servers only): with the admin token
		for pass := 0; pass < 2; pass++ {
			toks := toksPlain
			if pass == 1 {
				if !cfg.TokenSet || !s.withAdminPass {
					break
				}
				toks = []string{"right"}
			}
			target := rp.committed[rng.Intn(len(rp.committed))]
			knownKw := false
			for _, p := range w.payloads(in, kw, "POST", 0, "") {
				knownKw = knownKw || p.Known
			}
			for _, p := range w.payloads(in, kw, "DELETE", 0, "") {
				knownKw = knownKw || p.Known
			}
			var sent []c2Sent
			var batchMethods []string
			anyExc := false
			flush := func() {
				if len(sent) == 0 {
					return
				}
				s.idle(rp)
				reads, base := readsAt[target], baseAt[target]
				after := w.take(reads)
				atomic.AddInt64(&s.st.snapshots, 1)
				d := snap.Diff(base, after)
				if !anyExc {
					d = rp.confirm(base, reads, d)
				}
				for _, m := range batchMethods {
					ek := in.Type + "|" + kw + "|" + m
					if anyExc {
						// the gate is open: a change is allowed; it shows the payload is effective
						s.st.mu.Lock()
						if len(d) > 0 && m != "GET" && m != "HEAD" {
							s.st.effective[ek] = true
						} else if !s.st.effective[ek] {
							s.st.ineffective[ek] = true
						}
						s.st.mu.Unlock()
					} else {
						s.run.Eval(fmt.Sprintf("%s|%s|%v|%s", ek, cfg.Mode, cfg.TokenSet, strings.Join(toks, ",")))
					}
				}
				if !anyExc && in.Name == "kv" && kw == "key" {
					s.sampleOnce.Do(func() {
						ex := sent
						if len(ex) > 8 {
							ex = ex[len(ex)-8:]
						}
						s.run.Sample(map[string]interface{}{"sweep_batch": map[string]interface{}{"config": cfg, "committed_target": target, "instance": in, "keyword": kw,
							"requests_tail": ex, "snapshot_reads_compared": len(reads), "differences": len(d)}})
					})
				}
				if anyExc {
					if len(d) > 0 {
						// other committed nodes may inherit the change
						for _, u := range rp.committed {
							baseAt[u] = w.take(readsAt[u])
						}
					}
				} else if len(d) > 0 {
					s.run.Violation("c02-frozen", c2Divergence{Kind: "committed-node-changed", Config: cfg, Variant: w.variant, Target: target, Instance: in, Keyword: kw,
						Requests: sent, Diffs: d, Note: "versioned content, note, log or commit flag of a committed node differs after these requests (no exception applies)"})
					// descendants inherit the change: take every reference again
					for _, u := range rp.committed {
						baseAt[u] = w.take(readsAt[u])
					}
				}
				sent, batchMethods, anyExc = nil, nil, false
			}
			for _, m := range methods {
				rq := gateRq{Scope: "instance", Method: m, Versioned: in.Versioned, Declared: decl[m+" "+kw], Blob: kw == "blobstore"}
				batchMethods = append(batchMethods, m)
				for _, tok := range toks {
					row := s.row(rq, cfg, tok)
					anyExc = anyExc || row.Exc
					k++
					for _, p := range w.payloads(in, kw, m, k, rp.open) {
						url := "/api/node/" + target + "/" + in.Name + "/" + kw + p.Suffix + joinQuery(p.Query, tokQuery(tok, cfg.TokenSet))
						r, ok := s.send(rp, m, url, p.Body)
						se := c2Sent{Method: m, URL: url, Body: trunc(string(p.Body), 120), Tok: tok, Status: r.Status, Resp: trunc(string(r.Bytes()), 160), Expect: row.Out}
						sent = append(sent, se)
						if !ok {
							continue
						}
						if row.Out != "pass" {
							atomic.AddInt64(&s.st.refusedChecked, 1)
							if r.Status < 400 || r.Status > 499 {
								s.run.Violation("c02-gate", c2Divergence{Kind: "not-refused", Config: cfg, Variant: w.variant, Target: target, Instance: in, Keyword: kw,
									Requests: []c2Sent{se}, Row: row, Note: "the specification refuses this request class on a committed node; the server answered outside 4xx"})
							}
						}
						if row.Exc {
							atomic.AddInt64(&s.st.excRequests, 1)
						}
					}
				}
				if perMethod && m != "GET" && m != "HEAD" && knownKw {
					flush()
				}
			}
			flush()
		}
	}
}

// hasChildOnOwnBranch reads the repo's DAG: does the node have a child on its own branch?
func (s *c2Sweeper) hasChildOnOwnBranch(rp *c2Repo, u string) bool {
	r, err := rp.w.n.HTTP("GET", "/api/repo/"+rp.w.root+"/info", nil)
	must(err, "repo info")
	var ri dagm.RepoInfo
	if json.Unmarshal(r.Bytes(), &ri) != nil {
		return false
	}
	nd, ok := ri.DAG.Nodes[u]
	if !ok {
		return false
	}
	for _, c := range ri.DAG.Nodes {
		for _, pv := range c.Parents {
			if pv == nd.VersionID && c.Branch == nd.Branch && len(c.Parents) == 1 {
				return true
			}
		}
	}
	return false
}

// altAddresses returns other spellings of a committed node's address that resolve to it right now:
// {"prefix", <first 10 digits>} and {"root:branch", <root>:<branch>} (the latter only while the node is the
// head of its branch).  Each is confirmed through datastore.MatchingUUID before use.
func (s *c2Sweeper) altAddresses(rp *c2Repo, u string) [][2]string {
	var out [][2]string
	resolves := func(addr string) bool {
		var o struct{ UUID string }
		if err := rp.w.n.Call("ds.matchuuid", map[string]string{"Str": addr}, &o); err != nil {
			if _, isCall := err.(*node.CallError); !isCall {
				must(err, "ds.matchuuid")
			}
			return false
		}
		return o.UUID == u
	}
	if len(u) > 10 && resolves(u[:10]) {
		out = append(out, [2]string{"prefix", u[:10]})
	}
	r, err := rp.w.n.HTTP("GET", "/api/repo/"+rp.w.root+"/info", nil)
	must(err, "repo info")
	var ri dagm.RepoInfo
	if json.Unmarshal(r.Bytes(), &ri) == nil {
		if nd, ok := ri.DAG.Nodes[u]; ok {
			b := nd.Branch
			if b == "" {
				b = "master"
			}
			if addr := rp.w.root + ":" + b; !strings.ContainsAny(b, "/~") && resolves(addr) {
				out = append(out, [2]string{"root:branch", addr})
			}
		}
	}
	return out
}

// sweepLevel sends every node-level and repo-level route x method x token.
func (s *c2Sweeper) sweepLevel(rp *c2Repo, cfg c2Config, rng *rand.Rand) {
	w := rp.w
	reads := w.contentReads(rp.committed, map[string]bool{"kv": true, "ann": true, "roi": true})
	base := w.take(reads)
	methods := []string{"GET", "HEAD", "POST", "PUT", "DELETE"}
	modelNode := map[string]bool{"note": true, "log": true, "commit": true, "status": true, "branch": true, "newversion": true, "tag": true}
	modelRepo := map[string]bool{"info": true, "instance": true, "log": true, "merge": true, "resolve": true, "branch-versions": true}
	seq := 0
	body := func(scope, action string) []byte {
		seq++
		id := fmt.Sprintf("%s%d%d", map[bool]string{true: "t", false: "n"}[cfg.TokenSet], w.variant, seq)
		switch scope + "/" + action {
		case "node/note":
			return []byte(fmt.Sprintf(`{"note":"swept %s"}`, id))
		case "node/log", "repo/log":
			return []byte(fmt.Sprintf(`{"log":["swept %s"]}`, id))
		case "node/commit":
			return []byte(fmt.Sprintf(`{"note":"recommit %s","log":["recommit"]}`, id))
		case "node/branch":
			return []byte(fmt.Sprintf(`{"branch":"sw-%s-%s","note":"swept"}`, cfg.Mode, id))
		case "node/newversion":
			return []byte(`{"note":"swept"}`)
		case "node/tag":
			return []byte(fmt.Sprintf(`{"tag":"tag%s%s","note":"swept"}`, cfg.Mode, id))
		case "repo/info":
			return []byte(fmt.Sprintf(`{"alias":"swept-%s","description":"swept"}`, id))
		case "repo/instance":
			return []byte(fmt.Sprintf(`{"typename":"keyvalue","dataname":"swept%s%s"}`, cfg.Mode, id))
		case "repo/merge":
			return []byte(fmt.Sprintf(`{"mergeType":"conflict-free","parents":[%q,%q],"note":"swept"}`, rp.committed[1], rp.committed[2]))
		case "repo/resolve":
			return []byte(fmt.Sprintf(`{"data":["kv"],"parents":[%q,%q],"note":"swept"}`, rp.committed[1], rp.committed[2]))
		}
		return []byte(`{}`)
	}
	type lvl struct {
		scope string
		acts  map[string][]string
		model map[string]bool
	}
	toks := allToks
	for _, lv := range []lvl{{"node", s.routes.nodeActs, modelNode}, {"repo", s.routes.repoActs, modelRepo}} {
		var acts []string
		for a := range lv.acts {
			acts = append(acts, a)
		}
		acts = append(acts, "verif-unknown-action")
		sort.Strings(acts)
		for _, act := range acts {
			s.st.mu.Lock()
			s.st.pairs[lv.scope+"|"+act] = true
			s.st.mu.Unlock()
			for pass := 0; pass < 2; pass++ {
				var sent []c2Sent
				anyExc := false
				var usedToks []string
				target := rp.committed[rng.Intn(len(rp.committed))]
				for _, m := range methods {
					for _, tok := range toks {
						priv := cfg.TokenSet && tok == "right"
						if (pass == 1) != priv {
							continue
						}
						if m == "GET" {
							usedToks = append(usedToks, tok)
						}
						cls := act
						if !lv.model[act] {
							cls = "other"
						}
						rq := gateRq{Scope: lv.scope, Method: m, Action: cls, Versioned: true}
						row := s.row(rq, cfg, tok)
						anyExc = anyExc || row.Exc
						url := "/api/" + lv.scope + "/" + target + "/" + act
						if lv.scope == "repo" && act == "branch-versions" {
							url += "/c"
						}
						url += joinQuery("", tokQuery(tok, cfg.TokenSet))
						var b []byte
						if m != "GET" && m != "HEAD" {
							b = body(lv.scope, act)
						}
						r, ok := s.send(rp, m, url, b)
						se := c2Sent{Method: m, URL: url, Body: trunc(string(b), 160), Tok: tok, Status: r.Status, Resp: trunc(string(r.Bytes()), 160), Expect: row.Out}
						sent = append(sent, se)
						if !ok {
							continue
						}
						if row.Out != "pass" && lv.model[act] {
							atomic.AddInt64(&s.st.refusedChecked, 1)
							if r.Status < 400 || r.Status > 499 {
								s.run.Violation("c02-gate", c2Divergence{Kind: "not-refused", Config: cfg, Variant: w.variant, Target: target, Keyword: lv.scope + "/" + act,
									Requests: []c2Sent{se}, Row: row, Note: "the specification refuses this request on a committed node; the server answered outside 4xx"})
							}
						}
						if row.Child && lv.scope == "node" && (act == "branch" || act == "tag" || act == "newversion") {
							// creating a child stays allowed: a new branch and a tag always; a new version on the node's own
							// branch unless the node already has a child there (DvidDAG's SisterHas, read off the server's own DAG)
							judge := func(se c2Sent, how string) {
								atomic.AddInt64(&s.st.childChecked, 1)
								s.st.mu.Lock()
								s.st.childKinds[act+" via "+how]++
								s.st.mu.Unlock()
								if se.Status == 200 {
									return
								}
								if act == "newversion" && s.hasChildOnOwnBranch(rp, target) {
									return
								}
								s.run.Violation("c02-child", c2Divergence{Kind: "child-creation-refused", Config: cfg, Variant: w.variant, Target: target, Keyword: lv.scope + "/" + act,
									Requests: []c2Sent{se}, Row: row, Note: "creating a child version (" + act + ", committed node addressed by " + how + ") of a committed node must stay allowed"})
							}
							judge(se, "uuid")
							// the same request with the committed node addressed by a UUID prefix and, while it is the head of
							// its branch, by <root>:<branch>
							for _, alt := range s.altAddresses(rp, target) {
								url2 := "/api/node/" + alt[1] + "/" + act + joinQuery("", tokQuery(tok, cfg.TokenSet))
								b2 := body(lv.scope, act)
								r2, ok2 := s.send(rp, m, url2, b2)
								se2 := c2Sent{Method: m, URL: url2, Body: trunc(string(b2), 160), Tok: tok, Status: r2.Status, Resp: trunc(string(r2.Bytes()), 160), Expect: row.Out}
								sent = append(sent, se2)
								if ok2 {
									judge(se2, alt[0])
								}
							}
						}
					}
				}
				if len(sent) == 0 {
					continue
				}
				s.idle(rp)
				after := w.take(reads)
				atomic.AddInt64(&s.st.snapshots, 1)
				d := snap.Diff(base, after)
				if !anyExc {
					d = rp.confirm(base, reads, d)
				}
				for _, m := range methods {
					ek := lv.scope + "|" + act + "|" + m
					if anyExc {
						s.st.mu.Lock()
						if len(d) > 0 && m == "POST" {
							s.st.effective[ek] = true
						} else if !s.st.effective[ek] {
							s.st.ineffective[ek] = true
						}
						s.st.mu.Unlock()
					} else {
						s.run.Eval(fmt.Sprintf("%s|%s|%v|%s", ek, cfg.Mode, cfg.TokenSet, strings.Join(usedToks, ",")))
					}
				}
				if anyExc {
					base = after
				} else if len(d) > 0 {
					s.run.Violation("c02-frozen", c2Divergence{Kind: "committed-node-changed", Config: cfg, Variant: w.variant, Target: target, Keyword: lv.scope + "/" + act,
						Requests: sent, Diffs: d, Note: "versioned content, note, log or commit flag of a committed node differs after these requests (no exception applies)"})
					base = after
				}
			}
		}
	}
}

// sweepChunk prepares a repository, switches the node to the configuration under test
// and sweeps one instance (or the node/repo level when inst == "").
func (s *c2Sweeper) sweepChunk(cfg c2Config, variant int, inst string, restartFirst bool, seed int64, full bool, part, parts int) {
	ncfg := node.Config{}
	if cfg.TokenSet {
		ncfg.AdminToken = c2Token
	}
	only := map[string]bool{"kv": true, "ann": true, "roi": true}
	if inst != "" {
		only = map[string]bool{"kv": true, inst: true}
	}
	if full {
		only = nil
	}
	rp := c2Prepare(s.c, ncfg, variant, only)
	defer s.c.DropNode(rp.w.n)
	s.st.mu.Lock()
	for k, v := range rp.w.skipped {
		s.st.skipped[k] = v
	}
	s.st.mu.Unlock()
	must(rp.w.n.RestartWith(!restartFirst, func(c *node.Config) {
		c.RWMode = map[string]string{"default": "", "readonly": "readonly", "fullwrite": "fullwrite"}[cfg.Mode]
	}), "restart in mode "+cfg.Mode)
	rng := rand.New(rand.NewSource(seed))
	if inst == "" {
		all := rp.w.contentReads(rp.committed, map[string]bool{"kv": true, "ann": true, "roi": true})
		for _, k := range rp.stabilise(all) {
			s.st.mu.Lock()
			s.st.unstable[stripUUIDs(k)] = true
			s.st.mu.Unlock()
		}
		exc := cfg.Mode == "fullwrite" || cfg.TokenSet
		allReads := rp.w.contentReads(rp.committed, nil)
		var fullSnap *snap.Snap
		if !exc {
			fullSnap = rp.w.take(allReads)
		}
		s.sweepLevel(rp, cfg, rng)
		if !exc {
			after := rp.w.take(allReads)
			if d := rp.confirm(fullSnap, allReads, snap.Diff(fullSnap, after)); len(d) > 0 {
				s.run.Violation("c02-frozen", c2Divergence{Kind: "committed-node-changed-elsewhere", Config: cfg, Variant: variant, Keyword: "node/repo-level routes", Diffs: d,
					Note: "after the sweep of the node- and repo-level routes the full snapshot of the committed nodes differs"})
			}
		}
		return
	}
	in := rp.w.byName[inst]
	if in == nil {
		return
	}
	all := rp.w.contentReads(rp.committed, nil)
	for _, k := range rp.stabilise(all) {
		s.st.mu.Lock()
		s.st.unstable[stripUUIDs(k)] = true
		s.st.mu.Unlock()
	}
	var fullSnap *snap.Snap
	exc := cfg.Mode == "fullwrite" || (cfg.TokenSet && s.withAdminPass)
	if !exc {
		fullSnap = rp.w.take(all)
	}
	s.sweepInstance(rp, cfg, in, rng, part, parts)
	if !exc && cfg.Mode == "default" && len(rp.committed) > 1 && in.Versioned {
		// later history on the master line itself: an open master child of the committed master
		// version gets a generation of writes and deletions (the "head" of a branch is where
		// in-memory copies of data live; committed ancestors must not read through them)
		r, err := rp.w.n.HTTP("POST", "/api/node/"+rp.committed[1]+"/newversion", []byte(`{"note":"master child"}`))
		must(err, "newversion of committed master node")
		var o struct{ Child string }
		json.Unmarshal(r.Bytes(), &o)
		if r.Status == 200 && o.Child != "" {
			rp.w.writeInst(in, o.Child, 5, "put")
			rp.w.writeInst(in, o.Child, 5, "del")
			must(rp.w.n.Idle(), "idle after master-child writes")
			// ... and a restart after that later history: state rebuilt at start-up (mapping caches, in-memory
			// databases) is rebuilt with the descendants' writes present and must still answer the committed
			// versions as before
			must(rp.w.n.RestartWith(part%2 == 0, func(c *node.Config) {}), "restart after the later history")
		}
	}
	if !exc {
		// nothing anywhere on the committed nodes may have changed (cross-instance effects)
		after := rp.w.take(all)
		if d := knownFilter(s.run, rp.w, rp.confirm(fullSnap, all, snap.Diff(fullSnap, after))); len(d) > 0 {
			s.run.Violation("c02-frozen", c2Divergence{Kind: "committed-node-changed-elsewhere", Config: cfg, Variant: variant, Instance: in, Diffs: d,
				Note: "after the sweep of this instance's endpoints the full snapshot of the committed nodes differs"})
		}
	}
}

// ---------- behaviour replay ----------

type c2Replayer struct {
	c   *Ctx
	run *ev.Run
	st  *c2Stats
}

// replay executes one behaviour of the Gate machine on a fresh server.  After every step
// the content of every committed node is compared with the snapshot taken when it was
// committed (or last changed under an exception).
var c2Groups = []map[string]bool{
	{"kv": true, "roi": true, "nj": true, "gray": true, "tiles": true, "mc": true},
	{"lm": true, "ann": true, "lsz": true, "tsv": true, "kvu": true},
	{"la": true, "lb": true, "lv": true, "g16": true, "rgba": true},
	{"g32": true, "g64": true, "f32": true, "kv2": true, "roi2": true, "lm2": true, "ann2": true, "kv": true},
}

func (rpl *c2Replayer) replay(b gateBehaviour, idx int, variant int, only map[string]bool) {
	ncfg := node.Config{AllowSplit: true}
	if b.TokenSet {
		ncfg.AdminToken = c2Token
	}
	n := rpl.c.StartNode(ncfg)
	defer rpl.c.DropNode(n)
	w := c2NewWorld(n, variant, only)
	w.populate()
	modeCfg := func(m string) string {
		return map[string]string{"default": "", "readonly": "readonly", "fullwrite": "fullwrite"}[m]
	}
	if b.Cfg != "default" {
		must(n.RestartWith(true, func(c *node.Config) { c.RWMode = modeCfg(b.Cfg) }), "restart in configured mode")
	}
	uuids := map[int]string{1: w.root}
	kids := map[int]int{}
	lk := []bool{false}
	otherMade := false // the extra populated instances of the "new instance" step exist
	baseline := map[int]*snap.Snap{}
	gen := 0
	var sent []c2Sent
	do := func(method, url string, body []byte, tok string, expect string) node.Resp {
		url += joinQuery("", tokQuery(tok, b.TokenSet))
		r, err := n.HTTP(method, url, body)
		must(err, "replay request")
		atomic.AddInt64(&rpl.st.requests, 1)
		sent = append(sent, c2Sent{Method: method, URL: url, Body: trunc(string(body), 100), Tok: tok, Status: r.Status, Resp: trunc(string(r.Bytes()), 120), Expect: expect})
		return r
	}
	fail := func(kind string, i int, diffs []string, note string) {
		rpl.run.Violation("c02-history", c2Divergence{Kind: kind, Variant: variant, Behaviour: b, Step: i + 1, Requests: sent, Diffs: diffs, Note: note})
	}
	abandoned := false
	desync := func(format string, a ...interface{}) {
		// the server refuses (or fails) a step the specification lets run: over-refusal is not
		// a C02 violation, but the rest of this behaviour cannot be validated
		abandoned = true
		rpl.st.mu.Lock()
		rpl.st.desyncs = append(rpl.st.desyncs, fmt.Sprintf("behaviour %d step: ", idx)+fmt.Sprintf(format, a...))
		rpl.st.mu.Unlock()
	}
	for i, st := range b.Hist {
		if abandoned {
			return
		}
		sent = nil
		refusedWanted := false
		switch st.Op {
		case "req":
			u := uuids[st.V]
			refusedWanted = st.Out != "pass"
			switch {
			case st.Rq.Scope == "instance":
				// one generation of writes on every versioned instance
				gen++
				kind := "put"
				if st.Rq.Method == "DELETE" {
					kind = "del"
				}
				rec := &c2Recorder{w: w, tok: tokQuery(st.Tok, b.TokenSet)}
				rec.writeAll(u, 3+gen, kind)
				atomic.AddInt64(&rpl.st.requests, int64(len(rec.sent)))
				for _, se := range rec.sent {
					if se.Method == "GET" {
						continue // helper read (source image of a tile)
					}
					se.Tok, se.Expect = st.Tok, st.Out
					sent = append(sent, se)
					if refusedWanted && (se.Status < 400 || se.Status > 499) {
						fail("not-refused", i, nil, "the specification refuses this write; the server answered outside 4xx: "+se.Method+" "+se.URL)
						return
					}
				}
				if !refusedWanted {
					okc := 0
					for _, se := range rec.sent {
						if se.Status == 200 && se.Method != "GET" {
							okc++
						}
					}
					if okc == 0 && len(rec.sent) > 0 {
						desync("the specification lets the writes at node %d run (mode %s) but the server accepted none: %v", st.V, st.Mode, rec.sent[:1])
					}
				}
			case st.Rq.Scope == "node" && st.Rq.Action == "note":
				r := do("POST", "/api/node/"+u+"/note", []byte(fmt.Sprintf(`{"note":"note step %d"}`, i)), st.Tok, st.Out)
				if !refusedWanted && r.Status != 200 {
					desync("POST note passes in the specification, server says %d", r.Status)
				}
			case st.Rq.Scope == "node" && st.Rq.Action == "commit":
				r := do("POST", "/api/node/"+u+"/commit", []byte(fmt.Sprintf(`{"note":"commit step %d","log":["l%d"]}`, i, i)), st.Tok, st.Out)
				if !refusedWanted && !st.Locked && r.Status != 200 {
					desync("commit passes in the specification, server says %d %s", r.Status, r.Bytes())
				}
			case st.Rq.Scope == "node" && st.Rq.Action == "newversion":
				if !refusedWanted && st.Locked && len(lk) >= b.MaxNodes {
					continue // the model's node bound, not the server, stops this step
				}
				var r node.Resp
				if kids[st.V] == 0 {
					r = do("POST", "/api/node/"+u+"/newversion", []byte(`{"note":"child"}`), st.Tok, st.Out)
				} else {
					r = do("POST", "/api/node/"+u+"/branch", []byte(fmt.Sprintf(`{"branch":"h%d-%d","note":"child"}`, idx, i)), st.Tok, st.Out)
				}
				if !refusedWanted && st.Locked {
					if r.Status != 200 {
						fail("child-creation-refused", i, nil, "creating a child version of a committed node must stay allowed")
						return
					}
					var o struct{ Child string }
					json.Unmarshal(r.Bytes(), &o)
					uuids[len(lk)+1] = o.Child
					kids[st.V]++
				}
			case st.Rq.Scope == "repo" && st.Rq.Action == "instance":
				r := do("POST", "/api/repo/"+u+"/instance", []byte(`{"typename":"keyvalue","dataname":"other"}`), st.Tok, st.Out)
				if r.Status == 200 && !otherMade {
					// with it a labelmap and an annotation instance synced to it, populated at every open version:
					// the later deletion then removes a POPULATED instance that another one is synced with
					otherMade = true
					if os.Getenv("C02_DEBUG") != "" {
						fmt.Printf("DEBUG new-instance step: lk=%v uuids=%d\n", lk, len(uuids))
					}
					n.HTTP("POST", "/api/repo/"+u+"/instance", []byte(`{"typename":"labelmap","dataname":"otherlm","BlockSize":"32,32,32"}`))
					n.HTTP("POST", "/api/repo/"+u+"/instance", []byte(`{"typename":"annotation","dataname":"otherann","sync":"otherlm"}`))
					for v := 1; v <= len(lk); v++ {
						if !lk[v-1] && uuids[v] != "" {
							if rr, _ := n.HTTP("POST", "/api/node/"+uuids[v]+"/otherlm/raw/0_1_2/"+c2Vol+"/"+c2Off, c2Labels(v)); rr.Status == 200 {
								atomic.AddInt64(&rpl.st.otherPopulated, 1)
							} else if os.Getenv("C02_DEBUG") != "" {
								fmt.Printf("DEBUG populate otherlm at %s: %d %s\n", uuids[v], rr.Status, trunc(string(rr.Bytes()), 200))
							}
							n.HTTP("POST", "/api/node/"+uuids[v]+"/otherann/elements", c2Elements(v))
							n.HTTP("POST", "/api/node/"+uuids[v]+"/other/key/k1", []byte(`"other"`))
						}
					}
					must(n.Idle(), "idle")
				}
			case st.Rq.Scope == "rpc":
				// the same step as a command of the RPC path (c02_rpc.go)
				if st.Rq.Action == "child" && !refusedWanted && st.Locked && len(lk) >= b.MaxNodes {
					continue // the model's node bound, not the server, stops this step
				}
				gen++
				ss, childUUID := rpl.rpcStep(w, st, u, fmt.Sprintf("%d-%d", idx, i), 3+gen)
				sent = append(sent, ss...)
				if !refusedWanted {
					okc := 0
					for _, se := range ss {
						if se.Status == 200 {
							okc++
						}
					}
					switch st.Rq.Action {
					case "child":
						if st.Locked {
							if childUUID == "" {
								fail("child-creation-refused", i, nil, "creating a child version of a committed node must stay allowed (RPC command)")
								return
							}
							uuids[len(lk)+1] = childUUID
							kids[st.V]++
						}
					case "data-write":
						if okc == 0 && len(ss) > 0 {
							desync("the specification lets the RPC writes at node %d run (mode %s) but the server accepted none: %v", st.V, st.Mode, ss[:1])
						}
					}
				}
			default:
				infra("behaviour step %d: request class %+v not mapped", i, st.Rq)
			}
			if refusedWanted {
				for _, se := range sent {
					if se.Status < 400 || se.Status > 499 {
						fail("not-refused", i, nil, "the specification refuses this request; the server answered outside 4xx")
						return
					}
				}
			}
		case "merge":
			if len(lk) >= b.MaxNodes {
				continue
			}
			r := do("POST", "/api/repo/"+w.root+"/merge", []byte(fmt.Sprintf(`{"mergeType":"conflict-free","parents":[%q,%q],"note":"m"}`, uuids[st.P], uuids[st.Q])), "none", "pass")
			if r.Status != 200 {
				desync("merge of two committed nodes refused: %d %s", r.Status, r.Bytes())
			}
			var o struct{ Child string }
			json.Unmarshal(r.Bytes(), &o)
			uuids[len(lk)+1] = o.Child
			kids[st.P]++
			kids[st.Q]++
		case "deleteinstance":
			if otherMade {
				// the populated labelmap first (the annotation instance stays, synced with something that is gone)
				if err := n.Call("gate.deleteinstance", map[string]string{"uuid": w.root, "name": "otherlm"}, nil); err != nil {
					if _, isCall := err.(*node.CallError); !isCall {
						must(err, "delete instance")
					}
				} else {
					atomic.AddInt64(&rpl.st.otherDeleted, 1)
				}
				for t := 0; t < 400; t++ {
					r, err := n.HTTP("GET", "/api/node/"+w.root+"/otherlm/info", nil)
					must(err, "poll deletion")
					if r.Status != 200 {
						break
					}
					time.Sleep(5 * time.Millisecond)
				}
			}
			err := n.Call("gate.deleteinstance", map[string]string{"uuid": w.root, "name": "other"}, nil)
			if err != nil {
				if _, isCall := err.(*node.CallError); !isCall {
					must(err, "delete instance")
				}
			}
			// deletion runs in the background: wait until the instance has left the repo
			for t := 0; t < 400; t++ {
				r, err := n.HTTP("GET", "/api/node/"+w.root+"/other/info", nil)
				must(err, "poll deletion")
				if r.Status != 200 {
					break
				}
				time.Sleep(5 * time.Millisecond)
			}
		case "restart":
			must(n.Idle(), "idle")
			must(n.RestartWith(i%2 == 0, func(c *node.Config) { c.RWMode = modeCfg(b.Cfg) }), "restart")
		case "setmode":
			must(n.Call("gate.setmode", map[string]interface{}{"fn": st.Fn, "on": st.On}, nil), "gate.setmode")
		case "done":
			continue
		default:
			infra("unknown step %q", st.Op)
		}
		if abandoned {
			return
		}
		must(n.Idle(), "idle")
		// follow the specification's commit flags
		for len(lk) < st.NN2 {
			lk = append(lk, false)
		}
		for v := 1; v <= st.NN2; v++ {
			was := lk[v-1]
			lk[v-1] = st.LK2[v-1]
			if uuids[v] == "" {
				infra("behaviour step %d: node %d has no uuid", i, v)
			}
			if !lk[v-1] {
				continue
			}
			reads := w.contentReads([]string{uuids[v]}, nil)
			now := w.take(reads)
			atomic.AddInt64(&rpl.st.snapshots, 1)
			if !was || st.Exc {
				// just committed: check the flag, take the reference snapshot
				for _, e := range now.Entries {
					if e.Key == "node/"+uuids[v]+"/commit" && !strings.Contains(e.Body, "true") {
						desync("node %d is committed in the specification, server says %s", v, e.Body)
					}
				}
				baseline[v] = now
				continue
			}
			d := (&c2Repo{w: w}).confirm(baseline[v], reads, snap.Diff(baseline[v], now))
			if len(d) > 0 {
				if rest := knownFilter(rpl.run, w, d); len(rest) < len(d) {
					d = rest
					baseline[v] = now // the known deviation is reported once per behaviour and node state
				}
			}
			if len(d) > 0 {
				fail("committed-node-changed", i, d, fmt.Sprintf("content, note, log or commit flag of committed node %d (%s) differs from the snapshot taken when it was committed", v, uuids[v]))
				return
			}
		}
		rpl.run.Eval("")
	}
}

// c2Recorder performs a generation of writes leniently, recording every status.
type c2Recorder struct {
	w    *c2World
	tok  string
	sent []c2Sent
}

func (rec *c2Recorder) writeAll(u string, g int, kind string) {
	w := rec.w
	w.lenient = func(method, url string, body []byte) node.Resp {
		if rec.tok != "" {
			if strings.Contains(url, "?") {
				url += "&" + rec.tok
			} else {
				url += "?" + rec.tok
			}
		}
		r, err := w.n.HTTP(method, url, body)
		must(err, "replay write")
		rec.sent = append(rec.sent, c2Sent{Method: method, URL: url, Body: trunc(string(body), 60), Status: r.Status, Resp: trunc(string(r.Bytes()), 100)})
		return r
	}
	defer func() { w.lenient = nil }()
	w.write(u, g, kind)
}

// ---------- the check ----------

func checkC02(c *Ctx) int {
	if os.Getenv("C02_STABILITY") != "" {
		return c2Stability(c)
	}
	run := ev.NewRun("C02", c.Tier, "model_checking")
	t0 := time.Now()
	routes := c2LoadRoutes()
	st := &c2Stats{effective: map[string]bool{}, ineffective: map[string]bool{}, pairs: map[string]bool{}, mutPairs: map[string]bool{}, childKinds: map[string]int{}, unstable: map[string]bool{}, skipped: map[string]string{}, rowsHit: map[string]bool{}}

	// TLC: the decision table comes from a one-node run of the gate model (seconds); the
	// exhaustive gate model and the history model are checked in the background while the
	// sweep and the replays run, and must complete cleanly before the check reports.
	table, rTab := gateTable(c, 1, 2)
	states, trans := rTab.Distinct, rTab.Generated
	var rGate *tlc.Result
	rHist := make([]*tlc.Result, 2)
	histCfgs := []gateConsts{
		{MaxNodes: 3, StartModes: []string{"default"}, Toks: []string{"none"}, History: true, EffNote: true},
		{MaxNodes: 4, StartModes: []string{"default"}, Toks: []string{"none"}, History: true, EffNote: false},
	}
	var bgWG sync.WaitGroup
	var bgErr [3]interface{}
	bgWG.Add(3)
	go func() {
		defer bgWG.Done()
		defer func() { bgErr[0] = recover() }()
		var t2 map[string]gateRow
		t2, rGate = gateTable(c, 2, 4)
		if len(t2) != len(table) {
			infra("decision tables of the two gate runs differ in size")
		}
		for k, row := range t2 {
			if table[k] != row {
				infra("decision tables of the two gate runs differ at %s", k)
			}
		}
	}()
	for i := range histCfgs {
		go func(i int) {
			defer bgWG.Done()
			defer func() { bgErr[1+i] = recover() }()
			name := fmt.Sprintf("gen_hist%d.cfg", i)
			rHist[i] = c.MustModelCheck(tlc.Opts{Module: "Gate", Config: name, Workers: 3,
				Files: map[string][]byte{name: []byte(histCfgs[i].cfg(gateProps))}, Timeout: 25 * time.Minute})
		}(i)
	}

	// behaviours for replay (TLC simulation of the same machine)
	nHist := c.pick(24, 200)
	nMode := c.pick(32, 160)
	sims := make([][]gateBehaviour, 3)
	var simErr [3]interface{}
	var simWG sync.WaitGroup
	for i := 0; i < 3; i++ {
		simWG.Add(1)
		go func(i int) {
			defer simWG.Done()
			defer func() { simErr[i] = recover() }()
			if i == 0 {
				sims[0] = gateSimulate(c, gateConsts{MaxNodes: 5, StartModes: []string{"default"}, Toks: []string{"none"}, History: true, EffNote: true, HistLen: c.pick(14, 18)}, nHist, c.Seed, "gen_sim0.cfg")
			} else {
				sims[i] = gateSimulate(c, gateConsts{MaxNodes: 3, StartModes: allModes, TokenSet: i == 1, Toks: allToks, ModeSwitches: true, EffNote: true, HistLen: c.pick(12, 16)}, nMode/2, c.Seed+int64(i), fmt.Sprintf("gen_sim%d.cfg", i))
			}
		}(i)
	}
	simWG.Wait()
	for _, e := range simErr {
		if e != nil {
			panic(e)
		}
	}
	behaviours := append(append(append([]gateBehaviour{}, sims[0]...), sims[1]...), sims[2]...)
	nHistGot := len(sims[0])

	// sweep chunks
	type chunk struct {
		cfg     c2Config
		variant int
		inst    string
		restart bool
		full    bool // populate every instance, not only the swept one and its partners
		part    int  // keyword share of a heavy instance
		parts   int
	}
	var chunks []chunk
	cfgs := []c2Config{{"default", false}, {"default", true}, {"readonly", false}, {"fullwrite", false}}
	if c.thorough() {
		cfgs = append(cfgs, c2Config{"readonly", true})
	}
	variants := []int{int(c.Seed) % 3}
	if c.thorough() {
		variants = []int{0, 1, 2}
	}
	for vi, v := range variants {
		var names []string
		for _, in := range c2Catalogue(v) {
			names = append(names, in.Name)
		}
		for _, cfg := range cfgs {
			if vi > 0 && (cfg.Mode == "fullwrite" || cfg.Mode == "readonly" && cfg.TokenSet) {
				continue
			}
			full := c.thorough() && vi == 0 && cfg.Mode == "default" && !cfg.TokenSet
			chunks = append(chunks, chunk{cfg, v, "", vi == 1, full, 0, 1})
			for _, name := range names {
				parts := 1
				if name == "lm" || name == "lm2" {
					parts = 3 // ~60 keywords: share them between three servers
				}
				for p := 0; p < parts; p++ {
					chunks = append(chunks, chunk{cfg, v, name, vi == 1, full, p, parts})
				}
			}
		}
	}
	// heavy instances first
	sort.SliceStable(chunks, func(i, j int) bool {
		wgt := func(s string) int {
			switch s {
			case "lm", "lm2":
				return 0
			case "la", "lv", "lb", "ann":
				return 1
			}
			return 2
		}
		return wgt(chunks[i].inst) < wgt(chunks[j].inst)
	})
	sw := &c2Sweeper{c: c, run: run, table: table, routes: routes, st: st, withAdminPass: c.thorough()}
	rpl := &c2Replayer{c: c, run: run, st: st}
	// the RPC command path: every command the source dispatches on, at the committed nodes (c02_rpc.go)
	type rpcChunk struct {
		cfg            c2Config
		variant, group int
	}
	var rpcChunks []rpcChunk
	for _, v := range variants {
		for _, md := range allModes {
			for g := range c2RPCGroups {
				if len(variants) > 1 && v != variants[0] && md != "default" {
					continue
				}
				rpcChunks = append(rpcChunks, rpcChunk{c2Config{md, false}, v, g})
			}
		}
	}
	var tRPC int64
	if os.Getenv("C02_RPC_ONLY") != "" { // development aid
		chunks = nil
		if os.Getenv("C02_RPC_ONLY") == "sweep" {
			behaviours = nil
		}
	}
	nItems := len(chunks) + len(behaviours) + len(rpcChunks)
	var tSweep, tReplay int64
	parallel(nItems, 14, func(_, i int) {
		t := time.Now()
		if i >= len(chunks)+len(behaviours) {
			rc := rpcChunks[i-len(chunks)-len(behaviours)]
			sw.sweepRPC(rc.cfg, rc.variant, rc.group, c.Seed*104729+int64(i))
			atomic.AddInt64(&tRPC, int64(time.Since(t)))
			if os.Getenv("C02_DEBUG") != "" {
				fmt.Printf("DEBUG rpc chunk %v v%d group %d: %.1fs\n", rc.cfg, rc.variant, rc.group, time.Since(t).Seconds())
			}
		} else if i < len(chunks) {
			ch := chunks[i]
			sw.sweepChunk(ch.cfg, ch.variant, ch.inst, ch.restart, c.Seed*7919+int64(i), ch.full, ch.part, ch.parts)
			atomic.AddInt64(&tSweep, int64(time.Since(t)))
			if os.Getenv("C02_DEBUG") != "" {
				fmt.Printf("DEBUG chunk %v v%d %q: %.1fs (requests so far %d)\n", ch.cfg, ch.variant, ch.inst, time.Since(t).Seconds(), atomic.LoadInt64(&st.requests))
			}
		} else {
			bi := i - len(chunks)
			only := c2Groups[bi%len(c2Groups)]
			if c.thorough() && bi%5 == 4 {
				only = nil // every instance at once
			}
			rpl.replay(behaviours[bi], bi, (int(c.Seed)+bi)%3, only)
			atomic.AddInt64(&tReplay, int64(time.Since(t)))
			if os.Getenv("C02_DEBUG") != "" {
				fmt.Printf("DEBUG behaviour %d (%d steps, cfg %s): %.1fs\n", bi, len(behaviours[bi].Hist), behaviours[bi].Cfg, time.Since(t).Seconds())
			}
		}
	})
	bgWG.Wait()
	for _, e := range bgErr {
		if e != nil {
			panic(e)
		}
	}
	states += rHist[0].Distinct + rHist[1].Distinct + rGate.Distinct
	trans += rHist[0].Generated + rHist[1].Generated + rGate.Generated

	// evidence
	list := func(m map[string]bool) []string {
		var out []string
		for k := range m {
			out = append(out, k)
		}
		sort.Strings(out)
		return out
	}
	// keywords for which no mutating request changed a committed node even with the gate open
	var noEffect []string
	for pair := range st.pairs {
		any := false
		for _, m := range []string{"POST", "PUT", "DELETE"} {
			any = any || st.effective[pair+"|"+m]
		}
		if !any {
			noEffect = append(noEffect, pair)
		}
	}
	sort.Strings(noEffect)
	// the weakness counter: keywords whose handler has a POST / PUT / DELETE branch (go/ast, a lower bound) and
	// for which no request changed a committed node even with the gate open - "refused" is all that is shown
	var mutNoEffect []string
	for _, pair := range noEffect {
		if st.mutPairs[pair] {
			mutNoEffect = append(mutNoEffect, pair)
		}
	}
	// payloads added for keywords that had none must work: a payload that stops being effective is a
	// harness regression (exit 2), not a verdict
	for _, ek := range c2MustBeEffective {
		if st.ineffective[ek] && !st.effective[ek] {
			run.Write()
			infra("the documented payload for %s no longer changes a committed node in full-write mode (payloads() in c02_world.go)", ek)
		}
	}
	types := map[string]bool{}
	for k := range st.pairs {
		types[strings.SplitN(k, "|", 2)[0]] = true
	}
	if len(behaviours) > 0 {
		run.Sample(map[string]interface{}{"behaviour_from_tlc": behaviours[0].Hist[:4], "configured_mode": behaviours[0].Cfg})
		run.Sample(map[string]interface{}{"mode_switch_behaviour_from_tlc": behaviours[len(behaviours)-1].Hist[:4], "configured_mode": behaviours[len(behaviours)-1].Cfg})
	}
	for _, row := range table {
		if row.Locked && row.Out == "refused-locked" && row.Rq.Scope == "instance" && row.Tok == "wrong" {
			run.Sample(map[string]interface{}{"decision_table_row": row})
			break
		}
	}
	run.Set("states", states)
	run.Set("transitions", trans)
	run.Set("traces_validated_against_impl", int64(len(behaviours))+int64(len(st.rowsHit)))
	run.Set("behaviours_replayed", len(behaviours))
	run.Set("history_behaviours", nHistGot)
	run.Set("mode_switch_behaviours", len(behaviours)-nHistGot)
	run.Set("decision_table_rows", len(table))
	run.Set("decision_table_rows_exercised", len(st.rowsHit))
	run.Set("requests_sent", st.requests)
	run.Set("snapshots_compared", st.snapshots)
	run.Set("refusals_checked", st.refusedChecked)
	run.Set("child_creations_checked", st.childChecked)
	run.Set("child_creations_by_action_and_addressing", st.childKinds)
	run.Set("split_supervoxel_writes_in_histories", atomic.LoadInt64(&c2SplitSVDone))
	run.Set("later_history_populated_synced_instances_deleted", st.otherDeleted)
	run.Set("later_history_versions_populated_before_deletion", st.otherPopulated)
	run.Set("requests_under_exception", st.excRequests)
	run.Set("route_pairs_swept", len(st.pairs))
	run.Set("datatypes_swept", list(types))
	run.Set("datatypes_not_instantiable", st.skipped)
	run.Set("effective_payloads", list(st.effective))
	run.Set("keywords_without_effective_mutating_payload", noEffect)
	run.Set("keywords_with_mutating_branch", len(st.mutPairs))
	run.Set("mutating_keywords_without_effective_payload", mutNoEffect)
	run.Set("mutating_keywords_without_effective_payload_count", len(mutNoEffect))
	var nonLit []string
	for k := range resolvedNonLiteral {
		nonLit = append(nonLit, k)
	}
	sort.Strings(nonLit)
	run.Set("keywords_from_non_literal_case_expressions", nonLit)
	run.Set("unstable_reads_dropped", list(st.unstable))
	run.Set("node_crashes_during_sweep", st.crashes)
	run.Set("node_hangs_during_sweep", st.hangs)
	if len(st.troubles) > 0 {
		tr := st.troubles
		if len(tr) > 8 {
			tr = tr[:8]
		}
		run.Set("crash_or_hang_requests", tr)
	}
	if os.Getenv("C02_DEBUG") != "" {
		for _, t := range st.troubles {
			fmt.Println("DEBUG trouble:", t)
		}
	}
	c2RPCEvidence(run, time.Duration(tRPC).Seconds(), len(rpcChunks))
	run.Set("sweep_cpu_s", time.Duration(tSweep).Seconds())
	run.Set("replay_cpu_s", time.Duration(tReplay).Seconds())
	run.Set("tlc_models", fmt.Sprintf("Gate gate-config (2 nodes, every request class x node x token, 3 start modes, mode switches, restart): %d states / %d transitions; Gate history-configs (writes, commits, children, merges, second instance, deletion, restart): 3 nodes with notes %d states / %d transitions, 4 nodes %d states / %d transitions; Act_C02_Frozen, Act_RefusedIsStutter, Act_CommitIsPermanent, TableClaims",
		rGate.Distinct, rGate.Generated, rHist[0].Distinct, rHist[0].Generated, rHist[1].Distinct, rHist[1].Generated))
	run.Set("rule", "sweep case = (datatype, endpoint keyword, method, server mode, token configuration): the (datatype, keyword) pairs come from go/ast over each datatype's ServeHTTP switch and server/web.go:initRoutes of the tree under test; TLC (Gate.tla) enumerates the request classes and prints the decision table (spec outcome, exception, frozen) that every concrete request is looked up in; the class of a concrete request is read off the server (DataService.IsMutationRequest, Versioned); each class is expanded into documented mutating payloads where the harness has one plus generic probes and sent to a committed node (root, a committed child with deletions, a committed branch); verdict by state: the versioned-content reads of the instance and its sync partners at all committed nodes plus note/log/commit flag must be identical afterwards, spec-refused requests must answer 4xx, a new branch of a committed node must answer 200; distinct_nontrivial counts distinct (type, keyword, method, mode, token set) cases compared without exception; behaviours: TLC -simulate of the same machine (histories with children, siblings, merges, second instance, deletion, restarts; mode-switch behaviours with tokens) replayed with every step expanded to writes on every instance, all committed nodes re-read after every step")
	run.Assume = []string{
		"reads used as witnesses: the versioned GET endpoints listed in c02_world.go:reads; instance-level settings (info, tags, sync, extents, resolution, imagetile metadata, repo-wide nextlabel) are unversioned by design and excluded",
		"googlevoxels cannot be instantiated offline (needs a Google volume id); its keywords are therefore not swept",
		"a mutating endpoint for which the harness has no effective payload is shown refused, not shown harmless-if-accepted (listed under keywords_without_effective_mutating_payload; most of them are read-only endpoints)",
		"blobstore (content-addressed, unversioned) and unversioned instances are outside 'versioned data at that version'",
	}
	run.Set("behaviours_abandoned", len(st.desyncs))
	if len(st.desyncs) > 0 && run.Violations() == 0 {
		run.Write()
		infra("%d behaviours could not be replayed to the end because the server refused a step the specification lets run (no verdict): %s", len(st.desyncs), st.desyncs[0])
	}
	fmt.Printf("C02: tlc %d states; %d sweep chunks, %d route pairs, %d requests, %d snapshots, %d refusals checked, %d behaviours replayed in %.1fs; violations=%d\n",
		states, len(chunks), len(st.pairs), st.requests, st.snapshots, st.refusedChecked, len(behaviours), since(t0), run.Violations())
	return run.Finish()
}

// c2Stability is a development aid: repeated snapshots of a prepared repository, listing
// reads whose answer varies and the slowest reads.
func c2Stability(c *Ctx) int {
	rp := c2Prepare(c, node.Config{}, int(c.Seed)%3, nil)
	t0 := time.Now()
	reads := rp.w.contentReads(rp.committed, nil)
	fmt.Printf("prepared in ? ; %d reads over %d committed nodes\n", len(reads), len(rp.committed))
	a := rp.w.take(reads)
	fmt.Printf("one snapshot: %.2fs\n", time.Since(t0).Seconds())
	bad := map[string]int{}
	for i := 0; i < 10; i++ {
		b := rp.w.take(reads)
		for _, d := range snap.Diff(a, b) {
			bad[diffKey(d)]++
		}
	}
	for k, n := range bad {
		fmt.Println("UNSTABLE", n, k)
	}
	type tm struct {
		k string
		d time.Duration
	}
	var tms []tm
	for _, rd := range reads[:len(reads)/len(rp.committed)] {
		t := time.Now()
		rp.w.take([]snap.Read{rd})
		tms = append(tms, tm{rd.Key, time.Since(t)})
	}
	sort.Slice(tms, func(i, j int) bool { return tms[i].d > tms[j].d })
	for _, x := range tms[:15] {
		fmt.Println("SLOW", x.d, x.k)
	}
	st := map[int]int{}
	for _, e := range a.Entries {
		st[e.Status]++
	}
	fmt.Println("status histogram", st)
	return 0
}
