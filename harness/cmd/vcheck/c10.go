package main

// C10: operations on compressed label blocks equal the voxel-wise reference.
//
// (1) Sequences on one evolving block.  TLC explores specs/LabelBlockSeq.tla: every
//     behaviour of Depth 2 over all operation arguments (exhaustive), a seeded random
//     sub-tree of deeper behaviours (Rand), after model-checking the claims of the property
//     (LabelBlock!MergeClaims ... AlgebraClaims) on every reachable labelling.  Every
//     behaviour carries the labelling and the returned counts (as region sets) each step
//     must produce; it is replayed on one real labels.Block that is kept and mutated through
//     the sequence, on a seeded concrete geometry of the four regions.
// (2) 2x down-sampling.  Seeded cases over the combinations of absent / solid / full
//     octants; TLC (specs/LabelBlockDownres.tla) evaluates the vote of every site and checks
//     the claims about it; Block.Downres, Block.DownresSlow, DownresLabels (array domain)
//     and Block.DownresFast run side by side on the real code.

import (
	"encoding/json"
	"fmt"
	"hash/fnv"
	"math/rand"
	"sort"
	"strings"
	"time"

	"verifharness/internal/ev"
	lg "verifharness/internal/lblgeom"
	"verifharness/internal/tlc"
)

func init() { checks["C10"] = checkC10 }

// known findings of C10 (ids in known_findings.json)
const (
	c10SplitFast   = "splitfast-diverges"
	c10DownresFast = "downresfast-diverges"
)

type seqStep struct {
	Op     string            `json:"op"`
	T      int               `json:"t"`
	N      int               `json:"n"`
	M      []int             `json:"m"`
	Map    json.RawMessage   `json:"map"`
	S      []int             `json:"s"`
	Res    []int             `json:"res"`
	Size   []int             `json:"size"`
	Some   bool              `json:"some"`
	Nil    bool              `json:"nil"`
	Kept   []int             `json:"kept"`
	Split  []int             `json:"split"`
	Sv     int               `json:"sv"`
	Sl     int               `json:"sl"`
	Rl     int               `json:"rl"`
	Pre    [][3]int          `json:"pre"`
	Stats  []json.RawMessage `json:"stats"`
	NoKey  bool              `json:"nokey"`  // growth: SplitSupervoxelOp without this block's key
	FailAt int               `json:"failat"` // growth: the label allocator fails at this call
	Fails  bool              `json:"fails"`
}

type seqBehaviour []seqStep

// steps replayed per operation (the comparison loop is sequential)
var c10OpCount = map[string]int{}
var c10RLEPres [3]int // behaviours per presentation of the split run-lengths
var c10DownresSizes = map[[3]int]int{}
var c10BigEvery = 101 // one 64^3 and one 32x64x32 down-sampling case per c10BigEvery cases (164 in the thorough tier)

func (b seqBehaviour) key() string {
	var sb strings.Builder
	for _, s := range b {
		sb.WriteString(s.Op)
		sb.WriteByte(' ')
	}
	return sb.String()
}

// id identifies the behaviour (initial labelling and every operation with its arguments).
func (b seqBehaviour) id() string {
	h := fnv.New64a()
	h.Write([]byte(jsonStr(b)))
	return fmt.Sprintf("%016x", h.Sum64())
}

type c10Divergence struct {
	Kind      string       `json:"kind"`
	Step      int          `json:"step,omitempty"`
	Behaviour seqBehaviour `json:"behaviour,omitempty"`
	Case      interface{}  `json:"case"`
	Expected  interface{}  `json:"expected,omitempty"`
	Observed  interface{}  `json:"observed,omitempty"`
}

func seqCfg(depth, ninits int, thin, rnd bool, invs string, view bool) string {
	b := map[bool]string{true: "TRUE", false: "FALSE"}
	s := fmt.Sprintf("SPECIFICATION Spec\nCONSTANTS\n  Depth = %d\n  NInits = %d\n  Thin = %s\n  Rand = %s\nINVARIANTS %s\nCHECK_DEADLOCK FALSE\n",
		depth, ninits, b[thin], b[rnd], invs)
	if view {
		s += "VIEW LabView\n"
	}
	return s
}

func seqEmit(c *Ctx, depth, ninits int, thin, rnd bool, seed int64) ([]seqBehaviour, *tlc.Result) {
	o := tlc.Opts{Module: "LabelBlockSeq", Config: "gen_seq.cfg",
		Files:   map[string][]byte{"gen_seq.cfg": []byte(seqCfg(depth, ninits, thin, rnd, "Inv_Hist Emit", false))},
		Timeout: 20 * time.Minute, Xss: "64m", Extra: []string{"-fp", "5"}, Seed: seed}
	r := c.MustModelCheck(o)
	var out []seqBehaviour
	PrintedJSON(r.Output, func(raw []byte) {
		var b seqBehaviour
		if err := json.Unmarshal(raw, &b); err == nil && len(b) == depth+1 && b[0].Op == "init" {
			out = append(out, b)
		}
	})
	if len(out) == 0 {
		infra("LabelBlockSeq emitted nothing:\n%s", r.Tail(2000))
	}
	sort.Slice(out, func(i, j int) bool { return jsonStr(out[i]) < jsonStr(out[j]) })
	return out, r
}

// seqGeometry draws a geometry with exactly nr regions.
func seqGeometry(rng *rand.Rand, size [3]int, nr int) lg.Geometry {
	g := lg.Geometry{Size: size}
	nsb := g.NumSB()
	// in a quarter of the geometries the last region is one single voxel
	single := rng.Intn(4) == 0
	singleSB := rng.Intn(nsb)
	draw := nr
	if single {
		draw = nr - 1
	}
	for {
		g.SBs = make([]lg.SB, nsb)
		used := map[int]bool{}
		for q := range g.SBs {
			if single && q == singleSB {
				g.SBs[q] = lg.SB{Scheme: lg.V, Param: rng.Intn(512), Regions: []int{nr, 1 + rng.Intn(draw)}}
				continue
			}
			var sb lg.SB
			switch rng.Intn(10) {
			case 0, 1, 2:
				sb.Scheme = lg.W
			case 3:
				sb.Scheme = lg.Hx + rng.Intn(3)
			case 4:
				sb.Scheme, sb.Param = lg.V, rng.Intn(512)
			case 5:
				sb.Scheme, sb.Param = lg.S, 1+rng.Intn(511)
			case 6:
				sb.Scheme = lg.K
			case 7:
				sb.Scheme, sb.Param = lg.Q, 1+rng.Intn(7)
			case 8:
				sb.Scheme, sb.Param = lg.C, 1+rng.Intn(len(lg.Corner)-1)
			default:
				sb.Scheme = lg.O
			}
			np := lg.NumParts(sb.Scheme, sb.Param)
			sb.Regions = make([]int, np)
			for p := range sb.Regions {
				sb.Regions[p] = 1 + rng.Intn(draw)
				used[sb.Regions[p]] = true
			}
			// neighbouring whole sub-blocks of one region: runs cross sub-block boundaries
			if sb.Scheme == lg.W && q > 0 && rng.Intn(2) == 0 && !(single && q-1 == singleSB) {
				sb.Regions[0] = g.SBs[q-1].Regions[0]
			}
			g.SBs[q] = sb
		}
		used = map[int]bool{}
		for _, sb := range g.SBs {
			for _, r := range sb.Regions {
				used[r] = true
			}
		}
		if len(used) == nr {
			return g
		}
	}
}

type seqReplay struct {
	beh    seqBehaviour
	c      *lg.Case
	m      []uint64
	preS   uint64
	preR   uint64
	fresh0 uint64
}

func c10SeqCase(b seqBehaviour, id int, rng *rand.Rand, fast bool) *seqReplay {
	size := [3]int{16, 16, 16}
	switch rng.Intn(8) {
	case 0:
		size = [3]int{32, 16, 16}
	case 1:
		size = [3]int{16, 16, 24}
	}
	class := []string{"small", "top", "wide", "top"}[rng.Intn(4)]
	m := labelMap(class, 8, rng)
	rp := &seqReplay{beh: b, m: m}
	inUse := map[uint64]bool{}
	for _, v := range m {
		inUse[v] = true
	}
	pick := func() uint64 {
		for {
			v := uint64(3000000000) + uint64(rng.Intn(1000000))*4
			if !inUse[v] && !inUse[v+1] && !inUse[v+2] && !inUse[v+3] {
				inUse[v] = true
				return v
			}
		}
	}
	rp.preS, rp.preR = pick(), pick()
	rp.fresh0 = uint64(5000000000) + uint64(rng.Intn(1000000))*64
	c := &lg.Case{ID: id, Geom: seqGeometry(rng, size, len(b[0].Res)), Seed: rng.Int63(), StepViews: true, Fast: fast}
	c.RLEPres = id % 3 // growth: split run-lengths as maximal runs / broken into adjacent runs / single voxels
	c10RLEPres[c.RLEPres]++
	c.BCoord = [3]int32{int32(rng.Intn(5)) - 2, int32(rng.Intn(5)) - 1, int32(rng.Intn(300)) - 100}
	for _, a := range b[0].Res {
		c.Pal = append(c.Pal, []uint64{m[a]})
	}
	c.Lay = make([]int, len(c.Pal))
	// label sets for the sparse views of the evolving block
	c.Sets = [][]uint64{{m[1]}, {m[4], m[2]}, {m[1], m[2], m[3]}}
	conc := func(a int) uint64 {
		switch {
		case a == 2001:
			return rp.preS
		case a == 2002:
			return rp.preR
		case a < len(m):
			return m[a]
		}
		infra("behaviour uses label %d as an argument", a)
		return 0
	}
	for _, s := range b[1:] {
		st := lg.Step{Op: s.Op, S: s.S, Marshal: rng.Intn(3) == 0}
		switch s.Op {
		case "merge":
			st.T = conc(s.T)
			for _, a := range s.M {
				st.M = append(st.M, conc(a))
			}
		case "replace":
			st.T, st.N = conc(s.T), conc(s.N)
		case "replacelabels":
			var ps [][2]int
			must(json.Unmarshal(s.Map, &ps), "map")
			for _, p := range ps {
				st.Map = append(st.Map, [2]uint64{conc(p[0]), conc(p[1])})
			}
		case "split":
			st.T, st.N = conc(s.T), conc(s.N)
		case "splitsv":
			st.T, st.N, st.M = conc(s.Sv), conc(s.Sl), []uint64{conc(s.Rl)}
			st.NoKey = s.NoKey
		case "splitsvs":
			var ts [][3]int
			must(json.Unmarshal(s.Map, &ts), "svmap")
			for _, t := range ts {
				st.SVMap = append(st.SVMap, [3]uint64{conc(t[0]), conc(t[1]), conc(t[2])})
			}
		case "dosplit":
			for _, t := range s.Pre {
				st.SVMap = append(st.SVMap, [3]uint64{conc(t[0]), conc(t[1]), conc(t[2])})
			}
			st.Fresh0 = rp.fresh0
			st.FailAt = s.FailAt
		default:
			infra("unknown op %q in behaviour", s.Op)
		}
		c.Steps = append(c.Steps, st)
	}
	rp.c = c
	return rp
}

// c10SeqCompare compares one replayed behaviour; returns the number of steps compared.
func c10SeqCompare(run *ev.Run, rp *seqReplay, o *lg.CaseObs) int {
	b, c := rp.beh, rp.c
	viol := func(kind string, step int, exp, obs interface{}) {
		run.Violation("c10", c10Divergence{Kind: kind, Step: step, Behaviour: b, Case: c, Expected: exp, Observed: obs})
	}
	if o.Err != "" {
		infra("labels.run case %d: %s", c.ID, o.Err)
	}
	if o.Panic != "" || o.MakeErr != "" || !o.RoundTrip {
		viol("initial-block", 0, nil, o.Panic+o.MakeErr+o.Detail)
		return 0
	}
	sizes := o.Sizes
	bound := map[int]uint64{2001: rp.preS, 2002: rp.preR}
	conc := func(a int) (uint64, bool) {
		if a < len(rp.m) {
			return rp.m[a], true
		}
		v, ok := bound[a]
		return v, ok
	}
	n := 0
	for i, so := range o.Steps {
		s := b[i+1]
		step := i + 1
		if so.Panic != "" {
			viol("panic:"+s.Op, step, nil, so.Panic)
			return n
		}
		if so.Err != "" {
			viol("error:"+s.Op, step, nil, so.Err)
			return n
		}
		n++
		c10OpCount[s.Op]++
		switch s.Op {
		case "replace":
			if want := sumRegions(sizes, s.Size); so.Replaced != want {
				viol("replace-size", step, want, so.Replaced)
			}
		case "replacelabels":
			if s.Some && !so.ReplacedAny {
				viol("replacelabels-flag", step, true, false)
			}
		case "split":
			if so.Nil != s.Nil {
				viol("split-nil", step, s.Nil, so.Nil)
			}
			wk, ws := sumRegions(sizes, s.Kept), sumRegions(sizes, s.Split)
			if so.Kept != wk || so.Split != ws {
				viol("split-counts", step, [2]uint64{wk, ws}, [2]uint64{so.Kept, so.Split})
			}
			if so.FastRun && !so.FastSame {
				if run.KnownActive(c10SplitFast) {
					run.ReportKnown(c10SplitFast)
				} else {
					viol("splitFast-vs-splitSlow", step, "same block and counts as Split", so.FastErr+so.FastPanic+so.FastDiff)
				}
			}
		case "splitsv":
			if s.NoKey {
				c10OpCount["splitsv-without-block-key"]++
			}
			wk, ws := sumRegions(sizes, s.Kept), sumRegions(sizes, s.Split)
			if so.Kept != wk || so.Split != ws {
				viol("splitsv-counts", step, [2]uint64{wk, ws}, [2]uint64{so.Kept, so.Split})
			}
		case "dosplit":
			if s.Fails {
				c10OpCount["dosplit-allocator-fails"]++
				if !so.AllocFailed {
					viol("dosplit-allocator-failure", step, "an error and no block from SplitStats and DoSplitWithStats", so)
					return n
				}
				break
			}
			type est struct {
				L, S, R int
				Regs    []int
			}
			var exp []est
			for _, raw := range s.Stats {
				var t []json.RawMessage
				must(json.Unmarshal(raw, &t), "stats")
				var e est
				json.Unmarshal(t[0], &e.L)
				json.Unmarshal(t[1], &e.S)
				json.Unmarshal(t[2], &e.R)
				json.Unmarshal(t[3], &e.Regs)
				exp = append(exp, e)
			}
			got := map[uint64]lg.Stat{}
			for _, st := range so.Stats {
				got[st.Label] = st
			}
			only := map[uint64]uint64{}
			for _, st := range so.StatsOnly {
				only[st.Label] = st.Voxels
			}
			ok := len(got) == len(exp) && len(only) == len(exp)
			fresh := map[uint64]bool{}
			for _, e := range exp {
				l, _ := conc(e.L)
				st, found := got[l]
				want := sumRegions(sizes, e.Regs)
				if !found || st.Voxels != want || only[l] != want {
					ok = false
					continue
				}
				for _, pr := range [][2]interface{}{{e.S, st.Split}, {e.R, st.Remain}} {
					sym, val := pr[0].(int), pr[1].(uint64)
					if pre, isPre := bound[sym]; isPre {
						if pre != val {
							ok = false
						}
						continue
					}
					if val < rp.fresh0 || fresh[val] {
						ok = false // not a newly allocated label
					}
					fresh[val] = true
					bound[sym] = val
				}
			}
			if !ok {
				viol("dosplit-stats", step, s.Stats, map[string]interface{}{"DoSplitWithStats": so.Stats, "SplitStats": so.StatsOnly})
				return n
			}
		}
		// the block after the step
		if !so.Decoded.Uniform {
			viol("result:"+s.Op, step, s.Res, so.Decoded.Bad)
			return n
		}
		want := make([]uint64, len(s.Res))
		got := make([]uint64, len(s.Res))
		for r, a := range s.Res {
			v, ok := conc(a)
			if !ok {
				infra("behaviour %v: label %d of step %d is not bound", b.key(), a, step)
			}
			want[r] = v
			got[r] = so.Decoded.Atoms[r][0]
		}
		if !u64Equal(want, got) {
			viol("result:"+s.Op, step, map[string]interface{}{"abstract": s.Res, "labels": want}, got)
			return n
		}
		if v := so.Views; v != nil {
			for name, ok := range map[string]bool{"CalcNumLabels": v.NumLabelsOK, "CalcNumLabels(prev)": v.DeltaOK, "Value": v.ValueOK,
				"GetPointLabels": v.PointsOK, "WriteLabelVolume": v.StreamOK, "Marshal-Unmarshal": v.MarshalOK} {
				if !ok {
					viol("view-after-"+s.Op+":"+name, step, "equal to the decoded volume of the result block", v.Detail)
				}
			}
			for si, sv := range v.Sets {
				maskInfra(&sv.RLE)
				maskInfra(&sv.Bin)
				if sv.RLE.Err != "" || !sv.RLE.OK {
					viol("view-after-"+s.Op+":WriteRLEs", step, c.Sets[si], sv.RLE.Err+" "+sv.RLE.Detail)
				}
				if sv.Bin.Err != "" || !sv.Bin.OK {
					viol("view-after-"+s.Op+":WriteBinaryBlocks", step, c.Sets[si], sv.Bin.Err+" "+sv.Bin.Detail)
				}
			}
		}
	}
	if len(o.Steps) != len(b)-1 {
		infra("case %d: %d step observations for %d steps", c.ID, len(o.Steps), len(b)-1)
	}
	return n
}

// ---- down-sampling

type drCase struct {
	c     *lg.DownresCase
	m     []uint64
	kinds [8]int
	tla   string
	exp   [][][]int
}

func tlaInts(a []int) string {
	s := make([]string, len(a))
	for i, x := range a {
		s[i] = fmt.Sprint(x)
	}
	return "<<" + strings.Join(s, ", ") + ">>"
}

func c10DownresCase(id int, kinds [8]int, rng *rand.Rand, fast bool) *drCase {
	size := [][3]int{{16, 16, 16}, {16, 16, 16}, {32, 16, 16}, {16, 32, 16}, {16, 16, 32}}[rng.Intn(5)]
	// growth: a few cases on 64^3 / 32x64x32 blocks, and a third of the cases with a wide label pool
	// (up to 40 labels per octant instead of 5: larger label tables, more tie situations)
	switch id % c10BigEvery {
	case 7:
		size = [3]int{64, 64, 64}
	case 19:
		size = [3]int{32, 64, 32}
	}
	rich := id%3 == 1
	class := []string{"small", "top", "wide"}[rng.Intn(3)]
	nlab := 6
	if rich {
		nlab = 40
	}
	m := labelMap(class, nlab, rng)
	c10DownresSizes[size]++
	d := &drCase{m: m, kinds: kinds}
	c := &lg.DownresCase{ID: id, Size: size, Fast: fast}
	gx, gy, gz := size[0]/8, size[1]/8, size[2]/8
	nsb := gx * gy * gz
	// previous lower-resolution block: one label per (octant, hi-res sub-block) cube
	prev := make([][]int, 8)
	mode := rng.Intn(10)
	for o := range prev {
		prev[o] = make([]int, nsb)
		for q := range prev[o] {
			switch {
			case mode < 2:
				prev[o][q] = 0
			case mode == 2:
				prev[o][q] = 5
			default:
				prev[o][q] = []int{0, 1, 2, 5, 5}[rng.Intn(5)]
			}
		}
	}
	c.Prev = lg.Geometry{Size: size, SBs: make([]lg.SB, nsb)}
	c.PrevPal = make([][]uint64, 8*nsb)
	for SZ := 0; SZ < gz; SZ++ {
		for SY := 0; SY < gy; SY++ {
			for SX := 0; SX < gx; SX++ {
				sb := lg.SB{Scheme: lg.O, Regions: make([]int, 8)}
				for p := 0; p < 8; p++ {
					cx, cy, cz := p%2, (p/2)%2, p/4
					hx, hy, hz := 2*SX+cx, 2*SY+cy, 2*SZ+cz // hi-res sub-block coordinate in the 2x grid
					ox, oy, oz := hx/gx, hy/gy, hz/gz
					o := oz*4 + oy*2 + ox
					q := (hz-oz*gz)*gx*gy + (hy-oy*gy)*gx + (hx - ox*gx)
					sb.Regions[p] = o*nsb + q + 1
					c.PrevPal[o*nsb+q] = []uint64{m[prev[o][q]]}
				}
				c.Prev.SBs[SZ*gx*gy+SY*gx+SX] = sb
			}
		}
	}
	if mode < 2 && rng.Intn(2) == 0 {
		c.PrevSolid = true
	}
	var sb strings.Builder
	sb.WriteString("[prev |-> <<")
	for o := 0; o < 8; o++ {
		if o > 0 {
			sb.WriteString(", ")
		}
		sb.WriteString(tlaInts(prev[o]))
	}
	sb.WriteString(">>, oct |-> <<")
	for o := 0; o < 8; o++ {
		if o > 0 {
			sb.WriteString(", ")
		}
		oc := &c.Oct[o]
		oc.Kind = kinds[o]
		lbl := 0
		switch kinds[o] {
		case 0:
			sb.WriteString("[kind |-> 0, lbl |-> 0, sites |-> <<>>]")
		case 1:
			lbl = []int{0, 0, 1, 2, 5}[rng.Intn(5)]
			oc.Label = m[lbl]
			oc.Made = rng.Intn(3) == 0
			fmt.Fprintf(&sb, "[kind |-> 1, lbl |-> %d, sites |-> <<>>]", lbl)
		case 2:
			g := &lg.Geometry{Size: size, SBs: make([]lg.SB, nsb)}
			oc.Geom = g
			fmt.Fprintf(&sb, "[kind |-> 2, lbl |-> 0, sites |-> <<")
			uniform := rng.Intn(12) == 0 // a full octant that happens to hold one label
			ulabel := rng.Intn(3)
			for q := 0; q < nsb; q++ {
				if q > 0 {
					sb.WriteString(", ")
				}
				cp := rng.Intn(len(lg.Corner))
				s := lg.SB{Scheme: lg.C, Param: cp}
				groups := 1
				if rng.Intn(3) == 0 {
					s = lg.SB{Scheme: lg.HC, Param: rng.Intn(3)*16 + cp}
					groups = 2
				}
				w := lg.CornerWeights(cp)
				pool := [][]int{{0, 1}, {1, 2}, {0, 1, 2}, {1, 2, 3}, {0, 3, 4}, {2}, {0}, {1, 2, 3, 4}}[rng.Intn(8)]
				if rich {
					pool = make([]int, 2+rng.Intn(4))
					for i := range pool {
						pool[i] = rng.Intn(nlab + 1)
					}
				}
				sb.WriteString("<<")
				for gi := 0; gi < groups; gi++ {
					if gi > 0 {
						sb.WriteString(", ")
					}
					sb.WriteString("<<")
					for cl := range w {
						a := pool[rng.Intn(len(pool))]
						if uniform {
							a = ulabel
						}
						oc.Pal = append(oc.Pal, []uint64{m[a]})
						s.Regions = append(s.Regions, len(oc.Pal))
						if cl > 0 {
							sb.WriteString(", ")
						}
						fmt.Fprintf(&sb, "<<%d, %d>>", a, w[cl])
					}
					sb.WriteString(">>")
				}
				sb.WriteString(">>")
				g.SBs[q] = s
			}
			sb.WriteString(">>]")
		}
	}
	sb.WriteString(">>]")
	d.c = c
	d.tla = sb.String()
	return d
}

func evalDownres(c *Ctx, all []*drCase) (states, trans int64) {
	const batch = 1200
	for off := 0; off < len(all); off += batch {
		end := off + batch
		if end > len(all) {
			end = len(all)
		}
		s, t := evalDownresBatch(c, all[off:end])
		states += s
		trans += t
	}
	return
}

func evalDownresBatch(c *Ctx, cases []*drCase) (states, trans int64) {
	var sb strings.Builder
	sb.WriteString("---- MODULE LabelBlockDownresCases ----\nCases == <<\n")
	for i, d := range cases {
		if i > 0 {
			sb.WriteString(",\n")
		}
		sb.WriteString(d.tla)
	}
	sb.WriteString("\n>>\n====\n")
	cfg := "SPECIFICATION Spec\nINVARIANTS AllClaims Emit\nCHECK_DEADLOCK FALSE\n"
	r := c.MustModelCheck(tlc.Opts{Module: "LabelBlockDownres", Config: "gen_downres.cfg",
		Files:   map[string][]byte{"LabelBlockDownresCases.tla": []byte(sb.String()), "gen_downres.cfg": []byte(cfg)},
		Timeout: 20 * time.Minute, Xss: "64m"})
	got := 0
	PrintedJSON(r.Output, func(raw []byte) {
		var out struct {
			I   int       `json:"i"`
			Exp [][][]int `json:"exp"`
		}
		if err := json.Unmarshal(raw, &out); err == nil && out.I >= 1 && out.I <= len(cases) && len(out.Exp) == 8 {
			cases[out.I-1].exp = out.Exp
			got++
		}
	})
	if got != len(cases) {
		infra("LabelBlockDownres evaluated %d of %d cases:\n%s", got, len(cases), r.Tail(1500))
	}
	return r.Distinct, r.Generated
}

func c10DownresCompare(run *ev.Run, d *drCase, o *lg.DownresObs) int {
	if o.Err != "" {
		infra("labels.downres case %d: %s", d.c.ID, o.Err)
	}
	n := 0
	for _, p := range o.Paths {
		if !p.Run {
			continue
		}
		n++
		bad := ""
		var obs interface{}
		switch {
		case p.Panic != "":
			bad, obs = "panic", p.Panic
		case p.Err != "":
			bad, obs = "error", p.Err
		case !p.Uniform:
			bad, obs = "result", p.Bad
		default:
			for oi := range d.exp {
				for q := range d.exp[oi] {
					for g, a := range d.exp[oi][q] {
						if bad == "" && (q >= len(p.Sites[oi]) || g >= len(p.Sites[oi][q]) || p.Sites[oi][q][g] != d.m[a]) {
							bad = "result"
							obs = map[string]interface{}{"octant": oi, "hires_subblock": q, "site": g, "expected_label": d.m[a], "sites_observed": p.Sites[oi][q]}
						}
					}
				}
			}
		}
		if bad == "" {
			continue
		}
		if p.Name == "DownresFast" && run.KnownActive(c10DownresFast) {
			run.ReportKnown(c10DownresFast)
			continue
		}
		run.Violation("c10", c10Divergence{Kind: "downres:" + p.Name + ":" + bad, Case: map[string]interface{}{"kinds": d.kinds, "case": d.c, "model_case": d.tla},
			Expected: d.exp, Observed: obs})
	}
	return n
}

func checkC10(c *Ctx) int {
	run := ev.NewRun("C10", c.Tier, "model_checking")
	t0 := time.Now()
	rng := rand.New(rand.NewSource(c.Seed))
	var states, trans int64
	// (0) the claims of the property on the model
	r := c.MustModelCheck(tlc.Opts{Module: "LabelBlockSeq", Config: "gen_seq_claims.cfg",
		Files:   map[string][]byte{"gen_seq_claims.cfg": []byte(seqCfg(c.pick(1, 3), 6, false, false, "Inv_OpClaims Inv_Hist", true))},
		Timeout: 20 * time.Minute, Xss: "64m"})
	states += r.Distinct
	trans += r.Generated
	labellings := r.Distinct
	// (1) behaviours: emitted, replayed and compared run by run
	pool := newLblPool(c, 16)
	defer pool.close()
	tTLC := since(t0)
	steps, nBeh, nExh, nRand := 0, 0, 0, 0
	var sampleBeh []map[string]interface{}
	replayRun := func(depth, ninits int, thin, rnd bool, seed int64) int {
		t1 := time.Now()
		behs, r1 := seqEmit(c, depth, ninits, thin, rnd, seed)
		tTLC += since(t1)
		states += r1.Distinct
		trans += r1.Generated
		replays := make([]*seqReplay, len(behs))
		cases := make([]*lg.Case, len(behs))
		for i, b := range behs {
			replays[i] = c10SeqCase(b, i, rng, true)
			cases[i] = replays[i].c
			cases[i].LastOnly = thin && !rnd
		}
		obs := pool.runCases(cases, 200)
		for i := range replays {
			steps += c10SeqCompare(run, replays[i], &obs[i])
			run.Eval(replays[i].beh.id())
		}
		k := len(behs) / 2
		sampleBeh = append(sampleBeh, map[string]interface{}{"behaviour": behs[k], "geometry_subblocks": cases[k].Geom.SBs, "labels": replays[k].m})
		nBeh += len(behs)
		return len(behs)
	}
	nExh += replayRun(2, c.pick(2, 6), false, false, 0)
	nRand += replayRun(c.pick(4, 5), 2, false, true, 1000+c.Seed)
	if c.thorough() {
		nExh += replayRun(3, 1, true, false, 0)
		nRand += replayRun(7, 2, true, true, 2000+c.Seed)
	}
	// (1b) growth: sequences on rich-palette blocks (c10_growth.go)
	rs, rt, rBeh, rSteps, rTLC := c10Rich(c, run, pool, rng)
	states += rs
	trans += rt
	nBeh += rBeh
	steps += rSteps
	tTLC += rTLC
	tSeq := since(t0)
	// (2) down-sampling
	var kindsList [][8]int
	all := 6561
	for k := 0; k < all; k++ {
		var ks [8]int
		x := k
		for o := 0; o < 8; o++ {
			ks[o] = x % 3
			x /= 3
		}
		kindsList = append(kindsList, ks)
	}
	if !c.thorough() {
		// every combination of absent / solid octants (no full one), the three uniform vectors, and a seeded sample of the rest
		perm := rng.Perm(all)
		pickd := [][8]int{kindsList[6560]}
		for _, ks := range kindsList {
			full := false
			for _, k := range ks {
				full = full || k == 2
			}
			if !full {
				pickd = append(pickd, ks)
			}
		}
		for _, i := range perm[:450] {
			pickd = append(pickd, kindsList[i])
		}
		kindsList = pickd
	}
	if c.thorough() {
		c10BigEvery = 164
	}
	var drs []*drCase
	for i, ks := range kindsList {
		drs = append(drs, c10DownresCase(i, ks, rng, true))
	}
	s2, t2 := evalDownres(c, drs)
	states += s2
	trans += t2
	dcs := make([]*lg.DownresCase, len(drs))
	for i, d := range drs {
		dcs[i] = d.c
	}
	dobs := pool.runDownres(dcs, 40)
	paths := 0
	kindsSeen := map[[8]int]bool{}
	for i, d := range drs {
		paths += c10DownresCompare(run, d, &dobs[i])
		kindsSeen[d.kinds] = true
		run.Eval("downres " + fmt.Sprint(d.kinds))
	}
	for _, sm := range sampleBeh {
		run.Sample(sm)
	}
	run.Sample(map[string]interface{}{"downres_octant_kinds": drs[len(drs)/2].kinds, "model_case": drs[len(drs)/2].tla[:min(len(drs[len(drs)/2].tla), 600)], "expected_sites": drs[len(drs)/2].exp[0]})
	run.Set("states", states)
	run.Set("transitions", trans)
	run.Set("traces_validated_against_impl", nBeh+len(drs))
	run.Set("labellings_with_claims_checked", labellings)
	run.Set("behaviours_exhaustive", nExh)
	run.Set("behaviours_random_subtree", nRand)
	run.Set("operation_steps_replayed", steps)
	run.Set("steps_by_operation", c10OpCount)
	run.Set("behaviours_by_split_runlength_presentation(maximal,broken,single-voxel)", c10RLEPres)
	run.Set("downres_cases", len(drs))
	run.Set("downres_octant_kind_combinations", len(kindsSeen))
	run.Set("downres_paths_compared", paths)
	run.Set("downres_block_sizes", fmt.Sprint(c10DownresSizes))
	run.Set("tlc_s", tTLC)
	run.Set("rule", "trace = one behaviour of LabelBlockSeq (initial labelling of 4 regions + operations from MergeLabels, ReplaceLabel, ReplaceLabels, Split, SplitSupervoxel, SplitSupervoxels, SplitStats/DoSplitWithStats with TLC's expected labelling and returned counts per step; all behaviours of depth 2, a seeded random sub-tree of deeper ones) replayed on one evolving labels.Block over a seeded geometry (regions = unions of sub-block parts: whole, halves, single voxel, runs, checkerboard, slabs, corner classes, cubes), with splitFast side by side and the views of the result block compared with its decoded volume after every step; or one down-sampling case (8 octants absent/solid/full with TLC's expected vote per site) through Downres, DownresSlow, DownresLabels, DownresFast; Growth: the sequence model also has SplitSupervoxel whose op lacks the block's key and DoSplitWithStats / SplitStats with a label allocator that fails (error and no block expected); behaviours of LabelBlockRich (initial block = a dense class of C09, all ordered pairs of 11 operations, TLC's palettes of every sub-block and returned voxel counts per step) are replayed the same way; down-sampling cases include 64^3 and 32x64x32 blocks and octants drawing from 40 labels. distinct_nontrivial = distinct behaviours (initial labelling + operations with all arguments; every behaviour has at least two operations) + distinct octant kind vectors")
	run.Assume = []string{"regions are unions of sub-block parts from the geometry table; labels inside a region are uniform in the long sequences (LabelBlockSeq); the rich-palette sequences (LabelBlockRich: every sub-block its own palette of up to 512 labels, 16^3 .. 64^3) have depth 2, a fixed list of 11 operations whose arguments are read off the current block, and sparse volumes that are sets of whole sub-blocks",
		"split sparse volumes are unions of regions, given inside the block in random order as maximal x-runs, as runs broken into adjacent pieces, or as single voxels (a third of the behaviours each); overlapping runs are not used",
		"a failing label allocator fails at its 1st or 2nd call; SplitSupervoxelOp without the block key files the run-lengths under the x-neighbour's key",
		"SplitSupervoxels maps are used with split/remain labels outside their own domain; DoSplitWithStats at most once per behaviour"}
	fmt.Printf("C10: claims on %d labellings; %d behaviours (%d exhaustive, %d random sub-tree), %d steps replayed (TLC %.1fs, replay %.1fs); %d down-sampling cases, %d paths (%.1fs total); violations=%d\n",
		labellings, nBeh, nExh, nRand, steps, tTLC, tSeq-tTLC, len(drs), paths, since(t0), run.Violations())
	return run.Finish()
}
