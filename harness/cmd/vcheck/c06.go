package main

import (
	"encoding/hex"
	"encoding/json"
	"fmt"
	"math/rand"
	"sort"
	"strings"
	"sync"
	"sync/atomic"
	"time"

	"verifharness/internal/ev"
	"verifharness/internal/node"
	"verifharness/internal/tlc"
)

func init() { checks["C06"] = checkC06 }

// ---------------------------------------------------------------------------
// Part (a): the key layout case table (specs/KeyLayout.tla, KeyLayout_mc.tla)
// ---------------------------------------------------------------------------

// klSpec is one datum key, as the arguments of the datatype's constructor.
type klSpec struct {
	Cls string   `json:"cls"`
	S   []int    `json:"s,omitempty"`
	L   []int    `json:"l,omitempty"`
	P   [][2]int `json:"p,omitempty"`
	Sc  int      `json:"sc,omitempty"`
	C   int      `json:"c,omitempty"`
	// growth: a uint32 as <<hi, lo>>, plane axes, extension bytes, a second uint64 as limbs
	U []int `json:"u,omitempty"`
	A []int `json:"a,omitempty"`
	E []int `json:"e,omitempty"`
	M []int `json:"m,omitempty"`
}

func tlaPair(u uint32) string { return fmt.Sprintf("<<%d, %d>>", u>>16, u&0xffff) }

func (k klSpec) tla() string {
	ints := func(a []int) string { return tlaSeqInts(a) }
	pt := func(p [][2]int) string {
		s := make([]string, len(p))
		for i, c := range p {
			s[i] = fmt.Sprintf("<<%d, %d>>", c[0], c[1])
		}
		return "<<" + strings.Join(s, ", ") + ">>"
	}
	switch k.Cls {
	case "kv", "nj", "anntag":
		return fmt.Sprintf("[cls |-> %q, s |-> %s]", k.Cls, ints(k.S))
	case "annlabel", "lmindex":
		return fmt.Sprintf("[cls |-> %q, l |-> %s]", k.Cls, ints(k.L))
	case "annblock", "imgblock":
		return fmt.Sprintf("[cls |-> %q, p |-> %s]", k.Cls, pt(k.P))
	case "lmblock":
		return fmt.Sprintf("[cls |-> %q, sc |-> %d, p |-> %s]", k.Cls, k.Sc, pt(k.P))
	case "szsl":
		return fmt.Sprintf("[cls |-> %q, c |-> %d, u |-> %s, l |-> %s]", k.Cls, k.C, ints(k.U), ints(k.L))
	case "sztl":
		return fmt.Sprintf("[cls |-> %q, c |-> %d, l |-> %s]", k.Cls, k.C, ints(k.L))
	case "roi":
		return fmt.Sprintf("[cls |-> %q, p |-> %s, u |-> %s]", k.Cls, pt(k.P), ints(k.U))
	case "tile":
		return fmt.Sprintf("[cls |-> %q, a |-> %s, sc |-> %d, p |-> %s]", k.Cls, ints(k.A), k.Sc, pt(k.P))
	case "tarsv":
		return fmt.Sprintf("[cls |-> %q, s |-> %s, e |-> %s]", k.Cls, ints(k.S), ints(k.E))
	case "lmaff":
		return fmt.Sprintf("[cls |-> %q, l |-> %s]", k.Cls, ints(k.L))
	case "lmmut":
		return fmt.Sprintf("[cls |-> %q, l |-> %s, m |-> %s]", k.Cls, ints(k.L), ints(k.M))
	default:
		return fmt.Sprintf("[cls |-> %q, c |-> %d]", k.Cls, k.C)
	}
}

func (k klSpec) key() string { b, _ := json.Marshal(k); return string(b) }

type klTable struct {
	IDs  []uint32 `json:"ids"`
	TKs  []klSpec `json:"tks"`
	Vers []uint32 `json:"vers"`
	Clis []uint32 `json:"clis"`
	// datum keys looked for in a real store after the requests that write them
	Stored []klSpec `json:"-"`
}

func (t *klTable) module() string {
	var sb strings.Builder
	sb.WriteString("---- MODULE KeyLayoutCases ----\nEXTENDS Integers\n")
	pairs := func(name string, us []uint32) {
		s := make([]string, len(us))
		for i, u := range us {
			s[i] = tlaPair(u)
		}
		fmt.Fprintf(&sb, "%s == << %s >>\n", name, strings.Join(s, ", "))
	}
	pairs("IdList", t.IDs)
	pairs("VerList", t.Vers)
	pairs("CliList", t.Clis)
	sb.WriteString("TKSpecs == <<\n")
	for i, k := range t.TKs {
		if i > 0 {
			sb.WriteString(",\n")
		}
		sb.WriteString("  " + k.tla())
	}
	sb.WriteString("\n>>\nStoredSpecs == <<\n")
	for i, k := range t.Stored {
		if i > 0 {
			sb.WriteString(",\n")
		}
		sb.WriteString("  " + k.tla())
	}
	sb.WriteString("\n>>\n====\n")
	return sb.String()
}

func coord(c int32) [2]int {
	hi := int(c >> 16) // arithmetic shift: signed high half
	lo := int(uint32(c) & 0xffff)
	return [2]int{hi, lo}
}

func limbs(u uint64) []int {
	return []int{int(u >> 48 & 0xffff), int(u >> 32 & 0xffff), int(u >> 16 & 0xffff), int(u & 0xffff)}
}

// c06Table builds the case table: boundary ids and the adversarial datum keys of every
// datatype key class, plus seeded ones.
func c06Table(c *Ctx, rng *rand.Rand) *klTable {
	t := &klTable{}
	t.IDs = []uint32{0, 1, 2, 1 << 31, 1<<32 - 2, 1<<32 - 1}
	t.Vers = []uint32{0, 1, 1 << 31, 1<<32 - 1}
	t.Clis = []uint32{0, 1<<32 - 1}
	str := func(cls string, b ...int) klSpec { return klSpec{Cls: cls, S: b} }
	pt := func(x, y, z int32) [][2]int { return [][2]int{coord(x), coord(y), coord(z)} }
	t.TKs = []klSpec{
		// strings that are prefixes of one another, and bytes around the version/marker bytes
		str("kv", 97), str("kv", 97, 97), str("kv", 97, 98), str("kv", 97, 1), str("kv", 97, 255), str("kv", 98),
		str("kv", 255), str("kv", 255, 255),
		str("nj", 49), str("nj", 49, 48),
		str("anntag", 116), str("anntag", 116, 116),
		{Cls: "annlabel", L: limbs(1)}, {Cls: "annlabel", L: limbs(1<<64 - 1)},
		{Cls: "annblock", P: pt(0, 0, 0)}, {Cls: "annblock", P: pt(-1, 0, 0)},
		{Cls: "imgblock", P: pt(-1<<31, 1<<31-1, 1)}, {Cls: "imgblock", P: pt(1, 0, 0)},
		{Cls: "lmblock", Sc: 0, P: pt(1, 2, 3)}, {Cls: "lmblock", Sc: 1, P: pt(1, 2, 3)},
		{Cls: "lmindex", L: limbs(0)}, {Cls: "lmindex", L: limbs(1 << 32)},
		{Cls: "mintk", C: 0}, {Cls: "maxtk", C: 255},
	}
	// growth (gap C06-5): the key classes of labelsz, imagetile, tarsupervoxels, labelmap affinities /
	// mutation cache, neuronjson schemas, imageblk extents
	u32 := func(u uint32) []int { return []int{int(u >> 16), int(u & 0xffff)} }
	ascii := func(s string) []int {
		b := make([]int, len(s))
		for i := range s {
			b[i] = int(s[i])
		}
		return b
	}
	more := []klSpec{
		{Cls: "szsl", C: 1, U: u32(0), L: limbs(5)}, {Cls: "szsl", C: 1, U: u32(1<<32 - 1), L: limbs(5)}, {Cls: "szsl", C: 2, U: u32(65536), L: limbs(1<<64 - 1)},
		{Cls: "sztl", C: 1, L: limbs(5)}, {Cls: "sztl", C: 4, L: limbs(1 << 32)},
		{Cls: "tile", A: []int{0, 1}, Sc: 0, P: pt(0, 0, 0)}, {Cls: "tile", A: []int{0, 1}, Sc: 1, P: pt(-1, 2, 3)}, {Cls: "tile", A: []int{1, 2}, Sc: 0, P: pt(0, 0, 0)},
		{Cls: "tarsv", S: ascii("1"), E: ascii("dat")}, {Cls: "tarsv", S: ascii("12"), E: ascii("dat")}, {Cls: "tarsv", S: ascii("18446744073709551615"), E: ascii("swc")},
		{Cls: "lmaff", L: limbs(7)}, {Cls: "lmmut", L: limbs(7), M: limbs(1)}, {Cls: "lmmut", L: limbs(7), M: limbs(1<<64 - 1)},
		{Cls: "plain", C: 180}, {Cls: "plain", C: 181}, {Cls: "plain", C: 182}, {Cls: "plain", C: 24},
	}
	if !c.thorough() {
		// quick: one of each class, seeded
		var keep []klSpec
		for i := 0; i < len(more); {
			j := i
			for j < len(more) && more[j].Cls == more[i].Cls && (more[i].Cls != "plain" || (more[j].C == 24) == (more[i].C == 24)) {
				j++
			}
			keep = append(keep, more[i+rng.Intn(j-i)])
			i = j
		}
		more = keep
	}
	defer func() { t.TKs = append(t.TKs, more...) }()
	t.Stored = []klSpec{
		{Cls: "roi", P: pt(3, 2, 1), U: u32(3)}, {Cls: "roi", P: pt(-4, 2, 1), U: u32(1)}, {Cls: "roi", P: pt(0, -5, 70000), U: u32(10)},
		{Cls: "plain", C: 237}, {Cls: "plain", C: 238}, {Cls: "plain", C: 239},
	}
	if !c.thorough() {
		// quick: a subset of the fixed keys (one adversarial pair per class) to stay inside the time budget
		keep := []int{0, 1, 2, 4, 6, 7, 8, 9, 12, 13, 15, 16, 18, 19, 22, 23}
		var tk []klSpec
		for _, i := range keep {
			tk = append(tk, t.TKs[i])
		}
		t.TKs = tk
	}
	seen := map[string]bool{}
	for _, k := range t.TKs {
		seen[k.key()] = true
	}
	add := func(k klSpec) {
		if !seen[k.key()] {
			seen[k.key()] = true
			t.TKs = append(t.TKs, k)
		}
	}
	alphabet := []int{1, 2, 3, 79, 97, 98, 127, 128, 254, 255}
	rstr := func() []int {
		n := 1 + rng.Intn(5)
		b := make([]int, n)
		for i := range b {
			b[i] = alphabet[rng.Intn(len(alphabet))]
		}
		return b
	}
	rc := func() int32 {
		switch rng.Intn(4) {
		case 0:
			return int32(rng.Intn(7) - 3)
		case 1:
			return int32(rng.Uint32())
		case 2:
			return []int32{-1 << 31, 1<<31 - 1, -65536, 65535, 255, 256}[rng.Intn(6)]
		}
		return int32(rng.Intn(1<<20) - 1<<19)
	}
	nSeeded := c.pick(2, 5)
	for i := 0; i < nSeeded; i++ {
		switch rng.Intn(6) {
		case 0, 1:
			s := rstr()
			add(klSpec{Cls: "kv", S: s})
			if c.thorough() {
				add(klSpec{Cls: "kv", S: append(append([]int(nil), s...), alphabet[rng.Intn(len(alphabet))])}) // a prefix-related pair
			}
		case 2:
			add(klSpec{Cls: []string{"nj", "anntag"}[rng.Intn(2)], S: rstr()})
		case 3:
			add(klSpec{Cls: []string{"annlabel", "lmindex"}[rng.Intn(2)], L: limbs(rng.Uint64() >> uint(rng.Intn(64)))})
		case 4:
			add(klSpec{Cls: []string{"annblock", "imgblock"}[rng.Intn(2)], P: pt(rc(), rc(), rc())})
		case 5:
			add(klSpec{Cls: "lmblock", Sc: rng.Intn(8), P: pt(rc(), rc(), rc())})
		}
	}
	if c.thorough() {
		t.IDs = append(t.IDs, 255, 256, 65535, 65536)
		for len(t.IDs) < 11 {
			u := rng.Uint32()
			dup := false
			for _, x := range t.IDs {
				dup = dup || x == u
			}
			if !dup {
				t.IDs = append(t.IDs, u)
			}
		}
		t.Vers = append(t.Vers, 2+uint32(rng.Intn(1<<30)))
	}
	return t
}

type klExpect struct {
	Stored    [][]int   `json:"stored"`
	TKeys     [][]int   `json:"tkeys"`
	Keys      [][][]int `json:"keys"`
	MinV      [][]int   `json:"minv"`
	MaxV      [][]int   `json:"maxv"`
	Order     []int     `json:"order"`
	InstScan  [][]int   `json:"instscan"`
	DatumScan [][]int   `json:"datumscan"`
}

func hexOf(a []int) string {
	b := make([]byte, len(a))
	for i, x := range a {
		b[i] = byte(x)
	}
	return hex.EncodeToString(b)
}

type c06KeyDivergence struct {
	Part     string      `json:"part"`
	Kind     string      `json:"kind"`
	Instance uint32      `json:"instance_id"`
	TKeySpec *klSpec     `json:"datum_key,omitempty"`
	Version  uint32      `json:"version,omitempty"`
	Client   uint32      `json:"client,omitempty"`
	Tomb     bool        `json:"tombstone,omitempty"`
	Expected interface{} `json:"expected"`
	Observed interface{} `json:"observed"`
}

func eqInts(a, b []int) bool {
	if len(a) != len(b) {
		return false
	}
	for i := range a {
		if a[i] != b[i] {
			return false
		}
	}
	return true
}

// c06Layout model-checks the layout claims over the table, then replays the table on the
// real key functions and a real Badger store.
func c06Layout(c *Ctx, run *ev.Run, rng *rand.Rand) (states, trans, compared int64, info map[string]interface{}) {
	t := c06Table(c, rng)
	cfg := "SPECIFICATION Spec\nCONSTANTS\n  WrapMaxBug = FALSE\nINVARIANTS Inv_C06_Injective Inv_C06_Decode Inv_C06_Order Inv_C06_Contiguous Inv_C06_InstanceRange Emit\nCHECK_DEADLOCK FALSE\n"
	t0 := time.Now()
	r := c.MustModelCheck(tlc.Opts{Module: "KeyLayout_mc", Config: "gen_keylayout.cfg",
		Files:   map[string][]byte{"KeyLayoutCases.tla": []byte(t.module()), "gen_keylayout.cfg": []byte(cfg)},
		Timeout: 30 * time.Minute, HeapGB: 8})
	tTLC := since(t0)
	var exp *klExpect
	PrintedJSON(r.Output, func(raw []byte) {
		var e klExpect
		if err := json.Unmarshal(raw, &e); err == nil && len(e.Keys) > 0 {
			exp = &e
		}
	})
	if exp == nil {
		infra("KeyLayout_mc emitted nothing: %s", r.Tail(2000))
	}
	nI, nT, nV, nC := len(t.IDs), len(t.TKs), len(t.Vers), len(t.Clis)
	nD, nJ := nI*nT, nV*nC*2
	if len(exp.Keys) != nD || len(exp.Keys[0]) != nJ || len(exp.Order) != nD*nJ {
		infra("KeyLayout_mc table has the wrong shape: %d data x %d keys, order %d", len(exp.Keys), len(exp.Keys[0]), len(exp.Order))
	}
	n := c.StartNode(node.Config{NoLog: true})
	defer c.DropNode(n)
	var got struct {
		TKeys []string `json:"tkeys"`
		Keys  [][]struct {
			Key      string   `json:"key"`
			Variants []string `json:"variants"`
			Inst     uint32   `json:"inst"`
			Ver      uint32   `json:"ver"`
			Cli      uint32   `json:"cli"`
			TKey     string   `json:"tkey"`
			Tomb     bool     `json:"tomb"`
			DecErr   string   `json:"dec_err"`
		} `json:"keys"`
		MinV  []string    `json:"minv"`
		MaxV  []string    `json:"maxv"`
		Range [][2]string `json:"range"`
		Errs  []string    `json:"errs"`
	}
	must(n.Call("keys.table", t, &got), "keys.table")
	if len(got.Keys) != nD || len(got.TKeys) != nT {
		infra("keys.table returned %d data, %d tkeys", len(got.Keys), len(got.TKeys))
	}
	reported := map[string]int{}
	report := func(d c06KeyDivergence) {
		reported[d.Kind]++
		if reported[d.Kind] <= 3 { // a layout slip shows on thousands of keys: keep a few
			run.Violation("c06", d)
		}
	}
	for _, e := range got.Errs {
		report(c06KeyDivergence{Part: "layout", Kind: "bounds-functions-disagree", Expected: "the same bounds from every function", Observed: e})
	}
	for ti := range t.TKs {
		compared++
		if hexOf(exp.TKeys[ti]) != got.TKeys[ti] {
			report(c06KeyDivergence{Part: "layout", Kind: "datum-key-bytes", TKeySpec: &t.TKs[ti], Expected: hexOf(exp.TKeys[ti]), Observed: got.TKeys[ti]})
		}
	}
	for d := 0; d < nD; d++ {
		ii, ti := d/nT, d%nT
		id := t.IDs[ii]
		for j := 0; j < nJ; j++ {
			v, cl, tomb := t.Vers[j/(nC*2)], t.Clis[(j/2)%nC], j%2 == 1
			g := got.Keys[d][j]
			compared++
			base := c06KeyDivergence{Part: "layout", Instance: id, TKeySpec: &t.TKs[ti], Version: v, Client: cl, Tomb: tomb}
			if want := hexOf(exp.Keys[d][j]); g.Key != want {
				x := base
				x.Kind, x.Expected, x.Observed = "key-bytes", want, g.Key
				report(x)
			}
			if len(g.Variants) > 0 {
				x := base
				x.Kind, x.Expected, x.Observed = "constructors-disagree", g.Key, g.Variants
				report(x)
			}
			if g.Inst != id || g.Ver != v || g.Cli != cl || g.Tomb != tomb || g.TKey != hexOf(exp.TKeys[ti]) || g.DecErr != "" {
				x := base
				x.Kind = "decode"
				x.Expected = map[string]interface{}{"inst": id, "ver": v, "cli": cl, "tomb": tomb, "tkey": hexOf(exp.TKeys[ti])}
				x.Observed = g
				report(x)
			}
		}
		compared += 2
		if hexOf(exp.MinV[d]) != got.MinV[d] || hexOf(exp.MaxV[d]) != got.MaxV[d] {
			report(c06KeyDivergence{Part: "layout", Kind: "version-bounds", Instance: id, TKeySpec: &t.TKs[ti],
				Expected: []string{hexOf(exp.MinV[d]), hexOf(exp.MaxV[d])}, Observed: []string{got.MinV[d], got.MaxV[d]}})
		}
	}
	// the same keys in a real store
	var st struct {
		Order               []int    `json:"order"`
		InstScan            [][]int  `json:"instscan"`
		DatumScan           [][]int  `json:"datumscan"`
		AfterDeleteInstance [][]int  `json:"after_delete_instance"`
		AfterDeleteAll      [][]int  `json:"after_delete_all"`
		Errs                []string `json:"errs"`
	}
	must(n.Call("keys.store", t, &st), "keys.store")
	for _, e := range st.Errs {
		report(c06KeyDivergence{Part: "store", Kind: "store-error", Expected: "no error", Observed: e})
	}
	compared++
	if !eqInts(st.Order, exp.Order) {
		report(c06KeyDivergence{Part: "store", Kind: "store-order", Expected: exp.Order, Observed: st.Order})
	}
	if len(st.InstScan) != nI || len(st.DatumScan) != nD || len(st.AfterDeleteInstance) != nI || len(st.AfterDeleteAll) != nI {
		infra("keys.store result has the wrong shape")
	}
	for ii, id := range t.IDs {
		compared += 3
		if !eqInts(st.InstScan[ii], exp.InstScan[ii]) {
			report(c06KeyDivergence{Part: "store", Kind: "instance-scan", Instance: id, Expected: exp.InstScan[ii], Observed: st.InstScan[ii]})
		}
		in := map[int]bool{}
		for _, f := range exp.InstScan[ii] {
			in[f] = true
		}
		var rest []int
		for _, f := range exp.Order {
			if !in[f] {
				rest = append(rest, f)
			}
		}
		if !eqInts(st.AfterDeleteInstance[ii], rest) {
			report(c06KeyDivergence{Part: "store", Kind: "delete-data-instance", Instance: id,
				Expected: fmt.Sprintf("%d keys left: all but the %d of the instance", len(rest), len(exp.InstScan[ii])),
				Observed: fmt.Sprintf("%d keys left", len(st.AfterDeleteInstance[ii]))})
		}
		if !eqInts(st.AfterDeleteAll[ii], rest) {
			report(c06KeyDivergence{Part: "store", Kind: "delete-all-versioned", Instance: id,
				Expected: fmt.Sprintf("%d keys left: all but the %d of the instance", len(rest), len(exp.InstScan[ii])),
				Observed: fmt.Sprintf("%d keys left", len(st.AfterDeleteAll[ii]))})
		}
	}
	for d := 0; d < nD; d++ {
		compared++
		if !eqInts(st.DatumScan[d], exp.DatumScan[d]) {
			report(c06KeyDivergence{Part: "store", Kind: "datum-scan", Instance: t.IDs[d/nT], TKeySpec: &t.TKs[d%nT], Expected: exp.DatumScan[d], Observed: st.DatumScan[d]})
		}
	}
	compared += c06Stored(c, t, exp, report)
	for k, v := range reported {
		if v > 3 {
			fmt.Printf("C06: %d divergences of kind %s (3 written out)\n", v, k)
		}
	}
	for i := 0; i < nD*nJ; i += nD*nJ/4 + 1 {
		d, j := i/nJ, i%nJ
		run.Sample(map[string]interface{}{"instance_id": t.IDs[d/nT], "datum_key": t.TKs[d%nT], "version": t.Vers[j/(nC*2)], "client": t.Clis[(j/2)%nC],
			"tombstone": j%2 == 1, "expected_key": hexOf(exp.Keys[d][j])})
	}
	for d := 0; d < nD; d++ {
		run.Eval(fmt.Sprintf("datum|%d|%s", t.IDs[d/nT], t.TKs[d%nT].key()))
	}
	info = map[string]interface{}{"instance_ids": t.IDs, "datum_keys": nT, "versions": t.Vers, "clients": t.Clis,
		"keys": nD * nJ, "key_pairs_model_checked": int64(nD*nJ) * int64(nD*nJ+1) / 2, "tlc_s": tTLC}
	return r.Distinct, r.Generated, compared, info
}

// ---------------------------------------------------------------------------
// Part (b): instance histories (specs/InstanceIso.tla)
// ---------------------------------------------------------------------------

type isoOp struct {
	Op string `json:"op"`
	N  int    `json:"n"`
	K  int    `json:"k"`
}

type isoView struct {
	Live bool   `json:"live"`
	ID   [2]int `json:"id"`
	KV   []int  `json:"kv"`
}

type isoState struct {
	Hist  []isoOp   `json:"hist"`
	Views []isoView `json:"views"`
	SKeys [][]int   `json:"skeys"`
}

func isoKey(h []isoOp) string {
	var sb strings.Builder
	for _, o := range h {
		fmt.Fprintf(&sb, "%s%d.%d;", o.Op[:3], o.N, o.K)
	}
	return sb.String()
}

type isoModel struct {
	states  map[string]*isoState
	maximal []*isoState
	nNames  int
	nKeys   int
	maxLen  int
}

var isoKeyNames = []string{"a", "ab", "b"}

func emitHistories(c *Ctx, nNames, nKeys, maxLen, maxRestarts int, high bool) (*isoModel, *tlc.Result) {
	start := "IdStartDefault"
	if high {
		start = "IdStartHigh"
	}
	cfg := fmt.Sprintf("SPECIFICATION Spec\nCONSTANTS\n  NNames = %d\n  NKeys = %d\n  MaxLen = %d\n  MaxRestarts = %d\n  IdStart <- %s\n  WrapMaxBug = FALSE\n"+
		"INVARIANTS Inv_C06_DistinctIds Inv_C06_ScanIsOwn Inv_C06_NoResidue Emit\nPROPERTIES Act_C06_Isolation Act_C06_FreshEmpty\nCHECK_DEADLOCK FALSE\n",
		nNames, nKeys, maxLen, maxRestarts, start)
	r := c.MustModelCheck(tlc.Opts{Module: "InstanceIso_mc", Config: "gen_iso.cfg",
		Files: map[string][]byte{"gen_iso.cfg": []byte(cfg)}, Timeout: 30 * time.Minute, HeapGB: 8})
	m := &isoModel{states: map[string]*isoState{}, nNames: nNames, nKeys: nKeys, maxLen: maxLen}
	PrintedJSON(r.Output, func(raw []byte) {
		var s isoState
		if err := json.Unmarshal(raw, &s); err != nil || len(s.Views) != nNames {
			return
		}
		m.states[isoKey(s.Hist)] = &s
		if len(s.Hist) == maxLen {
			m.maximal = append(m.maximal, &s)
		}
	})
	if len(m.maximal) == 0 || int64(len(m.states)) != r.Distinct {
		infra("InstanceIso emitted %d states of %d: %s", len(m.states), r.Distinct, r.Tail(1500))
	}
	sort.Slice(m.maximal, func(i, j int) bool { return isoKey(m.maximal[i].Hist) < isoKey(m.maximal[j].Hist) })
	return m, r
}

type c06HistDivergence struct {
	Part     string      `json:"part"`
	Kind     string      `json:"kind"`
	IDStart  uint32      `json:"instance_id_start"`
	History  []isoOp     `json:"history"`
	Step     int         `json:"after_step"`
	Instance string      `json:"instance,omitempty"`
	Key      string      `json:"key,omitempty"`
	Expected interface{} `json:"expected"`
	Observed interface{} `json:"observed"`
	Script   []string    `json:"script,omitempty"`
}

func isoName(n int) string { return fmt.Sprintf("inst%c", 'A'+n-1) }

// c06ReplayHistory performs one history on a fresh repo of node n and compares every
// instance with the specification's state after every step.  raw: the node holds nothing
// else, compare the whole data key space with the specification's store as well.
func c06ReplayHistory(c *Ctx, run *ev.Run, n *node.Node, m *isoModel, h *isoState, idStart uint32, raw bool, nq *int64) {
	c06ReplayHistoryT(c, run, n, m, h, idStart, raw, nq, isoKeyvalue)
}

// c06ReplayHistoryT: the same history on instances of the given datatype (growth, gap C06-1).
func c06ReplayHistoryT(c *Ctx, run *ev.Run, n *node.Node, m *isoModel, h *isoState, idStart uint32, raw bool, nq *int64, typ *isoType) {
	var script []string
	do := func(method, url string, body []byte) node.Resp {
		r, err := n.HTTP(method, url, body)
		must(err, method+" "+url)
		script = append(script, fmt.Sprintf("%s %s %s -> %d", method, url, body, r.Status))
		return r
	}
	r := do("POST", "/api/repos", []byte(`{"alias":"c06","description":"isolation"}`))
	var rr struct{ Root string }
	if r.Status != 200 || json.Unmarshal(r.Bytes(), &rr) != nil || rr.Root == "" {
		infra("new repo: %d %s", r.Status, r.Bytes())
	}
	root := rr.Root
	bad := 0
	report := func(d c06HistDivergence) {
		bad++
		if bad > 2 { // one history, one or two written-out divergences
			return
		}
		d.Part, d.IDStart, d.History, d.Script = "histories ("+typ.typename+")", idStart, h.Hist, script
		run.Violation("c06", d)
	}
	for i, op := range h.Hist {
		name := isoName(op.N)
		switch op.Op {
		case "create":
			cfg := map[string]string{"typename": typ.typename, "dataname": name}
			for k, v := range typ.cfg {
				cfg[k] = v
			}
			body, _ := json.Marshal(cfg)
			if r := do("POST", "/api/repo/"+root+"/instance", body); r.Status != 200 {
				report(c06HistDivergence{Kind: "create-refused", Step: i + 1, Instance: name, Expected: 200, Observed: fmt.Sprintf("%d %s", r.Status, r.Bytes())})
				return
			}
		case "write":
			if st, msg := typ.write(do, root, name, op.K, i+1); st != 200 {
				report(c06HistDivergence{Kind: "write-refused", Step: i + 1, Instance: name, Expected: 200, Observed: fmt.Sprintf("%d %s", st, msg)})
				return
			}
		case "delkey":
			if st, msg := typ.delkey(do, root, name, op.K); st != 200 {
				report(c06HistDivergence{Kind: "delete-key-refused", Step: i + 1, Instance: name, Expected: 200, Observed: fmt.Sprintf("%d %s", st, msg)})
				return
			}
		case "delete":
			err := n.Call("inst.delete", map[string]string{"uuid": root, "name": name}, nil)
			script = append(script, fmt.Sprintf("datastore.DeleteDataByName(%s, %s) -> %v", root, name, err))
			if err != nil {
				if _, isCall := err.(*node.CallError); !isCall {
					must(err, "inst.delete")
				}
				report(c06HistDivergence{Kind: "delete-instance-refused", Step: i + 1, Instance: name, Expected: "accepted", Observed: err.Error()})
				return
			}
			// the deletion runs in the background: complete when the instance has left the repo
			deadline := time.Now().Add(20 * time.Second)
			for {
				r, err := n.HTTP("GET", "/api/repo/"+root+"/info", nil)
				must(err, "repo info")
				var info struct{ DataInstances map[string]json.RawMessage }
				json.Unmarshal(r.Bytes(), &info)
				if _, there := info.DataInstances[name]; !there && r.Status == 200 {
					break
				}
				if time.Now().After(deadline) {
					report(c06HistDivergence{Kind: "delete-instance-never-completes", Step: i + 1, Instance: name, Expected: "instance leaves the repo", Observed: string(r.Bytes())})
					return
				}
				time.Sleep(500 * time.Microsecond)
			}
			// the deletion persists the repo in the background after that; a repo-level
			// request that saves the repo makes sure a following restart sees it
			do("POST", "/api/repo/"+root+"/info", []byte(`{"alias":"c06"}`))
		case "restart":
			must(n.Restart(true), "restart")
			script = append(script, "restart")
		}
		if bad > 0 {
			return // the server is no longer in a state of the specification
		}
		want := m.states[isoKey(h.Hist[:i+1])]
		if want == nil {
			infra("no specification state for history prefix %s", isoKey(h.Hist[:i+1]))
		}
		for ni := 1; ni <= m.nNames; ni++ {
			nm := isoName(ni)
			v := want.Views[ni-1]
			var found []string
			for k := 1; k <= m.nKeys; k++ {
				res, obs := typ.read(n, root, nm, k)
				atomic.AddInt64(nq, 1)
				switch {
				case !v.Live:
					if res > 0 {
						report(c06HistDivergence{Kind: "absent-instance-answers", Step: i + 1, Instance: nm, Key: isoKeyNames[k-1], Expected: "no such instance", Observed: obs})
					}
				case v.KV[k-1] == 0:
					if res != 0 {
						report(c06HistDivergence{Kind: "read", Step: i + 1, Instance: nm, Key: isoKeyNames[k-1], Expected: "not found", Observed: obs})
					}
				default:
					found = append(found, isoKeyNames[k-1])
					if res != v.KV[k-1] {
						report(c06HistDivergence{Kind: "read", Step: i + 1, Instance: nm, Key: isoKeyNames[k-1], Expected: fmt.Sprintf("the value written at step %d", v.KV[k-1]), Observed: obs})
					}
				}
			}
			if v.Live && typ.list != nil {
				got, obs := typ.list(n, root, nm)
				atomic.AddInt64(nq, 1)
				if got == nil || !strsEqual(got, found) {
					report(c06HistDivergence{Kind: "listing", Step: i + 1, Instance: nm, Expected: found, Observed: obs})
				}
			}
		}
		if raw {
			var dump []string
			must(n.Call("keys.dump", map[string]string{}, &dump), "keys.dump")
			atomic.AddInt64(nq, 1)
			wantKeys := map[string]bool{}
			for _, k := range want.SKeys {
				wantKeys[hexOf(k)] = true
			}
			liveIDs := map[string]bool{}
			for _, v := range want.Views {
				if v.Live {
					liveIDs[fmt.Sprintf("%04x%04x", v.ID[0], v.ID[1])] = true
				}
			}
			var extra, residue, missing []string
			gotKeys := map[string]bool{}
			for _, k := range dump {
				gotKeys[k] = true
				if !wantKeys[k] {
					if len(k) >= 10 && !liveIDs[k[2:10]] {
						residue = append(residue, k)
					} else {
						extra = append(extra, k)
					}
				}
			}
			for k := range wantKeys {
				if !gotKeys[k] {
					missing = append(missing, k)
				}
			}
			sort.Strings(missing)
			if len(residue) > 0 {
				report(c06HistDivergence{Kind: "store-residue-of-deleted-instance", Step: i + 1, Expected: "no key of an instance that is not live", Observed: residue})
				return
			}
			if len(extra) > 0 || len(missing) > 0 {
				report(c06HistDivergence{Kind: "store-keys", Step: i + 1, Expected: map[string]interface{}{"missing_from_store": missing}, Observed: map[string]interface{}{"unexpected_in_store": extra}})
				return
			}
		}
	}
}

// c06Reuse is the one history the enumeration cannot hold (it needs a restart after the
// 32-bit id counter wrapped): ids 2^32-2, 2^32-1, 0 are handed out, the instance with id
// 2^32-1 is written and deleted, the server restarts and new instances are created.  Every
// new instance must be empty and the bystander unchanged.
func c06Reuse(c *Ctx, run *ev.Run, nq *int64) {
	const idStart = 1<<32 - 2
	n := c.StartNode(node.Config{IIDStart: idStart, NoLog: true})
	defer c.DropNode(n)
	var script []string
	do := func(method, url string, body []byte) node.Resp {
		r, err := n.HTTP(method, url, body)
		must(err, method+" "+url)
		script = append(script, fmt.Sprintf("%s %s %s -> %d", method, url, body, r.Status))
		atomic.AddInt64(nq, 1)
		return r
	}
	r := do("POST", "/api/repos", []byte(`{"alias":"c06","description":"reuse"}`))
	var rr struct{ Root string }
	if r.Status != 200 || json.Unmarshal(r.Bytes(), &rr) != nil {
		infra("new repo: %d %s", r.Status, r.Bytes())
	}
	root := rr.Root
	mk := func(name string) {
		body, _ := json.Marshal(map[string]string{"typename": "keyvalue", "dataname": name})
		if r := do("POST", "/api/repo/"+root+"/instance", body); r.Status != 200 {
			infra("create %s: %d %s", name, r.Status, r.Bytes())
		}
	}
	report := func(kind, inst string, exp, obs interface{}) {
		run.Violation("c06", c06HistDivergence{Part: "id-wrap-and-restart", Kind: kind, IDStart: idStart, Instance: inst, Expected: exp, Observed: obs, Script: script})
	}
	empty := func(name string) {
		r := do("GET", "/api/node/"+root+"/"+name+"/keys", nil)
		got, err := parseJSONKeys(r.Bytes())
		if r.Status != 200 || err != nil || len(got) != 0 {
			report("new-instance-not-empty", name, "[]", fmt.Sprintf("%d:%s", r.Status, r.Bytes()))
		}
		for _, k := range isoKeyNames {
			if r := do("GET", "/api/node/"+root+"/"+name+"/key/"+k, nil); r.Status != 404 {
				report("new-instance-not-empty", name, "404 for key "+k, fmt.Sprintf("%d:%s", r.Status, r.Bytes()))
			}
		}
	}
	by := func() {
		if r := do("GET", "/api/node/"+root+"/by/key/a", nil); r.Status != 200 || string(r.Bytes()) != "bystander" {
			report("bystander-changed", "by", "200:bystander", fmt.Sprintf("%d:%s", r.Status, r.Bytes()))
		}
	}
	mk("by") // 2^32-2
	do("POST", "/api/node/"+root+"/by/key/a", []byte("bystander"))
	mk("top") // 2^32-1
	for _, k := range isoKeyNames {
		do("POST", "/api/node/"+root+"/top/key/"+k, []byte("old-"+k))
	}
	mk("zero") // 0
	empty("zero")
	do("POST", "/api/node/"+root+"/zero/key/a", []byte("z"))
	for _, name := range []string{"top", "zero"} {
		must(n.Call("inst.delete", map[string]string{"uuid": root, "name": name}, nil), "inst.delete "+name)
		script = append(script, fmt.Sprintf("datastore.DeleteDataByName(%s, %s)", root, name))
		deadline := time.Now().Add(20 * time.Second)
		for {
			r, err := n.HTTP("GET", "/api/repo/"+root+"/info", nil)
			must(err, "repo info")
			var info struct{ DataInstances map[string]json.RawMessage }
			json.Unmarshal(r.Bytes(), &info)
			if _, there := info.DataInstances[name]; !there && r.Status == 200 {
				break
			}
			if time.Now().After(deadline) {
				infra("deletion of %s does not complete", name)
			}
			time.Sleep(time.Millisecond)
		}
	}
	by()
	mk("n1")
	empty("n1")
	do("POST", "/api/repo/"+root+"/info", []byte(`{"alias":"c06"}`)) // persists the repo without the deleted instances
	must(n.Restart(true), "restart")
	script = append(script, "restart")
	by()
	for _, name := range []string{"n2", "n3", "n4"} {
		mk(name)
		empty(name)
		do("POST", "/api/node/"+root+"/"+name+"/key/ab", []byte("x"))
		by()
	}
}

func checkC06(c *Ctx) int {
	run := ev.NewRun("C06", c.Tier, "model_checking")
	t0 := time.Now()
	rng := rand.New(rand.NewSource(c.Seed))
	var states, trans, compared, nq int64
	var layoutInfo map[string]interface{}
	var wg sync.WaitGroup
	var failed atomic.Value
	guard := func(f func()) {
		wg.Add(1)
		go func() {
			defer wg.Done()
			defer func() {
				if e := recover(); e != nil {
					if ie, ok := e.(infraErr); ok {
						failed.Store(ie)
					} else {
						failed.Store(infraErr{fmt.Errorf("panic: %v", e)})
					}
				}
			}()
			f()
		}()
	}
	// (a) layout table
	guard(func() {
		s, t, n, info := c06Layout(c, run, rng)
		atomic.AddInt64(&states, s)
		atomic.AddInt64(&trans, t)
		atomic.AddInt64(&compared, n)
		layoutInfo = info
	})
	// (b) histories, while TLC works on the layout table
	type histCfg struct {
		names, keys, maxLen, restarts int
		high                          bool
		sample                        int // 0 = all maximal histories
		// growth: datatype of the instances (nil = keyvalue) and the server's instance_id_gen
		typ *isoType
		gen string
	}
	var cfgs []histCfg
	if c.thorough() {
		cfgs = []histCfg{{3, 2, 5, 0, true, 0, nil, ""}, {3, 2, 5, 1, true, 2500, nil, ""}, {2, 3, 6, 0, true, 2500, nil, ""}, {2, 2, 7, 0, false, 12000, nil, ""}, {3, 2, 6, 0, false, 6000, nil, ""},
			{3, 2, 6, 0, false, 3000, isoNeuronjson, ""}, {3, 2, 6, 0, false, 2000, isoLabelmap, ""}, {3, 2, 6, 0, false, 2000, nil, "random"}}
	} else {
		cfgs = []histCfg{{3, 2, 4, 0, true, 0, nil, ""}, {2, 2, 5, 1, true, 250, nil, ""}, {2, 2, 6, 0, false, 1800, nil, ""},
			{2, 2, 6, 0, false, 500, isoNeuronjson, ""}, {2, 2, 6, 0, false, 300, isoLabelmap, ""}, {2, 2, 6, 0, false, 300, nil, "random"}}
	}
	models := map[string]*isoModel{}
	modelRes := map[string]*tlc.Result{}
	var histInfo []string
	hrng := rand.New(rand.NewSource(c.Seed + 77))
	for _, hc := range cfgs {
		mkey := fmt.Sprint(hc.names, hc.keys, hc.maxLen, hc.restarts, hc.high)
		if models[mkey] == nil {
			models[mkey], modelRes[mkey] = emitHistories(c, hc.names, hc.keys, hc.maxLen, hc.restarts, hc.high)
			atomic.AddInt64(&states, modelRes[mkey].Distinct)
			atomic.AddInt64(&trans, modelRes[mkey].Generated)
		}
		m, r := models[mkey], modelRes[mkey]
		typ := hc.typ
		if typ == nil {
			typ = isoKeyvalue
		}
		every := 60
		if typ == isoLabelmap {
			every = 25
		}
		items := m.maximal
		if hc.sample > 0 && len(items) > hc.sample {
			perm := hrng.Perm(len(items))
			sel := make([]*isoState, hc.sample)
			for i := range sel {
				sel[i] = items[perm[i]]
			}
			items = sel
		}
		idStart := uint32(0)
		if hc.high {
			idStart = 1<<32 - 2
		}
		workers := 16
		shared := make([]*node.Node, workers)
		used := make([]int, workers)
		parallel(len(items), workers, func(wi, i int) {
			h := items[i]
			if hc.high {
				// the ids of the specification are those of a fresh server
				n := c.StartNode(node.Config{IIDStart: idStart, NoLog: true})
				c06ReplayHistory(c, run, n, m, h, idStart, true, &nq)
				c.DropNode(n)
			} else {
				if shared[wi] == nil || used[wi] >= every || !shared[wi].Alive() {
					if shared[wi] != nil {
						c.DropNode(shared[wi])
					}
					shared[wi] = c.StartNode(node.Config{NoLog: typ != isoLabelmap, IIDGen: hc.gen}) // (a labelmap needs the mutation log)
					used[wi] = 0
				}
				used[wi]++
				c06ReplayHistoryT(c, run, shared[wi], m, h, idStart, false, &nq, typ)
			}
			run.Eval(fmt.Sprintf("hist|%v|%s|%s|%s", hc.high, typ.typename, hc.gen, isoKey(h.Hist)))
		})
		for _, n := range shared {
			if n != nil {
				c.DropNode(n)
			}
		}
		histInfo = append(histInfo, fmt.Sprintf("InstanceIso names=%d keys=%d len=%d restarts<=%d id_start=%d: %d states, %d maximal histories, %d replayed on %s instances%s",
			hc.names, hc.keys, hc.maxLen, hc.restarts, idStart, r.Distinct, len(m.maximal), len(items), typ.typename, map[bool]string{true: " (instance_id_gen = random)", false: ""}[hc.gen != ""]))
		if len(items) > 0 {
			h := items[len(items)/2]
			run.Sample(map[string]interface{}{"instance_id_start": idStart, "history": h.Hist, "expected_final_views": h.Views})
		}
	}
	c06Reuse(c, run, &nq)
	c06Scripts(c, run, &nq)
	wg.Wait()
	if e := failed.Load(); e != nil {
		panic(e.(infraErr))
	}
	run.Set("states", states)
	run.Set("transitions", trans)
	run.Set("traces_validated_against_impl", compared+nq)
	run.Set("evaluations", compared+nq)
	run.Set("layout_table", layoutInfo)
	run.Set("layout_comparisons", compared)
	run.Set("history_observations", nq)
	run.Set("tlc_model", histInfo)
	run.Set("rule", "(a) case = (instance id, datum key, version, client, marker) over boundary ids {0,1,2,2^31,2^32-2,2^32-1; thorough: +255,256,65535,65536,+seeded} x datum keys of every datatype key class built by the datatype's own constructor (prefix-related strings, extreme labels and block coordinates, class bounds, +seeded) x boundary versions/clients; TLC (KeyLayout_mc.tla) checks injectivity, decoding, order, contiguity and instance ranges on every pair of keys and prints the expected bytes, the byte order and the content of every instance/datum scan; the harness compares the bytes from every construction path of storage.DataContext / datastore.VersionedCtx, every decoder, and the same keys written into a Badger store: RawRangeQuery order, scans between KeyRange and Min/MaxVersionKey, DeleteDataInstance and DeleteAll per instance.  (b) case = history of create/write/delete-key/delete-instance/re-create(/restart) over 2-3 keyvalue instances, every history up to the stated length enumerated by TLC (InstanceIso.tla, byte-level store, ids from instance_id_start 2^32-2 wrapping through 2^32-1 and 0); replayed through the HTTP API on a fresh server per history, after every step every instance is read (point reads, listing) and the whole data key space of the store is compared with the specification's store; the same histories with default ids on shared servers (API reads only); plus one scripted history with a restart after the id counter wrapped.  Growth: the same enumerated histories on neuronjson instances (annotations kept in memory at the master head) and labelmap instances (label index + supervoxel mapping per datum: index cache and in-memory map) and on servers with instance_id_gen = random; four scripted histories judged by the same claims (others unchanged, new instance empty, no residue in the store): a labelmap deleted while an annotation is synced with it (and a labelsz with that), then written to and re-created under the same name; a repo with two instances deleted next to a bystander repo; a 25 600-entry instance deleted between two neighbours with consecutive ids (DeleteAll flushes every 10 000 keys); keys and tags holding the terminator byte (refused, no effect on the key they would alias).  distinct_nontrivial counts data of the table plus distinct histories")
	run.Assume = []string{"datum keys are those the datatypes' constructors produce (strings without NUL byte: the TKey contract)", "TLC bounded enumeration of histories; ids other than the boundary/seeded ones are not enumerated",
		"instance deletion is complete when the instance has left the repo info (waited for up to 20 s); the harness then posts a repo alias so that the repo metadata is saved before any restart (the deletion's own save runs unobserved in the background)"}
	fmt.Printf("C06: layout table %v; %v; %d layout comparisons, %d history observations in %.1fs; violations=%d\n", layoutInfo, histInfo, compared, nq, since(t0), run.Violations())
	return run.Finish()
}
