package main

// C06 growth (gaps C06-1 .. C06-6): instance histories on datatypes with in-memory state,
// scripted histories with synced instances, a deleted repo, a 25 000-key instance between two
// neighbours, keys holding the terminator byte, and servers with random instance ids.

import (
	"encoding/json"
	"fmt"
	"sort"
	"strings"
	"sync/atomic"
	"time"

	pb "google.golang.org/protobuf/proto"

	"github.com/janelia-flyem/dvid/datatype/common/proto"

	"verifharness/internal/ev"
	"verifharness/internal/node"
)

type isoDo func(method, url string, body []byte) node.Resp

// isoType adapts one datatype to the InstanceIso histories: datum k of an instance holds "the
// value written at step s" or nothing.
type isoType struct {
	typename string
	cfg      map[string]string
	write    func(do isoDo, root, name string, k, step int) (int, string)
	delkey   func(do isoDo, root, name string, k int) (int, string)
	// read: the step whose value is read (> 0), 0 = the instance answers "not found", -1 = anything else
	read func(n *node.Node, root, name string, k int) (int, string)
	// list: the data the listing names (as isoKeyNames), nil if the listing failed
	list func(n *node.Node, root, name string) ([]string, string)
}

var isoKeyvalue = &isoType{typename: "keyvalue",
	write: func(do isoDo, root, name string, k, step int) (int, string) {
		r := do("POST", "/api/node/"+root+"/"+name+"/key/"+isoKeyNames[k-1], []byte(fmt.Sprintf("s%d", step)))
		return r.Status, string(r.Bytes())
	},
	delkey: func(do isoDo, root, name string, k int) (int, string) {
		r := do("DELETE", "/api/node/"+root+"/"+name+"/key/"+isoKeyNames[k-1], nil)
		return r.Status, string(r.Bytes())
	},
	read: func(n *node.Node, root, name string, k int) (int, string) {
		r, err := n.HTTP("GET", "/api/node/"+root+"/"+name+"/key/"+isoKeyNames[k-1], nil)
		must(err, "GET key")
		obs := fmt.Sprintf("%d:%s", r.Status, r.Bytes())
		var s int
		switch {
		case r.Status == 404:
			return 0, obs
		case r.Status == 200:
			if _, e := fmt.Sscanf(string(r.Bytes()), "s%d", &s); e == nil && s > 0 && string(r.Bytes()) == fmt.Sprintf("s%d", s) {
				return s, obs
			}
			return -2, obs
		}
		return -1, obs
	},
	list: func(n *node.Node, root, name string) ([]string, string) {
		r, err := n.HTTP("GET", "/api/node/"+root+"/"+name+"/keys", nil)
		must(err, "GET keys")
		got, perr := parseJSONKeys(r.Bytes())
		if r.Status != 200 || perr != nil {
			return nil, fmt.Sprintf("%d:%s", r.Status, r.Bytes())
		}
		if got == nil {
			got = []string{}
		}
		return got, fmt.Sprintf("%d:%s", r.Status, r.Bytes())
	}}

// neuronjson: the data are the annotations of bodies 11, 112, 12 (prefix-related as strings);
// the root version is the head of master, which the instance also keeps in memory.
var isoNJIDs = []int{11, 112, 12}

var isoNeuronjson = &isoType{typename: "neuronjson",
	write: func(do isoDo, root, name string, k, step int) (int, string) {
		r := do("POST", fmt.Sprintf("/api/node/%s/%s/key/%d?u=t", root, name, isoNJIDs[k-1]), []byte(fmt.Sprintf(`{"bodyid":%d,"s":%d}`, isoNJIDs[k-1], step)))
		return r.Status, string(r.Bytes())
	},
	delkey: func(do isoDo, root, name string, k int) (int, string) {
		r := do("DELETE", fmt.Sprintf("/api/node/%s/%s/key/%d?u=t", root, name, isoNJIDs[k-1]), nil)
		return r.Status, string(r.Bytes())
	},
	read: func(n *node.Node, root, name string, k int) (int, string) {
		r, err := n.HTTP("GET", fmt.Sprintf("/api/node/%s/%s/key/%d", root, name, isoNJIDs[k-1]), nil)
		must(err, "GET key")
		obs := fmt.Sprintf("%d:%.120s", r.Status, r.Bytes())
		switch {
		case r.Status == 404:
			return 0, obs
		case r.Status == 200:
			var a struct {
				Bodyid int `json:"bodyid"`
				S      int `json:"s"`
			}
			if json.Unmarshal(r.Bytes(), &a) == nil && a.Bodyid == isoNJIDs[k-1] && a.S > 0 {
				return a.S, obs
			}
			return -2, obs
		}
		return -1, obs
	},
	list: func(n *node.Node, root, name string) ([]string, string) {
		r, err := n.HTTP("GET", "/api/node/"+root+"/"+name+"/keys", nil)
		must(err, "GET keys")
		got, perr := parseJSONKeys(r.Bytes())
		obs := fmt.Sprintf("%d:%s", r.Status, r.Bytes())
		if r.Status != 200 || perr != nil {
			return nil, obs
		}
		out := []string{}
		for k, id := range isoNJIDs {
			for _, g := range got {
				if g == fmt.Sprint(id) {
					out = append(out, isoKeyNames[k])
				}
			}
		}
		if len(out) != len(got) {
			return nil, obs
		}
		return out, obs
	}}

// labelmap: datum k is the label index of label 20+k together with the mapping of supervoxel
// 30+k (kept in the instance's in-memory map); a deletion posts an empty index and maps the
// supervoxel back to itself.
var isoLabelmap = &isoType{typename: "labelmap", cfg: map[string]string{"BlockSize": "32,32,32"},
	write: func(do isoDo, root, name string, k, step int) (int, string) {
		l := uint64(20 + k)
		body, _ := pb.Marshal(&proto.LabelIndex{Label: l, LastMutid: uint64(step), Blocks: map[uint64]*proto.SVCount{0: {Counts: map[uint64]uint32{l: uint32(step)}}}})
		if r := do("POST", fmt.Sprintf("/api/node/%s/%s/index/%d", root, name, l), body); r.Status != 200 {
			return r.Status, string(r.Bytes())
		}
		mb, _ := pb.Marshal(&proto.MappingOps{Mappings: []*proto.MappingOp{{Mutid: uint64(step), Mapped: uint64(1000 + step), Original: []uint64{uint64(30 + k)}}}})
		r := do("POST", "/api/node/"+root+"/"+name+"/mappings", mb)
		return r.Status, string(r.Bytes())
	},
	delkey: func(do isoDo, root, name string, k int) (int, string) {
		l := uint64(20 + k)
		body, _ := pb.Marshal(&proto.LabelIndex{Label: l})
		if r := do("POST", fmt.Sprintf("/api/node/%s/%s/index/%d", root, name, l), body); r.Status != 200 {
			return r.Status, string(r.Bytes())
		}
		mb, _ := pb.Marshal(&proto.MappingOps{Mappings: []*proto.MappingOp{{Mutid: 1, Mapped: uint64(30 + k), Original: []uint64{uint64(30 + k)}}}})
		r := do("POST", "/api/node/"+root+"/"+name+"/mappings", mb)
		return r.Status, string(r.Bytes())
	},
	read: func(n *node.Node, root, name string, k int) (int, string) {
		r, err := n.HTTP("GET", fmt.Sprintf("/api/node/%s/%s/index/%d", root, name, 20+k), nil)
		must(err, "GET index")
		obs := fmt.Sprintf("index %d", r.Status)
		byIndex := -1
		switch {
		case r.Status == 404:
			byIndex = 0
		case r.Status == 200:
			var idx proto.LabelIndex
			if pb.Unmarshal(r.Bytes(), &idx) == nil && idx.Label == uint64(20+k) && len(idx.Blocks) == 1 && idx.LastMutid > 0 {
				byIndex = int(idx.LastMutid)
			} else {
				byIndex = -2
			}
		}
		if byIndex < 0 {
			return byIndex, obs
		}
		body, _ := json.Marshal([]int{30 + k})
		r, err = n.HTTP("GET", "/api/node/"+root+"/"+name+"/mapping?nolookup=true", body)
		must(err, "GET mapping")
		ls, perr := parseU64List(r.Bytes())
		obs += fmt.Sprintf(", mapping %d:%s", r.Status, r.Bytes())
		if r.Status != 200 || perr != nil || len(ls) != 1 {
			return -1, obs
		}
		byMap := 0
		if ls[0] != uint64(30+k) {
			byMap = int(ls[0]) - 1000
		}
		if byMap != byIndex {
			return -2, obs + fmt.Sprintf(" (index holds step %d, mapping step %d)", byIndex, byMap)
		}
		return byIndex, obs
	}}

// ---------------------------------------------------------------------------
// Scripted histories: each is one history of InstanceIso's operations (create / write / delete
// instance / re-create) that the enumeration cannot hold (other datatypes side by side, synced
// instances, a deleted repo, 25 000 keys), judged by the same two claims: every other
// instance reads as before (Act_C06_Isolation), a new instance is empty (Act_C06_FreshEmpty),
// and nothing of a deleted instance stays in the store (Inv_C06_NoResidue).
// ---------------------------------------------------------------------------

type c06Script struct {
	c      *Ctx
	run    *ev.Run
	n      *node.Node
	name   string
	script []string
	nq     *int64
	bad    int
}

func (s *c06Script) do(method, url string, body []byte) node.Resp {
	r, err := s.n.HTTP(method, url, body)
	must(err, method+" "+url)
	b := string(body)
	if len(b) > 120 {
		b = fmt.Sprintf("(%d bytes)", len(b))
	}
	s.script = append(s.script, fmt.Sprintf("%s %s %s -> %d", method, url, b, r.Status))
	atomic.AddInt64(s.nq, 1)
	return r
}

func (s *c06Script) ok(r node.Resp, what string) {
	if r.Status != 200 {
		infra("%s (%s): %d %s", what, s.name, r.Status, r.Bytes())
	}
}

func (s *c06Script) report(kind, inst string, exp, obs interface{}) {
	s.bad++
	if s.bad > 3 {
		return
	}
	s.run.Violation("c06", c06HistDivergence{Part: "scripted history: " + s.name, Kind: kind, Instance: inst, Expected: exp, Observed: obs, Script: s.script})
}

func (s *c06Script) newRepo() string {
	r := s.do("POST", "/api/repos", []byte(`{"alias":"c06s"}`))
	var o struct{ Root string }
	if r.Status != 200 || json.Unmarshal(r.Bytes(), &o) != nil || o.Root == "" {
		infra("new repo: %d %s", r.Status, r.Bytes())
	}
	return o.Root
}

func (s *c06Script) mk(root, typename, name string, cfg map[string]string) {
	m := map[string]string{"typename": typename, "dataname": name}
	for k, v := range cfg {
		m[k] = v
	}
	b, _ := json.Marshal(m)
	s.ok(s.do("POST", "/api/repo/"+root+"/instance", b), "create "+name)
}

func (s *c06Script) iid(root, name string) string {
	var id uint32
	must(s.n.Call("ds.instanceid", map[string]string{"UUID": root, "Name": name}, &id), "ds.instanceid")
	return fmt.Sprintf("%08x", id)
}

// keysByInstance counts the keys of the data key space per instance id (hex).
func (s *c06Script) keysByInstance() map[string]int {
	var dump []string
	must(s.n.Call("keys.dump", map[string]string{}, &dump), "keys.dump")
	atomic.AddInt64(s.nq, 1)
	out := map[string]int{}
	for _, k := range dump {
		if len(k) >= 10 {
			out[k[2:10]]++
		}
	}
	return out
}

// waitGone waits until the instance has left the repo (the deletion removes the data first).
func (s *c06Script) waitGone(root, name string) {
	deadline := time.Now().Add(60 * time.Second)
	for {
		r, err := s.n.HTTP("GET", "/api/repo/"+root+"/info", nil)
		must(err, "repo info")
		var info struct{ DataInstances map[string]json.RawMessage }
		json.Unmarshal(r.Bytes(), &info)
		if _, there := info.DataInstances[name]; !there && r.Status == 200 {
			return
		}
		if time.Now().After(deadline) {
			s.report("delete-instance-never-completes", name, "instance leaves the repo", string(r.Bytes()))
			return
		}
		time.Sleep(2 * time.Millisecond)
	}
}

func (s *c06Script) deleteInstance(root, name string) {
	err := s.n.Call("inst.delete", map[string]string{"uuid": root, "name": name}, nil)
	s.script = append(s.script, fmt.Sprintf("datastore.DeleteDataByName(%s, %s) -> %v", root, name, err))
	must(err, "inst.delete "+name)
	s.waitGone(root, name)
}

// view reads a list of GET requests; an instance's view is the list of (status, body).
func (s *c06Script) view(urls []string) []string {
	out := make([]string, len(urls))
	for i, u := range urls {
		r, err := s.n.HTTP("GET", u, nil)
		must(err, "GET "+u)
		atomic.AddInt64(s.nq, 1)
		out[i] = fmt.Sprintf("%s -> %d:%.300s", u, r.Status, r.Bytes())
	}
	return out
}

func (s *c06Script) sameView(inst, when string, before, after []string) {
	for i := range before {
		if before[i] != after[i] {
			s.report("other-instance-changed", inst, before[i], after[i]+"   ("+when+")")
			return
		}
	}
}

// c06NulKeys: a key that holds the terminator byte must be refused and leave key "a" alone.
func c06NulKeys(c *Ctx, run *ev.Run, nq *int64) {
	n := c.StartNode(node.Config{NoLog: true})
	defer c.DropNode(n)
	s := &c06Script{c: c, run: run, n: n, name: "keys holding the terminator byte", nq: nq}
	root := s.newRepo()
	s.mk(root, "keyvalue", "kv", nil)
	s.mk(root, "annotation", "ann", nil)
	s.ok(s.do("POST", "/api/node/"+root+"/kv/key/a", []byte("A")), "POST key a")
	s.ok(s.do("POST", "/api/node/"+root+"/ann/elements", []byte(`[{"Pos":[1,1,1],"Kind":"Note","Tags":["t"],"Prop":{}}]`)), "POST elements")
	urls := []string{"/api/node/" + root + "/kv/key/a", "/api/node/" + root + "/kv/keys", "/api/node/" + root + "/kv/keyrange/a/b", "/api/node/" + root + "/ann/tag/t", "/api/node/" + root + "/ann/elements/64_64_64/0_0_0"}
	before := s.view(urls)
	ids := s.keysByInstance()
	refused := func(r node.Resp, what string) {
		if r.Status < 400 || r.Status >= 500 {
			s.report("key-with-terminator-accepted", what, "refused (4xx): its stored form starts with the stored form of another key", fmt.Sprintf("%d %.200s", r.Status, r.Bytes()))
		}
	}
	refused(s.do("POST", "/api/node/"+root+"/kv/key/a%00b", []byte("X")), "kv key a\\x00b")
	body, _ := pb.Marshal(&proto.KeyValues{Kvs: []*proto.KeyValue{{Key: "a\x00c", Value: []byte("Y")}}})
	refused(s.do("POST", "/api/node/"+root+"/kv/keyvalues", body), "kv keyvalues a\\x00c")
	refused(s.do("POST", "/api/node/"+root+"/ann/elements", []byte(`[{"Pos":[2,2,2],"Kind":"Note","Tags":["t\u0000x"],"Prop":{}}]`)), "annotation tag t\\x00x")
	// whatever the answer, key "a" and tag "t" read as before and no entry was added
	s.do("DELETE", "/api/node/"+root+"/ann/element/2_2_2", nil)
	s.sameView("kv / ann", "after the requests with a terminator byte inside the key", before, s.view(urls))
	after := s.keysByInstance()
	if after[s.iid(root, "kv")] != ids[s.iid(root, "kv")] {
		s.report("entries-added", "kv", ids, after)
	}
	// the constructor itself
	err := n.Call("keys.table", map[string]interface{}{"ids": []uint32{1}, "tks": []klSpec{{Cls: "kv", S: []int{97, 0, 98}}}, "vers": []uint32{1}, "clis": []uint32{0}}, nil)
	if err == nil {
		s.report("constructor-accepts-terminator", "keyvalue.NewTKey", "an error", "a datum key")
	}
	run.Eval("script|nul-keys")
}

// c06Bulk: an instance of more than 25 000 entries (DeleteAll flushes its batch every 10 000)
// between two neighbours is deleted.
func c06Bulk(c *Ctx, run *ev.Run, nq *int64) {
	n := c.StartNode(node.Config{NoLog: true})
	defer c.DropNode(n)
	s := &c06Script{c: c, run: run, n: n, name: "delete a 25 000-entry instance between two neighbours", nq: nq}
	root := s.newRepo()
	for _, nm := range []string{"left", "mid", "right"} {
		s.mk(root, "keyvalue", nm, nil)
	}
	for _, nm := range []string{"left", "right"} {
		for _, k := range isoKeyNames {
			s.ok(s.do("POST", "/api/node/"+root+"/"+nm+"/key/"+k, []byte(nm+"-"+k)), "POST key")
		}
	}
	const total = 25600
	for off := 0; off < total; off += 6400 {
		var kvs proto.KeyValues
		for i := off; i < off+6400; i++ {
			kvs.Kvs = append(kvs.Kvs, &proto.KeyValue{Key: fmt.Sprintf("m%06d", i), Value: []byte("x")})
		}
		body, _ := pb.Marshal(&kvs)
		s.ok(s.do("POST", "/api/node/"+root+"/mid/keyvalues", body), "POST keyvalues")
	}
	var urls []string
	for _, nm := range []string{"left", "right"} {
		urls = append(urls, "/api/node/"+root+"/"+nm+"/keys")
		for _, k := range isoKeyNames {
			urls = append(urls, "/api/node/"+root+"/"+nm+"/key/"+k)
		}
	}
	before := s.view(urls)
	idL, idM, idR := s.iid(root, "left"), s.iid(root, "mid"), s.iid(root, "right")
	cnt := s.keysByInstance()
	if cnt[idM] != total || cnt[idL] != 3 || cnt[idR] != 3 {
		infra("bulk: store holds %v before the deletion (ids %s %s %s)", cnt, idL, idM, idR)
	}
	s.deleteInstance(root, "mid")
	after := s.keysByInstance()
	if after[idM] != 0 {
		s.report("store-residue-of-deleted-instance", "mid", "no key of the deleted instance", fmt.Sprintf("%d keys left of %d", after[idM], total))
	}
	if after[idL] != 3 || after[idR] != 3 {
		s.report("neighbour-entries-deleted", "left/right", "3 keys each", after)
	}
	s.sameView("left/right", "after the deletion of mid", before, s.view(urls))
	s.mk(root, "keyvalue", "mid", nil)
	if v := s.view([]string{"/api/node/" + root + "/mid/keys"}); !strings.HasSuffix(v[0], "200:[]") {
		s.report("new-instance-not-empty", "mid", "[]", v[0])
	}
	run.Eval("script|bulk-delete-between-neighbours")
	run.Set("bulk_deleted_instance_entries", total)
}

// c06DeleteRepo: a repo with two instances is deleted next to a bystander repo.
func c06DeleteRepo(c *Ctx, run *ev.Run, nq *int64) {
	n := c.StartNode(node.Config{NoLog: true})
	defer c.DropNode(n)
	s := &c06Script{c: c, run: run, n: n, name: "delete a repo next to a bystander repo", nq: nq}
	r1, r2 := s.newRepo(), s.newRepo()
	s.mk(r1, "keyvalue", "a", nil)
	s.mk(r2, "keyvalue", "b", nil)
	s.mk(r1, "neuronjson", "nj", nil)
	s.mk(r2, "neuronjson", "nj", nil) // same name, other repo
	for _, k := range isoKeyNames {
		s.ok(s.do("POST", "/api/node/"+r1+"/a/key/"+k, []byte("a-"+k)), "POST key")
		s.ok(s.do("POST", "/api/node/"+r2+"/b/key/"+k, []byte("b-"+k)), "POST key")
	}
	s.ok(s.do("POST", "/api/node/"+r1+"/nj/key/7?u=t", []byte(`{"bodyid":7,"who":"r1"}`)), "POST nj")
	s.ok(s.do("POST", "/api/node/"+r2+"/nj/key/7?u=t", []byte(`{"bodyid":7,"who":"r2"}`)), "POST nj")
	urls := []string{"/api/node/" + r2 + "/b/keys", "/api/node/" + r2 + "/nj/keys", "/api/node/" + r2 + "/nj/key/7?show=user"}
	for _, k := range isoKeyNames {
		urls = append(urls, "/api/node/"+r2+"/b/key/"+k)
	}
	before := s.view(urls)
	idA, idN1, idB, idN2 := s.iid(r1, "a"), s.iid(r1, "nj"), s.iid(r2, "b"), s.iid(r2, "nj")
	cnt := s.keysByInstance()
	err := n.Call("ds.deleterepo", map[string]string{"UUID": r1}, nil)
	s.script = append(s.script, fmt.Sprintf("datastore.DeleteRepo(%s) -> %v", r1, err))
	must(err, "ds.deleterepo")
	deadline := time.Now().Add(60 * time.Second)
	for {
		after := s.keysByInstance()
		if after[idA] == 0 && after[idN1] == 0 {
			if after[idB] != cnt[idB] || after[idN2] != cnt[idN2] {
				s.report("bystander-entries-deleted", "b/nj of the other repo", cnt, after)
			}
			break
		}
		if time.Now().After(deadline) {
			s.report("store-residue-of-deleted-repo", "a/nj", "no key of the deleted repo's instances", after)
			break
		}
		time.Sleep(20 * time.Millisecond)
	}
	s.sameView("b/nj of the other repo", "after the deletion of the first repo", before, s.view(urls))
	s.mk(r2, "keyvalue", "a", nil)
	if v := s.view([]string{"/api/node/" + r2 + "/a/keys"}); !strings.HasSuffix(v[0], "200:[]") {
		s.report("new-instance-not-empty", "a", "[]", v[0])
	}
	s.sameView("b/nj of the other repo", "after creating a new instance", before, s.view(urls))
	run.Eval("script|delete-repo-with-bystander")
}

// c06Synced: a labelmap with a synced annotation (and a labelsz synced to that) is deleted and
// re-created under the same name.
func c06Synced(c *Ctx, run *ev.Run, nq *int64) {
	n := c.StartNode(node.Config{})
	defer c.DropNode(n)
	s := &c06Script{c: c, run: run, n: n, name: "delete a labelmap its annotation is synced with, re-create it", nq: nq}
	root := s.newRepo()
	s.mk(root, "labelmap", "seg", map[string]string{"BlockSize": "32,32,32"})
	s.mk(root, "annotation", "syn", nil)
	s.mk(root, "labelsz", "sz", nil)
	s.mk(root, "keyvalue", "by", nil)
	s.ok(s.do("POST", "/api/node/"+root+"/syn/sync", []byte(`{"sync":"seg"}`)), "sync syn")
	s.ok(s.do("POST", "/api/node/"+root+"/sz/sync", []byte(`{"sync":"syn"}`)), "sync sz")
	s.ok(s.do("POST", "/api/node/"+root+"/by/key/a", []byte("bystander")), "POST key")
	s.ok(s.do("POST", "/api/node/"+root+"/seg/blocks", lmSolidBlock(0, 21)), "POST blocks")
	must(n.Idle(), "idle")
	mb, _ := pb.Marshal(&proto.MappingOps{Mappings: []*proto.MappingOp{{Mutid: 1, Mapped: 99, Original: []uint64{21}}}})
	s.ok(s.do("POST", "/api/node/"+root+"/seg/mappings", mb), "POST mappings")
	s.ok(s.do("POST", "/api/node/"+root+"/syn/elements", []byte(`[{"Pos":[5,5,5],"Kind":"PostSyn","Tags":["t"],"Prop":{}},{"Pos":[70,5,5],"Kind":"Note","Tags":["t"],"Prop":{}}]`)), "POST elements")
	must(n.Idle(), "idle")
	segURLs := []string{"/api/node/" + root + "/seg/label/5_5_5", "/api/node/" + root + "/seg/index/21?metadata-only=true", "/api/node/" + root + "/seg/mappings", "/api/node/" + root + "/seg/sparsevol-size/99"}
	segBefore := s.view(segURLs)
	if !strings.Contains(segBefore[0], "99") {
		infra("synced script: the labelmap does not read label 99 at the written block: %v", segBefore)
	}
	others := []string{"/api/node/" + root + "/syn/elements/128_64_64/0_0_0", "/api/node/" + root + "/syn/tag/t", "/api/node/" + root + "/by/key/a", "/api/node/" + root + "/by/keys"}
	before := s.view(others)
	idSeg := s.iid(root, "seg")
	s.deleteInstance(root, "seg")
	must(n.Idle(), "idle")
	if left := s.keysByInstance()[idSeg]; left != 0 {
		s.report("store-residue-of-deleted-instance", "seg", "no key of the deleted instance", fmt.Sprintf("%d keys", left))
	}
	s.sameView("syn / by", "after the deletion of the labelmap", before, s.view(others))
	// operating on the partner: the write succeeds with its effect, or is refused leaving it unchanged
	r := s.do("POST", "/api/node/"+root+"/syn/elements", []byte(`[{"Pos":[9,9,9],"Kind":"Note","Tags":["u"],"Prop":{}}]`))
	must(n.Idle(), "idle")
	switch {
	case r.Status == 200:
		if v := s.view([]string{"/api/node/" + root + "/syn/tag/u"}); !strings.Contains(v[0], "[9,9,9]") {
			s.report("partner-write-lost", "syn", "the element posted after the labelmap's deletion", v[0])
		}
		s.ok(s.do("DELETE", "/api/node/"+root+"/syn/element/9_9_9", nil), "DELETE element")
		must(n.Idle(), "idle")
	case r.Status >= 500:
		s.report("partner-write-fails", "syn", "accepted, or refused as a client error", fmt.Sprintf("%d %.200s", r.Status, r.Bytes()))
	}
	s.sameView("syn / by", "after a write to the synced partner", before, s.view(others))
	// the same name again: a new, empty instance (nothing of the old one in its caches)
	s.mk(root, "labelmap", "seg", map[string]string{"BlockSize": "32,32,32"})
	fresh := s.view(segURLs)
	wantFresh := []string{`200:{"Label": 0}`, "404:", "200:", "404:"}
	for i, w := range wantFresh {
		got := fresh[i][strings.Index(fresh[i], "-> ")+3:]
		got = strings.TrimSpace(got)
		ok := got == w || (i == 0 && strings.ReplaceAll(got, " ", "") == strings.ReplaceAll(w, " ", "")) || (strings.HasPrefix(w, "404") && strings.HasPrefix(got, "404")) || (i == 3 && strings.HasPrefix(got, "400"))
		if !ok {
			s.report("new-instance-not-empty", "seg", w, fresh[i]+"   (the deleted instance answered "+segBefore[i]+")")
		}
	}
	s.sameView("syn / by", "after re-creating the labelmap", before, s.view(others))
	run.Eval("script|synced-labelmap-deleted-and-recreated")
}

func c06Scripts(c *Ctx, run *ev.Run, nq *int64) {
	fs := []func(*Ctx, *ev.Run, *int64){c06NulKeys, c06Bulk, c06DeleteRepo, c06Synced, c06Rename}
	parallel(len(fs), len(fs), func(_, i int) { fs[i](c, run, nq) })
	_ = sort.Strings
}

// c06Stored: the key classes that have no exported constructor are bound through the requests that
// write them: the datum keys found in the store afterwards must be the ones TLC expects.
func c06Stored(c *Ctx, t *klTable, exp *klExpect, report func(c06KeyDivergence)) int64 {
	if len(exp.Stored) != len(t.Stored) {
		infra("KeyLayout_mc printed %d stored keys for %d specs", len(exp.Stored), len(t.Stored))
	}
	n := c.StartNode(node.Config{})
	defer c.DropNode(n)
	do := func(method, url string, body []byte, what string) {
		r, err := n.HTTP(method, url, body)
		must(err, what)
		if r.Status != 200 {
			infra("%s: %d %s", what, r.Status, r.Bytes())
		}
	}
	r, err := n.HTTP("POST", "/api/repos", []byte(`{"alias":"stored"}`))
	must(err, "new repo")
	var o struct{ Root string }
	if json.Unmarshal(r.Bytes(), &o) != nil || o.Root == "" {
		infra("new repo: %d %s", r.Status, r.Bytes())
	}
	do("POST", "/api/repo/"+o.Root+"/instance", []byte(`{"typename":"roi","dataname":"r"}`), "create roi")
	do("POST", "/api/repo/"+o.Root+"/instance", []byte(`{"typename":"labelmap","dataname":"lm","BlockSize":"32,32,32"}`), "create labelmap")
	val := func(c [2]int) int { return c[0]*65536 + c[1] }
	var spans [][4]int
	wantROI := map[string]int{}
	wantLM := map[string]int{}
	for i, k := range t.Stored {
		switch k.Cls {
		case "roi":
			x0, y, z, span := val(k.P[0]), val(k.P[1]), val(k.P[2]), k.U[0]*65536+k.U[1]
			spans = append(spans, [4]int{z, y, x0, x0 + span - 1})
			wantROI[hexOf(exp.Stored[i])] = i
		case "plain":
			wantLM[hexOf(exp.Stored[i])] = i
		}
	}
	sort.Slice(spans, func(i, j int) bool {
		a, b := spans[i], spans[j]
		return a[0] < b[0] || (a[0] == b[0] && (a[1] < b[1] || (a[1] == b[1] && a[2] < b[2])))
	})
	body, _ := json.Marshal(spans)
	do("POST", "/api/node/"+o.Root+"/r/roi", body, "POST roi")
	do("POST", "/api/node/"+o.Root+"/lm/blocks", lmSolidBlock(0, 7), "POST blocks")
	must(n.Idle(), "idle")
	do("POST", "/api/node/"+o.Root+"/lm/set-nextlabel/100", nil, "POST set-nextlabel")
	// (the repo-wide and per-version maximum labels are persisted in the background)
	var gotROI, gotLM []string
	deadline := time.Now().Add(10 * time.Second)
	for {
		must(n.Call("keys.tkeys", map[string]string{"UUID": o.Root, "Name": "r"}, &gotROI), "keys.tkeys")
		must(n.Call("keys.tkeys", map[string]string{"UUID": o.Root, "Name": "lm"}, &gotLM), "keys.tkeys")
		have := 0
		for _, g := range gotLM {
			if _, ok := wantLM[g]; ok {
				have++
			}
		}
		if have == len(wantLM) || time.Now().After(deadline) {
			break
		}
		time.Sleep(5 * time.Millisecond)
	}
	var compared int64
	in := func(l []string, x string) bool {
		for _, y := range l {
			if x == y {
				return true
			}
		}
		return false
	}
	for h, i := range wantROI {
		compared++
		if !in(gotROI, h) {
			report(c06KeyDivergence{Part: "stored keys", Kind: "datum-key-bytes", TKeySpec: &t.Stored[i], Expected: h, Observed: gotROI})
		}
	}
	compared++
	if len(gotROI) != len(wantROI) {
		report(c06KeyDivergence{Part: "stored keys", Kind: "datum-key-bytes", Expected: fmt.Sprintf("%d datum keys in the roi instance", len(wantROI)), Observed: gotROI})
	}
	for h, i := range wantLM {
		compared++
		if !in(gotLM, h) {
			report(c06KeyDivergence{Part: "stored keys", Kind: "datum-key-bytes", TKeySpec: &t.Stored[i], Expected: h, Observed: gotLM})
		}
	}
	return compared
}

// c06Rename: an instance is renamed, its old name is used again, and the renamed instance is
// deleted by its data UUID (the `repo delete` command's other addressing).
func c06Rename(c *Ctx, run *ev.Run, nq *int64) {
	n := c.StartNode(node.Config{NoLog: true})
	defer c.DropNode(n)
	s := &c06Script{c: c, run: run, n: n, name: "rename, re-use the old name, delete by data UUID", nq: nq}
	root := s.newRepo()
	s.mk(root, "keyvalue", "a", nil)
	s.mk(root, "keyvalue", "by", nil)
	for _, k := range isoKeyNames {
		s.ok(s.do("POST", "/api/node/"+root+"/a/key/"+k, []byte("old-"+k)), "POST key")
		s.ok(s.do("POST", "/api/node/"+root+"/by/key/"+k, []byte("by-"+k)), "POST key")
	}
	urlsOf := func(name string) []string {
		u := []string{"/api/node/" + root + "/" + name + "/keys"}
		for _, k := range isoKeyNames {
			u = append(u, "/api/node/"+root+"/"+name+"/key/"+k)
		}
		return u
	}
	strip := func(v []string) []string { // the view without the instance name in the URL
		out := make([]string, len(v))
		for i, x := range v {
			out[i] = x[strings.Index(x, " -> "):]
		}
		return out
	}
	aBefore, byBefore := strip(s.view(urlsOf("a"))), s.view(urlsOf("by"))
	idA := s.iid(root, "a")
	err := n.Call("ds.rename", map[string]string{"UUID": root, "Old": "a", "New": "b"}, nil)
	s.script = append(s.script, fmt.Sprintf("datastore.RenameData(%s, a, b) -> %v", root, err))
	must(err, "ds.rename")
	if got := strip(s.view(urlsOf("b"))); fmt.Sprint(got) != fmt.Sprint(aBefore) {
		s.report("renamed-instance-changed", "b", aBefore, got)
	}
	if s.iid(root, "b") != idA {
		s.report("renamed-instance-changed", "b", "instance id "+idA, s.iid(root, "b"))
	}
	s.mk(root, "keyvalue", "a", nil) // the old name again
	if v := s.view([]string{"/api/node/" + root + "/a/keys", "/api/node/" + root + "/a/key/a"}); !strings.HasSuffix(v[0], "200:[]") || !strings.Contains(v[1], "-> 404") {
		s.report("new-instance-not-empty", "a", "[] and 404", v)
	}
	if s.iid(root, "a") == idA {
		s.report("instance-id-reused", "a", "an id other than the renamed instance's "+idA, idA)
	}
	s.ok(s.do("POST", "/api/node/"+root+"/a/key/ab", []byte("new")), "POST key")
	if got := strip(s.view(urlsOf("b"))); fmt.Sprint(got) != fmt.Sprint(aBefore) {
		s.report("other-instance-changed", "b", aBefore, got)
	}
	// delete the renamed instance by its data UUID
	r := s.do("GET", "/api/repo/"+root+"/info", nil)
	var info struct {
		DataInstances map[string]struct{ Base struct{ DataUUID string } }
	}
	if json.Unmarshal(r.Bytes(), &info) != nil || info.DataInstances["b"].Base.DataUUID == "" {
		infra("repo info holds no data UUID for b: %.300s", r.Bytes())
	}
	err = n.Call("inst.deletebyuuid", map[string]string{"datauuid": info.DataInstances["b"].Base.DataUUID}, nil)
	s.script = append(s.script, fmt.Sprintf("datastore.DeleteDataByDataUUID(%s) -> %v", info.DataInstances["b"].Base.DataUUID, err))
	must(err, "inst.deletebyuuid")
	s.waitGone(root, "b")
	if left := s.keysByInstance()[idA]; left != 0 {
		s.report("store-residue-of-deleted-instance", "b", "no key of the deleted instance", fmt.Sprintf("%d keys", left))
	}
	s.sameView("by", "after rename / re-create / delete by data UUID", byBefore, s.view(urlsOf("by")))
	if v := s.view([]string{"/api/node/" + root + "/a/keys", "/api/node/" + root + "/a/key/ab"}); !strings.HasSuffix(v[0], `200:["ab"]`) || !strings.HasSuffix(v[1], "200:new") {
		s.report("other-instance-changed", "a", `["ab"] and new`, v)
	}
	run.Eval("script|rename-reuse-name-delete-by-datauuid")
}
