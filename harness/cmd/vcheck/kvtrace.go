package main

import (
	"sync"
	"encoding/json"
	"fmt"
	"math/rand"
	"strings"
	"time"

	pb "google.golang.org/protobuf/proto"

	"github.com/janelia-flyem/dvid/datatype/common/proto"

	"verifharness/internal/ev"
	"verifharness/internal/node"
	"verifharness/internal/tlc"
)

// kvTraceDriver produces one seeded random interleaving of write / delete / read / commit /
// branch / new-version / merge requests (valid and refused ones) on a fresh repo and records one
// event per request with its outcome, in abstract numbering (nodes and values by order of
// creation).  The recorded trace is validated by TLC against DvidKVTrace.tla.
type kvTraceDriver struct {
	n      *node.Node
	rng    *rand.Rand
	uuids  []string
	locked []bool
	branch []string
	kids   []int
	nextV  int
	nbr    int
	events []map[string]interface{}
	script []string
	dupOf  int
	// growth (gaps C01-1, C01-3, C01-5): an unversioned instance next to the versioned one, a second
	// repo, versions addressed by UUID prefix and by <root>:<branch>, protobuf batch writes
	grow    bool
	root    []int           // root node (1-based) of each node's repo
	roots   []int           // root nodes of the repos of this trace
	merged  map[int]bool    // repos (by root node) that hold a merge node
	known   map[string]bool // every UUID ever seen on this server (for unambiguous prefixes)
	counts  map[string]int
}

// newNum is the number recorded for the node just added.
func (d *kvTraceDriver) newNum() int {
	if d.dupOf > 0 {
		return d.dupOf
	}
	return len(d.uuids)
}

func (d *kvTraceDriver) ev(e map[string]interface{}) { d.events = append(d.events, e) }

func (d *kvTraceDriver) http(method, url string, body []byte) node.Resp {
	r, err := d.n.HTTP(method, url, body)
	must(err, method+" "+url)
	d.script = append(d.script, fmt.Sprintf("%s %s %.80s -> %d", method, url, body, r.Status))
	return r
}

// addr returns how to name node nd in a URL: mostly the UUID, in growth mode sometimes its first
// 8 characters (when no other UUID of the server starts with them).
func (d *kvTraceDriver) addr(nd int) string {
	u := d.uuids[nd-1]
	if !d.grow || d.rng.Intn(4) != 0 {
		return u
	}
	for o := range d.known {
		if o != u && strings.HasPrefix(o, u[:8]) {
			return u
		}
	}
	d.counts["prefix-addressed"]++
	return u[:8]
}

// kvRes maps the answer of GET key to the value id read (0 = not found, -1 = any failure).
func kvRes(r node.Resp) int {
	res := -1
	if r.Status == 200 {
		fmt.Sscanf(string(r.Bytes()), "v%d", &res)
	} else if r.Status == 404 {
		res = 0
	}
	return res
}

// growOp performs one of the growth requests; it reports whether it did.
func (d *kvTraceDriver) growOp(keys []string, maxNodes int, newRepo func()) bool {
	nd := 1 + d.rng.Intn(len(d.uuids))
	key := keys[d.rng.Intn(3)]
	switch k := d.rng.Intn(16); {
	case k < 3: // write on the unversioned instance, at any version - committed or not
		d.nextV++
		r := d.http("POST", "/api/node/"+d.addr(nd)+"/kvu/key/"+key, []byte(fmt.Sprintf("v%d", d.nextV)))
		d.ev(map[string]interface{}{"ev": "uput", "node": nd, "key": key, "val": d.nextV, "ok": r.Status == 200})
		if d.locked[nd-1] {
			d.counts["unversioned-write-at-committed-version"]++
		}
	case k < 4:
		r := d.http("DELETE", "/api/node/"+d.addr(nd)+"/kvu/key/"+key, nil)
		d.ev(map[string]interface{}{"ev": "udel", "node": nd, "key": key, "ok": r.Status == 200})
	case k < 7:
		r := d.http("GET", "/api/node/"+d.addr(nd)+"/kvu/key/"+key, nil)
		d.ev(map[string]interface{}{"ev": "uget", "node": nd, "key": key, "res": kvRes(r)})
		d.counts["unversioned-read"]++
	case k < 12: // the versioned instance through <root>:<branch>
		rt := d.root[nd-1]
		br := d.branch[nd-1]
		if br == "" && d.merged[rt] {
			return false // which master version a repo with merge versions calls its head is left to C07
		}
		name := br
		if br == "" {
			name = "master"
		}
		a := d.uuids[rt-1] + ":" + name
		if d.rng.Intn(3) == 0 {
			a = d.uuids[rt-1][:10] + ":" + name
		}
		d.counts["branch-addressed"]++
		switch d.rng.Intn(4) {
		case 0:
			d.nextV++
			r := d.http("POST", "/api/node/"+a+"/kv/key/"+key, []byte(fmt.Sprintf("v%d", d.nextV)))
			d.ev(map[string]interface{}{"ev": "putb", "root": rt, "branch": br, "key": key, "val": d.nextV, "ok": r.Status == 200})
		case 1:
			r := d.http("DELETE", "/api/node/"+a+"/kv/key/"+key, nil)
			d.ev(map[string]interface{}{"ev": "delb", "root": rt, "branch": br, "key": key, "ok": r.Status == 200})
		default:
			r := d.http("GET", "/api/node/"+a+"/kv/key/"+key, nil)
			d.ev(map[string]interface{}{"ev": "getb", "root": rt, "branch": br, "key": key, "res": kvRes(r)})
		}
	case k < 14: // POST keyvalues: a protobuf batch of two keys is two writes at one version
		k2 := keys[d.rng.Intn(3)]
		d.nextV += 2
		body, _ := pb.Marshal(&proto.KeyValues{Kvs: []*proto.KeyValue{
			{Key: key, Value: []byte(fmt.Sprintf("v%d", d.nextV-1))}, {Key: k2, Value: []byte(fmt.Sprintf("v%d", d.nextV))}}})
		r := d.http("POST", "/api/node/"+d.addr(nd)+"/kv/keyvalues", body)
		d.ev(map[string]interface{}{"ev": "put", "node": nd, "key": key, "val": d.nextV - 1, "ok": r.Status == 200})
		d.ev(map[string]interface{}{"ev": "put", "node": nd, "key": k2, "val": d.nextV, "ok": r.Status == 200})
		d.counts["batch-write"]++
	default:
		if len(d.roots) >= 2 || len(d.uuids) >= maxNodes {
			return false
		}
		newRepo()
	}
	return true
}

func (d *kvTraceDriver) run(ops int, maxNodes int, restarts bool) {
	var o struct{ Root, Child string }
	if d.known == nil {
		d.known = map[string]bool{}
	}
	d.merged = map[int]bool{}
	d.counts = map[string]int{}
	addNode := func(u, br string, ps []int) {
		d.dupOf = 0
		for i, old := range d.uuids {
			if old == u {
				d.dupOf = i + 1 // a UUID handed out twice: the event carries the old number and is rejected
			}
		}
		d.known[u] = true
		d.uuids = append(d.uuids, u)
		d.locked = append(d.locked, false)
		d.branch = append(d.branch, br)
		d.kids = append(d.kids, 0)
		rt := len(d.uuids)
		if len(ps) > 0 {
			rt = d.root[ps[0]-1]
		}
		d.root = append(d.root, rt)
		if len(ps) > 1 {
			d.merged[rt] = true
		}
		for _, p := range ps {
			d.kids[p-1]++
		}
	}
	newRepo := func() {
		r := d.http("POST", "/api/repos", []byte(`{"alias":"t"}`))
		json.Unmarshal(r.Bytes(), &o)
		addNode(o.Root, "", nil)
		d.roots = append(d.roots, len(d.uuids))
		d.ev(map[string]interface{}{"ev": "newrepo", "new": d.newNum()})
		d.http("POST", "/api/repo/"+o.Root+"/instance", []byte(`{"typename":"keyvalue","dataname":"kv"}`))
		if d.grow {
			d.http("POST", "/api/repo/"+o.Root+"/instance", []byte(`{"typename":"keyvalue","dataname":"kvu","versioned":"false"}`))
		}
	}
	newRepo()
	keys := []string{"k1", "k2", "k3"}
	for i := 0; i < ops; i++ {
		if d.grow && d.rng.Intn(3) == 0 && d.growOp(keys, maxNodes, newRepo) {
			continue
		}
		nd := 1 + d.rng.Intn(len(d.uuids))
		u := d.addr(nd)
		switch k := d.rng.Intn(20); {
		case k < 6: // put
			if d.locked[nd-1] && d.rng.Intn(4) != 0 {
				// mostly write where it is allowed; sometimes try a committed node
				open := d.openNodes()
				if len(open) > 0 {
					nd = open[d.rng.Intn(len(open))]
					u = d.addr(nd)
				}
			}
			d.nextV++
			key := keys[d.rng.Intn(3)]
			r := d.http("POST", "/api/node/"+u+"/kv/key/"+key, []byte(fmt.Sprintf("v%d", d.nextV)))
			d.ev(map[string]interface{}{"ev": "put", "node": nd, "key": key, "val": d.nextV, "ok": r.Status == 200})
		case k < 8: // delete
			key := keys[d.rng.Intn(3)]
			r := d.http("DELETE", "/api/node/"+u+"/kv/key/"+key, nil)
			d.ev(map[string]interface{}{"ev": "del", "node": nd, "key": key, "ok": r.Status == 200})
		case k < 13: // get
			key := keys[d.rng.Intn(3)]
			r := d.http("GET", "/api/node/"+u+"/kv/key/"+key, nil)
			res := -1
			if r.Status == 200 {
				fmt.Sscanf(string(r.Bytes()), "v%d", &res)
			} else if r.Status == 404 {
				res = 0
			}
			d.ev(map[string]interface{}{"ev": "get", "node": nd, "key": key, "res": res})
		case k < 15: // commit
			r := d.http("POST", "/api/node/"+u+"/commit", []byte(`{}`))
			if r.Status == 200 {
				d.locked[nd-1] = true
			}
			d.ev(map[string]interface{}{"ev": "commit", "node": nd, "ok": r.Status == 200})
		case k < 17: // branch / newversion
			if len(d.uuids) >= maxNodes {
				continue
			}
			if d.rng.Intn(3) == 0 {
				r := d.http("POST", "/api/node/"+u+"/newversion", []byte(`{}`))
				e := map[string]interface{}{"ev": "newversion", "node": nd, "ok": r.Status == 200}
				if r.Status == 200 {
					json.Unmarshal(r.Bytes(), &o)
					addNode(o.Child, d.branch[nd-1], []int{nd})
					e["new"] = d.newNum()
				}
				d.ev(e)
			} else {
				d.nbr++
				br := fmt.Sprintf("x%d", d.nbr)
				if d.rng.Intn(6) == 0 && d.nbr > 1 {
					br = fmt.Sprintf("x%d", 1+d.rng.Intn(d.nbr-1)) // reuse a name: must be refused unless continuing that branch
					d.nbr--
				}
				r := d.http("POST", "/api/node/"+u+"/branch", []byte(fmt.Sprintf(`{"branch":%q}`, br)))
				e := map[string]interface{}{"ev": "branch", "node": nd, "branch": br, "ok": r.Status == 200}
				if r.Status == 200 {
					json.Unmarshal(r.Bytes(), &o)
					addNode(o.Child, br, []int{nd})
					e["new"] = d.newNum()
				}
				d.ev(e)
			}
		case k < 19: // merge of 2..3 random nodes (may be invalid)
			if len(d.uuids) < 2 || len(d.uuids) >= maxNodes {
				continue
			}
			np := 2 + d.rng.Intn(2)
			var ps []int
			var pu []string
			for j := 0; j < np; j++ {
				p := 1 + d.rng.Intn(len(d.uuids))
				if d.rng.Intn(4) != 0 {
					// prefer committed distinct parents
					c := d.committedNodes()
					if len(c) > 0 {
						p = c[d.rng.Intn(len(c))]
					}
				}
				if d.grow && len(ps) > 0 && d.root[p-1] != d.root[ps[0]-1] && d.rng.Intn(5) != 0 {
					// mostly parents of one repo (a merge across repos must be refused)
					var same []int
					for q := range d.uuids {
						if d.root[q] == d.root[ps[0]-1] && (d.locked[q] || d.rng.Intn(4) == 0) {
							same = append(same, q+1)
						}
					}
					if len(same) > 0 {
						p = same[d.rng.Intn(len(same))]
					}
				}
				ps = append(ps, p)
				pu = append(pu, d.uuids[p-1])
			}
			body, _ := json.Marshal(map[string]interface{}{"mergeType": "conflict-free", "parents": pu})
			r := d.http("POST", "/api/repo/"+d.uuids[d.root[ps[0]-1]-1]+"/merge", body)
			e := map[string]interface{}{"ev": "merge", "parents": ps, "ok": r.Status == 200}
			if r.Status == 200 {
				json.Unmarshal(r.Bytes(), &o)
				addNode(o.Child, "", ps)
				e["new"] = d.newNum()
			}
			d.ev(e)
		default:
			if restarts && d.rng.Intn(3) == 0 {
				must(d.n.Restart(d.rng.Intn(2) == 0), "restart")
				d.ev(map[string]interface{}{"ev": "restart"})
			}
		}
	}
	// final reads of every key at every node
	for nd := range d.uuids {
		for _, key := range keys {
			r := d.http("GET", "/api/node/"+d.uuids[nd]+"/kv/key/"+key, nil)
			res := -1
			if r.Status == 200 {
				fmt.Sscanf(string(r.Bytes()), "v%d", &res)
			} else if r.Status == 404 {
				res = 0
			}
			d.ev(map[string]interface{}{"ev": "get", "node": nd + 1, "key": key, "res": res})
			if d.grow {
				r := d.http("GET", "/api/node/"+d.uuids[nd]+"/kvu/key/"+key, nil)
				d.ev(map[string]interface{}{"ev": "uget", "node": nd + 1, "key": key, "res": kvRes(r)})
			}
		}
	}
}

func (d *kvTraceDriver) openNodes() []int {
	var o []int
	for i, l := range d.locked {
		if !l {
			o = append(o, i+1)
		}
	}
	return o
}

func (d *kvTraceDriver) committedNodes() []int {
	var o []int
	for i, l := range d.locked {
		if l {
			o = append(o, i+1)
		}
	}
	return o
}

type kvTrace struct {
	restarts bool
	seed     int64
	events   []map[string]interface{}
	script   []string
}

func eventsBytes(evs []map[string]interface{}) []byte {
	var sb strings.Builder
	for _, e := range evs {
		b, _ := json.Marshal(e)
		sb.Write(b)
		sb.WriteByte('\n')
	}
	return []byte(sb.String())
}

func kvTraceCfg(allowDev bool) []byte {
	return []byte(fmt.Sprintf("SPECIFICATION TSpec\nCONSTANTS\n  MaxNodes = 64\n  MaxRepos = 64\n  MaxParents = 3\n  Branches = {\"a\", \"b\"}\n  UUIDPool = {}\n  WithRejects = TRUE\n  LastFoundBug = FALSE\n  Keys = {\"k1\", \"k2\", \"k3\"}\n  AllowInnerMergeConflict = %s\nINVARIANTS Inv_C07\nPROPERTIES Act_C01_UnversionedIsolated\nPOSTCONDITION TraceAccepted\nCHECK_DEADLOCK FALSE\n",
		map[bool]string{true: "TRUE", false: "FALSE"}[allowDev]))
}

// validateKVTrace returns (events explained, accepted, deviations used).
func validateKVTrace(c *Ctx, evs []map[string]interface{}, allowDev bool) (int, bool, int) {
	r := c.RunTLC(tlc.Opts{Module: "DvidKVTrace", Config: "gen_kvtrace.cfg", Workers: 1, Timeout: 20 * time.Minute, Xss: "256m",
		Files: map[string][]byte{"kv_trace.ndjson": eventsBytes(evs), "gen_kvtrace.cfg": kvTraceCfg(allowDev)}})
	if r.Depth == 0 {
		infra("DvidKVTrace produced no result: %s", r.Tail(1500))
	}
	return r.Depth - 1, r.OK, strings.Count(r.Output, "DEVIATION inner-merge-conflict")
}

// runKVTraces records nTraces random interleavings and validates them.  Returns the number of
// traces and events validated.
func runKVTraces(c *Ctx, run *ev.Run, nTraces, ops, maxNodes int, restarts bool, knownDev string) (int, int) {
	return runKVTracesOpt(c, run, nTraces, ops, maxNodes, restarts, knownDev, false)
}

// runKVTracesOpt: with grow the traces also hold requests on an unversioned instance, a second
// repo, versions addressed by UUID prefix and by <root>:<branch>, and protobuf batch writes.
func runKVTracesOpt(c *Ctx, run *ev.Run, nTraces, ops, maxNodes int, restarts bool, knownDev string, grow bool) (int, int) {
	traces := make([]kvTrace, nTraces)
	var cmu sync.Mutex
	counts := map[string]int{}
	workers := 12
	perNode := 25
	nChunks := (nTraces + perNode - 1) / perNode
	parallel(nChunks, workers, func(_, ci int) {
		n := c.StartNode(node.Config{})
		defer func() { c.DropNode(n) }()
		known := map[string]bool{}
		for t := ci * perNode; t < (ci+1)*perNode && t < nTraces; t++ {
			seed := c.Seed*100000 + int64(t)
			d := &kvTraceDriver{n: n, rng: rand.New(rand.NewSource(seed)), grow: grow, known: known}
			// every second chunk of traces has process restarts (clean / SIGKILL) sprinkled in, in both tiers
			rs := restarts || ci%2 == 1
			d.run(ops, maxNodes, rs)
			traces[t] = kvTrace{restarts: rs, seed: seed, events: d.events, script: d.script}
			cmu.Lock()
			for k, v := range d.counts {
				counts[k] += v
			}
			if len(d.roots) > 1 {
				counts["traces-with-two-repos"]++
			}
			cmu.Unlock()
		}
	})
	if grow {
		run.Set("trace_growth_requests", counts)
	}
	var all []map[string]interface{}
	nEvents := 0
	for i, t := range traces {
		all = append(all, map[string]interface{}{"ev": "reset", "trace": i})
		all = append(all, t.events...)
		nEvents += len(t.events)
	}
	allowDev := knownDev != "" && run.KnownActive(knownDev)
	_, ok, devs := validateKVTrace(c, all, allowDev)
	if devs > 0 {
		run.ReportKnown(knownDev)
	}
	if !ok {
		found := false
		for i, t := range traces {
			k, ok, _ := validateKVTrace(c, t.events, allowDev)
			if ok {
				continue
			}
			found = true
			// reproduce: the same seed on a fresh node must be rejected at the same event
			n := c.StartNode(node.Config{})
			d := &kvTraceDriver{n: n, rng: rand.New(rand.NewSource(t.seed)), grow: grow}
			d.run(ops, maxNodes, t.restarts)
			c.DropNode(n)
			k2, ok2, _ := validateKVTrace(c, d.events, allowDev)
			if ok2 || (!t.restarts && k2 != k) {
				infra("trace %d rejected at event %d but its re-execution is accepted/rejected elsewhere (%d): not reproduced", i, k, k2)
			}
			lo := k - 8
			if lo < 0 {
				lo = 0
			}
			hi := k + 1
			if hi > len(t.events) {
				hi = len(t.events)
			}
			run.Violation("kvtrace", map[string]interface{}{"kind": "trace-rejected-by-DvidKVTrace", "trace_seed": t.seed, "events_explained": k,
				"rejected_event": t.events[minI(k, len(t.events)-1)], "preceding_events": t.events[lo:hi], "script": t.script})
		}
		if !found {
			infra("concatenated trace rejected but every single trace accepted")
		}
	}
	if len(traces) > 0 {
		e := traces[0].events
		if len(e) > 14 {
			e = e[:14]
		}
		run.Sample(map[string]interface{}{"recorded_trace_prefix": e})
	}
	return nTraces, nEvents
}
