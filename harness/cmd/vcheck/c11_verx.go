package main

// C11 template verx (gap C11-10): repo-level requests concurrent on one version P - new version /
// branch off P, version merge of P with its committed sibling Q (POST repo/merge), commit of P,
// new data instance at P - specs/Concurrency.tla VxCatalog / VxProg, gates at the VerifPoint
// sites datastore.newVersion, datastore.merge, datastore.commit, datastore.newData.  This file
// only spells the abstract requests and reads the observation; expected outcomes come from TLC.

import (
	"encoding/json"
	"fmt"
	"sort"
	"strings"

	"verifharness/internal/dagm"
	"verifharness/internal/node"
)

func c11VxChild(n *node.Node, parent, branch string) string {
	r := c11Do(n, "POST", "/api/node/"+parent+"/branch", []byte(fmt.Sprintf(`{"branch":%q}`, branch)), "branch "+branch)
	var o struct{ Child string }
	json.Unmarshal(r.Bytes(), &o)
	if o.Child == "" {
		infra("branch %s: no child in %s", branch, r.Bytes())
	}
	return o.Child
}

// root R (committed) with the children Q (branch "q", committed) and P (branch "p", committed iff pre.lkd)
func c11VxSetup(env *c11Env, pre map[string]interface{}) {
	n := env.n
	env.root = c11NewRepo(n)
	c11Do(n, "POST", "/api/node/"+env.root+"/commit", []byte(`{"note":"c11"}`), "commit root")
	env.vxQ = c11VxChild(n, env.root, "q")
	c11Do(n, "POST", "/api/node/"+env.vxQ+"/commit", []byte(`{"note":"q"}`), "commit Q")
	env.vxP = c11VxChild(n, env.root, "p")
	if pre["lkd"] == true {
		c11Do(n, "POST", "/api/node/"+env.vxP+"/commit", []byte(`{"note":"p"}`), "commit P")
	}
}

func c11VxRequest(env *c11Env, r c11Rq) node.Req {
	who := r.num("who")
	switch r.str("k") {
	case "newversion":
		return env.n.MkReq("POST", "/api/node/"+env.vxP+"/newversion", []byte(`{}`))
	case "branch":
		return env.n.MkReq("POST", "/api/node/"+env.vxP+"/branch", []byte(fmt.Sprintf(`{"branch":%q}`, r.str("b"))))
	case "merge":
		return env.n.MkReq("POST", "/api/repo/"+env.root+"/merge", []byte(fmt.Sprintf(`{"mergeType":"conflict-free","parents":[%q,%q],"note":"vx %d"}`, env.vxP, env.vxQ, who)))
	case "commit":
		return env.n.MkReq("POST", "/api/node/"+env.vxP+"/commit", []byte(fmt.Sprintf(`{"note":"vx-commit %d","log":["vx-commit %d"]}`, who, who)))
	case "newdata":
		return env.n.MkReq("POST", "/api/repo/"+env.vxP+"/instance", []byte(fmt.Sprintf(`{"typename":"keyvalue","dataname":%q}`, r.str("name"))))
	}
	infra("verx: unknown request kind %q", r.str("k"))
	return node.Req{}
}

func c11VxObserve(env *c11Env) interface{} {
	r, err := env.n.HTTP("GET", "/api/repo/"+env.root+"/info", nil)
	must(err, "repo info")
	var ri dagm.RepoInfo
	must(json.Unmarshal(r.Bytes(), &ri), "repo info json")
	p, ok := ri.DAG.Nodes[env.vxP]
	if !ok {
		infra("verx: version P missing from the repo info")
	}
	cnt := map[string]int{}
	mk := 0
	for _, nd := range ri.DAG.Nodes {
		isChild := false
		for _, pv := range nd.Parents {
			if pv == p.VersionID {
				isChild = true
			}
		}
		if !isChild {
			continue
		}
		if len(nd.Parents) > 1 {
			mk++
			continue
		}
		b := nd.Branch
		if b == p.Branch {
			b = "" // the parent's own branch
		}
		cnt[b]++
	}
	kids := []interface{}{}
	for b, c := range cnt {
		kids = append(kids, obsM{"b": b, "n": c})
	}
	// the links must mirror: P's children list has exactly these
	if len(p.Children) != mk+func() int { s := 0; for _, c := range cnt { s += c }; return s }() {
		kids = append(kids, obsM{"b": fmt.Sprintf("P lists %d children, %d versions name P as parent", len(p.Children), mk+len(cnt)), "n": -1})
	}
	nc := 0
	for _, l := range p.Log {
		if strings.Contains(l, "vx-commit") {
			nc++
		}
	}
	has := []interface{}{}
	nd := []interface{}{}
	for _, name := range []string{"i1", "i2"} {
		if _, ok := ri.DataInstances[name]; ok {
			has = append(has, name)
		}
		c := 0
		for _, l := range ri.Log {
			if strings.Contains(l, fmt.Sprintf("New data instance %q", name)) {
				c++
			}
		}
		if c > 0 {
			nd = append(nd, obsM{"x": name, "n": c})
		}
	}
	sort.Slice(has, func(i, j int) bool { return has[i].(string) < has[j].(string) })
	return obsM{"kids": kids, "lkd": p.Locked, "mk": mk, "nc": nc, "has": has, "nd": nd}
}
