package main

// C16, scripted behaviours over a version DAG (specs/NeuronJSON_script.tla).
//
// The harness generates seeded *scripts*: sequences of request intentions (kind, selectors,
// update, options).  TLC executes every script on the specification: it resolves each intention
// to an enabled request (which open version is written, which versions are merged, ...) or skips
// it, checks Inv_C16_Coherent / Inv_StoreIsRead / Inv_TypeOK in every state, and prints the
// resolved requests with the expected content of EVERY version after every request and the
// expected reads (keys, counts, key ranges, existence/equality queries, the query table QMatch,
// ?fields=/?show= projections).  This file replays the resolved requests on a real server that is
// (re)started with the `inmemory` store configuration the specification chose (tracked branches,
// committed versions held in memory) and compares; at every restart the complete read set of
// every version is compared before/after -- a restart that changes the configuration turns the
// in-memory path of a version into the store path of the same version and back.

import (
	"encoding/json"
	"fmt"
	"math/rand"
	"regexp"
	"sort"
	"strconv"
	"strings"
	"sync/atomic"
	"time"

	pb "google.golang.org/protobuf/proto"

	"github.com/janelia-flyem/dvid/datatype/common/proto"

	"verifharness/internal/ev"
	"verifharness/internal/node"
	"verifharness/internal/tlc"
)

const njCliTime = "2002-02-02T00:00:00Z"
const njCliUser = "cli"

// ---------------------------------------------------------------------------
// scripts (what the harness generates)

type njsOp struct {
	K     string
	Vsel  int
	Psel  int
	ID    int
	Upd   map[string]int
	St    map[string]int
	ID2   int
	Upd2  map[string]int
	Rep   bool
	Cond  []string
	Sk    string
	Sc    int
	Clean bool
	Br    int
	Trk   []int
	Stat  []int
}

type njsScript struct {
	Shape string
	Trk0  []int
	Ops   []njsOp
}

var njsFields = []string{"a", "b", "c"}

const njsNumVals = 9
const njsNumIds = 3

// abstract values: what kind of JSON value each stands for, and the atoms it offers to a query
//  1 integer A1          2 string S1           3 the string spelling A1 (S2)
//  4 integer list [A1,A2]  5 string list [S1,S3]  6 non-integral number F1
//  7 negative integer N1   8 a value no query term equals (boolean, object, nested / float / empty list)
//  9 integer A3 spelled as a float (2.0, 1e2)
// atoms: 1 A1  2 A2  3 S1  4 S2  5 S3  6 F1  7 N1  8 A3  9 an integer stored nowhere  10 a string stored nowhere
var njsAtomsOf = [][]int{{1}, {3}, {4}, {1, 2}, {3, 5}, {6}, {7}, {}, {8}}
var njsIntVals = []int{1, 7, 9}

// schema documents: 1, 2 accept everything; 3 wants an integer "a" when present; 4 requires an integer "a"
var njsDocs = []string{
	`{"type":"object"}`,
	`{"type":"object","properties":{"zz9":{"type":"string"}}}`,
	`{"type":"object","properties":{"a":{"type":"integer"}}}`,
	`{"type":"object","properties":{"a":{"type":"integer"}},"required":["bodyid","a"]}`,
}
var njsConstrain = []int{0, 0, 0, 1, 2}

type njsTerm struct {
	F    string
	K    string // ex1 | ex0 | any
	At   []int
	Form string // scalar | list | regex | regexlist
}
type njsQuery [][]njsTerm

type njsProj struct {
	Fs []string
	Su bool
	St bool
}

var njsProjs = []njsProj{
	{nil, true, true},
	{[]string{"a"}, true, false},
	{[]string{"a", "c"}, false, true},
	{[]string{"b"}, false, false},
	{nil, false, false},
}

// njsQueries is the query table: every kind for every field, then conjunctions / disjunctions.
func njsQueries() []njsQuery {
	var qs []njsQuery
	one := func(t njsTerm) { qs = append(qs, njsQuery{{t}}) }
	for _, f := range njsFields {
		one(njsTerm{f, "any", []int{1}, "scalar"})         // integer
		one(njsTerm{f, "any", []int{3}, "scalar"})         // string
		one(njsTerm{f, "any", []int{6}, "scalar"})         // non-integral number
		one(njsTerm{f, "any", []int{7}, "scalar"})         // negative integer
		one(njsTerm{f, "any", []int{8}, "scalar"})         // integer stored with a float spelling
		one(njsTerm{f, "any", []int{4}, "scalar"})         // the string "7" is not the integer 7
		one(njsTerm{f, "any", []int{2, 9}, "list"})        // integer list
		one(njsTerm{f, "any", []int{5, 10}, "list"})       // string list
		one(njsTerm{f, "any", []int{7, 8}, "list"})        // integer list with a negative
		one(njsTerm{f, "any", []int{3, 5}, "regex"})       // regular expression
		one(njsTerm{f, "any", []int{4, 10}, "regexlist"})  // list holding a regular expression
		one(njsTerm{f, "any", []int{1, 3}, "list"})        // mixed list: integer and string
		one(njsTerm{f, "any", []int{6, 10}, "list"})       // mixed list: number and string
	}
	a, b, c := "a", "b", "c"
	ex1 := func(f string) njsTerm { return njsTerm{f, "ex1", nil, ""} }
	ex0 := func(f string) njsTerm { return njsTerm{f, "ex0", nil, ""} }
	qs = append(qs,
		njsQuery{{njsTerm{a, "any", []int{1}, "scalar"}, ex1(b)}},
		njsQuery{{ex0(a), njsTerm{b, "any", []int{3}, "scalar"}}},
		njsQuery{{njsTerm{a, "any", []int{1, 2}, "list"}, njsTerm{b, "any", []int{3}, "list"}, ex0(c)}},
		njsQuery{{njsTerm{a, "any", []int{1}, "scalar"}}, {njsTerm{b, "any", []int{3}, "scalar"}}},
		njsQuery{{ex1(a), ex1(b)}, {njsTerm{c, "any", []int{7}, "scalar"}}},
		njsQuery{{njsTerm{a, "any", []int{3, 5}, "regex"}}, {njsTerm{a, "any", []int{6, 10}, "list"}}, {ex0(a), ex0(b), ex0(c)}},
	)
	return qs
}

// ---------------------------------------------------------------------------
// TLA+ rendering of the generated constants

func tlaFieldFn(m map[string]int, def int) string {
	var parts []string
	for _, f := range njsFields {
		v, ok := m[f]
		if !ok {
			v = def
		}
		parts = append(parts, fmt.Sprintf("%q :> %d", f, v))
	}
	return "(" + strings.Join(parts, " @@ ") + ")"
}

func (o njsOp) tla() string {
	sk := o.Sk
	if sk == "" {
		sk = "schema"
	}
	return fmt.Sprintf(`[k |-> %q, vsel |-> %d, psel |-> %d, id |-> %d, upd |-> %s, st |-> %s, id2 |-> %d, upd2 |-> %s, rep |-> %s, cond |-> %s, sk |-> %q, sc |-> %d, clean |-> %s, br |-> %d, trk |-> %s, stat |-> %s]`,
		o.K, o.Vsel, o.Psel, max1(o.ID), tlaFieldFn(o.Upd, -1), tlaFieldFn(o.St, 0), max1(o.ID2), tlaFieldFn(o.Upd2, -1),
		tlaBool(o.Rep), tlaStrSet(o.Cond), sk, o.Sc, tlaBool(o.Clean), o.Br, tlaIntSet(o.Trk), tlaIntSet(o.Stat))
}

func max1(i int) int {
	if i < 1 {
		return 1
	}
	return i
}

func njsGenModule(scripts []njsScript, queries []njsQuery) []byte {
	var sb strings.Builder
	sb.WriteString("------------------------------- MODULE GenNJ -------------------------------\n")
	sb.WriteString("(* generated by cmd/vcheck/c16s.go *)\nEXTENDS Integers, Sequences, TLC\n\n")
	fmt.Fprintf(&sb, "GenFields == %s\n", tlaStrSet(njsFields))
	fmt.Fprintf(&sb, "GenIntVals == %s\n", tlaIntSet(njsIntVals))
	sb.WriteString("GenConvTo == (3 :> 1)\n")
	var ao []string
	for _, a := range njsAtomsOf {
		ao = append(ao, tlaIntSet(a))
	}
	fmt.Fprintf(&sb, "GenAtomsOf == <<%s>>\n", strings.Join(ao, ", "))
	var cs []string
	for d, c := range njsConstrain {
		cs = append(cs, fmt.Sprintf("%d :> %d", d, c))
	}
	fmt.Fprintf(&sb, "GenConstrain == (%s)\n", strings.Join(cs, " @@ "))
	var qs []string
	for _, q := range queries {
		var ors []string
		for _, and := range q {
			var ts []string
			for _, t := range and {
				ts = append(ts, fmt.Sprintf(`[f |-> %q, k |-> %q, at |-> %s]`, t.F, t.K, tlaIntSet(t.At)))
			}
			ors = append(ors, "<<"+strings.Join(ts, ", ")+">>")
		}
		qs = append(qs, "<<"+strings.Join(ors, ", ")+">>")
	}
	fmt.Fprintf(&sb, "GenQueries == <<\n  %s >>\n", strings.Join(qs, ",\n  "))
	var ps []string
	for _, p := range njsProjs {
		ps = append(ps, fmt.Sprintf(`[fs |-> %s, su |-> %s, st |-> %s]`, tlaStrSet(p.Fs), tlaBool(p.Su), tlaBool(p.St)))
	}
	fmt.Fprintf(&sb, "GenProjs == <<%s>>\n", strings.Join(ps, ", "))
	sb.WriteString("GenScripts == <<\n")
	for i, s := range scripts {
		var ops []string
		for _, o := range s.Ops {
			ops = append(ops, "    "+o.tla())
		}
		fmt.Fprintf(&sb, "  [trk0 |-> %s, ops |-> <<\n%s >>]", tlaIntSet(s.Trk0), strings.Join(ops, ",\n"))
		if i < len(scripts)-1 {
			sb.WriteString(",")
		}
		sb.WriteString("\n")
	}
	sb.WriteString(">>\n=============================================================================\n")
	return []byte(sb.String())
}

func njsCfg(maxVers int) []byte {
	return []byte(fmt.Sprintf(`SPECIFICATION ScriptSpec
CONSTANTS
  NumIds = %d
  Fields <- GenFields
  NumVals = %d
  ScalarVals = {1, 2}
  MaxSteps = 0
  Record = TRUE
  EmitReads = TRUE
  Seeds <- EmptySeeds
  UpdsAt <- AllUpdsAt
  Pick <- PickAll
  CondSets = {{"a"}}
  Kinds = {"post", "batch", "seed", "del", "postzero", "commit", "newver", "branch", "merge", "restart", "schema"}
  SchemaKinds = {"schema", "schema_batch", "json_schema"}
  NRand = 0
  MaxVers = %d
  Branches = {1, 2}
  TrkSets <- OnlyUntracked
  StatMax = 2
  StampSets <- AllSt
  NumDocs = %d
  Constrain <- GenConstrain
  CField = "a"
  IntVals <- GenIntVals
  ConvTo <- GenConvTo
  AtomsOf <- GenAtomsOf
  Queries <- GenQueries
  Projs <- GenProjs
  EmitAll = TRUE
  Scripts <- GenScripts
INVARIANTS Inv_C16_Coherent Inv_TypeOK Inv_StoreIsRead EmitScript
CHECK_DEADLOCK FALSE
`, njsNumIds, njsNumVals, maxVers, len(njsDocs)))
}

// ---------------------------------------------------------------------------
// script generation (intentions only: no DAG or merge semantics here)

func njsRandUpd(rng *rand.Rand, schemaBias bool) map[string]int {
	u := map[string]int{}
	for _, f := range njsFields {
		switch r := rng.Intn(10); {
		case r < 3:
			u[f] = -1
		case r < 4:
			u[f] = 0
		default:
			u[f] = 1 + rng.Intn(njsNumVals)
		}
	}
	if schemaBias { // under a constraining schema: mostly acceptable values for "a"
		switch r := rng.Intn(10); {
		case r < 6:
			u["a"] = []int{1, 7, 9, 3, 3}[rng.Intn(5)]
		case r < 7:
			u["a"] = -1
		}
	}
	return u
}

func njsWrite(rng *rand.Rand, schemaBias bool) njsOp {
	o := njsOp{Vsel: rng.Intn(6), ID: 1 + rng.Intn(njsNumIds), ID2: 1 + rng.Intn(njsNumIds)}
	switch r := rng.Intn(100); {
	case r < 50:
		o.K = "post"
		o.Upd = njsRandUpd(rng, schemaBias)
		switch m := rng.Intn(10); {
		case m < 2:
			o.Rep = true
		case m < 4:
			o.Cond = [][]string{{"a"}, {"b", "c"}, {"c"}}[rng.Intn(3)]
			for _, f := range o.Cond {
				if o.Upd[f] == 0 {
					o.Upd[f] = 1 + rng.Intn(njsNumVals)
				}
			}
		}
		if len(o.Cond) == 0 && rng.Intn(3) == 0 { // client stamps
			o.St = map[string]int{}
			for _, f := range njsFields {
				if rng.Intn(2) == 0 {
					o.St[f] = 1 + rng.Intn(3)
				}
			}
		}
	case r < 62:
		o.K = "batch"
		o.Upd, o.Upd2 = njsRandUpd(rng, schemaBias), njsRandUpd(rng, schemaBias)
		if rng.Intn(5) == 0 {
			o.Rep = true
		}
	case r < 72:
		o.K = "seed"
		o.Upd = njsRandUpd(rng, schemaBias)
		for f, v := range o.Upd {
			if v == 0 {
				o.Upd[f] = -1
			}
		}
	case r < 84:
		o.K = "del"
	case r < 87:
		o.K = "postzero"
	case r < 95:
		o.K = "postschema"
		o.Sk = []string{"schema", "schema_batch", "json_schema", "json_schema"}[rng.Intn(4)]
		o.Sc = 1 + rng.Intn(len(njsDocs))
	default:
		o.K = "delschema"
		o.Sk = []string{"schema", "schema_batch", "json_schema", "json_schema"}[rng.Intn(4)]
	}
	return o
}

func njsRestart(rng *rand.Rand) njsOp {
	o := njsOp{K: "restart", Clean: rng.Intn(3) != 0}
	for b := 1; b <= 2; b++ {
		if rng.Intn(2) == 0 {
			o.Trk = append(o.Trk, b)
		}
	}
	for s := 0; s < 2; s++ {
		if rng.Intn(2) == 0 {
			o.Stat = append(o.Stat, rng.Intn(5))
		}
	}
	return o
}

// njsGenScript builds one script of about n intentions from a shape.
func njsGenScript(rng *rand.Rand, shape string, n int) njsScript {
	s := njsScript{Shape: shape}
	w := func(k int, bias bool) {
		for i := 0; i < k; i++ {
			s.Ops = append(s.Ops, njsWrite(rng, bias))
		}
	}
	op := func(k string, vsel int) { s.Ops = append(s.Ops, njsOp{K: k, Vsel: vsel, Psel: rng.Intn(4)}) }
	branch := func(b, vsel int) { s.Ops = append(s.Ops, njsOp{K: "branch", Br: b, Vsel: vsel}) }
	switch shape {
	case "merge": // master and a branch diverge, merge, the merge child becomes the master head
		if rng.Intn(2) == 0 {
			s.Trk0 = []int{1}
		}
		// the sides write disjoint ids and schema kinds, so that the merge is conflict-free
		side := func(k, vsel int, ids []int, sks []string) {
			for i := 0; i < k; i++ {
				o := njsWrite(rng, false)
				if o.K == "postschema" || o.K == "delschema" {
					o.Sk = sks[rng.Intn(len(sks))]
				}
				o.Vsel, o.ID, o.ID2 = vsel, ids[rng.Intn(len(ids))], ids[rng.Intn(len(ids))]
				s.Ops = append(s.Ops, o)
			}
		}
		w(1+rng.Intn(2), false)
		op("commit", 0)
		branch(1, 0)
		side(1+rng.Intn(2), 0, []int{1}, []string{"schema_batch"}) // the branch head is the only open version
		s.Ops = append(s.Ops, njsOp{K: "postschema", Sk: "schema_batch", Sc: 1 + rng.Intn(4), Vsel: 0})
		op("newver", 0) // master child of the root
		side(1+rng.Intn(2), -1, []int{2, 3}, []string{"schema", "json_schema"})
		s.Ops = append(s.Ops, njsOp{K: "postschema", Sk: []string{"schema", "json_schema"}[rng.Intn(2)], Sc: 1 + rng.Intn(4), Vsel: -1})
		if rng.Intn(3) == 0 {
			side(1, 0, []int{1}, []string{"schema_batch"})
		}
		op("commit", 0)
		op("commit", 0)
		op("merge", rng.Intn(2))
		w(rng.Intn(3), false) // the merge child is the only open version
		op("commit", 0)
		op("newver", -1) // the newest candidate: the merge child; its child is the master head now
		w(2+rng.Intn(2), false)
		if rng.Intn(2) == 0 {
			s.Ops = append(s.Ops, njsRestart(rng))
			w(1+rng.Intn(2), false)
		}
	case "sidemerge": // two branches are merged while the master head stays open beside the open merge child
		if rng.Intn(2) == 0 {
			s.Trk0 = []int{1 + rng.Intn(2)}
		}
		side := func(k, vsel int, ids []int, schemas bool) {
			for i := 0; i < k; i++ {
				o := njsWrite(rng, false)
				if !schemas && (o.K == "postschema" || o.K == "delschema") {
					o.K, o.Upd = "post", njsRandUpd(rng, false)
				}
				o.Vsel, o.ID, o.ID2 = vsel, ids[rng.Intn(len(ids))], ids[rng.Intn(len(ids))]
				s.Ops = append(s.Ops, o)
			}
		}
		w(1, false)
		op("commit", 0)
		branch(1, 0)
		branch(2, 0)
		op("newver", 0) // master child of the root; open versions: b1 head, b2 head, master head
		side(1+rng.Intn(2), 0, []int{1}, false)
		side(1+rng.Intn(2), 1, []int{2}, false)
		side(1+rng.Intn(2), -1, []int{3}, true)
		op("commit", 0)
		op("commit", 0)
		op("merge", rng.Intn(2)) // b1 + b2: an open master-named node that is not the master head
		for i := 0; i < 4; i++ {
			o := njsWrite(rng, false)
			o.Vsel = []int{0, -1}[rng.Intn(2)]
			if i == 1 {
				o = njsOp{K: "postschema", Sk: []string{"schema", "json_schema"}[rng.Intn(2)], Sc: 1 + rng.Intn(4), Vsel: -1}
			}
			s.Ops = append(s.Ops, o)
		}
		s.Ops = append(s.Ops, njsRestart(rng))
		w(2, false)
	case "late": // the instance is created in a repo that already has versions and branches
		if rng.Intn(2) == 0 {
			s.Trk0 = []int{1}
		}
		op("commit", 0)
		op("newver", 0)
		if rng.Intn(2) == 0 {
			op("commit", 0)
			branch(1, rng.Intn(2))
		}
		w(3, false)
		kinds := []string{"w", "w", "w", "commit", "newver", "branch", "restart"}
		for len(s.Ops) < n {
			switch k := kinds[rng.Intn(len(kinds))]; k {
			case "w":
				w(1, false)
			case "branch":
				branch(1+rng.Intn(2), rng.Intn(4))
			case "restart":
				s.Ops = append(s.Ops, njsRestart(rng))
			default:
				op(k, rng.Intn(5))
			}
		}
	case "tracked": // a branch named in the configuration before it exists, restarts toggling the tracking
		s.Trk0 = [][]int{{1}, {1, 2}, {2}}[rng.Intn(3)]
		w(1+rng.Intn(2), false)
		op("commit", 0)
		branch(1+rng.Intn(2), 0)
		w(2+rng.Intn(2), false)
		if rng.Intn(2) == 0 {
			op("newver", 0)
			w(1+rng.Intn(2), false)
		}
		s.Ops = append(s.Ops, njsRestart(rng))
		w(2, false)
		op("commit", rng.Intn(3))
		op("newver", rng.Intn(3))
		w(2, false)
		s.Ops = append(s.Ops, njsRestart(rng))
		w(1+rng.Intn(2), false)
	case "static": // committed versions configured as in-memory copies
		w(2, false)
		op("commit", 0)
		op("newver", 0)
		w(2, false)
		r := njsRestart(rng)
		r.Stat = []int{0}
		s.Ops = append(s.Ops, r)
		w(2, false)
		op("commit", 0)
		if rng.Intn(2) == 0 {
			branch(1, rng.Intn(2))
		} else {
			op("newver", 0)
		}
		w(2, false)
		r = njsRestart(rng)
		r.Stat = []int{rng.Intn(3), rng.Intn(3)}
		s.Ops = append(s.Ops, r)
		w(2, false)
	case "schema": // a json_schema that constrains, deleted, changed by a child version
		w(1, false)
		s.Ops = append(s.Ops, njsOp{K: "postschema", Sk: "json_schema", Sc: 3 + rng.Intn(2), Vsel: 0})
		w(3+rng.Intn(2), true)
		if rng.Intn(2) == 0 {
			s.Ops = append(s.Ops, njsOp{K: "delschema", Sk: "json_schema"})
			w(2, true)
		}
		op("commit", 0)
		op("newver", 0)
		w(1, true)
		s.Ops = append(s.Ops, njsOp{K: []string{"postschema", "delschema"}[rng.Intn(2)], Sk: "json_schema", Sc: 1 + rng.Intn(4)})
		w(2+rng.Intn(2), true)
		s.Ops = append(s.Ops, njsRestart(rng))
		w(2, true)
	default: // random
		kinds := []string{"w", "w", "w", "w", "commit", "newver", "branch", "merge", "restart"}
		for len(s.Ops) < n {
			switch k := kinds[rng.Intn(len(kinds))]; k {
			case "w":
				w(1, false)
			case "branch":
				branch(1+rng.Intn(2), rng.Intn(4))
			case "restart":
				s.Ops = append(s.Ops, njsRestart(rng))
			default:
				op(k, rng.Intn(5))
			}
		}
	}
	for len(s.Ops) < n {
		w(1, shape == "schema")
	}
	return s
}

// ---------------------------------------------------------------------------
// what TLC prints for a script

type njxOp struct {
	K     string         `json:"k"`
	At    int            `json:"at"`
	ID    int            `json:"id"`
	Upd   map[string]int `json:"upd"`
	St    map[string]int `json:"st"`
	ID2   int            `json:"id2"`
	Upd2  map[string]int `json:"upd2"`
	Rep   bool           `json:"rep"`
	Cond  []string       `json:"cond"`
	Clean bool           `json:"clean"`
	Sk    string         `json:"sk"`
	Sc    int            `json:"sc"`
	Rej   int            `json:"rej"`
	Nv    int            `json:"nv"`
	P2    int            `json:"p2"`
	Br    int            `json:"br"`
	Trk   []int          `json:"trk"`
	Stat  []int          `json:"stat"`
}

type njxStep struct {
	Op     njxOp          `json:"op"`
	All    [][]njAnn      `json:"all"`
	SchAll []njSch        `json:"schAll"`
	Lk     []bool         `json:"lk"`
	Hdm    map[string]int `json:"hdm"`
	Served []int          `json:"served"`
	Ftok   []int          `json:"ftok"`
}

type njxFlags struct {
	Val  bool `json:"val"`
	User bool `json:"user"`
	Time bool `json:"time"`
}

type njxExp struct {
	njExp
	Qs   [][]int                 `json:"qs"`
	Proj [][]map[string]njxFlags `json:"proj"`
}

type njxBehaviour struct {
	Sid   int        `json:"sid"`
	Hist  []njxStep  `json:"hist"`
	Par   [][]int    `json:"par"`
	Bra   []int      `json:"bra"`
	Reads [][]njxExp `json:"reads"`
}

// ---------------------------------------------------------------------------
// concrete values of one script

type njsTable struct {
	vals  []string // abstract value v -> JSON text (index v-1)
	atoms []string // atom -> JSON text (index atom-1)
}

func njsMakeTable(rng *rand.Rand) njsTable {
	a1 := []string{"7", "42", "1000"}[rng.Intn(3)]
	a2 := []string{"5", "61"}[rng.Intn(2)]
	s1 := []string{`"x"`, `"yz"`, `"Q r"`, `"a_b"`}[rng.Intn(4)]
	s3 := []string{`"p"`, `"q9"`}[rng.Intn(2)]
	f1 := []string{"2.5", "-0.125", "0.75"}[rng.Intn(3)]
	n1 := []string{"-3", "-12"}[rng.Intn(2)]
	a3 := [][2]string{{"2", "2.0"}, {"100", "1e2"}, {"30", "3.0e1"}}[rng.Intn(3)]
	other := []string{`true`, `false`, `{"n":1}`, `[[1],[2]]`, `[]`, `[1.5,2]`, `{}`, `{"k":"v","l":null}`}[rng.Intn(8)]
	s2 := strconv.Quote(a1)
	return njsTable{
		vals:  []string{a1, s1, s2, "[" + a1 + "," + a2 + "]", "[" + s1 + "," + s3 + "]", f1, n1, other, a3[1]},
		atoms: []string{a1, a2, s1, s2, s3, f1, n1, a3[0], "99", `"nope"`},
	}
}

func (t njsTable) unq(atom int) string {
	s, _ := strconv.Unquote(t.atoms[atom-1])
	return s
}

// term renders one query term; for regular expressions it also checks that the expression matches
// exactly the declared string atoms of this table.
func (t njsTable) term(q njsTerm) string {
	switch q.K {
	case "ex1":
		return `"exists/1"`
	case "ex0":
		return `"exists/0"`
	}
	strAtoms := []int{3, 4, 5, 10}
	check := func(expr string, want map[int]bool) {
		re, err := regexp.Compile(expr)
		must(err, "query regex")
		for _, a := range strAtoms {
			if re.MatchString(t.unq(a)) != want[a] {
				infra("regex %q does not match exactly the declared atoms", expr)
			}
		}
	}
	switch q.Form {
	case "scalar":
		return t.atoms[q.At[0]-1]
	case "list":
		var e []string
		for _, a := range q.At {
			e = append(e, t.atoms[a-1])
		}
		return "[" + strings.Join(e, ",") + "]"
	case "regex":
		var alts []string
		want := map[int]bool{}
		for _, a := range q.At {
			alts = append(alts, regexp.QuoteMeta(t.unq(a)))
			want[a] = true
		}
		expr := "^(" + strings.Join(alts, "|") + ")$"
		check(expr, want)
		return strconv.Quote("re/" + expr)
	case "regexlist":
		expr := "^" + regexp.QuoteMeta(t.unq(q.At[0])) + "$"
		check(expr, map[int]bool{q.At[0]: true})
		e := []string{strconv.Quote("re/" + expr)}
		for _, a := range q.At[1:] {
			e = append(e, t.atoms[a-1])
		}
		return "[" + strings.Join(e, ",") + "]"
	}
	infra("unknown term form %q", q.Form)
	return ""
}

func (t njsTable) query(q njsQuery) string {
	var objs []string
	for _, and := range q {
		var ts []string
		for _, term := range and {
			ts = append(ts, fmt.Sprintf("%q:%s", term.F, t.term(term)))
		}
		objs = append(objs, "{"+strings.Join(ts, ",")+"}")
	}
	if len(objs) == 1 {
		return objs[0]
	}
	return "[" + strings.Join(objs, ",") + "]"
}

// njsPostBody builds the annotation JSON of an update with client stamps.
func njsPostBody(key string, upd, st map[string]int, table []string, seed bool) []byte {
	var sb strings.Builder
	fmt.Fprintf(&sb, `{"bodyid":%s`, key)
	for _, f := range njsFields {
		v := upd[f]
		switch {
		case v == -1:
		case v == 0:
			fmt.Fprintf(&sb, `,%q:null`, f)
		default:
			fmt.Fprintf(&sb, `,%q:%s`, f, table[v-1])
		}
		if seed && v > 0 {
			fmt.Fprintf(&sb, `,%q:"seed",%q:%q`, f+"_user", f+"_time", njOldTime)
		}
		if st[f]&1 != 0 {
			fmt.Fprintf(&sb, `,%q:%q`, f+"_user", njCliUser)
		}
		if st[f]&2 != 0 {
			fmt.Fprintf(&sb, `,%q:%q`, f+"_time", njCliTime)
		}
	}
	sb.WriteString("}")
	return []byte(sb.String())
}

// ---------------------------------------------------------------------------
// read set compared across restarts (keys are strings: ids may exceed 2^63)

func njsReadSet(keys []string, table njsTable, queries []njsQuery) []njRead {
	var rs []njRead
	add := func(method, name, rest, norm string, body []byte) {
		rs = append(rs, njRead{name: name, method: method, rest: rest, body: body, norm: norm})
	}
	get := func(rest, norm string, body []byte) { add("GET", rest, rest, norm, body) }
	get("keys", "json", nil)
	get("all?show=all", "sortlist", nil)
	get("all", "sortlist", nil)
	get("all?fields=a&show=user", "sortlist", nil)
	get("all?fields=b,c&show=time", "sortlist", nil)
	get("fields?counts=true", "json", nil)
	get("fields", "sortlist", nil)
	get("keyrange/0/a", "json", nil)
	get("keyrangevalues/0/a?json=true&show=all", "json", nil)
	lo, mid, hi := keys[0], keys[len(keys)/2], keys[len(keys)-1]
	for _, r := range [][2]string{{lo, hi}, {lo, mid}, {mid, hi}, {mid, mid}} {
		get("keyrange/"+r[0]+"/"+r[1], "json", nil)
	}
	get("keyrangevalues/"+lo+"/"+hi+"?json=true", "json", nil)
	get("keyrangevalues/"+lo+"/"+hi+"?json=true&check=true&show=user", "json", nil)
	get("keyrangevalues/"+lo+"/"+mid+"?json=true&fields=a&show=all", "json", nil)
	get("keyrangevalues/"+mid+"/"+hi+"?tar=true&show=all", "tar", nil)
	get("keyrangevalues/"+lo+"/"+hi+"?show=time", "proto", nil)
	for _, k := range keys {
		get("key/"+k+"?show=all", "json", nil)
		get("key/"+k, "json", nil)
		get("key/"+k+"?show=user&fields=a,c", "json", nil)
		add("HEAD", "HEAD key/"+k, "key/"+k, "raw", nil)
	}
	get("key/0", "json", nil)
	keyList := append(append([]string{}, keys...), keys[len(keys)-1]+"7") // plus a key that never exists
	kb, _ := json.Marshal(keyList)
	get("keyvalues?json=true&show=all", "json", kb)
	get("keyvalues?json=true&show=all", "json", []byte("["+strings.Join(keyList, ",")+"]")) // body: a list of integers
	get("keyvalues?jsontar=true", "tar", kb)
	pk, _ := pb.Marshal(&proto.Keys{Keys: keyList})
	get("keyvalues?show=user", "proto", pk)
	for i, q := range queries {
		opts := []string{"?show=all", "?onlyid=true", "", "?fields=a&show=user", "?fields=b,c&show=time"}[i%5]
		method := "GET"
		if i%4 == 3 {
			method = "POST" // POST /query is a read: it must work on committed versions too
		}
		add(method, method+" query"+opts, "query"+opts, "json", []byte(table.query(q)))
	}
	get("query?show=all", "json", []byte(fmt.Sprintf(`{"bodyid":%s}`, keys[0])))
	get("query", "json", []byte(fmt.Sprintf(`{"bodyid":[%s,%s,%s]}`, hi, lo, keys[len(keys)-1]+"7")))
	get("query?onlyid=true", "json", []byte(fmt.Sprintf(`{"bodyid":%s,"a":"exists/1"}`, lo)))
	get("query?onlyid=true", "json", []byte(`{"a":true}`))
	get("query?onlyid=true", "json", []byte(`{"b":[true,"nope"]}`))
	for _, sk := range []string{"schema", "schema_batch", "json_schema"} {
		get(sk, "json", nil)
		add("HEAD", "HEAD "+sk, sk, "raw", nil)
	}
	get("key/schema", "json", nil)
	get("key/schema_batch", "json", nil)
	return rs
}

// ---------------------------------------------------------------------------
// replay of one scripted behaviour

type njsReplay struct {
	run     *ev.Run
	c       *Ctx
	n       *node.Node
	s       *njSess
	b       *njxBehaviour
	sc      njsScript
	table   njsTable
	queries []njsQuery
	keys    []string // concrete body ids (decimal)
	uuids   []string // version k -> uuid (index k-1)
	full    []njRead
	failed  bool
	inst    bool // the neuronjson instance exists
	ncmp    *int64
	nchk    *int64
	seed    int64
}

func (r *njsReplay) report(d c16Divergence) {
	d.Mode = "script/" + r.sc.Shape
	d.Behaviour = map[string]interface{}{"par": r.b.Par, "bra": r.b.Bra, "requests": r.opList(), "uuids": r.uuids}
	d.Table = r.table.vals
	d.Script = r.s.script
	r.run.Violation("c16", d)
	r.failed = true
}

func (r *njsReplay) opList() []njxOp {
	var ops []njxOp
	for _, st := range r.b.Hist {
		ops = append(ops, st.Op)
	}
	return ops
}

func (r *njsReplay) inmemory(trk, stat []int) string {
	var l []string
	for _, b := range trk {
		l = append(l, fmt.Sprintf("%q", fmt.Sprintf(":b%d", b)))
	}
	for _, v := range stat {
		l = append(l, fmt.Sprintf("%q", r.uuids[v-1]))
	}
	if len(l) == 0 {
		return ""
	}
	return "inmemory = [" + strings.Join(l, ", ") + "]"
}

func (r *njsReplay) url(v int, rest string) string { return r.s.url(r.uuids[v-1], rest) }

func (r *njsReplay) idList(body []byte) ([]int, bool) {
	var raw []json.RawMessage
	if err := json.Unmarshal(body, &raw); err != nil {
		return nil, false
	}
	out := make([]int, len(raw))
	for i, e := range raw {
		k := strings.Trim(string(e), `"`)
		out[i] = 0
		for j, key := range r.keys {
			if key == k {
				out[i] = j + 1
			}
		}
		if out[i] == 0 {
			return nil, false
		}
	}
	return out, true
}

// compareAnn checks one annotation answer against the expected annotation under a projection.
func (r *njsReplay) compareAnn(exp njAnn, key string, flags map[string]njxFlags, status int, body []byte) string {
	if !exp.Ex {
		if status != 404 {
			return fmt.Sprintf("annotation should not exist, GET key gave %d %s", status, trunc(string(body), 300))
		}
		return ""
	}
	if status != 200 {
		return fmt.Sprintf("annotation should exist, GET key gave %d %s", status, trunc(string(body), 300))
	}
	var obj map[string]json.RawMessage
	if err := json.Unmarshal(body, &obj); err != nil {
		return "unparsable annotation: " + trunc(string(body), 300)
	}
	if string(obj["bodyid"]) != key {
		return fmt.Sprintf("bodyid %s, want %s", obj["bodyid"], key)
	}
	allowed := map[string]bool{"bodyid": true}
	for _, f := range njsFields {
		allowed[f], allowed[f+"_user"], allowed[f+"_time"] = true, true, true
		cell := exp.Fs[f]
		fl := njxFlags{Val: true, User: true, Time: true}
		if flags != nil {
			fl = flags[f]
		}
		raw, has := obj[f]
		if cell.V == 0 || !fl.Val {
			if has {
				return fmt.Sprintf("field %q should not be in the answer, has %s", f, raw)
			}
			if cell.V != 0 { // a field left out by ?fields=: its stamps are left out too
				if _, hu := obj[f+"_user"]; hu {
					return fmt.Sprintf("%s_user in the answer although %q is not", f, f)
				}
				if _, ht := obj[f+"_time"]; ht {
					return fmt.Sprintf("%s_time in the answer although %q is not", f, f)
				}
			}
			continue
		}
		if !has {
			return fmt.Sprintf("field %q missing, want %s", f, r.table.vals[cell.V-1])
		}
		got, _ := canonJSON(raw)
		want, _ := canonJSON([]byte(r.table.vals[cell.V-1]))
		if got != want {
			return fmt.Sprintf("field %q = %s, want %s", f, got, want)
		}
		_, hu := obj[f+"_user"]
		_, ht := obj[f+"_time"]
		if hu != fl.User {
			return fmt.Sprintf("%s_user present=%v, want %v", f, hu, fl.User)
		}
		if ht != fl.Time {
			return fmt.Sprintf("%s_time present=%v, want %v", f, ht, fl.Time)
		}
		var u, t string
		json.Unmarshal(obj[f+"_user"], &u)
		json.Unmarshal(obj[f+"_time"], &t)
		if fl.User {
			want := njUser(cell.U)
			if cell.U == -1 {
				want = njCliUser
			}
			if u != want {
				return fmt.Sprintf("%s_user = %q, want %q", f, u, want)
			}
		}
		if fl.Time {
			switch cell.T {
			case 0:
				if t != njOldTime {
					return fmt.Sprintf("%s_time = %q, want the unchanged seeded time %s", f, t, njOldTime)
				}
			case 2:
				if t != njCliTime {
					return fmt.Sprintf("%s_time = %q, want the time supplied by the client %s", f, t, njCliTime)
				}
			default:
				tt, err := time.Parse(time.RFC3339, t)
				if err != nil || tt.Year() < 2020 {
					return fmt.Sprintf("%s_time = %q, want a time stamp written by the server", f, t)
				}
			}
		}
	}
	for k := range obj {
		if !allowed[k] {
			return fmt.Sprintf("unexpected field %q", k)
		}
	}
	return ""
}

// predicted compares the reads the specification predicts for version v after step k.
func (r *njsReplay) predicted(k, v int, qsel func(i int) bool) {
	st := r.b.Hist[k]
	exp := r.b.Reads[k][v-1]
	snap := st.All[v-1]
	s := r.s
	where := fmt.Sprintf("version %d (%s)", v, r.pathOf(k, v))
	for i, key := range r.keys {
		resp := s.http("GET", r.url(v, "key/"+key+"?show=all"), nil)
		atomic.AddInt64(r.ncmp, 1)
		if d := r.compareAnn(snap[i], key, nil, resp.Status, resp.Bytes()); d != "" {
			r.report(c16Divergence{Kind: "state", Step: k, Endpoint: "GET key/" + key + "?show=all at " + where, Expected: snap[i], Observed: string(resp.Bytes()), Detail: d})
			return
		}
	}
	listRead := func(name, method, rest string, body []byte, want []int) {
		resp := s.http(method, r.url(v, rest), body)
		atomic.AddInt64(r.ncmp, 1)
		got, ok := r.idList(resp.Bytes())
		if len(resp.Bytes()) == 4 && string(resp.Bytes()) == "null" {
			got, ok = nil, true
		}
		if resp.Status != 200 || !ok || !intsEq(got, want) {
			r.report(c16Divergence{Kind: "read", Step: k, Endpoint: name + " at " + where, Expected: want, Observed: fmt.Sprintf("%d %s (abstract ids %v)", resp.Status, trunc(string(resp.Bytes()), 400), got)})
		}
	}
	listRead("GET keys", "GET", "keys", nil, exp.Keys)
	resp := s.http("GET", r.url(v, "fields?counts=true"), nil)
	atomic.AddInt64(r.ncmp, 1)
	cnt := map[string]int{}
	if resp.Status != 200 || json.Unmarshal(resp.Bytes(), &cnt) != nil {
		r.report(c16Divergence{Kind: "read", Step: k, Endpoint: "GET fields?counts=true at " + where, Observed: fmt.Sprintf("%d %s", resp.Status, resp.Bytes())})
	} else {
		for _, f := range njsFields {
			if cnt[f] != exp.Cnt[f] {
				r.report(c16Divergence{Kind: "read", Step: k, Endpoint: "GET fields?counts=true at " + where, Expected: exp.Cnt, Observed: cnt,
					Detail: fmt.Sprintf("count of field %q is %d, %d annotations carry it", f, cnt[f], exp.Cnt[f])})
				break
			}
		}
		if cnt["bodyid"] != len(exp.Keys) {
			r.report(c16Divergence{Kind: "read", Step: k, Endpoint: "GET fields?counts=true at " + where, Expected: len(exp.Keys), Observed: cnt, Detail: "count of bodyid differs from the number of annotations"})
		}
	}
	if r.failed {
		return
	}
	for lo := 1; lo <= njsNumIds; lo++ {
		for hi := lo; hi <= njsNumIds; hi++ {
			listRead(fmt.Sprintf("keyrange/%s/%s", r.keys[lo-1], r.keys[hi-1]), "GET", fmt.Sprintf("keyrange/%s/%s", r.keys[lo-1], r.keys[hi-1]), nil, exp.Rng[lo-1][hi-1])
		}
	}
	for qi, q := range r.queries {
		if !qsel(qi) {
			continue
		}
		body := r.table.query(q)
		method := "GET"
		if qi%4 == 3 {
			method = "POST"
		}
		listRead(fmt.Sprintf("%s query %s ?onlyid=true", method, body), method, "query?onlyid=true", []byte(body), exp.Qs[qi])
		if r.failed {
			return
		}
	}
	for _, sk := range []string{"schema", "schema_batch", "json_schema"} {
		rest := sk
		if sk != "json_schema" && (k+v)%2 == 0 {
			rest = "key/" + sk // the keyvalue-compatible spelling
		}
		resp := s.http("GET", r.url(v, rest), nil)
		atomic.AddInt64(r.ncmp, 1)
		want := st.SchAll[v-1][sk]
		ok := (want == 0 && resp.Status == 404) || (want > 0 && resp.Status == 200 && string(resp.Bytes()) == njsDocs[want-1])
		if !ok {
			r.report(c16Divergence{Kind: "schema", Step: k, Endpoint: "GET " + rest + " at " + where, Expected: want, Observed: fmt.Sprintf("%d %s", resp.Status, trunc(string(resp.Bytes()), 200))})
			return
		}
	}
	// projections
	p := (k + v) % len(njsProjs)
	pr := njsProjs[p]
	show := map[[2]bool]string{{true, true}: "all", {true, false}: "user", {false, true}: "time", {false, false}: ""}[[2]bool{pr.Su, pr.St}]
	opts := "?show=" + show
	if len(pr.Fs) > 0 {
		opts += "&fields=" + strings.Join(pr.Fs, ",")
	}
	for i, key := range r.keys {
		resp := s.http("GET", r.url(v, "key/"+key+opts), nil)
		atomic.AddInt64(r.ncmp, 1)
		if d := r.compareAnn(snap[i], key, exp.Proj[p][i], resp.Status, resp.Bytes()); d != "" {
			r.report(c16Divergence{Kind: "projection", Step: k, Endpoint: "GET key/" + key + opts + " at " + where, Expected: exp.Proj[p][i], Observed: string(resp.Bytes()), Detail: d})
			return
		}
	}
}

func (r *njsReplay) pathOf(k, v int) string {
	for _, s := range r.b.Hist[k].Served {
		if s == v {
			return "in-memory path"
		}
	}
	return "store path"
}

func has(a []int, v int) bool {
	for _, x := range a {
		if x == v {
			return true
		}
	}
	return false
}

type njsSnapshot struct {
	reads  [][]string // per version
	ftimes []string   // per version: normalised GET fieldtimes
}

func (r *njsReplay) snapshot(nv int) njsSnapshot {
	var sn njsSnapshot
	for v := 1; v <= nv; v++ {
		sn.reads = append(sn.reads, r.s.doReads(r.uuids[v-1], r.full))
		resp := r.s.http("GET", r.url(v, "fieldtimes"), nil)
		sn.ftimes = append(sn.ftimes, normResponse("json", resp))
	}
	return sn
}

// compareSnapshots: the answers of every version before and after a restart.
func (r *njsReplay) compareSnapshots(k int, what string, a, b njsSnapshot, ka, kb int) {
	atomic.AddInt64(r.nchk, 1)
	for v := range a.reads {
		pa, pb := r.pathOf(ka, v+1), r.pathOf(kb, v+1)
		for i := range r.full {
			atomic.AddInt64(r.ncmp, 1)
			if a.reads[v][i] != b.reads[v][i] {
				x, y := aroundDiff(a.reads[v][i], b.reads[v][i])
				r.report(c16Divergence{Kind: "coherence", Step: k, Endpoint: fmt.Sprintf("%s %s %s at version %d", r.full[i].method, r.full[i].rest, trunc(string(r.full[i].body), 200), v+1),
					Detail: fmt.Sprintf("%s: %s before, %s after", what, pa, pb), Expected: x, Observed: y})
				return
			}
		}
		// GET fieldtimes exists on the in-memory path only; compared when the specification says the latest
		// stamp seen per field is still the latest stamp present
		if pa == "in-memory path" && pb == "in-memory path" && has(r.b.Hist[ka].Ftok, v+1) {
			atomic.AddInt64(r.ncmp, 1)
			if a.ftimes[v] != b.ftimes[v] {
				r.report(c16Divergence{Kind: "coherence", Step: k, Endpoint: fmt.Sprintf("GET fieldtimes at version %d", v+1),
					Detail: what + ": the in-memory database maintained by the requests vs the one rebuilt from the store", Expected: a.ftimes[v], Observed: b.ftimes[v]})
				return
			}
		}
	}
}

func (r *njsReplay) restartWith(k int, clean bool, trk, stat []int) bool {
	toml := r.inmemory(trk, stat)
	err := r.n.RestartWith(clean, func(c *node.Config) { c.MainStoreTOML = toml })
	if err != nil {
		if clean {
			must(err, "restart")
		}
		njRestartFailed(err)
		r.failed = true
		return false
	}
	r.s.script = append(r.s.script, fmt.Sprintf("RESTART clean=%v %s", clean, toml))
	return true
}

func (r *njsReplay) newChild(k int, resp node.Resp, nv int, what string) bool {
	var ch struct{ Child string }
	if resp.Status != 200 || json.Unmarshal(resp.Bytes(), &ch) != nil || ch.Child == "" {
		infra("%s refused at step %d of a script (the specification's DAG rules and the server's disagree: C07's subject): %d %s\n%s", what, k, resp.Status, resp.Bytes(), strings.Join(r.s.script, "\n"))
	}
	if nv != len(r.uuids)+1 {
		infra("version numbering out of step at %d", k)
	}
	r.uuids = append(r.uuids, ch.Child)
	return true
}

// ensureInstance creates the neuronjson instance (scripts of shape "late" do so only when the first
// request that needs it arrives, i.e. in a repo that already has versions).
func (r *njsReplay) ensureInstance(lk []bool) {
	if r.inst {
		return
	}
	at := r.uuids[0]
	for v, l := range lk { // instances are created at an open version
		if !l && v < len(r.uuids) {
			at = r.uuids[v]
			break
		}
	}
	body, _ := json.Marshal(map[string]string{"typename": "neuronjson", "dataname": "nj"})
	resp, err := r.n.HTTP("POST", "/api/repo/"+at+"/instance", body)
	must(err, "new instance")
	if resp.Status != 200 {
		infra("new instance: %d %s", resp.Status, resp.Bytes())
	}
	r.s.script = append(r.s.script, fmt.Sprintf("POST /api/repo/%s/instance %s (repo has %d versions)", at, body, len(r.uuids)))
	r.inst = true
}

func (r *njsReplay) play() {
	b := r.b
	s := r.s
	nq := len(r.queries)
	for k, st := range b.Hist {
		op := st.Op
		switch op.K {
		case "init", "skip", "commit", "newver", "branch", "merge", "restart":
		default:
			r.ensureInstance(b.Hist[k-1].Lk)
		}
		user := njUser(k)
		nv := len(st.All)
		expect := func(resp node.Resp, rejected bool) {
			if rejected && resp.Status == 200 {
				r.report(c16Divergence{Kind: "request-accepted", Step: k, Endpoint: op.K, Detail: "the request must be refused (schema / reserved id)", Observed: fmt.Sprintf("%d %s", resp.Status, trunc(string(resp.Bytes()), 300))})
			}
			if !rejected && resp.Status != 200 {
				r.report(c16Divergence{Kind: "request-refused", Step: k, Endpoint: op.K, Observed: fmt.Sprintf("%d %s", resp.Status, trunc(string(resp.Bytes()), 300))})
			}
		}
		opts := func() string { return njOpts(user, njOp{Rep: op.Rep, Cond: op.Cond}) }
		var before njsSnapshot
		switch op.K {
		case "init", "skip":
		case "post":
			key := r.keys[op.ID-1]
			expect(s.http("POST", r.url(op.At, "key/"+key+opts()), njsPostBody(key, op.Upd, op.St, r.table.vals, false)), op.Rej != 0)
		case "seed":
			key := r.keys[op.ID-1]
			expect(s.http("POST", r.url(op.At, "key/"+key+"?u=seed"), njsPostBody(key, op.Upd, nil, r.table.vals, true)), op.Rej != 0)
		case "batch":
			k1, k2 := r.keys[op.ID-1], r.keys[op.ID2-1]
			b1, b2 := njsPostBody(k1, op.Upd, nil, r.table.vals, false), njsPostBody(k2, op.Upd2, nil, r.table.vals, false)
			body, _ := pb.Marshal(&proto.KeyValues{Kvs: []*proto.KeyValue{{Key: k1, Value: b1}, {Key: k2, Value: b2}}})
			s.script = append(s.script, fmt.Sprintf("  keyvalues: %s ; %s", b1, b2))
			expect(s.http("POST", r.url(op.At, "keyvalues"+opts()), body), op.Rej != 0)
		case "del":
			expect(s.http("DELETE", r.url(op.At, "key/"+r.keys[op.ID-1]+"?u="+user), nil), false)
		case "postzero":
			expect(s.http("POST", r.url(op.At, "key/0?u="+user), []byte(`{"bodyid":0,"b":1}`)), true)
		case "commit":
			resp := s.http("POST", "/api/node/"+r.uuids[op.At-1]+"/commit", []byte(`{"note":"c16"}`))
			if resp.Status != 200 {
				infra("commit refused: %d %s", resp.Status, resp.Bytes())
			}
		case "newver":
			r.newChild(k, s.http("POST", "/api/node/"+r.uuids[op.At-1]+"/newversion", []byte(`{"note":"c16"}`)), op.Nv, "newversion")
		case "branch":
			r.newChild(k, s.http("POST", "/api/node/"+r.uuids[op.At-1]+"/branch", []byte(fmt.Sprintf(`{"note":"c16","branch":"b%d"}`, op.Br))), op.Nv, "branch")
		case "merge":
			body := fmt.Sprintf(`{"mergeType":"conflict-free","parents":[%q,%q],"note":"c16"}`, r.uuids[op.At-1], r.uuids[op.P2-1])
			r.newChild(k, s.http("POST", "/api/repo/"+r.uuids[0]+"/merge", []byte(body)), op.Nv, "merge")
		case "restart":
			if r.inst {
				before = r.snapshot(nv)
			}
			if !r.restartWith(k, op.Clean, op.Trk, op.Stat) {
				return
			}
		case "postschema":
			rest := op.Sk
			if op.Sk != "json_schema" && k%2 == 0 {
				rest = "key/" + op.Sk
			}
			expect(s.http("POST", r.url(op.At, rest+"?u="+user), []byte(njsDocs[op.Sc-1])), false)
		case "delschema":
			rest := op.Sk
			if op.Sk != "json_schema" && k%2 == 0 {
				rest = "key/" + op.Sk
			}
			expect(s.http("DELETE", r.url(op.At, rest+"?u="+user), nil), false)
		default:
			infra("unknown scripted op %q", op.K)
		}
		if r.failed {
			return
		}
		if !r.inst {
			continue
		}
		if op.K == "restart" {
			after := r.snapshot(nv)
			r.compareSnapshots(k, fmt.Sprintf("restart (clean=%v) with inmemory branches %v, versions %v", op.Clean, op.Trk, op.Stat), before, after, k-1, k)
			if r.failed {
				return
			}
		}
		// predicted reads: every version at DAG steps, restarts and the last step; otherwise the
		// version written and every version served from memory
		all := op.K == "newver" || op.K == "branch" || op.K == "merge" || op.K == "restart" || k == len(b.Hist)-1
		for v := 1; v <= nv; v++ {
			if !(all || v == op.At || has(st.Served, v)) {
				continue
			}
			// a rotating third of the query table per version and step; the whole table at the last step
			vv := v
			r.predicted(k, v, func(i int) bool { return k == len(b.Hist)-1 || (i+k+vv)%3 == 0 || i >= nq-6 })
			if r.failed {
				return
			}
		}
	}
	// closing: everything but the master head on the store path, then everything in memory again
	r.ensureInstance(b.Hist[len(b.Hist)-1].Lk)
	k := len(b.Hist) - 1
	last := b.Hist[k]
	nv := len(last.All)
	s0 := r.snapshot(nv)
	if !r.restartWith(k, true, nil, nil) {
		return
	}
	s1 := r.snapshot(nv)
	r.compareSnapshotsClosing(k, "closing restart without inmemory configuration (store path for all but the master head)", s0, s1, last.Served, []int{last.Hdm["0"]})
	if r.failed {
		return
	}
	// all branches tracked, up to two committed versions held
	var stat []int
	for v := 1; v <= nv && len(stat) < 2; v++ {
		if last.Lk[v-1] && (int(r.seed)+v)%2 == 0 {
			stat = append(stat, v)
		}
	}
	if !r.restartWith(k, r.seed%2 == 0, []int{1, 2}, stat) {
		return
	}
	s2 := r.snapshot(nv)
	served := append([]int{last.Hdm["0"]}, stat...)
	for _, br := range []string{"1", "2"} {
		if last.Hdm[br] != 0 {
			served = append(served, last.Hdm[br])
		}
	}
	r.compareSnapshotsClosing(k, "closing restart with every branch and some committed versions in memory", s1, s2, []int{last.Hdm["0"]}, served)
}

// compareSnapshotsClosing compares two snapshots taken around a closing restart (served sets given explicitly).
func (r *njsReplay) compareSnapshotsClosing(k int, what string, a, b njsSnapshot, servedA, servedB []int) {
	atomic.AddInt64(r.nchk, 1)
	path := func(served []int, v int) string {
		if has(served, v) {
			return "in-memory path"
		}
		return "store path"
	}
	for v := range a.reads {
		for i := range r.full {
			atomic.AddInt64(r.ncmp, 1)
			if a.reads[v][i] != b.reads[v][i] {
				x, y := aroundDiff(a.reads[v][i], b.reads[v][i])
				r.report(c16Divergence{Kind: "coherence", Step: k, Endpoint: fmt.Sprintf("%s %s %s at version %d", r.full[i].method, r.full[i].rest, trunc(string(r.full[i].body), 200), v+1),
					Detail: fmt.Sprintf("%s: %s before, %s after", what, path(servedA, v+1), path(servedB, v+1)), Expected: x, Observed: y})
				return
			}
		}
	}
}

// ---------------------------------------------------------------------------

type njsResult struct {
	states, trans int64
	scripts       int
	model         string
	kinds         map[string]int
	shapes        map[string]int
	skipped       int
	servedSteps   int // (step, version) pairs served from memory other than the master head
}

type njsGen struct {
	scripts []njsScript
	queries []njsQuery
	bs      []*njxBehaviour
	res     *tlc.Result
	nops    int
}

// njScriptedGen generates the scripts and lets TLC execute them on the specification.
func njScriptedGen(c *Ctx) *njsGen {
	rng := rand.New(rand.NewSource(c.Seed*104729 + 17))
	shapes := []string{"merge", "tracked", "static", "schema", "random", "sidemerge", "late", "schema", "merge", "tracked"}
	ns := c.pick(28, 240)
	nops := c.pick(24, 36)
	var scripts []njsScript
	for i := 0; i < ns; i++ {
		scripts = append(scripts, njsGenScript(rng, shapes[i%len(shapes)], nops))
	}
	queries := njsQueries()
	var res *tlc.Result
	for try := 0; try < 2; try++ {
		res = c.RunTLC(tlc.Opts{Module: "NeuronJSON_script", Config: "gen_njs.cfg",
			Files:   map[string][]byte{"gen_njs.cfg": njsCfg(8), "GenNJ.tla": njsGenModule(scripts, queries)},
			Timeout: 30 * time.Minute, HeapGB: 8})
		if res.OK || res.Violation != "" {
			break
		}
	}
	if !res.OK {
		infra("tlc NeuronJSON_script did not complete cleanly: %s\n%s", res.Violation, res.Tail(3000))
	}
	bs := make([]*njxBehaviour, ns)
	got := 0
	PrintedJSON(res.Output, func(raw []byte) {
		var b njxBehaviour
		if err := json.Unmarshal(raw, &b); err != nil {
			infra("unparsable scripted behaviour: %v", err)
		}
		if b.Sid >= 1 && b.Sid <= ns && bs[b.Sid-1] == nil {
			bs[b.Sid-1] = &b
			got++
		}
	})
	if got != ns {
		infra("NeuronJSON_script printed %d of %d behaviours\n%s", got, ns, res.Tail(2000))
	}
	return &njsGen{scripts: scripts, queries: queries, bs: bs, res: res, nops: nops}
}

// njScriptedReplay replays the behaviours TLC printed on real servers.
func njScriptedReplay(c *Ctx, run *ev.Run, g *njsGen, nreq, ncmp, nchk *int64) njsResult {
	scripts, queries, bs, res, nops := g.scripts, g.queries, g.bs, g.res, g.nops
	ns := len(scripts)
	out := njsResult{states: res.Distinct, trans: res.Generated, scripts: ns, kinds: map[string]int{}, shapes: map[string]int{}}
	for i, b := range bs {
		out.shapes[scripts[i].Shape]++
		for _, st := range b.Hist {
			k := st.Op.K
			if k == "skip" {
				out.skipped++
			}
			if st.Op.Rej != 0 {
				k += "(refused)"
			}
			out.kinds[k]++
			for _, v := range st.Served {
				if v != st.Hdm["0"] {
					out.servedSteps++
				}
			}
		}
	}
	workers := 16
	parallel(ns, workers, func(_, i int) {
		seed := c.Seed*15485863 + int64(i)
		prng := rand.New(rand.NewSource(seed))
		rp := &njsReplay{run: run, c: c, b: bs[i], sc: scripts[i], table: njsMakeTable(prng), queries: queries, ncmp: ncmp, nchk: nchk, seed: seed}
		// body ids: same number of digits; a share of the scripts above 2^63
		var base uint64 = uint64(10 * (1 + prng.Intn(8)))
		if i%5 == 4 {
			base = 1<<63 + uint64(prng.Intn(1000))*10
		}
		for j := 1; j <= njsNumIds; j++ {
			rp.keys = append(rp.keys, strconv.FormatUint(base+uint64(j), 10))
		}
		sort.Strings(rp.keys)
		rp.full = njsReadSet(rp.keys, rp.table, queries)
		n := c.StartNode(node.Config{MainStoreTOML: (&njsReplay{}).inmemory(scripts[i].Trk0, nil)})
		defer c.DropNode(n)
		resp, err := n.HTTP("POST", "/api/repos", []byte(`{"alias":"c16","description":"c16"}`))
		must(err, "script repo")
		var rr struct{ Root string }
		if resp.Status != 200 || json.Unmarshal(resp.Bytes(), &rr) != nil || rr.Root == "" {
			infra("new repo: %d %s", resp.Status, resp.Bytes())
		}
		root := rr.Root
		rp.n = n
		rp.uuids = []string{root}
		rp.s = &njSess{n: n, inst: "nj", head: root, fields: njsFields, nreq: nreq, keep: true}
		if scripts[i].Shape != "late" {
			rp.ensureInstance(nil)
		}
		rp.play()
		run.Eval(fmt.Sprintf("script %v", rp.opList()))
	})
	if len(bs) > 0 {
		b := bs[0]
		run.Sample(map[string]interface{}{"script_shape": scripts[0].Shape, "par": b.Par, "bra": b.Bra, "requests": (&njsReplay{b: b}).opList(),
			"expected_last_step": map[string]interface{}{"versions": b.Hist[len(b.Hist)-1].All, "served_from_memory": b.Hist[len(b.Hist)-1].Served}})
	}
	out.model = fmt.Sprintf("scripted DAG behaviours: %d scripts of %d intentions (shapes %v) over %d ids x fields %v x %d value kinds, <= 8 versions, branches b1/b2, inmemory configurations chosen per (re)start: %d states; resolved requests %v (%d intentions skipped as not enabled)",
		ns, nops, out.shapes, njsNumIds, njsFields, njsNumVals, res.Distinct, out.kinds, out.skipped)
	return out
}
