package main

// C07 third round (odd arguments, specs/DvidDAG.tla NextX + DvidDAGX_mc.tla):
//   - strings that are not identifiers where an identifier is expected (empty, a few hex digits,
//     32 characters that are not hexadecimal, a proper prefix of an existing UUID, strings with ':'
//     or '~') for POST /api/repos "root", newversion / branch "uuid", tag "tag" and the RPC
//     commands `repos new uuid=`, `repo <u> newversion|branch <uuid>`;
//   - refused requests at states that hold a merge version (a stratified sample request kind x
//     argument kinds: TLC prints one representative per class and state, the classes are the
//     specification's ClsOf);
//   - odd branch names ("a/b", the "tag-<uuid>" a tag request would use), merge types other than
//     "conflict-free", POST node note;
//   - the server-wide projection: /api/repos/info lists exactly the repos accepted requests made,
//     all listed graphs together are well formed, every listed UUID is an identifier and names
//     its own version (datastore.MatchingUUID, in full and shortened).
// TLC explores NextX (states with at most one odd name) and checks Inv_C07X (Inv_C07 +
// Inv_SelfResolve); the emission run prints, for a seeded twentieth of the states of the one-repo
// MaxNodes=4 graph, the refused requests (one per class) and every accepted odd request with the
// requests that must be refused right after it.

import (
	"encoding/json"
	"fmt"
	"math/rand"
	"os"
	"sort"
	"strings"
	"sync/atomic"
	"time"

	"verifharness/internal/dagm"
	"verifharness/internal/ev"
	"verifharness/internal/node"
	"verifharness/internal/tlc"
)

func init() {
	if os.Getenv("VCHECK_DEV") != "" {
		checks["C07X"] = func(c *Ctx) int {
			run := ev.NewRun("C07X", c.Tier, "model_checking")
			g, _ := emitDagGraph(c, 4, 1, 3)
			c07Odd(c, run, g, 4, 1, nil)
			return run.Finish()
		}
	}
}

type prefObs struct {
	Name string `json:"name"`
	Node int    `json:"node"`
}

type xStateLine struct {
	S    dagm.State `json:"s"`
	XRej []dagm.Op  `json:"xrej"`
	Pref []prefObs  `json:"pref"`
}

type xEdge struct {
	S    dagm.State `json:"s"`
	L    dagm.Op    `json:"l"`
	T    dagm.State `json:"t"`
	F    []dagm.Op  `json:"f"`
	Pref []prefObs  `json:"pref"`
}

type c07xDivergence struct {
	Kind     string      `json:"kind"`
	Path     []dagm.Op   `json:"path"`
	Op       *dagm.Op    `json:"op,omitempty"`
	Via      string      `json:"via,omitempty"`
	Expected interface{} `json:"expected,omitempty"`
	Diffs    []string    `json:"diffs"`
	Script   []dagm.Step `json:"script"`
}

// compareAll = the per-repo projection of the first round + the server-wide part.
func compareAll(s *dagm.Sess, want dagm.State) ([]string, error) {
	d, err := compareState(s, want, !hasSlashBranch(want))
	if err != nil {
		return nil, err
	}
	if hasSlashBranch(want) {
		// a branch name with '/' cannot be put into a URL path segment: heads are compared for the other names only
		hd, err := headDiffs(s, stripSlashHeads(want))
		if err != nil {
			return nil, err
		}
		d = append(d, hd...)
	}
	x, err := s.CrossRepo()
	if err != nil {
		return nil, err
	}
	return append(d, x...), nil
}

func hasSlashBranch(st dagm.State) bool {
	for _, b := range st.Br {
		if strings.Contains(b, "/") {
			return true
		}
	}
	return false
}

func stripSlashHeads(st dagm.State) dagm.State {
	c := st
	c.Br = nil
	for _, b := range st.Br {
		if strings.Contains(b, "/") {
			b = ""
		}
		c.Br = append(c.Br, b)
	}
	c.Heads = nil
	for _, h := range st.Heads {
		if !strings.Contains(h.Branch, "/") {
			c.Heads = append(c.Heads, h)
		}
	}
	return c
}

// prefDiffs: what the shortened identifiers name.
func prefDiffs(s *dagm.Sess, obs []prefObs) ([]string, error) {
	var d []string
	for _, p := range obs {
		addr, _ := s.ConcreteArg(p.Name)
		got, panicked, err := matchUUID(s, addr)
		if err != nil {
			return nil, err
		}
		if panicked {
			d = append(d, fmt.Sprintf("address %q (%s): the resolver panicked", addr, p.Name))
		} else if got != p.Node {
			d = append(d, fmt.Sprintf("address %q (%s): spec n%d, server n%d (0 = refused)", addr, p.Name, p.Node, got))
		}
	}
	return d, nil
}

var neutralX = map[string]bool{"note": true, "log": true, "repolog": true, "newinstance": true, "renameinstance": true, "deleteinstance": true, "nodenote": true}

// rpcTwin: does the refused request have an RPC command that can carry the odd argument?
func rpcTwin(op dagm.Op) bool {
	if !dagm.IsOddArg(op.UUID) {
		return false
	}
	switch op.Op {
	case "newrepo":
		return true
	case "newversion", "branch":
		return op.UUID != "empty" // an empty command word means "no UUID given"
	}
	return false
}

// oddMC is the model-checking run of the intended design with odd arguments: Inv_C07X over NextX, refused
// requests as stuttering steps (states with at most one odd name).
type oddMC struct {
	done        chan interface{}
	res         *tlc.Result
	nodes, reps int
}

func startOddMC(c *Ctx) *oddMC {
	m := &oddMC{done: make(chan interface{}, 1), nodes: c.pick(3, 4), reps: c.pick(2, 1)}
	cfg := "SPECIFICATION SpecX\n" + dagConstants(m.nodes, m.reps, 3, true) + "  SampleMod = 1\n  SampleRes = 0\n" +
		"VIEW View\nCONSTRAINT InX\nINVARIANTS Inv_C07X\nPROPERTIES Act_C07_RejectIsStutter Act_Monotone\nCHECK_DEADLOCK FALSE\n"
	go func() {
		defer func() { m.done <- recover() }()
		m.res = c.MustModelCheck(tlc.Opts{Module: "DvidDAGX_mc", Config: "gen_x_mc.cfg", Workers: 4,
			Files: map[string][]byte{"gen_x_mc.cfg": []byte(cfg)}, Timeout: 30 * time.Minute})
	}()
	return m
}

func (m *oddMC) wait() *tlc.Result {
	if e := <-m.done; e != nil {
		panic(e)
	}
	return m.res
}

func c07Odd(c *Ctx, run *ev.Run, g *dagGraph, maxNodes, maxRepos int, mcRun *oddMC) int64 {
	t0 := time.Now()
	consts := dagConstants(maxNodes, maxRepos, 3, false)
	mod := c.pick(30, 4)
	// 2. emission
	cfg := "SPECIFICATION SpecEmitX\n" + consts + fmt.Sprintf("  SampleMod = %d\n  SampleRes = %d\n", mod, int(c.Seed%int64(mod))) +
		"VIEW View\nCONSTRAINT NoOdd\nINVARIANTS EmitX\nCHECK_DEADLOCK FALSE\n"
	r := c.MustModelCheck(tlc.Opts{Module: "DvidDAGX_mc", Config: "gen_x.cfg", Workers: 8,
		Files: map[string][]byte{"gen_x.cfg": []byte(cfg)}, Timeout: 20 * time.Minute, HeapGB: 4})
	// (TLC has been running since the start of the check, or is started here)
	if mcRun == nil {
		mcRun = startOddMC(c)
	}
	mcJoined := false
	var mc *tlc.Result
	joinMC := func() {
		if !mcJoined {
			mcJoined = true
			mc = mcRun.wait()
		}
	}
	defer joinMC()
	var lines []xStateLine
	var edges []xEdge
	unknown := 0
	PrintedJSON(r.Output, func(raw []byte) {
		if strings.Contains(string(raw[:min(len(raw), 4000)]), `"xrej"`) || strings.Contains(string(raw), `"xrej":`) {
			var l xStateLine
			if err := json.Unmarshal(raw, &l); err == nil && l.XRej != nil {
				if _, ok := g.states[l.S.Key()]; ok {
					lines = append(lines, l)
				} else {
					unknown++
				}
				return
			}
		}
		var e xEdge
		if err := json.Unmarshal(raw, &e); err == nil && e.L.Op != "" {
			if _, ok := g.states[e.S.Key()]; ok {
				edges = append(edges, e)
			} else {
				unknown++
			}
		}
	})
	if len(lines) == 0 || len(edges) == 0 {
		infra("C07 odd arguments: TLC printed %d state lines and %d accepted odd requests:\n%s", len(lines), len(edges), r.Tail(1500))
	}
	sort.Slice(lines, func(i, j int) bool { return lines[i].S.Key() < lines[j].S.Key() })
	sort.Slice(edges, func(i, j int) bool {
		if a, b := edges[i].S.Key(), edges[j].S.Key(); a != b {
			return a < b
		}
		return edges[i].L.Key() < edges[j].L.Key()
	})
	// 3. stratified sample of the refused requests: per class a seeded choice of (state, request)
	rng := rand.New(rand.NewSource(c.Seed*977 + 5))
	type cand struct{ li, oi int }
	byCls := map[string][]cand{}
	for li, l := range lines {
		for oi, op := range l.XRej {
			byCls[op.Cls] = append(byCls[op.Cls], cand{li, oi})
		}
	}
	var classes []string
	for k := range byCls {
		classes = append(classes, k)
	}
	sort.Strings(classes)
	perClass := c.pick(2, 10)
	chosen := map[int][]int{} // line -> op indices
	nChosen := 0
	mergeStateCases := 0
	for _, k := range classes {
		cs := byCls[k]
		rng.Shuffle(len(cs), func(i, j int) { cs[i], cs[j] = cs[j], cs[i] })
		// half of the picks from states that hold a merge version where the class occurs there
		n := 0
		for pass := 0; pass < 2 && n < perClass; pass++ {
			for _, x := range cs {
				if n >= perClass {
					break
				}
				hasMerge := false
				for _, kd := range lines[x.li].S.Kind {
					if kd == "merge" {
						hasMerge = true
					}
				}
				if pass == 0 && (!hasMerge || n >= (perClass+1)/2) {
					continue
				}
				dup := false
				for _, o := range chosen[x.li] {
					if o == x.oi {
						dup = true
					}
				}
				if dup {
					continue
				}
				chosen[x.li] = append(chosen[x.li], x.oi)
				n++
				nChosen++
				if hasMerge {
					mergeStateCases++
				}
			}
		}
	}
	var lineIdx []int
	for li := range chosen {
		lineIdx = append(lineIdx, li)
	}
	sort.Ints(lineIdx)
	if n := c.pick(90, 100000); len(edges) > n {
		rng.Shuffle(len(edges), func(i, j int) { edges[i], edges[j] = edges[j], edges[i] })
		edges = edges[:n]
	}

	workers := 16
	ws := make([]*dagWorker, workers)
	for i := range ws {
		ws[i] = &dagWorker{c: c, every: 40, cfg: node.Config{}}
	}
	defer func() {
		for _, w := range ws {
			w.close()
		}
	}()
	var nRej, nRPC, nAcc, nFollow, nPref int64
	clsSeen := map[string]bool{}
	var clsMu = make(chan struct{}, 1)
	start := func(w *dagWorker, path []dagm.Op, want dagm.State) *dagm.Sess {
		s := w.sess()
		s.Passcode = "pw" + dagm.RandHex()[:6] // every repo of the session is made with a passcode
		must(s.MarkBaseline(), "repos/info baseline")
		if msg, err := buildState(s, path); err != nil {
			must(err, "build state")
		} else if msg != "" {
			run.Violation("c07", c07xDivergence{Kind: "accepted-request-refused", Path: path, Diffs: []string{msg}, Script: s.Script})
			return nil
		}
		d, err := compareAll(s, want)
		must(err, "project")
		if len(d) > 0 {
			run.Violation("c07", c07xDivergence{Kind: "state-mismatch-after-path", Path: path, Expected: want, Diffs: d, Script: s.Script})
			return nil
		}
		return s
	}
	// refuse sends one request the specification refuses and judges answer and state
	refuse := func(w *dagWorker, s *dagm.Sess, path []dagm.Op, want dagm.State, op dagm.Op, via string) *dagm.Sess {
		var ok bool
		var status int
		var err error
		if via == "rpc" {
			ok, status, err = (&rpcDagSess{Sess: s}).Apply(op)
		} else {
			ok, status, err = s.Apply(op)
		}
		must(err, "apply refused request")
		if ok && !neutralX[op.Op] {
			// reported before projecting: a version with a string like "ab:cd" as UUID may make the projection itself fail
			o := op
			d := []string{fmt.Sprintf("request %s (class %s, via %s) accepted though the specification refuses it", op.Key(), op.Cls, via)}
			if len(s.UUIDs) > 0 {
				d = append(d, fmt.Sprintf("the server now lists a version with UUID %q", s.UUIDs[len(s.UUIDs)-1]))
			}
			run.Violation("c07", c07xDivergence{Kind: "refused-request-accepted", Path: path, Op: &o, Via: via, Expected: want, Diffs: d, Script: s.Script})
			w.cases = w.every // the node holds a repo the replay cannot address: recycle it
			return start(w, path, want)
		}
		d, err := compareAll(s, want)
		must(err, "project")
		if status >= 500 {
			d = append([]string{fmt.Sprintf("request %s (class %s, via %s) answered %d", op.Key(), op.Cls, via, status)}, d...)
		}
		if len(d) > 0 {
			o := op
			run.Violation("c07", c07xDivergence{Kind: "refused-request-changed-state", Path: path, Op: &o, Via: via, Expected: want, Diffs: d, Script: s.Script})
			return start(w, path, want) // rebuild and go on
		}
		return s
	}
	tEmit := since(t0)
	// (a) refused requests
	parallel(len(lineIdx), workers, func(wi, i int) {
		w := ws[wi]
		l := lines[lineIdx[i]]
		key := l.S.Key()
		path := g.path(key)
		s := start(w, path, l.S)
		if s == nil {
			return
		}
		for _, oi := range chosen[lineIdx[i]] {
			op := l.XRej[oi]
			if (op.Op == "merge" || op.Op == "mergebadtype") && l.S.NN == 0 {
				continue
			}
			run.Eval("xrej|" + key + "|" + op.Key())
			clsMu <- struct{}{}
			clsSeen[op.Cls] = true
			<-clsMu
			if s = refuse(w, s, path, l.S, op, "http"); s == nil {
				return
			}
			atomic.AddInt64(&nRej, 1)
			if rpcTwin(op) {
				run.Eval("xrej-rpc|" + key + "|" + op.Key())
				if s = refuse(w, s, path, l.S, op, "rpc"); s == nil {
					return
				}
				atomic.AddInt64(&nRPC, 1)
			}
		}
		// what the shortened identifiers name, after all the refusals
		d, err := prefDiffs(s, l.Pref)
		must(err, "resolve prefixes")
		atomic.AddInt64(&nPref, int64(len(l.Pref)))
		if len(d) > 0 {
			run.Violation("c07", c07xDivergence{Kind: "prefix-address-after-refused-requests", Path: path, Expected: l.Pref, Diffs: d, Script: s.Script})
		}
	})
	tRej := since(t0)
	// (b) accepted odd requests, the requests that must be refused right after, the prefixes
	parallel(len(edges), workers, func(wi, i int) {
		w := ws[wi]
		e := edges[i]
		path := g.path(e.S.Key())
		s := start(w, path, e.S)
		if s == nil {
			return
		}
		ok, status, err := s.Apply(e.L)
		must(err, "apply")
		run.Eval("xacc|" + e.S.Key() + "|" + e.L.Key())
		l := e.L
		if !ok {
			run.Violation("c07", c07xDivergence{Kind: "accepted-request-refused", Path: path, Op: &l,
				Diffs: []string{fmt.Sprintf("status %d: the specification accepts this request", status)}, Script: s.Script})
			return
		}
		d, err := compareAll(s, e.T)
		must(err, "project")
		pd, err := prefDiffs(s, e.Pref)
		must(err, "resolve prefixes")
		atomic.AddInt64(&nPref, int64(len(e.Pref)))
		d = append(d, pd...)
		if len(d) > 0 {
			run.Violation("c07", c07xDivergence{Kind: "state-mismatch-after-accepted-request", Path: path, Op: &l, Expected: e.T, Diffs: d, Script: s.Script})
			return
		}
		n := atomic.AddInt64(&nAcc, 1)
		full := append(append([]dagm.Op(nil), path...), e.L)
		fs := e.F
		if n := c.pick(3, 1000); len(fs) > n {
			r2 := rand.New(rand.NewSource(c.Seed + int64(i)))
			r2.Shuffle(len(fs), func(a, b int) { fs[a], fs[b] = fs[b], fs[a] })
			fs = fs[:n]
		}
		for _, f := range fs {
			run.Eval("xfollow|" + e.T.Key() + "|" + f.Key())
			ok, status, err := s.Apply(f)
			must(err, "apply follow-up")
			d, err := compareAll(s, e.T)
			must(err, "project")
			if ok {
				d = append([]string{fmt.Sprintf("request %s accepted though the specification refuses it in this state", f.Key())}, d...)
			} else if status >= 500 {
				d = append([]string{fmt.Sprintf("request %s answered %d", f.Key(), status)}, d...)
			}
			if len(d) > 0 {
				fo := f
				run.Violation("c07", c07xDivergence{Kind: "refused-request-changed-state", Path: full, Op: &fo, Expected: e.T, Diffs: d, Script: s.Script})
				return
			}
			atomic.AddInt64(&nFollow, 1)
		}
		if n%40 == 1 {
			run.Sample(map[string]interface{}{"path": path, "odd_request": e.L, "expected_state": e.T, "then_refused": e.F, "prefixes_name": e.Pref})
		}
	})
	joinMC()
	if int(nRej) < nChosen/2 {
		infra("C07 odd arguments: only %d of %d chosen refused requests were replayed", nRej, nChosen)
	}
	run.Add("odd_states_sampled", int64(len(lines)))
	run.Add("odd_refused_classes", int64(len(clsSeen)))
	run.Add("odd_refused_requests_replayed", nRej)
	run.Add("odd_refused_requests_at_states_with_a_merge_version", int64(mergeStateCases))
	run.Add("odd_refused_requests_replayed_as_rpc_commands", nRPC)
	run.Add("odd_accepted_requests_replayed", nAcc)
	run.Add("odd_followup_refusals_replayed", nFollow)
	run.Add("odd_prefix_addresses_resolved", nPref)
	run.Add("odd_tlc_states", mc.Distinct+r.Distinct)
	run.Set("odd_model", fmt.Sprintf("DvidDAG NextX: Inv_C07X, Act_C07_RejectIsStutter over MaxNodes=%d MaxRepos=%d (%d states, at most one odd name); emission MaxNodes=%d MaxRepos=%d, states with hash = %d mod %d (%d lines, %d classes of refused requests, %d accepted odd requests); %d lines skipped (state not in the first-round graph)",
		mcRun.nodes, mcRun.reps, mc.Distinct, maxNodes, maxRepos, c.Seed%int64(mod), mod, len(lines), len(classes), len(edges), unknown))
	fmt.Printf("C07 odd arguments: %d refused requests in %d classes (%d at states with a merge version, %d also as RPC commands), %d accepted odd requests + %d follow-up refusals, %d prefix addresses, %.1fs (TLC %.1fs, refused %.1fs)\n",
		nRej, len(clsSeen), mergeStateCases, nRPC, nAcc, nFollow, nPref, since(t0), tEmit, tRej-tEmit)
	return nRej + nRPC + nAcc + nFollow
}
