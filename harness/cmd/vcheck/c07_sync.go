package main

// C07 growth, part S: the sync settings of data instances (specs/DvidSync.tla): POST
// <instance>/sync with and without replace=true, and the deletion of an instance others are
// synced with.  TLC explores the whole (small) state graph, checks Inv_Typed, Act_NoNewDangling
// and Act_RejectIsStutter, and prints every transition; each transition is replayed on a fresh
// repo (the path to its source state first), the syncs shown by GET <instance>/info are compared,
// the version graph must be untouched (graph-neutral), and after a restart (alternating clean
// stop / SIGKILL) the same observations must hold again.

import (
	"encoding/json"
	"fmt"
	"math/rand"
	"sort"
	"strings"
	"sync/atomic"
	"time"

	"verifharness/internal/dagm"
	"verifharness/internal/ev"
	"verifharness/internal/node"
	"verifharness/internal/tlc"
)

type syncShown struct {
	Names     []string `json:"names"`
	Undefined int      `json:"undefined"`
}

type syncState struct {
	Live  []string             `json:"live"`
	Shown map[string]syncShown `json:"shown"`
}

func (s syncState) key() string {
	b, _ := json.Marshal(s)
	return string(b)
}

type syncOp struct {
	Op      string   `json:"op"`
	Inst    string   `json:"inst"`
	Names   []string `json:"names"`
	Replace bool     `json:"replace"`
	Ok      bool     `json:"ok"`
}

type syncEdge struct {
	S syncState `json:"s"`
	L syncOp    `json:"l"`
	T syncState `json:"t"`
}

type c07sDivergence struct {
	Kind   string      `json:"kind"`
	Path   []syncOp    `json:"path"`
	Op     syncOp      `json:"op"`
	Source syncState   `json:"source_state"`
	Target syncState   `json:"expected_state"`
	Diffs  []string    `json:"diffs"`
	Script []dagm.Step `json:"script"`
}

// label instances of the types labelblk and labelvol: an empty labelmap / labelarray instance
// reports another MaxRepoLabel after a restart (known finding of C03, nothing to do with syncs)
var syncTypes = map[string]string{"l1": "labelblk", "l2": "labelvol", "an": "annotation", "sz": "labelsz", "kv": "keyvalue"}

func syncApply(s *dagm.Sess, root string, op syncOp) (bool, int, error) {
	switch op.Op {
	case "setsync":
		url := "/api/node/" + root + "/" + op.Inst + "/sync"
		if op.Replace {
			url += "?replace=true"
		}
		b, _ := json.Marshal(map[string]string{"sync": strings.Join(op.Names, ",")})
		r, err := s.HTTP("POST", url, b)
		return r.Status == 200, r.Status, err
	case "delete":
		err := s.N.Call("ds.deletedata", map[string]string{"UUID": root, "Name": op.Inst, "Passcode": ""}, nil)
		s.Script = append(s.Script, dagm.Step{Method: "CALL", URL: "ds.deletedata " + op.Inst, Resp: fmt.Sprint(err)})
		if err != nil {
			if _, ok := err.(*node.CallError); ok {
				return false, 400, nil
			}
			return false, 0, err
		}
		// The deletion runs in the background (the command only answers "started"): wait until the
		// repo no longer lists the instance and the store has stopped being written, so that the
		// restart that follows is a restart of an idle server (C03), not a crash (C04).
		if err := s.WaitInstanceGone(root, op.Inst); err != nil {
			return false, 0, err
		}
		return true, 200, nil
	}
	return false, 0, fmt.Errorf("unknown sync op %q", op.Op)
}

// syncObserve compares what the server shows with a specification state.  A deleted instance
// that is still listed shows as "undefined"; how many of them are listed is not compared (a
// server that drops them on deletion is as good).
func syncObserve(s *dagm.Sess, root string, want syncState) ([]string, error) {
	var d []string
	live := map[string]bool{}
	for _, i := range want.Live {
		live[i] = true
	}
	for inst := range syncTypes {
		r, err := s.N.HTTP("GET", "/api/node/"+root+"/"+inst+"/info", nil)
		if err != nil {
			return nil, err
		}
		if (r.Status == 200) != live[inst] {
			d = append(d, fmt.Sprintf("instance %s: spec exists=%v, server GET info status %d", inst, live[inst], r.Status))
			continue
		}
		sh, ok := want.Shown[inst]
		if !ok || r.Status != 200 {
			continue
		}
		var info struct {
			Base struct{ Syncs []string }
		}
		if err := json.Unmarshal(r.Bytes(), &info); err != nil {
			return nil, fmt.Errorf("info of %s: %v", inst, err)
		}
		var got []string
		for _, x := range info.Base.Syncs {
			if x != "undefined" {
				got = append(got, x)
			}
		}
		sort.Strings(got)
		w := append([]string(nil), sh.Names...)
		sort.Strings(w)
		if strings.Join(got, ",") != strings.Join(w, ",") {
			d = append(d, fmt.Sprintf("syncs of %s: spec %v, server %v", inst, w, info.Base.Syncs))
		}
	}
	// graph-neutral: the repo still is its single root version
	ob, err := s.Project()
	if err != nil {
		return nil, err
	}
	k := len(s.UUIDs)
	wantDag := dagm.State{NN: k, Par: make([][]int, k), Kids: make([][]int, k), Br: make([]string, k), Lk: make([]bool, k), Kind: make([]string, k), Rp: make([]int, k), Uid: make([]string, k)}
	for i := 0; i < k; i++ {
		wantDag.Par[i], wantDag.Kids[i], wantDag.Kind[i], wantDag.Rp[i], wantDag.Uid[i] = []int{}, []int{}, "root", i+1, "auto"
	}
	d = append(d, dagm.Diff(wantDag, ob)...)
	return d, nil
}

func c07Sync(c *Ctx, run *ev.Run) int64 {
	cfg := "SPECIFICATION SpecEmit\nCONSTANTS\n  Labels = {\"l1\", \"l2\"}\n  Annot = \"an\"\n  Sizes = \"sz\"\n  Other = \"kv\"\n  NoSuch = \"nosuch\"\nVIEW View\nINVARIANTS Inv_Typed\nPROPERTIES Act_NoNewDangling Act_RejectIsStutter\nCHECK_DEADLOCK FALSE\n"
	r := c.MustModelCheck(tlc.Opts{Module: "DvidSync_mc", Config: "gen_sync.cfg", Workers: 1,
		Files: map[string][]byte{"gen_sync.cfg": []byte(cfg)}, Timeout: 10 * time.Minute})
	var edges []syncEdge
	type sinfo struct {
		parent string
		via    syncOp
		depth  int
	}
	states := map[string]*sinfo{}
	PrintedJSON(r.Output, func(raw []byte) {
		var e syncEdge
		if json.Unmarshal(raw, &e) != nil || e.L.Op == "" {
			return
		}
		sk, tk := e.S.key(), e.T.key()
		if _, ok := states[sk]; !ok {
			states[sk] = &sinfo{}
		}
		if _, ok := states[tk]; !ok {
			states[tk] = &sinfo{parent: sk, via: e.L, depth: states[sk].depth + 1}
		}
		edges = append(edges, e)
	})
	if len(edges) == 0 {
		infra("DvidSync_mc emitted nothing:\n%s", r.Tail(1500))
	}
	pathTo := func(key string) []syncOp {
		var rev []syncOp
		for k := key; states[k].depth > 0; k = states[k].parent {
			rev = append(rev, states[k].via)
		}
		for i, j := 0, len(rev)-1; i < j; i, j = i+1, j-1 {
			rev[i], rev[j] = rev[j], rev[i]
		}
		return rev
	}
	// quick: a seeded sample of the transitions, every request kind represented
	idx := rand.New(rand.NewSource(c.Seed*31 + 5)).Perm(len(edges))
	n := c.pick(64, len(edges))
	if n > len(edges) {
		n = len(edges)
	}
	idx = idx[:n]
	workers := 12
	ws := make([]*dagWorker, workers)
	for i := range ws {
		ws[i] = &dagWorker{c: c, every: 12, cfg: node.Config{}}
	}
	defer func() {
		for _, w := range ws {
			w.close()
		}
	}()
	var nDone, nSkipped, nRestarts int64
	parallel(len(idx), workers, func(wi, ii int) {
		e := edges[idx[ii]]
		w := ws[wi]
		// with a deleted instance still listed, what an addition does is left open (see DvidSync)
		if e.L.Op == "setsync" && !e.L.Replace && len(e.L.Names) > 0 {
			if sh, ok := e.S.Shown[e.L.Inst]; ok && sh.Undefined > 0 {
				atomic.AddInt64(&nSkipped, 1)
				return
			}
		}
		s := w.sess()
		ok, st, err := s.Apply(dagm.Op{Op: "newrepo", UUID: "auto"})
		must(err, "sync: newrepo")
		if !ok {
			infra("sync: newrepo refused (%d)", st)
		}
		root := s.UUIDs[0]
		for _, inst := range []string{"l1", "l2", "an", "sz", "kv"} {
			must(s.NewInstance(1, syncTypes[inst], inst, nil), "sync: new instance")
		}
		path := pathTo(e.S.key())
		report := func(kind string, d []string) {
			run.Violation("c07-sync", c07sDivergence{Kind: kind, Path: path, Op: e.L, Source: e.S, Target: e.T, Diffs: d, Script: s.Script})
		}
		for _, op := range path {
			ok, st, err := syncApply(s, root, op)
			must(err, "sync: apply path")
			if !ok {
				report("accepted-request-refused", []string{fmt.Sprintf("%v refused with status %d on the way to the source state", op, st)})
				return
			}
		}
		d, err := syncObserve(s, root, e.S)
		must(err, "sync: observe")
		if len(d) > 0 {
			report("state-mismatch-after-path", d)
			return
		}
		ok, st, err = syncApply(s, root, e.L)
		must(err, "sync: apply")
		run.Eval(fmt.Sprintf("s|%s|%v", e.S.key(), e.L))
		d, err = syncObserve(s, root, e.T)
		must(err, "sync: observe")
		if st >= 500 {
			d = append([]string{fmt.Sprintf("answered %d", st)}, d...)
		} else if ok != e.L.Ok {
			d = append([]string{fmt.Sprintf("accepted=%v (status %d), the specification says accepted=%v", ok, st, e.L.Ok)}, d...)
		}
		if len(d) > 0 {
			report("sync-request-wrong-answer-or-state", d)
			return
		}
		clean := atomic.AddInt64(&nRestarts, 1)%2 == 0
		msg, err := restartAndCompareMetadata(s.N, clean, s)
		must(err, "sync: restart")
		if msg != "" {
			report("restart-after-sync-request-changed-metadata", []string{msg})
			w.close()
			return
		}
		d, err = syncObserve(s, root, e.T)
		must(err, "sync: observe after restart")
		if len(d) > 0 {
			report("sync-settings-changed-by-restart", append([]string{fmt.Sprintf("clean stop=%v", clean)}, d...))
			return
		}
		if atomic.AddInt64(&nDone, 1)%50 == 1 {
			run.Sample(map[string]interface{}{"sync_path": path, "request": e.L, "expected_state": e.T})
		}
	})
	run.Set("growth_sync", fmt.Sprintf("DvidSync: %d states, %d transitions (accepted and refused); replayed %d of them with a restart after each (%d skipped: addition while a deleted instance is still listed); Inv_Typed, Act_NoNewDangling, Act_RejectIsStutter",
		r.Distinct, len(edges), nDone, nSkipped))
	run.Set("growth_sync_states", r.Distinct)
	return nDone
}
