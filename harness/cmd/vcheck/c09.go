package main

// C09: the compressed label block codec is lossless and its views agree.
//
// TLC (specs/LabelBlockCodec.tla) enumerates the structural classes of label arrays named by
// the property and evaluates, for the abstract block of every class, the views (voxel count
// per label, foreground palette positions of six label sets) after checking their
// consistency claims.  Each class is expanded here into seeded concrete arrays (positions of
// the sub-blocks, 64-bit labels, block coordinate, sub-volume offsets); the node encodes
// them with labels.MakeBlock / SubvolumeToBlock, decodes, re-parses, runs every view
// function and reports the results projected onto the regions of the class, which are
// compared with the values TLC printed (and, voxel by voxel, with the block's own decoded
// volume inside the node).

import (
	"encoding/json"
	"fmt"
	"math/rand"
	"sort"
	"strings"
	"time"

	"verifharness/internal/ev"
	lg "verifharness/internal/lblgeom"
	"verifharness/internal/tlc"
)

func init() { checks["C09"] = checkC09 }

const c09OddSubBlocks = "odd-subblock-count-unaligned"

type codecClass struct {
	Name string `json:"name"` // set by the classes of the growth round (c09_growth.go): the class key
	// NoCounts: TLC did not evaluate the table of all label counts (128^3 dense class); CalcNumLabels is
	// then compared with the decoded volume only (in the node) and through the probes
	NoCounts bool `json:"nocounts"`
	Cls      struct {
		K     int  `json:"k"`
		Ki    int  `json:"ki"`
		Lay   int  `json:"lay"`
		Zero  bool `json:"zero"`
		Bgi   int  `json:"bgi"`
		Rot   int  `json:"rot"`
		Solid bool `json:"solid"`
	} `json:"cls"`
	Dims  [3]int `json:"dims"`
	Split struct {
		S int `json:"s"`
		P int `json:"p"`
		N int `json:"n"`
	} `json:"split"`
	LClass string   `json:"lclass"`
	BG     string   `json:"bg"`
	Size   []int    `json:"size"`
	Lay    []int    `json:"lay"`
	Pal    [][]int  `json:"pal"`
	Counts [][2]int `json:"counts"`
	Sets   []struct {
		Labels []int   `json:"labels"`
		Fg     [][]int `json:"fg"`
	} `json:"sets"`
	Weights [][]int `json:"weights"`
}

func (k *codecClass) key() string {
	if k.Name != "" {
		return k.Name
	}
	return fmt.Sprintf("k%d/lay%d/zero%v/bg-%s/%s/split%d.%d/%dx%dx%d/%s", k.Cls.K, k.Cls.Lay, k.Cls.Zero, k.BG,
		map[bool]string{true: "solid", false: "mixed"}[k.Cls.Solid], k.Split.S, k.Split.P, k.Dims[0], k.Dims[1], k.Dims[2], k.LClass)
}

type c09Divergence struct {
	Kind     string      `json:"kind"`
	Class    string      `json:"class"`
	Case     *lg.Case    `json:"case"`
	Expected interface{} `json:"expected,omitempty"`
	Observed interface{} `json:"observed,omitempty"`
}

func checkWeights(w [][]int) {
	if len(w) != len(lg.Corner) {
		infra("CornerWeights of the specification has %d partitions, lblgeom.Corner %d", len(w), len(lg.Corner))
	}
	for cp := range w {
		if fmt.Sprint(w[cp]) != fmt.Sprint(lg.CornerWeights(cp)) {
			infra("corner partition %d: specification %v, lblgeom %v", cp, w[cp], lg.CornerWeights(cp))
		}
	}
}

// c09Case expands one class into a concrete case.
func c09Case(k *codecClass, id, variant int, rng *rand.Rand, thorough bool) (*lg.Case, []uint64) {
	g := lg.Geometry{Size: k.Dims}
	nsb := g.NumSB()
	rich, split := 0, nsb-1
	switch variant % 3 {
	case 1:
		rich, split = nsb-1, 0
	case 2:
		rich = rng.Intn(nsb)
		split = (rich + 1 + rng.Intn(nsb-1)) % nsb
	}
	g.SBs = make([]lg.SB, nsb)
	rest := 0
	for q := 0; q < nsb; q++ {
		switch q {
		case rich:
			g.SBs[q] = lg.SB{Scheme: lg.W, Regions: []int{1}}
		case split:
			p := k.Split.P
			if k.Split.S == lg.V {
				p = rng.Intn(512)
			}
			g.SBs[q] = lg.SB{Scheme: k.Split.S, Param: p, Regions: []int{2, 3}}
		default:
			r := 4
			if k.BG == "several" && !k.Cls.Solid {
				r = 4 + rest%5
			}
			rest++
			g.SBs[q] = lg.SB{Scheme: lg.W, Regions: []int{r}}
		}
	}
	m := labelMap(k.LClass, k.Cls.K+60, rng)
	if k.LClass == "top" && len(k.Pal) > 0 {
		// place 2^64-1 where it matters structurally: as the label of the solid background
		// sub-blocks (first voxel of many sub-blocks, whole sub-blocks, and the whole block when
		// the class is solid), or as the first label of the rich sub-block's palette
		n := len(m) - 1
		var a int
		switch variant % 3 {
		case 0:
			a = k.Pal[len(k.Pal)-1][0]
		case 1:
			a = k.Pal[0][0]
		default:
			a = n
		}
		if a != n && a > 0 {
			m[n] = uint64(1)<<62 + 12345
			m[a] = ^uint64(0)
		}
	}
	c := &lg.Case{ID: id, Geom: g, Lay: k.Lay, Seed: rng.Int63(), Codec: true, Pair: variant%2 == 1}
	c.AllPoints = thorough || g.NumVoxels() <= 32768
	switch (variant + k.Cls.Ki) % 4 {
	case 1:
		c.BCoord = [3]int32{3, 1, 2}
	case 2:
		c.BCoord = [3]int32{int32(rng.Intn(1000)), int32(rng.Intn(1000)), int32(rng.Intn(1000))}
	case 3:
		c.BCoord = [3]int32{-1, -2, -65}
	}
	for _, p := range k.Pal {
		cp := make([]uint64, len(p))
		for i, a := range p {
			cp[i] = m[a]
		}
		c.Pal = append(c.Pal, cp)
	}
	for _, s := range k.Sets {
		cs := make([]uint64, len(s.Labels))
		for i, a := range s.Labels {
			cs[i] = m[a]
		}
		c.Sets = append(c.Sets, cs)
	}
	noffs := 2
	if thorough && g.NumVoxels() <= 32768 {
		noffs = 8
	}
	for _, o := range rng.Perm(8)[:noffs] {
		c.SubvolOffs = append(c.SubvolOffs, [3]int32{int32(o % 2), int32((o / 2) % 2), int32(o / 4)})
	}
	return c, m
}

func c09Compare(run *ev.Run, k *codecClass, c *lg.Case, m []uint64, o *lg.CaseObs) {
	viol := func(kind string, exp, obs interface{}) {
		run.Violation("c09", c09Divergence{Kind: kind, Class: k.key(), Case: c, Expected: exp, Observed: obs})
	}
	if o.Err != "" {
		infra("labels.run case %d: %s", c.ID, o.Err)
	}
	if fmt.Sprint(o.Sizes) != fmt.Sprint(k.Size) {
		infra("class %s: region sizes of the geometry %v differ from the specification's %v", k.key(), o.Sizes, k.Size)
	}
	if o.Panic != "" {
		viol("panic", nil, o.Panic)
		return
	}
	if o.MakeErr != "" {
		// known: blocks with an odd number of sub-blocks cannot be built (unaligned index list)
		if c.Geom.NumSB()%2 == 1 && strings.Contains(o.MakeErr, "alignment") && run.KnownActive(c09OddSubBlocks) {
			run.ReportKnown(c09OddSubBlocks)
			return
		}
		viol("MakeBlock-refused", nil, o.MakeErr)
		return
	}
	if !o.RoundTrip {
		viol("round-trip", "MakeLabelVolume(MakeBlock(a)) = a", o.Detail)
	}
	if !o.Decoded.Uniform {
		viol("decoded-atoms", nil, o.Decoded.Bad)
	} else {
		for r := range c.Pal {
			if !u64Equal(o.Decoded.Atoms[r], c.Pal[r]) {
				viol("decoded-atoms", map[string]interface{}{"region": r + 1, "palette": c.Pal[r]}, o.Decoded.Atoms[r])
				break
			}
		}
	}
	c09CompareViews(viol, run, k, c, m, o.Views)
	c09CompareGrowth(viol, run, k, c, m, o)
	for _, sv := range o.Subvols {
		if sv.Err != "" || !sv.Equal {
			viol("SubvolumeToBlock", map[string]interface{}{"block_offset": sv.Off}, sv.Err)
		}
	}
}

// c09CompareViews compares the views of one block (the fresh block, or the same labelling
// re-serialized with zero label counts) with the class.
func c09CompareViews(viol func(kind string, exp, obs interface{}), run *ev.Run, k *codecClass, c *lg.Case, m []uint64, v *lg.Views) {
	if v == nil {
		infra("case %d: no views", c.ID)
	}
	// CalcNumLabels against the specification's NumLabels
	want := make([][2]uint64, 0, len(k.Counts))
	for _, p := range k.Counts {
		want = append(want, [2]uint64{m[p[0]], uint64(p[1])})
	}
	sort.Slice(want, func(i, j int) bool { return want[i][0] < want[j][0] })
	if !k.NoCounts && fmt.Sprint(want) != fmt.Sprint(v.NumLabels) {
		viol("CalcNumLabels", want, v.NumLabels)
	}
	for name, ok := range map[string]bool{"CalcNumLabels-vs-decoded": v.NumLabelsOK, "Value": v.ValueOK, "GetPointLabels": v.PointsOK,
		"WriteLabelVolume": v.StreamOK, "Marshal-Unmarshal": v.MarshalOK} {
		if !ok {
			viol(name, "equal to the decoded volume", v.Detail)
		}
	}
	if len(v.Sets) != len(k.Sets) {
		infra("case %d: %d set observations for %d sets", c.ID, len(v.Sets), len(k.Sets))
	}
	for si, s := range k.Sets {
		exp := make([][]int, len(k.Pal))
		for r := range k.Pal {
			exp[r] = make([]int, len(k.Pal[r]))
			for _, i := range s.Fg[r] {
				exp[r][i-1] = 1
			}
		}
		so := v.Sets[si]
		masks := []struct {
			name string
			m    *lg.Mask
		}{{"WriteRLEs", &so.RLE}, {"WriteBinaryBlocks", &so.Bin}, {"WriteRLEs-two-blocks", so.PairRLE}, {"WriteBinaryBlocks-two-blocks", so.PairBin}}
		for _, mk := range masks {
			if mk.m == nil {
				continue
			}
			maskInfra(mk.m)
			if mk.m.Err != "" || !mk.m.OK {
				viol(mk.name, map[string]interface{}{"labels": c.Sets[si]}, mk.m.Err+" "+mk.m.Detail)
				continue
			}
			if fmt.Sprint(mk.m.Atoms) != fmt.Sprint(exp) {
				viol(mk.name, map[string]interface{}{"labels": c.Sets[si], "foreground": s.Fg}, mk.m.Atoms)
			}
		}
	}
}

func checkC09(c *Ctx) int {
	run := ev.NewRun("C09", c.Tier, "exploration")
	t0 := time.Now()
	rng := rand.New(rand.NewSource(c.Seed))
	maxDim, rot := 32, 1
	if c.thorough() {
		maxDim, rot = 64, 6
	}
	cfg := fmt.Sprintf("SPECIFICATION Spec\nCONSTANTS\n  MaxDim = %d\n  RotBase = %d\n  Rot = %d\nINVARIANTS ClaimsAndEmit\nCHECK_DEADLOCK FALSE\n",
		maxDim, int(c.Seed%97)*3, rot)
	r := c.MustModelCheck(tlc.Opts{Module: "LabelBlockCodec", Config: "gen_codec.cfg",
		Files: map[string][]byte{"gen_codec.cfg": []byte(cfg)}, Timeout: 15 * time.Minute, Xss: "256m"})
	var classes []*codecClass
	PrintedJSON(r.Output, func(raw []byte) {
		var k codecClass
		if err := json.Unmarshal(raw, &k); err == nil && len(k.Pal) > 0 {
			classes = append(classes, &k)
		}
	})
	if len(classes) == 0 {
		infra("LabelBlockCodec emitted nothing:\n%s", r.Tail(2000))
	}
	sort.Slice(classes, func(i, j int) bool { return classes[i].key() < classes[j].key() })
	checkWeights(classes[0].Weights)
	tTLC := since(t0)
	variants := c.pick(2, 3)
	var cases []*lg.Case
	var maps [][]uint64
	var owner []*codecClass
	for ci, k := range classes {
		for v := 0; v < variants; v++ {
			cs, m := c09Case(k, len(cases), v+ci, rng, c.thorough())
			cases = append(cases, cs)
			maps = append(maps, m)
			owner = append(owner, k)
		}
	}
	// ---- growth: probes / outside points on the class table's cases, the dense classes, bounds for every case
	c09GrowthInit()
	for i := range cases {
		c09CodecGrowth(owner[i], cases[i], maps[i], rng)
	}
	tD := time.Now()
	dense, rDense := c09DenseClasses(c)
	tDense := since(tD)
	nCodecCases := len(cases)
	for di, dk := range dense {
		for v := 0; v < 2; v++ {
			cs, m := c09DenseCase(dk, len(cases), v+di, rng, c.thorough())
			cases = append(cases, cs)
			maps = append(maps, m)
			owner = append(owner, &dk.codecClass)
		}
	}
	bStates, _ := c09AssignBounds(c, cases, c.pick(2, 3))
	tTLC += tDense
	// big blocks last and small batches: balance the workers
	pool := newLblPool(c, 16)
	defer pool.close()
	obs := pool.runCases(cases, 4)
	var points, sparse, subvols int
	bits := map[int]bool{}
	dims := map[[3]int]bool{}
	for i := range cases {
		c09Compare(run, owner[i], cases[i], maps[i], &obs[i])
		run.Eval(owner[i].key())
		if obs[i].Views != nil {
			points += obs[i].Views.NPoints
			sparse += len(obs[i].Views.Sets) * 2
			if cases[i].Pair {
				sparse += len(obs[i].Views.Sets) * 2
			}
		}
		subvols += len(obs[i].Subvols)
		b := 0
		for n := owner[i].Cls.K - 1; n > 0; n >>= 1 {
			b++
		}
		bits[b] = true
		dims[owner[i].Dims] = true
	}
	run.Sample(map[string]interface{}{"class": classes[len(classes)/3].key(), "regions": classes[len(classes)/3].Size,
		"counts_expected_by_TLC": len(classes[len(classes)/3].Counts), "case_geometry_subblocks": len(cases[len(cases)/3].Geom.SBs)})
	run.Sample(map[string]interface{}{"class": classes[0].key(), "expected_counts": classes[0].Counts, "label_sets": classes[0].Sets[2].Labels})
	run.Set("classes_enumerated_by_TLC", len(classes))
	run.Set("tlc_states", r.Distinct+rDense.Distinct+bStates)
	c09GrowthEvidence(run, len(dense), len(cases)-nCodecCases, tDense)
	run.Set("arrays", len(cases))
	run.Set("points_compared", points)
	run.Set("sparse_outputs_compared", sparse)
	run.Set("subvolume_conversions", subvols)
	run.Set("index_bit_widths_covered", len(bits))
	run.Set("block_shapes_covered", len(dims))
	run.Set("tlc_s", tTLC)
	run.Set("rule", "evaluation = one concrete label array (a class of the TLC-generated table LabelBlockCodec.tla expanded with seeded sub-block positions, 64-bit label values, block coordinate, sub-volume offsets) taken through MakeBlock -> MakeLabelVolume (byte identity), Marshal/UnmarshalBinary, WriteLabelVolume, Value and GetPointLabels on every voxel, CalcNumLabels, WriteRLEs and WriteBinaryBlocks for six label sets (one block and two x-adjacent blocks), SubvolumeToBlock at block offsets of a 2x2x2 grid; expected label counts and foreground sets come from TLC at region granularity, voxel-level agreement with the decoded volume is checked in the node. Growth: the dense classes of LabelBlockDense.tla (every sub-block its own palette size, every ordered pair of index widths 0..9 adjacent - checked by TLC -, shared labels, label 0 inside palettes) go through the same views; every array additionally gets non-empty dvid.Bounds from the class table of LabelBlockBounds.tla (TLC computes the box, the blocks passing the block-level screen and the voxel cut per block; exact bounds must give exactly the label set's voxels inside the cut, inexact bounds and binary blocks something between that and the whole foreground of the passing blocks), ReplaceLabel probes whose returned count (getNumVoxels) must be TLC's voxel count, points outside the block (label 0), and - dense classes with all-zero sub-blocks - the block re-serialized by hand with NumSBLabels = 0 for those sub-blocks, on which every view must show the unchanged labelling unless UnmarshalBinary refuses it. distinct_nontrivial = distinct classes (palette size x layout x label-0 x background x block shape x split kind x label magnitude class; dense class) + distinct (class, bounds class)")
	run.Assume = []string{"the for-all over array contents is explored through the class table (every palette size on both sides of each index bit width up to 9 bits, three layouts, label 0 in/out of the palette, four backgrounds, ten split shapes, block shapes from {16,32,64}^3) and seeded expansion, not exhaustively",
		"block sizes above 64 per axis are exercised by ten dense classes of the thorough tier only (64^3, 128^3, 16x1024x16, 32x64x32)",
		"bounded sparse views are given only the blocks that pass the block-level screen (as labelmap does); inexact bounds and binary blocks are judged as supersets of the cut, subsets of the foreground"}
	fmt.Printf("C09: %d classes from TLC (%.1fs), %d arrays, %d points, %d sparse outputs, %d sub-volume conversions in %.1fs; violations=%d\n",
		len(classes), tTLC, len(cases), points, sparse, subvols, since(t0), run.Violations())
	return run.Finish()
}
