package main

// Endpoint implementations for the hostile driver (C20): for every endpoint of the table in
// specs/Hostile.tla a valid request (method, URL with typed parameters, payload document).

import (
	"encoding/binary"
	"fmt"
	"math/rand"
	"strings"

	"github.com/janelia-flyem/dvid/datatype/common/labels"
	"github.com/janelia-flyem/dvid/dvid"
)

type c20Req struct {
	Method string
	URL    string
	Body   []byte
}

// c20EP is the harness side of one endpoint.
type c20EP struct {
	name   string
	method string
	// params returns the valid URL parameters (in the order of the specification's url fields)
	params func(w *c20World, rng *rand.Rand) []string
	// url builds the URL from (possibly mutated) parameters
	url func(w *c20World, p []string) string
	bin func(w *c20World, rng *rand.Rand) *bnode
	js  func(w *c20World, rng *rand.Rand) *jnode
	// wrap post-processes the encoded body (e.g. nothing); query options live in url
	okStatus []int // statuses a valid request may get (default 200)
}

func noParams(w *c20World, rng *rand.Rand) []string { return nil }

func nodeURL(inst, rest string) func(w *c20World, p []string) string {
	return func(w *c20World, p []string) string {
		s := rest
		for i, v := range p {
			s = strings.ReplaceAll(s, fmt.Sprintf("{%d}", i), v)
		}
		return "/api/node/" + w.a + "/" + inst + "/" + s
	}
}

// --- label blocks -----------------------------------------------------------------

// blockTree parses a marshaled labels.Block into its structural fields.
func blockTree(b []byte) []*bnode {
	gx := binary.LittleEndian.Uint32(b[0:4])
	gy := binary.LittleEndian.Uint32(b[4:8])
	gzz := binary.LittleEndian.Uint32(b[8:12])
	nl := binary.LittleEndian.Uint32(b[12:16])
	out := []*bnode{
		bleaf("gx", "dim", "u32", b[0:4]), bleaf("gy", "dim", "u32", b[4:8]), bleaf("gz", "dim", "u32", b[8:12]),
		bleaf("nlabels", "cnt", "u32", b[12:16]),
		bleaf("labels", "lbl", "u64s", b[16:16+nl*8]),
	}
	if nl <= 1 {
		return out
	}
	pos := 16 + nl*8
	nsb := gx * gy * gzz
	nsbB := b[pos : pos+nsb*2]
	var nidx uint32
	for i := uint32(0); i < nsb; i++ {
		nidx += uint32(binary.LittleEndian.Uint16(nsbB[i*2:]))
	}
	pos += nsb * 2
	idx := bleaf("sbidx", "idx", "u32s", b[pos:pos+nidx*4])
	idx.Table = int(nl)
	out = append(out, bleaf("nsb", "cnt", "u16s", nsbB), idx, bleaf("sbvals", "blob", "raw", b[pos+nidx*4:]))
	return out
}

func blockRecord(bx, by, bz int32, blk *labels.Block) *bnode {
	ser, err := blk.MarshalBinary()
	must(err, "marshal block")
	body := bgz("zbody", blockTree(ser)...)
	return bgroup(
		bleaf("bx", "coord", "i32", le32(uint32(bx))), bleaf("by", "coord", "i32", le32(uint32(by))), bleaf("bz", "coord", "i32", le32(uint32(bz))),
		blen("nbytes", "u32", body), body)
}

// blockStream: two multi-label blocks and one solid block at unwritten block coordinates.
func blockStream(w *c20World, rng *rand.Rand) *bnode {
	bs := dvid.Point3d{c20BS, c20BS, c20BS}
	mk := func(l0 uint64, pattern int) *labels.Block {
		k := 2 + rng.Intn(4)
		cut := 4 + rng.Intn(24)
		vol := c20Volume(c20BS, c20BS, c20BS, func(x, y, z int) uint64 {
			switch pattern {
			case 0:
				if x < cut {
					return l0
				}
				return l0 + 1 + uint64((y/8+z/8)%k)
			default:
				return l0 + uint64((x/4+y/8+z/16)%k)
			}
		})
		b, err := labels.MakeBlock(vol, bs)
		must(err, "MakeBlock")
		return b
	}
	return bgroup(
		blockRecord(2, 0, 0, mk(11, 0)),
		blockRecord(3, 0, 0, mk(21, 1)),
		blockRecord(2, 1, 0, labels.MakeSolidBlock(31, bs)))
}

// --- sparse volumes ---------------------------------------------------------------

func rlePayload(spans [][4]int32) *bnode {
	kids := []*bnode{
		bleaf("enc", "hdr", "u8", []byte{0}), bleaf("ndims", "hdr", "u8", []byte{3}), bleaf("rundim", "hdr", "u8", []byte{0}),
		bleaf("reserved", "hdr", "u8", []byte{0}), bleaf("nvoxels", "hdr", "u32", le32(0)),
		bleaf("nspans", "cnt", "u32", le32(uint32(len(spans)))),
	}
	for _, s := range spans {
		kids = append(kids, bleaf("x", "coord", "i32", le32(uint32(s[0]))), bleaf("y", "coord", "i32", le32(uint32(s[1]))),
			bleaf("z", "coord", "i32", le32(uint32(s[2]))), bleaf("run", "run", "i32", le32(uint32(s[3]))))
	}
	return bgroup(kids...)
}

// --- protobuf ---------------------------------------------------------------------

func pbTag(name string, field, wire int) *bnode {
	return bleaf(name, "tag", "u8", []byte{byte(field<<3 | wire)})
}

func pbSVCount(sv uint64, n uint64) *bnode {
	content := bgroup(pbTag("cnt.ktag", 1, 0), bleaf("cnt.key", "lbl", "varint", varint(sv)),
		pbTag("cnt.vtag", 2, 0), bleaf("cnt.val", "vint", "varint", varint(n)))
	return bgroup(pbTag("cnt.tag", 1, 2), blen("cnt.len", "varint", content), content)
}

func pbBlockEntry(bx, by, bz int32, a, b [2]uint64) *bnode {
	svc := bgroup(pbSVCount(a[0], a[1]), pbSVCount(b[0], b[1]))
	content := bgroup(pbTag("blk.ktag", 1, 0), bleaf("blk.key", "vint", "varint", varint(labels.EncodeBlockIndex(bx, by, bz))),
		pbTag("blk.vtag", 2, 2), blen("blk.vlen", "varint", svc), svc)
	return bgroup(pbTag("blk.tag", 1, 2), blen("blk.len", "varint", content), content)
}

func pbIndex(label uint64, rng *rand.Rand) *bnode {
	user := bleaf("user", "blob", "raw", []byte("hostile-user"))
	return bgroup(
		pbBlockEntry(0, 0, 1, [2]uint64{label, 30000}, [2]uint64{label + 100, 2768}),
		pbBlockEntry(0, 1, 1, [2]uint64{label, 32000}, [2]uint64{label + 100, 768}),
		pbTag("label.tag", 2, 0), bleaf("label", "lbl", "varint", varint(label)),
		pbTag("mutid.tag", 3, 0), bleaf("mutid", "vint", "varint", varint(uint64(1000+rng.Intn(1000)))),
		pbTag("user.tag", 5, 2), blen("user.len", "varint", user), user)
}

func pbMappingOp(mutid, mapped, o1, o2 uint64) *bnode {
	orig := bgroup(bleaf("orig.1", "lbl", "varint", varint(o1)), bleaf("orig.2", "lbl", "varint", varint(o2)))
	content := bgroup(pbTag("mutid.tag", 1, 0), bleaf("mutid", "vint", "varint", varint(mutid)),
		pbTag("mapped.tag", 2, 0), bleaf("mapped", "lbl", "varint", varint(mapped)),
		pbTag("orig.tag", 3, 2), blen("orig.len", "varint", orig), orig)
	return bgroup(pbTag("op.tag", 1, 2), blen("op.len", "varint", content), content)
}

func pbKeyValue(k string, v []byte) *bnode {
	kb := bleaf("key", "blob", "raw", []byte(k))
	vb := bleaf("val", "blob", "raw", v)
	content := bgroup(pbTag("key.tag", 1, 2), blen("key.len", "varint", kb), kb, pbTag("val.tag", 2, 2), blen("val.len", "varint", vb), vb)
	return bgroup(pbTag("kv.tag", 1, 2), blen("kv.len", "varint", content), content)
}

// --- JSON -------------------------------------------------------------------------

func jpt(name string, x, y, z int) *jnode {
	return jlist(name, jint(name+".x", int64(x)), jint(name+".y", int64(y)), jint(name+".z", int64(z)))
}

func jelement(x, y, z int, kind, tag, rel string, to [3]int) *jnode {
	return jobj("elem",
		jpt("Pos", x, y, z).key("Pos"),
		jstr("Kind", kind).key("Kind"),
		jlist("Tags", jstr("Tags.1", tag)).key("Tags"),
		jobj("Prop", jstr("Prop.conf", "0.5").key("conf")).key("Prop"),
		jlist("Rels", jobj("Rels.1", jstr("Rel", rel).key("Rel"), jpt("To", to[0], to[1], to[2]).key("To"))).key("Rels"))
}

func jlabels(ls ...uint64) *jnode {
	n := jlist("root")
	for _, l := range ls {
		n.Kids = append(n.Kids, jint("label", int64(l)))
	}
	return n
}

func c20Endpoints() map[string]*c20EP {
	bsz := fmt.Sprintf("%d_%d_%d", c20BS, c20BS, c20BS)
	vol3 := func(off string) func(w *c20World, rng *rand.Rand) []string {
		return func(w *c20World, rng *rand.Rand) []string { return []string{"0_1_2", bsz, off} }
	}
	labelParam := func(l uint64) func(w *c20World, rng *rand.Rand) []string {
		return func(w *c20World, rng *rand.Rand) []string { return []string{fmt.Sprint(l)} }
	}
	eps := []*c20EP{
		{name: "lm.blocks", method: "POST", params: noParams, url: nodeURL("lm", "blocks"), bin: blockStream},
		{name: "lmi.ingest", method: "POST", params: noParams, url: nodeURL("lmi", "ingest-supervoxels"), bin: blockStream},
		{name: "lm.raw", method: "POST", params: vol3("64_32_0"), url: nodeURL("lm", "raw/{0}/{1}/{2}"),
			bin: func(w *c20World, rng *rand.Rand) *bnode {
				l := uint64(40 + rng.Intn(5))
				return bgroup(bleaf("voxels", "blob", "raw", c20Volume(c20BS, c20BS, c20BS, func(x, y, z int) uint64 { return l + uint64(x/16) })))
			}},
		{name: "lm.rawgz", method: "POST", params: noParams, url: nodeURL("lm", "raw/0_1_2/"+bsz+"/96_32_0?compression=gzip"),
			bin: func(w *c20World, rng *rand.Rand) *bnode {
				l := uint64(50 + rng.Intn(5))
				return bgz("zbody", bleaf("voxels", "blob", "raw", c20Volume(c20BS, c20BS, c20BS, func(x, y, z int) uint64 { return l + uint64(y/16) })))
			}},
		{name: "gray.raw", method: "POST", params: vol3("64_32_0"), url: nodeURL("gray", "raw/{0}/{1}/{2}"),
			bin: func(w *c20World, rng *rand.Rand) *bnode {
				return bgroup(bleaf("voxels", "blob", "raw", c20Gray(c20BS, c20BS, c20BS, rng.Intn(100))))
			}},
		{name: "lm.split", method: "POST", params: labelParam(1), url: nodeURL("lm", "split/{0}"),
			bin: func(w *c20World, rng *rand.Rand) *bnode {
				return rlePayload([][4]int32{{0, 0, int32(rng.Intn(8)), 8}, {0, 1, 3, 8}, {32, 2, 5, 8}})
			}},
		{name: "lm.splitsv", method: "POST", params: labelParam(3), url: nodeURL("lm", "split-supervoxel/{0}"),
			bin: func(w *c20World, rng *rand.Rand) *bnode {
				return rlePayload([][4]int32{{0, 32, int32(rng.Intn(8)), 8}, {0, 33, 3, 8}, {32, 34, 5, 8}})
			}},
		{name: "lm.index", method: "POST", params: labelParam(5), url: nodeURL("lm", "index/{0}"),
			bin: func(w *c20World, rng *rand.Rand) *bnode { return pbIndex(5, rng) }},
		{name: "lm.indices", method: "POST", params: noParams, url: nodeURL("lm", "indices"),
			bin: func(w *c20World, rng *rand.Rand) *bnode {
				idx := pbIndex(6, rng)
				return bgroup(pbTag("idx.tag", 1, 2), blen("idx.len", "varint", idx), idx)
			}},
		{name: "lm.mappings", method: "POST", params: noParams, url: nodeURL("lm", "mappings"),
			bin: func(w *c20World, rng *rand.Rand) *bnode {
				return bgroup(pbMappingOp(uint64(2000+rng.Intn(100)), 1, 2, 61), pbMappingOp(uint64(2100+rng.Intn(100)), 3, 4, 62))
			}},
		{name: "lm.merge", method: "POST", params: noParams, url: nodeURL("lm", "merge"),
			js: func(w *c20World, rng *rand.Rand) *jnode { return jlabels(1, 2, 4) }},
		{name: "lm.cleave", method: "POST", params: labelParam(5), url: nodeURL("lm", "cleave/{0}"),
			js: func(w *c20World, rng *rand.Rand) *jnode { return jlabels(6) }},
		{name: "lm.renumber", method: "POST", params: noParams, url: nodeURL("lm", "renumber"),
			js: func(w *c20World, rng *rand.Rand) *jnode { return jlabels(uint64(900+rng.Intn(50)), 3) }},
		{name: "lm.getlabels", method: "GET", params: noParams, url: nodeURL("lm", "labels"),
			js: func(w *c20World, rng *rand.Rand) *jnode {
				return jlist("root", jpt("pt1", rng.Intn(64), rng.Intn(64), rng.Intn(64)), jpt("pt2", 40, 40, 40))
			}},
		{name: "lm.getmapping", method: "GET", params: noParams, url: nodeURL("lm", "mapping"),
			js: func(w *c20World, rng *rand.Rand) *jnode { return jlabels(6, 2) }},
		{name: "lm.getsizes", method: "GET", params: noParams, url: nodeURL("lm", "sizes"),
			js: func(w *c20World, rng *rand.Rand) *jnode { return jlabels(1, 5) }},
		{name: "lm.getindices", method: "GET", params: noParams, url: nodeURL("lm", "indices"),
			js: func(w *c20World, rng *rand.Rand) *jnode { return jlabels(1, 5) }},
		{name: "ann.elements", method: "POST", params: noParams, url: nodeURL("ann", "elements"),
			js: func(w *c20World, rng *rand.Rand) *jnode {
				x := 3 + rng.Intn(10)
				return jlist("root",
					jelement(x, 5, 6, "PostSyn", "t1", "PostSynTo", [3]int{x + 14, 5, 6}),
					jelement(x+14, 5, 6, "PreSyn", "t2", "PreSynTo", [3]int{x, 5, 6}))
			}},
		{name: "ann.blocks", method: "POST", params: noParams, url: nodeURL("ann", "blocks"),
			js: func(w *c20World, rng *rand.Rand) *jnode {
				el := jlist("elems", jelement(70+rng.Intn(10), 10, 10, "PostSyn", "t1", "PostSynTo", [3]int{90, 10, 10}))
				el.Key = "2,0,0"
				el.KeyF = &jnode{Name: "blockkey", Kind: "jkey"}
				return jobj("root", el)
			}},
		{name: "kv.key", method: "POST", params: func(w *c20World, rng *rand.Rand) []string { return []string{"t2"} }, url: nodeURL("kv", "key/{0}"),
			bin: func(w *c20World, rng *rand.Rand) *bnode {
				v := make([]byte, 20+rng.Intn(200))
				rng.Read(v)
				return bgroup(bleaf("value", "rest", "raw", v))
			}},
		{name: "kv.keyvalues", method: "POST", params: noParams, url: nodeURL("kv", "keyvalues"),
			bin: func(w *c20World, rng *rand.Rand) *bnode {
				return bgroup(pbKeyValue("t3", []byte(fmt.Sprintf("value %d", rng.Intn(1000)))), pbKeyValue("t4", []byte("another value")))
			}},
		{name: "nj.key", method: "POST", params: labelParam(1002), url: nodeURL("nj", "key/{0}?u=hostile"),
			js: func(w *c20World, rng *rand.Rand) *jnode {
				return jobj("root", jint("bodyid", 1002).key("bodyid"), jstr("type", "KC").key("type"), jstr("status", "Traced").key("status"),
					jlist("soma", jint("soma.x", 1), jint("soma.y", 2), jint("soma.z", int64(rng.Intn(9)))).key("soma"), jint("syn", int64(rng.Intn(50))).key("syn"))
			}},
		{name: "nj.keyvalues", method: "POST", params: noParams, url: nodeURL("nj", "keyvalues?u=hostile"),
			bin: func(w *c20World, rng *rand.Rand) *bnode {
				return bgroup(pbKeyValue("1003", []byte(fmt.Sprintf(`{"bodyid":1003,"type":"KC","syn":%d}`, rng.Intn(50)))),
					pbKeyValue("1004", []byte(`{"bodyid":1004,"status":"Anchor"}`)))
			}},
		{name: "nj.query", method: "POST", params: noParams, url: nodeURL("nj", "query"),
			js: func(w *c20World, rng *rand.Rand) *jnode {
				return jobj("root", jstr("type", "KC").key("type"), jint("syn", int64(rng.Intn(7))).key("syn"),
					jlist("status", jstr("status.1", "Traced")).key("status"))
			}},
		{name: "roi.roi", method: "POST", params: noParams, url: nodeURL("roi", "roi"),
			js: func(w *c20World, rng *rand.Rand) *jnode {
				sp := func(z, y, x0, x1 int) *jnode {
					return jlist("span", jint("span.z", int64(z)), jint("span.y", int64(y)), jint("span.x0", int64(x0)), jint("span.x1", int64(x1)))
				}
				return jlist("root", sp(rng.Intn(3), 0, 0, 2), sp(1, 1, 1, 1+rng.Intn(3)))
			}},
		{name: "roi.ptquery", method: "POST", params: noParams, url: nodeURL("roi", "ptquery"),
			js: func(w *c20World, rng *rand.Rand) *jnode {
				return jlist("root", jpt("pt1", rng.Intn(64), rng.Intn(64), rng.Intn(64)), jpt("pt2", 40, 40, 40))
			}},
		{name: "repo.instance", method: "POST", params: noParams,
			url: func(w *c20World, p []string) string { return "/api/repo/" + w.a + "/instance" },
			js: func(w *c20World, rng *rand.Rand) *jnode {
				w.ninst++
				return jobj("root", jstr("typename", "labelmap").key("typename"), jstr("dataname", fmt.Sprintf("h%d", w.ninst)).key("dataname"),
					jstr("BlockSize", "32,32,32").key("BlockSize"), jstr("VoxelSize", "8,8,8").key("VoxelSize"))
			}},
		// ---- URL only
		{name: "lm.getraw", method: "GET", params: vol3("0_0_0"), url: nodeURL("lm", "raw/{0}/{1}/{2}")},
		{name: "lm.getblocks", method: "GET", params: func(w *c20World, rng *rand.Rand) []string { return []string{bsz, "0_0_0"} }, url: nodeURL("lm", "blocks/{0}/{1}")},
		{name: "lm.getslice", method: "GET", params: func(w *c20World, rng *rand.Rand) []string { return []string{"0_1", "48_40", "3_4_5"} }, url: nodeURL("lm", "raw/{0}/{1}/{2}")},
		{name: "lm.getlabel", method: "GET", params: func(w *c20World, rng *rand.Rand) []string { return []string{"8_9_10"} }, url: nodeURL("lm", "label/{0}")},
		{name: "lm.sparsevol", method: "GET", params: labelParam(1), url: nodeURL("lm", "sparsevol/{0}")},
		{name: "lm.sparsevolcoarse", method: "GET", params: labelParam(1), url: nodeURL("lm", "sparsevol-coarse/{0}")},
		{name: "lm.sparsevolsize", method: "GET", params: labelParam(1), url: nodeURL("lm", "sparsevol-size/{0}")},
		{name: "lm.sparsevolbypoint", method: "GET", params: func(w *c20World, rng *rand.Rand) []string { return []string{"8_9_10"} }, url: nodeURL("lm", "sparsevol-by-point/{0}")},
		{name: "lm.size", method: "GET", params: labelParam(1), url: nodeURL("lm", "size/{0}")},
		{name: "lm.supervoxels", method: "GET", params: labelParam(5), url: nodeURL("lm", "supervoxels/{0}")},
		{name: "lm.getindex", method: "GET", params: labelParam(1), url: nodeURL("lm", "index/{0}")},
		{name: "lm.lastmod", method: "GET", params: labelParam(5), url: nodeURL("lm", "lastmod/{0}")},
		{name: "lm.listlabels", method: "GET", params: func(w *c20World, rng *rand.Rand) []string { return []string{"1", "10"} }, url: nodeURL("lm", "listlabels?start={0}&number={1}")},
		{name: "lm.scale", method: "GET", params: func(w *c20World, rng *rand.Rand) []string { return []string{"0"} }, url: nodeURL("lm", "raw/0_1_2/"+bsz+"/0_0_0?scale={0}")},
		{name: "lm.specificblocks", method: "GET", params: func(w *c20World, rng *rand.Rand) []string { return []string{"0,0,0"} }, url: nodeURL("lm", "specificblocks?blocks={0}")},
		{name: "lm.setnextlabel", method: "POST", params: labelParam(70000), url: nodeURL("lm", "set-nextlabel/{0}")},
		{name: "gray.getraw", method: "GET", params: vol3("0_0_0"), url: nodeURL("gray", "raw/{0}/{1}/{2}")},
		{name: "gray.getslice", method: "GET", params: func(w *c20World, rng *rand.Rand) []string { return []string{"0_1", "48_40", "3_4_5"} }, url: nodeURL("gray", "raw/{0}/{1}/{2}")},
		{name: "gray.getblocks", method: "GET", params: func(w *c20World, rng *rand.Rand) []string { return []string{"0_0_0", "2"} }, url: nodeURL("gray", "blocks/{0}/{1}")},
		{name: "gray.subvolblocks", method: "GET", params: func(w *c20World, rng *rand.Rand) []string { return []string{bsz, "0_0_0"} }, url: nodeURL("gray", "subvolblocks/{0}/{1}")},
		{name: "gray.specificblocks", method: "GET", params: func(w *c20World, rng *rand.Rand) []string { return []string{"0,0,0"} }, url: nodeURL("gray", "specificblocks?blocks={0}")},
		{name: "ann.getelements", method: "GET", params: func(w *c20World, rng *rand.Rand) []string { return []string{"64_64_64", "0_0_0"} }, url: nodeURL("ann", "elements/{0}/{1}")},
		{name: "ann.getblocks", method: "GET", params: func(w *c20World, rng *rand.Rand) []string { return []string{"64_64_64", "0_0_0"} }, url: nodeURL("ann", "blocks/{0}/{1}")},
		{name: "ann.getlabel", method: "GET", params: labelParam(1), url: nodeURL("ann", "label/{0}")},
		{name: "ann.gettag", method: "GET", params: func(w *c20World, rng *rand.Rand) []string { return []string{"t1"} }, url: nodeURL("ann", "tag/{0}")},
		{name: "ann.delete", method: "DELETE", params: func(w *c20World, rng *rand.Rand) []string { return []string{"40_40_10"} }, url: nodeURL("ann", "element/{0}")},
		{name: "ann.move", method: "POST", params: func(w *c20World, rng *rand.Rand) []string { return []string{"40_40_10", "41_41_11"} }, url: nodeURL("ann", "move/{0}/{1}")},
		{name: "kv.getkey", method: "GET", params: func(w *c20World, rng *rand.Rand) []string { return []string{"t1"} }, url: nodeURL("kv", "key/{0}")},
		{name: "kv.keyrange", method: "GET", params: func(w *c20World, rng *rand.Rand) []string { return []string{"a", "z"} }, url: nodeURL("kv", "keyrange/{0}/{1}")},
		{name: "nj.getkey", method: "GET", params: labelParam(1001), url: nodeURL("nj", "key/{0}")},
		{name: "roi.mask", method: "GET", params: vol3("0_0_0"), url: nodeURL("roi", "mask/{0}/{1}/{2}")},
		{name: "roi.partition", method: "GET", params: func(w *c20World, rng *rand.Rand) []string { return []string{"2"} }, url: nodeURL("roi", "partition?batchsize={0}")},
		{name: "lm.proximity", method: "GET", params: func(w *c20World, rng *rand.Rand) []string { return []string{"1", "2"} }, url: nodeURL("lm", "proximity/{0}/{1}")},
		{name: "lm.history", method: "GET", params: func(w *c20World, rng *rand.Rand) []string { return []string{"5", w.root, w.a} }, url: nodeURL("lm", "history/{0}/{1}/{2}")},
		{name: "lm.supervoxelsizes", method: "GET", params: labelParam(5), url: nodeURL("lm", "supervoxel-sizes/{0}")},
		{name: "lm.sparsevolscoarse", method: "GET", params: func(w *c20World, rng *rand.Rand) []string { return []string{"1", "6"} }, url: nodeURL("lm", "sparsevols-coarse/{0}/{1}")},
		{name: "lm.pseudocolor", method: "GET", params: func(w *c20World, rng *rand.Rand) []string { return []string{"0_1", "48_40", "3_4_5"} }, url: nodeURL("lm", "pseudocolor/{0}/{1}/{2}")},
		{name: "lm.isotropic", method: "GET", params: func(w *c20World, rng *rand.Rand) []string { return []string{"0_1", "48_40", "3_4_5"} }, url: nodeURL("lm", "isotropic/{0}/{1}/{2}")},
		{name: "gray.arb", method: "GET", params: func(w *c20World, rng *rand.Rand) []string { return []string{"2_2_2", "40_2_2", "2_30_20", "1"} }, url: nodeURL("gray", "arb/{0}/{1}/{2}/{3}")},
		{name: "kv.keyrangevalues", method: "GET", params: func(w *c20World, rng *rand.Rand) []string { return []string{"a", "z"} }, url: nodeURL("kv", "keyrangevalues/{0}/{1}?json=true")},
		{name: "kv.getkeyvalues", method: "GET", params: noParams, url: nodeURL("kv", "keyvalues?json=true"),
			js: func(w *c20World, rng *rand.Rand) *jnode { return jlist("root", jstr("key", "c1"), jstr("key", "t1")) }},
		{name: "kv.tags", method: "POST", params: noParams, url: nodeURL("kv", "tags"),
			js: func(w *c20World, rng *rand.Rand) *jnode {
				return jobj("root", jstr("owner", fmt.Sprintf("o%d", rng.Intn(100))).key("owner"), jstr("type", "meshes").key("type"))
			}},
		{name: "node.commit", method: "POST", params: noParams,
			url: func(w *c20World, p []string) string { return "/api/node/" + w.a + "/commit" },
			js: func(w *c20World, rng *rand.Rand) *jnode {
				return jobj("root", jstr("note", "hostile commit").key("note"), jlist("log", jstr("log.1", "entry")).key("log"))
			}},
		{name: "node.branch", method: "POST", params: noParams,
			url: func(w *c20World, p []string) string { return "/api/node/" + w.v1 + "/branch" },
			js: func(w *c20World, rng *rand.Rand) *jnode {
				w.ninst++
				return jobj("root", jstr("branch", fmt.Sprintf("hb%d", w.ninst)).key("branch"), jstr("note", "hostile branch").key("note"))
			}},
		{name: "node.uuid", method: "GET", params: func(w *c20World, rng *rand.Rand) []string { return []string{w.a} },
			url: func(w *c20World, p []string) string { return "/api/node/" + p[0] + "/kv/key/c1" }},
	}
	m := map[string]*c20EP{}
	for _, e := range eps {
		m[e.name] = e
	}
	for _, e := range c20EndpointsMore() {
		if m[e.name] != nil {
			infra("endpoint %s is implemented twice", e.name)
		}
		m[e.name] = e
	}
	return m
}
