package main

import (
	"encoding/json"
	"fmt"
	"math/rand"
	"sort"
	"strings"
	"sync/atomic"
	"time"

	"verifharness/internal/dagm"
	"verifharness/internal/ev"
	"verifharness/internal/node"
	"verifharness/internal/tlc"
)

func init() { checks["C19"] = checkC19 }

// copyShape is one line printed by KVCopy.EmitCopy.
type copyShape struct {
	Par    [][]int `json:"par"`
	Read   [][]int `json:"read"`   // [placement][node-1]: node whose value a read of the source finds, 0 not found, -1 conflict
	Desc   [][]int `json:"desc"`   // [V-1][w-1] = 1 iff w = V or w descends from V
	Built  []int   `json:"built"`  // [placement] = 1 iff no write/deletion happens where the datum is in conflict
	Strict []int   `json:"strict"` // [placement] = 1 iff no two unsuperseded entries (values or deletions) ever meet
}

func emitCopyShapes(c *Ctx, n int) ([]copyShape, *tlc.Result) {
	cfg := fmt.Sprintf("SPECIFICATION Spec\nCONSTANTS\n  N = %d\n  MaxParents = 3\n  LastMergeOnly = FALSE\n  LastFoundBug = FALSE\n"+
		"INVARIANTS Inv_C19_Plain Inv_C19_Flat Inv_C19_AbsentTombNoop EmitCopy\nCHECK_DEADLOCK FALSE\n", n)
	r := c.MustModelCheck(tlc.Opts{Module: "KVCopy", Config: "gen_copy.cfg",
		Files: map[string][]byte{"gen_copy.cfg": []byte(cfg)}, Timeout: 60 * time.Minute, HeapGB: 12})
	var out []copyShape
	PrintedJSON(r.Output, func(raw []byte) {
		var s copyShape
		if err := json.Unmarshal(raw, &s); err == nil && len(s.Par) == n && len(s.Desc) == n && len(s.Strict) == len(s.Read) && len(s.Built) == len(s.Read) {
			out = append(out, s)
		}
	})
	if len(out) == 0 {
		infra("KVCopy emitted nothing:\n%s", r.Tail(2000))
	}
	sort.Slice(out, func(i, j int) bool { return fmt.Sprint(out[i].Par) < fmt.Sprint(out[j].Par) })
	return out, r
}

// c19Type adapts one datatype: datum j of an instance holds "the value written at node k"
// or nothing.
type c19Type struct {
	name     string
	typename string
	config   map[string]string
	canDel   bool
	write    func(n *node.Node, uuid, inst string, j, k int) error
	del      func(n *node.Node, uuid, inst string, j int) error
	// read returns, for each datum, the node whose value is read (0 nothing, -1 error) and
	// the raw observations
	read func(n *node.Node, uuid, inst string, nd int, listing bool) ([]int, string, error)
}

func okStatus(r node.Resp, err error, what string) error {
	if err != nil {
		return err
	}
	if r.Status != 200 {
		return fmt.Errorf("%s: %d %s", what, r.Status, r.Bytes())
	}
	return nil
}

var c19KV = &c19Type{name: "kv", typename: "keyvalue", canDel: true,
	write: func(n *node.Node, u, inst string, j, k int) error {
		r, err := n.HTTP("POST", fmt.Sprintf("/api/node/%s/%s/key/d%d", u, inst, j), []byte(fmt.Sprintf("v%d", k)))
		return okStatus(r, err, "POST key")
	},
	del: func(n *node.Node, u, inst string, j int) error {
		r, err := n.HTTP("DELETE", fmt.Sprintf("/api/node/%s/%s/key/d%d", u, inst, j), nil)
		return okStatus(r, err, "DELETE key")
	},
	read: func(n *node.Node, u, inst string, nd int, listing bool) ([]int, string, error) {
		out := make([]int, nd)
		var obs []string
		var found []string
		for j := 0; j < nd; j++ {
			r, err := n.HTTP("GET", fmt.Sprintf("/api/node/%s/%s/key/d%d", u, inst, j), nil)
			if err != nil {
				return nil, "", err
			}
			switch {
			case r.Status == 404:
				out[j] = 0
			case r.Status == 200:
				var k int
				if _, e := fmt.Sscanf(string(r.Bytes()), "v%d", &k); e != nil || k <= 0 {
					out[j] = -2
					obs = append(obs, fmt.Sprintf("d%d=%q", j, r.Bytes()))
				} else {
					out[j] = k
					found = append(found, fmt.Sprintf("d%d", j))
				}
			default:
				out[j] = -1
			}
		}
		// the listing must name exactly the found keys unless some read failed
		clean := true
		for _, x := range out {
			clean = clean && x >= 0
		}
		if clean && listing {
			r, err := n.HTTP("GET", fmt.Sprintf("/api/node/%s/%s/keys", u, inst), nil)
			if err != nil {
				return nil, "", err
			}
			got, perr := parseJSONKeys(r.Bytes())
			sort.Strings(found)
			sort.Strings(got)
			if r.Status != 200 || perr != nil || !strsEqual(got, found) {
				obs = append(obs, fmt.Sprintf("keys=%d:%s but point reads find %v", r.Status, r.Bytes(), found))
				for j := range out {
					out[j] = -3
				}
			}
		}
		return out, strings.Join(obs, "; "), nil
	}}

const c19Blk = 16

var c19Img = &c19Type{name: "img", typename: "uint8blk", config: map[string]string{"BlockSize": "16,16,16", "VoxelSize": "4,5,6", "VoxelUnits": "microns,microns,microns"}, canDel: false, // (non-default resolution: a copy must carry it over, C19-3)
	write: func(n *node.Node, u, inst string, j, k int) error {
		buf := make([]byte, c19Blk*c19Blk*c19Blk)
		for i := range buf {
			buf[i] = byte(k)
		}
		r, err := n.HTTP("POST", fmt.Sprintf("/api/node/%s/%s/raw/0_1_2/%d_%d_%d/%d_0_0", u, inst, c19Blk, c19Blk, c19Blk, c19Blk*j), buf)
		return okStatus(r, err, "POST raw")
	},
	read: func(n *node.Node, u, inst string, nd int, listing bool) ([]int, string, error) {
		w := c19Blk * nd
		r, err := n.HTTP("GET", fmt.Sprintf("/api/node/%s/%s/raw/0_1_2/%d_%d_%d/0_0_0", u, inst, w, c19Blk, c19Blk), nil)
		if err != nil {
			return nil, "", err
		}
		out := make([]int, nd)
		b := r.Bytes()
		if r.Status != 200 || len(b) != w*c19Blk*c19Blk {
			for j := range out {
				out[j] = -1
			}
			return out, fmt.Sprintf("raw=%d (%d bytes) %.80s", r.Status, len(b), b), nil
		}
		var obs []string
		for j := 0; j < nd; j++ {
			first := b[c19Blk*j]
			uniform := true
			for z := 0; z < c19Blk && uniform; z++ {
				for y := 0; y < c19Blk && uniform; y++ {
					row := b[(z*c19Blk+y)*w+c19Blk*j : (z*c19Blk+y)*w+c19Blk*(j+1)]
					for _, x := range row {
						if x != first {
							uniform = false
							break
						}
					}
				}
			}
			if !uniform {
				out[j] = -2
				obs = append(obs, fmt.Sprintf("block %d not uniform", j))
			} else {
				out[j] = int(first)
			}
		}
		return out, strings.Join(obs, "; "), nil
	}}

type c19Elem struct {
	Pos  [3]int            `json:"Pos"`
	Kind string            `json:"Kind"`
	Tags []string          `json:"Tags"`
	Prop map[string]string `json:"Prop"`
}

var c19Ann = &c19Type{name: "ann", typename: "annotation", canDel: true,
	write: func(n *node.Node, u, inst string, j, k int) error {
		b, _ := json.Marshal([]c19Elem{{Pos: [3]int{64*j + 5, 5, 5}, Kind: "Note", Tags: []string{fmt.Sprintf("t%d", j)}, Prop: map[string]string{"v": fmt.Sprint(k)}}})
		r, err := n.HTTP("POST", fmt.Sprintf("/api/node/%s/%s/elements", u, inst), b)
		return okStatus(r, err, "POST elements")
	},
	del: func(n *node.Node, u, inst string, j int) error {
		r, err := n.HTTP("DELETE", fmt.Sprintf("/api/node/%s/%s/element/%d_5_5", u, inst, 64*j+5), nil)
		if err == nil && r.Status == 400 && strings.Contains(string(r.Bytes()), "Did not find element") {
			return nil // nothing to delete at this version
		}
		return okStatus(r, err, "DELETE element")
	},
	read: func(n *node.Node, u, inst string, nd int, listing bool) ([]int, string, error) {
		out := make([]int, nd)
		var obs []string
		// all blocks in one request, then each tag
		r, err := n.HTTP("GET", fmt.Sprintf("/api/node/%s/%s/elements/%d_64_64/0_0_0", u, inst, 64*nd), nil)
		if err != nil {
			return nil, "", err
		}
		var els []c19Elem
		if r.Status != 200 || (len(r.Bytes()) > 0 && json.Unmarshal(r.Bytes(), &els) != nil) {
			for j := range out {
				out[j] = -1
			}
			return out, fmt.Sprintf("elements=%d %.120s", r.Status, r.Bytes()), nil
		}
		byBlock := make([]int, nd)
		for _, e := range els {
			j := e.Pos[0] / 64
			var k int
			fmt.Sscan(e.Prop["v"], &k)
			if j < 0 || j >= nd || e.Pos != [3]int{64*j + 5, 5, 5} || k <= 0 || byBlock[j] != 0 {
				obs = append(obs, fmt.Sprintf("unexpected element %+v", e))
				if j >= 0 && j < nd {
					byBlock[j] = -2
				}
				continue
			}
			byBlock[j] = k
		}
		for j := 0; j < nd; j++ {
			out[j] = byBlock[j]
			r, err := n.HTTP("GET", fmt.Sprintf("/api/node/%s/%s/tag/t%d", u, inst, j), nil)
			if err != nil {
				return nil, "", err
			}
			var tels []c19Elem
			byTag := 0
			if r.Status != 200 || (len(r.Bytes()) > 0 && json.Unmarshal(r.Bytes(), &tels) != nil) {
				byTag = -1
			} else if len(tels) == 1 {
				fmt.Sscan(tels[0].Prop["v"], &byTag)
				if tels[0].Pos != [3]int{64*j + 5, 5, 5} {
					byTag = -2
				}
			} else if len(tels) > 1 {
				byTag = -2
			}
			if byTag != byBlock[j] {
				obs = append(obs, fmt.Sprintf("datum %d: block view %d, tag view %d (%s)", j, byBlock[j], byTag, r.Bytes()))
				out[j] = -3
			}
		}
		return out, strings.Join(obs, "; "), nil
	}}

// a roi instance holds one datum: the span [1,0,0,2]; it has no value, only presence
var c19Roi = &c19Type{name: "roi", typename: "roi", config: map[string]string{"BlockSize": "16,16,16"}, canDel: true,
	write: func(n *node.Node, u, inst string, j, k int) error {
		r, err := n.HTTP("POST", fmt.Sprintf("/api/node/%s/%s/roi", u, inst), []byte("[[1,0,0,2]]"))
		return okStatus(r, err, "POST roi")
	},
	del: func(n *node.Node, u, inst string, j int) error {
		r, err := n.HTTP("DELETE", fmt.Sprintf("/api/node/%s/%s/roi", u, inst), nil)
		return okStatus(r, err, "DELETE roi")
	},
	read: func(n *node.Node, u, inst string, nd int, listing bool) ([]int, string, error) {
		r, err := n.HTTP("GET", fmt.Sprintf("/api/node/%s/%s/roi", u, inst), nil)
		if err != nil {
			return nil, "", err
		}
		s := strings.TrimSpace(string(r.Bytes()))
		switch {
		case r.Status != 200:
			return []int{-1}, fmt.Sprintf("%d %s", r.Status, s), nil
		case s == "[]" || s == "null":
			return []int{0}, "", nil
		case s == "[[1,0,0,2]]":
			return []int{1}, "", nil // present (whose value cannot be told: a roi has keys only)
		}
		return []int{-2}, s, nil
	}}

type c19Source struct {
	typ        *c19Type
	inst       string
	placements []int // datum j holds placement placements[j]
	flatten    bool  // conflict-free: flattened copies are defined
	presence   bool  // only presence is observable (roi)
	// imageblk keeps one more entry in its key space, the extents, rewritten at every node
	// that writes a block: meta is the placement of that entry (value at k iff some datum is
	// written at k), -1 for the other datatypes
	meta int
}

type c19Divergence struct {
	Kind      string      `json:"kind"`
	Par       [][]int     `json:"par"`
	Datatype  string      `json:"datatype"`
	Source    string      `json:"source_instance"`
	Copy      string      `json:"copy_instance,omitempty"`
	Mode      string      `json:"mode,omitempty"` // plain | flatten@V, main | second store
	Placement string      `json:"placement,omitempty"`
	Datum     int         `json:"datum,omitempty"`
	Query     int         `json:"query_node,omitempty"`
	Expected  interface{} `json:"expected"`
	Observed  interface{} `json:"observed"`
	Script    []dagm.Step `json:"script,omitempty"`
}

// c19Shape builds one DAG with its sources, makes every copy and compares all reads.
func c19Shape(c *Ctx, run *ev.Run, s *dagm.Sess, sh copyShape, si int, maxKV int, nreads, ncopies *int64) {
	n := len(sh.Par)
	np := pow3(n)
	rng := rand.New(rand.NewSource(c.Seed*7919 + int64(si)*104729 + int64(n)))
	var all, clean, built, cleanNoDel, strict []int
	for p := 0; p < np; p++ {
		ok, nodel := true, true
		for v := 0; v < n; v++ {
			ok = ok && sh.Read[p][v] != -1
		}
		for k := 1; k <= n; k++ {
			nodel = nodel && digit(p, k) != 2
		}
		all = append(all, p)
		if ok && sh.Strict[p] == 1 {
			strict = append(strict, p)
		}
		if ok {
			clean = append(clean, p)
		}
		if ok && sh.Built[p] == 1 {
			built = append(built, p)
			if nodel {
				cleanNoDel = append(cleanNoDel, p)
			}
		}
	}
	pick := func(from []int, k int) []int {
		if len(from) <= k {
			return append([]int(nil), from...)
		}
		perm := rng.Perm(len(from))
		out := make([]int, k)
		for i := range out {
			out[i] = from[perm[i]]
		}
		sort.Ints(out)
		return out
	}
	srcs := []*c19Source{
		{typ: c19KV, inst: "kv", placements: pick(all, maxKV)},
		{typ: c19KV, inst: "kvc", placements: pick(clean, maxKV), flatten: true},
		{typ: c19Img, inst: "img", placements: pick(cleanNoDel, 4), flatten: true},
		{typ: c19Ann, inst: "ann", placements: pick(strict, 4), flatten: true},
		{typ: c19Roi, inst: "roi1", placements: pick(built, 1), flatten: true, presence: true},
		{typ: c19Roi, inst: "roi2", placements: pick(built, 1), flatten: true, presence: true},
	}
	metaOf := func(pls []int) int {
		m := 0
		for k := 1; k <= n; k++ {
			for _, p := range pls {
				if digit(p, k) == 1 {
					m += pow3(k - 1)
					break
				}
			}
		}
		return m
	}
	for _, src := range srcs {
		src.meta = -1
		if src.typ == c19Img {
			// the extents entry is read and rewritten by a block write: it must not be in
			// conflict where a block is written either (drop data until that holds)
			for len(src.placements) > 1 && sh.Built[metaOf(src.placements)] != 1 {
				src.placements = src.placements[:len(src.placements)-1]
			}
			src.meta = metaOf(src.placements)
		}
	}
	err := s.BuildShape(sh.Par, func(k int) error {
		if k == 1 {
			for _, src := range srcs {
				if err := s.NewInstance(1, src.typ.typename, src.inst, src.typ.config); err != nil {
					return err
				}
			}
		}
		u := s.NodeUUID(len(s.UUIDs))
		for _, src := range srcs {
			for j, p := range src.placements {
				switch digit(p, k) {
				case 1:
					if err := src.typ.write(s.N, u, src.inst, j, k); err != nil {
						return fmt.Errorf("%s write datum %d at n%d: %v", src.inst, j, k, err)
					}
				case 2:
					if err := src.typ.del(s.N, u, src.inst, j); err != nil {
						return fmt.Errorf("%s delete datum %d at n%d: %v", src.inst, j, k, err)
					}
				}
			}
		}
		return nil
	})
	must(err, "build shape")
	must(s.N.Idle(), "idle")
	base := len(s.UUIDs) - n
	uuid := func(v int) string { return s.UUIDs[base+v-1] }
	nrep := 0
	report := func(d c19Divergence) {
		nrep++
		if nrep > 4 { // a copy that is wrong is wrong on many data and nodes: write a few out per shape
			return
		}
		d.Par = sh.Par
		run.Violation("c19", d)
	}
	type copyInst struct {
		src    *c19Source
		name   string
		mode   string
		flatV  int // 0 = plain
		second bool
		ok     bool
	}
	var copies []*copyInst
	for _, src := range srcs {
		type variant struct {
			flatV  int
			second bool
		}
		var vs []variant
		both := src.typ == c19KV
		if both {
			vs = append(vs, variant{0, false}, variant{0, true})
		} else {
			vs = append(vs, variant{0, si%2 == 1})
		}
		if src.flatten {
			for V := 1; V <= n; V++ {
				if src.meta >= 0 && sh.Read[src.meta][V-1] == -1 {
					continue // the instance's per-version metadata entry is in merge conflict at V: no defined flattened copy
				}
				if both {
					vs = append(vs, variant{V, false}, variant{V, true})
				} else {
					vs = append(vs, variant{V, (si+V)%2 == 0})
				}
			}
		}
		for _, v := range vs {
			ci := &copyInst{src: src, flatV: v.flatV, second: v.second}
			cfg := map[string]string{}
			at := uuid(1)
			ci.name, ci.mode = src.inst+"_p", "plain"
			if v.flatV > 0 {
				cfg["transmit"] = "flatten"
				at = uuid(v.flatV)
				ci.name, ci.mode = fmt.Sprintf("%s_f%d", src.inst, v.flatV), fmt.Sprintf("flatten@n%d", v.flatV)
			}
			if v.second {
				cfg["Tags"] = "store=second"
				ci.name += "s"
				ci.mode += ", second store"
			} else {
				ci.mode += ", same store"
			}
			var res struct {
				Err      string `json:"err"`
				Panic    string `json:"panic"`
				SrcStore string `json:"src_store"`
				DstStore string `json:"dst_store"`
			}
			if !v.second && (si+len(copies))%2 == 0 && c19RPCExpressible(cfg) {
				// the same copy through the "repo <uuid> copy" command (c19_rpc.go)
				e, err := c19CopyViaRPC(s.N, at, src.inst, ci.name, cfg)
				must(err, "repo copy command")
				res.Err = e
				ci.mode += ", through the RPC command"
			} else {
				must(s.N.Call("copy.instance", map[string]interface{}{"uuid": at, "source": src.inst, "target": ci.name, "config": cfg}, &res), "copy.instance")
			}
			atomic.AddInt64(ncopies, 1)
			switch {
			case res.Panic != "":
				report(c19Divergence{Kind: "copy-panicked", Datatype: src.typ.typename, Source: src.inst, Copy: ci.name, Mode: ci.mode, Expected: "copy made", Observed: res.Panic, Script: s.Script})
			case res.Err != "":
				report(c19Divergence{Kind: "copy-failed", Datatype: src.typ.typename, Source: src.inst, Copy: ci.name, Mode: ci.mode, Expected: "copy made", Observed: res.Err, Script: s.Script})
			case strings.Contains(res.DstStore, "db2") != v.second || strings.Contains(res.SrcStore, "db2"):
				infra("copy %s: source on %q, copy on %q, wanted second=%v", ci.name, res.SrcStore, res.DstStore, v.second)
			default:
				ci.ok = true
				copies = append(copies, ci)
			}
		}
	}
	must(s.N.Idle(), "idle")
	// every source (unchanged by the copies) and every copy at every version
	want := func(src *c19Source, p, flatV, w int) (int, bool) {
		var x int
		if flatV == 0 {
			x = sh.Read[p][w-1]
		} else {
			at := sh.Read[p][flatV-1]
			if at == -1 {
				return 0, false
			}
			if sh.Desc[flatV-1][w-1] == 1 {
				x = at
			}
		}
		if src.presence && x > 0 {
			x = 1
		}
		return x, true
	}
	compare := func(src *c19Source, inst, mode string, flatV int, kind string) {
		for w := 1; w <= n; w++ {
			// a listing fails while any datum of the instance is in conflict at w
			listing := true
			for _, p := range src.placements {
				if x, defined := want(src, p, flatV, w); defined && x == -1 {
					listing = false
				}
			}
			got, obs, err := src.typ.read(s.N, uuid(w), inst, len(src.placements), listing)
			must(err, "read "+inst)
			for j, p := range src.placements {
				x, defined := want(src, p, flatV, w)
				if !defined {
					continue
				}
				atomic.AddInt64(nreads, 1)
				g := got[j]
				if g == x || (x == -1 && g <= 0) { // a conflict may answer with an error or with "not found", never with a value
					continue
				}
				d := c19Divergence{Kind: kind, Datatype: src.typ.typename, Source: src.inst, Mode: mode, Placement: placementString(p, n), Datum: j, Query: w,
					Expected: x, Observed: fmt.Sprintf("%d %s", g, obs), Script: s.Script}
				if inst != src.inst {
					d.Copy = inst
				}
				report(d)
			}
		}
	}
	for _, src := range srcs {
		compare(src, src.inst, "", 0, "source-read")
	}
	for _, ci := range copies {
		compare(ci.src, ci.name, ci.mode, ci.flatV, "copy-read")
	}
	// C19-3: the properties carried over (c19_props.go)
	propsOf := map[string]string{}
	propsAt := func(flatV int) string { // imageblk answers info with the extents stored at the version asked
		if flatV > 0 {
			return uuid(flatV)
		}
		return uuid(1)
	}
	for _, ci := range copies {
		want, err := c19Props(s.N, propsAt(ci.flatV), ci.src.inst)
		must(err, "info of source")
		got, err := c19Props(s.N, propsAt(ci.flatV), ci.name)
		must(err, "info of copy")
		propsOf[ci.name] = got
		atomic.AddInt64(&c19PropsCompared, 1)
		if got != want {
			report(c19Divergence{Kind: "copy-properties", Datatype: ci.src.typ.typename, Source: ci.src.inst, Copy: ci.name, Mode: ci.mode, Expected: want, Observed: got, Script: s.Script})
		}
	}
	// C19-2: a restart after the copies changes neither the reads nor the properties
	if c19RestartSample(c, si) {
		must(s.N.Restart(si%12 == 0), "restart after the copies")
		c19NoteRestart()
		for _, src := range srcs {
			compare(src, src.inst, "after a restart", 0, "source-read-after-restart")
		}
		for _, ci := range copies {
			compare(ci.src, ci.name, ci.mode+", after a restart", ci.flatV, "copy-read-after-restart")
			got, err := c19Props(s.N, propsAt(ci.flatV), ci.name)
			must(err, "info of copy")
			atomic.AddInt64(&c19PropsCompared, 1)
			if got != propsOf[ci.name] {
				report(c19Divergence{Kind: "copy-properties-after-restart", Datatype: ci.src.typ.typename, Source: ci.src.inst, Copy: ci.name, Mode: ci.mode, Expected: propsOf[ci.name], Observed: got, Script: s.Script})
			}
		}
	}
	run.Eval(fmt.Sprintf("N%d|%v", n, sh.Par))
	if si%97 == 0 && len(srcs[1].placements) > 0 {
		p := srcs[1].placements[len(srcs[1].placements)/2]
		run.Sample(map[string]interface{}{"par": sh.Par, "placement": placementString(p, n), "source_reads_per_node": sh.Read[p], "descendants": sh.Desc,
			"copies": len(copies), "rule": "plain copy reads like the source; flatten@V reads source@V at V and its descendants, nothing elsewhere"})
	}
}

func checkC19(c *Ctx) int {
	run := ev.NewRun("C19", c.Tier, "model_checking")
	t0 := time.Now()
	var nreads, ncopies, states, trans, modelReads int64
	migRuns := c19MigratePrepare(c) // TLC for the migration part works meanwhile
	workers := 16
	ws := make([]*dagWorker, workers)
	for i := range ws {
		ws[i] = &dagWorker{c: c, every: 12, cfg: node.Config{SecondStore: true, NoLog: true,
			ExtraTOML: "[backend.\"store=second\"]\n  store = \"second\"\n"}}
	}
	defer func() {
		for _, w := range ws {
			w.close()
		}
	}()
	var cfgs []string
	rng := rand.New(rand.NewSource(c.Seed))
	do := func(n, sample, maxKV int) {
		shapes, r := emitCopyShapes(c, n)
		states += r.Distinct
		trans += r.Generated
		total := len(shapes)
		modelReads += int64(total) * int64(pow3(n)) * int64(n)
		if sample > 0 && len(shapes) > sample {
			perm := rng.Perm(len(shapes))
			sel := make([]copyShape, sample)
			for i := range sel {
				sel[i] = shapes[perm[i]]
			}
			shapes = sel
		}
		cfgs = append(cfgs, fmt.Sprintf("KVCopy N=%d MaxParents=3: %d shapes x %d placements model-checked, %d shapes replayed", n, total, pow3(n), len(shapes)))
		parallel(len(shapes), workers, func(wi, i int) {
			c19Shape(c, run, ws[wi].sess(), shapes[i], i, maxKV, &nreads, &ncopies)
		})
	}
	if c.thorough() {
		do(3, 0, 1000)
		do(4, 0, 1000)
		do(5, 320, 90)
	} else {
		do(3, 0, 1000)
		do(4, 0, 1000)
	}
	// store migration (datastore.MigrateInstance / MigrateBatch): c19_migrate.go
	c19Migrate(c, run, migRuns, &states, &trans, &nreads, &cfgs)
	c19Filter(c, run, &states, &trans, &nreads, &ncopies, &cfgs) // copies with filter=roi:<roi>,<uuid> (c19_filter.go)
	run.Set("states", states)
	run.Set("transitions", trans)
	run.Set("traces_validated_against_impl", nreads)
	run.Set("evaluations", nreads)
	run.Set("copies_made", ncopies)
	run.Set("copy_properties_compared", atomic.LoadInt64(&c19PropsCompared))
	run.Set("restarts_after_copies", atomic.LoadInt64(&c19Restarts))
	run.Set("source_reads_model_checked", modelReads)
	run.Set("tlc_model", cfgs)
	run.Set("rule", "case = (DAG shape, placement of value/tombstone/nothing of a datum over the nodes, copy mode, queried node); TLC (KVCopy.tla over KVShapes/KVRead) enumerates every shape, evaluates KVRead.Read of the source for every placement, checks that a plain copy reads like the source, that a copy flattened at V reads source@V at V and its descendants and nothing elsewhere, and that a deletion issued where the datum is absent changes no read; the harness builds each shape through the HTTP API with six source instances (keyvalue with every placement as its own key, keyvalue with the conflict-free placements, uint8blk blocks, annotation elements read through block and tag index, two roi), calls datastore.CopyInstance plain and with transmit=flatten at every node, onto the same store and onto a second Badger store (store assignment by tag), and reads every source and every copy at every node; thorough: seeded sample of the 5-node shapes and of the keyvalue placements; distinct_nontrivial counts DAG shapes (copy) and (shape, datatype, migration mode) triples (migration). "+c19MigrateRule)
	run.Assume = []string{"TLC bounded enumeration of shapes (<= 4 nodes quick, <= 5 thorough, <= 3 parents)", "flattened copies are made only of data without merge conflicts (a conflicting read has no defined copy)",
		"uint8blk data are written, never deleted (the datatype has no block deletion); uint8blk rewrites its extents entry at every node that writes a block, so a merge of two writing branches is a conflict of that entry and no flattened copy is made there; a roi is key-only, so only presence is compared", "labelmap/labelarray instances (own copy semantics, in-memory indices) are not covered"}
	run.Assume = append(run.Assume, c19MigrateAssume...)
	run.Assume = append(run.Assume, c19FilterAssume...)
	fmt.Printf("C19: %v; %d copies, %d reads compared in %.1fs; violations=%d\n", cfgs, ncopies, nreads, since(t0), run.Violations())
	return run.Finish()
}
