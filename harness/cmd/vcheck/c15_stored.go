package main

import (
	"bytes"
	"encoding/binary"
	"encoding/hex"
	"encoding/json"
	"fmt"
	"math/rand"
	"path/filepath"
	"sort"
	"strings"
	"sync"

	"verifharness/internal/ev"
	"verifharness/internal/node"
)

// STORED VALUES of the users of the envelope (C15-1 end to end, C15-2, C15-3).
//
// The rows of specs/Envelope.tla that are read with decompression name the users whose stored
// values they are the oracle for (field `users`, from UserFormats): the repo metadata (object
// envelope, lz4 + crc32), keyvalue values, imageblk blocks, labelmap blocks (the instance's
// Compression / Checksum settings: one instance per format) and labelmap label indices (lz4, no
// checksum).  For each user the real stored bytes are fetched from the store, checked against the
// row's layout (so the instance settings are really in force), damaged as the row says at a few
// positions of the damaged region, written back under the same key, and read through the user's
// own read paths (HTTP GET, resp. a restart of the server for the repo metadata).

type c15StoredDiv struct {
	Kind     string      `json:"kind"`
	User     string      `json:"user"`
	Row      *envRow     `json:"table_row,omitempty"`
	Instance interface{} `json:"instance,omitempty"`
	TKey     string      `json:"stored_tkey_hex,omitempty"`
	Stored   string      `json:"stored_value_hex,omitempty"`
	Damage   *c15Damage  `json:"damage,omitempty"`
	Request  string      `json:"request,omitempty"`
	Expected string      `json:"expected"`
	Observed interface{} `json:"observed"`
}

type c15Abort struct{}

func c15ApplyDamage(env []byte, d c15Damage) []byte {
	switch d.Kind {
	case "xor":
		out := append([]byte(nil), env...)
		out[d.Pos] ^= d.Val
		return out
	case "cut":
		return append([]byte{}, env[:d.Pos]...)
	case "append":
		out := append([]byte(nil), env...)
		ext := make([]byte, d.Pos)
		if d.Val != 0 {
			rand.New(rand.NewSource(int64(d.Val)*7919 + int64(d.Pos))).Read(ext)
		}
		return append(out, ext...)
	}
	return env
}

// c15RowDamages expands the damage of one row into a few concrete damages of a stored value.
func c15RowDamages(rng *rand.Rand, r *envRow, L int, perRegion int) ([]c15Damage, bool) {
	type rg struct{ lo, hi int }
	ranges := make([]rg, len(r.Layout))
	off := 0
	for i, l := range r.Layout {
		sz := l.Size
		if sz == 0 {
			sz = L - off
		}
		ranges[i] = rg{off, off + sz}
		off += sz
	}
	if off != L || len(ranges) == 0 || ranges[len(ranges)-1].hi <= ranges[len(ranges)-1].lo {
		return nil, false
	}
	pick := func(lo, hi int) []int {
		if hi <= lo {
			return nil
		}
		set := map[int]bool{lo: true, hi - 1: true}
		for k := 0; k < perRegion && len(set) < hi-lo; k++ {
			set[lo+rng.Intn(hi-lo)] = true
		}
		var out []int
		for p := range set {
			out = append(out, p)
		}
		sort.Ints(out)
		return out
	}
	var out []c15Damage
	switch r.Dmg.Kind {
	case "bitflip":
		q := ranges[r.Dmg.Index-1]
		for _, p := range pick(q.lo, q.hi) {
			out = append(out, c15Damage{Kind: "xor", Pos: p, Val: 1 << uint(rng.Intn(8))})
		}
		if r.Dmg.Region == "fmt" { // every bit of the format byte
			out = out[:0]
			for b := 0; b < 8; b++ {
				out = append(out, c15Damage{Kind: "xor", Pos: 0, Val: 1 << uint(b)})
			}
		}
	case "bytesub":
		q := ranges[r.Dmg.Index-1]
		for _, p := range pick(q.lo, q.hi) {
			v := uint8(1 + rng.Intn(255))
			for v&(v-1) == 0 {
				v = uint8(1 + rng.Intn(255))
			}
			out = append(out, c15Damage{Kind: "xor", Pos: p, Val: v})
		}
	case "cutinside":
		q := ranges[r.Dmg.Index-1]
		for _, p := range pick(q.lo+1, q.hi) {
			out = append(out, c15Damage{Kind: "cut", Pos: p})
		}
	case "cutbefore":
		out = append(out, c15Damage{Kind: "cut", Pos: ranges[r.Dmg.Index-1].lo})
	case "trailing":
		out = append(out, c15Damage{Kind: "append", Pos: 1 + rng.Intn(3), Val: 0}, c15Damage{Kind: "append", Pos: 4 + rng.Intn(60), Val: uint8(1 + rng.Intn(255))})
	case "none":
		out = append(out, c15Damage{Kind: "none"})
	}
	for i := range out {
		out[i].Unc = true
	}
	return out, true
}

func c15FmtMatches(env []byte, r *envRow) bool {
	if len(env) == 0 {
		return false
	}
	cks := c15Cks[r.Cks]
	if r.Comp == "gzip" {
		cks = 0
	}
	return env[0]>>5 == c15Comp[r.Comp] && (env[0]>>3)&3 == cks
}

func c15Stored(c *Ctx, run *ev.Run, rows []*envRow) {
	byUser := map[string][]*envRow{}
	for _, r := range rows {
		for _, u := range r.Users {
			byUser[u] = append(byUser[u], r)
		}
	}
	for _, u := range []string{"repo", "keyvalue", "imageblk", "labelblock", "labelindex"} {
		if len(byUser[u]) == 0 {
			infra("Envelope printed no rows for the stored values of user %q", u)
		}
	}
	var wg sync.WaitGroup
	var mu sync.Mutex
	var first interface{}
	fail := func(e interface{}) {
		mu.Lock()
		if first == nil {
			first = e
		}
		mu.Unlock()
	}
	part := func(f func()) {
		wg.Add(1)
		go func() {
			defer wg.Done()
			defer func() {
				if e := recover(); e != nil {
					if _, aborted := e.(c15Abort); !aborted { // (a part that reported a dead server stops there)
						fail(e)
					}
				}
			}()
			f()
		}()
	}
	part(func() { c15StoredRepo(c, run, byUser["repo"]) })
	part(func() { c15StoredData(c, run, "keyvalue", byUser["keyvalue"], nil) })
	part(func() { c15StoredData(c, run, "imageblk", byUser["imageblk"], nil) })
	part(func() { c15StoredData(c, run, "labelblock", byUser["labelblock"], byUser["labelindex"]) })
	wg.Wait()
	if first != nil {
		panic(first)
	}
}

// ---- the repo metadata: damaged stored blob, restart ----

func c15StoredRepo(c *Ctx, run *ev.Run, rows []*envRow) {
	tplDir := filepath.Join(c.Scratch, "c15-repo-template")
	n := c.StartNode(node.Config{Dir: tplDir, NoLog: true})
	post := func(url string, body interface{}) []byte {
		var b []byte
		switch v := body.(type) {
		case nil:
		case []byte:
			b = v
		default:
			b, _ = json.Marshal(v)
		}
		r, err := n.HTTP("POST", url, b)
		must(err, "POST "+url)
		if r.Status != 200 {
			infra("POST %s: %d %s", url, r.Status, r.Bytes())
		}
		return r.Bytes()
	}
	var root struct{ Root string }
	must(json.Unmarshal(post("/api/repos", map[string]string{"alias": "c15", "description": "stored metadata blob"}), &root), "repo root")
	post("/api/repo/"+root.Root+"/instance", map[string]string{"typename": "keyvalue", "dataname": "kv", "Compression": "gzip", "Checksum": "crc32"})
	post("/api/repo/"+root.Root+"/instance", map[string]string{"typename": "uint8blk", "dataname": "img", "BlockSize": "16,16,16"})
	post("/api/node/"+root.Root+"/kv/key/a", []byte("value"))
	post("/api/node/"+root.Root+"/log", map[string][]string{"log": {"first note"}})
	post("/api/node/"+root.Root+"/commit", map[string]string{"note": "committed"})
	post("/api/node/"+root.Root+"/newversion", map[string]string{"note": "child"})
	must(n.Idle(), "idle")
	must(n.Restart(true), "restart of the template")
	info := func(n *node.Node) []byte {
		r, err := n.HTTP("GET", "/api/repos/info", nil)
		must(err, "GET repos/info")
		if r.Status != 200 {
			infra("GET repos/info: %d", r.Status)
		}
		// without what a restart is allowed to change (the mutation id jumps ahead by design) and the store's path
		var v interface{}
		must(json.Unmarshal(r.Bytes(), &v), "repos/info JSON")
		var strip func(x interface{})
		strip = func(x interface{}) {
			switch t := x.(type) {
			case map[string]interface{}:
				for _, k := range []string{"MutationID", "SavedMutationID", "KVStore", "LogStore"} {
					delete(t, k)
				}
				for _, e := range t {
					strip(e)
				}
			case []interface{}:
				for _, e := range t {
					strip(e)
				}
			}
		}
		strip(v)
		b, _ := json.Marshal(v)
		return b
	}
	type metaEnt struct {
		TKey  string `json:"tkey"`
		Value []byte `json:"value"`
	}
	var ents []metaEnt
	must(n.Call("ser.metaget", nil, &ents), "ser.metaget")
	if len(ents) != 1 || len(ents[0].Value) < 40 {
		infra("expected one stored repo blob, got %d", len(ents))
	}
	blob := ents[0].Value
	original := info(n)
	must(n.Stop(), "stop template")

	type task struct {
		row *envRow
		d   c15Damage
	}
	var tasks []task
	rng := rand.New(rand.NewSource(c.Seed ^ 0x15e2e))
	for _, r := range rows {
		if r.PC != "nested" { // one object class stands for the repo (a struct of maps, slices and nested structs)
			continue
		}
		if !c15FmtMatches(blob, r) {
			run.Violation("c15", c15StoredDiv{Kind: "stored-format", User: "repo", Row: r, Stored: hex.EncodeToString(blob[:8]),
				Expected: "stored repo blob written with " + r.Comp + " / " + r.Cks, Observed: fmt.Sprintf("format byte %#x", blob[0])})
			return
		}
		ds, ok := c15RowDamages(rng, r, len(blob), c.pick(1, 6))
		if !ok {
			run.Violation("c15", c15StoredDiv{Kind: "stored-layout", User: "repo", Row: r, Expected: fmt.Sprint(r.Layout), Observed: len(blob)})
			return
		}
		for _, d := range ds {
			// format-byte changes that make the envelope hand other bytes than the gob bytes to encoding/gob
			// without an error (another compression, or no checksum) are left out: gob may then allocate
			// without bound at start-up (see the assumptions); the reserved bits and the illegal checksum stay
			if d.Kind == "xor" && d.Pos == 0 && d.Val&^0x17 != 0 {
				continue
			}
			tasks = append(tasks, task{r, d})
		}
	}
	var smu sync.Mutex
	sampled := false
	parallel(len(tasks), 8, func(w, i int) {
		t := tasks[i]
		dir := filepath.Join(c.Scratch, fmt.Sprintf("c15-repo-%d", i))
		copyTree(tplDir, dir)
		m := c.StartNode(node.Config{Dir: dir, NoLog: true})
		defer c.DropNode(m)
		if got := info(m); !bytes.Equal(got, original) {
			infra("copy of the template came up with different metadata:\n%s\n---\n%s", got, original)
		}
		damaged := c15ApplyDamage(blob, t.d)
		must(m.Call("ser.metaput", metaEnt{TKey: ents[0].TKey, Value: damaged}, nil), "ser.metaput")
		err := m.Restart(true)
		key := fmt.Sprintf("stored|repo|%s|%s|%d", t.row.Dmg.Kind, t.row.Dmg.Region, i)
		run.Eval(key)
		obs := map[string]interface{}{}
		outcome := ""
		if err != nil {
			tail := m.StderrTail(6000)
			switch {
			case strings.Contains(tail, "panic:") || strings.Contains(tail, "fatal error:") || strings.Contains(tail, "SIGSEGV"):
				outcome = "crash"
			case strings.Contains(tail, "dvidnode fatal:"):
				outcome = "error" // the start-up sequence returned an error
			default:
				infra("restart on a damaged repo blob failed without a start-up error or a crash report (overload?): %v", err)
			}
			if i := strings.LastIndex(tail, "dvidnode fatal:"); i >= 0 {
				tail = tail[i:]
			}
			if len(tail) > 600 {
				tail = tail[len(tail)-600:]
			}
			obs["startup"] = tail
		} else {
			var now []metaEnt
			must(m.Call("ser.metaget", nil, &now), "ser.metaget")
			if t.d.Kind != "none" && (len(now) != 1 || !bytes.Equal(now[0].Value, damaged)) {
				obs["note"] = "start-up rewrote the stored blob"
			}
			if bytes.Equal(info(m), original) {
				outcome = "payload"
			} else {
				outcome = "different"
				obs["repos_info"] = string(info(m))
			}
		}
		obs["outcome"] = outcome
		ok := false
		switch t.row.Expect {
		case "error":
			ok = outcome == "error"
		case "payload":
			ok = outcome == "payload"
		case "error_or_payload":
			ok = outcome == "error" || outcome == "payload"
		case "nocrash":
			ok = outcome != "crash"
		}
		if !ok {
			d := t.d
			run.Violation("c15", c15StoredDiv{Kind: "stored-repo-metadata", User: "repo", Row: t.row, TKey: ents[0].TKey, Damage: &d,
				Request:  "overwrite the stored repo blob with the damaged bytes, restart the server, GET /api/repos/info",
				Expected: t.row.Expect + " (error = start-up refuses with an error; payload = the original metadata)", Observed: obs})
		}
		run.Add("stored_repo_"+outcome, 1)
		smu.Lock()
		if !sampled && t.row.Dmg.Region == "data" && t.row.Dmg.Kind == "bitflip" {
			sampled = true
			d := t.d
			run.Sample(map[string]interface{}{"user": "repo", "table_row": t.row, "stored_len": len(blob), "damage": d, "observed": obs})
		}
		smu.Unlock()
	})
	run.Set("stored_repo_cases", len(tasks))
}

// ---- data instances: damaged stored value, GET ----

type c15Inst struct {
	Name string `json:"name"`
	Type string `json:"typename"`
	Comp string `json:"Compression"`
	Cks  string `json:"Checksum"`
}

type c15Get struct {
	url  string
	body []byte // request body (GET with a body: keyvalues)
	// stream: the handler writes a JSON answer piecewise, so the status line is out before a stored value is
	// read; an error can then only show as an answer that is not well-formed JSON (the error text is appended)
	stream bool
	// raw: the handler hands the stored (compressed) bytes on without decompressing them; the rows read
	// with decompression are not its oracle, only that the server survives is required
	raw bool
	// bg: the same request for a place where nothing is stored (imageblk: the background answer)
	bg string
	// unordered: the answer lists blocks / runs in map order; compared as a multiset of bytes
	unordered bool
}

func c15SameAnswer(g c15Get, a, b []byte) bool {
	if !g.unordered {
		return bytes.Equal(a, b)
	}
	x, y := append([]byte(nil), a...), append([]byte(nil), b...)
	sort.Slice(x, func(i, j int) bool { return x[i] < x[j] })
	sort.Slice(y, func(i, j int) bool { return y[i] < y[j] })
	return bytes.Equal(x, y)
}

// A known finding: imageblk's block readers run as chunk handlers that can only log an error.
const c15KnownImageblk = "imageblk-damaged-block-served-as-background"

type c15Answer struct {
	Status int    `json:"status"`
	Len    int    `json:"len"`
	Same   bool   `json:"same_as_undamaged"`
	Head   string `json:"body_head,omitempty"`
}

func c15StoredData(c *Ctx, run *ev.Run, user string, rows, idxRows []*envRow) {
	n := c.StartNode(node.Config{NoLog: user != "labelblock"}) // (labelmap needs a mutation log)
	do := func(method, url string, body []byte) node.Resp {
		r, err := n.HTTP(method, url, body)
		if err != nil {
			tail := n.StderrTail(3000)
			if err != node.ErrDead || !(strings.Contains(tail, "panic:") || strings.Contains(tail, "fatal error:")) {
				must(err, method+" "+url) // a timeout or a lost process without a Go crash report: not a verdict
			}
			run.Violation("c15", c15StoredDiv{Kind: "server-died", User: user, Request: method + " " + url, Expected: "the server survives", Observed: tail})
			panic(c15Abort{})
		}
		return r
	}
	okPost := func(url string, body []byte) {
		r := do("POST", url, body)
		if r.Status != 200 {
			infra("POST %s: %d %s", url, r.Status, r.Bytes())
		}
	}
	var root struct{ Root string }
	must(json.Unmarshal(do("POST", "/api/repos", []byte(`{"alias":"c15s"}`)).Bytes(), &root), "repo root")
	uuid := root.Root
	rng := rand.New(rand.NewSource(c.Seed ^ int64(len(user))*0x51ed))

	// the formats of this user, from the rows
	type fmtKey struct{ comp, cks string }
	fmts := map[fmtKey][]*envRow{}
	var fkeys []fmtKey
	for _, r := range rows {
		if r.PC != "compressible" { // the payload class written below
			continue
		}
		k := fmtKey{r.Comp, r.Cks}
		if fmts[k] == nil {
			fkeys = append(fkeys, k)
		}
		fmts[k] = append(fmts[k], r)
	}
	sort.Slice(fkeys, func(i, j int) bool { return fkeys[i].comp+fkeys[i].cks < fkeys[j].comp+fkeys[j].cks })
	if len(fkeys) < 8 {
		infra("user %s: only %d formats in the table", user, len(fkeys))
	}

	type dump struct {
		Entries []struct {
			TKey string `json:"tkey"`
			Tomb bool   `json:"tomb"`
			Val  []byte `json:"val"`
		} `json:"entries"`
	}
	entriesOf := func(inst string, class byte) (tkeys []string, vals [][]byte) {
		var d dump
		must(n.Call("migrate.dump", map[string]string{"uuid": uuid, "source": inst, "store": "main"}, &d), "migrate.dump")
		for _, e := range d.Entries {
			tk, _ := hex.DecodeString(e.TKey)
			if len(tk) > 0 && tk[0] == class && !e.Tomb {
				tkeys = append(tkeys, e.TKey)
				vals = append(vals, e.Val)
			}
		}
		return
	}
	rawput := func(inst, tkey string, val []byte) {
		must(n.Call("ser.rawput", map[string]interface{}{"data": inst, "uuid": uuid, "tkey": tkey, "value": val}, nil), "ser.rawput")
	}

	// series: damage one stored value as each row says and read through the GETs
	series := func(who string, inst c15Inst, rs []*envRow, tkey string, stored []byte, gets []c15Get) {
		base := make([]node.Resp, len(gets))
		for i, g := range gets {
			base[i] = do("GET", g.url, g.body)
			if base[i].Status != 200 {
				// the value was written through the API with the instance's settings and must be readable
				run.Violation("c15", c15StoredDiv{Kind: "stored-roundtrip", User: who, Instance: inst, Request: "GET " + g.url, Expected: "200: the value stored with " + inst.Comp + " / " + inst.Cks + " is readable",
					Observed: c15Answer{Status: base[i].Status, Len: len(base[i].Bytes()), Head: string(base[i].Bytes()[:min(len(base[i].Bytes()), 300)])}})
				return
			}
		}
		sampled := false
		for _, r := range rs {
			if !c15FmtMatches(stored, r) {
				run.Violation("c15", c15StoredDiv{Kind: "stored-format", User: who, Row: r, Instance: inst, TKey: tkey, Stored: hex.EncodeToString(stored[:1]),
					Expected: "value stored with the instance's settings " + r.Comp + " / " + r.Cks, Observed: fmt.Sprintf("format byte %#x", stored[0])})
				return
			}
			ds, ok := c15RowDamages(rng, r, len(stored), c.pick(1, 5))
			if !ok {
				run.Violation("c15", c15StoredDiv{Kind: "stored-layout", User: who, Row: r, Instance: inst, TKey: tkey, Expected: fmt.Sprint(r.Layout), Observed: len(stored)})
				return
			}
			for _, d := range ds {
				rawput(inst.Name, tkey, c15ApplyDamage(stored, d))
				for i, g := range gets {
					resp := do("GET", g.url, g.body)
					body := resp.Bytes()
					same := resp.Status == 200 && c15SameAnswer(g, body, base[i].Bytes())
					run.Eval(fmt.Sprintf("stored|%s|%s|%s|%s|%s|get%d", who, r.Comp, r.Cks, r.Dmg.Kind, r.Dmg.Region, i))
					ok := false
					expect := r.Expect
					if g.raw && r.Dmg.Kind != "none" {
						expect = "nocrash"
					}
					switch expect {
					case "payload":
						ok = same
					case "samesize":
						ok = resp.Status == 200 && len(body) == len(base[i].Bytes())
					case "error":
						ok = resp.Status >= 400 || (g.stream && !json.Valid(body))
					case "error_or_payload":
						ok = resp.Status >= 400 || same || (g.stream && !json.Valid(body))
					case "nocrash", "empty":
						ok = true
					}
					ans := c15Answer{Status: resp.Status, Len: len(body), Same: same}
					if len(body) < 300 && (resp.Status != 200 || g.stream) {
						ans.Head = string(body)
					}
					if !ok && who == "imageblk" && g.bg != "" && resp.Status == 200 && run.KnownActive(c15KnownImageblk) {
						// exactly the known failure: the damaged block is answered like a block that was never stored
						if bg := do("GET", g.bg, nil); bg.Status == 200 && bytes.Equal(bg.Bytes(), body) {
							run.ReportKnown(c15KnownImageblk)
							run.Add("known_imageblk_background_answers", 1)
							ok = true
						}
					}
					if !ok {
						dd := d
						run.Violation("c15", c15StoredDiv{Kind: "stored-value-read", User: who, Row: r, Instance: inst, TKey: tkey,
							Stored: hex.EncodeToString(stored[:min(len(stored), 64)]), Damage: &dd, Request: "GET " + g.url,
							Expected: r.Expect + " (error = HTTP status >= 400; payload = the answer given for the undamaged value)", Observed: ans})
					}
					if resp.Status >= 400 {
						run.Add("stored_reads_refused", 1)
					} else if same {
						run.Add("stored_reads_original", 1)
					} else {
						run.Add("stored_reads_other_answer", 1)
					}
					if !sampled && i == 0 && r.Dmg.Region == "data" && r.Dmg.Kind == "bytesub" {
						sampled = true
						dd := d
						run.Sample(map[string]interface{}{"user": who, "instance": inst, "table_row": r, "stored_len": len(stored), "damage": dd, "request": "GET " + g.url, "observed": ans})
					}
				}
			}
		}
		rawput(inst.Name, tkey, stored)
		for i, g := range gets {
			if r := do("GET", g.url, g.body); r.Status != 200 || !c15SameAnswer(g, r.Bytes(), base[i].Bytes()) {
				infra("%s: GET %s differs after the stored value was restored", who, g.url)
			}
		}
	}

	for fi, k := range fkeys {
		inst := c15Inst{Name: fmt.Sprintf("%s%d", user[:2], fi), Comp: k.comp, Cks: k.cks}
		nd := "/api/node/" + uuid + "/" + inst.Name
		cfg := map[string]string{"dataname": inst.Name, "Compression": k.comp, "Checksum": k.cks}
		switch user {
		case "keyvalue":
			inst.Type = "keyvalue"
			cfg["typename"] = inst.Type
			b, _ := json.Marshal(cfg)
			okPost("/api/repo/"+uuid+"/instance", b)
			val := []byte(`{"text": "` + strings.Repeat("stored value 0123456789 ", 20+rng.Intn(20)) + `"}`)
			okPost(nd+"/key/k1", val)
			okPost(nd+"/key/k0", []byte("neighbour"))
			if r := do("GET", nd+"/key/k1", nil); r.Status != 200 || !bytes.Equal(r.Bytes(), val) {
				run.Violation("c15", c15StoredDiv{Kind: "stored-roundtrip", User: user, Instance: inst, Request: "POST then GET " + nd + "/key/k1",
					Expected: "the posted value", Observed: c15Answer{Status: r.Status, Len: len(r.Bytes())}})
				continue
			}
			run.Eval(fmt.Sprintf("stored|%s|%s|%s|roundtrip", user, k.comp, k.cks))
			tks, vals := entriesOf(inst.Name, 177)
			at := -1
			for i, tk := range tks {
				if strings.HasSuffix(tk, hex.EncodeToString([]byte("k1\x00"))) {
					at = i
				}
			}
			if at < 0 {
				infra("keyvalue: stored key k1 not found among %d entries", len(tks))
			}
			series(user, inst, fmts[k], tks[at], vals[at], []c15Get{
				{url: nd + "/key/k1"},
				{url: nd + "/keyrangevalues/k1/k1"},
				{url: nd + "/keyvalues", body: []byte("\x0a\x02k1")}, // proto.Keys{Keys: ["k1"]}
				{url: nd + "/keyrangevalues/k1/k1?json=true", stream: true},
				{url: nd + "/keyvalues?json=true", body: []byte(`["k1"]`), stream: true},
			})
		case "imageblk":
			inst.Type = "uint8blk"
			cfg["typename"] = inst.Type
			cfg["BlockSize"] = "16,16,16"
			b, _ := json.Marshal(cfg)
			okPost("/api/repo/"+uuid+"/instance", b)
			vox := make([]byte, 16*16*16)
			for i := range vox {
				vox[i] = byte(40 + (i/16)%16*5 + i%3) // smooth enough for JPEG, compressible
			}
			okPost(nd+"/raw/0_1_2/16_16_16/16_16_16", vox)
			r := do("GET", nd+"/raw/0_1_2/16_16_16/16_16_16", nil)
			lossy := k.comp == "jpeg"
			if r.Status != 200 || len(r.Bytes()) != len(vox) || (!lossy && !bytes.Equal(r.Bytes(), vox)) {
				run.Violation("c15", c15StoredDiv{Kind: "stored-roundtrip", User: user, Instance: inst, Request: "POST then GET " + nd + "/raw/0_1_2/16_16_16/16_16_16",
					Expected: "the posted voxels (jpeg: as many voxels)", Observed: c15Answer{Status: r.Status, Len: len(r.Bytes())}})
				continue
			}
			run.Eval(fmt.Sprintf("stored|%s|%s|%s|roundtrip", user, k.comp, k.cks))
			tks, vals := entriesOf(inst.Name, 23)
			if len(tks) != 1 {
				infra("imageblk: %d stored blocks, expected 1", len(tks))
			}
			series(user, inst, fmts[k], tks[0], vals[0], []c15Get{
				{url: nd + "/raw/0_1_2/16_16_16/16_16_16", bg: nd + "/raw/0_1_2/16_16_16/64_64_64"},
				{url: nd + "/blocks/1_1_1/1", bg: nd + "/blocks/4_4_4/1"},
				{url: nd + "/raw/0_1/16_16/16_16_20", bg: nd + "/raw/0_1/16_16/64_64_68"},
			})
		case "labelblock":
			inst.Type = "labelmap"
			cfg["typename"] = inst.Type
			cfg["BlockSize"] = "32,32,32"
			cfg["MaxDownresLevel"] = "0"
			b, _ := json.Marshal(cfg)
			okPost("/api/repo/"+uuid+"/instance", b)
			vox := make([]byte, 32*32*32*8)
			for i := 0; i < 32*32*32; i++ {
				l := uint64(7)
				if i%32 >= 16+(i/1024)%5 {
					l = 9
				}
				binary.LittleEndian.PutUint64(vox[i*8:], l)
			}
			okPost(nd+"/raw/0_1_2/32_32_32/32_32_32", vox)
			must(n.Idle(), "idle")
			r := do("GET", nd+"/raw/0_1_2/32_32_32/32_32_32", nil)
			if r.Status != 200 || !bytes.Equal(r.Bytes(), vox) {
				run.Violation("c15", c15StoredDiv{Kind: "stored-roundtrip", User: user, Instance: inst, Request: "POST then GET " + nd + "/raw/0_1_2/32_32_32/32_32_32",
					Expected: "the posted labels", Observed: c15Answer{Status: r.Status, Len: len(r.Bytes())}})
				continue
			}
			run.Eval(fmt.Sprintf("stored|%s|%s|%s|roundtrip", user, k.comp, k.cks))
			tks, vals := entriesOf(inst.Name, 186)
			if len(tks) != 1 {
				infra("labelmap: %d stored blocks, expected 1", len(tks))
			}
			gets := []c15Get{
				{url: nd + "/raw/0_1_2/32_32_32/32_32_32"},
				{url: nd + "/label/40_40_40"},
			}
			if k.comp != "snappy" { // the block-transcoding requests refuse blocks stored with snappy ("unknown compressed format")
				gets = append(gets, c15Get{url: nd + "/specificblocks?blocks=1,1,1", raw: true},
					c15Get{url: nd + "/blocks/32_32_32/32_32_32?compression=uncompressed"})
			}
			series(user, inst, fmts[k], tks[0], vals[0], gets)
			if fi == 0 { // label indices are written the same way whatever the instance settings
				itks, ivals := entriesOf(inst.Name, 187)
				if len(itks) != 2 {
					infra("labelmap: %d stored label indices, expected 2", len(itks))
				}
				var irs []*envRow
				for _, r := range idxRows {
					if r.PC == "compressible" {
						irs = append(irs, r)
					}
				}
				for j := range itks {
					tk, _ := hex.DecodeString(itks[j])
					label := binary.BigEndian.Uint64(tk[2:10])
					series("labelindex", inst, irs, itks[j], ivals[j], []c15Get{
						{url: fmt.Sprintf("%s/index/%d", nd, label), unordered: true},
						{url: fmt.Sprintf("%s/sparsevol/%d?format=rles", nd, label), unordered: true},
						{url: fmt.Sprintf("%s/sparsevol-size/%d", nd, label)},
						{url: fmt.Sprintf("%s/sparsevol-coarse/%d", nd, label), unordered: true},
						{url: nd + "/indices", body: []byte(fmt.Sprintf("[%d]", label)), unordered: true},
					})
				}
			}
		}
	}
	// the server is still there and answers
	if r := do("GET", "/api/repos/info", nil); r.Status != 200 {
		run.Violation("c15", c15StoredDiv{Kind: "server-died", User: user, Request: "GET /api/repos/info", Expected: "200", Observed: r.Status})
	}
	c.DropNode(n)
}
