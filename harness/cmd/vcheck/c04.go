package main

import (
	"crypto/sha1"
	"encoding/base64"
	"encoding/hex"
	"encoding/json"
	"fmt"
	"os"
	"path/filepath"
	"regexp"
	"strings"
	"sync/atomic"
	"time"

	"verifharness/internal/dagm"
	"verifharness/internal/ev"
	"verifharness/internal/lmm"
	"verifharness/internal/node"
	"verifharness/internal/snap"
	"verifharness/internal/tlc"
)

func init() { checks["C04"] = checkC04 }

const c04RepoInfoTwoWrites = "repo-info-alias-description-two-writes"

var aliasRe = regexp.MustCompile(`"Alias":"[^"]*"`)
var descRe = regexp.MustCompile(`"Description":"[^"]*"`)

// atomicKinds are the operations the property requires to be all-or-nothing
// (repo-level or single-key).
var atomicKinds = map[string]bool{"newrepo": true, "newinstance": true, "commit": true, "newversion": true, "branch": true,
	"merge": true, "nodenote": true, "nodelog": true, "repolog": true, "tags": true, "repoinfo": true,
	"kvput": true, "kvdelete": true, "njpost": true, "njdelete": true}

type c04Ref struct {
	ops    []wOp
	kinds  []string
	inst   []string     // instance name written by op i ("" for repo-level)
	counts []uint64     // cumulative store writes after op i (index 0 = after start-up)
	snaps  []*snap.Snap // canonical snapshot after op i (index 0 = empty server)
}

func c04World(n *node.Node, seed int64) *world {
	w := newWorld(n, seed)
	// (labelmap has its own crash check, c04_labelmap.go: the region geometry and the specification
	// give an oracle for half-applied operations)
	w.Types = []string{"keyvalue", "roi", "annotation", "neuronjson", "uint8blk"}
	return w
}

// c04SnapOpts: the image instance (fifth type of the workload, hence "ui4") is read as a volume.
func c04SnapOpts() snap.Options {
	return snap.Options{Volume: map[string][2]string{"ui4": {"96_64_32", "-32_0_0"}}}
}

// blankInstanceSettings replaces, in the repo-level entries of a snapshot, the type-specific
// settings (Extended, Extents) of one data instance by a placeholder.
func blankInstanceSettings(key, body, inst string) string {
	if !strings.HasPrefix(key, "repo") || inst == "" || !strings.Contains(body, `"DataInstances"`) {
		return body
	}
	var v interface{}
	if json.Unmarshal([]byte(body), &v) != nil {
		return body
	}
	var walk func(x interface{})
	walk = func(x interface{}) {
		m, ok := x.(map[string]interface{})
		if !ok {
			return
		}
		if di, ok := m["DataInstances"].(map[string]interface{}); ok {
			if one, ok := di[inst].(map[string]interface{}); ok {
				for _, k := range []string{"Extended", "Extents"} {
					if _, has := one[k]; has {
						one[k] = "*"
					}
				}
			}
		}
		for k, sub := range m {
			if k != "DataInstances" {
				walk(sub)
			}
		}
	}
	walk(v)
	b, err := json.Marshal(v)
	if err != nil {
		return body
	}
	return string(b)
}

// instOfURL extracts the data instance a data request addresses.
func instOfURL(url string) string {
	p := strings.Split(strings.TrimPrefix(url, "/api/node/"), "/")
	if strings.HasPrefix(url, "/api/node/") && len(p) >= 3 {
		return p[1]
	}
	return ""
}

// runReference executes the workload without faults and records write counts and snapshots.
func runReference(c *Ctx, seed int64, length int) *c04Ref {
	n := c.StartNode(node.Config{})
	defer c.DropNode(n)
	ref := &c04Ref{}
	cnt, err := n.Count()
	must(err, "count")
	s0, err := snap.TakeCanon(n, c04SnapOpts())
	must(err, "snapshot")
	ref.counts = append(ref.counts, cnt)
	ref.snaps = append(ref.snaps, s0)
	w := c04World(n, seed)
	for len(ref.kinds) < length {
		kind, err := w.step()
		must(err, "world step")
		if kind == "" {
			continue
		}
		must(n.Idle(), "idle")
		op := w.log[len(w.log)-1]
		cnt, err := n.Count()
		must(err, "count")
		s, err := snap.TakeCanon(n, c04SnapOpts())
		must(err, "snapshot")
		ref.ops = append(ref.ops, op)
		ref.kinds = append(ref.kinds, kind)
		in := ""
		if !atomicKinds[kind] || kind == "kvput" || kind == "kvdelete" || kind == "njpost" || kind == "njdelete" {
			in = instOfURL(op.URL)
		}
		ref.inst = append(ref.inst, in)
		ref.counts = append(ref.counts, cnt)
		ref.snaps = append(ref.snaps, s)
	}
	return ref
}

type c04Divergence struct {
	Kind        string   `json:"kind"`
	Seed        int64    `json:"workload_seed"`
	CrashWrite  uint64   `json:"crash_at_write"`
	When        string   `json:"when"`
	SecondCrash int      `json:"second_crash_at_recovery_write,omitempty"`
	Interrupted string   `json:"interrupted_operation"`
	AckedOps    int      `json:"acknowledged_operations"`
	Diffs       []string `json:"diffs"`
	History     []wOp    `json:"history"`
}

// crashRun replays the workload with a crash armed at absolute write n.
func crashRun(c *Ctx, run *ev.Run, ref *c04Ref, seed int64, crashAt uint64, after bool, second bool, nruns *int64) {
	when := "before"
	if after {
		when = "after"
	}
	cfg := node.Config{}
	n := c.StartNode(cfg)
	defer c.DropNode(n)
	base, _ := n.Count()
	if crashAt <= base {
		return
	}
	must(n.Arm(crashAt-base, after), "arm")
	w := c04World(n, seed)
	acked := 0
	var died bool
	for acked < len(ref.kinds) {
		kind, err := w.step()
		if err == node.ErrDead {
			died = true
			break
		}
		must(err, "world step")
		if kind == "" {
			continue
		}
		if err := n.Idle(); err != nil {
			if err == node.ErrDead || !n.Alive() {
				died = true
				break
			}
			must(err, "idle")
		}
		acked++
	}
	if !died {
		// the crash point lies beyond this replay (background writes differ in count): nothing to check
		return
	}
	n.WaitExit(10 * time.Second)
	interrupted := "?"
	if acked < len(ref.ops) {
		interrupted = fmt.Sprintf("#%d %s %s", acked+1, ref.kinds[acked], ref.ops[acked].URL)
	}
	div := c04Divergence{Seed: seed, CrashWrite: crashAt, When: when, Interrupted: interrupted, AckedOps: acked}
	if second {
		// crash again inside the recovery start-up (at its 1st..3rd store write), then start normally
		m := 1 + int(crashAt%3)
		n.Cfg.Env = []string{fmt.Sprintf("VERIF_CRASH_AT=%d", m), "VERIF_CRASH_AFTER=" + map[bool]string{true: "1", false: "0"}[after]}
		err := n.Restart(false)
		n.Cfg.Env = nil
		if err != nil {
			div.SecondCrash = m
			n.WaitExit(5 * time.Second)
		}
	}
	if err := n.Restart(false); err != nil {
		div.Kind = "startup-failed-after-crash"
		div.Diffs = []string{err.Error()}
		div.History = w.log
		run.Violation("c04", div)
		return
	}
	atomic.AddInt64(nruns, 1)
	got, err := snap.TakeCanon(n, c04SnapOpts())
	if err != nil {
		div.Kind = "snapshot-failed-after-recovery"
		div.Diffs = []string{err.Error()}
		div.History = w.log
		run.Violation("c04", div)
		return
	}
	// well-formedness of the recovered metadata
	var repos map[string]dagm.RepoInfo
	r, _ := n.HTTP("GET", "/api/repos/info", nil)
	json.Unmarshal(r.Bytes(), &repos)
	if wf := dagm.WellFormed(repos); len(wf) > 0 {
		div.Kind = "metadata-not-well-formed-after-recovery"
		div.Diffs = wf
		div.History = w.log
		run.Violation("c04", div)
		return
	}
	// all-or-nothing: the recovered state equals the state after the acknowledged operations,
	// or additionally contains the whole interrupted operation
	dk := snap.Diff(ref.snaps[acked], got)
	if len(dk) == 0 {
		run.Eval(fmt.Sprintf("w%d|%s|absent", crashAt, when))
		return
	}
	if acked < len(ref.kinds) {
		d1 := snap.Diff(ref.snaps[acked+1], got)
		if len(d1) == 0 {
			run.Eval(fmt.Sprintf("w%d|%s|present", crashAt, when))
			return
		}
		kind := ref.kinds[acked]
		if !atomicKinds[kind] {
			// multi-key data operation: the entries the complete operation changes (all inside the
			// instance it writes) may show a partial result, but must answer; every other entry -
			// other instances, the same instance at versions the operation does not reach, reads the
			// operation leaves alone - must be as after the acknowledged operations
			in := ref.inst[acked]
			// (the instance's own derived settings inside the repo blob - a ROI's MinZ/MaxZ, an image
			// volume's extents - belong to the instance: a half-applied operation may leave them at an
			// intermediate value)
			blank := func(key, body string) string { return blankInstanceSettings(key, body, in) }
			refK, refK1, got := snap.Transform(ref.snaps[acked], blank), snap.Transform(ref.snaps[acked+1], blank), snap.Transform(got, blank)
			changed := map[string]bool{}
			for _, d := range snap.Diff(refK, refK1) {
				if i := strings.Index(d, ": "); i >= 0 && strings.HasPrefix(d, "data/"+in+"@") {
					changed[d[:i]] = true
				}
			}
			// (an entry outside the instance that the complete operation changes - e.g. the extents in
			// the repo blob - is a single key: old or new)
			rest := snap.DiffFiltered(refK, got, func(key string) bool { return !changed[key] })
			if len(rest) > 0 {
				after := map[string]bool{}
				for _, d := range snap.DiffFiltered(refK1, got, func(key string) bool { return !changed[key] }) {
					if i := strings.Index(d, ": "); i >= 0 {
						after[d[:i]] = true
					}
				}
				var both []string
				for _, d := range rest {
					if i := strings.Index(d, ": "); i >= 0 && !after[d[:i]] {
						continue // this entry has the value it has after the complete operation
					}
					both = append(both, d)
				}
				rest = both
			}
			for _, e := range got.Entries {
				if changed[e.Key] && e.Status >= 500 {
					rest = append(rest, fmt.Sprintf("%s: status %d %s (a half-applied operation must still read)", e.Key, e.Status, e.Body))
				}
			}
			if len(rest) == 0 {
				run.Eval(fmt.Sprintf("w%d|%s|partial-multikey", crashAt, when))
				return
			}
			dk = rest
		}
	}
	if acked < len(ref.kinds) && ref.kinds[acked] == "repoinfo" && run.KnownActive(c04RepoInfoTwoWrites) {
		// known finding: POST repo/info saves alias and description separately; a crash between the
		// two saves leaves exactly the new alias with the old description
		blank := func(_, b string) string { return aliasRe.ReplaceAllString(b, `"Alias":"*"`) }
		blankBoth := func(_, b string) string { return descRe.ReplaceAllString(aliasRe.ReplaceAllString(b, `"Alias":"*"`), `"Description":"*"`) }
		if len(snap.Diff(snap.Transform(ref.snaps[acked], blank), snap.Transform(got, blank))) == 0 &&
			len(snap.Diff(snap.Transform(ref.snaps[acked+1], blankBoth), snap.Transform(got, blankBoth))) == 0 {
			run.ReportKnown(c04RepoInfoTwoWrites)
			run.Eval(fmt.Sprintf("w%d|%s|known-alias-only", crashAt, when))
			return
		}
	}
	div.Kind = "acknowledged-work-lost-or-half-applied"
	div.Diffs = dk
	if len(div.Diffs) > 12 {
		div.Diffs = div.Diffs[:12]
	}
	div.History = w.log
	run.Violation("c04", div)
}

type logRecObs struct {
	Type uint16 `json:"type"`
	Len  int    `json:"len"`
	Sha  string `json:"sha"`
}

type logReadObs struct {
	ReadAll    []logRecObs `json:"readall"`
	ReadAllErr string      `json:"readall_err"`
	Stream     []logRecObs `json:"stream"`
	StreamErr  string      `json:"stream_err"`
}

func shaHex(p []byte) string {
	h := sha1.Sum(p)
	return hex.EncodeToString(h[:])
}

// logFrameExpect runs LogFrame.tla for the given payload sizes: the number of complete records
// for every file length, and the number of records a reader must return after the log was
// reopened and one more record appended at that length.
func logFrameExpect(c *Ctx, sizes []int, headerLen int) (want, wantAfterAppend []int, distinct, generated int64) {
	var sb strings.Builder
	sb.WriteString("---- MODULE LogFrameSizes ----\nSizesDef == <<")
	for i, s := range sizes {
		if i > 0 {
			sb.WriteString(", ")
		}
		fmt.Fprint(&sb, s)
	}
	sb.WriteString(">>\n====\n")
	mc := "---- MODULE LogFrame_mc ----\nEXTENDS LogFrame, LogFrameSizes\n====\n"
	cfg := fmt.Sprintf("SPECIFICATION Spec\nCONSTANTS\n  Sizes <- SizesDef\n  HeaderLen = %d\nINVARIANTS Inv_ReadIsPrefix Inv_NoPartial Inv_ReadTornGenuine Inv_AppendAfterTorn Emit EmitAppend\nCHECK_DEADLOCK FALSE\n", headerLen)
	r := c.MustModelCheck(tlc.Opts{Module: "LogFrame_mc", Config: "gen_log.cfg", Workers: 1,
		Files: map[string][]byte{"LogFrameSizes.tla": []byte(sb.String()), "LogFrame_mc.tla": []byte(mc), "gen_log.cfg": []byte(cfg)}})
	PrintedJSON(r.Output, func(raw []byte) {
		var o struct {
			AfterAppend []int `json:"after_append"`
		}
		if json.Unmarshal(raw, &o) == nil && len(o.AfterAppend) > 0 {
			wantAfterAppend = o.AfterAppend
			return
		}
		json.Unmarshal(raw, &want)
	})
	if len(want) == 0 || len(wantAfterAppend) != len(want) {
		infra("LogFrame emitted %d / %d expectations: %s", len(want), len(wantAfterAppend), r.Tail(1000))
	}
	return want, wantAfterAppend, r.Distinct, r.Generated
}

// tornLogs appends records to a filelog, then leaves the file torn at every byte length and
// reads it back through ReadAll and StreamAll (type, length and digest of every record); then
// one more record is appended to the torn file and the log read again: exactly the complete
// old records and the new one.
func tornLogs(c *Ctx, run *ev.Run, sizes []int) (int64, int64, int64) {
	want, wantApp, distinct, generated := logFrameExpect(c, sizes, 6)
	n := c.StartNode(node.Config{})
	defer c.DropNode(n)
	data, ver := dagm.RandHex(), dagm.RandHex()
	type rec struct {
		Type uint16
		Len  int
		Sha  string
	}
	var recs []rec
	for i, sz := range sizes {
		p := make([]byte, sz)
		for j := range p {
			p[j] = byte(1 + (i*31+j*7)%250) // never zero: zero padding is then recognisable
		}
		must(n.Call("log.append", map[string]interface{}{"store": "mlog", "data": data, "version": ver, "type": i + 1,
			"payload": base64.StdEncoding.EncodeToString(p)}, nil), "log.append")
		recs = append(recs, rec{uint16(i + 1), sz, shaHex(p)})
	}
	newP := make([]byte, sizes[0])
	for j := range newP {
		newP[j] = byte(251 + j%4)
	}
	newRec := rec{99, len(newP), shaHex(newP)}
	path := filepath.Join(n.Cfg.Dir, "flog", data+"-"+ver)
	full, err := os.ReadFile(path)
	must(err, "read log file")
	if len(full)+1 != len(want) {
		// every append was acknowledged: the file must hold exactly the framed records
		run.Violation("c04-log", map[string]interface{}{"kind": "acknowledged-appends-not-in-the-log-file", "record_payload_sizes": sizes,
			"diffs": []string{fmt.Sprintf("log file has %d bytes after %d acknowledged appends, the framed records take %d", len(full), len(sizes), len(want)-1)}})
		return distinct, generated, 0
	}
	var evals int64
	for L := 0; L <= len(full); L++ {
		must(os.WriteFile(path, full[:L], 0644), "truncate")
		var res logReadObs
		err := n.Call("log.read", map[string]string{"store": "mlog", "data": data, "version": ver}, &res)
		must(err, "log.read")
		evals++
		run.Eval(fmt.Sprintf("torn|%v|%d", sizes, L))
		var diffs []string
		check := func(name string, got []logRecObs, errs string, exp []rec) {
			if strings.HasPrefix(errs, "PANIC") {
				diffs = append(diffs, fmt.Sprintf("%s panicked: %s", name, errs))
				return
			}
			if len(got) != len(exp) {
				diffs = append(diffs, fmt.Sprintf("%s returned %d records, %d are complete", name, len(got), len(exp)))
			}
			for i := 0; i < len(got) && i < len(exp); i++ {
				if got[i].Type != exp[i].Type || got[i].Len != exp[i].Len {
					diffs = append(diffs, fmt.Sprintf("%s record %d: type %d len %d, written type %d len %d", name, i+1, got[i].Type, got[i].Len, exp[i].Type, exp[i].Len))
				} else if got[i].Sha != exp[i].Sha {
					diffs = append(diffs, fmt.Sprintf("%s record %d (type %d, %d bytes): payload digest %s, written %s", name, i+1, got[i].Type, got[i].Len, got[i].Sha, exp[i].Sha))
				}
			}
		}
		check("ReadAll", res.ReadAll, res.ReadAllErr, recs[:want[L]])
		check("StreamAll", res.Stream, res.StreamErr, recs[:want[L]])
		if len(diffs) > 0 {
			run.Violation("c04-log", map[string]interface{}{"kind": "torn-log-read", "record_payload_sizes": sizes, "file_length": L,
				"complete_records": want[L], "diffs": diffs})
			continue
		}
		// append after the torn tail (the next process continues the log)
		must(n.Call("log.append", map[string]interface{}{"store": "mlog", "data": data, "version": ver, "type": 99,
			"payload": base64.StdEncoding.EncodeToString(newP)}, nil), "log.append")
		var res2 logReadObs
		must(n.Call("log.read", map[string]string{"store": "mlog", "data": data, "version": ver}, &res2), "log.read")
		evals++
		run.Eval(fmt.Sprintf("torn-append|%v|%d", sizes, L))
		exp := append(append([]rec{}, recs[:wantApp[L]-1]...), newRec)
		check("ReadAll after append", res2.ReadAll, res2.ReadAllErr, exp)
		check("StreamAll after append", res2.Stream, res2.StreamErr, exp)
		if len(diffs) > 0 {
			if L < len(full) && want[L] < len(recs) && L != endOfRecords(sizes, want[L], 6) && run.KnownActive(c04AppendAfterTorn) {
				run.ReportKnown(c04AppendAfterTorn)
				continue
			}
			run.Violation("c04-log", map[string]interface{}{"kind": "append-after-torn-tail", "record_payload_sizes": sizes, "file_length": L,
				"complete_records": want[L], "diffs": diffs})
		}
	}
	return distinct, generated, evals
}

func endOfRecords(sizes []int, k, headerLen int) int {
	e := 0
	for i := 0; i < k; i++ {
		e += headerLen + sizes[i]
	}
	return e
}

const c04AppendAfterTorn = "filelog-append-after-torn-tail"

func checkC04(c *Ctx) int {
	run := ev.NewRun("C04", c.Tier, "model_checking")
	t0 := time.Now()
	pm := modelCheckPersist(c)
	states, trans := pm.States, pm.Trans
	nw := checkWriteConformance(c, run, "C04", pm.WriteTable)
	// torn logs
	var tornEvals int64
	for _, sizes := range [][]int{{0, 5, 3}, {300, 1, 40}, {7}} {
		s, t, e := tornLogs(c, run, sizes)
		states += s
		trans += t
		tornEvals += e
	}
	// a torn store state the crash runs hit only rarely (about once in 200 kills): the process dies
	// right after the store created a new, still empty memtable file
	{
		n := c.StartNode(node.Config{})
		w := c04World(n, c.Seed)
		for i := 0; i < 8; i++ {
			_, err := w.step()
			must(err, "world step")
		}
		must(n.Idle(), "idle")
		before, err := snap.TakeCanon(n, c04SnapOpts())
		must(err, "snapshot")
		n.Kill()
		mems, _ := filepath.Glob(filepath.Join(n.Cfg.Dir, "db", "*.mem"))
		next := 1
		for _, m := range mems {
			var k int
			fmt.Sscanf(filepath.Base(m), "%d.mem", &k)
			if k >= next {
				next = k + 1
			}
		}
		must(os.WriteFile(filepath.Join(n.Cfg.Dir, "db", fmt.Sprintf("%05d.mem", next)), nil, 0644), "create empty memtable file")
		run.Eval("empty-memtable-file")
		if err := n.Restart(false); err != nil {
			run.Violation("c04", c04Divergence{Kind: "startup-failed-after-crash", Interrupted: "process killed right after the store created an empty memtable file",
				Diffs: []string{err.Error()}, History: w.log})
		} else {
			after, err := snap.TakeCanon(n, c04SnapOpts())
			must(err, "snapshot")
			if d := snap.Diff(before, after); len(d) > 0 {
				run.Violation("c04", c04Divergence{Kind: "acknowledged-work-lost-or-half-applied", Interrupted: "empty memtable file", Diffs: d, History: w.log})
			}
		}
		c.DropNode(n)
	}
	// crash enumeration
	workloads := c.pick(1, 3)
	length := c.pick(24, 40)
	var nruns int64
	totalPoints := 0
	for wl := 0; wl < workloads; wl++ {
		seed := c.Seed*100 + int64(wl)
		ref := runReference(c, seed, length)
		first, last := ref.counts[0]+1, ref.counts[len(ref.counts)-1]
		type point struct {
			n      uint64
			after  bool
			second bool
		}
		var pts []point
		for n := first; n <= last; n++ {
			pts = append(pts, point{n, false, false}, point{n, true, false})
			if n%4 == 0 || c.thorough() {
				pts = append(pts, point{n, n%8 == 0, true})
			}
		}
		totalPoints += len(pts)
		if wl == 0 {
			run.Sample(map[string]interface{}{"workload": ref.ops, "store_writes": last - first + 1, "crash_points": len(pts)})
		}
		parallel(len(pts), 12, func(_, i int) {
			crashRun(c, run, ref, seed, pts[i].n, pts[i].after, pts[i].second, &nruns)
		})
		if wl == 0 {
			// a crash inside the very first start-up; a crash inside the background deletion of an instance
			nruns += firstStartCrash(c, run, ref, seed)
			nruns += deletionCrash(c, run, seed)
			// a crash inside the deletion of a repository (DeleteRepoProg, with a bystander repo)
			ds, dt := deleteRepoModel(c)
			states += ds
			trans += dt
			nruns += deleteRepoCrash(c, run, seed, pm.WriteTable)
		}
	}
	// crashes inside labelmap operations (LabelmapCrash.tla)
	small := lmm.NewGeom(c.Seed, true)
	graphs := lmcGraphs(c, small)
	lmStates, lmTrans, lmRuns := lmCrashCheck(c, run, small, graphs)
	states += lmStates
	trans += lmTrans
	// torn mapping / mutation logs of a real labelmap instance, append after a torn tail
	rlStates, rlTrans, rlRuns := realLogCheck(c, run, graphs[0], small, lmcLayouts[0].initSV)
	states += rlStates
	trans += rlTrans
	lmRuns += rlRuns
	run.Set("states", states)
	run.Set("transitions", trans)
	run.Set("traces_validated_against_impl", nruns+tornEvals+int64(nw)+lmRuns)
	run.Set("crash_points", totalPoints)
	run.Set("crash_runs_recovered_and_compared", nruns)
	run.Set("torn_log_lengths", tornEvals)
	run.Set("rule", "fault = process exit injected by the wrapping store engine immediately before / after the N-th store write of a seeded workload, for every N (plus a second crash inside the recovery start-up), then a normal start-up, well-formedness of the metadata and comparison of the canonical full snapshot with the fault-free reference after k and k+1 operations (all-or-nothing for repo-level and single-key operations incl. neuronjson key writes; for a multi-key data operation only the snapshot entries the complete operation changes may differ, and must answer); the same at every write of the very first start-up on empty stores (the workload then runs as on a server that never crashed) and at every write of the background deletion of a data instance (entirely present or, after the resumed deletion, entirely absent) and of the deletion of a repository beside a bystander repo (DeleteRepoProg of DvidPersist.tla, model-checked with a bystander by DvidPersistDel_mc incl. a vacuity guard: the program with the blob deleted last must violate Inv_C04_StartupSucceeds; on the server: start-up, well-formed metadata, snapshot = before or = after the completed deletion, then a repo is created and must survive one more restart unchanged). Label data (LabelmapCrash.tla): a process exit before / after every store write and before / after / inside (torn record) every log append of the ingest of a block (POST raw, POST blocks), merge, cleave, split-supervoxel and a mutating voxel write on a 4-block labelmap; after recovery the committed parent and a sibling version holding acknowledged work are compared with the specification's full observation, every single-key cell of the interrupted version (block, label index, mapping record) must hold its value before or after the operation (values projected from the specification's observations and its mapping writes), an operation found entirely absent / present must read as the source / target state on the full read set (an absent one is issued again and must then read as the target state), a half-applied one must answer every read without a server error. Logs: every byte length of a filelog file compared with LogFrame.tla's complete-record count through ReadAll and StreamAll (type, length and payload digest), then one more record appended to the torn file and read back (old complete records + the new one); on a real labelmap instance the mapping log and the mutation log (.plog) are left torn at lengths inside the records of an acknowledged merge / split-supervoxel / cleave, a new process started (mapping cells old or new, no invented mapping, GET mutations and mutations-range valid JSON of exactly the complete records), one more operation acknowledged, the process killed and started again (its mapping and mutation records must be readable); distinct = distinct (write, when, outcome) / (sizes, length) / (operation, write, when, outcome) / (scenario, file, length)")
	run.Assume = []string{"a Badger transaction / batch flush is atomic (crash granularity = store API call; DeleteAll of an instance counts as one call)", "page cache survives process exit",
		"labelmap crash runs use 6-region layouts of a 4-block volume; mutating voxel writes are restricted to regions lying in one block (one request)"}
	fmt.Printf("C04: tlc %d states; %d crash points, %d recovered+compared, %d torn lengths, %d labelmap crash / torn-log runs in %.1fs; violations=%d\n",
		states, totalPoints, nruns, tornEvals, lmRuns, since(t0), run.Violations())
	return run.Finish()
}
