package main

import (
	"encoding/json"
	"fmt"
	"time"

	"verifharness/internal/lmm"
	"verifharness/internal/tlc"
)

// lmcOp is the operation record LabelmapCrash.tla keeps for the operation in flight.
type lmcOp struct {
	Op    string `json:"op"`
	Block int    `json:"block,omitempty"`
	NW    int    `json:"nw"`
	Shape []struct {
		N int    `json:"n"`
		K string `json:"k"`
	} `json:"shape"`
}

// lmcEdge is one acknowledged operation of the crash model: source / target state, the
// operation, the shape of its write program and the bodies it names.
type lmcEdge struct {
	S       lmm.Key    `json:"s"`
	L       lmm.Op     `json:"l"`
	T       lmm.Key    `json:"t"`
	C       lmcOp      `json:"c"`
	Touched []uint64   `json:"touched"`
	Ing     int        `json:"ing"`
	MapW    lmm.MapU64 `json:"mapw"` // mapping cells the operation's log records write: supervoxel -> body (0 = retired)
	SObs    lmm.Obs    `json:"-"`
	TObs    lmm.Obs    `json:"-"`
	Depth   int        `json:"-"` // depth of the source state
}

type lmcGraph struct {
	initKey  lmm.Key
	initObs  lmm.Obs
	ingest   []lmcEdge // ingest of block 1..NB
	edges    []lmcEdge // proofreading / voxel operations, by BFS depth of the source
	obsOf    map[string]lmm.Obs
	depthOf  map[string]int
	parentOf map[string]int // edge index leading to a state first (-1 = initial)
	States   int64
	Trans    int64
}

func lmcConfig(g *lmm.Geom, initMax uint64, maxOps, maxCrashes int, emit, overwrite bool) string {
	s := fmt.Sprintf("CONSTANTS\n  R = %d\n  NB = %d\n  NVox <- NVoxDef\n  InitSV <- InitSVDef\n  InitMax = %d\n  MaxOps = %d\n  Classes1 <- Classes1Def\n  Classes2 <- Classes2Def\n  WithOverwrite = %s\n  WithSplit = FALSE\n  MaxCrashes = %d\n",
		g.R, len(g.Blocks), initMax, maxOps, map[bool]string{true: "TRUE", false: "FALSE"}[overwrite], maxCrashes)
	if emit {
		return "SPECIFICATION CSpecEmit\n" + s + "VIEW CView\nINVARIANTS EmitObs\nCHECK_DEADLOCK FALSE\n"
	}
	return "SPECIFICATION CSpec\n" + s + "VIEW CView\nINVARIANTS Inv_C04_AckedVisible Inv_C04_UntouchedIntact Inv_C04_CellPreOrPost Inv_C12_CounterCovers Inv_C08_Conservation Inv_C12_NewLabelsFresh\nCHECK_DEADLOCK FALSE\n"
}

// lmcExplore model-checks LabelmapCrash.tla (a crash between any two writes of any operation's
// program, recovery without repair) for one layout and returns the operations with their
// programs and the expected observation of every quiescent state.
func lmcExplore(c *Ctx, g *lmm.Geom, initSV []uint64, maxOps int, overwrite bool) *lmcGraph {
	files := map[string][]byte{"LabelGeom.tla": []byte(g.TLAConstantsDownres(initSV, nil, nil))}
	files["gen_lmc_mc.cfg"] = []byte(lmcConfig(g, maxU64(initSV), maxOps, 1, false, overwrite))
	mc := c.MustModelCheck(tlc.Opts{Module: "LabelmapCrash_mc", Config: "gen_lmc_mc.cfg", Files: files, Timeout: 20 * time.Minute})
	files["gen_lmc_emit.cfg"] = []byte(lmcConfig(g, maxU64(initSV), maxOps, 0, true, overwrite))
	r := c.MustModelCheck(tlc.Opts{Module: "LabelmapCrash_mc", Config: "gen_lmc_emit.cfg", Files: files, Workers: 1, Timeout: 20 * time.Minute})
	gr := &lmcGraph{obsOf: map[string]lmm.Obs{}, depthOf: map[string]int{}, parentOf: map[string]int{}, States: mc.Distinct, Trans: mc.Generated}
	var raws []lmcEdge
	haveInit := false
	PrintedJSON(r.Output, func(raw []byte) {
		var probe struct {
			K   *lmm.Key `json:"k"`
			D   int      `json:"d"`
			Obs lmm.Obs  `json:"obs"`
		}
		if json.Unmarshal(raw, &probe) == nil && probe.K != nil {
			k := probe.K.Canon()
			if _, ok := gr.obsOf[k]; !ok {
				gr.obsOf[k] = probe.Obs
			}
			if probe.D == 0 && !haveInit {
				haveInit = true
				gr.initKey, gr.initObs = *probe.K, probe.Obs
			}
			return
		}
		var e lmcEdge
		if json.Unmarshal(raw, &e) == nil && e.C.Op != "" {
			raws = append(raws, e)
		}
	})
	if !haveInit {
		infra("LabelmapCrash_mc emitted no initial state: %s", r.Tail(2000))
	}
	gr.depthOf[gr.initKey.Canon()] = 0
	gr.parentOf[gr.initKey.Canon()] = -1
	seen := map[string]bool{}
	for _, e := range raws {
		if e.C.Op == "ingest" {
			if !seen[fmt.Sprint("ingest", e.C.Block)] {
				seen[fmt.Sprint("ingest", e.C.Block)] = true
				gr.ingest = append(gr.ingest, e)
			}
			continue
		}
		sk, tk := e.S.Canon(), e.T.Canon()
		sig := sk + "|" + jsonStr(e.L) + "|" + tk
		if seen[sig] {
			continue
		}
		seen[sig] = true
		d, ok := gr.depthOf[sk]
		if !ok {
			infra("crash model: operation from an undiscovered state")
		}
		so, ok1 := gr.obsOf[sk]
		to, ok2 := gr.obsOf[tk]
		if !ok1 || !ok2 {
			continue
		}
		e.SObs, e.TObs, e.Depth = so, to, d
		if e.L.Op == "overwrite" {
			e.L.NewSV = e.T.SV
			e.L.OldSV = e.S.SV
		}
		gr.edges = append(gr.edges, e)
		if _, ok := gr.depthOf[tk]; !ok {
			gr.depthOf[tk] = d + 1
			gr.parentOf[tk] = len(gr.edges) - 1
		}
	}
	if len(gr.ingest) != len(g.Blocks) || len(gr.edges) == 0 {
		infra("LabelmapCrash_mc emitted %d ingest steps and %d operations: %s", len(gr.ingest), len(gr.edges), r.Tail(2000))
	}
	return gr
}

// pathTo returns the edges leading from the initial state to state k.
func (gr *lmcGraph) pathTo(k string) []lmcEdge {
	var rev []lmcEdge
	for {
		p, ok := gr.parentOf[k]
		if !ok || p < 0 {
			break
		}
		rev = append(rev, gr.edges[p])
		k = gr.edges[p].S.Canon()
	}
	for i, j := 0, len(rev)-1; i < j; i, j = i+1, j-1 {
		rev[i], rev[j] = rev[j], rev[i]
	}
	return rev
}
