package main

// C10, growth: sequences of two operations on RICH-PALETTE blocks (specs/LabelBlockRich.tla): the
// initial block is a dense class of C09 (every sub-block its own palette of up to 512 labels,
// shared labels, label 0 inside palettes, 16^3 .. 32x16x16 and one 64^3 block), the
// operations are MergeLabels (target present / absent), ReplaceLabel (onto a fresh label, an
// existing label, label 0), ReplaceLabels (swap, chain), Split, SplitSupervoxel and
// SplitSupervoxels with arguments read off the current block; TLC gives the palettes of every
// sub-block after every step and the voxel counts every step must return.

import (
	"encoding/json"
	"fmt"
	"math/rand"
	"sort"
	"time"

	"verifharness/internal/ev"
	lg "verifharness/internal/lblgeom"
	"verifharness/internal/tlc"
)

type richOp struct {
	Op  string  `json:"op"`
	T   int     `json:"t"`
	N   int     `json:"n"`
	M   []int   `json:"m"`
	Map [][]int `json:"map"`
	S   []int   `json:"s"`
	Sv  int     `json:"sv"`
	Sl  int     `json:"sl"`
	Rl  int     `json:"rl"`
}

type richStep struct {
	// init
	Op   string `json:"op"`
	DCls *struct {
		Wa int `json:"wa"`
		Wb int `json:"wb"`
		V  int `json:"v"`
	} `json:"dcls"`
	Dims   [3]int  `json:"dims"`
	LClass string  `json:"lclass"`
	Lay    []int   `json:"lay"`
	Res    [][]int `json:"res"`
	// steps
	O   *richOp `json:"o"`
	Ret struct {
		Replaced *int  `json:"replaced"`
		Some     *bool `json:"some"`
		Nil      *bool `json:"nil"`
		Kept     *int  `json:"kept"`
		Split    *int  `json:"split"`
	} `json:"ret"`
}

type richBeh []richStep

func (b richBeh) key() string {
	s := fmt.Sprintf("rich w%d.%d %dx%dx%d:", b[0].DCls.Wa, b[0].DCls.Wb, b[0].Dims[0], b[0].Dims[1], b[0].Dims[2])
	for _, st := range b[1:] {
		s += fmt.Sprintf(" %s%v%v%v", st.O.Op, st.O.T, st.O.N, st.O.Sv)
	}
	return s
}

var c10RichOps = map[string]int{}

func c10RichCase(b richBeh, id int, rng *rand.Rand) (*lg.Case, []uint64) {
	g := lg.Geometry{Size: b[0].Dims}
	nsb := g.NumSB()
	if nsb != len(b[0].Res) {
		infra("rich behaviour: %d palettes for %d sub-blocks", len(b[0].Res), nsb)
	}
	g.SBs = make([]lg.SB, nsb)
	for q := range g.SBs {
		g.SBs[q] = lg.SB{Scheme: lg.W, Regions: []int{q + 1}}
	}
	m := labelMap(b[0].LClass, 2040, rng)
	if b[0].LClass == "top" {
		// the largest concrete labels on labels in use: the first non-zero label of the first multi-label palette
		for _, p := range b[0].Res {
			if len(p) > 1 {
				a := p[0]
				if a == 0 {
					a = p[1]
				}
				m[len(m)-1], m[a] = m[a], m[len(m)-1]
				break
			}
		}
	}
	c := &lg.Case{ID: id, Geom: g, Lay: b[0].Lay, Seed: rng.Int63(), StepViews: true, RLEPres: id % 3}
	c.BCoord = [3]int32{int32(rng.Intn(5)) - 2, int32(rng.Intn(5)) - 1, int32(rng.Intn(300)) - 100}
	var first, wide uint64
	for _, p := range b[0].Res {
		cp := make([]uint64, len(p))
		for i, a := range p {
			cp[i] = m[a]
			if first == 0 && a != 0 {
				first = m[a]
			}
		}
		if len(p) >= 3 && p[len(p)/2] != 0 {
			wide = m[p[len(p)/2]]
		}
		c.Pal = append(c.Pal, cp)
	}
	c.Sets = [][]uint64{{first}, {first, wide, m[2000], m[2010]}}
	for _, st := range b[1:] {
		o := st.O
		s := lg.Step{Op: o.Op, S: o.S, Marshal: rng.Intn(3) == 0}
		switch o.Op {
		case "merge":
			s.T = m[o.T]
			for _, a := range o.M {
				s.M = append(s.M, m[a])
			}
		case "replace", "split":
			s.T, s.N = m[o.T], m[o.N]
		case "replacelabels":
			for _, p := range o.Map {
				s.Map = append(s.Map, [2]uint64{m[p[0]], m[p[1]]})
			}
		case "splitsv":
			s.T, s.N, s.M = m[o.Sv], m[o.Sl], []uint64{m[o.Rl]}
		case "splitsvs":
			for _, t := range o.Map {
				s.SVMap = append(s.SVMap, [3]uint64{m[t[0]], m[t[1]], m[t[2]]})
			}
		default:
			infra("rich behaviour: unknown op %q", o.Op)
		}
		c.Steps = append(c.Steps, s)
	}
	return c, m
}

func c10RichCompare(run *ev.Run, b richBeh, c *lg.Case, m []uint64, o *lg.CaseObs) int {
	viol := func(kind string, step int, exp, obs interface{}) {
		// the palettes of a rich block are long: the replay file keeps the operations and the case
		ops := []*richOp{}
		for _, st := range b[1:] {
			ops = append(ops, st.O)
		}
		run.Violation("c10", c10Divergence{Kind: kind, Step: step, Case: map[string]interface{}{"initial_class": b[0].DCls, "operations": ops, "case": c}, Expected: exp, Observed: obs})
	}
	if o.Err != "" {
		infra("labels.run case %d: %s", c.ID, o.Err)
	}
	if o.Panic != "" || o.MakeErr != "" || !o.RoundTrip {
		viol("rich:initial-block", 0, nil, o.Panic+o.MakeErr+o.Detail)
		return 0
	}
	n := 0
	for i, so := range o.Steps {
		st := b[i+1]
		step := i + 1
		op := st.O.Op
		if so.Panic != "" {
			viol("rich:panic:"+op, step, nil, so.Panic)
			return n
		}
		if so.Err != "" {
			viol("rich:error:"+op, step, nil, so.Err)
			return n
		}
		n++
		c10RichOps[op]++
		switch op {
		case "replace":
			if st.Ret.Replaced == nil || so.Replaced != uint64(*st.Ret.Replaced) {
				viol("rich:replace-size", step, st.Ret.Replaced, so.Replaced)
			}
		case "replacelabels":
			if st.Ret.Some != nil && *st.Ret.Some && !so.ReplacedAny {
				viol("rich:replacelabels-flag", step, true, false)
			}
		case "split":
			if st.Ret.Nil == nil || so.Nil != *st.Ret.Nil {
				viol("rich:split-nil", step, st.Ret.Nil, so.Nil)
			}
			if so.Kept != uint64(*st.Ret.Kept) || so.Split != uint64(*st.Ret.Split) {
				viol("rich:split-counts", step, [2]int{*st.Ret.Kept, *st.Ret.Split}, [2]uint64{so.Kept, so.Split})
			}
		case "splitsv":
			if so.Kept != uint64(*st.Ret.Kept) || so.Split != uint64(*st.Ret.Split) {
				viol("rich:splitsv-counts", step, [2]int{*st.Ret.Kept, *st.Ret.Split}, [2]uint64{so.Kept, so.Split})
			}
		}
		if !so.Decoded.Uniform {
			viol("rich:result:"+op, step, nil, so.Decoded.Bad)
			return n
		}
		for r, p := range st.Res {
			want := make([]uint64, len(p))
			for j, a := range p {
				want[j] = m[a]
			}
			if !u64Equal(want, so.Decoded.Atoms[r]) {
				viol("rich:result:"+op, step, map[string]interface{}{"sub_block": r, "palette": want}, so.Decoded.Atoms[r])
				return n
			}
		}
		if v := so.Views; v != nil {
			for name, ok := range map[string]bool{"CalcNumLabels": v.NumLabelsOK, "CalcNumLabels(prev)": v.DeltaOK, "Value": v.ValueOK,
				"GetPointLabels": v.PointsOK, "WriteLabelVolume": v.StreamOK, "Marshal-Unmarshal": v.MarshalOK} {
				if !ok {
					viol("rich:view-after-"+op+":"+name, step, "equal to the decoded volume of the result block", v.Detail)
				}
			}
			for si, sv := range v.Sets {
				maskInfra(&sv.RLE)
				maskInfra(&sv.Bin)
				if sv.RLE.Err != "" || !sv.RLE.OK {
					viol("rich:view-after-"+op+":WriteRLEs", step, c.Sets[si], sv.RLE.Err+" "+sv.RLE.Detail)
				}
				if sv.Bin.Err != "" || !sv.Bin.OK {
					viol("rich:view-after-"+op+":WriteBinaryBlocks", step, c.Sets[si], sv.Bin.Err+" "+sv.Bin.Detail)
				}
			}
		}
	}
	if len(o.Steps) != len(b)-1 {
		infra("rich case %d: %d step observations for %d steps", c.ID, len(o.Steps), len(b)-1)
	}
	return n
}

// c10Rich runs the rich-palette sequences; returns TLC's states / transitions, the number of
// behaviours and of steps replayed.
func c10Rich(c *Ctx, run *ev.Run, pool *lblPool, rng *rand.Rand) (states, trans int64, nBeh, steps int, tTLC float64) {
	t0 := time.Now()
	cfg := fmt.Sprintf("SPECIFICATION RSpec\nCONSTANTS\n  DimSel = 2\n  Variants = 1\n  VBase = %d\n  NClasses = %d\nINVARIANTS Inv_C10_RichClaims Inv_RichHist RichEmit\nCHECK_DEADLOCK FALSE\n",
		int(c.Seed%89), c.pick(3, 24))
	r := c.MustModelCheck(tlc.Opts{Module: "LabelBlockRich", Config: "gen_rich.cfg",
		Files: map[string][]byte{"gen_rich.cfg": []byte(cfg)}, Timeout: 20 * time.Minute, Xss: "256m"})
	tTLC = since(t0)
	var behs []richBeh
	PrintedJSON(r.Output, func(raw []byte) {
		var b richBeh
		if err := json.Unmarshal(raw, &b); err == nil && len(b) == 3 && b[0].Op == "init" && b[0].DCls != nil && b[1].O != nil {
			behs = append(behs, b)
		}
	})
	if len(behs) == 0 {
		infra("LabelBlockRich emitted nothing:\n%s", r.Tail(2000))
	}
	sort.Slice(behs, func(i, j int) bool { return behs[i].key() < behs[j].key() })
	cases := make([]*lg.Case, len(behs))
	maps := make([][]uint64, len(behs))
	for i, b := range behs {
		cases[i], maps[i] = c10RichCase(b, i, rng)
	}
	obs := pool.runCases(cases, 8)
	big := 0
	for i := range behs {
		steps += c10RichCompare(run, behs[i], cases[i], maps[i], &obs[i])
		run.Eval(behs[i].key())
		if cases[i].Geom.NumVoxels() >= 262144 {
			big++
		}
	}
	k := len(behs) / 2
	run.Sample(map[string]interface{}{"rich_initial_class": behs[k][0].DCls, "block": behs[k][0].Dims, "palette_sizes": palLens(behs[k][0].Res),
		"operations": []*richOp{behs[k][1].O, behs[k][2].O}, "returns_expected": []interface{}{behs[k][1].Ret, behs[k][2].Ret}})
	run.Set("rich_behaviours", len(behs))
	run.Set("rich_behaviours_on_64cubed", big)
	run.Set("rich_steps_by_operation", c10RichOps)
	run.Set("rich_tlc_s", tTLC)
	return r.Distinct, r.Generated, len(behs), steps, tTLC
}

func palLens(res [][]int) []int {
	out := make([]int, len(res))
	for i, p := range res {
		out[i] = len(p)
	}
	if len(out) > 64 {
		out = out[:64]
	}
	return out
}
