package main

// The world of the hostile driver (C20): one repo with every ingesting datatype, data
// at four versions (root and v1 committed, an open sibling "b", the open target "a"),
// a control part of every instance that no hostile request names, and a differential
// snapshot through the read API.

import (
	"crypto/sha1"
	"encoding/base64"
	"encoding/binary"
	"encoding/hex"
	"encoding/json"
	"errors"
	"fmt"
	"os"
	"sort"
	"strings"
	"sync/atomic"
	"time"

	pb "google.golang.org/protobuf/proto"

	"github.com/janelia-flyem/dvid/datatype/common/proto"

	"verifharness/internal/node"
	"verifharness/internal/snap"
)

const (
	c20BS = 32
	// control block (block coordinates) and labels: far (in Hamming distance) from anything a
	// mutation of a target coordinate / label can produce
	c20CtlBX, c20CtlBY, c20CtlBZ = 37, 29, 51
	c20CtlL1                     = uint64(0x5A5A5A5A5A01)
	c20CtlL2                     = uint64(0x5A5A5A5A5A02)
)

var c20CtlOff = [3]int{c20CtlBX * c20BS, c20CtlBY * c20BS, c20CtlBZ * c20BS}

type c20World struct {
	n        *node.Node
	root     string
	v1, b, a string
	nbranch  int
	ninst    int
	reads    []snap.Read
	cur      *c20Snap
	nreq     int
	nsnap    int
	timeout  time.Duration // for a hostile request
	baselineErrs []string  // well-formed reads of the fresh world answered 5xx
	kind       string // "main" | "vox" | "leg"
	scanned    int64  // position in the node's stderr up to which panic reports have been looked for
	goroutines int    // goroutines of the node after the last settle
	lastCommitted string // the version made by the last committedBranch()
	buildScanned  bool   // the stderr of the world's construction has been looked at
	buildNotIdle  string // the set-up requests left work behind that did not come to rest
}

// buildIdle waits for the background work of the set-up requests.  Work that does not come to rest
// (30 s) is remembered and reported by the driver as a departure of the well-formed set-up requests.
func (w *c20World) buildIdle() {
	if w.buildNotIdle != "" {
		return
	}
	if err := c20Idle(w.n); err != nil {
		if errors.Is(err, node.ErrDead) {
			must(err, "idle during world set-up")
		}
		w.buildNotIdle = err.Error()
	}
}

// committedBranch makes a new committed child of v1 on a branch of its own.
func (w *c20World) committedBranch() string {
	w.nbranch++
	w.ninst++
	u := w.branch(fmt.Sprintf("c%d", w.ninst))
	w.mustPost("/api/node/"+u+"/kv/key/cb", []byte(fmt.Sprintf(`"value at c%d"`, w.ninst)), "kv on a branch")
	w.mustPost("/api/node/"+u+"/commit", []byte(`{"note":"committed branch"}`), "commit a branch")
	w.lastCommitted = u
	return u
}

type c20Entry struct {
	Status int
	Digest string
	Body   string
}

type c20Snap struct {
	Keys []string
	M    map[string]c20Entry
}

func (w *c20World) post(url string, body []byte) (node.Resp, error) {
	w.nreq++
	return w.n.HTTP("POST", url, body)
}

func (w *c20World) mustPost(url string, body []byte, what string) node.Resp {
	r, err := w.post(url, body)
	must(err, what)
	if r.Status != 200 {
		infra("world setup: %s: %d %s", what, r.Status, r.Bytes())
	}
	return r
}

func (w *c20World) newInstance(typ, name string, extra map[string]string) {
	cfg := map[string]string{"typename": typ, "dataname": name}
	for k, v := range extra {
		cfg[k] = v
	}
	b, _ := json.Marshal(cfg)
	w.mustPost("/api/repo/"+w.root+"/instance", b, "instance "+name)
}

// labelAt is the label layout of the 64^3 target volume of "lm".
func c20LabelAt(x, y, z int) uint64 {
	if z < 32 {
		return uint64(1 + (x/16)%2 + 2*(y/32))
	}
	return uint64(5 + x/32)
}

func c20Volume(sx, sy, sz int, f func(x, y, z int) uint64) []byte {
	out := make([]byte, sx*sy*sz*8)
	i := 0
	for z := 0; z < sz; z++ {
		for y := 0; y < sy; y++ {
			for x := 0; x < sx; x++ {
				binary.LittleEndian.PutUint64(out[i:], f(x, y, z))
				i += 8
			}
		}
	}
	return out
}

func c20Gray(sx, sy, sz int, seed int) []byte {
	out := make([]byte, sx*sy*sz)
	for i := range out {
		out[i] = byte(1 + (i*7+seed)%250)
	}
	return out
}

func c20Elem(x, y, z int, kind string, tags []string, rel string, to [3]int) map[string]interface{} {
	e := map[string]interface{}{"Pos": []int{x, y, z}, "Kind": kind, "Tags": tags, "Prop": map[string]string{"conf": "0.9"}}
	if rel != "" {
		e["Rels"] = []map[string]interface{}{{"Rel": rel, "To": to[:]}}
	}
	return e
}

func c20OffStr(o [3]int) string { return fmt.Sprintf("%d_%d_%d", o[0], o[1], o[2]) }

// newC20WorldKind builds a world of the given kind on a fresh node.
func newC20WorldKind(c *Ctx, cfg node.Config, kind string) *c20World {
	switch kind {
	case "vox":
		return newC20VoxWorld(c, cfg)
	case "leg":
		return newC20LegWorld(c, cfg)
	}
	return newC20World(c, cfg)
}

// newC20World builds the world on a fresh node.
func newC20World(c *Ctx, cfg node.Config) *c20World {
	t0 := time.Now()
	defer func() { atomic.AddInt64(&c20WorldNanos, int64(time.Since(t0))); atomic.AddInt64(&c20WorldCount, 1) }()
	cfg.AllowSplit = true
	w := &c20World{n: c.StartNode(cfg), timeout: 30 * time.Second, kind: "main"}
	r := w.mustPost("/api/repos", []byte(`{"alias":"hostile","description":"C20"}`), "new repo")
	var out struct{ Root string }
	json.Unmarshal(r.Bytes(), &out)
	w.root = out.Root
	bs := fmt.Sprintf("%d,%d,%d", c20BS, c20BS, c20BS)
	for _, nm := range []string{"lm", "lm2", "lmi"} {
		w.newInstance("labelmap", nm, map[string]string{"BlockSize": bs})
	}
	w.newInstance("keyvalue", "kv", nil)
	w.newInstance("annotation", "ann", nil)
	w.newInstance("neuronjson", "nj", nil)
	w.newInstance("roi", "roi", map[string]string{"BlockSize": bs})
	w.newInstance("uint8blk", "gray", map[string]string{"BlockSize": bs})
	w.mustPost("/api/node/"+w.root+"/ann/sync", []byte(`{"sync":"lm"}`), "sync ann")

	u := w.root
	base := "/api/node/" + u
	// label data
	w.mustPost(base+"/lm/raw/0_1_2/64_64_64/0_0_0", c20Volume(64, 64, 64, c20LabelAt), "lm volume")
	ctlVol := c20Volume(32, 32, 32, func(x, y, z int) uint64 {
		if x < 16 {
			return c20CtlL1
		}
		return c20CtlL2
	})
	w.mustPost(base+"/lm/raw/0_1_2/32_32_32/"+c20OffStr(c20CtlOff), ctlVol, "lm control volume")
	w.mustPost(base+"/lm2/raw/0_1_2/32_32_32/0_0_0", c20Volume(32, 32, 32, func(x, y, z int) uint64 { return uint64(7 + y/16) }), "lm2 volume")
	w.buildIdle()
	// gray
	w.mustPost(base+"/gray/raw/0_1_2/64_64_64/0_0_0", c20Gray(64, 64, 64, 1), "gray volume")
	w.mustPost(base+"/gray/raw/0_1_2/32_32_32/"+c20OffStr(c20CtlOff), c20Gray(32, 32, 32, 2), "gray control volume")
	// key-values
	for _, k := range []string{"c1", "c2", "t1"} {
		w.mustPost(base+"/kv/key/"+k, []byte(`"value of `+k+` at root"`), "kv "+k)
	}
	// annotations: target block (0,0,0) and the control block
	cx, cy, cz := c20CtlOff[0], c20CtlOff[1], c20CtlOff[2]
	els := []map[string]interface{}{
		c20Elem(10, 10, 10, "PostSyn", []string{"t1"}, "PostSynTo", [3]int{20, 10, 10}),
		c20Elem(20, 10, 10, "PreSyn", []string{"t1", "t2"}, "PreSynTo", [3]int{10, 10, 10}),
		c20Elem(40, 40, 10, "Note", []string{"t2"}, "", [3]int{}),
		c20Elem(cx+6, cy+2, cz+8, "PostSyn", []string{"ctl"}, "PostSynTo", [3]int{cx + 20, cy + 2, cz + 8}),
		c20Elem(cx+20, cy+2, cz+8, "PreSyn", []string{"ctl"}, "PreSynTo", [3]int{cx + 6, cy + 2, cz + 8}),
	}
	eb, _ := json.Marshal(els)
	w.mustPost(base+"/ann/elements", eb, "ann elements")
	// neuron annotations
	for _, id := range []int{9001, 9002, 1001} {
		w.mustPost(fmt.Sprintf("%s/nj/key/%d?u=setup", base, id), []byte(fmt.Sprintf(`{"bodyid":%d,"type":"KC","status":"Traced","soma":[1,2,3],"syn":%d}`, id, id%7)), "nj key")
	}
	// roi
	w.mustPost(base+"/roi/roi", []byte(`[[0,0,0,1],[0,1,0,0],[1,1,1,2]]`), "roi")
	w.buildIdle()
	w.mustPost(base+"/commit", []byte(`{"note":"root"}`), "commit root")

	// v1
	r = w.mustPost(base+"/newversion", []byte(`{"note":"v1"}`), "newversion")
	var ch struct{ Child string }
	json.Unmarshal(r.Bytes(), &ch)
	w.v1 = ch.Child
	b1 := "/api/node/" + w.v1
	w.mustPost(b1+"/kv/key/t1", []byte(`"value of t1 at v1"`), "kv t1@v1")
	w.mustPost(b1+"/kv/key/c2", []byte(`"value of c2 at v1"`), "kv c2@v1")
	w.mustPost(b1+"/lm/merge", []byte(`[5,6]`), "merge 5<-6")
	eb, _ = json.Marshal([]map[string]interface{}{c20Elem(50, 20, 40, "Note", []string{"t1"}, "", [3]int{})})
	w.mustPost(b1+"/ann/elements", eb, "ann v1")
	w.mustPost(b1+"/nj/key/9002?u=setup", []byte(`{"bodyid":9002,"status":"Anchor"}`), "nj v1")
	w.mustPost(b1+"/roi/roi", []byte(`[[0,0,0,1],[2,2,0,3]]`), "roi v1")
	w.buildIdle()
	w.mustPost(b1+"/commit", []byte(`{"note":"v1"}`), "commit v1")

	// sibling b
	w.b = w.branch("ctl")
	bb := "/api/node/" + w.b
	w.mustPost(bb+"/kv/key/c3", []byte(`"value of c3 at b"`), "kv c3@b")
	w.mustPost(bb+"/lm/merge", []byte(`[3,4]`), "merge 3<-4 at b")
	w.mustPost(bb+"/nj/key/9003?u=setup", []byte(`{"bodyid":9003,"type":"MBON"}`), "nj b")
	eb, _ = json.Marshal([]map[string]interface{}{c20Elem(12, 50, 12, "Note", []string{"t2"}, "", [3]int{})})
	w.mustPost(bb+"/ann/elements", eb, "ann b")
	w.buildIdle()
	w.retarget()
	return w
}

func (w *c20World) branch(name string) string {
	r := w.mustPost("/api/node/"+w.v1+"/branch", []byte(fmt.Sprintf(`{"branch":%q,"note":%q}`, name, name)), "branch "+name)
	var ch struct{ Child string }
	json.Unmarshal(r.Bytes(), &ch)
	if ch.Child == "" {
		infra("branch: no child in %s", r.Bytes())
	}
	return ch.Child
}

// retarget opens a fresh target version (a child of v1) and takes a new baseline.
func (w *c20World) retarget() {
	w.nbranch++
	w.a = w.branch(fmt.Sprintf("t%d", w.nbranch))
	w.buildReads()
	w.cur = w.take()
	// the number of goroutines at rest, against which the growth after a request is measured
	var st struct {
		Goroutines int  `json:"goroutines"`
		Settled    bool `json:"settled"`
	}
	if err := w.n.Call("c20.settle", map[string]int{"wait_ms": 3000}, &st); err == nil && st.Settled {
		w.goroutines = st.Goroutines
	} else {
		w.goroutines = 0
	}
}

// c20SortRLEs sorts the spans of a binary sparse volume (their order depends on goroutine scheduling).
func c20SortRLEs(b []byte) []byte {
	if len(b) < 12 || (len(b)-12)%16 != 0 {
		return b
	}
	n := (len(b) - 12) / 16
	spans := make([]string, n)
	for i := 0; i < n; i++ {
		spans[i] = string(b[12+i*16 : 28+i*16])
	}
	sort.Strings(spans)
	return []byte(string(b[:12]) + strings.Join(spans, ""))
}

// c20NormIndex renders a protobuf label index canonically (map order is random on the wire).
func c20NormIndex(b []byte) []byte {
	var idx proto.LabelIndex
	if err := pb.Unmarshal(b, &idx); err != nil {
		return b
	}
	var blocks []string
	for zyx, svc := range idx.Blocks {
		var cs []string
		if svc != nil {
			for sv, n := range svc.Counts {
				cs = append(cs, fmt.Sprintf("%d:%d", sv, n))
			}
		}
		sort.Strings(cs)
		blocks = append(blocks, fmt.Sprintf("%016x{%s}", zyx, strings.Join(cs, ",")))
	}
	sort.Strings(blocks)
	return []byte(fmt.Sprintf("label %d mutid %d user %q app %q blocks %s", idx.Label, idx.LastMutid, idx.LastModUser, idx.LastModApp, strings.Join(blocks, " ")))
}

func c20SortLines(b []byte) []byte {
	ls := strings.Split(string(b), "\n")
	sort.Strings(ls)
	return []byte(strings.Join(ls, "\n"))
}

func c20DropTimes(b []byte) []byte {
	var v map[string]interface{}
	if json.Unmarshal(b, &v) != nil {
		return b
	}
	for k := range v {
		if strings.Contains(strings.ToLower(k), "time") {
			delete(v, k)
		}
	}
	out, _ := json.Marshal(v)
	return out
}

// c20RepoDAG keeps the DAG and repo-level fields of repo info (instances are read one by one).
func c20RepoDAG(b []byte) []byte {
	var v map[string]interface{}
	if json.Unmarshal(b, &v) != nil {
		return b
	}
	delete(v, "DataInstances")
	out, _ := json.Marshal(v)
	return snap.NormJSON(out)
}

func c20InstanceNames(b []byte) []byte {
	var v struct{ DataInstances map[string]json.RawMessage }
	if json.Unmarshal(b, &v) != nil {
		return b
	}
	m := map[string]bool{}
	for k := range v.DataInstances {
		m[k] = true
	}
	out, _ := json.Marshal(sortedKeys(m))
	return out
}

// buildReads lists the reads of the snapshot.  Key layout:
//
//	meta/...                     repo level
//	inst/<i>/...                 instance-wide (unversioned) state of instance i
//	data/<i>@<uuid>/C/...        control part (never named by a hostile request)
//	data/<i>@<uuid>/T/...        target part (named by requests to i at the target version)
func (w *c20World) buildReads() {
	switch w.kind {
	case "vox":
		w.buildReadsVox()
		return
	case "leg":
		w.buildReadsLeg()
		return
	}
	var rs []snap.Read
	add := func(key, url string, norm func([]byte) []byte) {
		rs = append(rs, snap.Read{Key: key, Method: "GET", URL: url, Norm: norm})
	}
	addBody := func(key, url string, body []byte, norm func([]byte) []byte) {
		rs = append(rs, snap.Read{Key: key, Method: "GET", URL: url, Body: body, Norm: norm})
	}
	add("meta/repo-dag", "/api/repo/"+w.root+"/info", c20RepoDAG)
	add("meta/instances", "/api/repo/"+w.root+"/info", c20InstanceNames)
	add("meta/repo-log", "/api/repo/"+w.root+"/log", snap.NormJSON)
	for _, i := range []string{"lm", "lm2", "lmi", "kv", "ann", "nj", "roi", "gray"} {
		add("inst/"+i+"/info", "/api/node/"+w.root+"/"+i+"/info", snap.NormJSON)
	}
	for _, i := range []string{"lm", "lm2", "lmi"} {
		add("inst/"+i+"/nextlabel", "/api/node/"+w.root+"/"+i+"/nextlabel", snap.NormJSON)
	}
	ctl := c20OffStr(c20CtlOff)
	bsz := fmt.Sprintf("%d_%d_%d", c20BS, c20BS, c20BS)
	cx, cy, cz := c20CtlOff[0], c20CtlOff[1], c20CtlOff[2]
	for _, u := range []string{w.root, w.v1, w.b, w.a} {
		base := "/api/node/" + u
		T := func(i string) string {
			if u == w.a {
				return "data/" + i + "@" + u + "/T/"
			}
			return "data/" + i + "@" + u + "/C/"
		}
		C := func(i string) string { return "data/" + i + "@" + u + "/C/" }
		full := u == w.a
		// --- lm
		add(T("lm")+"maxlabel", base+"/lm/maxlabel", snap.NormJSON)
		add(T("lm")+"mappings", base+"/lm/mappings", c20SortLines)
		region := "64_64_64"
		if full {
			region = "128_64_64"
			add(T("lm")+"supervoxel-splits", base+"/lm/supervoxel-splits", snap.NormJSON)
			// the area that block and raw posts write to
			add(T("lm")+"raw-sv", base+"/lm/raw/0_1_2/64_64_64/64_0_0?supervoxels=true", nil)
			add(T("lm")+"raw", base+"/lm/raw/0_1_2/64_64_64/64_0_0", nil)
			// the blocks that existed before any hostile request ("lmorig" of the specification)
			add("data/lmorig@"+u+"/T/raw", base+"/lm/raw/0_1_2/64_64_64/0_0_0", nil)
			add("data/lmorig@"+u+"/T/raw-sv", base+"/lm/raw/0_1_2/64_64_64/0_0_0?supervoxels=true", nil)
		} else if u != w.root {
			add(T("lm")+"raw", base+"/lm/raw/0_1_2/64_64_64/0_0_0", nil)
		}
		add(C("lm")+"raw", base+"/lm/raw/0_1_2/"+bsz+"/"+ctl, nil)
		bodyReads := func(pfx string, l uint64, all bool) {
			add(fmt.Sprintf("%ssparsevol/%d", pfx, l), fmt.Sprintf("%s/lm/sparsevol/%d?format=rles", base, l), c20SortRLEs)
			add(fmt.Sprintf("%sindex/%d", pfx, l), fmt.Sprintf("%s/lm/index/%d", base, l), c20NormIndex)
			if !all {
				return
			}
			add(fmt.Sprintf("%ssize/%d", pfx, l), fmt.Sprintf("%s/lm/size/%d", base, l), snap.NormJSON)
			add(fmt.Sprintf("%ssupervoxels/%d", pfx, l), fmt.Sprintf("%s/lm/supervoxels/%d", base, l), snap.NormJSONSortedArray)
			add(fmt.Sprintf("%ssparsevol-coarse/%d", pfx, l), fmt.Sprintf("%s/lm/sparsevol-coarse/%d", base, l), c20SortRLEs)
			add(fmt.Sprintf("%slastmod/%d", pfx, l), fmt.Sprintf("%s/lm/lastmod/%d", base, l), c20DropTimes)
		}
		tb := []uint64{1, 5}
		if full {
			tb = []uint64{1, 2, 3, 4, 5, 6}
		}
		for _, l := range tb {
			bodyReads(T("lm"), l, full)
		}
		bodyReads(C("lm"), c20CtlL1, full)
		if full {
			bodyReads(C("lm"), c20CtlL2, true)
			add(C("lm")+"raw-sv", base+"/lm/raw/0_1_2/"+bsz+"/"+ctl+"?supervoxels=true", nil)
		}
		add(T("lm")+"label/8_8_8", base+"/lm/label/8_8_8", snap.NormJSON)
		add(T("lm")+"label/40_40_40", base+"/lm/label/40_40_40?supervoxels=true", snap.NormJSON)
		add(C("lm")+"label/ctl", fmt.Sprintf("%s/lm/label/%d_%d_%d", base, cx+20, cy+1, cz+1), snap.NormJSON)
		addBody(C("lm")+"mapping/ctl", base+"/lm/mapping", []byte(fmt.Sprintf("[%d,%d]", c20CtlL1, c20CtlL2)), snap.NormJSON)
		// --- lm2 (whole instance is control), lmi (ingest target: stored supervoxels only)
		add(C("lm2")+"raw", base+"/lm2/raw/0_1_2/"+bsz+"/0_0_0", nil)
		add(C("lm2")+"size/7", base+"/lm2/size/7", snap.NormJSON)
		if full {
			add(C("lm2")+"sparsevol/8", base+"/lm2/sparsevol/8?format=rles", c20SortRLEs)
			add(C("lm2")+"maxlabel", base+"/lm2/maxlabel", snap.NormJSON)
			add(T("lmi")+"raw-sv", base+"/lmi/raw/0_1_2/128_64_32/0_0_0?supervoxels=true", nil)
		}
		add(C("lmi")+"raw-sv", base+"/lmi/raw/0_1_2/"+bsz+"/"+ctl+"?supervoxels=true", nil)
		// --- gray
		add(T("gray")+"raw", base+"/gray/raw/0_1_2/"+region+"/0_0_0", nil)
		add(C("gray")+"raw", base+"/gray/raw/0_1_2/"+bsz+"/"+ctl, nil)
		// --- kv
		add(T("kv")+"keys", base+"/kv/keys", snap.NormJSON)
		add(T("kv")+"key/t1", base+"/kv/key/t1", nil)
		for _, k := range []string{"c1", "c2", "c3"} {
			add(C("kv")+"key/"+k, base+"/kv/key/"+k, nil)
		}
		// --- ann
		add(T("ann")+"all-elements", base+"/ann/all-elements", snap.NormJSON)
		add(T("ann")+"elements", base+"/ann/elements/128_64_64/0_0_0", snap.NormJSONSortedArray)
		add(T("ann")+"tag/t1", base+"/ann/tag/t1", snap.NormJSONSortedArray)
		add(T("ann")+"tag/t2", base+"/ann/tag/t2", snap.NormJSONSortedArray)
		for _, l := range []uint64{1, 2, 3, 5} {
			add(fmt.Sprintf("%slabel/%d", T("ann"), l), fmt.Sprintf("%s/ann/label/%d", base, l), snap.NormJSONSortedArray)
		}
		add(C("ann")+"elements", base+"/ann/elements/"+bsz+"/"+ctl, snap.NormJSONSortedArray)
		add(C("ann")+"tag/ctl", base+"/ann/tag/ctl", snap.NormJSONSortedArray)
		add(fmt.Sprintf("%slabel/ctl1", C("ann")), fmt.Sprintf("%s/ann/label/%d", base, c20CtlL1), snap.NormJSONSortedArray)
		add(fmt.Sprintf("%slabel/ctl2", C("ann")), fmt.Sprintf("%s/ann/label/%d", base, c20CtlL2), snap.NormJSONSortedArray)
		// --- nj
		add(T("nj")+"keys", base+"/nj/keys", snap.NormJSON)
		add(T("nj")+"all", base+"/nj/all", snap.NormJSONSortedArray)
		add(T("nj")+"fields", base+"/nj/fields", snap.NormJSONSortedArray)
		add(T("nj")+"key/1001", base+"/nj/key/1001", snap.NormJSON)
		for _, id := range []int{9001, 9002, 9003} {
			add(fmt.Sprintf("%skey/%d", C("nj"), id), fmt.Sprintf("%s/nj/key/%d?show=all", base, id), snap.NormJSON)
		}
		// --- roi
		add(T("roi")+"roi", base+"/roi/roi", snap.NormJSON)
		rs = append(rs, snap.Read{Key: T("roi") + "ptquery", Method: "POST", URL: base + "/roi/ptquery", Body: []byte(`[[1,1,1],[40,40,40],[70,70,70]]`), Norm: snap.NormJSON})
	}
	w.reads = rs
}

func c20Digest(b []byte) string {
	h := sha1.Sum(b)
	return hex.EncodeToString(h[:10])
}

// takeErr reads the snapshot with one batched call (large binary answers are digested
// inside the node process).
var c20SnapNanos, c20SnapCount, c20WorldNanos, c20WorldCount int64

func (w *c20World) takeErr() (*c20Snap, error) {
	t0 := time.Now()
	defer func() { atomic.AddInt64(&c20SnapNanos, int64(time.Since(t0))); atomic.AddInt64(&c20SnapCount, 1) }()
	s := &c20Snap{M: map[string]c20Entry{}}
	w.nsnap++
	type rd struct {
		Method string `json:"method"`
		URL    string `json:"url"`
		Body   string `json:"body,omitempty"`
	}
	args := struct {
		Reads []rd `json:"reads"`
		Max   int  `json:"max"`
	}{Max: 1 << 17}
	for _, r := range w.reads {
		x := rd{Method: r.Method, URL: r.URL}
		if len(r.Body) > 0 {
			x.Body = base64.StdEncoding.EncodeToString(r.Body)
		}
		args.Reads = append(args.Reads, x)
	}
	var res []struct {
		Status int    `json:"status"`
		Len    int    `json:"len"`
		Digest string `json:"digest"`
		Body   string `json:"body"`
		Micros int64  `json:"us"`
	}
	if err := w.n.Call("c20.reads", args, &res); err != nil {
		return nil, err
	}
	if len(res) != len(w.reads) {
		return nil, fmt.Errorf("c20.reads answered %d of %d reads", len(res), len(w.reads))
	}
	w.nreq += len(res)
	if os.Getenv("VERIF_C20_TIMING") != "" && w.nsnap == 3 {
		type kt struct {
			k string
			t int64
		}
		var ts []kt
		var tot int64
		for i, r := range w.reads {
			ts = append(ts, kt{r.Key, res[i].Micros})
			tot += res[i].Micros
		}
		sort.Slice(ts, func(i, j int) bool { return ts[i].t > ts[j].t })
		fmt.Printf("snapshot: %d reads, %d us in handlers; slowest: %v\n", len(ts), tot, ts[:12])
	}
	for i, r := range w.reads {
		x := res[i]
		e := c20Entry{Status: x.Status, Digest: x.Digest}
		b, _ := base64.StdEncoding.DecodeString(x.Body)
		switch {
		case x.Status == 200 && (x.Body != "" || x.Len == 0):
			if r.Norm != nil {
				b = r.Norm(b)
			}
			e.Digest = c20Digest(b)
			if len(b) <= 200 {
				e.Body = string(b)
			} else {
				e.Body = string(b[:200]) + "..."
			}
		case x.Status == 200:
			e.Body = fmt.Sprintf("<%d bytes>", x.Len)
		default:
			// error texts are not compared, only the status
			e.Digest = ""
			if x.Status >= 500 {
				e.Body = string(b)
				if len(e.Body) > 700 {
					e.Body = e.Body[:700]
				}
			}
		}
		s.Keys = append(s.Keys, r.Key)
		s.M[r.Key] = e
	}
	return s, nil
}

func (w *c20World) take() *c20Snap {
	s, err := w.takeErr()
	must(err, "snapshot")
	// a well-formed read of the untouched world that is answered with a server error is a finding
	// of its own (reported by the driver); it is left out of the differential snapshot
	var keep []snap.Read
	dropped := false
	for i, k := range s.Keys {
		if s.M[k].Status >= 500 {
			w.baselineErrs = append(w.baselineErrs, fmt.Sprintf("%s %s: %d %s", w.reads[i].Method, w.reads[i].URL, s.M[k].Status, s.M[k].Body))
			dropped = true
			continue
		}
		keep = append(keep, w.reads[i])
	}
	if dropped {
		w.reads = keep
		s, err = w.takeErr()
		must(err, "snapshot")
	}
	return s
}

// c20KeyScope returns (instance, part) of a snapshot key; part is "T", "C", "inst" or "meta".
func c20KeyScope(key string) (inst, part string) {
	switch {
	case strings.HasPrefix(key, "meta/"):
		return "", "meta"
	case strings.HasPrefix(key, "inst/"):
		rest := key[len("inst/"):]
		return rest[:strings.Index(rest, "/")], "inst"
	case strings.HasPrefix(key, "data/"):
		rest := key[len("data/"):]
		at := strings.Index(rest, "@")
		sl := strings.Index(rest, "/")
		return rest[:at], rest[sl+1 : sl+2]
	}
	return "", ""
}

// scopeInstances maps a scope of the specification to instance names of the world.
func scopeInstances(scope string) []string {
	switch scope {
	case "lm", "lmorig", "lmi", "ann", "kv", "nj", "roi", "gray",
		"lms", "g16", "rgba", "lb", "lv", "la", "lsz", "tsv", "tiles":
		return []string{scope}
	case "lann":
		return []string{"ann"}
	}
	return nil
}

// c20Diff compares two snapshots.  mayChange = scopes (specification) the request names.
// It returns the differences in parts that must read back as before, whether anything at all
// changed, and reads answered with a server error.
// c20TsvKnown reports (and records) that the tarsupervoxels root-context finding is listed as known.
var c20TsvKnown func() bool

func c20Diff(a, b *c20Snap, mayChange []string) (unnamed []string, anyChange bool, serverErrs []string) {
	named := map[string]bool{}
	meta := false
	for _, s := range mayChange {
		for _, i := range scopeInstances(s) {
			named[i] = true
		}
		if s == "meta" {
			meta = true
		}
	}
	for _, k := range a.Keys {
		ea, eb := a.M[k], b.M[k]
		if eb.Status >= 500 {
			serverErrs = append(serverErrs, fmt.Sprintf("%s: %d %s", k, eb.Status, eb.Body))
		}
		if ea.Status == eb.Status && ea.Digest == eb.Digest {
			continue
		}
		anyChange = true
		inst, part := c20KeyScope(k)
		if (part == "T" || part == "inst") && named[inst] {
			continue
		}
		if part == "meta" && meta {
			continue
		}
		// known finding (C02's, seen through C20's snapshot): tarsupervoxels keeps its blobs in the root version's
		// context, so a well-formed POST / DELETE supervoxel/<id> at one version changes every version of the instance
		if part == "C" && named[inst] && strings.HasPrefix(inst, "tsv") && c20TsvKnown != nil && c20TsvKnown() {
			continue
		}
		unnamed = append(unnamed, fmt.Sprintf("%s: before %d %s | after %d %s", k, ea.Status, ea.Body, eb.Status, eb.Body))
	}
	return
}
