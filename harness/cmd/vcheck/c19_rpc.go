package main

import (
	"fmt"
	"sort"
	"strings"
	"time"

	"verifharness/internal/node"
)

// C19 over the RPC command path: "repo <uuid> copy <source> <target> <settings...>"
// (server/rpc.go) parses its settings from "key=value" words and runs
// datastore.CopyInstance in a goroutine after it has answered.  c19CopyViaRPC makes one copy
// that way and waits until it is done, so that c19Shape can make a share of its copies
// through the command and judge them with the same KVCopy oracle as the direct calls.
// A setting whose value contains '=' (Tags=store=second) cannot be expressed as a word of
// a command: copies onto the second store stay with the direct call.

// c19RPCExpressible reports whether the copy configuration can be written as command words.
func c19RPCExpressible(cfg map[string]string) bool {
	for k, v := range cfg {
		if strings.Contains(k, "=") || strings.Contains(v, "=") || strings.ContainsAny(k+v, " \t") {
			return false
		}
	}
	return true
}

// c19CopyViaRPC returns the error the copy ended with ("" = copy made).
func c19CopyViaRPC(n *node.Node, at, source, target string, cfg map[string]string) (string, error) {
	words := []string{"repo", at, "copy", source, target}
	var keys []string
	for k := range cfg {
		keys = append(keys, k)
	}
	sort.Strings(keys)
	for _, k := range keys {
		words = append(words, k+"="+cfg[k])
	}
	mark := len(n.Stderr.String())
	res, err := rpcCall(n, words, nil, nil)
	if err != nil {
		return "", err
	}
	if res.Err != "" {
		return res.Err, nil
	}
	// the copy runs after the answer: wait until its goroutines are gone, then until the
	// target answers (or the server has logged why it does not)
	var st struct {
		Settled bool `json:"settled"`
	}
	deadline := time.Now().Add(60 * time.Second)
	for {
		if err := n.Call("c20.settle", map[string]int{"wait_ms": 5000}, &st); err != nil {
			return "", err
		}
		if err := n.Idle(); err != nil {
			return "", err
		}
		log := n.Stderr.String()
		if len(log) > mark {
			if i := strings.Index(log[mark:], "copy error:"); i >= 0 {
				line := log[mark+i:]
				if j := strings.IndexByte(line, '\n'); j >= 0 {
					line = line[:j]
				}
				return line, nil
			}
		}
		r, err := n.HTTP("GET", "/api/node/"+at+"/"+target+"/info", nil)
		if err != nil {
			return "", err
		}
		if st.Settled && r.Status == 200 {
			return "", nil
		}
		if time.Now().After(deadline) {
			return "", fmt.Errorf("copy through the RPC command neither finished nor failed within 60 s (settled=%v, target info %d)", st.Settled, r.Status)
		}
		time.Sleep(5 * time.Millisecond)
	}
}
