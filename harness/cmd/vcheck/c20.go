package main

// C20: no request can crash the server; malformed requests are rejected harmlessly.
//
// specs/Hostile.tla is the Gate specification (request protocol, response classes,
// liveness, "only named scopes change") together with the table of endpoints x mutation
// classes x structural positions and the oracle (must be rejected / may be accepted).
// TLC model-checks the protocol over every case and prints the table; this driver checks
// that its payload builders have exactly the structure of the table, expands every case
// into seeded concrete requests, replays them on the real server and compares status
// class, liveness, quiescence and the differential snapshot with what the specification
// allows.

import (
	"encoding/base64"
	"encoding/hex"
	"encoding/json"
	"errors"
	"fmt"
	"math/rand"
	"os"
	"regexp"
	"sort"
	"strings"
	"sync"
	"sync/atomic"
	"time"

	"verifharness/internal/ev"
	"verifharness/internal/node"
	"verifharness/internal/tlc"
)

func init() { checks["C20"] = checkC20 }

// ---- the table printed by TLC -----------------------------------------------------

type strList []string

func (s *strList) UnmarshalJSON(b []byte) error {
	if len(b) > 0 && b[0] == '{' { // TLC prints an empty function as {}
		*s = nil
		return nil
	}
	var x []string
	if err := json.Unmarshal(b, &x); err != nil {
		return err
	}
	*s = x
	return nil
}

func (s strList) has(x string) bool {
	for _, y := range s {
		if y == x {
			return true
		}
	}
	return false
}

type hField struct {
	N string  `json:"n"`
	K string  `json:"k"`
	F strList `json:"f"`
}

type hFields []hField

func (s *hFields) UnmarshalJSON(b []byte) error {
	if len(b) > 0 && b[0] == '{' {
		*s = nil
		return nil
	}
	var x []hField
	if err := json.Unmarshal(b, &x); err != nil {
		return err
	}
	*s = x
	return nil
}

type hEndpoint struct {
	Name      string  `json:"name"`
	Scope     string  `json:"scope"`
	Body      string  `json:"body"`
	Flags     strList `json:"flags"`
	Fields    hFields `json:"fields"`
	URL       hFields `json:"url"`
	MayChange strList `json:"maychange"`
	FollowUps strList `json:"followups"`
}

// world returns the kind of world the row runs in.
func (ep *hEndpoint) world() string {
	switch {
	case ep.Flags.has("wvox"):
		return "vox"
	case ep.Flags.has("wleg"):
		return "leg"
	}
	return "main"
}

type hCase struct {
	E       int     `json:"e"`
	Part    string  `json:"part"`
	Pos     int     `json:"pos"`
	Cls     string  `json:"cls"`
	Expect    string  `json:"expect"`
	Allowed   strList `json:"allowed"`
	MayChange strList `json:"maychange"`
	Mutating  bool    `json:"mutating"`
}

type hTable struct {
	Endpoints []hEndpoint `json:"endpoints"`
	Cases     []hCase     `json:"cases"`
	AnnCases  []annCase   `json:"anncases"`
	NJCases   []njCase    `json:"njcases"`
}

const c20Cfg = `SPECIFICATION Spec
INVARIANTS TypeOK Inv_C20_Alive Inv_C20_NoServerError Inv_C20_MalformedRejected Inv_C20_Harmless Inv_C20_ReadOnlyHarmless Inv_C20_FollowUps Emit
CHECK_DEADLOCK FALSE
`

func c20LoadTable(c *Ctx) (*hTable, *tlc.Result) {
	r := c.MustModelCheck(tlc.Opts{Module: "Hostile", Config: "Hostile_gen.cfg", Workers: 4,
		Files: map[string][]byte{"Hostile_gen.cfg": []byte(c20Cfg)}, Timeout: 10 * time.Minute})
	var t *hTable
	PrintedJSON(r.Output, func(raw []byte) {
		var x hTable
		if err := json.Unmarshal(raw, &x); err == nil && len(x.Endpoints) > 0 {
			t = &x
		}
	})
	if t == nil {
		infra("Hostile.tla printed no table: %s", r.Tail(2000))
	}
	sort.SliceStable(t.Cases, func(i, j int) bool {
		a, b := t.Cases[i], t.Cases[j]
		if a.E != b.E {
			return a.E < b.E
		}
		if a.Part != b.Part {
			return a.Part < b.Part
		}
		if a.Pos != b.Pos {
			return a.Pos < b.Pos
		}
		return a.Cls < b.Cls
	})
	return t, r
}

// ---- instantiation ----------------------------------------------------------------

type c20Inst struct {
	Req       c20Req
	Note      string
	FieldName string
	FieldKind string
	Changed   bool // differs from the valid request
}

// checkStructure compares the harness document of an endpoint with the specification's fields.
func c20CheckStructure(ep *hEndpoint, impl *c20EP, w *c20World, rng *rand.Rand) {
	var got []hField
	switch {
	case impl.bin != nil:
		for _, f := range impl.bin(w, rng).fields() {
			hf := hField{N: f.N.Name, K: f.N.Kind}
			if f.Inner {
				hf.F = strList{"in"}
			}
			got = append(got, hf)
		}
	case impl.js != nil:
		for _, f := range impl.js(w, rng).fields() {
			got = append(got, hField{N: f.Name, K: f.Kind})
		}
	}
	if len(got) != len(ep.Fields) {
		infra("endpoint %s: harness payload has %d structural fields, specification has %d", ep.Name, len(got), len(ep.Fields))
	}
	for i := range got {
		if got[i].N != ep.Fields[i].N || got[i].K != ep.Fields[i].K || got[i].F.has("in") != ep.Fields[i].F.has("in") {
			infra("endpoint %s field %d: harness %v, specification %v", ep.Name, i+1, got[i], ep.Fields[i])
		}
	}
	if n := len(impl.params(w, rng)); n != len(ep.URL) {
		infra("endpoint %s: harness has %d URL parameters, specification %d", ep.Name, n, len(ep.URL))
	}
}

// c20Instantiate builds the concrete request of a case (cs == nil: the valid request).
func c20Instantiate(ep *hEndpoint, impl *c20EP, cs *hCase, w *c20World, rng *rand.Rand, variant int) (c20Inst, bool) {
	first := variant == 0
	var in c20Inst
	params := impl.params(w, rng)
	var validBody []byte
	var bdoc *bnode
	var jdoc *jnode
	if impl.bin != nil {
		bdoc = impl.bin(w, rng)
		validBody, _ = bdoc.encode(nil)
	} else if impl.js != nil {
		jdoc = impl.js(w, rng)
		validBody, _ = jdoc.encode(nil)
	}
	in.Req = c20Req{Method: impl.method, Body: validBody}
	if cs == nil {
		in.Req.URL = impl.url(w, params)
		return in, true
	}
	mrng := rand.New(rand.NewSource(rng.Int63()))
	turn := variant + cs.Pos + len(cs.Cls) // a fixed offset per case, so that cases start at different candidates
	switch cs.Part {
	case "url":
		f := ep.URL[cs.Pos-1]
		v, ok := mutateParam(f.K, cs.Cls, params[cs.Pos-1], f.F.has("hugerej"), f.F.has("float"), mrng, turn)
		if !ok {
			return in, false
		}
		in.FieldName, in.FieldKind = f.N, f.K
		in.Note = fmt.Sprintf("URL parameter %s: %q -> %q", f.N, params[cs.Pos-1], v)
		in.Changed = v != params[cs.Pos-1]
		params[cs.Pos-1] = v
	case "body", "whole":
		if bdoc != nil {
			m := &bmut{Class: cs.Cls, Rng: mrng, Total: len(validBody), Max: first, Turn: turn}
			if cs.Part == "body" {
				fs := bdoc.fields()
				m.Target = fs[cs.Pos-1].N
				in.FieldName, in.FieldKind = m.Target.Name, m.Target.Kind
			}
			body, ok := bdoc.encode(m)
			if !ok {
				return in, false
			}
			in.Req.Body, in.Note, in.Changed = body, m.Note, string(body) != string(validBody)
		} else if jdoc != nil {
			m := &jmut{Class: cs.Cls, Rng: mrng}
			if cs.Part == "body" {
				fs := jdoc.fields()
				m.Target = fs[cs.Pos-1]
				in.FieldName, in.FieldKind = m.Target.Name, m.Target.Kind
				ff := ep.Fields[cs.Pos-1].F
				m.Flags, m.World, m.Self = ff, w, strings.SplitN(ep.Name, ".", 2)[0]
				if ff.has("u64") {
					m.Dom = "u64"
				} else if ff.has("i32") {
					m.Dom = "i32"
				}
			}
			body, ok := jdoc.encode(m)
			if !ok {
				return in, false
			}
			in.Req.Body, in.Note, in.Changed = body, m.Note, string(body) != string(validBody)
		} else {
			return in, false
		}
	case "geom":
		body, note := c20GeomStream(cs.Cls, mrng, variant)
		in.Req.Body, in.Note, in.Changed = body, note, true
	case "req":
		in.Req.URL = impl.url(w, params)
		rq, note, ok := c20ReqMutate(w, in.Req, cs.Cls)
		if !ok {
			return in, false
		}
		in.Req, in.Note, in.Changed = rq, note, true
		return in, true
	}
	in.Req.URL = impl.url(w, params)
	return in, in.Changed
}

// ---- execution ----------------------------------------------------------------------

// c20Obs is what was observed for one request.
type c20Obs struct {
	Status     int      `json:"status"`
	Resp       string   `json:"response,omitempty"`
	NotSent    string   `json:"not_sent,omitempty"`
	Dead       bool     `json:"dead,omitempty"`
	Hang       bool     `json:"hang,omitempty"`
	Stderr     string   `json:"stderr_tail,omitempty"`
	NotIdle    string   `json:"not_idle,omitempty"`
	Probe      string   `json:"probe,omitempty"`
	Unnamed    []string `json:"unnamed_changed,omitempty"`
	LaterErrs  []string `json:"later_reads_5xx,omitempty"`
	AnyChange  bool     `json:"any_change"`
	Deferred   bool     `json:"snapshot_deferred,omitempty"`
	Goroutines int      `json:"goroutines,omitempty"`
	HeapInuseMB int     `json:"heap_inuse_mb,omitempty"`
	HeapSysMB  int      `json:"heap_sys_mb,omitempty"`
	Parked     string   `json:"busy_goroutine,omitempty"`
	// growth round
	Wedged     string   `json:"wedged_goroutine,omitempty"`     // request work still running long after the answer
	BgPanic    string   `json:"background_panic,omitempty"`     // a panic report on stderr outside the request's recover handler
	StrayPanic string   `json:"stray_panic,omitempty"`          // a background panic report printed before this request was sent
	Leak       string   `json:"goroutine_leak,omitempty"`       // every repetition of the request leaves goroutines behind
	FollowErrs []string `json:"followups_5xx,omitempty"`        // well-formed follow-up requests answered with a server error
	FollowSent int      `json:"followups_sent,omitempty"`
	PanicIn2xx string   `json:"panic_inside_2xx_body,omitempty"`
	mark       int64    // position in the node's stderr before the request (deferred comparison)
}

// kinds returns the ways in which the observation leaves what the specification allows.
func (o *c20Obs) kinds(cs *hCase) []string {
	var ks []string
	if o.Dead {
		ks = append(ks, "dead")
	}
	if o.Hang {
		ks = append(ks, "hang")
	}
	if o.NotSent != "" || o.Dead || o.Hang {
		return ks
	}
	switch {
	case o.Status == 503 && strings.Contains(o.Resp, "throttled operations"):
		// the documented refusal of a throttled request when the server is at its limit
	case o.Status >= 500:
		ks = append(ks, "server-error")
	case o.Status >= 200 && o.Status < 300:
		if cs != nil && !cs.Allowed.has("2xx") {
			ks = append(ks, "accepted-malformed")
		}
	case o.Status >= 300:
		// a redirect (e.g. of a path with an empty segment) or a client error: not served
	default:
		ks = append(ks, "odd-status")
	}
	if o.NotIdle != "" {
		ks = append(ks, "not-idle")
	}
	if o.Probe != "" {
		ks = append(ks, "probe-failed")
	}
	if len(o.Unnamed) > 0 {
		ks = append(ks, "unnamed-changed")
	}
	if len(o.LaterErrs) > 0 {
		ks = append(ks, "later-read-5xx")
	}
	if o.Wedged != "" {
		ks = append(ks, "wedged")
	}
	if o.BgPanic != "" {
		ks = append(ks, "background-panic")
	}
	if o.StrayPanic != "" {
		ks = append(ks, "stray-background-panic")
	}
	if o.Leak != "" {
		ks = append(ks, "goroutine-leak")
	}
	if len(o.FollowErrs) > 0 {
		ks = append(ks, "followup-5xx")
	}
	return ks
}

// c20DeathReport extracts the reason of a process death from the captured stderr.
func c20DeathReport(n *node.Node) string {
	all := n.Stderr.String()
	best := -1
	for _, mark := range []string{"\nfatal error:", "\npanic:", "\ndvidnode fatal:", "runtime: out of memory"} {
		if i := strings.LastIndex(all, mark); i > best {
			best = i
		}
	}
	if best >= 0 {
		// a fatal error is followed by the dump of all goroutines: keep its head
		from := best - 300
		if from < 0 {
			from = 0
		}
		return truncStr(all[from:], 2500)
	}
	return n.StderrTail(2500)
}

func truncStr(s string, n int) string {
	if len(s) > n {
		return s[:n] + "..."
	}
	return s
}

// c20Run sends one request and observes.  The world's baseline is advanced (or the target
// version replaced) so that the next request starts from a clean comparison.
func c20Run(w *c20World, req c20Req, mayChange []string) (o c20Obs) {
	return c20RunOpt(w, req, mayChange, true)
}

var c20LeakProbes, c20FollowNanos int64

// c20Send delivers one request through the node's c20.http call.
func c20Send(w *c20World, req c20Req, timeout time.Duration) (status int, body []byte, notSent string, err error) {
	var r struct {
		Status int    `json:"status"`
		Body   string `json:"body"`
		Err    string `json:"err"`
	}
	rd := map[string]string{"method": req.Method, "url": req.URL}
	if len(req.Body) > 0 {
		rd["body"] = base64.StdEncoding.EncodeToString(req.Body)
	}
	args, _ := json.Marshal(rd)
	resp, err := w.n.DoTimeout(node.Req{Op: "call", Fn: "c20.http", Args: args}, timeout)
	w.nreq++
	if err == nil && resp.Err != "" {
		err = fmt.Errorf("c20.http: %s", resp.Err)
	}
	if err == nil {
		err = json.Unmarshal(resp.Result, &r)
	}
	if err != nil {
		return 0, nil, "", err
	}
	rb, _ := base64.StdEncoding.DecodeString(r.Body)
	return r.Status, rb, r.Err, nil
}

type c20Settled struct {
	Busy       int    `json:"busy"`
	Goroutines int    `json:"goroutines"`
	Settled    bool   `json:"settled"`
	Sample     string `json:"sample"`
	HeapInuse  int    `json:"heap_inuse_mb"`
	HeapSys    int    `json:"heap_sys_mb"`
	AllBlocked bool   `json:"all_blocked"`
	BusyIDs    string `json:"busy_ids"`
}

// c20Idle waits (at most 30 s) until no instance has pending sync events or a running update.
func c20Idle(n *node.Node) error {
	r, err := n.Do(node.Req{Op: "idle", WaitMS: 30000})
	if err != nil {
		return err
	}
	if r.Err != "" {
		return errors.New(r.Err)
	}
	return nil
}

// c20Quiesce waits for idle and for the goroutines a request left behind.  Request work that is
// still going on 3 s after the answer is either making progress (running, runnable, in I/O: a
// legitimately expensive request, e.g. the index of a volume of random labels - it is left to
// finish in the background, as before) or it is blocked: every goroutine of it waits for a lock or
// a wait group.  Blocked work is given another 15 s; the same goroutines still blocked after that
// are wedged.
func c20Quiesce(w *c20World, o *c20Obs) (st c20Settled, dead bool, err error) {
	n := w.n
	if e := c20Idle(n); e != nil {
		if errors.Is(e, node.ErrDead) {
			return st, true, nil
		}
		o.NotIdle = e.Error()
	}
	if e := n.Call("c20.settle", map[string]int{"wait_ms": 3000}, &st); e != nil {
		if errors.Is(e, node.ErrDead) {
			return st, true, nil
		}
		return st, false, e
	}
	if st.Settled {
		return st, false, nil
	}
	o.Parked = truncStr(st.Sample, 800)
	if !st.AllBlocked {
		return st, false, nil
	}
	first := st.BusyIDs
	if e := n.Call("c20.settle", map[string]int{"wait_ms": 15000}, &st); e != nil {
		if errors.Is(e, node.ErrDead) {
			return st, true, nil
		}
		return st, false, e
	}
	if st.Settled {
		o.Parked = ""
		return st, false, nil
	}
	if st.AllBlocked && st.BusyIDs == first {
		o.Wedged = truncStr(st.Sample, 1200)
	}
	return st, false, nil
}

// c20RunOpt: with snapshot=false the differential snapshot is left to the caller (requests that
// name nothing are compared in windows, see the worker loop).
func c20RunOpt(w *c20World, req c20Req, mayChange []string, snapshot bool) (o c20Obs) {
	n := w.n
	before := w.cur
	dead := func(err error) bool {
		if err != nil && errors.Is(err, node.ErrDead) {
			o.Dead = true
			o.Stderr = c20DeathReport(n)
			return true
		}
		return false
	}
	// panic reports printed since the last request was judged (by snapshot reads, set-up requests or
	// goroutines that outlived the last settle) belong to no request of this table
	if gap := n.StderrSince(w.scanned); gap != "" {
		if pr := node.ScanPanics(gap); pr.Background {
			o.StrayPanic = truncStr(pr.Excerpt, 1500)
		}
	}
	mark := n.StderrMark()
	defer func() { w.scanned = n.StderrMark() }()
	g0 := w.goroutines
	status, rb, notSent, err := c20Send(w, req, w.timeout)
	if err != nil {
		if !dead(err) {
			o.Hang = true
			o.Resp = err.Error()
			o.Stderr = c20DeathReport(n)
		}
		return
	}
	if notSent != "" {
		o.NotSent = notSent
		return
	}
	o.Status = status
	o.Resp = truncStr(string(rb), 600)
	st, isDead, err := c20Quiesce(w, &o)
	if isDead {
		dead(node.ErrDead)
		return
	}
	must(err, "settle")
	o.Goroutines = st.Goroutines
	o.HeapInuseMB, o.HeapSysMB = st.HeapInuse, st.HeapSys
	w.goroutines = st.Goroutines
	if !st.Settled {
		// work goes on in the background: the goroutine count says nothing until it has settled again
		w.goroutines, g0 = 0, 0
	}
	// goroutine growth: a request that leaves goroutines behind EVERY time it is sent leaks them
	if g0 > 0 && st.Goroutines > g0 && o.Wedged == "" && o.NotIdle == "" {
		atomic.AddInt64(&c20LeakProbes, 1)
		counts := []int{g0, st.Goroutines}
		leaking := true
		for rep := 0; rep < 3 && leaking; rep++ {
			if _, _, _, err := c20Send(w, req, w.timeout); err != nil {
				if !dead(err) {
					o.Hang = true
					o.Resp = "repeated request: " + err.Error()
				}
				return
			}
			var o2 c20Obs
			st2, isDead, err := c20Quiesce(w, &o2)
			if isDead {
				dead(node.ErrDead)
				return
			}
			must(err, "settle")
			leaking = st2.Settled && st2.Goroutines > counts[len(counts)-1]
			counts = append(counts, st2.Goroutines)
			w.goroutines = st2.Goroutines
			if !st2.Settled {
				w.goroutines = 0
			}
		}
		if leaking {
			o.Leak = fmt.Sprintf("goroutines after settle, request sent %d times: %v", len(counts)-1, counts)
		}
	}
	// liveness probe
	pr, err := n.HTTP("GET", "/api/node/"+w.root+"/kv/key/c1", nil)
	if err != nil {
		if dead(err) {
			return
		}
		o.Hang = true
		o.Resp = "probe: " + err.Error()
		return
	}
	if pr.Status != 200 {
		o.Probe = fmt.Sprintf("GET kv/key/c1 at root answered %d %s", pr.Status, truncStr(string(pr.Bytes()), 300))
	}
	// panic reports on stderr: the recover handler of a request answers with 500 (or, when the answer
	// had been started, leaves its report inside the body: status 598); any other report comes from a
	// goroutine outside the request handler
	scan := func(onlyBackground bool) {
		if o.BgPanic != "" {
			return
		}
		rep := node.ScanPanics(n.StderrSince(mark))
		if rep.Background || (!onlyBackground && rep.Any && o.Status < 500) {
			o.BgPanic = truncStr(rep.Excerpt, 1500)
		}
	}
	scan(false)
	if !snapshot {
		o.Deferred = true
		o.mark = mark
		return
	}
	c20Compare(w, &o, before, mayChange, mark)
	return
}

// c20Compare takes the snapshot after a request and compares it with the one before.
func c20Compare(w *c20World, o *c20Obs, before *c20Snap, mayChange []string, mark int64) {
	n := w.n
	after, err := w.takeErr()
	if err != nil {
		if errors.Is(err, node.ErrDead) {
			o.Dead = true
			o.Stderr = c20DeathReport(n)
			return
		}
		var ce *node.CallError
		if errors.As(err, &ce) {
			o.Probe = "snapshot failed: " + ce.Msg
			return
		}
		o.Hang = true
		o.Resp = "snapshot: " + err.Error()
		return
	}
	o.Unnamed, o.AnyChange, o.LaterErrs = c20Diff(before, after, mayChange)
	w.cur = after
	// (the reads of the snapshot have their own recover handlers: only background reports count)
	if o.BgPanic == "" {
		if rep := node.ScanPanics(n.StderrSince(mark)); rep.Background {
			o.BgPanic = truncStr(rep.Excerpt, 1500)
		}
	}
	w.scanned = n.StderrMark()
}

// c20RunCase is c20Run plus the follow-ups owed to an accepted mutating request (cs == nil: the
// well-formed request of the row).
func (d *c20Driver) runCase(w *c20World, ep *hEndpoint, cs *hCase, req c20Req, mayChange []string, follow bool) c20Obs {
	return d.runCaseOpt(w, ep, cs, req, mayChange, follow, false)
}

// runCaseOpt: with lazy=true the comparison of a request that was answered 4xx is left to the caller
// (refusals are what the table expects of such a case: they are compared in windows); any other
// answer is compared at once.
func (d *c20Driver) runCaseOpt(w *c20World, ep *hEndpoint, cs *hCase, req c20Req, mayChange []string, follow, lazy bool) c20Obs {
	var o c20Obs
	if lazy {
		before := w.cur
		o = c20RunOpt(w, req, mayChange, false)
		if o.Deferred && !(o.Status >= 400 && o.Status < 500) {
			o.Deferred = false
			c20Compare(w, &o, before, mayChange, o.mark)
		}
	} else {
		o = c20Run(w, req, mayChange)
	}
	mutating := ep.Flags.has("mut")
	if cs != nil {
		mutating = cs.Mutating
	}
	if follow && mutating && o.Status >= 200 && o.Status < 300 && !o.Dead && !o.Hang && w.n.Alive() && len(ep.FollowUps) > 0 {
		tf := time.Now()
		c20FollowUps(w, ep, d.follow, &o)
		atomic.AddInt64(&c20FollowNanos, int64(time.Since(tf)))
		atomic.AddInt64(&d.followed, 1)
		atomic.AddInt64(&d.followReqs, int64(o.FollowSent))
	}
	return o
}

// wantFollow: both tiers follow up every accepted request of the geometry cases and of the rows whose
// effect is unversioned; the thorough tier also every accepted request of the rows of the growth round
// and the first two concrete requests of every other case; of the rest a seeded third is followed up.
func (d *c20Driver) wantFollow(ep *hEndpoint, cs *hCase, seed int64, variant int) bool {
	if cs == nil || cs.Part == "geom" || ep.Flags.has("persist") || ep.Flags.has("g2") && d.c.thorough() {
		return true
	}
	if d.c.thorough() && variant < 2 {
		return true
	}
	return uint64(seed)%3 == 0
}

// firstRefusal is true the first time a key is seen.
func (d *c20Driver) firstRefusal(key string) bool {
	d.mu.Lock()
	defer d.mu.Unlock()
	if d.refusedSeen == nil {
		d.refusedSeen = map[string]bool{}
	}
	if d.refusedSeen[key] {
		return false
	}
	d.refusedSeen[key] = true
	return true
}

// stillServed sends the valid request of the row right after a refused hostile one.  A departure (no
// answer, death, server error, wedged work ...) is reproduced on a fresh node by sending the same hostile
// request and then the valid one again; it is reported against the hostile case.
func (d *c20Driver) stillServed(w *c20World, ep *hEndpoint, impl *c20EP, cs *hCase, in c20Inst, seed int64, variant int) c20Obs {
	ctl, _ := c20Instantiate(ep, impl, nil, w, rand.New(rand.NewSource(seed)), 1)
	w.timeout = 30 * time.Second
	o := d.runCase(w, ep, nil, ctl.Req, ep.MayChange, false)
	w.timeout = 90 * time.Second
	atomic.AddInt64(&d.stillServedN, 1)
	kinds := o.kinds(nil)
	if len(kinds) == 0 {
		return o
	}
	gkey := ep.Name + "|" + cs.Cls + "|then-valid-request|" + strings.Join(kinds, "+")
	d.mu.Lock()
	if g, ok := d.groups[gkey]; ok {
		g.SameGroup++
		d.mu.Unlock()
		return o
	}
	rp := d.replayOf(ep, cs, in, seed, o, kinds)
	rp.Mutation += fmt.Sprintf("; refused as expected, but the valid request of the row sent right after it (%s %s) departed: %v", ctl.Req.Method, ctl.Req.URL, kinds)
	d.groups[gkey] = rp
	d.mu.Unlock()
	w2 := newC20WorldKind(d.c, d.cfg, ep.world())
	w2.timeout = 30 * time.Second
	var o2 c20Obs
	if in2, ok := c20Instantiate(ep, impl, cs, w2, rand.New(rand.NewSource(seed)), variant); ok {
		c20RunOpt(w2, in2.Req, cs.MayChange, false)
		if w2.n.Alive() {
			ctl2, _ := c20Instantiate(ep, impl, nil, w2, rand.New(rand.NewSource(seed)), 1)
			o2 = d.runCase(w2, ep, nil, ctl2.Req, ep.MayChange, false)
		}
	}
	d.c.DropNode(w2.n)
	k2 := o2.kinds(nil)
	rp.Reproduced = &o2
	if len(k2) == 0 {
		d.mu.Lock()
		delete(d.groups, gkey)
		d.unrepro = append(d.unrepro, fmt.Sprintf("%s %s %s then the valid request: first %v, on a fresh node nothing", ep.Name, cs.Cls, in.Note, kinds))
		d.mu.Unlock()
		return o
	}
	rp.Kinds = k2
	d.run.Violation("c20", rp)
	return o
}

// ---- findings ----------------------------------------------------------------------------

type c20Replay struct {
	Property   string   `json:"property"`
	Endpoint   string   `json:"endpoint"`
	Class      string   `json:"class"`
	Part       string   `json:"part"`
	Field      string   `json:"field,omitempty"`
	FieldKind  string   `json:"field_kind,omitempty"`
	Expect     string   `json:"expect"`
	Kinds      []string `json:"violated"`
	Mutation   string   `json:"mutation"`
	Method     string   `json:"method"`
	URL        string   `json:"url"`
	BodyHex    string   `json:"body_hex,omitempty"`
	BodyText   string   `json:"body_text,omitempty"`
	BodyLen    int      `json:"body_len"`
	Seed       int64    `json:"case_seed"`
	Observed   c20Obs   `json:"observed"`
	Reproduced *c20Obs  `json:"reproduced_on_fresh_node,omitempty"`
	SameGroup  int      `json:"further_cases_in_group"`
}

type c20Pending struct {
	cs      *hCase
	in      c20Inst
	seed    int64
	variant int
}

type c20Driver struct {
	c      *Ctx
	run    *ev.Run
	table  *hTable
	impls  map[string]*c20EP
	cfg    node.Config
	mu     sync.Mutex
	groups map[string]*c20Replay // group key -> first confirmed replay
	refusedSeen  map[string]bool
	stillServedN int64
	unrepro []string
	sent, skipped, notSent, rejected, accepted int64
	byKind map[string]int
	statusHist map[string]int
	wfRefused  []string
	wfRequests int64
	follow     map[string]func(w *c20World) c20Req
	followed, followReqs int64
	sampledOut int
	poisoned   map[string]bool // world kinds whose set-up requests already departed
}

func b64(b []byte) string { return base64.StdEncoding.EncodeToString(b) }
func unb64(s string) []byte {
	b, _ := base64.StdEncoding.DecodeString(s)
	return b
}

func printable(b []byte) bool {
	for _, c := range b {
		if (c < 0x20 && c != '\n' && c != '\t') || c > 0x7e {
			return false
		}
	}
	return true
}

func (d *c20Driver) replayOf(ep *hEndpoint, cs *hCase, in c20Inst, seed int64, o c20Obs, kinds []string) *c20Replay {
	rp := &c20Replay{Property: "C20", Endpoint: ep.Name, Kinds: kinds, Mutation: in.Note, Method: in.Req.Method, URL: in.Req.URL,
		BodyLen: len(in.Req.Body), Seed: seed, Observed: o, Field: in.FieldName, FieldKind: in.FieldKind}
	if cs != nil {
		rp.Class, rp.Part, rp.Expect = cs.Cls, cs.Part, cs.Expect
	} else {
		rp.Class, rp.Expect = "wellformed", "2xx"
	}
	b := in.Req.Body
	if printable(b) {
		rp.BodyText = truncStr(string(b), 2000)
	} else {
		if len(b) > 1024 {
			b = b[:1024]
		}
		rp.BodyHex = hex.EncodeToString(b)
	}
	return rp
}

// known finding ids by group
func c20KnownID(ep string, cls string, kinds []string) string {
	return ""
}

// handle judges one observation; suspected violations are re-run on a fresh node.
func (d *c20Driver) handle(ep *hEndpoint, impl *c20EP, cs *hCase, in c20Inst, seed int64, variant int, o c20Obs) bool {
	kinds := o.kinds(cs)
	d.mu.Lock()
	d.statusHist[fmt.Sprintf("%dxx", o.Status/100)]++
	d.mu.Unlock()
	if len(kinds) == 0 {
		return false
	}
	cls, fk := "wellformed", ""
	if cs != nil {
		cls, fk = cs.Cls, in.FieldKind
	}
	gkey := ep.Name + "|" + cls + "|" + fk + "|" + strings.Join(kinds, "+")
	d.mu.Lock()
	if g, ok := d.groups[gkey]; ok {
		g.SameGroup++
		d.mu.Unlock()
		return true
	}
	// reserve the group so that concurrent workers do not reproduce it twice
	rp := d.replayOf(ep, cs, in, seed, o, kinds)
	d.groups[gkey] = rp
	d.mu.Unlock()

	// reproduce on a fresh node
	w2 := newC20WorldKind(d.c, d.cfg, ep.world())
	w2.timeout = 90 * time.Second
	in2, ok := c20Instantiate(ep, impl, cs, w2, rand.New(rand.NewSource(seed)), variant)
	var o2 c20Obs
	if ok || cs == nil {
		mc := ep.MayChange
		if cs != nil {
			mc = cs.MayChange
		}
		o2 = d.runCase(w2, ep, cs, in2.Req, mc, true)
	}
	d.c.DropNode(w2.n)
	k2 := o2.kinds(cs)
	same := len(k2) > 0
	// the same kinds of departure must be seen again (a subset counts: e.g. dead again)
	for _, k := range k2 {
		found := false
		for _, k1 := range kinds {
			if k == k1 {
				found = true
			}
		}
		if !found {
			same = false
		}
	}
	rp.Reproduced = &o2
	if !same {
		d.mu.Lock()
		delete(d.groups, gkey)
		d.unrepro = append(d.unrepro, fmt.Sprintf("%s %s %s: first %v, on a fresh node %v", ep.Name, cls, in.Note, kinds, k2))
		d.mu.Unlock()
		if b, err := json.MarshalIndent(rp, "", " "); err == nil {
			fmt.Printf("C20: suspected departure not reproduced on a fresh node (no verdict):\n%s\n", truncStr(string(b), 6000))
		}
		return true
	}
	rp.Kinds = k2
	d.mu.Lock()
	for _, k := range k2 {
		d.byKind[k]++
	}
	d.mu.Unlock()
	if id := c20KnownID(ep.Name, cls, k2); id != "" && d.run.KnownActive(id) {
		d.run.ReportKnown(id)
		return true
	}
	d.run.Violation("c20", rp)
	return true
}

func checkC20(c *Ctx) int {
	run := ev.NewRun("C20", c.Tier, "exploration")
	t0 := time.Now()
	c20TsvKnown = func() bool {
		if !run.KnownActive("tarsupervoxels-root-context-seen-by-c20") {
			return false
		}
		run.ReportKnown("tarsupervoxels-root-context-seen-by-c20")
		return true
	}
	table, tr := c20LoadTable(c)
	impls := c20Endpoints()
	for i := range table.Endpoints {
		if table.Endpoints[i].Flags.has("rpc") {
			continue // commands of the RPC path: c20_rpc.go
		}
		if impls[table.Endpoints[i].Name] == nil {
			infra("no harness implementation of endpoint %s", table.Endpoints[i].Name)
		}
	}
	d := &c20Driver{c: c, run: run, table: table, impls: impls, groups: map[string]*c20Replay{}, byKind: map[string]int{}, statusHist: map[string]int{},
		cfg: node.Config{Env: []string{"VERIF_RLIMIT_AS_MB=8192"}}, follow: c20FollowImpls(), poisoned: map[string]bool{}}
	c20CheckFollowUps(table, d.follow)

	// work items: chunks of cases of one endpoint
	type item struct {
		e     int
		cases []*hCase
	}
	var items []item
	const chunk = 24
	byE := map[int][]*hCase{}
	for i := range table.Cases {
		cs := &table.Cases[i]
		byE[cs.E] = append(byE[cs.E], cs)
	}
	only := os.Getenv("VERIF_C20_ONLY") // development aid: restrict to endpoints with this prefix
	for e := 1; e <= len(table.Endpoints); e++ {
		cs := byE[e]
		if only != "" && !strings.HasPrefix(table.Endpoints[e-1].Name, only) {
			continue
		}
		if table.Endpoints[e-1].Flags.has("rpc") {
			continue
		}
		cs = d.sampleCases(&table.Endpoints[e-1], cs)
		for off := 0; off < len(cs); off += chunk {
			end := off + chunk
			if end > len(cs) {
				end = len(cs)
			}
			items = append(items, item{e, cs[off:end]})
		}
	}
	// rows of the same world kind are neighbours in the item list, so that a worker seldom changes worlds
	sort.SliceStable(items, func(i, j int) bool {
		return table.Endpoints[items[i].e-1].world() < table.Endpoints[items[j].e-1].world()
	})
	variants := c.pick(1, 9)
	urlVariants := c.pick(3, 8)
	workers := 16
	worlds := make([]*c20World, workers)
	structureChecked := make([]int32, len(table.Endpoints)+1)
	var distinct sync.Map
	getWorld := func(wi int, kind string) *c20World {
		w := worlds[wi]
		if w != nil && (!w.n.Alive() || w.nbranch > 120 || w.kind != kind) {
			c.DropNode(w.n)
			w = nil
		}
		if w == nil {
			w = newC20WorldKind(c, d.cfg, kind)
			worlds[wi] = w
		}
		if !w.buildScanned {
			// a panic report printed by a background goroutine while the world was built belongs to the
			// well-formed set-up requests, not to a row of the table
			w.buildScanned = true
			if rep := node.ScanPanics(w.n.StderrSince(0)); rep.Background || w.buildNotIdle != "" {
				key := "wellformed|world-build|" + w.kind
				d.mu.Lock()
				_, seen := d.groups[key]
				if !seen {
					d.groups[key] = &c20Replay{}
					d.byKind["background-panic"]++
				}
				d.mu.Unlock()
				if !seen {
					run.Violation("c20wf", map[string]interface{}{"property": "C20", "table": "well-formed set-up requests of the " + w.kind + " world",
						"background_panic": truncStr(rep.Excerpt, 2500), "not_idle": w.buildNotIdle})
				}
				// nothing can be attributed to a single request in a world whose set-up already went wrong:
				// the rows of this world are not run
				d.mu.Lock()
				d.poisoned[w.kind] = true
				d.mu.Unlock()
			}
			w.scanned = w.n.StderrMark()
		}
		if len(w.baselineErrs) > 0 {
			errs := w.baselineErrs
			w.baselineErrs = nil
			for _, e := range errs {
				// group by endpoint path without the version uuid
				key := "wellformed|snapshot-read|" + regexp.MustCompile(`/api/node/[0-9a-f]+/`).ReplaceAllString(strings.SplitN(e, ":", 2)[0], "/api/node/<uuid>/")
				d.mu.Lock()
				_, seen := d.groups[key]
				if !seen {
					d.groups[key] = &c20Replay{}
					d.byKind["wellformed-5xx"]++
				}
				d.mu.Unlock()
				if !seen {
					run.Violation("c20wf", map[string]interface{}{"property": "C20", "table": "snapshot reads of the freshly built world (well-formed requests)", "failed_request": e})
				}
			}
		}
		return w
	}
	defer func() {
		for _, w := range worlds {
			if w != nil {
				c.DropNode(w.n)
			}
		}
	}()
	parallel(len(items), workers, func(wi, ii int) {
		it := items[ii]
		ep := &table.Endpoints[it.e-1]
		impl := impls[ep.Name]
		isPoisoned := func() bool {
			d.mu.Lock()
			defer d.mu.Unlock()
			return d.poisoned[ep.world()]
		}
		if isPoisoned() {
			return
		}
		w := getWorld(wi, ep.world())
		if isPoisoned() {
			return
		}
		seedBase := c.Seed*1000003 + int64(ii)*7919
		if atomic.CompareAndSwapInt32(&structureChecked[it.e], 0, 1) {
			c20CheckStructure(ep, impl, w, rand.New(rand.NewSource(seedBase)))
		}
		var closeWindow func()
		after := func(o c20Obs) {
			// start the next request from a clean target when anything moved or went wrong
			if !w.n.Alive() || o.Hang || o.Wedged != "" || o.NotIdle != "" {
				c.DropNode(w.n)
				worlds[wi] = nil
				w = getWorld(wi, ep.world())
				return
			}
			// an accepted request of a row whose effect is unversioned (instance metadata, server
			// settings) would be inherited by every later request: continue on a fresh world
			if ep.Flags.has("persist") && o.NotSent == "" && (o.Status >= 200 && o.Status < 300 || o.Status >= 500 || o.AnyChange) {
				c.DropNode(w.n)
				worlds[wi] = nil
				w = getWorld(wi, ep.world())
				return
			}
			if o.AnyChange || o.FollowSent > 0 || len(o.LaterErrs) > 0 || o.NotSent == "" && o.Status >= 500 {
				if o.Deferred && closeWindow != nil {
					closeWindow() // (this request and the pending ones are compared before the target is left)
				}
				w.retarget()
			}
		}
		// requests that name nothing (read-only endpoints) and refused requests are compared with the snapshot
		// in windows of up to 8 requests; a difference is attributed by sending the window's requests again,
		// one by one with a snapshot each, to a fresh node
		var window []c20Pending
		closeWindow = func() {
			pend := window
			window = nil
			if len(pend) == 0 || !w.n.Alive() {
				return
			}
			before := w.cur
			aft, err := w.takeErr()
			if err != nil {
				return // a dead node is noticed by the next request
			}
			var named []string
			for _, p := range pend {
				named = append(named, p.cs.MayChange...)
			}
			unnamed, anyChange, later := c20Diff(before, aft, named)
			w.cur = aft
			if len(unnamed) == 0 && len(later) == 0 {
				if anyChange {
					// a refused request left part of its effect in the scopes it names: the next request
					// starts from a clean target again
					w.retarget()
				}
				return
			}
			w2 := newC20WorldKind(c, d.cfg, ep.world())
			found := false
			for _, p := range pend {
				in2, ok := c20Instantiate(ep, impl, p.cs, w2, rand.New(rand.NewSource(p.seed)), p.variant)
				if !ok {
					continue
				}
				o2 := d.runCase(w2, ep, p.cs, in2.Req, p.cs.MayChange, true)
				if len(o2.kinds(p.cs)) > 0 {
					found = true
					d.handle(ep, impl, p.cs, in2, p.seed, p.variant, o2)
				}
				if !w2.n.Alive() {
					break
				}
				if o2.AnyChange {
					w2.retarget()
				}
			}
			c.DropNode(w2.n)
			if !found {
				d.mu.Lock()
				d.unrepro = append(d.unrepro, fmt.Sprintf("%s: snapshot differed after a window of %d read-only requests (%v %v) but no single request reproduced it", ep.Name, len(pend), unnamed, later))
				d.mu.Unlock()
			}
			w.retarget()
		}
		// positive control: the valid request of this endpoint is accepted
		if !ep.Flags.has("noctl") {
			in, _ := c20Instantiate(ep, impl, nil, w, rand.New(rand.NewSource(seedBase)), 1)
			o := d.runCase(w, ep, nil, in.Req, ep.MayChange, true)
			atomic.AddInt64(&d.sent, 1)
			if ks := o.kinds(nil); len(ks) > 0 {
				d.handle(ep, impl, nil, in, seedBase, 1, o)
			} else if o.Status < 200 || o.Status >= 300 {
				infra("endpoint %s: the valid request was not accepted: %d %s (%s %s)", ep.Name, o.Status, o.Resp, in.Req.Method, in.Req.URL)
			}
			after(o)
		}
		for ci, cs := range it.cases {
			nv := variants
			if cs.Part == "url" && nv < urlVariants {
				nv = urlVariants // hostile spellings of URL parameters are few: walk through more of them
			}
			if c.thorough() {
				// the rows and cases of the growth round get fewer concrete requests per case than the byte-level
				// cases of the first round (their classes have few distinct instantiations)
				if cs.Part == "req" {
					nv = 2
				} else if ep.Flags.has("g2") || cs.Part == "geom" {
					nv = 4
				}
			}
			for v := 0; v < nv; v++ {
				seed := seedBase + int64(ci)*131 + int64(v)*17 + 1
				in, ok := c20Instantiate(ep, impl, cs, w, rand.New(rand.NewSource(seed)), v)
				if !ok {
					atomic.AddInt64(&d.skipped, 1)
					continue
				}
				lazy := !cs.Mutating && !ep.Flags.has("mut") && ep.Name != "repo.instance"
				// a case of a mutating row is compared in windows as long as it is refused
				lazyRefusal := !lazy && !ep.Flags.has("persist") && !ep.Flags.has("dag")
				var o c20Obs
				if lazy {
					o = c20RunOpt(w, in.Req, cs.MayChange, false)
				} else {
					if !lazyRefusal {
						closeWindow() // pending refusals are judged before a request that gets a comparison of its own
					}
					o = d.runCaseOpt(w, ep, cs, in.Req, cs.MayChange, d.wantFollow(ep, cs, seed, v), lazyRefusal)
					if lazyRefusal && !o.Deferred {
						// the request was not refused and has been compared at once: that comparison covers the
						// refusals that were pending (anything they changed outside its names is reported with it)
						window = nil
					}
				}
				if o.NotSent != "" {
					atomic.AddInt64(&d.notSent, 1)
					continue
				}
				if o.Deferred {
					window = append(window, c20Pending{cs, in, seed, v})
				}
				atomic.AddInt64(&d.sent, 1)
				distinct.Store(fmt.Sprintf("%s|%s|%d|%s", ep.Name, cs.Part, cs.Pos, cs.Cls), true)
				run.Eval(fmt.Sprintf("%s|%s|%d|%s", ep.Name, cs.Part, cs.Pos, cs.Cls))
				if o.Status >= 400 && o.Status < 500 {
					atomic.AddInt64(&d.rejected, 1)
				} else if o.Status >= 200 && o.Status < 300 {
					atomic.AddInt64(&d.accepted, 1)
				}
				if os.Getenv("VERIF_C20_MEM") != "" && o.HeapSysMB > 700 {
					fmt.Printf("MEM %s %s %s: heap inuse %d MB sys %d MB (%s)\n", ep.Name, cs.Cls, in.FieldName, o.HeapInuseMB, o.HeapSysMB, in.Note)
				}
				if os.Getenv("VERIF_C20_TRACE") != "" {
					fmt.Printf("TRACE %s %s %s %s -> %d lazy=%v %s\n", ep.Name, cs.Part, cs.Cls, in.FieldName, o.Status, lazy, truncStr(in.Note, 80))
				}
				bad := d.handle(ep, impl, cs, in, seed, v, o)
				// "later requests are still served": after the first refused hostile request of each structural
				// part of a mutating row the valid request of the row must still be answered
				if !bad && !lazy && ep.Flags.has("mut") && !ep.Flags.has("noctl") && !ep.Flags.has("persist") && o.Status >= 400 && o.Status < 500 && w.n.Alive() && d.firstRefusal(ep.Name+"|"+cs.Part+"|"+cs.Cls+map[bool]string{true: "|" + in.FieldName, false: ""}[c.thorough()]) {
					// (sent to the same version, before the pending refusals are compared: its own comparison covers them)
					o3 := d.stillServed(w, ep, impl, cs, in, seed, v)
					window = nil
					after(o3)
				}
				if !bad && (ii+ci+v)%97 == 0 {
					run.Sample(d.replayOf(ep, cs, in, seed, o, nil))
				}
				after(o)
				if len(window) >= 8 || (o.Deferred && len(o.kinds(cs)) > 0) {
					closeWindow()
				}
			}
		}
		closeWindow()
	})
	if d.poisoned["main"] {
		fmt.Println("C20: the set-up requests of the first world already departed: the well-formed tables and the RPC rows (same world) are not run")
	} else {
		if only == "" || only == "wf" {
			d.wellFormed(table.AnnCases, table.NJCases)
		}
		c20RPC(c, run, d, table) // the rows of the RPC command path (c20_rpc.go)
	}
	// summary
	var groups []string
	more := 0
	for k, g := range d.groups {
		groups = append(groups, fmt.Sprintf("%s (+%d)", k, g.SameGroup))
		more += g.SameGroup
	}
	sort.Strings(groups)
	run.Set("valid_requests_after_refusals", atomic.LoadInt64(&d.stillServedN))
	run.Set("states", tr.Distinct)
	run.Set("transitions", tr.Generated)
	run.Set("traces_validated_against_impl", d.sent)
	run.Set("evaluations", d.sent+d.wfRequests)
	run.Set("hostile_requests", d.sent)
	run.Set("accepted_mutations_followed_up", d.followed)
	run.Set("followup_requests", d.followReqs)
	run.Set("followup_seconds_total", float64(atomic.LoadInt64(&c20FollowNanos))/1e9)
	run.Set("goroutine_growth_probes", atomic.LoadInt64(&c20LeakProbes))
	run.Set("wellformed_requests", d.wfRequests)
	run.Set("wellformed_tables", map[string]int{"annotation_tag_cases": len(table.AnnCases), "neuronjson_query_cases": len(table.NJCases)})
	run.Set("documented_queries_refused", d.wfRefused)
	run.Set("table_endpoints", len(table.Endpoints))
	run.Set("worlds_not_run_after_a_failed_setup", sortedKeys(d.poisoned))
	run.Set("table_cases", len(table.Cases))
	run.Set("table_cases_not_in_this_tiers_sample", d.sampledOut)
	run.Set("cases_inapplicable", d.skipped)
	run.Set("requests_not_transmittable", d.notSent)
	run.Set("answered_4xx", d.rejected)
	run.Set("answered_2xx", d.accepted)
	run.Set("status_classes", d.statusHist)
	run.Set("violation_groups", groups)
	run.Set("violations_by_kind", d.byKind)
	run.Set("further_cases_in_reported_groups", more)
	run.Set("unreproduced", d.unrepro)
	run.Set("snapshots", atomic.LoadInt64(&c20SnapCount))
	run.Set("snapshot_seconds_total", float64(atomic.LoadInt64(&c20SnapNanos))/1e9)
	run.Set("worlds_built", atomic.LoadInt64(&c20WorldCount))
	run.Set("world_seconds_total", float64(atomic.LoadInt64(&c20WorldNanos))/1e9)
	run.Set("rule", "TLC model-checks the Gate protocol of specs/Hostile.tla (Send / Settle / Follow / Probe) over every (endpoint, mutation class, structural position) case and prints the table with the oracle (must be answered 4xx / may be accepted), the scopes each case names, whether it is a mutating request and the follow-up requests owed to it; the harness checks that its payload builders have exactly the table's field structure and that it implements exactly the table's follow-ups, expands each case into seeded concrete requests (bit positions, cut offsets, extreme values, hostile spellings, block geometries, verbs are sampled or walked through, not enumerated), sends them to the real server and requires: status class allowed by the table, never 5xx, process alive, idle reached, no request work blocked on a lock long after the answer, no goroutines left behind by every repetition of the request, no panic report of a goroutine outside the request handler on stderr, liveness probe answered, later reads not 5xx, every snapshot entry outside the scopes the request names unchanged, and - after an accepted mutating request - every follow-up of the table (reads of the touched region through every format, further mutations of it) answered without a server error; refused requests are compared with the snapshot in windows and re-run one by one on a fresh node when a window differs; a suspected departure counts only when it is seen again for the same request on a fresh node; the quick tier runs a seeded sample of the request-level cases and of the cases of the rows added by the growth round (table_cases_not_in_this_tiers_sample), the thorough tier every case; distinct_nontrivial = distinct table cases whose concrete request differed from the valid one and reached the server")
	run.Assume = []string{
		"the server-under-test runs with an 8 GB address-space limit (about 3.5 GB above what it maps at rest) (a request that makes it allocate beyond that kills the process and is counted as a crash)",
		"requests are delivered through server.ServeSingleHTTP (the full middleware chain of the web server, no TCP layer)",
		"what a request names is taken per instance group (Hostile.tla MayChange): the target part of the instance at the target version and instance-wide settings; everything else must read back as before",
		"three harness worlds (first-round datatypes; multi-scale labelmap + uint16blk + rgba8blk; labelblk/labelvol/labelarray/labelsz/tarsupervoxels/imagetile), each one repository with data at four versions",
		"request work that is still running (not blocked) 3 s after the answer is left to finish in the background and is not judged; work blocked on a lock or wait group for 18 s is a wedge",
		"a panic report on stderr is attributed to the request in flight; a report printed between two requests (snapshot reads, set-up) is reported as stray and, like every departure, must reproduce on a fresh node",
	}
	fmt.Printf("C20: %d table cases on %d endpoints, %d requests sent (%d inapplicable, %d not transmittable), 4xx=%d 2xx=%d; violation groups=%d; %.1fs\n",
		len(table.Cases), len(table.Endpoints), d.sent, d.skipped, d.notSent, d.rejected, d.accepted, len(d.groups), since(t0))
	for _, g := range groups {
		fmt.Println("  group:", g)
	}
	if len(d.unrepro) > 0 {
		for _, u := range d.unrepro {
			fmt.Println("  NOT REPRODUCED:", u)
		}
	}
	rc := run.Finish()
	if rc == 0 && len(d.unrepro) > 0 {
		infra("%d suspected departure(s) were not reproduced on a fresh node", len(d.unrepro))
	}
	return rc
}
