package main

// Shared by the label block checks C09 and C10: node pool for the "labels.*" calls and the
// order-preserving map from the abstract labels of specs/LabelBlock*.tla to 64-bit labels.

import (
	"fmt"
	"math/rand"
	"sort"
	"sync"

	lg "verifharness/internal/lblgeom"
	"verifharness/internal/node"
)

type lblPool struct {
	c     *Ctx
	mu    sync.Mutex
	nodes []*node.Node
}

func newLblPool(c *Ctx, n int) *lblPool {
	p := &lblPool{c: c, nodes: make([]*node.Node, n)}
	return p
}

func (p *lblPool) get(w int) *node.Node {
	p.mu.Lock()
	defer p.mu.Unlock()
	if p.nodes[w] == nil || !p.nodes[w].Alive() {
		if p.nodes[w] != nil {
			p.c.DropNode(p.nodes[w])
		}
		p.nodes[w] = p.c.StartNode(node.Config{NoLog: true})
	}
	return p.nodes[w]
}

func (p *lblPool) close() {
	for _, n := range p.nodes {
		if n != nil {
			p.c.DropNode(n)
		}
	}
}

// runCases sends the cases in batches over the pool and returns the observations by case id.
func (p *lblPool) runCases(cases []*lg.Case, batch int) []lg.CaseObs {
	out := make([]lg.CaseObs, len(cases))
	nb := (len(cases) + batch - 1) / batch
	parallel(nb, len(p.nodes), func(w, bi int) {
		lo, hi := bi*batch, (bi+1)*batch
		if hi > len(cases) {
			hi = len(cases)
		}
		var res []lg.CaseObs
		args := struct {
			Cases []*lg.Case `json:"cases"`
		}{cases[lo:hi]}
		err := p.get(w).Call("labels.run", args, &res)
		must(err, "labels.run")
		if len(res) != hi-lo {
			infra("labels.run returned %d observations for %d cases", len(res), hi-lo)
		}
		copy(out[lo:hi], res)
	})
	return out
}

func (p *lblPool) runDownres(cases []*lg.DownresCase, batch int) []lg.DownresObs {
	out := make([]lg.DownresObs, len(cases))
	nb := (len(cases) + batch - 1) / batch
	parallel(nb, len(p.nodes), func(w, bi int) {
		lo, hi := bi*batch, (bi+1)*batch
		if hi > len(cases) {
			hi = len(cases)
		}
		var res []lg.DownresObs
		args := struct {
			Cases []*lg.DownresCase `json:"cases"`
		}{cases[lo:hi]}
		err := p.get(w).Call("labels.downres", args, &res)
		must(err, "labels.downres")
		if len(res) != hi-lo {
			infra("labels.downres returned %d observations for %d cases", len(res), hi-lo)
		}
		copy(out[lo:hi], res)
	})
	return out
}

// labelMap maps abstract labels 0..n to strictly increasing 64-bit labels (0 -> 0).
// class: small (consecutive from a seeded base), wide (spread over 64 bits), top (the two
// largest are 2^63 and 2^64-1), mid32 (straddling 2^32).
func labelMap(class string, n int, rng *rand.Rand) []uint64 {
	m := make([]uint64, n+1)
	switch class {
	case "wide":
		seen := map[uint64]bool{0: true}
		vals := make([]uint64, 0, n)
		for len(vals) < n {
			v := rng.Uint64()
			if !seen[v] {
				seen[v] = true
				vals = append(vals, v)
			}
		}
		sort.Slice(vals, func(i, j int) bool { return vals[i] < vals[j] })
		copy(m[1:], vals)
	case "mid32":
		base := uint64(1)<<32 - uint64(n/2) - 1
		for a := 1; a <= n; a++ {
			m[a] = base + uint64(a)
		}
	default:
		base := uint64(rng.Intn(1000))
		for a := 1; a <= n; a++ {
			m[a] = base + uint64(a)
		}
		if class == "top" && n >= 2 {
			m[n] = ^uint64(0)
			m[n-1] = uint64(1) << 63
		}
	}
	return m
}

func u64Equal(a, b []uint64) bool {
	if len(a) != len(b) {
		return false
	}
	for i := range a {
		if a[i] != b[i] {
			return false
		}
	}
	return true
}

func sumRegions(sizes []int, rs []int) uint64 {
	var s uint64
	for _, r := range rs {
		s += uint64(sizes[r-1])
	}
	return s
}

func fmtErr(format string, a ...interface{}) string { return fmt.Sprintf(format, a...) }

// maskInfra aborts (exit 2) when a sparse output did not finish in time: a timeout is never a verdict.
func maskInfra(m *lg.Mask) {
	if m != nil && len(m.Err) >= 8 && m.Err[:8] == "TIMEOUT:" {
		infra("sparse output: %s", m.Err)
	}
}
