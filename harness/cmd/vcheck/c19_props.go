package main

import (
	"encoding/json"
	"fmt"
	"sync/atomic"

	"verifharness/internal/node"
	"verifharness/internal/snap"
)

// Growth of C19 (GAPS.md C19-2, C19-3):
//   - the instance properties a copy carries over (imageblk Values / Interpolable / BlockSize /
//     Resolution / Background / Extents, roi BlockSize / MinZ / MaxZ: what the datatypes'
//     CopyPropertiesFrom copy; the whole "Extended" part of GET info) must equal the source's;
//   - on a sample of the shapes the server is restarted after the copies (alternating clean stop and
//     SIGKILL while idle) and every source and copy is read and compared again, and the properties
//     of every copy must read as before the restart (SaveDataByUUID, tag-derived store assignment).

var c19Restarts, c19PropsCompared int64

// c19Props returns the normalised "Extended" part of GET info (and the type / versioned flag).
func c19Props(n *node.Node, uuid, inst string) (string, error) {
	r, err := n.HTTP("GET", "/api/node/"+uuid+"/"+inst+"/info", nil)
	if err != nil {
		return "", err
	}
	if r.Status != 200 {
		return fmt.Sprintf("status %d", r.Status), nil
	}
	var info struct {
		Base struct {
			TypeName  string
			Versioned bool
		}
		Extended json.RawMessage
	}
	if err := json.Unmarshal(r.Bytes(), &info); err != nil {
		return "", fmt.Errorf("info of %s: %v", inst, err)
	}
	return fmt.Sprintf("%s versioned=%v %s", info.Base.TypeName, info.Base.Versioned, snap.NormJSON(info.Extended)), nil
}

// c19RestartSample: which shapes are followed by a restart.
func c19RestartSample(c *Ctx, si int) bool { return si%c.pick(6, 4) == 0 }

func c19NoteRestart() { atomic.AddInt64(&c19Restarts, 1) }
