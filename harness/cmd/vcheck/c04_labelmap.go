package main

// C04 on label data: a process death at every store write and every log append of the
// ingest of a block (POST raw, POST blocks), merge, cleave, split-supervoxel and a mutating
// voxel write on a small labelmap instance.  Model: specs/LabelmapCrash.tla (programs of
// single-key writes, Crash between any two of them, no repair).  After recovery:
//   - the start-up succeeds, the repository metadata is well formed;
//   - every OTHER version (the committed parent, a sibling branch holding an earlier
//     acknowledged operation) reads exactly as the specification says (full read set);
//   - at the interrupted version every single-key cell (block, label index, mapping record)
//     holds its value from before the operation or the value the operation gives it; when
//     all cells agree with one of the two states the full read set must equal that state
//     (and an absent operation can be issued again and then reads as the target state);
//     otherwise (a multi-key operation caught half-way - exempt from all-or-nothing) every
//     read endpoint must still answer without a server error.

import (
	"encoding/json"
	"fmt"
	"os"
	"path/filepath"
	"sort"
	"strings"
	"sync"
	"sync/atomic"
	"time"

	"verifharness/internal/dagm"
	"verifharness/internal/ev"
	"verifharness/internal/lmm"
	"verifharness/internal/node"
)

// lmCrashCfg is a node whose labelmap instances log through the crash-wrapped file log, so log
// appends are numbered (and can be interrupted) like store writes.
func lmCrashCfg(c *Ctx) node.Config {
	k := atomic.AddInt64(&c.nodeSeq, 1)
	dir := filepath.Join(c.Scratch, fmt.Sprintf("lmnode%d", k))
	return node.Config{Dir: dir, AllowSplit: true,
		ExtraTOML: fmt.Sprintf("[backend.labelmap]\n  store = \"main\"\n  log = \"clog\"\n\n[store.clog]\n  engine = \"crashfilelog\"\n  path = %q\n", filepath.Join(dir, "clog"))}
}

// lmTarget is one operation to be interrupted.
type lmTarget struct {
	layout  string
	gr      *lmcGraph
	g       *lmm.Geom
	initSV  []uint64
	variant string    // ingestion through "raw" or "blocks"
	ingest  int       // > 0: the ingest of this block is the target
	path    []lmcEdge // acknowledged operations at the working version before the target
	edge    *lmcEdge  // the interrupted operation (nil for ingest)
	sib     *lmcEdge  // operation acknowledged at a sibling version
	// learned from the fault-free reference run
	writes []crashWrite
}

type crashWrite struct {
	N     uint64 `json:"n"`
	Op    string `json:"op"`
	Class string `json:"class"`
	TKC   int    `json:"tkc"`
	NKeys int    `json:"nkeys"`
}

func (t *lmTarget) name() string {
	if t.ingest > 0 {
		return fmt.Sprintf("%s/ingest-%s-block%d", t.layout, t.variant, t.ingest)
	}
	return fmt.Sprintf("%s/%s after %d ops", t.layout, jsonStr(t.edge.L), len(t.path))
}

type lmCrashPoint struct {
	t     *lmTarget
	k     int // the k-th write of the target operation
	after bool
	torn  int // > 0: a log append torn after this many bytes
}

type c04lmDivergence struct {
	Kind      string      `json:"kind"`
	Target    string      `json:"interrupted_operation"`
	InitSV    []uint64    `json:"initial_supervoxel_of_region"`
	Acked     []lmm.Op    `json:"acknowledged_operations_at_that_version"`
	Sibling   interface{} `json:"acknowledged_operation_at_sibling_version,omitempty"`
	Write     int         `json:"crash_at_write_of_operation"`
	When      string      `json:"when"`
	WriteKind interface{} `json:"write_in_reference_run,omitempty"`
	Diffs     []string    `json:"diffs"`
	Labels    interface{} `json:"spec_to_real_labels,omitempty"`
	LogTail   string      `json:"server_log_tail,omitempty"`
}

// lmSession drives one node through the history of a target.
type lmSession struct {
	c    *Ctx
	t    *lmTarget
	n    *node.Node
	in   *lmm.Inst
	root string
	sibU string
	cur  string
	lab  *lmm.Labels // labels at the working version
	labS *lmm.Labels // labels at the sibling version
}

func (s *lmSession) branch(parent, name string) string {
	r, err := s.n.HTTP("POST", "/api/node/"+parent+"/branch", []byte(fmt.Sprintf(`{"branch":%q}`, name)))
	must(err, "branch")
	if r.Status != 200 {
		infra("branch refused: %d %s", r.Status, r.Bytes())
	}
	var o struct{ Child string }
	json.Unmarshal(r.Bytes(), &o)
	return o.Child
}

func (s *lmSession) ingestBlock(b int) error {
	if s.t.variant == "blocks" {
		return s.in.IngestBlocks(s.root, s.t.initSV, []int{b})
	}
	return s.in.Ingest(s.root, s.t.initSV, []int{b}, false)
}

// applyAcked executes an operation that must succeed and waits for its background work.
func (s *lmSession) applyAcked(uuid string, op lmm.Op, lab *lmm.Labels) {
	st, _, err := s.in.Apply(uuid, op, lab)
	must(err, "apply "+op.Op)
	if st != 200 {
		infra("operation %s refused in the set-up of a crash run: status %d", jsonStr(op), st)
	}
	must(s.n.Idle(), "idle")
}

// waitState polls until the full read set equals obs (index updates after a voxel write run
// in goroutines no idle predicate covers), for at most 10 s; returns the last differences.
func (s *lmSession) waitState(uuid string, obs lmm.Obs, lab *lmm.Labels, eventually bool) []string {
	d, err := s.in.Compare(uuid, obs, lab, lmm.Full)
	must(err, "compare")
	deadline := time.Now().Add(10 * time.Second)
	for eventually && len(d) > 0 && time.Now().Before(deadline) {
		time.Sleep(5 * time.Millisecond)
		d, err = s.in.Compare(uuid, obs, lab, lmm.Full)
		must(err, "compare")
	}
	return d
}

// waitIngested polls until the storage layers hold the first upTo blocks completely (10 s).
func (s *lmSession) waitIngested(upTo int) {
	want := s.t.g.LayersOf(s.t.gr.initObs, upTo)
	want.Map = map[uint64]uint64{}
	deadline := time.Now().Add(10 * time.Second)
	for {
		got, probs, err := s.in.ReadLayers(s.root, realLabels(specBodies(s.t.gr.initObs), s.lab))
		must(err, "read layers")
		v := s.t.g.CompareCells(got, want, want, nil, s.lab)
		if len(probs) == 0 && len(v.Diffs) == 0 {
			return
		}
		if time.Now().After(deadline) {
			infra("set-up of a crash run: the first %d ingested blocks are not completely stored after 10 s: %v %v", upTo, probs, v.Diffs)
		}
		time.Sleep(5 * time.Millisecond)
	}
}

// setup runs the history up to (excluding) the target operation.  before is called right
// before the target is issued and returns false to stop there.
func (s *lmSession) setup() {
	t := s.t
	s.n = s.c.StartNode(lmCrashCfg(s.c))
	r, err := s.n.HTTP("POST", "/api/repos", []byte(`{"alias":"lmc"}`))
	must(err, "newrepo")
	var o struct{ Root string }
	json.Unmarshal(r.Bytes(), &o)
	s.root = o.Root
	s.in = &lmm.Inst{N: s.n, G: t.g, Name: "seg", Root: o.Root}
	must(s.in.Create(nil), "create labelmap")
	s.lab = lmm.NewLabels()
	nb := len(t.g.Blocks)
	upTo := nb
	if t.ingest > 0 {
		upTo = t.ingest - 1
	}
	for b := 1; b <= upTo; b++ {
		must(s.ingestBlock(b), "ingest")
		must(s.n.Idle(), "idle")
	}
	// the label indices of an ingested block are written by a goroutine that outlives the request
	// and that no idle predicate covers: acknowledged work counts once that has finished
	s.waitIngested(upTo)
	if t.ingest > 0 {
		s.cur = s.root
		return
	}
	r, err = s.n.HTTP("POST", "/api/node/"+s.root+"/commit", []byte(`{}`))
	must(err, "commit")
	if r.Status != 200 {
		infra("commit refused: %d %s", r.Status, r.Bytes())
	}
	if t.sib != nil {
		s.sibU = s.branch(s.root, "sibling")
		s.labS = s.lab.Clone()
		s.applyAcked(s.sibU, t.sib.L, s.labS)
		if t.sib.L.Op == "overwrite" {
			// (its index updates run in goroutines no idle predicate covers: acknowledged work counts
			// only once its background processing has finished)
			if d := s.waitState(s.sibU, t.sib.TObs, s.labS, true); len(d) > 0 {
				infra("set-up of a crash run: sibling state after %s differs from the specification: %v", jsonStr(t.sib.L), d)
			}
		}
	}
	s.cur = s.branch(s.root, "work")
	for _, e := range t.path {
		s.applyAcked(s.cur, e.L, s.lab)
		if e.L.Op == "overwrite" {
			if d := s.waitState(s.cur, e.TObs, s.lab, true); len(d) > 0 {
				infra("set-up of a crash run: state after %s differs from the specification: %v", jsonStr(e.L), d)
			}
		}
	}
}

// issue sends the target operation; it returns the status (0 when the process died).
func (s *lmSession) issue(lab *lmm.Labels) (int, error) {
	t := s.t
	if t.ingest > 0 {
		err := s.ingestBlock(t.ingest)
		if err == node.ErrDead || !s.n.Alive() {
			return 0, nil
		}
		if err != nil {
			return 400, err
		}
		return 200, nil
	}
	st, _, err := s.in.Apply(s.cur, t.edge.L, lab)
	if err == node.ErrDead || !s.n.Alive() {
		return 0, nil
	}
	return st, err
}

// predictedLabels binds the labels the target operation will allocate (the next ones of the
// instance's counter) so that a torn state can be read in specification labels.
func (s *lmSession) predicted() *lmm.Labels {
	lab := s.lab.Clone()
	if s.t.edge == nil {
		return lab
	}
	r, err := s.n.HTTP("GET", "/api/node/"+s.cur+"/seg/nextlabel", nil)
	must(err, "nextlabel")
	var nl struct {
		NextLabel uint64 `json:"nextlabel"`
	}
	json.Unmarshal(r.Bytes(), &nl)
	op := s.t.edge.L
	switch op.Op {
	case "cleave":
		lab.Bind(op.New, nl.NextLabel)
	case "splitsv":
		lab.Bind(op.Split, nl.NextLabel)
		lab.Bind(op.Remain, nl.NextLabel+1)
	case "overwrite":
		if op.Label != 0 {
			if _, bound := lab.ToReal[op.Label]; !bound {
				present := false
				for _, l := range op.OldSV {
					if l == op.Label {
						present = true
					}
				}
				if !present {
					lab.Bind(op.Label, s.in.MaxSeen+3) // the label lmm.Apply will choose
				}
			}
		}
	}
	return lab
}

func specBodies(obs ...lmm.Obs) []uint64 {
	set := map[uint64]bool{}
	for _, o := range obs {
		for _, b := range o.Bodies {
			set[b.Label] = true
		}
	}
	var out []uint64
	for l := range set {
		out = append(out, l)
	}
	sort.Slice(out, func(i, j int) bool { return out[i] < out[j] })
	return out
}

// modelStates returns the layers before / after the target and the mapping cells it writes.
func (t *lmTarget) modelStates() (pre, post *lmm.ModelLayers, mapw map[uint64]uint64, sobs, tobs lmm.Obs) {
	nb := len(t.g.Blocks)
	if t.ingest > 0 {
		o := t.gr.initObs
		pre, post = t.g.LayersOf(o, t.ingest-1), t.g.LayersOf(o, t.ingest)
		// before the volume is complete no mapping cell exists; bodies absent from the ingested part have no cells
		pre.Map, post.Map = map[uint64]uint64{}, map[uint64]uint64{}
		return pre, post, nil, o, o
	}
	e := t.edge
	mapw = map[uint64]uint64{}
	for k, v := range e.MapW {
		var s uint64
		fmt.Sscan(k, &s)
		mapw[s] = v
	}
	return t.g.LayersOf(e.SObs, nb), t.g.LayersOf(e.TObs, nb), mapw, e.SObs, e.TObs
}

// reference runs the target without a fault and records its writes.
func lmReference(c *Ctx, run *ev.Run, t *lmTarget) {
	s := &lmSession{c: c, t: t}
	s.setup()
	defer c.DropNode(s.n)
	s.n.WTrace(true)
	st, err := s.issue(s.lab)
	must(err, "reference run: "+t.name())
	if st != 200 {
		infra("reference run: %s refused with status %d", t.name(), st)
	}
	must(s.n.Idle(), "idle")
	pre, post, mapw, _, tobs := t.modelStates()
	if t.ingest == 0 {
		if d := s.waitState(s.cur, tobs, s.lab, true); len(d) > 0 {
			run.Violation("c04-lm", c04lmDivergence{Kind: "state-mismatch-without-fault", Target: t.name(), InitSV: t.initSV, Diffs: d, Labels: s.lab.ToReal})
		}
	}
	// the storage layers of the fault-free run must be the ones the specification's program
	// produces (this binds the projection used by the crash runs)
	// (index updates of voxel writes finish in the background: compared as "eventually within 10 s")
	var v lmm.CellVerdict
	var probs []string
	for deadline := time.Now().Add(10 * time.Second); ; time.Sleep(5 * time.Millisecond) {
		got, p, err := s.in.ReadLayers(s.cur, realLabels(specBodies(tobs), s.lab))
		must(err, "read layers")
		probs = p
		v = t.g.CompareCells(got, pre, post, mapw, s.lab)
		if (len(probs) == 0 && len(v.Diffs) == 0 && v.IsPost) || time.Now().After(deadline) {
			break
		}
	}
	if !v.IsPost && len(v.Diffs) == 0 {
		v.Diffs = append(v.Diffs, "the storage layers after the fault-free operation are not the ones the specification's program produces (cells moved: "+v.Pattern+")")
	}
	if len(probs) > 0 || len(v.Diffs) > 0 {
		run.Violation("c04-lm", c04lmDivergence{Kind: "storage-layers-mismatch-without-fault", Target: t.name(), InitSV: t.initSV, Diffs: append(probs, v.Diffs...), Labels: s.lab.ToReal})
	}
	raw, err := s.n.WTrace(false)
	must(err, "wtrace")
	json.Unmarshal(raw, &t.writes)
}

func realLabels(spec []uint64, lab *lmm.Labels) []uint64 {
	out := make([]uint64, len(spec))
	for i, l := range spec {
		out[i] = lab.Real(l)
	}
	return out
}

type lmCrashStats struct {
	mu        sync.Mutex
	outcomes  map[string]int
	patterns  map[string]bool
	runs      int64
	beyond    int64
	reapplied int64
}

// lmCrashRun executes one crash point.
func lmCrashRun(c *Ctx, run *ev.Run, p lmCrashPoint, stats *lmCrashStats) {
	t := p.t
	s := &lmSession{c: c, t: t}
	s.setup()
	defer func() { c.DropNode(s.n) }()
	when := "before"
	if p.after {
		when = "after"
	}
	if p.torn > 0 {
		when = fmt.Sprintf("inside (log record torn after %d bytes)", p.torn)
	}
	div := c04lmDivergence{Target: t.name(), InitSV: t.initSV, Write: p.k, When: when}
	for _, e := range t.path {
		div.Acked = append(div.Acked, e.L)
	}
	if t.sib != nil {
		div.Sibling = t.sib.L
	}
	if p.k-1 < len(t.writes) {
		div.WriteKind = t.writes[p.k-1]
	}
	labPre := s.lab.Clone()
	labPost := s.predicted()
	report := func(kind string, diffs []string, lab *lmm.Labels) {
		d := div
		d.Kind = kind
		if len(diffs) > 14 {
			diffs = diffs[:14]
		}
		d.Diffs = diffs
		if lab != nil {
			d.Labels = lab.ToReal
		}
		d.LogTail = s.n.StderrTail(1500)
		run.Violation("c04-lm", d)
	}
	if p.torn > 0 {
		must(s.n.Call("crash.armtorn", map[string]interface{}{"n": p.k, "torn": p.torn}, nil), "arm")
	} else {
		must(s.n.Arm(uint64(p.k), p.after), "arm")
	}
	st, err := s.issue(s.lab.Clone())
	must(err, "issue "+t.name())
	if st != 0 {
		// acknowledged: the crash point may still lie in the operation's background work
		if err := s.n.Idle(); err != nil && s.n.Alive() {
			must(err, "idle")
		}
		if s.n.Alive() && t.edge != nil && t.edge.L.Op == "overwrite" {
			time.Sleep(30 * time.Millisecond)
		}
	}
	if s.n.Alive() {
		if _, err := s.n.Do(node.Req{Op: "disarm"}); err == nil && s.n.Alive() {
			atomic.AddInt64(&stats.beyond, 1)
			return // this run issued fewer writes than the reference run: nothing to judge
		}
	}
	s.n.WaitExit(10 * time.Second)
	if err := s.n.Restart(false); err != nil {
		if strings.Contains(err.Error(), "timeout") {
			infra("restart after a crash: %v", err) // an overloaded machine, not a verdict
		}
		report("startup-failed-after-crash", []string{err.Error()}, nil)
		return
	}
	atomic.AddInt64(&stats.runs, 1)
	// metadata
	var repos map[string]dagm.RepoInfo
	r, err := s.n.HTTP("GET", "/api/repos/info", nil)
	must(err, "repos info")
	json.Unmarshal(r.Bytes(), &repos)
	if wf := dagm.WellFormed(repos); len(wf) > 0 || r.Status != 200 {
		report("metadata-not-well-formed-after-recovery", append(wf, fmt.Sprintf("repos/info status %d", r.Status)), nil)
		return
	}
	s.in.N = s.n
	// other versions
	if t.ingest == 0 {
		d, err := s.in.Compare(s.root, t.gr.initObs, lmm.NewLabels(), lmm.Full)
		must(err, "compare parent")
		if len(d) > 0 {
			report("crash-changed-the-committed-parent-version", d, nil)
			return
		}
		if t.sib != nil {
			d, err := s.in.Compare(s.sibU, t.sib.TObs, s.labS, lmm.Full)
			must(err, "compare sibling")
			if len(d) > 0 {
				report("crash-changed-a-sibling-version-holding-acknowledged-work", d, s.labS)
				return
			}
		}
	}
	// the interrupted version, cell by cell
	pre, post, mapw, sobs, tobs := t.modelStates()
	got, probs, err := s.in.ReadLayers(s.cur, realLabels(specBodies(sobs, tobs), labPost))
	if err != nil || !s.n.Alive() {
		report("server-died-reading-the-recovered-version", []string{fmt.Sprint(err)}, labPost)
		return
	}
	v := t.g.CompareCells(got, pre, post, mapw, labPost)
	if len(probs) > 0 || len(v.Diffs) > 0 {
		report("recovered-cell-is-neither-the-old-nor-the-new-value", append(probs, v.Diffs...), labPost)
		return
	}
	outcome := "partial"
	switch {
	case v.IsPre && v.IsPost:
		outcome = "absent=present" // (an operation whose program changes no cell)
	case v.IsPre:
		outcome = "absent"
	case v.IsPost:
		outcome = "present"
	}
	stats.mu.Lock()
	stats.outcomes[outcome]++
	stats.patterns[t.name()+"|"+v.Pattern] = true
	stats.mu.Unlock()
	run.Eval(fmt.Sprintf("lm|%s|w%d|%s|%s", t.name(), p.k, when, outcome))
	nb := len(t.g.Blocks)
	switch {
	case t.ingest > 0:
		// finish the ingestion (an absent block is posted again) and read the complete volume
		if outcome == "partial" {
			bad, err := s.in.ProbeReads(s.cur, realLabels(specBodies(tobs), labPost))
			if err != nil || !s.n.Alive() || len(bad) > 0 {
				report("read-fails-on-a-half-ingested-block", append(bad, fmt.Sprint(err)), labPost)
			}
			return
		}
		from := t.ingest + 1
		if outcome == "absent" {
			from = t.ingest
		}
		for b := from; b <= nb; b++ {
			if err := s.ingestBlock(b); err != nil {
				report("ingest-refused-after-recovery", []string{err.Error()}, nil)
				return
			}
			must(s.n.Idle(), "idle")
		}
		if d := s.waitState(s.root, t.gr.initObs, lmm.NewLabels(), true); len(d) > 0 {
			report("volume-differs-after-recovery-and-completed-ingest", d, nil)
		}
		atomic.AddInt64(&stats.reapplied, 1)
	case outcome == "present" || outcome == "absent=present":
		if d := s.waitState(s.cur, tobs, labPost, false); len(d) > 0 {
			report("all-cells-new-but-reads-differ-from-the-target-state", d, labPost)
		}
	case outcome == "absent":
		if d := s.waitState(s.cur, sobs, labPre, false); len(d) > 0 {
			report("all-cells-old-but-reads-differ-from-the-source-state", d, labPre)
			return
		}
		// the operation can be issued again and then takes effect completely
		lab2 := labPre.Clone()
		st, _, err := s.in.Apply(s.cur, t.edge.L, lab2)
		if err != nil || st != 200 {
			report("operation-refused-after-recovery", []string{fmt.Sprintf("status %d err %v", st, err)}, lab2)
			return
		}
		must(s.n.Idle(), "idle")
		if d := s.waitState(s.cur, tobs, lab2, t.edge.L.Op == "overwrite"); len(d) > 0 {
			report("operation-repeated-after-recovery-gives-a-different-state", d, lab2)
		}
		atomic.AddInt64(&stats.reapplied, 1)
	default:
		bad, err := s.in.ProbeReads(s.cur, realLabels(specBodies(sobs, tobs), labPost))
		if err != nil || !s.n.Alive() || len(bad) > 0 {
			report("read-fails-on-a-torn-multi-key-operation", append(bad, fmt.Sprint(err)), labPost)
		}
	}
}

type lmcLayout struct {
	name      string
	initSV    []uint64
	ops       int
	overwrite bool
}

var lmcLayouts = []lmcLayout{
	{"small6/A", []uint64{1, 1, 2, 2, 3, 0}, 2, false},
	{"small6/B", []uint64{7, 7, 7, 4, 4, 9}, 1, true},
}

// lmcGraphs model-checks LabelmapCrash.tla for the layouts (concurrently).
func lmcGraphs(c *Ctx, g *lmm.Geom) []*lmcGraph {
	graphs := make([]*lmcGraph, len(lmcLayouts))
	parallel(len(lmcLayouts), len(lmcLayouts), func(_, i int) {
		graphs[i] = lmcExplore(c, g, lmcLayouts[i].initSV, lmcLayouts[i].ops, lmcLayouts[i].overwrite)
	})
	return graphs
}

// lmCrashCheck is the labelmap part of C04.
func lmCrashCheck(c *Ctx, run *ev.Run, small *lmm.Geom, graphs []*lmcGraph) (states, trans, nruns int64) {
	layouts := lmcLayouts
	var targets []*lmTarget
	rng := c.Rng
	for i, lo := range layouts {
		gr := graphs[i]
		states += gr.States
		trans += gr.Trans
		mk := func() *lmTarget {
			return &lmTarget{layout: lo.name, gr: gr, g: small, initSV: lo.initSV, variant: "raw"}
		}
		// ingest of every block, through both endpoints
		for b := 1; b <= len(small.Blocks); b++ {
			for _, variant := range []string{"raw", "blocks"} {
				if (i != 0 || !c.thorough()) && (variant == "raw") != (b%2 == 1) {
					continue // layout B / quick: blocks 1 and 3 through POST raw, 2 and 4 through POST blocks
				}
				if i != 0 && !c.thorough() {
					continue
				}
				t := mk()
				t.variant, t.ingest = variant, b
				targets = append(targets, t)
			}
		}
		// operations: every kind; thorough = every transition from the initial state and every
		// cleave at depth 1, quick = a seeded choice of one transition per kind
		var sib *lmcEdge
		byKind := map[string][]int{}
		for ei := range gr.edges {
			e := &gr.edges[ei]
			if e.Depth == 0 && sib == nil && e.L.Op == "merge" {
				sib = e
			}
			k := e.L.Op
			if k == "overwrite" {
				switch {
				case e.L.Label == 0:
					k = "overwrite-erase"
				case e.L.Label > maxU64(lo.initSV):
					k = "overwrite-fresh"
				default:
					k = "overwrite-present"
				}
			}
			if e.Depth == 0 || (e.Depth == 1 && e.L.Op == "cleave") {
				byKind[k] = append(byKind[k], ei)
			}
		}
		var kinds []string
		for k := range byKind {
			kinds = append(kinds, k)
		}
		sort.Strings(kinds)
		for _, k := range kinds {
			if lo.overwrite && !strings.HasPrefix(k, "overwrite") {
				continue // layout B is there for the voxel writes
			}
			eis := byKind[k]
			if !c.thorough() {
				eis = []int{eis[rng.Intn(len(eis))]}
			} else if k == "cleave" && len(eis) > 6 {
				rng.Shuffle(len(eis), func(a, b int) { eis[a], eis[b] = eis[b], eis[a] })
				eis = eis[:6]
			}
			for _, ei := range eis {
				t := mk()
				t.edge = &gr.edges[ei]
				t.path = gr.pathTo(t.edge.S.Canon())
				t.sib = sib
				if ei%2 == 1 {
					t.variant = "blocks"
				}
				targets = append(targets, t)
			}
		}
	}
	if only := os.Getenv("VCHECK_LM_ONLY"); only != "" { // debugging aid: restrict the targets by name
		var keep []*lmTarget
		for _, t := range targets {
			if strings.Contains(t.name(), only) {
				keep = append(keep, t)
			}
		}
		targets = keep
	}
	v0 := run.Violations()
	parallel(len(targets), 12, func(_, i int) { lmReference(c, run, targets[i]) })
	if run.Violations() > v0 {
		return // the fault-free runs already disagree with the specification
	}
	var pts []lmCrashPoint
	kindsSeen := map[string]bool{}
	for _, t := range targets {
		for k := 1; k <= len(t.writes); k++ {
			w := t.writes[k-1]
			kindsSeen[fmt.Sprintf("%s/%s/%d", w.Op, w.Class, w.TKC)] = true
			pts = append(pts, lmCrashPoint{t: t, k: k, after: false}, lmCrashPoint{t: t, k: k, after: true})
			if w.Class == "LOG" {
				// a death inside the append: header only, header + part of the payload
				for _, torn := range []int{3, 6, 6 + w.NKeys/2} {
					if torn < 6+w.NKeys && (c.thorough() || torn == 6+w.NKeys/2) {
						pts = append(pts, lmCrashPoint{t: t, k: k, torn: torn})
					}
				}
			}
		}
	}
	if !c.thorough() {
		// quick: crash before every write, after every second one
		var q []lmCrashPoint
		for i, p := range pts {
			if !p.after || p.torn > 0 || i%4 == 1 {
				q = append(q, p)
			}
		}
		pts = q
	}
	stats := &lmCrashStats{outcomes: map[string]int{}, patterns: map[string]bool{}}
	parallel(len(pts), 14, func(_, i int) { lmCrashRun(c, run, pts[i], stats) })
	var wk []string
	for k := range kindsSeen {
		wk = append(wk, k)
	}
	sort.Strings(wk)
	run.Set("labelmap_crash_targets", len(targets))
	run.Set("labelmap_crash_points", len(pts))
	run.Set("labelmap_crash_runs_recovered_and_compared", stats.runs)
	run.Set("labelmap_crash_points_beyond_the_operation", stats.beyond)
	run.Set("labelmap_outcomes", stats.outcomes)
	run.Set("labelmap_distinct_torn_patterns", len(stats.patterns))
	run.Set("labelmap_operations_repeated_after_recovery", stats.reapplied)
	run.Set("labelmap_write_kinds_interrupted", wk)
	if len(targets) > 0 {
		t := targets[len(targets)-1]
		run.Sample(map[string]interface{}{"labelmap_target": t.name(), "writes_of_the_operation": t.writes, "specification_program": t.progShape()})
	}
	return states, trans, stats.runs
}

func (t *lmTarget) progShape() interface{} {
	if t.edge != nil {
		return t.edge.C.Shape
	}
	if t.ingest > 0 && t.ingest <= len(t.gr.ingest) {
		return t.gr.ingest[t.ingest-1].C.Shape
	}
	return nil
}
