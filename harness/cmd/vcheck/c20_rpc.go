package main

import (
	"encoding/base64"
	"encoding/json"
	"errors"
	"fmt"
	"math/rand"
	"os"
	"strings"
	"sync/atomic"
	"time"

	"verifharness/internal/ev"
	"verifharness/internal/node"
)

// C20 over the RPC command path: the rows of specs/Hostile.tla flagged "rpc" are commands of
// server/rpc.go handleCommand and of the datatypes' DoRPC; their "url" fields are the
// arguments of the command, one word each (kind ainput: what the client read from stdin).
// TLC enumerates (command, argument, class) with the oracle (must be answered with an error
// / may be accepted); here each case is expanded into seeded concrete argument lists and
// files, sent through the node's `rpc` call (gorpc to the real dispatcher), and judged like
// the HTTP cases: answer class allowed by the table (error reply = "4xx", accepted = "2xx",
// a panic recovered by the RPC server = "5xx"), process alive (the goroutines a command
// leaves behind run without recover: a panic there ends the process), settled, liveness
// probe answered, everything outside the named scopes unchanged; a departure counts only
// when it is seen again on a fresh node.

// c20RPCValid is a valid instance of a row: one word per table field.
type c20RPCValid struct {
	first string   // the first word of the command
	words []string // aligned with the row's fields; the word of an ainput field is ignored
	drop  map[int]bool // fields left out of the command
	input []byte
	files map[string][]byte
}

type c20RPCRow struct {
	control bool // the valid command must be accepted
	prep    func(w *c20World, seq int)
	valid   func(w *c20World, seq int) c20RPCValid
}

var c20RPCSeq int64

func c20RPCRows() map[string]*c20RPCRow {
	lbl := func(x, y int, px []byte) { px[0] = 9 }
	gray := func(x, y int, px []byte) { px[0] = byte(x + y) }
	nodeCmd := func(data, word string, rest ...string) func(w *c20World, seq int) c20RPCValid {
		return func(w *c20World, seq int) c20RPCValid {
			return c20RPCValid{first: "node", words: append([]string{w.a, data, word}, rest...)}
		}
	}
	repoCmd := func(committed bool, word string, rest func(w *c20World, seq int) []string) func(w *c20World, seq int) c20RPCValid {
		return func(w *c20World, seq int) c20RPCValid {
			u := w.a
			if committed {
				u = w.v1
			}
			var r []string
			if rest != nil {
				r = rest(w, seq)
			}
			return c20RPCValid{first: "repo", words: append([]string{u, word}, r...)}
		}
	}
	withInput := func(f func(w *c20World, seq int) c20RPCValid, in string) func(w *c20World, seq int) c20RPCValid {
		return func(w *c20World, seq int) c20RPCValid {
			v := f(w, seq)
			v.input = []byte(in)
			return v
		}
	}
	withFile := func(f func(w *c20World, seq int) c20RPCValid, name string, content func() []byte) func(w *c20World, seq int) c20RPCValid {
		return func(w *c20World, seq int) c20RPCValid {
			v := f(w, seq)
			v.files = map[string][]byte{name: content()}
			return v
		}
	}
	victim := func(w *c20World, seq int) {
		res, err := rpcCall(w.n, []string{"repo", w.a, "new", "keyvalue", fmt.Sprintf("vic%d", seq)}, nil, nil)
		must(err, "create victim instance")
		if res.Err != "" {
			infra("create victim instance: %s", res.Err)
		}
		w.cur = w.take()
	}
	return map[string]*c20RPCRow{
		"rpc.kv.put":     {control: true, valid: withInput(nodeCmd("kv", "put", "t1", ""), `"put by command"`)},
		"rpc.nj.put":     {valid: withInput(nodeCmd("nj", "put", "1001", ""), `{"bodyid":1001,"type":"cmd"}`)}, // always refused: a command has no user
		"rpc.nj.importkv": {control: true, valid: nodeCmd("nj", "import-kv", "kv")},
		"rpc.nj.ingest": {control: true, valid: withFile(nodeCmd("nj", "ingest-neuronjson", "{file:nj.json}", "cmduser"), "nj.json",
			func() []byte { return []byte(`[{"bodyid":1001,"type":"ingested"}]`) })},
		"rpc.nj.versionchanges": {control: true, valid: nodeCmd("nj", "version-changes", "{dir}/version-changes.json")},
		"rpc.gray.load": {control: true, valid: withFile(nodeCmd("gray", "load", "0,0,70", "{file:g.png}"), "g.png",
			func() []byte { return rpcPNG(1, 32, 32, gray) })},
		"rpc.lm.load": {control: true, valid: withFile(nodeCmd("lm", "load", "0,0,70", "{file:l.png}"), "l.png",
			func() []byte { return rpcPNG(8, 32, 32, lbl) })},
		"rpc.lm.setnextlabel": {control: true, valid: nodeCmd("lm", "set-nextlabel", "700000")},
		"rpc.ann.reload":      {control: true, valid: nodeCmd("ann", "reload")},
		"rpc.node.help":       {control: true, valid: nodeCmd("kv", "help")},
		"rpc.repo.new": {control: true, valid: repoCmd(false, "new", func(w *c20World, seq int) []string {
			return []string{"keyvalue", fmt.Sprintf("rn%d", seq)}
		})},
		"rpc.repo.branch": {control: true, valid: repoCmd(true, "branch", func(w *c20World, seq int) []string {
			return []string{fmt.Sprintf("rb%d", seq), ""}
		})},
		"rpc.repo.newversion": {valid: repoCmd(true, "newversion", func(w *c20World, seq int) []string { return []string{""} })}, // v1 has a master child
		"rpc.repo.merge":      {valid: repoCmd(true, "merge", func(w *c20World, seq int) []string { return []string{w.root} })},   // an ancestor: refused
		"rpc.repo.rename": {control: true, prep: victim, valid: repoCmd(false, "rename", func(w *c20World, seq int) []string {
			return []string{fmt.Sprintf("vic%d", seq), fmt.Sprintf("vic%dr", seq)}
		})},
		"rpc.repo.delete": {control: true, prep: victim, valid: repoCmd(false, "delete", func(w *c20World, seq int) []string {
			return []string{fmt.Sprintf("vic%d", seq)}
		})},
		"rpc.repo.copy": {control: true, valid: repoCmd(false, "copy", func(w *c20World, seq int) []string {
			return []string{"kv", fmt.Sprintf("kvc%d", seq)}
		})},
		// no valid instance is sent for the commands below (they rewrite stores or metadata wholesale)
		"rpc.repo.migrate": {valid: repoCmd(false, "migrate", func(w *c20World, seq int) []string { return []string{"kv", "main", "main"} })},
		"rpc.repo.limitversions": {valid: repoCmd(false, "limit-versions", func(w *c20World, seq int) []string { return []string{"{dir}/verif-no-such.json"} })},
		"rpc.repo.flattenmetadata": {valid: repoCmd(false, "flatten-metadata", func(w *c20World, seq int) []string { return []string{"{dir}/verif-no-such.json"} })},
		"rpc.repo.migratebatch": {valid: repoCmd(false, "migrate-batch", func(w *c20World, seq int) []string { return []string{"{dir}/verif-no-such.json"} })},
		"rpc.repo.hidebranch": {valid: repoCmd(false, "hide-branch", func(w *c20World, seq int) []string { return []string{"verif-no-such-branch"} })},
		"rpc.repo.makemaster": {valid: repoCmd(true, "make-master", func(w *c20World, seq int) []string { return []string{"verif-old-master"} })},
		"rpc.repos.new": {control: true, valid: func(w *c20World, seq int) c20RPCValid {
			return c20RPCValid{first: "repos", words: []string{"new", fmt.Sprintf("alias%d", seq), "described"}}
		}},
		"rpc.types.help": {control: true, valid: func(w *c20World, seq int) c20RPCValid {
			return c20RPCValid{first: "types", words: []string{"keyvalue", "help"}}
		}},
	}
}

// noValidRPC lists rows whose valid instance is never sent (only their hostile cases are).
var c20RPCNoValid = map[string]bool{"rpc.repo.migrate": true, "rpc.repo.limitversions": true, "rpc.repo.flattenmetadata": true,
	"rpc.repo.migratebatch": true, "rpc.repo.hidebranch": true, "rpc.repo.makemaster": true}

var c20Weird = []string{"", " ", "a=b", "=", "./../up", "%00", "\x00\xff\xfe", "*", "[", "{}", "-1", "line\nbreak", "é世界", "key=v=w", "0x10", "'; drop"}

// c20RPCMutate applies class cls to field i of the valid instance.  ok=false: the class has
// no concrete form here.
func c20RPCMutate(ep *hEndpoint, v c20RPCValid, i int, cls string, rng *rand.Rand, variant int) (c20RPCValid, string, bool) {
	// hostile spellings are few: variant k takes the k-th of each list (the quick tier walks through the first ones)
	pick := func(n int) int { return variant % n }
	f := ep.URL[i]
	out := c20RPCValid{first: v.first, words: append([]string{}, v.words...), input: v.input, files: map[string][]byte{}, drop: map[int]bool{}}
	for k, b := range v.files {
		out.files[k] = b
	}
	set := func(s string) { out.words[i] = s }
	note := cls
	if f.K == "ainput" {
		switch cls {
		case "missing":
			out.input = nil
		case "garbage":
			b := make([]byte, 1+rng.Intn(300))
			rng.Read(b)
			out.input = b
		case "big":
			out.input = []byte(strings.Repeat("x", 4<<20))
		default:
			return out, "", false
		}
		return out, note + " stdin", true
	}
	switch cls {
	case "missing":
		out.drop[i] = true
	case "unknown":
		switch f.K {
		case "auuid":
			set(fmt.Sprintf("%032x", rng.Uint64()))
		case "aname":
			set("verif-no-such-name")
		case "atype":
			set("verif-no-such-type")
		case "aword":
			set("verif-no-such-command")
		}
	case "weird":
		s := c20Weird[(variant*5+i)%len(c20Weird)]
		set(s)
		note = fmt.Sprintf("weird %q", s)
	case "long":
		set(strings.Repeat("z", []int{300, 1 << 12, 1 << 16, 1 << 20}[pick(4)]))
	case "nonnum":
		if f.K == "apoint" {
			set([]string{"a,b,c", "1,2,x", "0x1,2,3", "1.5,2,3", ",,"}[pick(5)])
		} else {
			set([]string{"abc", "1.5", "1e3", "0x10", "١٢"}[pick(5)])
		}
	case "short":
		set([]string{"1,2", "5", "1,"}[pick(3)])
	case "neg":
		if f.K == "apoint" {
			set([]string{"-2147483648,0,0", "-5,-3,-1", "0,0,-33"}[pick(3)])
		} else {
			set([]string{"-1", "-9223372036854775808"}[pick(2)])
		}
	case "huge":
		if f.K == "apoint" {
			set([]string{"2000000000,2000000000,2000000000", "0,0,2147483647", "2147483647,2147483647,0"}[pick(3)])
		} else {
			set([]string{"18446744073709551615", "9223372036854775807", "4294967296"}[pick(3)])
		}
	case "overflow":
		if f.K == "apoint" {
			set([]string{"99999999999999999999,0,0", "0,0,4294967296", "2147483648,0,0"}[pick(3)])
		} else {
			set("99999999999999999999999")
		}
	case "zero":
		set("0")
	case "nofile":
		set("{dir}/verif-no-such-file")
	case "isdir":
		set("{dir}")
	case "emptyfile":
		out.files["hostile.bin"] = []byte{}
		set("{file:hostile.bin}")
	case "garbagefile":
		b := make([]byte, 16+rng.Intn(2000))
		rng.Read(b)
		if rng.Intn(3) == 0 {
			copy(b, "\x89PNG\r\n\x1a\n") // looks like an image at first
		}
		out.files["hostile.bin"] = b
		set("{file:hostile.bin}")
	default:
		return out, "", false
	}
	return out, note + " " + f.N, true
}

func (v c20RPCValid) cmd(ep *hEndpoint) []string {
	cmd := []string{v.first}
	for i, w := range v.words {
		if v.drop[i] || ep.URL[i].K == "ainput" {
			continue
		}
		if ep.URL[i].F.has("opt") && w == "" && i == len(v.words)-1 {
			continue // an optional last argument left out
		}
		cmd = append(cmd, w)
	}
	return cmd
}

// c20RunRPC sends one command and observes (the RPC counterpart of c20RunOpt).
func c20RunRPC(w *c20World, cmd []string, input []byte, files map[string][]byte, mayChange []string) (o c20Obs) {
	return c20RunRPCOpt(w, cmd, input, files, mayChange, false)
}

// c20RunRPCOpt: with lazy=true the differential snapshot after a command that was answered
// with an error is left to the caller (such commands are compared in windows).
func c20RunRPCOpt(w *c20World, cmd []string, input []byte, files map[string][]byte, mayChange []string, lazy bool) (o c20Obs) {
	n := w.n
	before := w.cur
	args := map[string]interface{}{"Cmd": cmd}
	if len(input) > 0 {
		args["Input"] = base64.StdEncoding.EncodeToString(input)
	}
	if len(files) > 0 {
		m := map[string]string{}
		for k, v := range files {
			m[k] = base64.StdEncoding.EncodeToString(v)
		}
		args["Files"] = m
	}
	ab, _ := json.Marshal(args)
	resp, err := n.DoTimeout(node.Req{Op: "call", Fn: "rpc", Args: ab}, w.timeout)
	w.nreq++
	var res rpcRes
	if err == nil && resp.Err != "" {
		err = fmt.Errorf("rpc: %s", resp.Err)
	}
	if err == nil {
		err = json.Unmarshal(resp.Result, &res)
	}
	dead := func(err error) bool {
		if err != nil && errors.Is(err, node.ErrDead) {
			o.Dead = true
			o.Stderr = c20DeathReport(n)
			return true
		}
		return false
	}
	if err != nil {
		if !dead(err) {
			o.Hang = true
			o.Resp = err.Error()
			o.Stderr = c20DeathReport(n)
		}
		return
	}
	switch {
	case res.Panic:
		o.Status, o.Resp = 500, truncStr(res.Err, 1200)
	case res.Err != "":
		o.Status, o.Resp = 400, truncStr(res.Err, 600)
	default:
		o.Status, o.Resp = 200, truncStr(res.reply(), 300)
	}
	if err := n.Idle(); err != nil {
		if dead(err) {
			return
		}
		o.NotIdle = err.Error()
	}
	var st struct {
		Goroutines int    `json:"goroutines"`
		Settled    bool   `json:"settled"`
		Sample     string `json:"sample"`
		HeapInuse  int    `json:"heap_inuse_mb"`
		HeapSys    int    `json:"heap_sys_mb"`
	}
	if err := n.Call("c20.settle", map[string]int{"wait_ms": 3000}, &st); err != nil {
		if dead(err) {
			return
		}
		must(err, "settle")
	}
	o.Goroutines, o.HeapInuseMB, o.HeapSysMB = st.Goroutines, st.HeapInuse, st.HeapSys
	if !st.Settled {
		o.Parked = truncStr(st.Sample, 800)
	}
	// liveness: an HTTP read and a command
	pr, err := n.HTTP("GET", "/api/node/"+w.root+"/kv/key/c1", nil)
	if err != nil {
		if dead(err) {
			return
		}
		o.Hang = true
		o.Resp = "probe: " + err.Error()
		return
	}
	if pr.Status != 200 {
		o.Probe = fmt.Sprintf("GET kv/key/c1 at root answered %d %s", pr.Status, truncStr(string(pr.Bytes()), 300))
	}
	if hp, err := rpcCall(n, []string{"types"}, nil, nil); err != nil {
		if dead(err) {
			return
		}
		o.Probe += " | command `types`: " + err.Error()
	} else if hp.Err != "" {
		o.Probe += " | command `types` answered " + truncStr(hp.Err, 200)
	}
	if lazy && o.Status == 400 {
		o.Deferred = true
		return
	}
	after, err := w.takeErr()
	if err != nil {
		if dead(err) {
			return
		}
		var ce *node.CallError
		if errors.As(err, &ce) {
			o.Probe = "snapshot failed: " + ce.Msg
			return
		}
		o.Hang = true
		o.Resp = "snapshot: " + err.Error()
		return
	}
	o.Unnamed, o.AnyChange, o.LaterErrs = c20Diff(before, after, mayChange)
	w.cur = after
	return
}

type c20RPCReplay struct {
	Property   string   `json:"property"`
	Endpoint   string   `json:"endpoint"`
	Class      string   `json:"class"`
	Field      string   `json:"field,omitempty"`
	FieldKind  string   `json:"field_kind,omitempty"`
	Expect     string   `json:"expect"`
	Kinds      []string `json:"violated"`
	Mutation   string   `json:"mutation"`
	Command    []string `json:"command"`
	InputLen   int      `json:"stdin_len"`
	Files      []string `json:"files,omitempty"`
	Seed       int64    `json:"case_seed"`
	Observed   c20Obs   `json:"observed"`
	Reproduced *c20Obs  `json:"reproduced_on_fresh_node,omitempty"`
}

func truncWords(ws []string) []string {
	out := make([]string, len(ws))
	for i, w := range ws {
		out[i] = truncStr(w, 120)
	}
	return out
}

// c20RPC runs the rows flagged "rpc".
func c20RPC(c *Ctx, run *ev.Run, d *c20Driver, table *hTable) {
	t0 := time.Now()
	rows := c20RPCRows()
	type item struct {
		e  int
		cs []*hCase
	}
	var items []item
	byE := map[int][]*hCase{}
	for i := range table.Cases {
		cs := &table.Cases[i]
		byE[cs.E] = append(byE[cs.E], cs)
	}
	only := os.Getenv("VERIF_C20_ONLY")
	nrows := 0
	for e := 1; e <= len(table.Endpoints); e++ {
		ep := &table.Endpoints[e-1]
		if !ep.Flags.has("rpc") {
			continue
		}
		if only != "" && !strings.HasPrefix(ep.Name, only) {
			continue
		}
		row := rows[ep.Name]
		if row == nil {
			infra("no harness implementation of the RPC row %s", ep.Name)
		}
		nrows++
		items = append(items, item{e, byE[e]})
	}
	if len(items) == 0 {
		return
	}
	variants := c.pick(3, 8)
	workers := 12
	if len(items) < workers {
		workers = len(items)
	}
	worlds := make([]*c20World, workers)
	defer func() {
		for _, w := range worlds {
			if w != nil {
				c.DropNode(w.n)
			}
		}
	}()
	var sent, rejected, accepted, skipped int64
	instantiate := func(ep *hEndpoint, row *c20RPCRow, cs *hCase, w *c20World, seed int64, variant int) (c20RPCValid, string, bool) {
		seq := int(atomic.AddInt64(&c20RPCSeq, 1))
		if row.prep != nil {
			row.prep(w, seq)
		}
		v := row.valid(w, seq)
		if len(v.words) != len(ep.URL) {
			infra("RPC row %s: the harness builds %d words, the table has %d fields", ep.Name, len(v.words), len(ep.URL))
		}
		if cs == nil {
			return v, "valid", true
		}
		return c20RPCMutate(ep, v, cs.Pos-1, cs.Cls, rand.New(rand.NewSource(seed)), variant)
	}
	handle := func(ep *hEndpoint, row *c20RPCRow, cs *hCase, v c20RPCValid, note string, seed int64, variant int, o c20Obs) bool {
		kinds := o.kinds(cs)
		d.mu.Lock()
		d.statusHist[fmt.Sprintf("rpc %dxx", o.Status/100)]++
		d.mu.Unlock()
		if len(kinds) == 0 {
			return false
		}
		cls, fk, fn, expect := "wellformed", "", "", "2xx"
		if cs != nil {
			cls, fk, fn, expect = cs.Cls, ep.URL[cs.Pos-1].K, ep.URL[cs.Pos-1].N, cs.Expect
		}
		gkey := ep.Name + "|" + cls + "|" + fk + "|" + strings.Join(kinds, "+")
		d.mu.Lock()
		if g, ok := d.groups[gkey]; ok {
			g.SameGroup++
			d.mu.Unlock()
			return true
		}
		d.groups[gkey] = &c20Replay{}
		d.mu.Unlock()
		rp := &c20RPCReplay{Property: "C20", Endpoint: ep.Name, Class: cls, Field: fn, FieldKind: fk, Expect: expect, Kinds: kinds, Mutation: note,
			Command: truncWords(v.cmd(ep)), InputLen: len(v.input), Seed: seed, Observed: o}
		for k, b := range v.files {
			rp.Files = append(rp.Files, fmt.Sprintf("%s (%d bytes)", k, len(b)))
		}
		// reproduce on a fresh node
		w2 := newC20World(c, d.cfg)
		w2.timeout = 90 * time.Second
		v2, _, ok := instantiate(ep, row, cs, w2, seed, variant)
		var o2 c20Obs
		if ok {
			mc := ep.MayChange
			if cs != nil {
				mc = cs.MayChange
			}
			o2 = c20RunRPC(w2, v2.cmd(ep), v2.input, v2.files, mc)
		}
		c.DropNode(w2.n)
		k2 := o2.kinds(cs)
		same := len(k2) > 0
		for _, k := range k2 {
			found := false
			for _, k1 := range kinds {
				found = found || k == k1
			}
			same = same && found
		}
		rp.Reproduced = &o2
		if !same {
			d.mu.Lock()
			delete(d.groups, gkey)
			d.unrepro = append(d.unrepro, fmt.Sprintf("%s %s %s: first %v, on a fresh node %v", ep.Name, cls, note, kinds, k2))
			d.mu.Unlock()
			if b, err := json.MarshalIndent(rp, "", " "); err == nil {
				fmt.Printf("C20: suspected departure not reproduced on a fresh node (no verdict):\n%s\n", truncStr(string(b), 6000))
			}
			return true
		}
		rp.Kinds = k2
		d.mu.Lock()
		for _, k := range k2 {
			d.byKind[k]++
		}
		d.mu.Unlock()
		if id := c20RPCKnownID(ep.Name, cls, fk, k2); id != "" && run.KnownActive(id) {
			run.ReportKnown(id)
			return true
		}
		run.Violation("c20rpc", rp)
		return true
	}
	parallel(len(items), workers, func(wi, ii int) {
		it := items[ii]
		ep := &table.Endpoints[it.e-1]
		row := rows[ep.Name]
		getWorld := func() *c20World {
			w := worlds[wi]
			if w != nil && (!w.n.Alive() || w.nbranch > 120) {
				c.DropNode(w.n)
				w = nil
			}
			if w == nil {
				w = newC20World(c, d.cfg)
				worlds[wi] = w
			}
			return w
		}
		w := getWorld()
		after := func(o c20Obs) {
			if !w.n.Alive() || o.Hang {
				c.DropNode(w.n)
				worlds[wi] = nil
				w = getWorld()
				return
			}
			if o.AnyChange || len(o.LaterErrs) > 0 || o.Status >= 500 {
				w.retarget()
			}
		}
		seedBase := c.Seed*1000033 + int64(ii)*7919
		if !c20RPCNoValid[ep.Name] {
			// positive control
			v, _, _ := instantiate(ep, row, nil, w, seedBase, 0)
			o := c20RunRPC(w, v.cmd(ep), v.input, v.files, ep.MayChange)
			atomic.AddInt64(&sent, 1)
			if ks := o.kinds(nil); len(ks) > 0 {
				handle(ep, row, nil, v, "valid", seedBase, 0, o)
			} else if row.control && o.Status != 200 {
				infra("RPC row %s: the valid command was not accepted: %s (%v)", ep.Name, o.Resp, truncWords(v.cmd(ep)))
			}
			after(o)
		}
		// commands answered with an error are compared with the snapshot in windows of up to 8; a
		// difference is attributed by sending the window's commands again, one by one with a
		// snapshot each, to a fresh node
		type pending struct {
			cs   *hCase
			seed int64
			vr   int
		}
		var window []pending
		closeWindow := func() {
			pend := window
			window = nil
			if len(pend) == 0 || !w.n.Alive() {
				return
			}
			before := w.cur
			aft, err := w.takeErr()
			if err != nil {
				return // a dead node is noticed by the next command
			}
			var mc []string
			for _, p := range pend {
				mc = append(mc, p.cs.MayChange...)
			}
			unnamed, _, later := c20Diff(before, aft, mc)
			w.cur = aft
			if len(unnamed) == 0 && len(later) == 0 {
				return
			}
			w2 := newC20World(c, d.cfg)
			found := false
			for _, p := range pend {
				v2, note2, ok := instantiate(ep, row, p.cs, w2, p.seed, p.vr)
				if !ok {
					continue
				}
				o2 := c20RunRPC(w2, v2.cmd(ep), v2.input, v2.files, p.cs.MayChange)
				if len(o2.kinds(p.cs)) > 0 {
					found = true
					handle(ep, row, p.cs, v2, note2, p.seed, p.vr, o2)
				}
				if !w2.n.Alive() {
					break
				}
				if o2.AnyChange {
					w2.retarget()
				}
			}
			c.DropNode(w2.n)
			if !found {
				d.mu.Lock()
				d.unrepro = append(d.unrepro, fmt.Sprintf("%s: snapshot differed after a window of %d refused commands (%v %v) but no single command reproduced it", ep.Name, len(pend), unnamed, later))
				d.mu.Unlock()
			}
			w.retarget()
		}
		for ci, cs := range it.cs {
			if cs.Part != "url" {
				continue
			}
			for vr := 0; vr < variants; vr++ {
				seed := seedBase + int64(ci)*131 + int64(vr)*17 + 1
				v, note, ok := instantiate(ep, row, cs, w, seed, vr)
				if !ok {
					atomic.AddInt64(&skipped, 1)
					continue
				}
				// a case the table wants refused is compared lazily (its refusal is the expected answer);
				// any other command gets its own snapshot, after the pending window has been judged
				lazy := cs.Expect == "reject" && row.prep == nil
				if !lazy {
					closeWindow()
				}
				o := c20RunRPCOpt(w, v.cmd(ep), v.input, v.files, cs.MayChange, lazy)
				if o.Deferred {
					window = append(window, pending{cs, seed, vr})
				}
				atomic.AddInt64(&sent, 1)
				run.Eval(fmt.Sprintf("%s|%s|%d|%s", ep.Name, cs.Part, cs.Pos, cs.Cls))
				if o.Status == 400 {
					atomic.AddInt64(&rejected, 1)
				} else if o.Status == 200 {
					atomic.AddInt64(&accepted, 1)
				}
				bad := handle(ep, row, cs, v, note, seed, vr, o)
				if !bad && (ii+ci+vr)%61 == 0 {
					run.Sample(map[string]interface{}{"rpc_row": ep.Name, "field": ep.URL[cs.Pos-1].N, "class": cs.Cls, "expect": cs.Expect, "mutation": note,
						"command": truncWords(v.cmd(ep)), "answer": o.Status, "reply": truncStr(o.Resp, 160)})
				}
				after(o)
				if len(window) >= 8 || (o.Deferred && len(o.kinds(cs)) > 0) {
					closeWindow()
				}
			}
		}
		closeWindow()
	})
	atomic.AddInt64(&d.sent, sent)
	atomic.AddInt64(&d.rejected, rejected)
	atomic.AddInt64(&d.accepted, accepted)
	atomic.AddInt64(&d.skipped, skipped)
	run.Set("rpc_rows", nrows)
	run.Set("rpc_commands_sent", sent)
	run.Set("rpc_answered_with_error", rejected)
	run.Set("rpc_accepted", accepted)
	run.Set("rpc_seconds", since(t0))
}

// known finding ids of the RPC rows by group
func c20RPCKnownID(ep, cls, fieldKind string, kinds []string) string {
	return ""
}
