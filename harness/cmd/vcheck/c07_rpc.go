package main

import (
	"fmt"
	"math/rand"
	"regexp"
	"strconv"
	"strings"
	"sync/atomic"

	"verifharness/internal/dagm"
	"verifharness/internal/ev"
	"verifharness/internal/node"
)

// C07 / C03 over the RPC command path: `repos new`, `repo <uuid> newversion | branch | merge |
// new | rename | delete` and `repos delete` are further entry points of the DvidDAG actions
// (server/rpc.go handleCommand).  A seeded sample of the transition cover TLC emitted for
// DvidDAG is replayed with every request that has a command sent as that command (through
// the node's `rpc` call, i.e. gorpc to the real dispatcher) instead of its HTTP twin; commit,
// tag, note and log have no command and stay HTTP.  The projection of the server (DAG,
// heads, identifier maps) is compared with the specification state as in the HTTP replay,
// and on a share of the cases once more after a restart (C03).

var (
	reRPCNewRepo = regexp.MustCompile(`created with head node ([0-9a-f]{32})`)
	rpcDagOps    = map[string]bool{"newrepo": true, "newversion": true, "branch": true, "merge": true, "deleterepo": true,
		"newinstance": true, "renameinstance": true, "deleteinstance": true}
)

// rpcDagSess is a dagm session whose creating requests go through RPC commands.
type rpcDagSess struct {
	*dagm.Sess
	ninst int
	nRPC  int
}

// uuidArg mirrors dagm's mapping of the specification's UUID argument ("" / auto: none;
// dupK: the UUID of node K; a pool name: one concrete UUID per session).
func (s *rpcDagSess) uuidArg(u string) (string, bool) {
	switch {
	case u == "" || u == "auto":
		return "", false
	case dagm.IsOddArg(u): // third round: strings that are not identifiers (c07_args.go)
		return s.ConcreteArg(u)
	case strings.HasPrefix(u, "dup"):
		k, _ := strconv.Atoi(u[3:])
		if k >= 1 && k <= len(s.UUIDs) {
			return s.UUIDs[k-1], true
		}
		return s.NodeUUID(0), true
	default:
		h, ok := s.Pool[u]
		if !ok {
			h = dagm.RandHex()
			s.Pool[u] = h
		}
		return h, true
	}
}

func (s *rpcDagSess) cmd(words ...string) (rpcRes, error) {
	res, err := rpcCall(s.N, words, nil, nil)
	st := dagm.Step{Method: "RPC", URL: strings.Join(words, " "), Status: 200, Resp: trunc(res.reply(), 300)}
	if res.Err != "" {
		st.Status, st.Resp = 400, trunc(res.Err, 300)
	}
	if res.Panic {
		st.Status = 500
	}
	s.Script = append(s.Script, st)
	s.nRPC++
	return res, err
}

// label gives a new node its abstract name as note (the HTTP replay does it in the creating
// request; heads are observed through it).  The node is open, so this is an allowed request.
func (s *rpcDagSess) label(uuid string, k int) {
	s.HTTP("POST", "/api/node/"+uuid+"/note", []byte(fmt.Sprintf(`{"note":"n%d"}`, k)))
}

// Apply sends the request of op, as an RPC command where one exists.
func (s *rpcDagSess) Apply(op dagm.Op) (accepted bool, status int, err error) {
	if !rpcDagOps[op.Op] {
		return s.Sess.Apply(op)
	}
	k := len(s.UUIDs) + 1
	created := func(res rpcRes, re *regexp.Regexp) (bool, int, error) {
		if res.Panic {
			return false, 500, nil
		}
		if res.Err != "" {
			return false, 400, nil
		}
		m := re.FindStringSubmatch(res.reply())
		if m == nil {
			// accepted without creating anything (e.g. `branch` without a usable name answers nothing)
			return false, 400, nil
		}
		s.UUIDs = append(s.UUIDs, m[1])
		s.label(m[1], k)
		return true, 200, nil
	}
	switch op.Op {
	case "newrepo":
		words := []string{"repos", "new", "r", "d"}
		if u, ok := s.uuidArg(op.UUID); ok {
			words = append(words, "uuid="+u)
		}
		res, err := s.cmd(words...)
		if err != nil {
			return false, 0, err
		}
		ok, st, _ := created(res, reRPCNewRepo)
		if ok {
			s.Roots = append(s.Roots, s.UUIDs[len(s.UUIDs)-1])
		}
		return ok, st, nil
	case "newversion", "branch":
		words := []string{"repo", s.NodeUUID(op.Node), op.Op}
		if op.Op == "branch" {
			words = append(words, op.Branch)
		}
		if u, ok := s.uuidArg(op.UUID); ok {
			words = append(words, u)
		}
		res, err := s.cmd(words...)
		if err != nil {
			return false, 0, err
		}
		return created(res, reRPCChild)
	case "merge":
		if len(op.Parents) == 0 {
			return false, 400, nil
		}
		words := []string{"repo", s.NodeUUID(op.Parents[0]), "merge"}
		for _, p := range op.Parents[1:] {
			words = append(words, s.NodeUUID(p))
		}
		res, err := s.cmd(words...)
		if err != nil {
			return false, 0, err
		}
		return created(res, reRPCMerged)
	case "deleterepo":
		u := s.NodeUUID(op.Node)
		res, err := s.cmd("repos", "delete", u)
		if err != nil {
			return false, 0, err
		}
		if res.Err != "" {
			return false, 400, nil
		}
		for i, r := range s.Roots {
			if r == u && !s.Dead[i] {
				s.Dead[i] = true
			}
		}
		return true, 200, nil
	case "newinstance":
		s.ninst++
		res, err := s.cmd("repo", s.NodeUUID(op.Node), "new", "keyvalue", fmt.Sprintf("ri%d", s.ninst))
		return err == nil && res.Err == "", map[bool]int{true: 400, false: 200}[res.Err != ""], err
	case "renameinstance", "deleteinstance":
		name := fmt.Sprintf("ri%d", s.ninst)
		var res rpcRes
		if op.Op == "renameinstance" {
			res, err = s.cmd("repo", s.NodeUUID(op.Node), "rename", name, name+"r")
		} else {
			res, err = s.cmd("repo", s.NodeUUID(op.Node), "delete", name)
		}
		return err == nil && res.Err == "", map[bool]int{true: 400, false: 200}[res.Err != ""], err
	}
	return false, 0, fmt.Errorf("unknown op %q", op.Op)
}

func (s *rpcDagSess) build(path []dagm.Op) (string, error) {
	for i, op := range path {
		ok, status, err := s.Apply(op)
		if err != nil {
			return "", err
		}
		if !ok {
			return fmt.Sprintf("step %d (%s) refused with status %d though the specification accepts it", i+1, op.Key(), status), nil
		}
	}
	return "", nil
}

// replayDagRPC replays a seeded sample of the accepted edges and refused requests of one
// emitted graph through the RPC command path.
func replayDagRPC(c *Ctx, run *ev.Run, g *dagGraph, nAccepted, nRejected *int64) {
	rng := rand.New(rand.NewSource(c.Seed*31 + int64(len(g.edges))))
	// accepted edges whose request has a command, and (state, refused request) pairs likewise
	var acc []int
	for i, e := range g.edges {
		if rpcDagOps[e.L.Op] {
			acc = append(acc, i)
		}
	}
	type rejCase struct {
		key string
		op  dagm.Op
	}
	var rej []rejCase
	for _, key := range g.order {
		for _, op := range g.states[key].rej {
			if rpcDagOps[op.Op] && !(op.Op == "merge" && g.states[key].st.NN == 0) {
				rej = append(rej, rejCase{key, op})
			}
		}
	}
	rng.Shuffle(len(acc), func(i, j int) { acc[i], acc[j] = acc[j], acc[i] })
	rng.Shuffle(len(rej), func(i, j int) { rej[i], rej[j] = rej[j], rej[i] })
	if n := c.pick(500, 4000); len(acc) > n {
		acc = acc[:n]
	}
	if n := c.pick(250, 2000); len(rej) > n {
		rej = rej[:n]
	}
	workers := 12
	ws := make([]*dagWorker, workers)
	for i := range ws {
		ws[i] = &dagWorker{c: c, every: 100, cfg: node.Config{}}
	}
	defer func() {
		for _, w := range ws {
			w.close()
		}
	}()
	var nCmds, nRestarts int64
	neutral := map[string]bool{"newinstance": true, "renameinstance": true, "deleteinstance": true}
	parallel(len(acc)+len(rej), workers, func(wi, i int) {
		w := ws[wi]
		s := &rpcDagSess{Sess: w.sess()}
		defer func() { atomic.AddInt64(&nCmds, int64(s.nRPC)) }()
		if i < len(acc) {
			e := g.edges[acc[i]]
			path := g.path(e.S.Key())
			if msg, err := s.build(path); err != nil {
				must(err, "build state through rpc")
			} else if msg != "" {
				run.Violation("c07", c07Divergence{Kind: "rpc-accepted-request-refused", Path: path, Diffs: []string{msg}, Script: s.Script})
				return
			}
			ok, status, err := s.Apply(e.L)
			must(err, "apply through rpc")
			run.Eval("rpc-acc|" + fmt.Sprint(acc[i]) + "|" + e.L.Key())
			if !ok {
				run.Violation("c07", c07Divergence{Kind: "rpc-accepted-request-refused", Path: path, Op: e.L,
					Diffs: []string{fmt.Sprintf("status %d: the specification accepts this request; sent as an RPC command it is refused", status)}, Script: s.Script})
				return
			}
			d, err := compareState(s.Sess, e.T, true)
			must(err, "project")
			if len(d) > 0 {
				run.Violation("c07", c07Divergence{Kind: "rpc-state-mismatch-after-accepted-request", Path: path, Op: e.L, Expected: e.T, Diffs: d, Script: s.Script})
				return
			}
			if i%8 == 0 {
				// C03: nothing of this changes over a restart
				must(s.N.Restart(i%16 == 0), "restart")
				atomic.AddInt64(&nRestarts, 1)
				d, err := compareState(s.Sess, e.T, true)
				must(err, "project after restart")
				if len(d) > 0 {
					run.Violation("c07", c07Divergence{Kind: "rpc-state-mismatch-after-restart", Path: path, Op: e.L, Expected: e.T, Diffs: d, Script: s.Script})
				}
			}
			if atomic.AddInt64(nAccepted, 1)%500 == 1 {
				run.Sample(map[string]interface{}{"path": path, "request_sent_as_rpc_command": e.L, "expected_state": e.T, "script": s.Script})
			}
			return
		}
		rc := rej[i-len(acc)]
		si := g.states[rc.key]
		path := g.path(rc.key)
		if msg, err := s.build(path); err != nil {
			must(err, "build state through rpc")
		} else if msg != "" {
			run.Violation("c07", c07Divergence{Kind: "rpc-accepted-request-refused", Path: path, Diffs: []string{msg}, Script: s.Script})
			return
		}
		ok, status, err := s.Apply(rc.op)
		must(err, "apply refused op through rpc")
		d, err := compareState(s.Sess, si.st, true)
		must(err, "project")
		run.Eval("rpc-rej|" + rc.key + "|" + rc.op.Key())
		if ok && !neutral[rc.op.Op] {
			d = append([]string{fmt.Sprintf("request %s sent as an RPC command was accepted though the specification refuses it", rc.op.Key())}, d...)
		} else if status >= 500 {
			d = append([]string{fmt.Sprintf("request %s sent as an RPC command made the handler panic", rc.op.Key())}, d...)
		}
		if len(d) > 0 {
			run.Violation("c07", c07Divergence{Kind: "rpc-refused-request-changed-state", Path: path, Op: rc.op, Expected: si.st, Diffs: d, Script: s.Script})
			return
		}
		atomic.AddInt64(nRejected, 1)
	})
	run.Add("rpc_accepted_edges_replayed", int64(len(acc)))
	run.Add("rpc_refused_requests_replayed", int64(len(rej)))
	run.Add("rpc_commands_sent", nCmds)
	run.Add("rpc_restarts_compared", nRestarts)
}

// `./check C07rpc` runs the RPC replay alone on the graphs checkC07 uses (development and
// binding self-test aid; the registered check calls replayDagRPC from checkC07).
func init() {
	checks["C07rpc"] = func(c *Ctx) int {
		run := ev.NewRun("C07rpc", c.Tier, "model_checking")
		type gcfg struct{ nodes, repos, rejNodes int }
		var nAcc, nRej int64
		var st, tr int64
		for _, gc := range []gcfg{{c.pick(4, 5), 1, c.pick(3, 4)}, {c.pick(3, 4), 2, c.pick(3, 4)}} {
			g, r := emitDagGraph(c, gc.nodes, gc.repos, 3)
			emitDagRejects(c, g, gc.rejNodes, gc.repos, 3)
			st += r.Distinct
			tr += r.Generated
			replayDagRPC(c, run, g, &nAcc, &nRej)
		}
		run.Set("states", st)
		run.Set("transitions", tr)
		run.Set("traces_validated_against_impl", nAcc+nRej)
		run.Set("rule", "seeded sample of the DvidDAG transition cover with every request that has an RPC command sent as that command")
		fmt.Printf("C07rpc: %d accepted edges and %d refused requests replayed through RPC commands; violations=%d\n", nAcc, nRej, run.Violations())
		return run.Finish()
	}
}
