package main

import (
	"bufio"
	"encoding/json"
	"fmt"
	"math/rand"
	"os"
	"path/filepath"
	"strconv"
	"strings"
	"sync"
	"sync/atomic"
	"time"

	"verifharness/internal/ev"
	"verifharness/internal/node"
	"verifharness/internal/tlc"
)

// infraErr aborts a check with exit 2 (never a verdict).
type infraErr struct{ err error }

func infra(format string, a ...interface{}) { panic(infraErr{fmt.Errorf(format, a...)}) }
func must(err error, what string) {
	if err != nil {
		infra("%s: %v", what, err)
	}
}

// Ctx is the per-invocation context.
type Ctx struct {
	Name    string
	Tier    string
	Replay  string
	Scratch string
	Bin     string // dvidnode binary
	SpecDir string
	Seed    int64
	Rng     *rand.Rand
	nodeSeq int64
	mu      sync.Mutex
	nodes   []*node.Node
}

func newCtx(name, tier, replay string) (*Ctx, error) {
	scratch, err := tlc.Scratch("vcheck-" + name + "-")
	if err != nil {
		return nil, err
	}
	bin := os.Getenv("DVIDNODE_BIN")
	if bin == "" {
		bin = filepath.Join(ev.VerifDir, "bin", "dvidnode")
	}
	if _, err := os.Stat(bin); err != nil {
		return nil, fmt.Errorf("dvidnode binary %s missing: %v", bin, err)
	}
	seed := ev.Seed()
	return &Ctx{Name: name, Tier: tier, Replay: replay, Scratch: scratch, Bin: bin,
		SpecDir: filepath.Join(ev.VerifDir, "specs"), Seed: seed, Rng: rand.New(rand.NewSource(seed))}, nil
}

func (c *Ctx) cleanup() {
	c.mu.Lock()
	ns := c.nodes
	c.nodes = nil
	c.mu.Unlock()
	for _, n := range ns {
		n.Kill()
	}
	os.RemoveAll(c.Scratch)
}

func (c *Ctx) thorough() bool { return c.Tier == "thorough" }

// pick returns q for quick, t for thorough.
func (c *Ctx) pick(q, t int) int {
	if c.thorough() {
		return t
	}
	return q
}

// StartNode starts a node on a fresh directory.
func (c *Ctx) StartNode(cfg node.Config) *node.Node {
	k := atomic.AddInt64(&c.nodeSeq, 1)
	if cfg.Dir == "" {
		cfg.Dir = filepath.Join(c.Scratch, fmt.Sprintf("node%d", k))
	}
	n, err := node.Start(c.Bin, cfg)
	must(err, "start node")
	c.mu.Lock()
	c.nodes = append(c.nodes, n)
	c.mu.Unlock()
	return n
}

// DropNode kills a node and removes its data.
func (c *Ctx) DropNode(n *node.Node) {
	n.Destroy()
	c.mu.Lock()
	for i, m := range c.nodes {
		if m == n {
			c.nodes = append(c.nodes[:i], c.nodes[i+1:]...)
			break
		}
	}
	c.mu.Unlock()
}

// RunTLC runs TLC and aborts (exit 2) on infrastructure failure.
func (c *Ctx) RunTLC(o tlc.Opts) *tlc.Result {
	if o.SpecDir == "" {
		o.SpecDir = c.SpecDir
	}
	r, err := tlc.Run(o)
	must(err, "tlc "+o.Module)
	if r.TimedOut {
		infra("tlc %s/%s timed out after %v", o.Module, o.Config, o.Timeout)
	}
	return r
}

// MustModelCheck runs an exhaustive configuration and requires success.  A TLC
// counterexample on the *intended* specification is a specification error (exit 2),
// never a verdict about the code.
func (c *Ctx) MustModelCheck(o tlc.Opts) *tlc.Result {
	r := c.RunTLC(o)
	if !r.OK {
		infra("tlc %s/%s did not complete cleanly: %s\n%s", o.Module, o.Config, r.Violation, r.Tail(3000))
	}
	return r
}

// PrintedJSON extracts the lines TLC printed through PrintT(ToJson(..)).
func PrintedJSON(out string, f func(raw []byte)) {
	sc := bufio.NewScanner(strings.NewReader(out))
	sc.Buffer(make([]byte, 1<<20), 1<<28)
	for sc.Scan() {
		line := sc.Text()
		if len(line) < 2 || line[0] != '"' {
			continue
		}
		s, err := strconv.Unquote(line)
		if err != nil {
			// TLC escapes only \" and \\ ; fall back to manual unescape
			s = strings.ReplaceAll(line[1:len(line)-1], `\"`, `"`)
			s = strings.ReplaceAll(s, `\\`, `\`)
		}
		if len(s) > 0 && (s[0] == '{' || s[0] == '[') {
			f([]byte(s))
		}
	}
}

// parallel runs work items on w workers.
func parallel(nItems, workers int, f func(worker, item int)) {
	var wg sync.WaitGroup
	var next int64 = -1
	var failed atomic.Value
	for w := 0; w < workers; w++ {
		wg.Add(1)
		go func(w int) {
			defer wg.Done()
			defer func() {
				if e := recover(); e != nil {
					if ie, ok := e.(infraErr); ok {
						failed.Store(ie)
						atomic.StoreInt64(&next, int64(nItems))
						return
					}
					failed.Store(infraErr{fmt.Errorf("worker panic: %v", e)})
					atomic.StoreInt64(&next, int64(nItems))
				}
			}()
			for {
				i := int(atomic.AddInt64(&next, 1))
				if i >= nItems {
					return
				}
				f(w, i)
			}
		}(w)
	}
	wg.Wait()
	if e := failed.Load(); e != nil {
		panic(e.(infraErr))
	}
}

func jsonStr(v interface{}) string {
	b, _ := json.Marshal(v)
	return string(b)
}

func since(t time.Time) float64 { return time.Since(t).Seconds() }
