package main

// C04, logs of a REAL labelmap instance: after an acknowledged label operation the instance's
// mapping log (storage/filelog, <data>-<version>) and its mutation log (server/mutationlog.go,
// <data>-<version>.plog) are left torn at byte lengths inside the records of that operation;
// a new process must start, the mapping must be the one of the complete records (every
// mapping cell old or new, nothing invented; LogFrame.tla gives the number of complete
// records), GET mutations / mutations-range must be valid JSON holding exactly the complete
// records; then one more operation is acknowledged, the process killed and started again: the
// new operation's records must be readable (append after a torn tail).

import (
	"encoding/binary"
	"encoding/json"
	"fmt"
	"os"
	"os/exec"
	"path/filepath"
	"strings"
	"sync/atomic"
	"time"

	"verifharness/internal/ev"
	"verifharness/internal/lmm"
	"verifharness/internal/node"
)

type rlScenario struct {
	name   string
	gr     *lmcGraph
	g      *lmm.Geom
	initSV []uint64
	path   []lmcEdge // acknowledged before the operation whose records are torn
	torn   lmcEdge   // its records are torn
	follow *lmcEdge  // issued after the restart on the torn log (names other bodies)
}

type rlBase struct {
	sc        *rlScenario
	dir       string
	root, cur string
	dataUUID  string
	lab       *lmm.Labels // after the torn operation
	maxSeen   uint64
	flogPath  string // relative to the node directory
	plogPath  string
	flog      []byte // complete files
	plog      []byte
	flogFrom  int               // length before the torn operation
	plogFrom  int               // start of the last record
	mutations []json.RawMessage // GET mutations of the complete log
}

type c04rlDivergence struct {
	Kind     string      `json:"kind"`
	Scenario string      `json:"scenario"`
	File     string      `json:"file"`
	Length   int         `json:"file_length"`
	OfLength int         `json:"complete_file_length"`
	Records  interface{} `json:"record_payload_sizes_of_the_operation,omitempty"`
	Complete int         `json:"complete_records_at_that_length"`
	Diffs    []string    `json:"diffs"`
	Labels   interface{} `json:"spec_to_real_labels,omitempty"`
	LogTail  string      `json:"server_log_tail,omitempty"`
}

func copyTree(src, dst string) {
	out, err := exec.Command("cp", "-a", src, dst).CombinedOutput()
	if err != nil {
		infra("copy %s: %v %s", src, err, out)
	}
}

// frameSizes parses the payload sizes of the records in b (header = headerLen bytes; the
// payload size is the uint32 at offset sizeOff of the header).
func frameSizes(b []byte, headerLen, sizeOff int) []int {
	var out []int
	for p := 0; p+headerLen <= len(b); {
		sz := int(binary.LittleEndian.Uint32(b[p+sizeOff:]))
		if p+headerLen+sz > len(b) {
			infra("log file does not end on a record boundary")
		}
		out = append(out, sz)
		p += headerLen + sz
	}
	return out
}

func rlPrepare(c *Ctx, sc *rlScenario) *rlBase {
	cfg := node.Config{AllowSplit: true}
	n := c.StartNode(cfg)
	b := &rlBase{sc: sc, dir: n.Cfg.Dir}
	r, err := n.HTTP("POST", "/api/repos", []byte(`{"alias":"rl"}`))
	must(err, "newrepo")
	var o struct{ Root string }
	json.Unmarshal(r.Bytes(), &o)
	b.root = o.Root
	in := &lmm.Inst{N: n, G: sc.g, Name: "seg", Root: o.Root}
	must(in.Create(nil), "create labelmap")
	var blocks []int
	for i := range sc.g.Blocks {
		blocks = append(blocks, i+1)
	}
	must(in.Ingest(o.Root, sc.initSV, blocks, false), "ingest")
	must(n.Idle(), "idle")
	// (the label indices of an ingest are written by a goroutine no idle predicate covers)
	for deadline := time.Now().Add(10 * time.Second); ; time.Sleep(5 * time.Millisecond) {
		d, err := in.Compare(o.Root, sc.gr.initObs, lmm.NewLabels(), lmm.Full)
		must(err, "compare")
		if len(d) == 0 {
			break
		}
		if time.Now().After(deadline) {
			infra("real-log scenario %s: the ingested volume differs from the specification after 10 s: %v", sc.name, d)
		}
	}
	r, err = n.HTTP("POST", "/api/node/"+o.Root+"/commit", []byte(`{}`))
	must(err, "commit")
	r, err = n.HTTP("POST", "/api/node/"+o.Root+"/branch", []byte(`{"branch":"work"}`))
	must(err, "branch")
	var ch struct{ Child string }
	json.Unmarshal(r.Bytes(), &ch)
	b.cur = ch.Child
	r, err = n.HTTP("GET", "/api/node/"+o.Root+"/seg/info", nil)
	must(err, "info")
	var info struct{ Base struct{ DataUUID string } }
	json.Unmarshal(r.Bytes(), &info)
	b.dataUUID = info.Base.DataUUID
	if b.dataUUID == "" {
		infra("no DataUUID in instance info: %.300s", r.Bytes())
	}
	b.lab = lmm.NewLabels()
	apply := func(op lmm.Op) {
		st, _, err := in.Apply(b.cur, op, b.lab)
		must(err, "apply")
		if st != 200 {
			infra("real-log scenario %s: %s refused with %d", sc.name, jsonStr(op), st)
		}
		must(n.Idle(), "idle")
	}
	for _, e := range sc.path {
		apply(e.L)
	}
	b.flogPath = filepath.Join("flog", b.dataUUID+"-"+b.cur)
	b.plogPath = filepath.Join("mutlog", b.dataUUID+"-"+b.cur+".plog")
	if fb, err := os.ReadFile(filepath.Join(b.dir, b.flogPath)); err == nil {
		b.flogFrom = len(fb)
	}
	apply(sc.torn.L)
	d, err := in.Compare(b.cur, sc.torn.TObs, b.lab, lmm.Full)
	must(err, "compare")
	if len(d) > 0 {
		infra("real-log scenario %s: state after the operation differs from the specification: %v", sc.name, d)
	}
	r, err = n.HTTP("GET", "/api/node/"+b.cur+"/seg/mutations", nil)
	must(err, "mutations")
	if json.Unmarshal(r.Bytes(), &b.mutations) != nil || r.Status != 200 {
		infra("GET mutations of the complete log: %d %.300s", r.Status, r.Bytes())
	}
	b.maxSeen = in.MaxSeen
	n.Kill()
	b.flog, err = os.ReadFile(filepath.Join(b.dir, b.flogPath))
	must(err, "read mapping log")
	b.plog, err = os.ReadFile(filepath.Join(b.dir, b.plogPath))
	must(err, "read mutation log")
	ps := frameSizes(b.plog, 10, 0)
	if len(ps) != len(b.mutations) || len(ps) == 0 {
		infra("mutation log has %d records, GET mutations returned %d", len(ps), len(b.mutations))
	}
	b.plogFrom = len(b.plog) - 10 - ps[len(ps)-1]
	// the node object is dropped, its directory stays as the template
	c.mu.Lock()
	for i, m := range c.nodes {
		if m == n {
			c.nodes = append(c.nodes[:i], c.nodes[i+1:]...)
			break
		}
	}
	c.mu.Unlock()
	return b
}

type rlPoint struct {
	b    *rlBase
	file string // "flog" | "plog"
	L    int
	k    int // complete records of the torn operation (flog) / of the file (plog) at that length
	kApp int // records after reopen + append
}

func mutationIDs(raw []json.RawMessage) []string {
	var out []string
	for _, m := range raw {
		var o struct {
			Action     string
			MutationID uint64
		}
		json.Unmarshal(m, &o)
		out = append(out, fmt.Sprintf("%s#%d", o.Action, o.MutationID))
	}
	return out
}

func rlRun(c *Ctx, run *ev.Run, p rlPoint, nruns *int64) {
	b, sc := p.b, p.b.sc
	k := atomic.AddInt64(&c.nodeSeq, 1)
	dir := filepath.Join(c.Scratch, fmt.Sprintf("rl%d", k))
	copyTree(b.dir, dir)
	defer os.RemoveAll(dir)
	full, rel := b.flog, b.flogPath
	if p.file == "plog" {
		full, rel = b.plog, b.plogPath
	}
	must(os.WriteFile(filepath.Join(dir, rel), full[:p.L], 0644), "truncate")
	div := c04rlDivergence{Scenario: sc.name, File: rel, Length: p.L, OfLength: len(full), Complete: p.k}
	report := func(n *node.Node, kind string, diffs []string, lab *lmm.Labels) {
		d := div
		d.Kind = kind
		if len(diffs) > 14 {
			diffs = diffs[:14]
		}
		d.Diffs = diffs
		if lab != nil {
			d.Labels = lab.ToReal
		}
		if n != nil {
			d.LogTail = n.StderrTail(1500)
		}
		run.Violation("c04-reallog", d)
	}
	n, err := node.Start(c.Bin, node.Config{Dir: dir, AllowSplit: true})
	if err != nil && strings.Contains(err.Error(), "timeout") {
		infra("start on a torn log: %v", err) // an overloaded machine, not a verdict
	}
	if err != nil {
		report(nil, "startup-failed-on-a-torn-log", []string{err.Error()}, nil)
		return
	}
	c.mu.Lock()
	c.nodes = append(c.nodes, n)
	c.mu.Unlock()
	defer c.DropNode(n)
	atomic.AddInt64(nruns, 1)
	in := &lmm.Inst{N: n, G: sc.g, Name: "seg", Root: b.root, MaxSeen: b.maxSeen}
	lab := b.lab.Clone()
	nb := len(sc.g.Blocks)
	pre, post := sc.g.LayersOf(sc.torn.SObs, nb), sc.g.LayersOf(sc.torn.TObs, nb)
	mapw := map[uint64]uint64{}
	for key, v := range sc.torn.MapW {
		var s uint64
		fmt.Sscan(key, &s)
		mapw[s] = v
	}
	bodies := realLabels(specBodies(sc.torn.SObs, sc.torn.TObs), lab)
	got, probs, err := in.ReadLayers(b.cur, bodies)
	if err != nil || !n.Alive() {
		report(n, "server-died-reading-after-a-torn-log", []string{fmt.Sprint(err)}, lab)
		return
	}
	var diffs []string
	diffs = append(diffs, probs...)
	// everything but the mapping is in the store, which the torn log cannot change: those cells
	// must be the new ones; every mapping cell old or new
	preStore := &lmm.ModelLayers{Blk: post.Blk, Idx: post.Idx, Map: pre.Map}
	v := sc.g.CompareCells(got, preStore, post, mapw, lab)
	diffs = append(diffs, v.Diffs...)
	// nothing invented: every listed mapping names supervoxels / bodies of the two states
	known := map[uint64]bool{0: true}
	for _, o := range []lmm.Obs{sc.torn.SObs, sc.torn.TObs} {
		for _, bd := range o.Bodies {
			known[lab.Real(bd.Label)] = true
			for _, s := range bd.SVs {
				known[lab.Real(s)] = true
			}
		}
	}
	for s, l := range got.Map {
		if !known[s] || !known[l] {
			diffs = append(diffs, fmt.Sprintf("GET mappings lists %d -> %d, labels no record ever named", s, l))
		}
	}
	all := p.file == "plog" // the mapping log is untouched
	if p.file == "flog" {
		nMapCells := 0
		for _, m := range strings.Split(v.Pattern, "+") {
			if strings.HasPrefix(m, "map") {
				nMapCells++
			}
		}
		if p.L == b.flogFrom && nMapCells > 0 {
			diffs = append(diffs, fmt.Sprintf("no record of the operation is complete but %d mapping cells have its values (%s)", nMapCells, v.Pattern))
		}
		if p.L == len(full) && !v.IsPost {
			diffs = append(diffs, "every record is complete but the state is not the target state")
		}
		all = v.IsPost
	} else if !v.IsPost {
		diffs = append(diffs, "the mapping log is complete but the state is not the target state (cells moved: "+v.Pattern+")")
	}
	// supervoxel-splits must be valid JSON
	r, err := n.HTTP("GET", "/api/node/"+b.cur+"/seg/supervoxel-splits", nil)
	must(err, "supervoxel-splits")
	var anyJSON interface{}
	if r.Status != 200 || json.Unmarshal(r.Bytes(), &anyJSON) != nil {
		diffs = append(diffs, fmt.Sprintf("supervoxel-splits: %d %.200s", r.Status, r.Bytes()))
	}
	// mutation log: valid JSON, exactly the complete records
	wantMut := b.mutations
	if p.file == "plog" {
		wantMut = b.mutations[:p.k]
	}
	checkMut := func(url string, want []json.RawMessage, what string) {
		r, err := n.HTTP("GET", url, nil)
		must(err, "mutations")
		var gotMut []json.RawMessage
		if r.Status != 200 {
			diffs = append(diffs, fmt.Sprintf("GET %s %s: status %d %.200s", url, what, r.Status, r.Bytes()))
			return
		}
		if err := json.Unmarshal(r.Bytes(), &gotMut); err != nil {
			diffs = append(diffs, fmt.Sprintf("GET %s %s: not valid JSON (%v): %.300s", url, what, err, r.Bytes()))
			return
		}
		if g, w := mutationIDs(gotMut), mutationIDs(want); fmt.Sprint(g) != fmt.Sprint(w) {
			diffs = append(diffs, fmt.Sprintf("GET %s %s lists %v, the complete records are %v", url, what, g, w))
		}
	}
	checkMut("/api/node/"+b.cur+"/seg/mutations", wantMut, "")
	checkMut("/api/node/"+b.cur+"/seg/mutations-range/"+b.root+"/"+b.cur, wantMut, "")
	if len(diffs) > 0 {
		report(n, "state-after-start-up-on-a-torn-log", diffs, lab)
		return
	}
	run.Eval(fmt.Sprintf("reallog|%s|%s|%d", sc.name, p.file, p.L))
	if sc.follow == nil {
		return
	}
	// one more acknowledged operation, then a kill and a restart: its records must be readable
	f := sc.follow
	st, _, err := in.Apply(b.cur, f.L, lab)
	if err != nil || st != 200 {
		report(n, "operation-refused-after-start-up-on-a-torn-log", []string{fmt.Sprintf("%s: status %d err %v", jsonStr(f.L), st, err)}, lab)
		return
	}
	must(n.Idle(), "idle")
	if err := n.Restart(false); err != nil {
		report(n, "startup-failed-after-append-to-a-torn-log", []string{err.Error()}, lab)
		return
	}
	fpost := sc.g.LayersOf(f.TObs, nb)
	fmapw := map[uint64]uint64{}
	for key, v := range f.MapW {
		var s uint64
		fmt.Sscan(key, &s)
		fmapw[s] = v
	}
	got2, probs2, err := in.ReadLayers(b.cur, realLabels(specBodies(f.SObs, f.TObs), lab))
	if err != nil || !n.Alive() {
		report(n, "server-died-reading-after-append-to-a-torn-log", []string{fmt.Sprint(err)}, lab)
		return
	}
	diffs = append(diffs, probs2...)
	// the follow-up operation names other bodies: its own cells must all be new; the cells of the
	// torn operation must be as they were before it
	for s, want := range fmapw {
		rs := lab.Real(s)
		gotv, ok := got2.Map[rs]
		if !ok {
			gotv = rs
		}
		if gotv != lab.Real(want) {
			diffs = append(diffs, fmt.Sprintf("acknowledged %s: after the restart supervoxel %d maps to %d, not %d (its log record is lost or unreadable)", f.L.Op, rs, gotv, lab.Real(want)))
		}
	}
	for s := range pre.Map {
		if _, touched := fmapw[s]; touched {
			continue
		}
		rs := lab.Real(s)
		g1, ok1 := got.Map[rs]
		g2, ok2 := got2.Map[rs]
		if !ok1 {
			g1 = rs
		}
		if !ok2 {
			g2 = rs
		}
		if g1 != g2 {
			diffs = append(diffs, fmt.Sprintf("supervoxel %d mapped to %d before the follow-up operation and to %d after it and a restart", rs, g1, g2))
		}
	}
	for _, o := range []lmm.Obs{f.TObs} {
		for _, bd := range o.Bodies {
			known[lab.Real(bd.Label)] = true
			for _, s := range bd.SVs {
				known[lab.Real(s)] = true
			}
		}
	}
	for s, l := range got2.Map {
		if !known[s] || !known[l] {
			diffs = append(diffs, fmt.Sprintf("after the follow-up operation GET mappings lists %d -> %d, labels no record ever named", s, l))
		}
	}
	if all {
		// the torn bytes belonged to a record that changes nothing: the state is exactly the target of both
		d, err := in.Compare(b.cur, f.TObs, lab, lmm.Full)
		must(err, "compare")
		for _, x := range d {
			diffs = append(diffs, "after follow-up and restart: "+x)
		}
	} else {
		v2 := sc.g.CompareCells(got2, fpost, fpost, nil, lab)
		for _, d := range v2.Diffs {
			if strings.HasPrefix(d, "block ") {
				diffs = append(diffs, "after follow-up and restart: "+d)
			}
		}
	}
	// its mutation record is the last one listed
	r, err = n.HTTP("GET", "/api/node/"+b.cur+"/seg/mutations", nil)
	must(err, "mutations")
	var gotMut []json.RawMessage
	if r.Status != 200 || json.Unmarshal(r.Bytes(), &gotMut) != nil {
		diffs = append(diffs, fmt.Sprintf("GET mutations after append to a torn log: status %d, not valid JSON: %.300s", r.Status, r.Bytes()))
	} else {
		g := mutationIDs(gotMut)
		w := mutationIDs(wantMut)
		if len(g) != len(w)+1 || fmt.Sprint(g[:len(w)]) != fmt.Sprint(w) || !strings.Contains(g[len(g)-1], "-complete#") {
			diffs = append(diffs, fmt.Sprintf("GET mutations after one more acknowledged operation lists %v; the complete records before it were %v", g, w))
		}
	}
	if len(diffs) > 0 {
		report(n, "acknowledged-operation-after-a-torn-log-not-readable", diffs, lab)
		return
	}
	run.Eval(fmt.Sprintf("reallog-append|%s|%s|%d", sc.name, p.file, p.L))
}

// realLogCheck tears the logs of a real labelmap instance.
func realLogCheck(c *Ctx, run *ev.Run, gr *lmcGraph, g *lmm.Geom, initSV []uint64) (states, trans, nruns int64) {
	// scenarios: an operation from the initial state (its records get torn) and a follow-up
	// operation that names none of its bodies; plus a cleave after an acknowledged merge
	disjoint := func(a, b []uint64) bool {
		for _, x := range a {
			for _, y := range b {
				if x == y {
					return false
				}
			}
		}
		return true
	}
	var scs []*rlScenario
	have := map[string]int{}
	for i := range gr.edges {
		e1 := gr.edges[i]
		if e1.Depth != 0 || (e1.L.Op != "merge" && e1.L.Op != "splitsv") {
			continue
		}
		for j := range gr.edges {
			e2 := gr.edges[j]
			if e2.S.Canon() != e1.T.Canon() || !disjoint(e1.Touched, e2.Touched) || e2.L.Op == e1.L.Op {
				continue
			}
			if have[e1.L.Op] >= c.pick(1, 2) {
				continue
			}
			have[e1.L.Op]++
			f := e2
			scs = append(scs, &rlScenario{name: fmt.Sprintf("%s then %s", jsonStr(e1.L), jsonStr(e2.L)), gr: gr, g: g, initSV: initSV, torn: e1, follow: &f})
			break
		}
	}
	for i := range gr.edges {
		e2 := gr.edges[i]
		if e2.L.Op == "cleave" && e2.Depth == 1 && have["cleave"] < 1 {
			have["cleave"]++
			scs = append(scs, &rlScenario{name: fmt.Sprintf("acknowledged %v then %s", len(gr.pathTo(e2.S.Canon())), jsonStr(e2.L)), gr: gr, g: g, initSV: initSV,
				path: gr.pathTo(e2.S.Canon()), torn: e2})
		}
	}
	if len(scs) < 3 {
		infra("real-log check: only %d scenarios found in the state graph", len(scs))
	}
	bases := make([]*rlBase, len(scs))
	parallel(len(scs), 6, func(_, i int) { bases[i] = rlPrepare(c, scs[i]) })
	defer func() {
		for _, b := range bases {
			if b != nil {
				os.RemoveAll(b.dir)
			}
		}
	}()
	ptsOf := make([][]rlPoint, len(bases))
	var st, tr int64
	parallel(len(bases), len(bases), func(_, bi int) {
		b := bases[bi]
		var pts []rlPoint
		// mapping log: every length from the start of the operation's first record
		fs := frameSizes(b.flog[b.flogFrom:], 6, 2)
		want, wantApp, s, t := logFrameExpect(c, fs, 6)
		atomic.AddInt64(&st, s)
		atomic.AddInt64(&tr, t)
		var fl []int
		for L := 0; L <= len(b.flog)-b.flogFrom; L++ {
			fl = append(fl, L)
		}
		// mutation log: every length inside the last record
		psAll := frameSizes(b.plog, 10, 0)
		wantP, wantAppP, s2, t2 := logFrameExpect(c, psAll, 10)
		atomic.AddInt64(&st, s2)
		atomic.AddInt64(&tr, t2)
		var pl []int
		for L := b.plogFrom; L <= len(b.plog); L++ {
			pl = append(pl, L)
		}
		keep := func(ls []int, from, hdr int, i int) bool {
			off := ls[i] - from
			if c.thorough() {
				return hdr <= 6 || i%6 == 0 || off <= hdr+1 || i >= len(ls)-3
			}
			// quick: the boundaries, inside the header, just behind it, and a seeded stride through the rest
			return i == 0 || i == len(ls)-1 || off == hdr/2 || off == hdr || off == hdr+1 || (i+int(c.Seed)+bi)%(4*hdr-7) == 0
		}
		for i, L := range fl {
			if keep(fl, 0, 6, i) {
				pts = append(pts, rlPoint{b: b, file: "flog", L: b.flogFrom + L, k: want[L], kApp: wantApp[L]})
			}
		}
		for i, L := range pl {
			if keep(pl, b.plogFrom, 10, i) {
				pts = append(pts, rlPoint{b: b, file: "plog", L: L, k: wantP[L], kApp: wantAppP[L]})
			}
		}
		ptsOf[bi] = pts
		run.Sample(map[string]interface{}{"real_log_scenario": b.sc.name, "mapping_log_record_sizes_of_the_operation": fs, "mutation_log_record_sizes": psAll})
	})
	states, trans = st, tr
	var pts []rlPoint
	for _, p := range ptsOf {
		pts = append(pts, p...)
	}
	parallel(len(pts), 12, func(_, i int) { rlRun(c, run, pts[i], &nruns) })
	run.Set("real_log_scenarios", len(scs))
	run.Set("real_log_torn_lengths_restarted", len(pts))
	return states, trans, nruns
}
