package main

import (
	"encoding/json"
	"fmt"
	"os"
	"regexp"
	"strings"
	"sync/atomic"
	"time"

	"verifharness/internal/ev"
	"verifharness/internal/node"
	"verifharness/internal/snap"
	"verifharness/internal/tlc"
)

func init() { checks["C03"] = checkC03 }

type persistModel struct {
	States, Trans int64
	WriteTable    map[string][]string
}

// modelCheckPersist runs TLC on DvidPersist (crash anywhere, restart anywhere) and returns
// the store-write table the specification prescribes per request.
func modelCheckPersist(c *Ctx) persistModel {
	cfg := fmt.Sprintf("SPECIFICATION Spec\nCONSTANTS\n  MaxVersions = %d\n  MaxRepos = %d\n  MaxInsts = 1\n  MaxMut = 4\n  Stride = 2\n  MaxCrashes = 2\nINVARIANTS Inv_C04_StartupSucceeds Inv_C04_Recoverable Inv_C12_CountersAhead EmitWriteTable\nPROPERTIES Act_C03_RestartIsStutter\nCHECK_DEADLOCK FALSE\n",
		c.pick(3, 4), c.pick(1, 2))
	r := c.MustModelCheck(tlc.Opts{Module: "DvidPersist_mc", Config: "gen_persist.cfg",
		Files: map[string][]byte{"gen_persist.cfg": []byte(cfg)}, Timeout: 30 * time.Minute, HeapGB: 16})
	pm := persistModel{States: r.Distinct, Trans: r.Generated}
	PrintedJSON(r.Output, func(raw []byte) {
		var t map[string][]string
		if json.Unmarshal(raw, &t) == nil && len(t["newrepo"]) > 0 {
			pm.WriteTable = t
		}
	})
	if pm.WriteTable == nil {
		infra("DvidPersist emitted no write table")
	}
	return pm
}

// metadataWrites extracts the metadata write classes from a crashkv trace.
func metadataWrites(raw json.RawMessage) []string {
	var evs []struct {
		Class string `json:"class"`
	}
	json.Unmarshal(raw, &evs)
	var out []string
	for _, e := range evs {
		switch e.Class {
		case "R2U", "V2U", "IDS", "REPO", "MUT", "FMT":
			out = append(out, e.Class)
		}
	}
	return out
}

// checkWriteConformance executes each request kind with the write trace on and compares
// the sequence of metadata writes with the specification's program for that request.
func checkWriteConformance(c *Ctx, run *ev.Run, prop string, table map[string][]string) int {
	n := c.StartNode(node.Config{})
	defer c.DropNode(n)
	type stepT struct {
		kind, method, url, body string
	}
	var root, child, child2 string
	do := func(kind, method, url, body string) (node.Resp, []string) {
		n.WTrace(true)
		r, err := n.HTTP(method, url, []byte(body))
		must(err, kind)
		raw, err := n.WTrace(false)
		must(err, "wtrace")
		return r, metadataWrites(raw)
	}
	checked := 0
	cmp := func(kind string, got []string, status int) {
		want := table[kind]
		checked++
		run.Eval("writes|" + kind)
		if status != 200 || strings.Join(got, ",") != strings.Join(want, ",") {
			run.Violation(strings.ToLower(prop)+"-writes", map[string]interface{}{"kind": "store-write-sequence", "request": kind, "status": status,
				"spec_writes": want, "observed_writes": got})
		}
	}
	r, w := do("newrepo", "POST", "/api/repos", `{"alias":"x"}`)
	var o struct{ Root, Child string }
	json.Unmarshal(r.Bytes(), &o)
	root = o.Root
	cmp("newrepo", w, r.Status)
	r, w = do("newdata", "POST", "/api/repo/"+root+"/instance", `{"typename":"keyvalue","dataname":"kv"}`)
	cmp("newdata", w, r.Status)
	r, w = do("commit", "POST", "/api/node/"+root+"/commit", `{"note":"n"}`)
	cmp("commit", w, r.Status)
	r, w = do("newversion", "POST", "/api/node/"+root+"/newversion", `{}`)
	json.Unmarshal(r.Bytes(), &o)
	child = o.Child
	cmp("newversion", w, r.Status)
	r, w = do("newversion", "POST", "/api/node/"+root+"/branch", `{"branch":"b"}`)
	json.Unmarshal(r.Bytes(), &o)
	child2 = o.Child
	cmp("newversion", w, r.Status)
	r, w = do("commit", "POST", "/api/node/"+child+"/commit", `{}`)
	cmp("commit", w, r.Status)
	r, w = do("commit", "POST", "/api/node/"+child2+"/commit", `{}`)
	cmp("commit", w, r.Status)
	r, w = do("merge", "POST", "/api/repo/"+root+"/merge", fmt.Sprintf(`{"mergeType":"conflict-free","parents":[%q,%q]}`, child, child2))
	cmp("merge", w, r.Status)
	return checked
}

type c03Divergence struct {
	Kind    string   `json:"kind"`
	History []wOp    `json:"history"`
	AfterOp string   `json:"after_op"`
	Restart string   `json:"restart"`
	Diffs   []string `json:"diffs"`
}

const c03BranchHeads = "branch-head-after-restart"
var maxRepoRe = regexp.MustCompile(`"MaxRepoLabel":\d+`)
var nextLabelRe = regexp.MustCompile(`\{"nextlabel":\d+\}`)

const c03EmptyLabelmapMax = "empty-labelmap-maxlabel-jumps-on-restart"


func checkC03(c *Ctx) int {
	run := ev.NewRun("C03", c.Tier, "model_checking")
	t0 := time.Now()
	pm := modelCheckPersist(c)
	run.Set("states", pm.States)
	run.Set("transitions", pm.Trans)
	run.Set("tlc_model", "DvidPersist: every request as its program of in-memory steps and store writes; Crash between any two steps; Recover/CleanRestart; Act_C03_RestartIsStutter, Inv_C04_*, Inv_C12_CountersAhead")
	nw := checkWriteConformance(c, run, "C03", pm.WriteTable)
	histories := c.pick(8, 48)
	length := c.pick(40, 60)
	var restarts, compared int64
	kinds := map[string]bool{}
	parallel(histories, 8, func(_, h int) {
		n := c.StartNode(node.Config{})
		defer c.DropNode(n)
		w := newWorld(n, c.Seed*1000+int64(h))
		for i := 0; i < length; i++ {
			kind, err := w.step()
			must(err, "world step")
			if kind == "" {
				continue
			}
			must(n.Idle(), "idle")
			// even histories restart after every operation; odd ones after random gaps, so that
			// state built up over several operations in one process is compared with its rebuild
			if h%2 == 1 && w.rng.Intn(4) != 0 && i < length-1 {
				continue
			}
			before, err := snap.TakeCanon(n, w.snapOptions())
			must(err, "snapshot before restart")
			clean := (i+h)%2 == 0
			must(n.Restart(clean), "restart")
			atomic.AddInt64(&restarts, 1)
			after, err := snap.TakeCanon(n, w.snapOptions())
			must(err, "snapshot after restart")
			atomic.AddInt64(&compared, int64(len(before.Entries)))
			run.Eval(fmt.Sprintf("h%d|%d|%s", h, i, kind))
			d := snap.Diff(before, after)
			if len(d) > 0 && run.KnownActive(c03EmptyLabelmapMax) {
				// known finding: a labelmap instance restarted while it holds no stored repo-wide
				// maximum gets 10000000000 in memory (not persisted), so its max / next label answers
				// differ across this and later restarts.  Blank exactly those fields and compare again.
				fix := func(key, b string) string {
					if !strings.Contains(key, "data/la") && !strings.Contains(key, "/info") {
						return b
					}
					b = maxRepoRe.ReplaceAllString(b, `"MaxRepoLabel":"*"`)
					b = nextLabelRe.ReplaceAllString(b, `{"nextlabel":"*"}`)
					return b
				}
				if d2 := snap.Diff(snap.Transform(before, fix), snap.Transform(after, fix)); len(d2) == 0 {
					run.ReportKnown(c03EmptyLabelmapMax)
					d = nil
				}
			}
			if len(d) > 0 {
				// known finding: only uuid:branch head addresses differ
				onlyHeads := true
				for _, x := range d {
					if !strings.HasPrefix(x, "head/") {
						onlyHeads = false
					}
				}
				if onlyHeads && run.KnownActive(c03BranchHeads) {
					run.ReportKnown(c03BranchHeads)
				} else {
					how := "SIGKILL while idle"
					if clean {
						how = "clean stop"
					}
					run.Violation("c03", c03Divergence{Kind: "restart-changed-observable", History: w.log, AfterOp: w.describe(w.log[len(w.log)-1]), Restart: how, Diffs: d})
					return
				}
			}
			if h == 0 && i == 5 {
				run.Sample(map[string]interface{}{"history_prefix": w.log, "restart": "after every operation (even histories) or after random gaps (odd histories), alternating clean stop / SIGKILL", "snapshot_entries": len(before.Entries)})
			}
		}
		for _, op := range w.log {
			kinds[op.Kind] = true
			if os.Getenv("VCHECK_DEBUG") != "" && strings.HasPrefix(op.Kind, os.Getenv("VCHECK_DEBUG")) {
				fmt.Println("DEBUG", w.describe(op), op.Body, op.Resp)
			}
		}
	})
	var kl []string
	for k := range kinds {
		kl = append(kl, k)
	}
	run.Set("traces_validated_against_impl", restarts+int64(nw))
	run.Set("restarts", restarts)
	run.Set("snapshot_entries_compared", compared)
	run.Set("operation_kinds", kl)
	run.Set("write_sequences_conformant", nw)
	run.Set("rule", "case = (seeded multi-datatype history, position): after every acknowledged operation (or, in every second history, after random gaps of operations) the node is stopped (alternating clean stop and SIGKILL while idle), a new process opens the same stores, and the complete API snapshot (repos info, DAG, heads, flags, notes, logs, instances with settings/tags, every data read endpoint at every version) must equal the one taken before; the store-write sequence of every repo-level request is compared with the program DvidPersist.tla prescribes")
	run.Assume = []string{"Badger durability across process kill (page cache survives)", "datatypes driven so far: keyvalue, roi, annotation, neuronjson, uint8blk (+labelmap in C08's restart pass)"}
	fmt.Printf("C03: tlc %d states; %d histories x %d ops, %d restarts, %d snapshot entries compared in %.1fs; violations=%d known=%v\n",
		pm.States, histories, length, restarts, compared, since(t0), run.Violations(), run.KnownSeen())
	return run.Finish()
}
