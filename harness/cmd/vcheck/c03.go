package main

import (
	"encoding/json"
	"fmt"
	"os"
	"regexp"
	"sort"
	"strings"
	"sync/atomic"
	"time"

	"verifharness/internal/ev"
	"verifharness/internal/node"
	"verifharness/internal/tlc"
)

func init() { checks["C03"] = checkC03 }

type persistModel struct {
	States, Trans int64
	WriteTable    map[string][]string
	MutSchedule   []int // which of the consecutive mutation-id allocations after initMutationID persist the MUT key (stride 100)
}

func persistCfg(versions, repos, insts, mut, crashes, admin int) string {
	return fmt.Sprintf("SPECIFICATION Spec\nCONSTANTS\n  MaxVersions = %d\n  MaxRepos = %d\n  MaxInsts = %d\n  MaxMut = %d\n  Stride = 2\n  MaxCrashes = %d\n  MaxAdmin = %d\nINVARIANTS Inv_C04_StartupSucceeds Inv_C04_Recoverable Inv_C12_CountersAhead Inv_C03_FreedUUIDsStayFree EmitWriteTable\nPROPERTIES Act_C03_RestartIsStutter\nCHECK_DEADLOCK FALSE\n",
		versions, repos, insts, mut, crashes, admin)
}

func runPersist(c *Ctx, cfg string, workers int) persistModel {
	r := c.MustModelCheck(tlc.Opts{Module: "DvidPersist_mc", Config: "gen_persist.cfg", Workers: workers,
		Files: map[string][]byte{"gen_persist.cfg": []byte(cfg)}, Timeout: 30 * time.Minute, HeapGB: 16})
	pm := persistModel{States: r.Distinct, Trans: r.Generated}
	PrintedJSON(r.Output, func(raw []byte) {
		var t map[string][]string
		if json.Unmarshal(raw, &t) == nil && len(t["newrepo"]) > 0 {
			pm.WriteTable = t
		}
		var ms struct {
			Mutschedule []int `json:"mutschedule"`
		}
		if json.Unmarshal(raw, &ms) == nil && len(ms.Mutschedule) > 0 {
			pm.MutSchedule = ms.Mutschedule
		}
	})
	if pm.WriteTable == nil || pm.MutSchedule == nil {
		infra("DvidPersist emitted no write table")
	}
	return pm
}

// modelCheckPersist runs TLC on DvidPersist (crash anywhere, restart anywhere) and returns
// the store-write table the specification prescribes per request.  (Configuration of C04 / C12:
// the requests of the original model, two crashes.)
func modelCheckPersist(c *Ctx) persistModel {
	return runPersist(c, persistCfg(c.pick(3, 4), c.pick(1, 2), 1, 4, 2, 0), 0)
}

// modelCheckPersistAdmin: the configurations with the administrative requests (deleterepo,
// hide-branch, make-master, rename, deletedata, tag, caller-assigned UUIDs): one repo with three
// (four) versions, and two repos (deleterepo followed by a new repo that re-uses the freed UUID).
func modelCheckPersistAdmin(c *Ctx) persistModel {
	a := runPersist(c, persistCfg(c.pick(3, 4), 1, 1, 2, c.pick(1, 2), 2), 4)
	b := runPersist(c, persistCfg(2, 2, 1, 2, c.pick(1, 2), 2), 4)
	a.States += b.States
	a.Trans += b.Trans
	return a
}

// metadataWrites extracts the metadata write classes from a crashkv trace.
func metadataWrites(raw json.RawMessage) []string {
	var evs []struct {
		Op    string `json:"op"`
		Class string `json:"class"`
	}
	json.Unmarshal(raw, &evs)
	var out []string
	for _, e := range evs {
		switch e.Class {
		case "R2U", "V2U", "IDS", "REPO", "MUT", "FMT":
			if e.Op == "Delete" {
				out = append(out, "DEL-"+e.Class)
			} else {
				out = append(out, e.Class)
			}
		}
	}
	return out
}

// checkWriteConformance executes each request kind with the write trace on and compares
// the sequence of metadata writes with the specification's program for that request.
func checkWriteConformance(c *Ctx, run *ev.Run, prop string, table map[string][]string) int {
	return checkWriteConformanceX(c, run, prop, persistModel{WriteTable: table})
}

func checkWriteConformanceX(c *Ctx, run *ev.Run, prop string, pm persistModel) int {
	table := pm.WriteTable
	n := c.StartNode(node.Config{})
	defer c.DropNode(n)
	var root, child, child2 string
	do := func(kind, method, url, body string) (node.Resp, []string) {
		n.WTrace(true)
		r, err := n.HTTP(method, url, []byte(body))
		must(err, kind)
		raw, err := n.WTrace(false)
		must(err, "wtrace")
		return r, metadataWrites(raw)
	}
	// a package-level entry point (the RPC commands call exactly these); settle waits for the
	// part of the request that runs after its acknowledgement
	call := func(kind, fn string, args interface{}, settle func()) (int, []string) {
		n.WTrace(true)
		err := n.Call(fn, args, nil)
		if err != nil && !n.Alive() {
			must(err, kind)
		}
		if settle != nil {
			settle()
		}
		raw, werr := n.WTrace(false)
		must(werr, "wtrace")
		if err != nil {
			return 400, metadataWrites(raw)
		}
		return 200, metadataWrites(raw)
	}
	checked := 0
	cmp := func(kind string, got []string, status int) {
		want, known := table[kind]
		if !known {
			return // (a caller with the table of an older model)
		}
		checked++
		run.Eval("writes|" + kind)
		if status != 200 || strings.Join(got, ",") != strings.Join(want, ",") {
			run.Violation(strings.ToLower(prop)+"-writes", map[string]interface{}{"kind": "store-write-sequence", "request": kind, "status": status,
				"spec_writes": want, "observed_writes": got})
		}
	}
	r, w := do("newrepo", "POST", "/api/repos", `{"alias":"x"}`)
	var o struct{ Root, Child string }
	json.Unmarshal(r.Bytes(), &o)
	root = o.Root
	cmp("newrepo", w, r.Status)
	r, w = do("newdata", "POST", "/api/repo/"+root+"/instance", `{"typename":"keyvalue","dataname":"kv"}`)
	cmp("newdata", w, r.Status)
	r, w = do("commit", "POST", "/api/node/"+root+"/commit", `{"note":"n"}`)
	cmp("commit", w, r.Status)
	r, w = do("newversion", "POST", "/api/node/"+root+"/newversion", `{}`)
	json.Unmarshal(r.Bytes(), &o)
	child = o.Child
	cmp("newversion", w, r.Status)
	r, w = do("newversion", "POST", "/api/node/"+root+"/branch", `{"branch":"b"}`)
	json.Unmarshal(r.Bytes(), &o)
	child2 = o.Child
	cmp("newversion", w, r.Status)
	r, w = do("commit", "POST", "/api/node/"+child+"/commit", `{}`)
	cmp("commit", w, r.Status)
	r, w = do("commit", "POST", "/api/node/"+child2+"/commit", `{}`)
	cmp("commit", w, r.Status)
	r, w = do("merge", "POST", "/api/repo/"+root+"/merge", fmt.Sprintf(`{"mergeType":"conflict-free","parents":[%q,%q]}`, child, child2))
	cmp("merge", w, r.Status)
	if _, grown := table["deleterepo"]; !grown {
		return checked
	}
	// ---- the request kinds added with the growth of C03 (C03-3, C03-7) ----
	r, w = do("newversion_assigned", "POST", "/api/node/"+root+"/branch", `{"branch":"b2","uuid":"0123456789abcdef0123456789abcdef"}`)
	cmp("newversion_assigned", w, r.Status)
	r, w = do("tag", "POST", "/api/node/"+root+"/tag", `{"tag":"tagged1","note":"t"}`)
	cmp("tag", w, r.Status)
	st, w := call("rename", "ds.rename", map[string]string{"UUID": root, "Old": "kv", "New": "kv2"}, nil)
	cmp("rename", w, st)
	st, w = call("makemaster", "ds.makemaster", map[string]string{"UUID": child2, "OldMasterName": "oldmaster"}, nil)
	cmp("makemaster", w, st)
	st, w = call("hidebranch", "ds.hidebranch", map[string]string{"UUID": root, "Branch": "b2"}, nil)
	cmp("hidebranch", w, st)
	r, w = do("newrepo_assigned", "POST", "/api/repos", `{"alias":"y","root":"fedcba9876543210fedcba9876543210"}`)
	cmp("newrepo_assigned", w, r.Status)
	// start-up: the writes of loadMetadata on a store that needs no repair (one MUT per repo)
	restartTraced := func(kind string) {
		must(n.RestartWith(true, func(cfg *node.Config) { cfg.Env = []string{"VERIF_WTRACE=1"} }), "restart with write trace")
		raw, err := n.WTrace(false)
		must(err, "wtrace")
		n.Cfg.Env = nil
		cmp(kind, metadataWrites(raw), 200)
	}
	restartTraced("recover2")
	// newMutationID: which allocations persist the MUT key (the first one follows initMutationID of the start-up)
	if len(pm.MutSchedule) > 0 {
		var got []int
		for range pm.MutSchedule {
			st, w := call("newmut", "mgr.mutids", map[string]interface{}{"UUID": root, "Name": "kv2", "N": 1}, nil)
			bit := 0
			if strings.Join(w, ",") == "MUT" {
				bit = 1
			} else if len(w) > 0 || st != 200 {
				bit = -1
			}
			got = append(got, bit)
		}
		checked++
		run.Eval("writes|newmut-schedule")
		if fmt.Sprint(got) != fmt.Sprint(pm.MutSchedule) {
			run.Violation(strings.ToLower(prop)+"-writes", map[string]interface{}{"kind": "mutation-id-persist-schedule", "request": fmt.Sprintf("%d consecutive newMutationID after start-up", len(got)),
				"spec_persists_MUT_at": pm.MutSchedule, "observed": got})
		}
	}
	st, w = call("deleterepo", "ds.deleterepo", map[string]string{"UUID": "fedcba9876543210fedcba9876543210"}, nil)
	cmp("deleterepo", w, st)
	restartTraced("recover1")
	// deletedata is acknowledged before its writes: collect the trace until the goroutine has saved the repo
	n.WTrace(true)
	derr := n.Call("ds.deletedata", map[string]string{"UUID": root, "Name": "kv2"}, nil)
	if derr != nil && !n.Alive() {
		must(derr, "deletedata")
	}
	st, w = 200, nil
	if derr != nil {
		st = 400
	}
	for deadline := time.Now().Add(20 * time.Second); time.Now().Before(deadline); time.Sleep(2 * time.Millisecond) {
		raw, err := n.WTrace(false) // (takes what has been traced so far; tracing stays on)
		must(err, "wtrace")
		w = append(w, metadataWrites(raw)...)
		if len(w) > 0 {
			time.Sleep(20 * time.Millisecond)
			raw, _ = n.WTrace(false)
			w = append(w, metadataWrites(raw)...)
			break
		}
	}
	cmp("deletedata", w, st)
	return checked
}

type c03Divergence struct {
	Kind    string   `json:"kind"`
	History []wOp    `json:"history"`
	AfterOp string   `json:"after_op"`
	Restart string   `json:"restart"`
	Diffs   []string `json:"diffs"`
}

const c03BranchHeads = "branch-head-after-restart"

var maxRepoRe = regexp.MustCompile(`"MaxRepoLabel":\d+`)
var nextLabelRe = regexp.MustCompile(`\{"nextlabel":\d+\}`)

const c03EmptyLabelmapMax = "empty-labelmap-maxlabel-jumps-on-restart"

var scFail atomic.Value

func checkC03(c *Ctx) int {
	run := ev.NewRun("C03", c.Tier, "model_checking")
	t0 := time.Now()
	pm := modelCheckPersist(c)
	// the configurations with the administrative requests are checked while the histories run
	admCh := make(chan persistModel, 1)
	go func() {
		defer func() {
			if e := recover(); e != nil {
				admCh <- persistModel{States: -1, WriteTable: map[string][]string{"error": {fmt.Sprint(e)}}}
			}
		}()
		admCh <- modelCheckPersistAdmin(c)
	}()
	nw := checkWriteConformanceX(c, run, "C03", pm)
	tTLC := since(t0)
	// the scripted scenarios run next to the histories
	scCh := make(chan int, 1)
	go func() {
		defer func() {
			if e := recover(); e != nil {
				scFail.Store(fmt.Sprint(e))
				scCh <- -1
			}
		}()
		scCh <- c03Scenarios(c, run)
	}()
	histories := c.pick(8, 48)
	length := c.pick(40, 60)
	if os.Getenv("VERIF_C03_PART") == "scenarios" { // development aid, never used by a registered command
		histories = 0
	}
	st := &c03Stats{kinds: map[string]int{}, afterRestartKinds: map[string]int{}}
	parallel(histories, 8, func(_, h int) {
		c03History(c, run, st, h, length, true)
	})
	nsc := <-scCh
	if nsc < 0 {
		infra("scenarios: %v", scFail.Load())
	}
	adm := <-admCh
	if adm.States < 0 {
		infra("DvidPersist (administrative requests): %v", adm.WriteTable["error"])
	}
	pm.States += adm.States
	pm.Trans += adm.Trans
	run.Set("states", pm.States)
	run.Set("transitions", pm.Trans)
	run.Set("tlc_model", "DvidPersist: every request as its program of in-memory steps and store writes (newrepo, newversion, merge, commit, newdata, newMutationID; deleterepo, hide-branch, make-master, rename, deletedata, tag, caller-assigned UUIDs incl. ones freed by deleterepo / hide-branch); Crash between any two steps; Recover/CleanRestart; Act_C03_RestartIsStutter (projection incl. branches, instance names, known UUIDs), Inv_C03_FreedUUIDsStayFree, Inv_C04_*, Inv_C12_CountersAhead")
	var kl, al []string
	for k, v := range st.kinds {
		kl = append(kl, fmt.Sprintf("%s:%d", k, v))
	}
	for k, v := range st.afterRestartKinds {
		al = append(al, fmt.Sprintf("%s:%d", k, v))
	}
	sort.Strings(kl)
	sort.Strings(al)
	run.Set("traces_validated_against_impl", st.restarts+int64(nw)+st.refCompared+int64(nsc))
	run.Set("restarts", st.restarts)
	run.Set("snapshot_entries_compared", st.compared)
	run.Set("reference_comparisons", st.refCompared)
	run.Set("reference_entries_compared", st.refEntries)
	run.Set("operation_kinds", kl)
	run.Set("first_operation_after_a_restart", al)
	run.Set("write_sequences_conformant", nw)
	run.Set("scenarios", nsc)
	run.Set("rule", "case = (seeded multi-datatype history, position): after every acknowledged operation (every fourth history) or after random gaps of operations the node is stopped (alternating clean stop and SIGKILL while idle), a new process opens the same stores, and the complete API snapshot (repos info, DAG, heads, flags, notes, logs, instances with settings/tags/syncs, every data read endpoint at every version incl. the label / tag views of the annotation synced to the labelmap, the counts of the labelsz synced to the annotation and the answers derived from the mutation logs) must equal the one taken before; at the middle and at the end of every history the snapshot must also equal the one of the same history executed on a node that is never restarted (identifiers canonical, mutation ids by rank); the store-write sequence of every repo-level request kind and of a start-up is compared with the program DvidPersist.tla prescribes")
	run.Assume = []string{"Badger durability across process kill (page cache survives)", "asynchronous instance deletion is waited for before the restart (the property speaks of an idle server)"}
	fmt.Printf("C03: tlc %d states (%.1fs incl. write conformance); %d scenarios; %d histories x %d ops, %d restarts, %d snapshot entries compared, %d comparisons with the never-restarted reference, in %.1fs; violations=%d known=%v\n",
		pm.States, tTLC, nsc, histories, length, st.restarts, st.compared, st.refCompared, since(t0), run.Violations(), run.KnownSeen())
	if os.Getenv("VCHECK_DEBUG") != "" {
		fmt.Printf("C03 time summed over workers: steps %.1fs, snapshots %.1fs, restarts %.1fs, reference runs %.1fs\n",
			float64(st.tStep)/1e9, float64(st.tSnap)/1e9, float64(st.tRestart)/1e9, float64(st.tRef)/1e9)
	}
	return run.Finish()
}
