package main

import (
	"encoding/json"
	"fmt"
	"math/rand"
	"sort"
	"strings"
	"sync/atomic"
	"time"

	"verifharness/internal/dagm"
	"verifharness/internal/ev"
	"verifharness/internal/node"
	"verifharness/internal/tlc"
)

// C19, copies restricted by a region of interest: datastore.CopyInstance with the setting
// filter=roi:<roi>,<uuid> for an image-block source, plain and flattened.
//
// Specification: specs/KVCopyFilter.tla (EXTENDS KVCopy): a block is copied iff it lies in the
// region as the region reads at the version named in the filter; Inv_C19_Filter: a kept datum
// reads like in the unfiltered copy, every other datum reads nothing at any version.  TLC
// enumerates the DAG shapes and evaluates the source reads (EmitCopy); the harness builds each
// shape with a uint8blk/uint16blk source of four blocks in two Z layers and a versioned roi
// instance (multi-block span), makes the filtered copies and reads them at every version.

const c19fBlk = 16

// position of datum j in blocks, and whether the posted spans cover it
var c19fPos = [4][3]int{{0, 0, 0}, {1, 0, 0}, {0, 0, 1}, {1, 0, 1}}
var c19fInSpans = [4]bool{true, true, false, true}

const c19fSpans = "[[0,0,0,1],[1,0,1,1]]" // [z, y, x0, x1]: blocks (0,0,0), (1,0,0) and (1,0,1)

func emitFilterShapes(c *Ctx, n int) ([]copyShape, *tlc.Result) {
	cfg := fmt.Sprintf("SPECIFICATION Spec\nCONSTANTS\n  N = %d\n  MaxParents = 3\n  LastMergeOnly = FALSE\n  LastFoundBug = FALSE\n"+
		"INVARIANTS Inv_C19_Plain Inv_C19_Flat Inv_C19_Filter Inv_C19_FilterAbsentRegion EmitCopy\nCHECK_DEADLOCK FALSE\n", n)
	r := c.MustModelCheck(tlc.Opts{Module: "KVCopyFilter", Config: "gen_copyf.cfg",
		Files: map[string][]byte{"gen_copyf.cfg": []byte(cfg)}, Timeout: 30 * time.Minute, HeapGB: 4})
	var out []copyShape
	PrintedJSON(r.Output, func(raw []byte) {
		var s copyShape
		if err := json.Unmarshal(raw, &s); err == nil && len(s.Par) == n && len(s.Desc) == n && len(s.Strict) == len(s.Read) && len(s.Built) == len(s.Read) {
			out = append(out, s)
		}
	})
	if len(out) == 0 {
		infra("KVCopyFilter emitted nothing:\n%s", r.Tail(2000))
	}
	sort.Slice(out, func(i, j int) bool { return fmt.Sprint(out[i].Par) < fmt.Sprint(out[j].Par) })
	return out, r
}

type c19fDivergence struct {
	Kind       string      `json:"kind"`
	Par        [][]int     `json:"par"`
	Datatype   string      `json:"datatype"`
	Copy       string      `json:"copy_instance,omitempty"`
	Mode       string      `json:"mode,omitempty"`
	Filter     string      `json:"filter,omitempty"`
	RoiPlace   string      `json:"roi_placement"`
	RoiAt      int         `json:"roi_version_node,omitempty"`
	RoiPresent bool        `json:"roi_present_there"`
	Placement  string      `json:"datum_placement,omitempty"`
	Datum      int         `json:"datum,omitempty"`
	Block      [3]int      `json:"block,omitempty"`
	InSpans    bool        `json:"block_in_posted_spans"`
	Query      int         `json:"query_node,omitempty"`
	Expected   interface{} `json:"expected"`
	Observed   interface{} `json:"observed"`
	Script     []dagm.Step `json:"script,omitempty"`
}

// c19fRead reads the four blocks of an instance at one version: per datum the (uniform) value,
// 0 = background, -1 request failed, -2 not uniform.
func c19fRead(n *node.Node, u, inst string, bpv int) ([]int, string, error) {
	w := 2 * c19fBlk
	r, err := n.HTTP("GET", fmt.Sprintf("/api/node/%s/%s/raw/0_1_2/%d_%d_%d/0_0_0", u, inst, w, c19fBlk, w), nil)
	if err != nil {
		return nil, "", err
	}
	out := make([]int, 4)
	b := r.Bytes()
	if r.Status != 200 || len(b) != w*c19fBlk*w*bpv {
		for j := range out {
			out[j] = -1
		}
		return out, fmt.Sprintf("raw=%d (%d bytes) %.80s", r.Status, len(b), b), nil
	}
	var obs []string
	for j, p := range c19fPos {
		first := -1
		uniform := true
		for z := 0; z < c19fBlk && uniform; z++ {
			for y := 0; y < c19fBlk && uniform; y++ {
				for x := 0; x < c19fBlk; x++ {
					i := (((p[2]*c19fBlk+z)*c19fBlk+y)*w + p[0]*c19fBlk + x) * bpv
					v := int(b[i])
					for k := 1; k < bpv; k++ {
						if b[i+k] != 0 {
							v = -9
						}
					}
					if first == -1 {
						first = v
					}
					if v != first {
						uniform = false
						break
					}
				}
			}
		}
		if !uniform || first < 0 {
			out[j] = -2
			obs = append(obs, fmt.Sprintf("block %v not uniform", p))
		} else {
			out[j] = first
		}
	}
	return out, strings.Join(obs, "; "), nil
}

// c19fFixed is a directed case: the placements of the four blocks and of the region.
type c19fFixed struct {
	par   string
	pls   [4]int
	q     int
	about string
}

// Directed cases (always replayed).  Digits of a placement: node k has digit (p / 3^(k-1)) % 3,
// 1 = written / posted there, 2 = deleted there.
var c19fDirected = []c19fFixed{
	// root with three children: block (1,0,1) - the upper Z layer - is written in branch 3 only,
	// block (0,0,0) afterwards in branch 4, where the region is posted: the source's in-memory
	// extents are then those of branch 4 (lower layer only)
	{par: "[[] [1] [1] [1]]", pls: [4]int{27, 0, 0, 9}, q: 47, about: "upper Z layer written in another branch than the one written last"},
	{par: "[[] [1] [1] [1]]", pls: [4]int{27, 3, 9, 9}, q: 27, about: "two branches write the upper Z layer, the last written branch the lower one"},
}

func c19fShape(c *Ctx, run *ev.Run, s *dagm.Sess, sh copyShape, si int, nreads, ncopies *int64, fixed *c19fFixed) {
	n := len(sh.Par)
	np := pow3(n)
	rng := rand.New(rand.NewSource(c.Seed*6151 + int64(si)*15485863 + int64(n)))
	var built, cleanNoDel []int
	for p := 0; p < np; p++ {
		ok, nodel := true, true
		for v := 0; v < n; v++ {
			ok = ok && sh.Read[p][v] != -1
		}
		for k := 1; k <= n; k++ {
			nodel = nodel && digit(p, k) != 2
		}
		if ok && sh.Built[p] == 1 {
			built = append(built, p)
			if nodel {
				cleanNoDel = append(cleanNoDel, p)
			}
		}
	}
	typ, bpv := "uint8blk", 1
	if si%3 == 2 {
		typ, bpv = "uint16blk", 2
	}
	// four data with seeded conflict-free placements; the extents entry of the instance is
	// rewritten at every node that writes a block and must not be in conflict there either
	metaOf := func(pls []int) int {
		m := 0
		for k := 1; k <= n; k++ {
			for _, p := range pls {
				if digit(p, k) == 1 {
					m += pow3(k - 1)
					break
				}
			}
		}
		return m
	}
	var pls []int
	for try := 0; try < 50; try++ {
		pls = pls[:0]
		for j := 0; j < 4; j++ {
			pls = append(pls, cleanNoDel[rng.Intn(len(cleanNoDel))])
		}
		if m := metaOf(pls); sh.Built[m] == 1 {
			break
		}
		pls = pls[:0]
	}
	if fixed != nil {
		pls = append(pls[:0], fixed.pls[:]...)
		for _, p := range pls {
			for v := 0; v < n; v++ {
				if sh.Read[p][v] == -1 {
					infra("directed filter case %v: placement %d is in conflict", fixed, p)
				}
			}
		}
		if sh.Built[metaOf(pls)] != 1 || sh.Built[fixed.q] != 1 {
			infra("directed filter case %v cannot be built", fixed)
		}
	}
	if len(pls) == 0 {
		return
	}
	meta := metaOf(pls)
	// the region's own placement: present somewhere (a region that never exists is the rarer case)
	q := built[rng.Intn(len(built))]
	if rng.Intn(4) > 0 {
		for try := 0; try < 20 && q == 0; try++ {
			q = built[rng.Intn(len(built))]
		}
	}
	if fixed != nil {
		q = fixed.q
	}
	bs := fmt.Sprintf("%d,%d,%d", c19fBlk, c19fBlk, c19fBlk)
	err := s.BuildShape(sh.Par, func(k int) error {
		if k == 1 {
			if err := s.NewInstance(1, typ, "fimg", map[string]string{"BlockSize": bs}); err != nil {
				return err
			}
			if err := s.NewInstance(1, "roi", "froi", map[string]string{"BlockSize": bs}); err != nil {
				return err
			}
			// a region of another block size cannot restrict the copy
			if err := s.NewInstance(1, "roi", "froi32", map[string]string{"BlockSize": "32,32,32"}); err != nil {
				return err
			}
			if r, err := s.N.HTTP("POST", "/api/node/"+s.NodeUUID(len(s.UUIDs))+"/froi32/roi", []byte("[[0,0,0,0]]")); err != nil || r.Status != 200 {
				return fmt.Errorf("POST roi froi32: %v %d", err, r.Status)
			}
		}
		u := s.NodeUUID(len(s.UUIDs))
		for j, p := range pls {
			if digit(p, k) == 1 {
				buf := make([]byte, c19fBlk*c19fBlk*c19fBlk*bpv)
				for i := 0; i < len(buf); i += bpv {
					buf[i] = byte(k)
				}
				pos := c19fPos[j]
				r, err := s.N.HTTP("POST", fmt.Sprintf("/api/node/%s/fimg/raw/0_1_2/%d_%d_%d/%d_%d_%d", u, c19fBlk, c19fBlk, c19fBlk, pos[0]*c19fBlk, pos[1]*c19fBlk, pos[2]*c19fBlk), buf)
				if err := okStatus(r, err, "POST raw"); err != nil {
					return fmt.Errorf("fimg write datum %d at n%d: %v", j, k, err)
				}
			}
		}
		switch digit(q, k) {
		case 1:
			r, err := s.N.HTTP("POST", "/api/node/"+u+"/froi/roi", []byte(c19fSpans))
			if err := okStatus(r, err, "POST roi"); err != nil {
				return err
			}
		case 2:
			r, err := s.N.HTTP("DELETE", "/api/node/"+u+"/froi/roi", nil)
			if err := okStatus(r, err, "DELETE roi"); err != nil {
				return err
			}
		}
		return nil
	})
	must(err, "build shape")
	must(s.N.Idle(), "idle")
	base := len(s.UUIDs) - n
	uuid := func(v int) string { return s.UUIDs[base+v-1] }
	nrep := 0
	report := func(d c19fDivergence) {
		nrep++
		if nrep > 4 {
			return
		}
		d.Par = sh.Par
		d.Datatype = typ
		d.RoiPlace = placementString(q, n)
		if id := "copy-filter-" + d.Kind; run.KnownActive(id) {
			run.ReportKnown(id)
			return
		}
		run.Violation("c19", d)
	}
	// the copies: every region version U with a defined read, plain and flattened at a seeded
	// (3 nodes: every) V
	type copyInst struct {
		name, mode, filter string
		U, flatV           int
		present            bool
	}
	var copies []*copyInst
	for U := 1; U <= n; U++ {
		if sh.Read[q][U-1] == -1 {
			continue // the region is in merge conflict at U: no defined filter
		}
		var vs []int
		vs = append(vs, 0)
		for V := 1; V <= n; V++ {
			if sh.Read[meta][V-1] == -1 {
				continue // the instance's per-version extents entry is in merge conflict at V
			}
			if n <= 3 || rng.Intn(3) == 0 {
				vs = append(vs, V)
			}
		}
		for _, V := range vs {
			ci := &copyInst{U: U, flatV: V, present: sh.Read[q][U-1] > 0, filter: "roi:froi," + uuid(U)}
			cfg := map[string]string{"filter": ci.filter}
			at := uuid(1)
			ci.name, ci.mode = fmt.Sprintf("fimg_u%d_p", U), "plain"
			if V > 0 {
				cfg["transmit"] = "flatten"
				at = uuid(V)
				ci.name, ci.mode = fmt.Sprintf("fimg_u%d_f%d", U, V), fmt.Sprintf("flatten@n%d", V)
			}
			var res struct {
				Err   string `json:"err"`
				Panic string `json:"panic"`
			}
			must(s.N.Call("copy.instance", map[string]interface{}{"uuid": at, "source": "fimg", "target": ci.name, "config": cfg}, &res), "copy.instance")
			atomic.AddInt64(ncopies, 1)
			switch {
			case res.Panic != "":
				report(c19fDivergence{Kind: "panicked", Copy: ci.name, Mode: ci.mode, Filter: ci.filter, RoiAt: U, RoiPresent: ci.present, Expected: "copy made", Observed: res.Panic, Script: s.Script})
			case res.Err != "":
				report(c19fDivergence{Kind: "failed", Copy: ci.name, Mode: ci.mode, Filter: ci.filter, RoiAt: U, RoiPresent: ci.present, Expected: "copy made", Observed: res.Err, Script: s.Script})
			default:
				copies = append(copies, ci)
			}
		}
	}
	// a filter that names a region of another block size is refused
	{
		var res struct {
			Err   string `json:"err"`
			Panic string `json:"panic"`
		}
		filter := "roi:froi32," + uuid(1)
		must(s.N.Call("copy.instance", map[string]interface{}{"uuid": uuid(1), "source": "fimg", "target": "fimg_other", "config": map[string]string{"filter": filter}}, &res), "copy.instance")
		atomic.AddInt64(ncopies, 1)
		atomic.AddInt64(nreads, 1)
		if res.Panic != "" || res.Err == "" {
			report(c19fDivergence{Kind: "other-block-size-not-refused", Copy: "fimg_other", Mode: "plain", Filter: filter, RoiAt: 1, Expected: "refused: the region has block size 32, the volume 16", Observed: res.Panic + res.Err, Script: s.Script})
		}
	}
	must(s.N.Idle(), "idle")
	want := func(p, flatV, w int) (int, bool) {
		if flatV == 0 {
			return sh.Read[p][w-1], true
		}
		at := sh.Read[p][flatV-1]
		if at == -1 {
			return 0, false
		}
		if sh.Desc[flatV-1][w-1] == 1 {
			return at, true
		}
		return 0, true
	}
	// the source is unchanged by the copies
	for w := 1; w <= n; w++ {
		got, obs, err := c19fRead(s.N, uuid(w), "fimg", bpv)
		must(err, "read fimg")
		for j, p := range pls {
			x, _ := want(p, 0, w)
			atomic.AddInt64(nreads, 1)
			if got[j] == x || (x == -1 && got[j] <= 0) {
				continue
			}
			report(c19fDivergence{Kind: "source-read", Placement: placementString(p, n), Datum: j, Block: c19fPos[j], InSpans: c19fInSpans[j], Query: w, Expected: x, Observed: fmt.Sprintf("%d %s", got[j], obs), Script: s.Script})
		}
	}
	for _, ci := range copies {
		for w := 1; w <= n; w++ {
			got, obs, err := c19fRead(s.N, uuid(w), ci.name, bpv)
			must(err, "read "+ci.name)
			for j, p := range pls {
				x, defined := want(p, ci.flatV, w)
				if !defined {
					continue
				}
				// Inv_C19_Filter: a datum that is not kept reads nothing anywhere
				keep := c19fInSpans[j] && ci.present
				if !keep {
					x = 0
				}
				atomic.AddInt64(nreads, 1)
				if got[j] == x || (x == -1 && got[j] <= 0) {
					continue
				}
				report(c19fDivergence{Kind: "read", Copy: ci.name, Mode: ci.mode, Filter: ci.filter, RoiAt: ci.U, RoiPresent: ci.present, Placement: placementString(p, n), Datum: j, Block: c19fPos[j],
					InSpans: c19fInSpans[j], Query: w, Expected: x, Observed: fmt.Sprintf("%d %s", got[j], obs), Script: s.Script})
			}
		}
	}
	run.Eval(fmt.Sprintf("filter|N%d|%v|roi=%s", n, sh.Par, placementString(q, n)))
	if si%41 == 0 {
		run.Sample(map[string]interface{}{"part": "copy with filter=roi", "par": sh.Par, "datatype": typ, "block_placements": []string{placementString(pls[0], n), placementString(pls[1], n), placementString(pls[2], n), placementString(pls[3], n)},
			"blocks": c19fPos, "blocks_in_posted_spans": c19fInSpans, "roi_placement": placementString(q, n), "roi_reads_per_node": sh.Read[q], "copies": len(copies),
			"rule": "a block is copied iff it lies in the spans and the region is present at the version named in the filter; a kept block reads like in the unfiltered copy"})
	}
}

// c19Filter is the filtered-copy part of C19 (called from checkC19).
func c19Filter(c *Ctx, run *ev.Run, states, trans, nreads, ncopies *int64, cfgs *[]string) {
	t0 := time.Now()
	workers := 8
	ws := make([]*dagWorker, workers)
	for i := range ws {
		ws[i] = &dagWorker{c: c, every: 12, cfg: node.Config{NoLog: true}}
	}
	defer func() {
		for _, w := range ws {
			w.close()
		}
	}()
	rng := rand.New(rand.NewSource(c.Seed ^ 0x5f3759df))
	var copies0, reads0 = atomic.LoadInt64(ncopies), atomic.LoadInt64(nreads)
	do := func(n, sample, rounds int) {
		shapes, r := emitFilterShapes(c, n)
		*states += r.Distinct
		*trans += r.Generated
		total := len(shapes)
		all := shapes
		if sample > 0 && len(shapes) > sample {
			perm := rng.Perm(len(shapes))
			sel := make([]copyShape, sample)
			for i := range sel {
				sel[i] = shapes[perm[i]]
			}
			shapes = sel
		}
		// several seeded placements of the blocks and of the region per shape
		// the directed cases of this size first
		var directed []int
		for k := range c19fDirected {
			for i := range all {
				if fmt.Sprint(all[i].Par) == c19fDirected[k].par {
					directed = append(directed, k*len(all)+i)
				}
			}
		}
		parallel(len(directed), workers, func(wi, i int) {
			k, si := directed[i]/len(all), directed[i]%len(all)
			c19fShape(c, run, ws[wi].sess(), all[si], 1000+k, nreads, ncopies, &c19fDirected[k])
		})
		parallel(len(shapes)*rounds, workers, func(wi, i int) {
			c19fShape(c, run, ws[wi].sess(), shapes[i%len(shapes)], i, nreads, ncopies, nil)
		})
		*cfgs = append(*cfgs, fmt.Sprintf("KVCopyFilter N=%d: %d shapes x %d placements model-checked (Inv_C19_Filter), %d shapes x %d seeded (block placements, region placement) replayed with filter=roi:<roi>,<uuid> at every version of the region", n, total, pow3(n), len(shapes), rounds))
	}
	if c.thorough() {
		do(3, 0, 12)
		do(4, 0, 3)
	} else {
		do(3, 0, 3)
		do(4, 12, 1)
	}
	run.Set("filtered_copies_made", atomic.LoadInt64(ncopies)-copies0)
	run.Set("filtered_copy_reads", atomic.LoadInt64(nreads)-reads0)
	run.Set("filtered_copy_part_s", since(t0))
}

const c19FilterRule = "Filtered copies: specs/KVCopyFilter.tla (a block is copied iff it lies in the region as read at the version named in filter=roi:<roi>,<uuid>; Inv_C19_Filter: a kept datum reads like in the unfiltered copy, any other nothing at any version) is model-checked over the same shapes; per shape and seed a uint8blk|uint16blk source of four blocks in two Z layers with seeded conflict-free placements and an roi instance (one multi-block span + one block, three of the four blocks) with a seeded placement of its own (POST roi / DELETE roi / untouched per node) are built (plus directed cases, e.g. the upper Z layer written only in a branch that was not written last), datastore.CopyInstance is called with the filter naming the region at every version U (plain, and transmit=flatten at every / a seeded V), every copy and the source are read at every version; a filter naming a region of another block size must be refused."

var c19FilterAssume = []string{"filtered copies: the region is not in merge conflict at the version named in the filter; image blocks are written, never deleted"}
