package main

import (
	"encoding/json"
	"fmt"
	"sort"
	"strings"
	"time"

	"verifharness/internal/node"
	"verifharness/internal/snap"
)

// worldExt switches on the request kinds added to the workload for the growth of C03
// (GAPS.md C03-1, C03-3, C03-6, C07-6): synced instances, the requests that change persisted
// repository state and had never been followed by a restart, set-nextlabel, instance copies.
// All draws come from w.rng, so the same seed gives the same history on every node.
type worldExt struct {
	Synced    bool // annotation synced to the labelmap, labelsz synced to the annotation; voxels ingested right after the labelmap is created
	Admin     bool // deleterepo (+ newrepo re-using the deleted root UUID), rename, deletedata, tag, caller-assigned UUIDs, make-master, hide-branch
	NextLabel bool // POST set-nextlabel
	Copy      bool // datastore.CopyInstance of a keyvalue / roi / annotation instance
	MaxNodes  int  // cap on the versions of one repo (0 = 7)

	deletedRoots []string
	nassign      int
	ncopies      int
}

func (x *worldExt) maxNodes() int {
	if x.MaxNodes > 0 {
		return x.MaxNodes
	}
	return 7
}

// call executes a package-level entry point of the node and logs it like a request.
func (w *world) call(kind, fn string, args interface{}, result interface{}) (bool, error) {
	b, _ := json.Marshal(args)
	err := w.n.Call(fn, args, result)
	w.seq++
	op := wOp{Seq: w.seq, Kind: kind, Method: "CALL", URL: fn, Body: string(b), Status: 200}
	if err != nil {
		if !w.n.Alive() {
			return false, err
		}
		op.Status = 400
		op.Resp = err.Error()
		if len(op.Resp) > 300 {
			op.Resp = op.Resp[:300]
		}
	}
	w.log = append(w.log, op)
	return err == nil, nil
}

// refresh rebuilds the bookkeeping of a repo's versions from the server's DAG (after requests
// that rename or remove versions).  Label data follows the first parent.
func (w *world) refresh(r *wRepo) error {
	resp, err := w.n.HTTP("GET", "/api/repo/"+r.root+"/info", nil)
	if err != nil {
		return err
	}
	if resp.Status != 200 {
		return fmt.Errorf("repo info %s: %d", r.root, resp.Status)
	}
	var ri snap.RepoInfo
	if err := json.Unmarshal(resp.Bytes(), &ri); err != nil {
		return err
	}
	byV := map[int]string{}
	var vs []int
	for u, nd := range ri.DAG.Nodes {
		byV[nd.VersionID] = u
		vs = append(vs, nd.VersionID)
	}
	sort.Ints(vs)
	nodes := map[string]*wNode{}
	r.nodes = nil
	for _, v := range vs {
		nd := ri.DAG.Nodes[byV[v]]
		wn := &wNode{uuid: nd.UUID, locked: nd.Locked, branch: nd.Branch, kids: len(nd.Children), anc: map[string]bool{nd.UUID: true}}
		if len(nd.Parents) > 0 {
			if p := nodes[byV[nd.Parents[0]]]; p != nil {
				for a := range p.anc {
					wn.anc[a] = true
				}
			}
		}
		nodes[nd.UUID] = wn
		r.nodes = append(r.nodes, wn)
	}
	return nil
}

func (r *wRepo) instNamed(name string) *wInst {
	for _, i := range r.insts {
		if i.name == name {
			return i
		}
	}
	return nil
}

func (r *wRepo) openOrRoot(w *world) string {
	if o := r.open(); len(o) > 0 {
		return o[w.rng.Intn(len(o))].uuid
	}
	return r.root
}

// extCanCreate: the synced instances need their source, and the labelmap an open version to ingest at.
func (w *world) extCanCreate(r *wRepo, typ string) bool {
	switch typ {
	case "labelmap", "annotation", "labelsz":
		return len(r.open()) > 0
	}
	return true
}

// extAfterCreate ingests the voxels of a new labelmap (so that the instance never lives empty
// across a restart: that is the known finding, exercised by its own scenario) and sets up the syncs.
func (w *world) extAfterCreate(r *wRepo, in *wInst) error {
	o := r.open()
	if len(o) == 0 {
		return nil
	}
	switch in.typ {
	case "labelmap":
		if _, err := w.dataWrite(r, o[w.rng.Intn(len(o))], in); err != nil {
			return err
		}
		// the annotation synced to it and the labelsz synced to the annotation follow at once
		for r.ncreated < len(w.Types) && (w.Types[r.ncreated] == "annotation" || w.Types[r.ncreated] == "labelsz") {
			before := r.ncreated
			if err := w.createNext(r); err != nil {
				return err
			}
			if r.ncreated == before {
				break
			}
		}
		return nil
	case "annotation":
		if lm := r.inst("labelmap"); lm != nil {
			_, err := w.do("sync", "POST", "/api/node/"+o[0].uuid+"/"+in.name+"/sync", []byte(fmt.Sprintf(`{"sync":%q}`, lm.name)))
			return err
		}
	case "labelsz":
		if an := r.inst("annotation"); an != nil {
			_, err := w.do("sync", "POST", "/api/node/"+o[0].uuid+"/"+in.name+"/sync", []byte(fmt.Sprintf(`{"sync":%q}`, an.name)))
			return err
		}
	}
	return nil
}

// extAnnWrite: elements on the representative voxel of a region (so that label operations move
// them between bodies) or anywhere in the volume; deletes and moves of elements posted earlier.
func (w *world) extAnnWrite(r *wRepo, nd *wNode, in *wInst) (string, error) {
	base := "/api/node/" + nd.uuid + "/" + in.name
	g := worldGeom
	pos := func() [3]int {
		if w.rng.Intn(5) < 3 {
			return g.Point[w.rng.Intn(len(g.Point))]
		}
		return [3]int{g.Min[0] + w.rng.Intn(g.Size[0]), g.Min[1] + w.rng.Intn(g.Size[1]), g.Min[2] + w.rng.Intn(g.Size[2])}
	}
	key := func(p [3]int) string { return fmt.Sprintf("%d_%d_%d", p[0], p[1], p[2]) }
	if len(in.keys) > 0 {
		switch w.rng.Intn(6) {
		case 0:
			k := in.keys[w.rng.Intn(len(in.keys))]
			_, err := w.do("anndelete", "DELETE", base+"/element/"+k, nil)
			return "anndelete", err
		case 1:
			k := in.keys[w.rng.Intn(len(in.keys))]
			to := key(pos())
			_, err := w.do("annmove", "POST", base+"/move/"+k+"/"+to, nil)
			in.keys = append(in.keys, to)
			return "annmove", err
		}
	}
	kinds := []string{"PostSyn", "PreSyn", "Note"}
	var els []map[string]interface{}
	var ps [][3]int
	for i := 0; i < 1+w.rng.Intn(3); i++ {
		ps = append(ps, pos())
	}
	for i, p := range ps {
		el := map[string]interface{}{
			"Pos":  []int{p[0], p[1], p[2]},
			"Kind": kinds[w.rng.Intn(3)], "Tags": []string{fmt.Sprintf("t%d", w.rng.Intn(3))},
			"Prop": map[string]string{"p": fmt.Sprint(w.seq)}}
		if i > 0 && el["Kind"] != "Note" {
			q := ps[i-1]
			el["Rels"] = []map[string]interface{}{{"Rel": "PostSynTo", "To": []int{q[0], q[1], q[2]}}}
		}
		els = append(els, el)
		if len(in.keys) < 24 {
			in.keys = append(in.keys, key(p))
		}
	}
	b, _ := json.Marshal(els)
	_, err := w.do("annpost", "POST", base+"/elements", b)
	return "annpost", err
}

func (w *world) assignedUUID() string {
	w.X.nassign++
	return fmt.Sprintf("%08x%08x%016x", 0xabcd0000+w.X.nassign, uint32(w.seq), uint64(w.rng.Int63()))
}

// extNewRepo: a new repo, sometimes with a caller-assigned root UUID: a fresh one or the
// root UUID of a repo deleted earlier.
func (w *world) extNewRepo() (string, error) {
	m := map[string]string{"alias": fmt.Sprintf("r%d", w.seq), "description": "d"}
	kind := "newrepo"
	switch c := w.rng.Intn(4); {
	case len(w.X.deletedRoots) > 0 && c <= 1:
		m["root"] = w.X.deletedRoots[len(w.X.deletedRoots)-1]
		w.X.deletedRoots = w.X.deletedRoots[:len(w.X.deletedRoots)-1]
		kind = "newrepo-reuse"
	case c == 2:
		m["root"] = w.assignedUUID()
		kind = "newrepo-assigned"
	}
	b, _ := json.Marshal(m)
	resp, err := w.do(kind, "POST", "/api/repos", b)
	if err != nil {
		return "", err
	}
	if resp.Status != 200 {
		if kind == "newrepo" {
			return "", fmt.Errorf("newrepo: %d %s", resp.Status, resp.Bytes())
		}
		return kind, nil // a refusal is an outcome of the history (same on every node)
	}
	var out struct{ Root string }
	json.Unmarshal(resp.Bytes(), &out)
	w.repos = append(w.repos, &wRepo{root: out.Root, nodes: []*wNode{{uuid: out.Root, anc: map[string]bool{out.Root: true}}}})
	return kind, nil
}

// waitGone waits for the asynchronous deletion of a data instance to finish: the instance has left
// the repo's listing (it does so as soon as it is marked deleted) and the goroutine has saved the
// repo (the REPO write shows in the store-write trace, which the caller switched on before the request).
func (w *world) waitGone(root, name string) error {
	deadline := time.Now().Add(60 * time.Second)
	saved := false
	for {
		raw, err := w.n.WTrace(false)
		if err != nil {
			return err
		}
		for _, c := range metadataWrites(raw) {
			if c == "REPO" {
				saved = true
			}
		}
		resp, err := w.n.HTTP("GET", "/api/repo/"+root+"/info", nil)
		if err != nil {
			return err
		}
		var ri snap.RepoInfo
		json.Unmarshal(resp.Bytes(), &ri)
		_, found := ri.DataInstances[name]
		if !found && saved {
			return nil
		}
		if time.Now().After(deadline) {
			return fmt.Errorf("deletion of instance %s not finished 60 s after its acknowledgement (listed: %v, repo saved: %v)", name, found, saved)
		}
		time.Sleep(2 * time.Millisecond)
	}
}

// settleWrites waits until the store-write counter has not moved for 30 ms (at most 10 s).
func settleWrites(n *node.Node) error {
	last, err := n.Count()
	if err != nil {
		return err
	}
	quiet := 0
	for deadline := time.Now().Add(10 * time.Second); quiet < 3 && time.Now().Before(deadline); {
		time.Sleep(10 * time.Millisecond)
		c, err := n.Count()
		if err != nil {
			return err
		}
		if c == last {
			quiet++
		} else {
			quiet, last = 0, c
		}
	}
	return nil
}

// extStep draws one of the added request kinds; handled=false hands the step to the original switch.
func (w *world) extStep(r *wRepo) (kind string, handled bool, err error) {
	x := w.X
	k := w.rng.Intn(100)
	if k >= 60 {
		return "", false, nil
	}
	handled = true
	switch {
	case k >= 26: // more data writes than the original mix has, mostly on the synced instances
		o := r.open()
		if len(o) == 0 || len(r.insts) == 0 {
			return "", true, nil
		}
		var cand []*wInst
		for _, in := range r.insts {
			wgt := 1
			switch in.typ {
			case "labelmap":
				wgt = 3
			case "annotation":
				wgt = 4
			case "labelsz":
				wgt = 0
			}
			for i := 0; i < wgt; i++ {
				cand = append(cand, in)
			}
		}
		if len(cand) == 0 {
			return "", true, nil
		}
		in := cand[w.rng.Intn(len(cand))]
		nd := o[w.rng.Intn(len(o))]
		if lm := r.inst("labelmap"); lm != nil && lm.ingestAt != "" && (in.typ == "labelmap" || in.typ == "annotation") {
			// where the voxels are visible
			var vis []*wNode
			for _, cnd := range o {
				if cnd.anc[lm.ingestAt] {
					vis = append(vis, cnd)
				}
			}
			if len(vis) > 0 {
				nd = vis[w.rng.Intn(len(vis))]
			}
		}
		kind, err := w.dataWrite(r, nd, in)
		return kind, true, err
	case k < 2 && x.Admin: // deleterepo
		if len(w.repos) < 2 {
			return "", true, nil
		}
		ok, err := w.call("deleterepo", "ds.deleterepo", map[string]string{"UUID": r.root}, nil)
		if err != nil {
			return "", true, err
		}
		if ok {
			x.deletedRoots = append(x.deletedRoots, r.root)
			for i, q := range w.repos {
				if q == r {
					w.repos = append(w.repos[:i], w.repos[i+1:]...)
					break
				}
			}
			// the instances' keys are deleted by goroutines no request waits for; nothing observable
			// depends on them (instance ids are never reused); the server counts as idle again when
			// the store-write counter has stopped moving
			if err := settleWrites(w.n); err != nil {
				return "", true, err
			}
		}
		return "deleterepo", true, nil
	case k < 5 && x.Admin: // rename an instance
		if len(r.insts) == 0 {
			return "", true, nil
		}
		in := r.insts[w.rng.Intn(len(r.insts))]
		nn := in.name + "n"
		if strings.HasSuffix(in.name, "n") {
			nn = strings.TrimSuffix(in.name, "n")
		}
		ok, err := w.call("rename", "ds.rename", map[string]string{"UUID": r.root, "Old": in.name, "New": nn}, nil)
		if err != nil {
			return "", true, err
		}
		if ok {
			in.name = nn
		}
		return "rename", true, nil
	case k < 7 && x.Admin: // delete an instance nothing is synced to
		var cand []*wInst
		for _, in := range r.insts {
			switch in.typ {
			case "keyvalue", "roi", "neuronjson", "uint8blk", "labelsz":
				cand = append(cand, in)
			}
		}
		if len(cand) == 0 || len(r.insts) < 4 {
			return "", true, nil
		}
		in := cand[w.rng.Intn(len(cand))]
		if _, err := w.n.WTrace(true); err != nil {
			return "", true, err
		}
		ok, err := w.call("deletedata", "ds.deletedata", map[string]string{"UUID": r.root, "Name": in.name}, nil)
		if err != nil {
			return "", true, err
		}
		if ok {
			if err := w.waitGone(r.root, in.name); err != nil {
				return "", true, err
			}
			for i, q := range r.insts {
				if q == in {
					r.insts = append(r.insts[:i], r.insts[i+1:]...)
					break
				}
			}
		}
		return "deletedata", true, nil
	case k < 10 && x.Admin: // tag a committed version
		c := r.committed()
		if len(c) == 0 || len(r.nodes) >= x.maxNodes() {
			return "", true, nil
		}
		p := c[w.rng.Intn(len(c))]
		x.nassign++
		tag := fmt.Sprintf("tagv%dx%d", x.nassign, w.seq)
		resp, err := w.do("tag", "POST", "/api/node/"+p.uuid+"/tag", []byte(fmt.Sprintf(`{"tag":%q,"note":"tagged %d"}`, tag, w.seq)))
		if err != nil {
			return "", true, err
		}
		if resp.Status == 200 {
			if err := w.refresh(r); err != nil {
				return "", true, err
			}
		}
		return "tag", true, nil
	case k < 13 && x.Admin: // child version with a caller-assigned UUID
		c := r.committed()
		if len(c) == 0 || len(r.nodes) >= x.maxNodes() {
			return "", true, nil
		}
		p := c[w.rng.Intn(len(c))]
		u := w.assignedUUID()
		var body, url string
		if p.kids > 0 || w.rng.Intn(2) == 0 {
			r.nbr++
			url = "/api/node/" + p.uuid + "/branch"
			body = fmt.Sprintf(`{"branch":"br%d","note":"a%d","uuid":%q}`, r.nbr, w.seq, u)
		} else {
			url = "/api/node/" + p.uuid + "/newversion"
			body = fmt.Sprintf(`{"note":"a%d","uuid":%q}`, w.seq, u)
		}
		resp, err := w.do("newversion-assigned", "POST", url, []byte(body))
		if err != nil {
			return "", true, err
		}
		if resp.Status == 200 {
			if err := w.refresh(r); err != nil {
				return "", true, err
			}
		}
		return "newversion-assigned", true, nil
	case k < 15 && x.Admin: // make-master: a version branched directly off master that has a master sibling
		var cand []*wNode
		for _, nd := range r.nodes {
			if nd.branch != "" && !strings.HasPrefix(nd.branch, "tag-") {
				cand = append(cand, nd)
			}
		}
		if len(cand) == 0 {
			return "", true, nil
		}
		nd := cand[w.rng.Intn(len(cand))]
		r.nbr++
		ok, err := w.call("makemaster", "ds.makemaster", map[string]string{"UUID": nd.uuid, "OldMasterName": fmt.Sprintf("was%d", r.nbr)}, nil)
		if err != nil {
			return "", true, err
		}
		if ok {
			if err := w.refresh(r); err != nil {
				return "", true, err
			}
		}
		return "makemaster", true, nil
	case k < 17 && x.Admin: // hide-branch
		names := map[string]bool{}
		for _, nd := range r.nodes {
			if nd.branch != "" {
				names[nd.branch] = true
			}
		}
		// keep the versions the label data was ingested at
		for _, in := range r.insts {
			for _, nd := range r.nodes {
				if nd.uuid == in.ingestAt {
					delete(names, nd.branch)
				}
			}
		}
		if len(names) == 0 {
			return "", true, nil
		}
		var nl []string
		for b := range names {
			nl = append(nl, b)
		}
		sort.Strings(nl)
		b := nl[w.rng.Intn(len(nl))]
		ok, err := w.call("hidebranch", "ds.hidebranch", map[string]string{"UUID": r.root, "Branch": b}, nil)
		if err != nil {
			return "", true, err
		}
		if ok {
			if err := w.refresh(r); err != nil {
				return "", true, err
			}
		}
		return "hidebranch", true, nil
	case k < 20 && x.NextLabel:
		lm := r.inst("labelmap")
		o := r.open()
		if lm == nil || len(o) == 0 {
			return "", true, nil
		}
		_, err := w.do("setnextlabel", "POST", fmt.Sprintf("/api/node/%s/%s/set-nextlabel/%d", o[w.rng.Intn(len(o))].uuid, lm.name, 5000+10*w.seq), nil)
		return "setnextlabel", true, err
	case k >= 23 && k < 25 && x.Admin: // resolve: the listed instances' conflicts between two committed versions are settled by deletions in extension nodes, then merged
		c := r.committed()
		if len(c) < 2 || len(r.nodes)+3 > x.maxNodes() {
			return "", true, nil
		}
		var names []string
		for _, in := range r.insts {
			if in.typ == "keyvalue" || in.typ == "roi" {
				names = append(names, in.name)
			}
		}
		a, b := w.rng.Intn(len(c)), w.rng.Intn(len(c))
		if a == b || len(names) == 0 {
			return "", true, nil
		}
		body, _ := json.Marshal(map[string]interface{}{"data": names, "parents": []string{c[a].uuid, c[b].uuid}, "note": fmt.Sprintf("resolved %d", w.seq)})
		if _, err := w.do("resolve", "POST", "/api/repo/"+r.root+"/resolve", body); err != nil {
			return "", true, err
		}
		// accepted or refused, extension nodes may have been added
		if err := w.refresh(r); err != nil {
			return "", true, err
		}
		return "resolve", true, nil
	case k < 23 && x.Copy:
		var cand []*wInst
		for _, in := range r.insts {
			switch in.typ {
			case "keyvalue", "roi", "annotation":
				if !strings.Contains(in.name, "c") {
					cand = append(cand, in)
				}
			}
		}
		if len(cand) == 0 || x.ncopies >= 2 {
			return "", true, nil
		}
		in := cand[w.rng.Intn(len(cand))]
		x.ncopies++
		target := fmt.Sprintf("%sc%d", in.name[:2], x.ncopies)
		var out struct {
			Err   string `json:"err"`
			Panic string `json:"panic"`
		}
		ok, err := w.call("copy", "copy.instance", map[string]interface{}{"uuid": r.root, "source": in.name, "target": target, "config": map[string]string{}}, &out)
		if err != nil {
			return "", true, err
		}
		if out.Panic != "" {
			return "", true, fmt.Errorf("copy.instance panicked: %s", out.Panic)
		}
		if ok && out.Err == "" {
			cp := &wInst{name: target, typ: in.typ, tags: map[string]string{}}
			for k, v := range in.tags {
				cp.tags[k] = v
			}
			cp.keys = append(cp.keys, in.keys...)
			r.insts = append(r.insts, cp)
		}
		return "copy", true, nil
	}
	return "", false, nil
}

// extSnapOptions adds the reads of the synced instances and the log-derived reads.
func (w *world) extSnapOptions(o *snap.Options) {
	o.AnnLabels, o.AnnTags, o.SzLabels = map[string][]uint64{}, map[string][]string{}, map[string][]uint64{}
	o.LogReads = true
	o.RawLZ4 = true
	o.AnnBox = [2]string{"256_256_256", "-128_-128_-128"}
	for _, r := range w.repos {
		var labels []uint64
		if lm := r.inst("labelmap"); lm != nil {
			labels = lm.labels
		}
		for _, in := range r.insts {
			switch in.typ {
			case "annotation":
				o.AnnLabels[in.name] = labels
				o.AnnTags[in.name] = []string{"t0", "t1", "t2"}
			case "labelsz":
				o.SzLabels[in.name] = labels
			}
		}
	}
}
