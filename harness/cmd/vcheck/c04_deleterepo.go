package main

// C04: crash points inside the deletion of a repository (datastore.DeleteRepo, the `repos
// delete` command).  Model: DeleteRepoProg in specs/DvidPersist.tla, explored with a bystander
// repo by DvidPersistDel_mc (Crash between any two steps, Recover, second crash): the loader
// must start from every crash state, the repo is entirely present or entirely absent, the
// bystander keeps every acknowledged fact.  Replay: a process exit before / after every store
// write of the deletion on a server holding two repos with data; a new process must start, the
// metadata must be well formed, the full snapshot must equal the one before the deletion or
// the one after the completed deletion; then a repo is created and must survive one more
// restart unchanged.

import (
	"encoding/json"
	"fmt"
	"strings"
	"sync/atomic"
	"time"

	"verifharness/internal/dagm"
	"verifharness/internal/ev"
	"verifharness/internal/node"
	"verifharness/internal/snap"
	"verifharness/internal/tlc"
)

func deleteRepoModel(c *Ctx) (int64, int64) {
	cfg := func(override string) string {
		// (a crash needs the persisted-ahead mutation id <= MaxMut: MaxMut = Stride allows one crash,
		// 2 x Stride a second one inside the recovery)
		return fmt.Sprintf("SPECIFICATION SpecDel\nCONSTANTS\n  MaxVersions = 3\n  MaxRepos = 2\n  MaxInsts = 0\n  MaxMut = %d\n  Stride = 2\n  MaxCrashes = %d\n  MaxAdmin = 1\n%sINVARIANTS Inv_C04_StartupSucceeds Inv_C04_Recoverable Inv_C12_CountersAhead\nCHECK_DEADLOCK FALSE\n",
			c.pick(2, 4), c.pick(1, 2), override)
	}
	r := c.MustModelCheck(tlc.Opts{Module: "DvidPersistDel_mc", Config: "gen_del.cfg", Files: map[string][]byte{"gen_del.cfg": []byte(cfg(""))}, Timeout: 20 * time.Minute})
	// vacuity guard: with the blob deleted last the specification itself must fail to start up
	bad := c.RunTLC(tlc.Opts{Module: "DvidPersistDel_mc", Config: "gen_delbad.cfg", Workers: 2,
		Files: map[string][]byte{"gen_delbad.cfg": []byte(cfg("  DeleteRepoProg <- DeleteRepoProgBlobLast\n"))}, Timeout: 10 * time.Minute})
	if bad.OK || !strings.Contains(bad.Violation+bad.Output, "Inv_C04_StartupSucceeds is violated") {
		infra("DvidPersistDel_mc: deleting the repo blob last does not violate Inv_C04_StartupSucceeds (the invariant is vacuous): %s", bad.Tail(800))
	}
	return r.Distinct, r.Generated
}

func deleteRepoCrash(c *Ctx, run *ev.Run, seed int64, table map[string][]string) int64 {
	// the history: two repos, each with a keyvalue instance holding data from the start, plus
	// seeded workload steps on both
	build := func(n *node.Node) (*world, int) {
		w := c04World(n, seed+7)
		seedData := func(wr *wRepo) {
			root := wr.root
			if o := wr.open(); len(o) > 0 {
				root = o[0].uuid // (an instance is created, and data written, at an open node)
			} else {
				r, err := n.HTTP("POST", "/api/node/"+wr.committed()[0].uuid+"/branch", []byte(`{"branch":"xdata"}`))
				must(err, "branch")
				var o struct{ Child string }
				json.Unmarshal(r.Bytes(), &o)
				if r.Status != 200 || o.Child == "" {
					infra("repo-deletion crash: branch refused: %d %s", r.Status, r.Bytes())
				}
				root = o.Child
			}
			r, err := n.HTTP("POST", "/api/repo/"+root+"/instance", []byte(`{"typename":"keyvalue","dataname":"xkv"}`))
			must(err, "new instance")
			if r.Status != 200 {
				infra("repo-deletion crash: instance creation refused: %d %s", r.Status, r.Bytes())
			}
			for k := 0; k < 3; k++ {
				r, err = n.HTTP("POST", fmt.Sprintf("/api/node/%s/xkv/key/x%d", root, k), []byte(fmt.Sprintf("\"kept %d\"", k)))
				must(err, "put key")
				if r.Status != 200 {
					infra("repo-deletion crash: key write refused: %d %s", r.Status, r.Bytes())
				}
			}
		}
		steps := func(k int) {
			for i := 0; i < k; {
				kind, err := w.step()
				must(err, "world step")
				if kind == "" {
					continue
				}
				must(n.Idle(), "idle")
				i++
			}
		}
		_, err := w.newRepo()
		must(err, "newrepo")
		seedData(w.repos[0])
		steps(8)
		if len(w.repos) < 2 {
			_, err := w.newRepo()
			must(err, "newrepo")
		}
		seedData(w.repos[1])
		steps(14)
		return w, len(w.repos[1].insts) + 1
	}
	listed := func(n *node.Node, root string) bool {
		r, err := n.HTTP("GET", "/api/repos/info", nil)
		if err != nil {
			return true
		}
		return strings.Contains(string(r.Bytes()), `"`+root+`"`)
	}
	// settle waits until the background key deletions of the repo's instances have stopped writing
	settle := func(n *node.Node) bool {
		last, stable := uint64(0), 0
		for i := 0; i < 4000 && stable < 25; i++ {
			cnt, err := n.Count()
			if err != nil {
				return false
			}
			if cnt == last {
				stable++
			} else {
				stable, last = 0, cnt
			}
			time.Sleep(2 * time.Millisecond)
		}
		return true
	}
	var before, after *snap.Snap
	var writes []crashWrite
	{
		n := c.StartNode(node.Config{})
		w, _ := build(n)
		victim := w.repos[1].root
		var err error
		before, err = snap.TakeCanon(n, c04SnapOpts())
		must(err, "snapshot")
		n.WTrace(true)
		must(n.Call("ds.deleterepo", map[string]string{"UUID": victim, "Passcode": ""}, nil), "delete repo")
		if listed(n, victim) {
			infra("repo %s still listed after its acknowledged deletion", victim)
		}
		settle(n)
		raw, _ := n.WTrace(false)
		json.Unmarshal(raw, &writes)
		after, err = snap.TakeCanon(n, c04SnapOpts())
		must(err, "snapshot")
		// the metadata writes of the request are the specification's program
		got := metadataWrites(raw)
		run.Eval("writes|deleterepo")
		if strings.Join(got, ",") != strings.Join(table["deleterepo"], ",") {
			run.Violation("c04-writes", map[string]interface{}{"kind": "store-write-sequence", "request": "deleterepo", "spec_writes": table["deleterepo"], "observed_writes": got})
		}
		// a restart after the completed deletion changes nothing
		must(n.Restart(false), "restart")
		again, err := snap.TakeCanon(n, c04SnapOpts())
		must(err, "snapshot")
		if d := snap.Diff(after, again); len(d) > 0 {
			run.Violation("c04", c04Divergence{Kind: "acknowledged-repo-deletion-changes-after-restart", Seed: seed, Diffs: d, History: w.log})
		}
		c.DropNode(n)
		run.Sample(map[string]interface{}{"repo_deletion_writes": writes, "specification_program": table["deleterepo"]})
	}
	type pt struct {
		k     int
		after bool
	}
	var pts []pt
	for k := 1; k <= len(writes); k++ {
		pts = append(pts, pt{k, false}, pt{k, true})
	}
	var nruns int64
	parallel(len(pts), 8, func(_, i int) {
		p := pts[i]
		when := "before"
		if p.after {
			when = "after"
		}
		n := c.StartNode(node.Config{})
		defer c.DropNode(n)
		w, _ := build(n)
		victim := w.repos[1].root
		div := c04Divergence{Seed: seed, CrashWrite: uint64(p.k), When: when, Interrupted: fmt.Sprintf("deletion of repo %s (write %d of the deletion), bystander repo %s", victim, p.k, w.repos[0].root)}
		if p.k-1 < len(writes) {
			div.Interrupted += fmt.Sprintf("; in the reference run this write was %s %s", writes[p.k-1].Op, writes[p.k-1].Class)
		}
		must(n.Arm(uint64(p.k), p.after), "arm")
		err := n.Call("ds.deleterepo", map[string]string{"UUID": victim, "Passcode": ""}, nil)
		if err != nil && err != node.ErrDead && n.Alive() {
			must(err, "delete repo")
		}
		if n.Alive() {
			settle(n) // the crash point may lie in the background key deletions
		}
		if n.Alive() {
			if _, err := n.Do(node.Req{Op: "disarm"}); err == nil && n.Alive() {
				return // fewer writes than in the reference run
			}
		}
		n.WaitExit(10 * time.Second)
		if err := n.Restart(false); err != nil {
			if strings.Contains(err.Error(), "timeout") {
				infra("restart after a crash: %v", err)
			}
			div.Kind = "startup-failed-after-crash"
			div.Diffs = []string{err.Error()}
			div.History = w.log
			run.Violation("c04", div)
			return
		}
		atomic.AddInt64(&nruns, 1)
		var repos map[string]dagm.RepoInfo
		r, err := n.HTTP("GET", "/api/repos/info", nil)
		must(err, "repos info")
		json.Unmarshal(r.Bytes(), &repos)
		if wf := dagm.WellFormed(repos); len(wf) > 0 {
			div.Kind = "metadata-not-well-formed-after-recovery"
			div.Diffs = wf
			div.History = w.log
			run.Violation("c04", div)
			return
		}
		got, err := snap.TakeCanon(n, c04SnapOpts())
		must(err, "snapshot")
		outcome := ""
		db := snap.Diff(before, got)
		if len(db) == 0 {
			outcome = "present"
		} else if da := snap.Diff(after, got); len(da) == 0 {
			outcome = "absent"
		} else {
			div.Kind = "interrupted-repo-deletion-neither-present-nor-absent"
			if len(db) > 8 {
				db = db[:8]
			}
			div.Diffs = db
			div.History = w.log
			run.Violation("c04", div)
			return
		}
		// a repo created after the recovery survives one more restart
		r, err = n.HTTP("POST", "/api/repos", []byte(`{"alias":"afterwards","description":"created after the recovery"}`))
		must(err, "newrepo")
		if r.Status != 200 {
			div.Kind = "repo-creation-refused-after-recovery"
			div.Diffs = []string{fmt.Sprintf("status %d %s", r.Status, r.Bytes())}
			run.Violation("c04", div)
			return
		}
		s1, err := snap.TakeCanon(n, c04SnapOpts())
		must(err, "snapshot")
		if err := n.Restart(false); err != nil {
			if strings.Contains(err.Error(), "timeout") {
				infra("restart: %v", err)
			}
			div.Kind = "startup-failed-after-recovery-and-repo-creation"
			div.Diffs = []string{err.Error()}
			run.Violation("c04", div)
			return
		}
		s2, err := snap.TakeCanon(n, c04SnapOpts())
		must(err, "snapshot")
		if d := snap.Diff(s1, s2); len(d) > 0 {
			div.Kind = "repo-created-after-recovery-changes-on-restart"
			div.Diffs = d
			run.Violation("c04", div)
			return
		}
		run.Eval(fmt.Sprintf("deleterepo|w%d|%s|%s", p.k, when, outcome))
	})
	run.Set("repo_deletion_writes", len(writes))
	run.Set("repo_deletion_crash_runs", nruns)
	return nruns
}
