package main

// Property C19, store migration: datastore.MigrateInstance with transmit=all, transmit=flatten
// and transmit=<list of versions> (datastore/copy_local.go: MigrateInstance, copyData,
// copyVersions, calcVersionPath) and datastore.MigrateBatch.
//
// specs/KVMigrate.tla states what the destination store holds for each mode and model-checks
// the claims (reads kept at every version / at the flattened version and its descendants / at
// every listed version of a documented list); TLC prints, per DAG shape, the documented lists,
// the source's reads and the origin of every entry the destination must hold.  This file
// builds each shape on a node with two stores, migrates, restarts the node with the instance
// assigned to the destination store (the documented procedure) and compares every read and
// the raw content of the destination store with what TLC printed.

import (
	"encoding/hex"
	"encoding/json"
	"fmt"
	"math/rand"
	"path/filepath"
	"sort"
	"strings"
	"sync/atomic"
	"time"

	"verifharness/internal/dagm"
	"verifharness/internal/ev"
	"verifharness/internal/node"
	"verifharness/internal/tlc"
)

// migShape is one line printed by KVMigrate.EmitMigrate.
type migShape struct {
	Par     [][]int   `json:"par"`
	Lists   [][]int   `json:"lists"`   // documented lists (ascending)
	CRead   [][]int   `json:"cread"`   // [i][v-1]: value class the source reads for coloured placement qseq[i] (0 none, -1 conflict)
	CNode   [][]int   `json:"cnode"`   // [i][v-1]: node whose entry that read finds
	Store   [][][]int `json:"store"`   // [l][i][u-1]: source node whose entry the destination holds at u after transmit=Lists[l] (0 none)
	Outside int       `json:"outside"` // (list, placement) pairs outside the documented promise whose listed reads differ
	Read    [][]int   `json:"read"`    // [p][v-1]: all-different placements, as KVCopy
	Built   []int     `json:"built"`
	Strict  []int     `json:"strict"`
	Desc    [][]int   `json:"desc"`
}

func pow4(k int) int { return 1 << (2 * uint(k)) }

func digit4(q, k int) int { return (q / pow4(k-1)) % 4 }

// colouredString: digit k = entry at node k: 0 none, A/B value of class 1/2, x tombstone
func colouredString(q, n int) string {
	var sb strings.Builder
	for k := 1; k <= n; k++ {
		sb.WriteByte("0AxB"[digit4(q, k)])
	}
	return sb.String()
}

func emitMigShapes(c *Ctx, n, maxParents int, qseq []int, sampleOnly, countOutside bool) ([]migShape, *tlc.Result) {
	var sb strings.Builder
	sb.WriteString("---- MODULE KVMigrate_gen ----\nEXTENDS KVMigrate\nGenQ == <<")
	for i, q := range qseq {
		if i > 0 {
			sb.WriteString(", ")
		}
		fmt.Fprintf(&sb, "%d", q)
	}
	sb.WriteString(">>\n====\n")
	b2s := map[bool]string{true: "TRUE", false: "FALSE"}
	cfg := fmt.Sprintf("SPECIFICATION Spec\nCONSTANTS\n  N = %d\n  MaxParents = %d\n  LastMergeOnly = FALSE\n  LastFoundBug = FALSE\n  SampleOnly = %s\n  CountOutside = %s\n  QSeq <- GenQ\n"+
		"INVARIANTS Inv_C19_MigAll Inv_C19_MigFlat Inv_C19_MigList Inv_C19_MigListNoConflict Inv_C19_MigListShape Inv_C19_MigListSingle EmitMigrate\nCHECK_DEADLOCK FALSE\n",
		n, maxParents, b2s[sampleOnly], b2s[countOutside])
	r := c.MustModelCheck(tlc.Opts{Module: "KVMigrate_gen", Config: "gen_migrate.cfg",
		Files:   map[string][]byte{"KVMigrate_gen.tla": []byte(sb.String()), "gen_migrate.cfg": []byte(cfg)},
		Timeout: 40 * time.Minute, HeapGB: 12})
	var out []migShape
	PrintedJSON(r.Output, func(raw []byte) {
		var s migShape
		if err := json.Unmarshal(raw, &s); err == nil && len(s.Par) == n && len(s.Desc) == n && len(s.CRead) == len(qseq) &&
			len(s.CNode) == len(qseq) && len(s.Store) == len(s.Lists) && len(s.Read) == pow3(n) && len(s.Lists) > 0 {
			out = append(out, s)
		}
	})
	if len(out) == 0 {
		infra("KVMigrate emitted nothing:\n%s", r.Tail(2000))
	}
	sort.Slice(out, func(i, j int) bool { return fmt.Sprint(out[i].Par) < fmt.Sprint(out[j].Par) })
	return out, r
}

type migRaw struct {
	TKey string `json:"tkey"`
	V    uint32 `json:"v"`
	UUID string `json:"uuid"`
	Tomb bool   `json:"tomb"`
	Val  []byte `json:"val"`
}

type migDump struct {
	Assigned string   `json:"assigned"`
	ID       uint32   `json:"id"`
	Entries  []migRaw `json:"entries"`
	Bad      []string `json:"bad"`
}

func (e migRaw) String() string {
	k := "value"
	if e.Tomb {
		k = "tombstone"
	}
	return fmt.Sprintf("%s@%s %s %q", e.TKey, e.UUID, k, e.Val)
}

type migMode struct {
	kind string // all | flatten | list
	V    int    // flatten: node
	li   int    // list: index into migShape.Lists
}

type migSource struct {
	typ      *c19Type
	inst     string
	coloured bool
	qi       []int // coloured: row of cread/cnode/store per datum
	qs       []int // coloured: placement number per datum
	repr     [][2]string
	pls      []int // all-different placements (base 3) per datum
	presence bool
	meta     int
	modes    []migMode
	before   migDump
	tkeys    []string // coloured: hex type-specific key per datum
}

func (src *migSource) nd() int {
	if src.coloured {
		return len(src.qs)
	}
	return len(src.pls)
}

// op: what is done to datum j at node k: 0 nothing, 1 write, 2 delete
func (src *migSource) op(j, k int) int {
	if src.coloured {
		switch digit4(src.qs[j], k) {
		case 1, 3:
			return 1
		case 2:
			return 2
		}
		return 0
	}
	return digit(src.pls[j], k)
}

// exp: what the source reads for datum j at node v (TLC's table)
func (src *migSource) exp(sh *migShape, j, v int) int {
	if src.coloured {
		return sh.CRead[src.qi[j]][v-1]
	}
	return sh.Read[src.pls[j]][v-1]
}

func (src *migSource) placement(j, n int) string {
	if src.coloured {
		return colouredString(src.qs[j], n) + fmt.Sprintf(" A=%q B=%q", src.repr[j][0], src.repr[j][1])
	}
	return placementString(src.pls[j], n)
}

func migKey(j int) string { return fmt.Sprintf("k%03d", j) }

// migColouredKV is a keyvalue instance whose datum j follows the coloured placement qs[j]; the
// value of class c of datum j is repr[j][c-1] (a trivial refinement: the specification only
// knows which written values are equal).  A value of zero bytes is written through
// keyvalue.Data.PutData; GET .../key answers 404 for it while GET .../keys lists the key, so
// such a datum is observed through the listing (instances holding one have no merge conflicts,
// which would make the listing fail).
func migColouredKV(qs []int, repr [][2]string) *c19Type {
	return &c19Type{name: "ckv", typename: "keyvalue", canDel: true,
		write: func(n *node.Node, u, inst string, j, k int) error {
			val := repr[j][0]
			if digit4(qs[j], k) == 3 {
				val = repr[j][1]
			}
			if val == "" {
				return n.Call("kv.putdata", map[string]interface{}{"uuid": u, "name": inst, "key": migKey(j), "value": []byte{}}, nil)
			}
			r, err := n.HTTP("POST", fmt.Sprintf("/api/node/%s/%s/key/%s", u, inst, migKey(j)), []byte(val))
			return okStatus(r, err, "POST key")
		},
		del: func(n *node.Node, u, inst string, j int) error {
			r, err := n.HTTP("DELETE", fmt.Sprintf("/api/node/%s/%s/key/%s", u, inst, migKey(j)), nil)
			return okStatus(r, err, "DELETE key")
		},
		read: func(n *node.Node, u, inst string, nd int, listing bool) ([]int, string, error) {
			out := make([]int, nd)
			var obs []string
			clean := true
			for j := 0; j < nd; j++ {
				r, err := n.HTTP("GET", fmt.Sprintf("/api/node/%s/%s/key/%s", u, inst, migKey(j)), nil)
				if err != nil {
					return nil, "", err
				}
				switch {
				case r.Status == 404:
					out[j] = 0
				case r.Status == 200:
					b := string(r.Bytes())
					switch {
					case b != "" && b == repr[j][0]:
						out[j] = 1
					case b != "" && b == repr[j][1]:
						out[j] = 2
					default:
						out[j] = -2
						obs = append(obs, fmt.Sprintf("%s=%q", migKey(j), b))
					}
				default:
					out[j] = -1
				}
				clean = clean && out[j] >= 0
			}
			if clean && listing {
				r, err := n.HTTP("GET", fmt.Sprintf("/api/node/%s/%s/keys", u, inst), nil)
				if err != nil {
					return nil, "", err
				}
				got, perr := parseJSONKeys(r.Bytes())
				listed := map[string]bool{}
				for _, k := range got {
					listed[k] = true
				}
				bad := r.Status != 200 || perr != nil
				nknown := 0
				for j := 0; j < nd && !bad; j++ {
					in := listed[migKey(j)]
					if in {
						nknown++
					}
					switch {
					case out[j] > 0 && !in:
						bad = true
					case out[j] == 0 && in && repr[j][0] == "":
						out[j] = 1
					case out[j] == 0 && in && repr[j][1] == "":
						out[j] = 2
					case out[j] == 0 && in:
						bad = true
					}
				}
				if bad || nknown != len(got) {
					obs = append(obs, fmt.Sprintf("keys=%d:%.300s inconsistent with the point reads %v", r.Status, r.Bytes(), out))
					for j := range out {
						out[j] = -3
					}
				}
			}
			return out, strings.Join(obs, "; "), nil
		}}
}

type migCounters struct {
	reads, migrations, rawCompared, restarts, batches int64
	modes                                             map[string]*int64
}

type migDivergence struct {
	Kind      string      `json:"kind"`
	Par       [][]int     `json:"par"`
	Datatype  string      `json:"datatype"`
	Instance  string      `json:"instance"`
	Mode      string      `json:"mode"`
	Order     string      `json:"order,omitempty"` // "migrate, then restart onto the destination" or "instance already on the destination"
	Placement string      `json:"placement,omitempty"`
	Datum     int         `json:"datum,omitempty"`
	Query     int         `json:"query_node,omitempty"`
	Expected  interface{} `json:"expected"`
	Observed  interface{} `json:"observed"`
	UUIDs     []string    `json:"uuids,omitempty"`
	Script    []dagm.Step `json:"script,omitempty"`
}

func migModeString(sh *migShape, m migMode) string {
	switch m.kind {
	case "all":
		return "transmit=all"
	case "flatten":
		return fmt.Sprintf("transmit=flatten at n%d", m.V)
	}
	return fmt.Sprintf("transmit=%v", sh.Lists[m.li])
}

func migRawKey(e migRaw) string {
	t := "v"
	if e.Tomb {
		t = "t"
	}
	return e.TKey + "|" + e.UUID + "|" + t + "|" + hex.EncodeToString(e.Val)
}

// c19MigShape builds one DAG with its source instances, migrates each in every selected mode
// onto the second store and compares reads and raw content.
func c19MigShape(c *Ctx, run *ev.Run, w *dagWorker, sh *migShape, qseq []int, si, maxKeys, maxLists int, viaBatch bool, cnt *migCounters) {
	s := w.sess()
	n := len(sh.Par)
	rng := rand.New(rand.NewSource(c.Seed*15485863 + int64(si)*32452843 + int64(n)))
	np := pow3(n)
	pick := func(from []int, k int) []int {
		if len(from) <= k {
			return append([]int(nil), from...)
		}
		perm := rng.Perm(len(from))
		out := make([]int, k)
		for i := range out {
			out[i] = from[perm[i]]
		}
		sort.Ints(out)
		return out
	}
	// coloured placements: all rows / the rows without a conflict at any node
	var allRows, cleanRows []int
	for i := range qseq {
		ok := true
		for v := 0; v < n; v++ {
			ok = ok && sh.CRead[i][v] != -1
		}
		allRows = append(allRows, i)
		if ok {
			cleanRows = append(cleanRows, i)
		}
	}
	// all-different placements by class, as in c19Shape
	var built, cleanNoDel, strict []int
	for p := 0; p < np; p++ {
		ok, nodel := true, true
		for v := 0; v < n; v++ {
			ok = ok && sh.Read[p][v] != -1
		}
		for k := 1; k <= n; k++ {
			nodel = nodel && digit(p, k) != 2
		}
		if ok && sh.Strict[p] == 1 {
			strict = append(strict, p)
		}
		if ok && sh.Built[p] == 1 {
			built = append(built, p)
			if nodel {
				cleanNoDel = append(cleanNoDel, p)
			}
		}
	}
	// value representations: most keys share the two values "A"/"B" (so that neighbouring keys
	// hold byte-identical values), some have an empty value, some values of their own
	mkColoured := func(inst string, rows []int, empties bool) *migSource {
		src := &migSource{inst: inst, coloured: true, qi: rows, meta: -1}
		for j, i := range rows {
			src.qs = append(src.qs, qseq[i])
			var rp [2]string
			switch x := rng.Intn(20); {
			case x < 10 || (!empties && x < 15):
				rp = [2]string{"A", "B"}
			case x < 13 && empties:
				rp = [2]string{"", "B"}
			case x < 16 && empties:
				rp = [2]string{"A", ""}
			default:
				rp = [2]string{fmt.Sprintf("%s-one", migKey(j)), fmt.Sprintf("%s-two", migKey(j))}
			}
			src.repr = append(src.repr, rp)
		}
		src.typ = migColouredKV(src.qs, src.repr)
		return src
	}
	srcs := []*migSource{
		mkColoured("mkv", pick(allRows, maxKeys), false),
		mkColoured("mkc", pick(cleanRows, maxKeys/2), true),
		{typ: c19Img, inst: "mimg", pls: pick(cleanNoDel, 3), meta: -1},
		{typ: c19Ann, inst: "mann", pls: pick(strict, 3), meta: -1},
		{typ: c19Roi, inst: "mroi1", pls: pick(built, 1), presence: true, meta: -1},
		{typ: c19Roi, inst: "mroi2", pls: pick(built, 1), presence: true, meta: -1},
		{typ: c19Roi, inst: "mroi3", pls: pick(built, 1), presence: true, meta: -1},
	}
	metaOf := func(pls []int) int {
		m := 0
		for k := 1; k <= n; k++ {
			for _, p := range pls {
				if digit(p, k) == 1 {
					m += pow3(k - 1)
					break
				}
			}
		}
		return m
	}
	for _, src := range srcs {
		if src.typ == c19Img {
			for len(src.pls) > 1 && sh.Built[metaOf(src.pls)] != 1 {
				src.pls = src.pls[:len(src.pls)-1]
			}
			src.meta = metaOf(src.pls)
		}
	}
	// modes per source
	for si2, src := range srcs {
		flatOK := func(V int) bool {
			if src.meta >= 0 && sh.Read[src.meta][V-1] == -1 {
				return false
			}
			for j := 0; j < src.nd(); j++ {
				if src.exp(sh, j, V) == -1 {
					return false
				}
			}
			return true
		}
		listIdx := rng.Perm(len(sh.Lists))
		// longer lists first among the sampled ones: they exercise the accumulation
		switch {
		case src.inst == "mkv":
			src.modes = append(src.modes, migMode{kind: "all"})
			k := maxLists
			if k > len(listIdx) {
				k = len(listIdx)
			}
			for _, li := range listIdx[:k] {
				src.modes = append(src.modes, migMode{kind: "list", li: li})
			}
		case src.inst == "mkc":
			src.modes = append(src.modes, migMode{kind: "all"})
			for V := 1; V <= n; V++ {
				if flatOK(V) {
					src.modes = append(src.modes, migMode{kind: "flatten", V: V})
				}
			}
			k := (maxLists + 1) / 2
			if k > len(listIdx) {
				k = len(listIdx)
			}
			for _, li := range listIdx[:k] {
				src.modes = append(src.modes, migMode{kind: "list", li: li})
			}
		default:
			src.modes = append(src.modes, migMode{kind: "all"})
			if V := 1 + (si+si2)%n; flatOK(V) {
				src.modes = append(src.modes, migMode{kind: "flatten", V: V})
			}
			k := 2
			if k > len(listIdx) {
				k = len(listIdx)
			}
			for _, li := range listIdx[:k] {
				src.modes = append(src.modes, migMode{kind: "list", li: li})
			}
		}
		// which mode goes first (the one followed by the restart) rotates with the shape
		if len(src.modes) > 1 {
			r := si % len(src.modes)
			src.modes[0], src.modes[r] = src.modes[r], src.modes[0]
		}
	}
	err := s.BuildShape(sh.Par, func(k int) error {
		if k == 1 {
			for _, src := range srcs {
				if err := s.NewInstance(1, src.typ.typename, src.inst, src.typ.config); err != nil {
					return err
				}
			}
		}
		u := s.NodeUUID(len(s.UUIDs))
		for _, src := range srcs {
			for j := 0; j < src.nd(); j++ {
				switch src.op(j, k) {
				case 1:
					if err := src.typ.write(s.N, u, src.inst, j, k); err != nil {
						return fmt.Errorf("%s write datum %d at n%d: %v", src.inst, j, k, err)
					}
				case 2:
					if err := src.typ.del(s.N, u, src.inst, j); err != nil {
						return fmt.Errorf("%s delete datum %d at n%d: %v", src.inst, j, k, err)
					}
				}
			}
		}
		return nil
	})
	must(err, "build shape")
	must(s.N.Idle(), "idle")
	base := len(s.UUIDs) - n
	uuid := func(v int) string { return s.UUIDs[base+v-1] }
	uuids := append([]string(nil), s.UUIDs[base:]...)
	nrep := 0
	report := func(d migDivergence) {
		nrep++
		if nrep > 4 {
			return
		}
		d.Par = sh.Par
		d.UUIDs = uuids
		d.Script = s.Script
		run.Violation("c19", d)
	}
	dump := func(store, inst string) migDump {
		var d migDump
		must(s.N.Call("migrate.dump", map[string]string{"uuid": uuid(1), "source": inst, "store": store}, &d), "migrate.dump")
		if len(d.Bad) > 0 {
			infra("dump of %s in %s: undecodable keys %v", inst, store, d.Bad)
		}
		return d
	}
	for _, src := range srcs {
		src.before = dump("main", src.inst)
		if strings.Contains(src.before.Assigned, "db2") {
			infra("%s is on %q before any migration", src.inst, src.before.Assigned)
		}
		if src.coloured {
			src.tkeys = make([]string, src.nd())
			for _, e := range src.before.Entries {
				tk, _ := hex.DecodeString(e.TKey)
				var j int
				if len(tk) < 4 {
					infra("unexpected keyvalue type-specific key %s", e.TKey)
				}
				if _, err := fmt.Sscanf(string(tk[2:len(tk)-1]), "k%03d", &j); err != nil || j < 0 || j >= src.nd() {
					infra("unexpected keyvalue type-specific key %s", e.TKey)
				}
				src.tkeys[j] = e.TKey
			}
		}
	}
	want := func(src *migSource, m migMode, j, w int) (int, bool) {
		var x int
		switch m.kind {
		case "all":
			x = src.exp(sh, j, w)
		case "flatten":
			at := src.exp(sh, j, m.V)
			if at == -1 {
				return 0, false
			}
			if sh.Desc[m.V-1][w-1] == 1 {
				x = at
			}
		case "list":
			listed := false
			for _, u := range sh.Lists[m.li] {
				listed = listed || u == w
			}
			if !listed {
				return 0, false
			}
			x = src.exp(sh, j, w)
		}
		if src.presence && x > 0 {
			x = 1
		}
		return x, true
	}
	compareReads := func(src *migSource, m migMode, kind, order string) {
		for w := 1; w <= n; w++ {
			listing, any := true, false
			for j := 0; j < src.nd(); j++ {
				x, defined := want(src, m, j, w)
				any = any || defined
				if !defined || x == -1 {
					listing = false
				}
			}
			if !any {
				continue
			}
			got, obs, err := src.typ.read(s.N, uuid(w), src.inst, src.nd(), listing)
			must(err, "read "+src.inst)
			for j := 0; j < src.nd(); j++ {
				x, defined := want(src, m, j, w)
				if !defined {
					continue
				}
				atomic.AddInt64(&cnt.reads, 1)
				g := got[j]
				if g == x || (x == -1 && g <= 0) {
					continue
				}
				report(migDivergence{Kind: kind, Datatype: src.typ.typename, Instance: src.inst, Mode: migModeString(sh, m), Order: order,
					Placement: src.placement(j, n), Datum: j, Query: w, Expected: x, Observed: fmt.Sprintf("%d %s", g, obs)})
			}
		}
	}
	// the raw content the destination must hold (coloured keyvalue: every mode; others: transmit=all)
	srcEntry := func(src *migSource, tkey string, v int) (migRaw, bool) {
		for _, e := range src.before.Entries {
			if e.TKey == tkey && e.UUID == uuid(v) {
				return e, true
			}
		}
		return migRaw{}, false
	}
	compareRaw := func(src *migSource, m migMode, order, store string) {
		if !src.coloured && m.kind != "all" {
			return
		}
		got := dump(store, src.inst)
		exp := map[string]migRaw{}
		switch m.kind {
		case "all":
			for _, e := range src.before.Entries {
				exp[migRawKey(e)] = e
			}
		case "flatten":
			for j := 0; j < src.nd(); j++ {
				if sh.CRead[src.qi[j]][m.V-1] <= 0 {
					continue
				}
				o := sh.CNode[src.qi[j]][m.V-1]
				e, ok := srcEntry(src, src.tkeys[j], o)
				if !ok || e.Tomb {
					infra("%s datum %d (%s): the source store has no value at n%d", src.inst, j, src.placement(j, n), o)
				}
				e.UUID, e.V = uuid(m.V), 0
				exp[migRawKey(e)] = e
			}
		case "list":
			for j := 0; j < src.nd(); j++ {
				for u := 1; u <= n; u++ {
					o := sh.Store[m.li][src.qi[j]][u-1]
					if o == 0 {
						continue
					}
					e, ok := srcEntry(src, src.tkeys[j], o)
					if !ok {
						infra("%s datum %d (%s): the source store has no entry at n%d", src.inst, j, src.placement(j, n), o)
					}
					e.UUID, e.V = uuid(u), 0
					exp[migRawKey(e)] = e
				}
			}
		}
		have := map[string]bool{}
		var extra, missing []string
		for _, e := range got.Entries {
			k := migRawKey(e)
			have[k] = true
			if _, ok := exp[k]; !ok {
				extra = append(extra, e.String())
			}
		}
		for k, e := range exp {
			if !have[k] {
				missing = append(missing, e.String())
			}
		}
		atomic.AddInt64(&cnt.rawCompared, int64(len(exp)))
		if len(extra)+len(missing) > 0 {
			sort.Strings(extra)
			sort.Strings(missing)
			if len(extra) > 12 {
				extra = extra[:12]
			}
			if len(missing) > 12 {
				missing = missing[:12]
			}
			report(migDivergence{Kind: "migrate-store-content", Datatype: src.typ.typename, Instance: src.inst, Mode: migModeString(sh, m), Order: order,
				Expected: map[string]interface{}{"entries": len(exp), "missing_from_destination": missing},
				Observed: map[string]interface{}{"entries": len(got.Entries), "not_expected_in_destination": extra}})
		}
	}
	migrate := func(src *migSource, m migMode) bool {
		at, transmit := uuid(1), "all"
		switch m.kind {
		case "flatten":
			at, transmit = uuid(m.V), "flatten"
		case "list":
			var us []string
			for _, u := range sh.Lists[m.li] {
				us = append(us, uuid(u))
			}
			transmit = strings.Join(us, ",")
		}
		var res struct {
			Err   string `json:"err"`
			Panic string `json:"panic"`
			Done  bool   `json:"done"`
		}
		must(s.N.Call("migrate.instance", map[string]interface{}{"uuid": at, "source": src.inst, "src_store": "main", "dst_store": "second",
			"transmit": transmit, "timeout_ms": 60000}, &res), "migrate.instance")
		atomic.AddInt64(&cnt.migrations, 1)
		if p := cnt.modes[m.kind]; p != nil {
			atomic.AddInt64(p, 1)
		}
		switch {
		case res.Panic != "":
			report(migDivergence{Kind: "migrate-panicked", Datatype: src.typ.typename, Instance: src.inst, Mode: migModeString(sh, m), Expected: "migration completes", Observed: res.Panic})
		case res.Err != "" || !res.Done:
			report(migDivergence{Kind: "migrate-failed", Datatype: src.typ.typename, Instance: src.inst, Mode: migModeString(sh, m), Expected: "migration completes",
				Observed: res.Err + "\n" + s.N.StderrTail(1500)})
		default:
			return true
		}
		return false
	}
	// transmit=<versions> / all through MigrateBatch onto a store of its own (only a path is named;
	// the batch opens and closes it), then the same restart + comparison.  One source per shape.
	var batchSrc *migSource
	var batchMode migMode
	batchDir := filepath.Join(s.N.Cfg.Dir, fmt.Sprintf("db3-%d", len(s.UUIDs)))
	if viaBatch {
		batchSrc = srcs[0]
		batchMode = batchSrc.modes[len(batchSrc.modes)-1]
		batchSrc.modes = batchSrc.modes[:len(batchSrc.modes)-1]
	}
	// round 0: the documented order -- migrate, then restart with the instance assigned to the destination
	const docOrder = "migrate, then restart with the instance assigned to the destination store"
	const onDest = "instance already assigned to the destination store (wiped, migrated again)"
	okFirst := make([]bool, len(srcs))
	var assign strings.Builder
	for i, src := range srcs {
		if len(src.modes) == 0 {
			continue
		}
		okFirst[i] = migrate(src, src.modes[0])
		fmt.Fprintf(&assign, "[backend.\"%s:%s\"]\n  store = \"second\"\n", src.inst, uuid(1))
	}
	must(s.N.Idle(), "idle")
	must(s.N.RestartWith(true, func(cfg *node.Config) { cfg.ExtraTOML = assign.String() }), "restart onto the destination store")
	atomic.AddInt64(&cnt.restarts, 1)
	for i, src := range srcs {
		if len(src.modes) == 0 {
			continue
		}
		if d := dump("second", src.inst); !strings.Contains(d.Assigned, "db2") {
			infra("%s is on %q after the restart that assigns it to the second store", src.inst, d.Assigned)
		}
		if okFirst[i] {
			compareReads(src, src.modes[0], "migrate-read", docOrder)
			compareRaw(src, src.modes[0], docOrder, "second")
		}
	}
	// further modes: empty the instance's range of the destination store and migrate again
	for _, src := range srcs {
		for _, m := range src.modes[min(1, len(src.modes)):] {
			must(s.N.Call("migrate.wipe", map[string]string{"uuid": uuid(1), "source": src.inst, "store": "second"}, nil), "migrate.wipe")
			if d := dump("second", src.inst); len(d.Entries) != 0 {
				infra("destination not empty after wipe: %d entries", len(d.Entries))
			}
			if migrate(src, m) {
				compareReads(src, m, "migrate-read", onDest)
				compareRaw(src, m, onDest, "second")
			}
		}
	}
	// the source store is unchanged
	for _, src := range srcs {
		after := dump("main", src.inst)
		a, b := map[string]bool{}, map[string]bool{}
		for _, e := range src.before.Entries {
			a[migRawKey(e)] = true
		}
		var diff []string
		for _, e := range after.Entries {
			b[migRawKey(e)] = true
			if !a[migRawKey(e)] {
				diff = append(diff, "added "+e.String())
			}
		}
		for _, e := range src.before.Entries {
			if !b[migRawKey(e)] {
				diff = append(diff, "lost "+e.String())
			}
		}
		atomic.AddInt64(&cnt.rawCompared, int64(len(a)))
		if len(diff) > 0 {
			if len(diff) > 12 {
				diff = diff[:12]
			}
			report(migDivergence{Kind: "migrate-source-store-changed", Datatype: src.typ.typename, Instance: src.inst, Mode: "after all migrations", Expected: "source store content unchanged", Observed: diff})
		}
	}
	if viaBatch {
		cfgJSON := map[string]interface{}{
			// the instance by name, then every keyvalue instance by type: the named one is not migrated twice, the excluded one not at all
			"Migrations": []interface{}{
				map[string]interface{}{"Name": batchSrc.inst, "SrcStore": "main", "DstStore": map[string]string{"Path": batchDir, "Engine": "badger"}},
				map[string]interface{}{"Name": "#keyvalue", "SrcStore": "main", "DstStore": map[string]string{"Path": batchDir, "Engine": "badger"}}},
			"Exclusions": []string{"mkc"},
		}
		if batchMode.kind == "list" {
			var us []string
			for _, u := range sh.Lists[batchMode.li] {
				us = append(us, uuid(u))
			}
			cfgJSON["Versions"] = us
		}
		var res struct {
			Err   string `json:"err"`
			Panic string `json:"panic"`
		}
		must(s.N.Call("migrate.batch", map[string]interface{}{"uuid": uuid(1), "config": cfgJSON, "dir": s.N.Cfg.Dir}, &res), "migrate.batch")
		atomic.AddInt64(&cnt.batches, 1)
		if res.Err != "" || res.Panic != "" {
			report(migDivergence{Kind: "migrate-batch-failed", Datatype: batchSrc.typ.typename, Instance: batchSrc.inst, Mode: "migrate-batch " + migModeString(sh, batchMode),
				Expected: "batch completes", Observed: res.Err + res.Panic})
			viaBatch = false
		}
	}
	// back onto the source store (and, for the batch, onto the store the batch made): the source reads as before
	extra := ""
	if viaBatch {
		extra = fmt.Sprintf("[store.third]\n  engine = \"badger\"\n  path = %q\n[backend.\"%s:%s\"]\n  store = \"third\"\n", batchDir, batchSrc.inst, uuid(1))
	}
	must(s.N.RestartWith(true, func(cfg *node.Config) { cfg.ExtraTOML = extra }), "restart back onto the source store")
	atomic.AddInt64(&cnt.restarts, 1)
	for _, src := range srcs {
		if viaBatch && src == batchSrc {
			if d := dump("third", src.inst); !strings.Contains(d.Assigned, "db3") {
				infra("%s is on %q after the restart that assigns it to the batch's store", src.inst, d.Assigned)
			}
			compareReads(src, batchMode, "migrate-batch-read", "migrate-batch, then restart with the instance assigned to the destination store")
			compareRaw(src, batchMode, "migrate-batch", "third")
			if d := dump("third", "mkc"); len(d.Entries) != 0 {
				report(migDivergence{Kind: "migrate-batch-exclusion", Datatype: "keyvalue", Instance: "mkc", Mode: "migrate-batch with Exclusions [mkc]",
					Expected: "excluded instance not migrated", Observed: fmt.Sprintf("%d entries in the batch's destination store", len(d.Entries))})
			}
			continue
		}
		if d := dump("main", src.inst); strings.Contains(d.Assigned, "db2") {
			infra("%s still on %q after the restart back", src.inst, d.Assigned)
		}
		compareReads(src, migMode{kind: "all"}, "migrate-source-read", "after all migrations, instance back on the source store")
	}
	if viaBatch {
		// leave the node as it was configured
		must(s.N.RestartWith(true, func(cfg *node.Config) { cfg.ExtraTOML = "" }), "restart")
		atomic.AddInt64(&cnt.restarts, 1)
	}
	for _, src := range srcs {
		for _, m := range src.modes {
			run.Eval(fmt.Sprintf("mig|N%d|%v|%s|%s", n, sh.Par, src.typ.typename, migModeString(sh, m)))
		}
	}
	if si%23 == 0 && len(srcs[0].modes) > 0 {
		m := srcs[0].modes[len(srcs[0].modes)-1]
		j := srcs[0].nd() / 2
		smp := map[string]interface{}{"par": sh.Par, "documented_lists": sh.Lists, "mode": migModeString(sh, m), "coloured_placement": srcs[0].placement(j, n),
			"source_reads_per_node": sh.CRead[srcs[0].qi[j]],
			"rule": "transmit=all reads like the source everywhere; flatten@V reads source@V at V and its descendants; a documented list reads like the source at every listed version and holds exactly the entries KVMigrate.Origins names"}
		if m.kind == "list" {
			smp["destination_origin_per_node"] = sh.Store[m.li][srcs[0].qi[j]]
		}
		run.Sample(smp)
	}
}

// migTLC is one KVMigrate run, started early so that TLC works while the copy part of the
// check replays.
type migTLC struct {
	n, maxParents, sampleShapes, maxKeys, maxLists int
	sampleOnly                                     bool
	qseq                                           []int
	done                                           chan struct{}
	shapes                                         []migShape
	res                                            *tlc.Result
	panicked                                       interface{}
}

// c19MigratePrepare starts the TLC runs of the migration part.
func c19MigratePrepare(c *Ctx) []*migTLC {
	rng := rand.New(rand.NewSource(c.Seed ^ 0x19b))
	mk := func(n, maxParents, sampleQ, sampleShapes, maxKeys, maxLists int) *migTLC {
		m := &migTLC{n: n, maxParents: maxParents, sampleShapes: sampleShapes, maxKeys: maxKeys, maxLists: maxLists, done: make(chan struct{})}
		if sampleQ > 0 && sampleQ < pow4(n) {
			perm := rng.Perm(pow4(n))
			m.qseq = append(m.qseq, perm[:sampleQ]...)
			sort.Ints(m.qseq)
			m.sampleOnly = true
		} else {
			for q := 0; q < pow4(n); q++ {
				m.qseq = append(m.qseq, q)
			}
		}
		return m
	}
	var runs []*migTLC
	if c.thorough() {
		runs = []*migTLC{mk(3, 3, 0, 0, 64, 100), mk(4, 3, 0, 0, 256, 100), mk(5, 2, 96, 90, 96, 12)}
	} else {
		runs = []*migTLC{mk(3, 3, 0, 0, 64, 100), mk(4, 3, 0, 0, 56, 6)}
	}
	go func() {
		// one after the other: each TLC uses all cores
		for _, m := range runs {
			func() {
				defer close(m.done)
				defer func() { m.panicked = recover() }()
				m.shapes, m.res = emitMigShapes(c, m.n, m.maxParents, m.qseq, m.sampleOnly, m.n <= 4)
			}()
		}
	}()
	return runs
}

// c19Migrate is the migration part of checkC19.
func c19Migrate(c *Ctx, run *ev.Run, runs []*migTLC, states, trans, nreads *int64, cfgs *[]string) {
	t0 := time.Now()
	workers := 16
	ws := make([]*dagWorker, workers)
	for i := range ws {
		ws[i] = &dagWorker{c: c, every: 6, cfg: node.Config{SecondStore: true, NoLog: true}}
	}
	defer func() {
		for _, w := range ws {
			w.close()
		}
	}()
	cnt := &migCounters{modes: map[string]*int64{"all": new(int64), "flatten": new(int64), "list": new(int64)}}
	rng := rand.New(rand.NewSource(c.Seed ^ 0x19c))
	var outside int64
	var modelLists, modelCases int64
	var waited float64
	for _, m := range runs {
		tw := time.Now()
		<-m.done
		waited += since(tw)
		if m.panicked != nil {
			panic(m.panicked)
		}
		shapes, r, n := m.shapes, m.res, m.n
		*states += r.Distinct
		*trans += r.Generated
		total := len(shapes)
		for i := range shapes {
			if shapes[i].Outside > 0 {
				outside += int64(shapes[i].Outside)
			}
			modelLists += int64(len(shapes[i].Lists))
			modelCases += int64(len(shapes[i].Lists)) * int64(len(m.qseq)+pow3(n))
		}
		if m.sampleShapes > 0 && len(shapes) > m.sampleShapes {
			perm := rng.Perm(len(shapes))
			sel := make([]migShape, m.sampleShapes)
			for i := range sel {
				sel[i] = shapes[perm[i]]
			}
			shapes = sel
		}
		*cfgs = append(*cfgs, fmt.Sprintf("KVMigrate N=%d MaxParents=%d: %d shapes x (%d coloured + %d all-different placements) x documented lists model-checked (%.0fs), %d shapes replayed",
			n, m.maxParents, total, len(m.qseq), pow3(n), r.WallS, len(shapes)))
		parallel(len(shapes), workers, func(wi, i int) {
			c19MigShape(c, run, ws[wi], &shapes[i], m.qseq, i, m.maxKeys, m.maxLists, i%3 == 0, cnt)
		})
	}
	*nreads += cnt.reads
	run.Set("migrations_made", cnt.migrations)
	run.Set("migrations_by_mode", map[string]int64{"all": *cnt.modes["all"], "flatten": *cnt.modes["flatten"], "version_list": *cnt.modes["list"], "migrate_batch": cnt.batches})
	run.Set("migration_reads_compared", cnt.reads)
	run.Set("migration_raw_entries_compared", cnt.rawCompared)
	run.Set("migration_restarts", cnt.restarts)
	run.Set("migration_documented_lists_model_checked", modelLists)
	run.Set("migration_list_cases_model_checked", modelCases)
	run.Set("migration_outside_documented_promise_differing", outside)
	fmt.Printf("C19 migration: %d migrations (%d all, %d flatten, %d version lists, %d batches), %d reads and %d raw entries compared, %d restarts in %.1fs (%.1fs waiting for TLC)\n",
		cnt.migrations, *cnt.modes["all"], *cnt.modes["flatten"], *cnt.modes["list"], cnt.batches, cnt.reads, cnt.rawCompared, cnt.restarts, since(t0), waited)
}

const c19MigrateRule = "Migration: case = (DAG shape, placement of {nothing, value A, value B, tombstone} of a datum over the nodes, transmit mode, queried node); TLC (KVMigrate.tla) enumerates every shape, states what the destination store holds after transmit=all / flatten at V / a version list (Origins: per listed version the latest entry of the history of the last listed version made after the previous listed version, left out when equal to the entry stored before it) and checks that all keeps every read, flatten at V reads source@V at V and its descendants, and a documented list (listed versions on the path history of the last one, oldest first) keeps the read at every listed version; the harness builds each shape with keyvalue instances (sampled coloured placements as neighbouring keys, values shared between keys, empty values), uint8blk, annotation and roi instances on the main store, calls datastore.MigrateInstance onto a second Badger store (waiting on its done channel), restarts the node with the instance assigned to the destination store (first mode of every instance; further modes after emptying the destination range) and compares every read through HTTP and, for keyvalue, the raw destination entries with the origins TLC printed; one mode per third shape goes through datastore.MigrateBatch onto a store the batch opens itself; the source store content must be byte-identical afterwards"

var c19MigrateAssume = []string{
	"version lists: only the lists the documentation covers are claimed (every listed version on the history of the last one, that history a path, oldest first); KVMigrate.OutsideBreaks counts the (list, placement) pairs with a merge of branches in the history whose listed reads would differ (evidence field migration_outside_documented_promise_differing)",
	"reads of the migrated instance are claimed at the listed versions only (unlisted versions of a version-limited destination are not specified)",
	"version ids grow in creation order (the harness creates node k before node k+1), as calcVersionPath assumes",
	"datastore.TransferData / LimitVersions (transfer of a whole store with a metadata rewrite) are not covered",
}
