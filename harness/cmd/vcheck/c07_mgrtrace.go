package main

import (
	"bytes"
	"context"
	"encoding/json"
	"fmt"
	"math"
	"math/rand"
	"os"
	"os/exec"
	"path/filepath"
	"sort"
	"strings"
	"sync"
	"time"

	"verifharness/internal/ev"
	"verifharness/internal/node"
	"verifharness/internal/tlc"
)

// Trace validation from INSIDE the code (direction T with implementation-emitted events).
//
// The repository manager (datastore/repo_local.go) emits, when built with the tag `verif` and
// run with VERIF_EVENT_FILE set, one ndjson event per state change at its linearization point
// (after the change, under the lock protecting it) and one per refused version request.  Two
// kinds of executions that the harness does not script are recorded and validated by TLC against
// specs/DvidMgrTrace.tla (= DvidDAG's actions with the logged identifiers bound, plus the
// identifier claims of C12 and the reload dump of C03):
//
//	(a) the repository's OWN engine-enabled tests (go test -c -tags badger,verif), one process per
//	    test function, working directory = a skeleton of the repository tree in the scratch dir;
//	(b) ungated concurrent bursts of mixed repo-level requests on a dvidnode (node op call mgr.par),
//	    with SIGKILL + restart after about every second round and at the end: the reload dump the
//	    manager emits must be the live part of the state TLC reached from the events; every
//	    acknowledged response must be explained by an event (child uuid in the response = child in
//	    the event) and every state-changing event by an acknowledgement; a round that is not
//	    answered within 30 s is a failure of its own (the requests block each other).
//
// A failure (TLC rejects the trace / acknowledgements and events disagree / no answer) is a
// violation only if the same test function or the same burst seed fails in the same class when
// executed again (bursts: up to 5 attempts, they are concurrent); failures that do not come back
// are reported as NOT-REPRODUCED and end the check with exit 2 unless a violation was established.
// Each run also corrupts recorded, accepted traces in one place (6 kinds) and requires TLC to
// reject every corruption (exit 2 otherwise: the trace specification would be too weak).

// `./check mgrtrace` runs only this part of C07 (same verdict lines, no evidence file): used by the
// binding self-tests (mutants/RESULTS-C07-mgrtrace.md) and for debugging.
func init() {
	checks["mgrtrace"] = func(c *Ctx) int {
		run := ev.NewRun("C07", c.Tier, "model_checking")
		checkMgrTraces(c, run)
		if os.Getenv("VERIF_MGRTRACE_SHOW") != "" {
			fmt.Println(jsonStr(run.Cov))
		}
		if run.Violations() > 0 {
			return 1
		}
		return 0
	}
}

type mgrTrace struct {
	Name   string // "<pkg>.<Test>" or "burst-<seed>"
	Bin    string // test binary ("" for bursts)
	Test   string
	Cwd    string // working directory of the test process
	Seed   int64
	Events []map[string]interface{}
	Failed bool     // the test function itself failed (never a verdict)
	Script []string // bursts: the requests sent
	Sent   int      // bursts: number of concurrent requests sent
	Hung   bool     // bursts: a round of concurrent requests was never answered
	Probs  []string // bursts: acknowledgements and events that do not explain each other ("category: text")
}

var mgrQuickPkgs = []string{"datastore", "server", "datatype/keyvalue"}

var mgrAllKinds = []string{"init", "newuuid", "newversionid", "newrepoid", "newiid", "newrepo", "commit", "newversion",
	"mergelink", "deleterepo", "refuse:newuuid:exists", "refuse:newversion:unlocked", "refuse:newversion:sister",
	"refuse:newversion:branchused", "refuse:merge:unlocked", "newdata", "renamedata", "deletedata", "mutinit", "mutblock",
	"load", "loadnode", "loaddata", "loaded", "addrepo", "hidebranch", "makemaster"}

func mgrKindOf(e map[string]interface{}) string {
	k, _ := e["ev"].(string)
	if k == "refuse" {
		return fmt.Sprintf("refuse:%v:%v", e["op"], e["reason"])
	}
	return k
}

func mgrGoEnv() []string {
	return append(os.Environ(), "GOFLAGS=-mod=mod", "GOPROXY=off", "GOSUMDB=off", "GOTOOLCHAIN=local")
}

// mgrRepoDir is the working tree the harness is linked against (the replace target in go.mod).
func mgrRepoDir() string {
	cmd := exec.Command("go", "list", "-m", "-f", "{{.Dir}}", "github.com/janelia-flyem/dvid")
	cmd.Dir = filepath.Join(ev.VerifDir, "harness")
	cmd.Env = mgrGoEnv()
	out, err := cmd.Output()
	must(err, "go list -m dvid")
	d := strings.TrimSpace(string(out))
	if d == "" {
		infra("cannot locate the dvid working tree")
	}
	return d
}

func mgrRunCmd(timeout time.Duration, dir string, env []string, name string, args ...string) (string, int, bool) {
	ctx, cancel := context.WithTimeout(context.Background(), timeout)
	defer cancel()
	cmd := exec.CommandContext(ctx, name, args...)
	cmd.Dir = dir
	cmd.Env = env
	var out bytes.Buffer
	cmd.Stdout = &out
	cmd.Stderr = &out
	err := cmd.Run()
	code := 0
	if cmd.ProcessState != nil {
		code = cmd.ProcessState.ExitCode()
	} else if err != nil {
		code = -1
	}
	return out.String(), code, ctx.Err() == context.DeadlineExceeded
}

// mgrPrep parses an event file: checks the per-process sequence numbers, makes instance ids
// strings (the random generator exceeds TLC's integers; only equality matters) and keeps the
// numeric value for the sequential generator.
func mgrPrep(raw []byte) []map[string]interface{} {
	var out []map[string]interface{}
	lastSeq := map[string]int64{}
	lines := bytes.Split(raw, []byte("\n"))
	for li, line := range lines {
		if len(bytes.TrimSpace(line)) == 0 {
			continue
		}
		dec := json.NewDecoder(bytes.NewReader(line))
		dec.UseNumber()
		var e map[string]interface{}
		if err := dec.Decode(&e); err != nil {
			if li == len(lines)-1 {
				break // a line cut off by a kill
			}
			infra("event file: bad line %d: %v", li+1, err)
		}
		pid := fmt.Sprint(e["pid"])
		seq, _ := e["seq"].(json.Number).Int64()
		if seq <= lastSeq[pid] {
			infra("event file: sequence number %d after %d (pid %s)", seq, lastSeq[pid], pid)
		}
		lastSeq[pid] = seq
		delete(e, "pid")
		if v, ok := e["iid"].(json.Number); ok {
			if n, err := v.Int64(); err == nil && n <= math.MaxInt32 && (e["gen"] == nil || e["gen"] == "sequential") {
				e["iidn"] = n
			} else if e["gen"] == "sequential" {
				infra("sequential instance id %v beyond TLC's integers", v)
			}
			e["iid"] = "i" + v.String()
		}
		for k, v := range e {
			if num, ok := v.(json.Number); ok {
				n, err := num.Int64()
				if err != nil || n > math.MaxInt32 {
					infra("event field %s=%v beyond TLC's integers", k, v)
				}
				e[k] = n
			}
		}
		out = append(out, e)
	}
	return out
}

func mgrCfg() []byte {
	return []byte("SPECIFICATION TSpec\nCONSTANTS\n  MaxNodes = 1000000\n  MaxRepos = 1000000\n  MaxParents = 3\n  Branches = {}\n  UUIDPool = {}\n  WithRejects = TRUE\n  CheckAllBelow = 40\n  CheckEvery = 50\nINVARIANTS Inv_Trace\nPOSTCONDITION TraceAccepted\nCHECK_DEADLOCK FALSE\n")
}

// mgrConcat joins traces; every trace starts a fresh manager (a synthetic "init" is put in front of
// a trace that does not begin with one).  starts[i] = index of the first event of trace i.
func mgrConcat(traces []*mgrTrace) (all []map[string]interface{}, starts []int) {
	for _, t := range traces {
		starts = append(starts, len(all))
		if len(t.Events) == 0 || t.Events[0]["ev"] != "init" {
			all = append(all, map[string]interface{}{"ev": "init", "synthetic": true})
		}
		all = append(all, t.Events...)
	}
	return
}

type mgrVerdict struct {
	OK        bool
	Explained int // events explained before the rejection
	Invariant string
	Tail      string
}

func mgrValidate(c *Ctx, evs []map[string]interface{}) mgrVerdict {
	if len(evs) == 0 {
		return mgrVerdict{OK: true}
	}
	r := c.RunTLC(tlc.Opts{Module: "DvidMgrTrace", Config: "gen_mgrtrace.cfg", Workers: 1, Timeout: 20 * time.Minute, Xss: "256m",
		Files: map[string][]byte{"mgr_trace.ndjson": eventsBytes(evs), "gen_mgrtrace.cfg": mgrCfg()}})
	if r.Depth == 0 {
		infra("DvidMgrTrace produced no result: %s", r.Tail(2500))
	}
	v := mgrVerdict{OK: r.OK, Explained: r.Depth - 1, Tail: r.Tail(1200)}
	if !r.OK && strings.Contains(r.Output, "Invariant Inv_Trace is violated") {
		v.Invariant = "Inv_Trace"
	} else if !r.OK && !strings.Contains(r.Output, "TraceAccepted") {
		infra("DvidMgrTrace failed in an unexpected way: %s", r.Tail(2500))
	}
	return v
}

// mgrValidateTrace validates one trace on its own; returns the verdict and the index (in
// t.Events) of the event that could not be explained.
func mgrValidateTrace(c *Ctx, t *mgrTrace) (mgrVerdict, int) {
	all, _ := mgrConcat([]*mgrTrace{t})
	v := mgrValidate(c, all)
	at := v.Explained - (len(all) - len(t.Events))
	if at < 0 {
		at = 0
	}
	return v, at
}

// ---------------------------------------------------------------------------------------------
// (a) the repository's own tests
// ---------------------------------------------------------------------------------------------

func mgrTestPackages(c *Ctx, repoDir string) []string {
	if !c.thorough() {
		return mgrQuickPkgs
	}
	// thorough: every package of the repository whose tests can reach the repo manager
	out, code, _ := mgrRunCmd(2*time.Minute, repoDir, mgrGoEnv(), "go", "list", "-tags", "badger,verif", "-f",
		`{{if or .TestGoFiles .XTestGoFiles}}{{.ImportPath}} {{join .Deps ","}},{{join .TestImports ","}},{{join .XTestImports ","}}{{end}}`, "./...")
	if code != 0 {
		infra("go list ./...: %s", out)
	}
	var pkgs []string
	for _, line := range strings.Split(out, "\n") {
		f := strings.SplitN(strings.TrimSpace(line), " ", 2)
		if len(f) != 2 {
			continue
		}
		p := strings.TrimPrefix(f[0], "github.com/janelia-flyem/dvid/")
		if p == f[0] {
			continue
		}
		if p == "datastore" || strings.Contains(","+f[1]+",", ",github.com/janelia-flyem/dvid/datastore,") {
			pkgs = append(pkgs, p)
		}
	}
	sort.Strings(pkgs)
	if len(pkgs) < len(mgrQuickPkgs) {
		infra("go list found only %v", pkgs)
	}
	return pkgs
}

// mgrRunTest runs one test function in its own process.  cwd mirrors the package's place in the
// repository tree (tests open ../../test_data/...); the test stores get unique names inside it.
func mgrRunTest(cwd, bin, test string, timeout time.Duration) (*mgrTrace, string) {
	f, err := os.CreateTemp(filepath.Dir(bin), "events-*.ndjson")
	must(err, "event file")
	evf := f.Name()
	f.Close()
	env := append(os.Environ(), "VERIF_EVENT_FILE="+evf)
	out, code, timedOut := mgrRunCmd(timeout, cwd, env, bin, "-test.run", "^"+test+"$", "-test.count=1", "-test.timeout", fmt.Sprint(timeout))
	raw, _ := os.ReadFile(evf)
	os.Remove(evf)
	t := &mgrTrace{Bin: bin, Test: test, Cwd: cwd, Events: mgrPrep(raw), Failed: code != 0 || timedOut}
	return t, out
}

func mgrRepoTests(c *Ctx, run *ev.Run, base string) []*mgrTrace {
	repoDir := mgrRepoDir()
	pkgs := mgrTestPackages(c, repoDir)
	bins := make([]string, len(pkgs))
	t0 := time.Now()
	parallel(len(pkgs), 6, func(_, i int) {
		bins[i] = filepath.Join(base, strings.ReplaceAll(pkgs[i], "/", "_")+".test")
		out, code, _ := mgrRunCmd(15*time.Minute, repoDir, mgrGoEnv(), "go", "test", "-c", "-tags", "badger,verif", "-vet=off", "-o", bins[i], "./"+pkgs[i])
		if code != 0 {
			infra("building the tests of %s: %s", pkgs[i], out)
		}
	})
	buildS := since(t0)
	// a skeleton of the repository tree for the tests' relative paths
	tree := filepath.Join(base, "tree")
	must(os.MkdirAll(tree, 0755), "mkdir")
	for _, d := range []string{"test_data", "scripts"} {
		os.Symlink(filepath.Join(repoDir, d), filepath.Join(tree, d))
	}
	type job struct {
		pkg, bin, test string
	}
	var jobs []job
	for i, p := range pkgs {
		if _, err := os.Stat(bins[i]); err != nil {
			continue // package without test functions
		}
		out, code, _ := mgrRunCmd(time.Minute, base, os.Environ(), bins[i], "-test.list", ".*")
		if code != 0 {
			infra("listing the tests of %s: %s", p, out)
		}
		for _, name := range strings.Fields(out) {
			if strings.HasPrefix(name, "Test") {
				jobs = append(jobs, job{p, bins[i], name})
			}
		}
	}
	traces := make([]*mgrTrace, len(jobs))
	t1 := time.Now()
	timeout := time.Duration(c.pick(60, 600)) * time.Second
	parallel(len(jobs), c.pick(12, 8), func(_, i int) {
		j := jobs[i]
		cwd := filepath.Join(tree, j.pkg)
		must(os.MkdirAll(cwd, 0755), "mkdir")
		t, _ := mgrRunTest(cwd, j.bin, j.test, timeout)
		t.Name = j.pkg + "." + j.test
		traces[i] = t
	})
	var failed, silent []string
	var withEvents []*mgrTrace
	for _, t := range traces {
		if t.Failed {
			failed = append(failed, t.Name)
		}
		if len(t.Events) == 0 {
			silent = append(silent, t.Name)
		} else {
			withEvents = append(withEvents, t)
		}
	}
	run.Set("mgrtrace_repo_test_packages", pkgs)
	run.Set("mgrtrace_repo_tests_run", len(jobs))
	run.Set("mgrtrace_repo_tests_with_manager_events", len(withEvents))
	run.Set("mgrtrace_repo_tests_failing_not_a_verdict", failed)
	run.Set("mgrtrace_repo_tests_build_s", math.Round(buildS*10)/10)
	run.Set("mgrtrace_repo_tests_run_s", math.Round(since(t1)*10)/10)
	_ = silent
	return withEvents
}

// ---------------------------------------------------------------------------------------------
// (b) concurrent bursts
// ---------------------------------------------------------------------------------------------

type burstNode struct {
	uuid   string
	locked bool
	branch string
}

type burstReq struct {
	Kind    string   `json:"kind"`
	Node    string   `json:"node,omitempty"`
	Branch  string   `json:"branch,omitempty"`
	Parents []string `json:"parents,omitempty"`
	Name    string   `json:"name,omitempty"`
	Assign  string   `json:"assign,omitempty"` // caller-assigned UUID (an existing one: must be refused)
	Status  int      `json:"status"`
	Child   string   `json:"child,omitempty"`
	Err     string   `json:"err,omitempty"`
}

type burstDriver struct {
	n       *node.Node
	rng     *rand.Rand
	root    string
	nodes   []burstNode
	insts   []string
	nbr     int
	ninst   int
	acked   []burstReq
	script  []string
	setupOK map[string]bool // state changes made by the sequential set-up
	sent    int
	hung    bool   // a concurrent round was never answered
	root2   string // a second repo, deleted at the end
}

func (d *burstDriver) http1(method, url string, body []byte) node.Resp {
	r, err := d.n.HTTP(method, url, body)
	must(err, method+" "+url)
	d.script = append(d.script, fmt.Sprintf("%s %s %.120s -> %d", method, url, body, r.Status))
	return r
}

func (d *burstDriver) pickNode(wantLocked, strict bool) int {
	var c []int
	for i, nd := range d.nodes {
		if nd.locked == wantLocked {
			c = append(c, i)
		}
	}
	if len(c) == 0 || (!strict && d.rng.Intn(5) == 0) {
		return d.rng.Intn(len(d.nodes))
	}
	return c[d.rng.Intn(len(c))]
}

func (d *burstDriver) setup() {
	r := d.http1("POST", "/api/repos", []byte(`{"alias":"burst"}`))
	var o struct{ Root, Child string }
	json.Unmarshal(r.Bytes(), &o)
	if r.Status != 200 || o.Root == "" {
		infra("burst: cannot create repo: %d %s", r.Status, r.Bytes())
	}
	d.root = o.Root
	d.nodes = []burstNode{{uuid: o.Root}}
	for i := 0; i < 2; i++ {
		d.ninst++
		name := fmt.Sprintf("d%d", d.ninst)
		r := d.http1("POST", "/api/repo/"+d.root+"/instance", []byte(fmt.Sprintf(`{"typename":"keyvalue","dataname":%q}`, name)))
		if r.Status != 200 {
			infra("burst: cannot create instance: %d %s", r.Status, r.Bytes())
		}
		d.insts = append(d.insts, name)
	}
	// mutation ids beyond one persisted block
	must(d.n.Call("mgr.mutids", map[string]interface{}{"UUID": d.root, "Name": d.insts[0], "N": 100 + d.rng.Intn(150)}, nil), "mgr.mutids")
	// a second repo with a committed root and a child, deleted after the rounds
	r = d.http1("POST", "/api/repos", []byte(`{"alias":"burst2"}`))
	json.Unmarshal(r.Bytes(), &o)
	d.root2 = o.Root
	d.http1("POST", "/api/node/"+d.root2+"/commit", []byte(`{}`))
	r = d.http1("POST", "/api/node/"+d.root2+"/newversion", []byte(`{}`))
	json.Unmarshal(r.Bytes(), &o)
	d.acked = append(d.acked, burstReq{Kind: "commit", Node: d.root2, Status: 200}, burstReq{Kind: "newversion", Node: d.root2, Status: r.Status, Child: o.Child})
}

// round sends k concurrent requests of mixed kinds; about half of them aim at a target another
// request of the round also uses (same parent, same branch name, commit + new version of one node,
// merge + commit of a parent).
func (d *burstDriver) round(k int) {
	var reqs []burstReq
	committing := map[string]bool{}
	deleting := map[string]bool{}
	for len(reqs) < k {
		var q burstReq
		if x := d.rng.Intn(24); x >= 20 {
			// a note / log entry / commit on a node another request of the round works on
			if len(reqs) == 0 || reqs[len(reqs)-1].Node == "" {
				continue
			}
			q = burstReq{Kind: []string{"note", "log", "note", "commit"}[x-20], Node: reqs[len(reqs)-1].Node}
		} else if len(reqs) > 0 && d.rng.Intn(2) == 0 {
			// collide with an earlier request of the round
			p := reqs[d.rng.Intn(len(reqs))]
			switch p.Kind {
			case "newversion":
				q = burstReq{Kind: "newversion", Node: p.Node}
			case "branch":
				if d.rng.Intn(2) == 0 {
					q = burstReq{Kind: "branch", Node: d.nodes[d.pickNode(true, false)].uuid, Branch: p.Branch}
				} else {
					q = burstReq{Kind: "branch", Node: p.Node, Branch: p.Branch}
				}
			case "commit":
				q = burstReq{Kind: "newversion", Node: p.Node}
				if d.rng.Intn(3) == 0 {
					q = burstReq{Kind: "commit", Node: p.Node}
				}
			case "merge":
				if d.rng.Intn(2) == 0 {
					q = burstReq{Kind: "newversion", Node: p.Parents[d.rng.Intn(len(p.Parents))]}
				} else {
					q = burstReq{Kind: "commit", Node: p.Parents[d.rng.Intn(len(p.Parents))]}
				}
			default:
				continue
			}
		} else {
			switch x := d.rng.Intn(20); {
			case x < 5:
				q = burstReq{Kind: "commit", Node: d.nodes[d.pickNode(false, false)].uuid}
			case x < 9:
				q = burstReq{Kind: "newversion", Node: d.nodes[d.pickNode(true, false)].uuid}
				if d.rng.Intn(6) == 0 {
					q.Assign = d.nodes[d.rng.Intn(len(d.nodes))].uuid
				}
			case x < 13:
				d.nbr++
				q = burstReq{Kind: "branch", Node: d.nodes[d.pickNode(true, false)].uuid, Branch: fmt.Sprintf("b%d", d.nbr)}
				if d.nbr > 1 && d.rng.Intn(5) == 0 {
					q.Branch = fmt.Sprintf("b%d", 1+d.rng.Intn(d.nbr-1))
					d.nbr--
				}
			case x < 16:
				if len(d.nodes) < 2 {
					continue
				}
				np := 2 + d.rng.Intn(2)
				seen := map[int]bool{}
				for j := 0; j < np; j++ {
					i := d.pickNode(true, false)
					if seen[i] {
						continue
					}
					seen[i] = true
					q.Parents = append(q.Parents, d.nodes[i].uuid)
				}
				if len(q.Parents) < 2 {
					continue
				}
				q.Kind = "merge"
			case x < 17:
				d.ninst++
				q = burstReq{Kind: "newinst", Name: fmt.Sprintf("d%d", d.ninst)}
			case x < 19:
				q = burstReq{Kind: []string{"note", "log"}[d.rng.Intn(2)], Node: d.nodes[d.rng.Intn(len(d.nodes))].uuid}
			default:
				if len(d.insts) == 0 {
					continue
				}
				q = burstReq{Kind: "delinst", Name: d.insts[d.rng.Intn(len(d.insts))]}
			}
		}
		// two acknowledged commits of one node, or two deletions of one instance, in one round are not
		// probed (see RESULTS-C07-mgrtrace.md)
		if q.Kind == "commit" {
			if committing[q.Node] && os.Getenv("VERIF_MGRTRACE_DOUBLECOMMIT") == "" {
				continue
			}
			committing[q.Node] = true
		}
		if q.Kind == "delinst" {
			if deleting[q.Name] {
				continue
			}
			deleting[q.Name] = true
		}
		reqs = append(reqs, q)
	}
	sub := make([]node.Req, len(reqs))
	for i, q := range reqs {
		switch q.Kind {
		case "commit":
			sub[i] = d.n.MkReq("POST", "/api/node/"+q.Node+"/commit", []byte(`{"note":"c"}`))
		case "newversion":
			body := `{}`
			if q.Assign != "" {
				body = fmt.Sprintf(`{"uuid":%q}`, q.Assign)
			}
			sub[i] = d.n.MkReq("POST", "/api/node/"+q.Node+"/newversion", []byte(body))
		case "branch":
			sub[i] = d.n.MkReq("POST", "/api/node/"+q.Node+"/branch", []byte(fmt.Sprintf(`{"branch":%q}`, q.Branch)))
		case "merge":
			b, _ := json.Marshal(map[string]interface{}{"mergeType": "conflict-free", "parents": q.Parents})
			sub[i] = d.n.MkReq("POST", "/api/repo/"+d.root+"/merge", b)
		case "note":
			sub[i] = d.n.MkReq("POST", "/api/node/"+q.Node+"/note", []byte(`{"note":"n"}`))
		case "log":
			sub[i] = d.n.MkReq("POST", "/api/node/"+q.Node+"/log", []byte(`{"log":["l"]}`))
		case "newinst":
			sub[i] = d.n.MkReq("POST", "/api/repo/"+d.root+"/instance", []byte(fmt.Sprintf(`{"typename":"keyvalue","dataname":%q}`, q.Name)))
		case "delinst":
			a, _ := json.Marshal(map[string]string{"UUID": d.root, "Name": q.Name, "Passcode": ""})
			sub[i] = node.Req{ID: d.n.NextID(), Op: "call", Fn: "ds.deletedata", Args: a}
		}
	}
	var resps []node.Resp
	d.sent += len(sub)
	args, _ := json.Marshal(sub)
	pr, err := d.n.DoTimeout(node.Req{Op: "call", Fn: "mgr.par", Args: args}, 30*time.Second)
	if err != nil && strings.Contains(err.Error(), "timeout") {
		// no answer: the requests block each other (the node is killed by the caller)
		d.hung = true
		for _, q := range reqs {
			d.script = append(d.script, fmt.Sprintf("par %s -> NEVER ANSWERED", jsonStr(q)))
		}
		return
	}
	must(err, "mgr.par")
	if pr.Err != "" {
		infra("mgr.par: %s", pr.Err)
	}
	must(json.Unmarshal(pr.Result, &resps), "mgr.par result")
	if len(resps) != len(reqs) {
		infra("mgr.par answered %d of %d", len(resps), len(reqs))
	}
	for i := range reqs {
		q := &reqs[i]
		r := resps[i]
		q.Status = r.Status
		if q.Kind == "delinst" {
			q.Status = 200
			if r.Err != "" {
				q.Status = 400
				q.Err = r.Err
			}
		}
		if q.Status == 200 {
			var o struct{ Child string }
			json.Unmarshal(r.Bytes(), &o)
			q.Child = o.Child
		}
		d.script = append(d.script, fmt.Sprintf("par %s -> %d %s", jsonStr(map[string]interface{}{"kind": q.Kind, "node": q.Node, "branch": q.Branch, "parents": q.Parents, "name": q.Name, "assign": q.Assign}), q.Status, q.Child))
	}
	// book-keeping from the acknowledgements
	for _, q := range reqs {
		if q.Status != 200 {
			continue
		}
		d.acked = append(d.acked, q)
		switch q.Kind {
		case "commit":
			for i := range d.nodes {
				if d.nodes[i].uuid == q.Node {
					d.nodes[i].locked = true
				}
			}
		case "newversion":
			br := ""
			for _, nd := range d.nodes {
				if nd.uuid == q.Node {
					br = nd.branch
				}
			}
			d.nodes = append(d.nodes, burstNode{uuid: q.Child, branch: br})
		case "branch":
			d.nodes = append(d.nodes, burstNode{uuid: q.Child, branch: q.Branch})
		case "merge":
			d.nodes = append(d.nodes, burstNode{uuid: q.Child})
		case "newinst":
			d.insts = append(d.insts, q.Name)
		case "delinst":
			for i, nm := range d.insts {
				if nm == q.Name {
					d.insts = append(d.insts[:i], d.insts[i+1:]...)
					break
				}
			}
		}
	}
}

func mgrStrList(v interface{}) []string {
	l, _ := v.([]interface{})
	out := make([]string, len(l))
	for i, x := range l {
		out[i] = fmt.Sprint(x)
	}
	return out
}

// explain matches acknowledgements and events both ways; returns the problems found.
func (d *burstDriver) explain(evs []map[string]interface{}) []string {
	var problems []string
	type created struct {
		parents []string
		branch  string
		merge   bool
	}
	nodesMade := map[string]created{}
	linked := map[string][]string{} // merge child -> parents linked so far
	commits := map[string]int{}
	dataMade := map[string]int{}
	dataGone := map[string]int{}
	for _, e := range evs {
		switch e["ev"] {
		case "newversion":
			nodesMade[fmt.Sprint(e["child"])] = created{parents: []string{fmt.Sprint(e["parent"])}, branch: fmt.Sprint(e["branch"])}
		case "mergelink":
			ps := mgrStrList(e["parents"])
			if i, _ := e["i"].(int64); int(i) == len(ps) {
				nodesMade[fmt.Sprint(e["child"])] = created{parents: ps, merge: true}
				delete(linked, fmt.Sprint(e["child"]))
			} else if int(i) >= 1 && int(i) <= len(ps) {
				linked[fmt.Sprint(e["child"])] = ps[:i]
			}
		case "commit":
			commits[fmt.Sprint(e["uuid"])]++
		case "newdata":
			dataMade[fmt.Sprint(e["name"])]++
		case "deletedata":
			dataGone[fmt.Sprint(e["name"])]++
		}
	}
	branchOf := map[string]string{}
	for _, nd := range d.nodes {
		branchOf[nd.uuid] = nd.branch
	}
	ackedChild := map[string]bool{}
	ackedCommit := map[string]int{}
	ackedData := map[string]int{}
	ackedGone := map[string]int{}
	for _, q := range d.acked {
		switch q.Kind {
		case "newversion", "branch":
			ackedChild[q.Child] = true
			m, ok := nodesMade[q.Child]
			want := q.Branch
			if q.Kind == "newversion" {
				want = branchOf[q.Node]
			}
			if !ok || m.merge || len(m.parents) != 1 || m.parents[0] != q.Node || m.branch != want {
				problems = append(problems, fmt.Sprintf("ack-without-event: acknowledged %s of %s (branch %q) -> child %s has no matching event (event: %+v)", q.Kind, q.Node, want, q.Child, m))
			}
		case "merge":
			ackedChild[q.Child] = true
			m, ok := nodesMade[q.Child]
			if !ok || !m.merge || strings.Join(m.parents, ",") != strings.Join(q.Parents, ",") {
				problems = append(problems, fmt.Sprintf("ack-without-event: acknowledged merge of %v -> child %s has no matching event (event: %+v)", q.Parents, q.Child, m))
			}
		case "commit":
			ackedCommit[q.Node]++
		case "newinst":
			ackedData[q.Name]++
		case "delinst":
			ackedGone[q.Name]++
		}
	}
	for u, k := range ackedCommit {
		if commits[u] != k {
			problems = append(problems, fmt.Sprintf("ack-without-event: %d acknowledged commit(s) of %s but %d commit event(s)", k, u, commits[u]))
		}
	}
	for nm, k := range ackedData {
		if dataMade[nm] != k {
			problems = append(problems, fmt.Sprintf("ack-without-event: %d acknowledged creation(s) of instance %s but %d event(s)", k, nm, dataMade[nm]))
		}
	}
	for nm, k := range ackedGone {
		if dataGone[nm] != k {
			problems = append(problems, fmt.Sprintf("ack-without-event: %d acknowledged deletion(s) of instance %s but %d removal event(s)", k, nm, dataGone[nm]))
		}
	}
	for child, ps := range linked {
		problems = append(problems, fmt.Sprintf("merge-never-completed: merge child %s was linked to %v and the merge never finished (a refused request changed the graph)", child, ps))
	}
	// the other direction: a state change nobody was told about = a refused request that changed state
	for child, m := range nodesMade {
		if !ackedChild[child] {
			problems = append(problems, fmt.Sprintf("event-without-ack: node %s (parents %v) was created but no request was acknowledged with it", child, m.parents))
		}
	}
	for u, k := range commits {
		if ackedCommit[u] < k {
			problems = append(problems, fmt.Sprintf("event-without-ack: %d commit event(s) of %s but %d acknowledged", k, u, ackedCommit[u]))
		}
	}
	for nm, k := range dataMade {
		if ackedData[nm]+btoi(d.setupOK[nm]) < k {
			problems = append(problems, fmt.Sprintf("event-without-ack: instance %s created %d time(s) but %d acknowledged", nm, k, ackedData[nm]))
		}
	}
	sort.Strings(problems)
	return problems
}

func btoi(b bool) int {
	if b {
		return 1
	}
	return 0
}

// mgrBlockedFrames extracts, from a goroutine dump, the goroutines blocked on a lock inside the
// datastore package: "state: frame <- frame ...".
func mgrBlockedFrames(dump string) []string {
	var out []string
	for _, g := range strings.Split(dump, "\n\ngoroutine ")[1:] {
		lines := strings.Split(g, "\n")
		if !strings.Contains(lines[0], "sync.") && !strings.Contains(lines[0], "semacquire") {
			continue
		}
		var frames []string
		for _, l := range lines {
			l = strings.TrimSpace(l)
			if i := strings.Index(l, "/datastore/repo_local.go:"); i >= 0 {
				f := l[i+len("/datastore/"):]
				if j := strings.IndexByte(f, ' '); j >= 0 {
					f = f[:j]
				}
				frames = append(frames, f)
			}
		}
		if len(frames) > 0 {
			st := lines[0]
			if i := strings.Index(st, "["); i >= 0 {
				st = st[i:]
			}
			out = append(out, "BLOCKED "+st+" "+strings.Join(frames, " <- "))
		}
	}
	sort.Strings(out)
	return out
}

// runBurst records one burst history on a fresh node: set-up, `rounds` concurrent rounds, idle,
// SIGKILL + restart (reload dump).  Returns the trace and the acknowledgement problems.
func runBurst(c *Ctx, seed int64, rounds, width int, base string) *mgrTrace {
	evf := filepath.Join(base, fmt.Sprintf("burst-%d-%d.ndjson", seed, time.Now().UnixNano()))
	n := c.StartNode(node.Config{Env: []string{"VERIF_EVENT_FILE=" + evf}})
	defer func() { c.DropNode(n); os.Remove(evf) }()
	d := &burstDriver{n: n, rng: rand.New(rand.NewSource(seed)), setupOK: map[string]bool{}}
	d.setup()
	for _, nm := range d.insts {
		d.setupOK[nm] = true
	}
	// quiesce waits until the acknowledged instance deletions have been carried out (they run in a
	// goroutine after the acknowledgement)
	quiesce := func() {
		must(n.Idle(), "idle")
		wantGone := 0
		for _, q := range d.acked {
			if q.Kind == "delinst" {
				wantGone++
			}
		}
		deadline := time.Now().Add(10 * time.Second)
		for {
			raw, _ := os.ReadFile(evf)
			if bytes.Count(raw, []byte(`"ev":"deletedata"`)) >= wantGone || time.Now().After(deadline) {
				return
			}
			time.Sleep(2 * time.Millisecond)
		}
	}
	for r := 0; r < rounds && !d.hung; r++ {
		d.round(2 + d.rng.Intn(width-1))
		// after about every second round: SIGKILL and restart; the reload dump must be the state reached
		if !d.hung && d.rng.Intn(2) == 0 {
			quiesce()
			must(n.Restart(false), "restart between rounds")
			d.script = append(d.script, "SIGKILL + restart")
		}
	}
	if d.hung {
		// document where the requests are blocked: goroutine dump, reduced to the repo manager's frames
		n.Quit()
		time.Sleep(500 * time.Millisecond)
		d.script = append(d.script, mgrBlockedFrames(n.StderrTail(4<<20))...)
		n.Kill()
		raw, _ := os.ReadFile(evf)
		return &mgrTrace{Name: fmt.Sprintf("burst-%d", seed), Seed: seed, Events: mgrPrep(raw), Script: d.script, Sent: d.sent, Hung: true}
	}
	must(n.Call("ds.deleterepo", map[string]string{"UUID": d.root2, "Passcode": ""}, nil), "ds.deleterepo")
	d.script = append(d.script, "CALL ds.deleterepo "+d.root2)
	// identifiers issued after the deletion must still be new
	d.http1("POST", "/api/repos", []byte(`{"alias":"burst3"}`))
	quiesce()
	raw, err := os.ReadFile(evf)
	must(err, "read event file")
	problems := d.explain(mgrPrep(raw))
	must(n.Restart(false), "restart after burst")
	raw, err = os.ReadFile(evf)
	must(err, "read event file")
	return &mgrTrace{Name: fmt.Sprintf("burst-%d", seed), Seed: seed, Events: mgrPrep(raw), Script: d.script, Sent: d.sent, Probs: problems}
}

// ---------------------------------------------------------------------------------------------
// binding self-test on recorded traces: one-place corruptions must be rejected
// ---------------------------------------------------------------------------------------------

func mgrCorruptions(t *mgrTrace, rng *rand.Rand) []corruption {
	evs := t.Events
	var out []corruption
	idx := func(pred func(i int, e map[string]interface{}) bool) int {
		var cnd []int
		for i, e := range evs {
			if pred(i, e) {
				cnd = append(cnd, i)
			}
		}
		if len(cnd) == 0 {
			return -1
		}
		return cnd[rng.Intn(len(cnd))]
	}
	// (1) a commit event dropped although a version was later made on that node
	if i := idx(func(i int, e map[string]interface{}) bool {
		if e["ev"] != "commit" {
			return false
		}
		for _, f := range evs[i+1:] {
			if f["ev"] == "init" {
				return false
			}
			if f["ev"] == "newversion" && f["parent"] == e["uuid"] {
				return true
			}
		}
		return false
	}); i >= 0 {
		cp := cloneEvents(evs)
		out = append(out, corruption{"commit-event-dropped", i, append(cp[:i:i], cp[i+1:]...)})
	}
	// (2) the parent of a new version replaced by a node that is not committed at that point
	if i := idx(func(i int, e map[string]interface{}) bool {
		return e["ev"] == "newversion" && i > 0 && evs[i-1]["ev"] == "newuuid"
	}); i >= 0 {
		cp := cloneEvents(evs)
		cp[i]["parent"] = cp[i]["child"] // the child itself: not a node yet
		out = append(out, corruption{"newversion-parent-swapped-unknown", i, cp})
		// an earlier uncommitted node of the same manager, if any
		committed := map[interface{}]bool{}
		var open interface{}
		for j := 0; j < i; j++ {
			switch evs[j]["ev"] {
			case "init":
				committed = map[interface{}]bool{}
				open = nil
			case "commit":
				committed[evs[j]["uuid"]] = true
			}
		}
		for j := 0; j < i; j++ {
			if evs[j]["ev"] == "init" {
				open = nil
			}
			if evs[j]["ev"] == "newversion" && !committed[evs[j]["child"]] {
				open = evs[j]["child"]
			}
		}
		if open != nil && open != evs[i]["parent"] {
			cp := cloneEvents(evs)
			cp[i]["parent"] = open
			out = append(out, corruption{"newversion-parent-swapped-uncommitted", i, cp})
		}
	}
	// (3) a version id issued twice
	if i := idx(func(i int, e map[string]interface{}) bool {
		return e["ev"] == "newuuid" && i > 0 && e["version"].(int64) > 1
	}); i >= 0 {
		cp := cloneEvents(evs)
		v := cp[i]["version"].(int64) - 1
		cp[i]["version"] = v
		for _, f := range cp[i+1:] {
			if f["ev"] == "init" {
				break
			}
			if (f["ev"] == "newversion" || f["ev"] == "mergelink") && f["child"] == cp[i]["uuid"] || f["ev"] == "newrepo" && f["uuid"] == cp[i]["uuid"] {
				f["version"] = v
			}
		}
		out = append(out, corruption{"version-id-issued-twice", i, cp})
	}
	// (4) a reload dump that lost the commit flag of a node
	if i := idx(func(i int, e map[string]interface{}) bool { return e["ev"] == "loadnode" && e["locked"] == true }); i >= 0 {
		cp := cloneEvents(evs)
		cp[i]["locked"] = false
		out = append(out, corruption{"reload-lost-commit-flag", i, cp})
	}
	// (5) a merge whose last link is reported before an earlier parent was linked
	if i := idx(func(i int, e map[string]interface{}) bool {
		k, _ := e["i"].(int64)
		return e["ev"] == "mergelink" && k == 1
	}); i >= 0 {
		cp := cloneEvents(evs)
		out = append(out, corruption{"mergelink-dropped", i, append(cp[:i:i], cp[i+1:]...)})
	}
	return out
}

// ---------------------------------------------------------------------------------------------

// mgrJudge classifies the failure of one recorded trace ("" = none) and describes it.
func mgrJudge(c *Ctx, t *mgrTrace, tlcRejected bool) (string, map[string]interface{}) {
	tail := func(l []string, n int) []string {
		if len(l) > n {
			return l[len(l)-n:]
		}
		return l
	}
	switch {
	case t.Hung:
		return "hung", map[string]interface{}{"kind": "concurrent-requests-never-answered",
			"what":        "a round of concurrent repo-level requests got no answer within 30 s: the requests block each other (goroutines blocked inside the repo manager are listed at the end of the script)",
			"script_tail": tail(t.Script, 40)}
	case len(t.Probs) > 0:
		cat := strings.SplitN(t.Probs[0], ":", 2)[0]
		return "ack:" + cat, map[string]interface{}{"kind": "acknowledgements-and-internal-events-disagree", "at": cat, "problems": t.Probs, "script": t.Script}
	case tlcRejected:
		v, at := mgrValidateTrace(c, t)
		if v.OK {
			return "", nil
		}
		kind := "end-of-trace"
		if at < len(t.Events) {
			kind = mgrKindOf(t.Events[at])
		}
		lo := at - 10
		if lo < 0 {
			lo = 0
		}
		hi := at + 1
		if hi > len(t.Events) {
			hi = len(t.Events)
		}
		return "tlc:" + kind, map[string]interface{}{"kind": "internal-trace-rejected-by-DvidMgrTrace", "at": t.Events[minI(at, len(t.Events)-1)],
			"events_explained": at, "rejected_event": t.Events[minI(at, len(t.Events)-1)], "violated_invariant": v.Invariant,
			"preceding_events": t.Events[lo:hi], "script": t.Script}
	}
	return "", nil
}

func checkMgrTraces(c *Ctx, run *ev.Run) {
	t0 := time.Now()
	base := filepath.Join(c.Scratch, "mgrtrace")
	must(os.MkdirAll(base, 0755), "mkdir")
	defer os.RemoveAll(base)

	// record: repository tests and bursts at the same time
	var repoTraces []*mgrTrace
	nBursts := c.pick(6, 40)
	rounds, width := c.pick(8, 12), c.pick(9, 12)
	bursts := make([]*mgrTrace, nBursts)
	var wg sync.WaitGroup
	var repoPanic interface{}
	wg.Add(1)
	go func() {
		defer wg.Done()
		defer func() { repoPanic = recover() }()
		repoTraces = mgrRepoTests(c, run, base)
	}()
	tb := time.Now()
	parallel(nBursts, 6, func(_, i int) {
		bursts[i] = runBurst(c, c.Seed*1000+int64(i), rounds, width, base)
	})
	burstS := since(tb)
	wg.Wait()
	if repoPanic != nil {
		panic(repoPanic)
	}
	nSent := 0
	for _, b := range bursts {
		nSent += b.Sent
	}

	// validate with TLC: chunks of traces, each chunk one TLC run
	var all []*mgrTrace
	for _, t := range append(append([]*mgrTrace{}, repoTraces...), bursts...) {
		if !t.Hung {
			all = append(all, t)
		}
	}
	sort.SliceStable(all, func(i, j int) bool { return len(all[i].Events) > len(all[j].Events) })
	nChunks := 8
	if len(all) < nChunks {
		nChunks = len(all)
	}
	chunks := make([][]*mgrTrace, nChunks)
	load := make([]int, nChunks)
	for _, t := range all {
		m := 0
		for k := range load {
			if load[k] < load[m] {
				m = k
			}
		}
		chunks[m] = append(chunks[m], t)
		load[m] += len(t.Events)*len(t.Events)/400 + len(t.Events)
	}
	tv := time.Now()
	var mu sync.Mutex
	isRejected := map[*mgrTrace]bool{}
	parallel(nChunks, 8, func(_, k int) {
		evs, _ := mgrConcat(chunks[k])
		if v := mgrValidate(c, evs); !v.OK {
			// find the rejected traces of this chunk one by one
			for _, t := range chunks[k] {
				if v1, _ := mgrValidateTrace(c, t); !v1.OK {
					mu.Lock()
					isRejected[t] = true
					mu.Unlock()
				}
			}
		}
	})
	validateS := since(tv)

	// Judge every trace: "" = fine, otherwise the class of its failure.  A failure is a violation only
	// if the same test function / the same burst seed fails in the same class when executed again (a
	// burst is concurrent: up to 5 attempts); a failure that does not come back is not a verdict.
	var notReproduced []string
	for _, t := range append(append([]*mgrTrace{}, repoTraces...), bursts...) {
		class, detail := mgrJudge(c, t, isRejected[t])
		if class == "" {
			continue
		}
		isRejected[t] = true
		if keep := os.Getenv("VERIF_MGRTRACE_KEEP"); keep != "" {
			os.WriteFile(filepath.Join(keep, t.Name+".ndjson"), eventsBytes(t.Events), 0644)
			os.WriteFile(filepath.Join(keep, t.Name+".script"), []byte(strings.Join(t.Script, "\n")), 0644)
		}
		tries := 2
		if t.Bin == "" {
			tries = 5
		}
		reproduced := false
		var outcomes []string
		for try := 0; try < tries && !reproduced; try++ {
			var t2 *mgrTrace
			if t.Bin != "" {
				t2, _ = mgrRunTest(t.Cwd, t.Bin, t.Test, 10*time.Minute)
			} else {
				t2 = runBurst(c, t.Seed, rounds, width, base)
			}
			rej2 := false
			if !t2.Hung {
				v2, _ := mgrValidateTrace(c, t2)
				rej2 = !v2.OK
			}
			class2, detail2 := mgrJudge(c, t2, rej2)
			if class2 == "" {
				class2 = "no failure"
			}
			outcomes = append(outcomes, class2)
			if class2 == class {
				reproduced = true
				detail["when_repeated"] = detail2
			}
		}
		if !reproduced {
			notReproduced = append(notReproduced, fmt.Sprintf("%s: %s (%s); re-executions: %v", t.Name, class, jsonStr(detail["at"]), outcomes))
			continue
		}
		detail["trace"] = t.Name
		detail["failure_class"] = class
		detail["test_failed_anyway"] = t.Failed
		if t.Bin == "" {
			detail["burst_seed"] = t.Seed
		}
		run.Violation("mgrtrace", detail)
	}
	if len(notReproduced) > 0 {
		if run.Violations() == 0 {
			infra("failures that did not come back when the same test / burst was executed again (not reproduced):\n  %s", strings.Join(notReproduced, "\n  "))
		}
		for _, l := range notReproduced {
			fmt.Printf("NOT-REPRODUCED (not a verdict): %s\n", l)
		}
	}

	// statistics over the validated traces
	kinds := map[string]int{}
	nEvents, nSkipped, nTraces := 0, 0, 0
	for _, t := range all {
		if isRejected[t] {
			continue
		}
		nTraces++
		skip := false
		for _, e := range t.Events {
			k := mgrKindOf(e)
			if k == "init" {
				skip = false
			}
			if skip {
				nSkipped++
				continue
			}
			kinds[k]++
			nEvents++
			if k == "addrepo" || k == "hidebranch" || k == "makemaster" {
				skip = true
			}
		}
	}
	var never []string
	for _, k := range mgrAllKinds {
		if kinds[k] == 0 {
			never = append(never, k)
		}
	}
	for k := range kinds {
		found := false
		for _, a := range mgrAllKinds {
			if a == k {
				found = true
			}
		}
		if !found {
			infra("event kind %q is not known to the check", k)
		}
	}

	// binding self-test: corruptions of accepted traces must be rejected
	var cors []corruption
	var corSrc []string
	rng := rand.New(rand.NewSource(c.Seed))
	want := map[string]bool{}
	for _, t := range all {
		if isRejected[t] || len(t.Events) > 400 {
			continue
		}
		for _, cr := range mgrCorruptions(t, rng) {
			if !want[cr.kind] {
				want[cr.kind] = true
				cors = append(cors, cr)
				corSrc = append(corSrc, t.Name)
			}
		}
	}
	corRejected := make([]bool, len(cors))
	parallel(len(cors), 8, func(_, i int) {
		v, _ := mgrValidateTrace(c, &mgrTrace{Events: cors[i].evs})
		corRejected[i] = !v.OK
	})
	var corList []string
	for i, cr := range cors {
		corList = append(corList, fmt.Sprintf("%s (%s, event %d): rejected=%v", cr.kind, corSrc[i], cr.at, corRejected[i]))
		if !corRejected[i] {
			infra("binding self-test: corrupted trace %q of %s was ACCEPTED by DvidMgrTrace (weak trace specification)", cr.kind, corSrc[i])
		}
	}
	if len(cors) < 4 && run.Violations() == 0 {
		infra("binding self-test: only %d corruption kinds could be derived from the recorded traces", len(cors))
	}

	for _, t := range all {
		if !isRejected[t] && len(t.Events) > 12 {
			run.Sample(map[string]interface{}{"internal_trace": t.Name, "prefix": t.Events[:12]})
			break
		}
	}
	run.Set("mgrtrace_traces_validated_by_tlc", nTraces)
	run.Set("mgrtrace_events_validated", nEvents)
	run.Set("mgrtrace_events_skipped_after_unmodelled_operation", nSkipped)
	run.Set("mgrtrace_event_kinds_validated", kinds)
	run.Set("mgrtrace_spec_actions_never_exercised", never)
	run.Set("mgrtrace_bursts", fmt.Sprintf("%d nodes x %d rounds of 2..%d concurrent requests (commit / newversion incl. duplicate assigned uuid / branch, same name twice / merge of 2-3 parents / note / log / new instance / delete instance; about half of them aimed at a node another request of the round uses), SIGKILL + restart with reload dump after about every second round and at the end, a second repo deleted and a third created at the end; %d concurrent requests sent", nBursts, rounds, width, nSent))
	run.Set("mgrtrace_corruptions_rejected", corList)
	run.Set("mgrtrace_wall_s", map[string]float64{"bursts": math.Round(burstS*10) / 10, "tlc": math.Round(validateS*10) / 10, "total": math.Round(since(t0)*10) / 10})
	if v, ok := run.Cov["traces_validated_against_impl"].(int64); ok {
		run.Set("traces_validated_against_impl", v+int64(nTraces))
	}
	fmt.Printf("C07 mgrtrace: %d internal traces (%d repo tests, %d bursts), %d events validated by TLC, %d skipped, %d corruptions rejected, never exercised %v, %.1fs\n",
		nTraces, len(repoTraces), len(bursts), nEvents, nSkipped, len(cors), never, since(t0))
}
