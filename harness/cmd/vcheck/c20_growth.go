package main

// C20, growth round: well-formed label blocks of another geometry than the instance's ("geom"
// cases), request-level cases (verbs, committed / unknown target version, throttle option),
// and the follow-up requests that are owed to every accepted mutating request
// (specs/Hostile.tla: GeomShapes, ReqClasses, FollowUps).

import (
	"encoding/json"
	"errors"
	"fmt"
	"math/rand"
	"strings"
	"time"

	"github.com/janelia-flyem/dvid/datatype/common/labels"
	"github.com/janelia-flyem/dvid/dvid"

	"verifharness/internal/node"
)

// ---- geometry cases -------------------------------------------------------------------------

// c20GeomBlock builds a WELL-FORMED label block of the given shape class (the instance's block
// size is 32^3).
func c20GeomBlock(shape string, rng *rand.Rand) (*labels.Block, dvid.Point3d) {
	var sz dvid.Point3d
	solid := false
	switch shape {
	case "cube16":
		sz = dvid.Point3d{16, 16, 16}
	case "cube64":
		sz = dvid.Point3d{64, 64, 64}
	case "aniso":
		sz = [][3]int32{{32, 16, 64}, {64, 32, 32}, {32, 32, 16}, {16, 32, 32}}[rng.Intn(4)]
	case "solid16":
		sz, solid = dvid.Point3d{16, 16, 16}, true
	case "solid64":
		sz, solid = dvid.Point3d{64, 64, 64}, true
	default:
		infra("unknown block geometry class %q", shape)
	}
	l0 := uint64(70 + rng.Intn(20))
	if solid {
		return labels.MakeSolidBlock(l0, sz), sz
	}
	k := 2 + rng.Intn(3)
	vol := c20Volume(int(sz[0]), int(sz[1]), int(sz[2]), func(x, y, z int) uint64 { return l0 + uint64((x/4+y/8+z/8)%k) })
	b, err := labels.MakeBlock(vol, sz)
	must(err, "MakeBlock "+shape)
	return b, sz
}

// c20GeomStream: a block stream in which one block has another geometry than the instance's; the
// other one is an ordinary block.  The odd block comes first or second.
func c20GeomStream(shape string, rng *rand.Rand, variant int) ([]byte, string) {
	odd, sz := c20GeomBlock(shape, rng)
	bs := dvid.Point3d{c20BS, c20BS, c20BS}
	good, err := labels.MakeBlock(c20Volume(c20BS, c20BS, c20BS, func(x, y, z int) uint64 { return 11 + uint64(x/16) }), bs)
	must(err, "MakeBlock")
	recs := []*bnode{blockRecord(2, 0, 0, good), blockRecord(3, 0, 0, odd)}
	pos := "second"
	if variant%2 == 1 {
		recs = []*bnode{blockRecord(2, 0, 0, odd), blockRecord(3, 0, 0, good)}
		pos = "first"
	}
	body, _ := bgroup(recs...).encode(nil)
	return body, fmt.Sprintf("well-formed block of %dx%dx%d voxels (%s) as the %s block of a stream for an instance with %d^3 blocks", sz[0], sz[1], sz[2], shape, pos, c20BS)
}

// ---- request-level cases --------------------------------------------------------------------

const c20NoVersion = "feedfacefeedfacefeedfacefeedface"

func c20ReqMutate(w *c20World, rq c20Req, cls string) (c20Req, string, bool) {
	switch cls {
	case "verb_put", "verb_head", "verb_options", "verb_delete", "verb_patch":
		m := strings.ToUpper(strings.TrimPrefix(cls, "verb_"))
		if m == rq.Method {
			return rq, "", false
		}
		note := fmt.Sprintf("method %s -> %s", rq.Method, m)
		rq.Method = m
		return rq, note, true
	case "locked":
		if !strings.Contains(rq.URL, w.a) {
			return rq, "", false
		}
		rq.URL = strings.Replace(rq.URL, w.a, w.v1, 1)
		return rq, "target version -> the committed version v1", true
	case "noversion":
		if !strings.Contains(rq.URL, w.a) {
			return rq, "", false
		}
		rq.URL = strings.Replace(rq.URL, w.a, c20NoVersion, 1)
		return rq, "target version -> a UUID that does not exist", true
	case "throttle":
		sep := "?"
		if strings.Contains(rq.URL, "?") {
			sep = "&"
		}
		rq.URL += sep + "throttle=on"
		return rq, "query option throttle=on added", true
	}
	return rq, "", false
}

// ---- follow-ups -----------------------------------------------------------------------------

func c20EncB(n *bnode) []byte { b, _ := n.encode(nil); return b }

func c20JSON(v interface{}) []byte { b, _ := json.Marshal(v); return b }

// c20FollowImpl: the well-formed follow-up requests by name (specs/Hostile.tla FollowUps).
func c20FollowImpls() map[string]func(w *c20World) c20Req {
	get := func(inst, rest string) func(w *c20World) c20Req {
		return func(w *c20World) c20Req { return c20Req{Method: "GET", URL: "/api/node/" + w.a + "/" + inst + "/" + rest} }
	}
	getB := func(inst, rest string, body string) func(w *c20World) c20Req {
		return func(w *c20World) c20Req {
			return c20Req{Method: "GET", URL: "/api/node/" + w.a + "/" + inst + "/" + rest, Body: []byte(body)}
		}
	}
	post := func(inst, rest string, body func(w *c20World) []byte) func(w *c20World) c20Req {
		return func(w *c20World) c20Req {
			var b []byte
			if body != nil {
				b = body(w)
			}
			return c20Req{Method: "POST", URL: "/api/node/" + w.a + "/" + inst + "/" + rest, Body: b}
		}
	}
	del := func(inst, rest string) func(w *c20World) c20Req {
		return func(w *c20World) c20Req {
			return c20Req{Method: "DELETE", URL: "/api/node/" + w.a + "/" + inst + "/" + rest}
		}
	}
	lit := func(s string) func(w *c20World) []byte { return func(w *c20World) []byte { return []byte(s) } }
	vol32 := func(l uint64) func(w *c20World) []byte {
		return func(w *c20World) []byte {
			return c20Volume(32, 32, 32, func(x, y, z int) uint64 { return l + uint64(x/16) })
		}
	}
	hinst := func(rest string, method string, body func(w *c20World) []byte) func(w *c20World) c20Req {
		return func(w *c20World) c20Req {
			var b []byte
			if body != nil {
				b = body(w)
			}
			return c20Req{Method: method, URL: fmt.Sprintf("/api/node/%s/h%d/%s", w.a, w.ninst, rest), Body: b}
		}
	}
	elem := func(x, y, z int) func(w *c20World) []byte {
		return func(w *c20World) []byte {
			return c20JSON([]map[string]interface{}{c20Elem(x, y, z, "PostSyn", []string{"t1", "fu"}, "PostSynTo", [3]int{20, 10, 10})})
		}
	}
	validStream := func(w *c20World) []byte {
		return c20EncB(blockStream(w, rand.New(rand.NewSource(int64(w.nreq)))))
	}
	m := map[string]func(w *c20World) c20Req{
		// --- labelmap "lm": the touched blocks are (2,0,0) (3,0,0) (2,1,0), the original ones below x = 64
		"lm.fu.info":              get("lm", "info"),
		"lm.fu.metadata":          get("lm", "metadata"),
		"lm.fu.index11":           get("lm", "index/11"),
		"lm.fu.raw":               get("lm", "raw/0_1_2/128_64_64/0_0_0"),
		"lm.fu.rawsv":             get("lm", "raw/0_1_2/128_64_64/0_0_0?supervoxels=true"),
		"lm.fu.blocks":            get("lm", "blocks/128_64_64/0_0_0"),
		"lm.fu.blocks.unc":        get("lm", "blocks/128_64_64/0_0_0?compression=uncompressed"),
		"lm.fu.blocks.lz4sv":      get("lm", "blocks/128_64_64/0_0_0?compression=lz4&supervoxels=true"),
		"lm.fu.specific.gzip":     get("lm", "specificblocks?blocks=2,0,0,3,0,0,2,1,0,0,0,0&compression=gzip"),
		"lm.fu.sparsevol11":       get("lm", "sparsevol/11?format=rles"),
		"lm.fu.sparsevol1.blocks": get("lm", "sparsevol/1?format=blocks"),
		"lm.fu.sparsevol1.srles":  get("lm", "sparsevol/1?format=srles"),
		"lm.fu.sizes":             getB("lm", "sizes", "[1,5,11,21,31]"),
		"lm.fu.label":             get("lm", "label/70_5_5"),
		"lm.fu.maxlabel":          get("lm", "maxlabel"),
		"lm.fu.mappings":          get("lm", "mappings"),
		"lm.fu.rawpost":           post("lm", "raw/0_1_2/32_32_32/64_0_0", vol32(81)),
		"lm.fu.rawpost.unaligned": post("lm", "raw/0_1_2/16_16_16/104_8_8?mutate=true", func(w *c20World) []byte {
			return c20Volume(16, 16, 16, func(x, y, z int) uint64 { return 83 })
		}),
		"lm.fu.blockspost":    post("lm", "blocks", validStream),
		"lm.fu.merge.touched": post("lm", "merge", lit("[11,12]")),
		"lm.fu.merge":         post("lm", "merge", lit("[1,2]")),
		"lm.fu.cleave":        post("lm", "cleave/5", lit("[6]")),
		"lm.fu.splitsv": post("lm", "split-supervoxel/3", func(w *c20World) []byte {
			return c20EncB(rlePayload([][4]int32{{0, 32, 2, 8}, {0, 33, 3, 8}}))
		}),
		"lm.fu.split": post("lm", "split/4", func(w *c20World) []byte {
			return c20EncB(rlePayload([][4]int32{{16, 40, 2, 8}, {16, 41, 3, 8}}))
		}),
		// --- ingest target "lmi"
		"lmi.fu.rawsv":   get("lmi", "raw/0_1_2/128_64_32/0_0_0?supervoxels=true"),
		"lmi.fu.blocks":  get("lmi", "blocks/128_64_32/0_0_0?supervoxels=true"),
		"lmi.fu.rawpost": post("lmi", "raw/0_1_2/32_32_32/64_0_0", vol32(85)),
		"lmi.fu.ingest":  post("lmi", "ingest-supervoxels", validStream),
		// --- annotation "ann" (synced with "lm")
		"ann.fu.post":     post("ann", "elements", elem(12, 12, 12)),
		"ann.fu.move":     post("ann", "move/12_12_12/13_13_13", nil),
		"ann.fu.delete":   del("ann", "element/13_13_13"),
		"ann.fu.label1":   get("ann", "label/1?relationships=true"),
		"ann.fu.tag":      get("ann", "tag/t1?relationships=true"),
		"ann.fu.elements": get("ann", "elements/128_64_64/0_0_0"),
		"ann.fu.all":      get("ann", "all-elements"),
		"ann.fu.blocks":   get("ann", "blocks/128_64_64/0_0_0"),
		"ann.fu.lmwrite":  post("lm", "raw/0_1_2/32_32_32/0_0_0", vol32(1)),
		"ann.fu.lmmerge":  post("lm", "merge", lit("[1,2]")),
		// --- key-values
		"kv.fu.post":      post("kv", "key/fu1", lit("follow-up value")),
		"kv.fu.get":       get("kv", "key/fu1"),
		"kv.fu.keys":      get("kv", "keys"),
		"kv.fu.range":     get("kv", "keyrangevalues/a/z?json=true"),
		"kv.fu.keyvalues": getB("kv", "keyvalues?json=true", `["c1","t1","t2","fu1"]`),
		"kv.fu.delete":    del("kv", "key/fu1"),
		// --- neuron annotations
		"nj.fu.post":   post("nj", "key/1005?u=followup", lit(`{"bodyid":1005,"type":"KC","syn":3}`)),
		"nj.fu.get":    get("nj", "key/1005?show=all"),
		"nj.fu.all":    get("nj", "all"),
		"nj.fu.query":  post("nj", "query", lit(`{"type":"KC"}`)),
		"nj.fu.fields": get("nj", "fields"),
		"nj.fu.keys":   get("nj", "keys"),
		"nj.fu.delete": del("nj", "key/1005"),
		// --- ROI
		"roi.fu.get":       get("roi", "roi"),
		"roi.fu.ptquery":   post("roi", "ptquery", lit(`[[1,1,1],[40,40,40]]`)),
		"roi.fu.mask":      get("roi", "mask/0_1_2/64_64_64/0_0_0"),
		"roi.fu.partition": get("roi", "partition?batchsize=2"),
		"roi.fu.post":      post("roi", "roi", lit(`[[0,0,0,1],[1,1,0,2]]`)),
		"roi.fu.delete":    del("roi", "roi"),
		// --- gray
		"gray.fu.info":     get("gray", "info"),
		"gray.fu.metadata": get("gray", "metadata"),
		"gray.fu.get":      get("gray", "raw/0_1_2/128_64_64/0_0_0"),
		"gray.fu.blocks":   get("gray", "blocks/2_1_0/2"),
		"gray.fu.slice":    get("gray", "raw/0_1/100_60/0_0_5/png"),
		"gray.fu.iso":      get("gray", "isotropic/0_1/40_40/0_0_5"),
		"gray.fu.post":     post("gray", "raw/0_1_2/32_32_32/64_32_0", func(w *c20World) []byte { return c20Gray(32, 32, 32, 9) }),
		// --- an instance created by the request (labelmap h<n>)
		"newinst.fu.info":      hinst("info", "GET", nil),
		"newinst.fu.rawpost":   hinst("raw/0_1_2/32_32_32/0_0_0", "POST", vol32(1)),
		"newinst.fu.rawget":    hinst("raw/0_1_2/32_32_32/0_0_0", "GET", nil),
		"newinst.fu.label":     hinst("label/1_1_1", "GET", nil),
		"newinst.fu.sparsevol": hinst("sparsevol/1", "GET", nil),
		// --- repository / version level
		"meta.fu.repoinfo": func(w *c20World) c20Req { return c20Req{Method: "GET", URL: "/api/repo/" + w.root + "/info"} },
		"meta.fu.nodelog":  func(w *c20World) c20Req { return c20Req{Method: "GET", URL: "/api/node/" + w.a + "/log"} },
		"meta.fu.status":   func(w *c20World) c20Req { return c20Req{Method: "GET", URL: "/api/node/" + w.a + "/status"} },
	}
	c20FollowImplsMore(m)
	return m
}

// c20CheckFollowUps: the specification's follow-up names and the harness implementations are the same set.
func c20CheckFollowUps(t *hTable, impls map[string]func(w *c20World) c20Req) {
	used := map[string]bool{}
	for i := range t.Endpoints {
		for _, f := range t.Endpoints[i].FollowUps {
			if impls[f] == nil {
				infra("follow-up %s of endpoint %s (specification) has no harness implementation", f, t.Endpoints[i].Name)
			}
			used[f] = true
		}
	}
	for f := range impls {
		if !used[f] {
			infra("the harness implements a follow-up %s that the specification does not list", f)
		}
	}
}

// c20FollowUps sends the follow-ups owed to an accepted mutating request and records those
// answered with a server error, a death of the process, and background panic reports.
func c20FollowUps(w *c20World, ep *hEndpoint, impls map[string]func(w *c20World) c20Req, o *c20Obs) {
	n := w.n
	mark := n.StderrMark()
	defer func() { w.scanned = n.StderrMark() }()
	for _, name := range ep.FollowUps {
		rq := impls[name](w)
		st, body, notSent, err := c20Send(w, rq, 90*time.Second)
		if err != nil {
			if errors.Is(err, node.ErrDead) {
				o.Dead = true
			} else {
				o.Hang = true
			}
			o.Resp = fmt.Sprintf("during follow-up %s (%s %s): %v", name, rq.Method, rq.URL, err)
			o.Stderr = c20DeathReport(n)
			return
		}
		if notSent != "" {
			infra("follow-up %s could not be sent: %s", name, notSent)
		}
		o.FollowSent++
		if st >= 500 && !(st == 503 && strings.Contains(string(body), "throttled operations")) {
			o.FollowErrs = append(o.FollowErrs, fmt.Sprintf("%s: %s %s: %d %s", name, rq.Method, rq.URL, st, truncStr(string(body), 400)))
		}
		if rq.Method != "GET" {
			// the background work of one follow-up ends before the next one is sent
			if err := c20Idle(n); err != nil && errors.Is(err, node.ErrDead) {
				o.Dead = true
				o.Resp = fmt.Sprintf("after follow-up %s (%s %s)", name, rq.Method, rq.URL)
				o.Stderr = c20DeathReport(n)
				return
			}
		}
	}
	var o2 c20Obs
	st, isDead, err := c20Quiesce(w, &o2)
	if isDead {
		o.Dead = true
		o.Resp = "after the follow-ups"
		o.Stderr = c20DeathReport(n)
		return
	}
	must(err, "settle after follow-ups")
	w.goroutines = st.Goroutines
	if !st.Settled {
		w.goroutines = 0
	}
	if o2.Wedged != "" && o.Wedged == "" {
		o.Wedged = "after the follow-ups: " + o2.Wedged
	}
	if rep := node.ScanPanics(n.StderrSince(mark)); rep.Background && o.BgPanic == "" {
		o.BgPanic = "during the follow-ups: " + truncStr(rep.Excerpt, 1500)
	}
}

// ---- sampling of the table in the quick tier --------------------------------------------------

func c20Hash(parts ...interface{}) uint64 {
	h := uint64(1469598103934665603)
	for _, b := range []byte(fmt.Sprint(parts...)) {
		h ^= uint64(b)
		h *= 1099511628211
	}
	return h
}

// c20GrowthClass: the mutation classes added by the growth round (arity of fixed lists, numbers and
// names inside strings, version references): the quick tier runs all of their cases.
var c20GrowthClass = map[string]bool{"jshort": true, "jlong": true, "jempty": true, "numnonnum": true, "numzero": true, "numneg": true,
	"numhuge": true, "syncself": true, "syncmissing": true, "syncwrongtype": true, "syncdup": true, "syncmulti": true, "syncempty": true,
	"refunknown": true, "refopen": true, "refdup": true}

// sampleCases: the thorough tier runs every case of the table; the quick tier runs every case of the
// first-round rows' fields, every geometry case, every committed-version case, every case of the classes
// added by the growth round, and a seeded sample of the other request-level cases and of the other
// cases of the rows added later (flag "g2").
func (d *c20Driver) sampleCases(ep *hEndpoint, cs []*hCase) []*hCase {
	if d.c.thorough() {
		return cs
	}
	var out []*hCase
	for _, c := range cs {
		keep := true
		switch {
		case c.Part == "geom":
		case c.Part == "req":
			// (the committed-version case of every mutating row is cheap: it is refused and compared in a window)
			keep = c.Cls == "locked" || c20Hash(d.c.Seed, ep.Name, c.Cls)%5 == 0
		case ep.Flags.has("g2"):
			keep = c20GrowthClass[c.Cls] || c20Hash(d.c.Seed, ep.Name, c.Part, c.Pos, c.Cls)%3 == 0
		}
		if keep {
			out = append(out, c)
		} else {
			d.sampledOut++
		}
	}
	if len(out) == 0 && len(cs) > 0 {
		// every row runs at least one case (and with it its positive control)
		out = append(out, cs[c20Hash(d.c.Seed, ep.Name)%uint64(len(cs))])
		d.sampledOut--
	}
	return out
}
