package main

// Endpoint implementations of the rows added to specs/Hostile.tla by the growth round
// (GrowthEndpoints): instance metadata, voxel types, multi-scale labelmap, repository / version /
// server level routes, the older label stack, label counts, blobs per supervoxel, tiles, read-side
// format options.

import (
	"fmt"
	"math/rand"
)

func jfix(n *jnode) *jnode { return n }

// jres: a resolution / point as a JSON list of three numbers.
func jres(name string, names [3]string, v [3]int64) *jnode {
	return jlist(name, jint(names[0], v[0]), jint(names[1], v[1]), jint(names[2], v[2]))
}

func jextents(min, max [3]int64) *jnode {
	return jobj("root",
		jres("MinPoint", [3]string{"MinPoint.x", "MinPoint.y", "MinPoint.z"}, min).key("MinPoint"),
		jres("MaxPoint", [3]string{"MaxPoint.x", "MaxPoint.y", "MaxPoint.z"}, max).key("MaxPoint"))
}

func jtags(rng *rand.Rand) *jnode {
	return jobj("root", jstr("owner", fmt.Sprintf("o%d", rng.Intn(100))).key("owner"), jstr("type", "meshes").key("type"))
}

func c20EndpointsMore() []*c20EP {
	resolution := func(w *c20World, rng *rand.Rand) *jnode {
		return jres("root", [3]string{"rx", "ry", "rz"}, [3]int64{8, 8, int64(8 + rng.Intn(3))})
	}
	extents := func(w *c20World, rng *rand.Rand) *jnode {
		return jextents([3]int64{0, 0, 0}, [3]int64{int64(200 + rng.Intn(50)), 127, 127})
	}
	tags := func(w *c20World, rng *rand.Rand) *jnode { return jtags(rng) }
	one := func(v string) func(w *c20World, rng *rand.Rand) []string {
		return func(w *c20World, rng *rand.Rand) []string { return []string{v} }
	}
	bsz := fmt.Sprintf("%d_%d_%d", c20BS, c20BS, c20BS)
	vol3 := func(off string) func(w *c20World, rng *rand.Rand) []string {
		return func(w *c20World, rng *rand.Rand) []string { return []string{"0_1_2", bsz, off} }
	}
	eps := []*c20EP{
		// ---- instance metadata
		{name: "lm.resolution", method: "POST", params: noParams, url: nodeURL("lm", "resolution"), js: resolution},
		{name: "lm.extents", method: "POST", params: noParams, url: nodeURL("lm", "extents"), js: extents},
		{name: "lm.info", method: "POST", params: noParams, url: nodeURL("lm", "info"),
			js: func(w *c20World, rng *rand.Rand) *jnode {
				return jobj("root", jstr("MaxDownresLevel", fmt.Sprint(rng.Intn(2))).key("MaxDownresLevel"))
			}},
		{name: "lm.tags", method: "POST", params: noParams, url: nodeURL("lm", "tags"), js: tags},
		{name: "gray.resolution", method: "POST", params: noParams, url: nodeURL("gray", "resolution"), js: resolution},
		{name: "gray.extents", method: "POST", params: noParams, url: nodeURL("gray", "extents"), js: extents},
		{name: "ann.sync", method: "POST", params: noParams, url: nodeURL("ann", "sync"),
			js: func(w *c20World, rng *rand.Rand) *jnode { return jobj("root", jstr("sync", "lm").key("sync")) }},
		{name: "ann.tags", method: "POST", params: noParams, url: nodeURL("ann", "tags"), js: tags},
		{name: "nj.tags", method: "POST", params: noParams, url: nodeURL("nj", "tags"), js: tags},
		// ---- dense voxel blocks
		{name: "gray.blocks", method: "POST", params: func(w *c20World, rng *rand.Rand) []string { return []string{"2_1_0", "2"} }, url: nodeURL("gray", "blocks/{0}/{1}"),
			bin: func(w *c20World, rng *rand.Rand) *bnode {
				return bgroup(bleaf("voxels", "blob", "raw", c20Gray(c20BS, c20BS, 2*c20BS, rng.Intn(100))))
			}},
		// ---- second world
		{name: "lms.blocks.downres", method: "POST", params: noParams, url: nodeURL("lms", "blocks?downres=true"), bin: blockStream},
		{name: "lms.blocks.scale", method: "POST", params: one("1"), url: nodeURL("lms", "blocks?scale={0}"), bin: blockStream},
		{name: "lms.blocks.noindex", method: "POST", params: noParams, url: nodeURL("lms", "blocks?noindexing=true"), bin: blockStream},
		{name: "lms.ingest.scale", method: "POST", params: one("1"), url: nodeURL("lms", "ingest-supervoxels?scale={0}"), bin: blockStream},
		{name: "lms.raw", method: "POST", params: vol3("64_32_0"), url: nodeURL("lms", "raw/{0}/{1}/{2}"),
			bin: func(w *c20World, rng *rand.Rand) *bnode {
				l := uint64(40 + rng.Intn(5))
				return bgroup(bleaf("voxels", "blob", "raw", c20Volume(c20BS, c20BS, c20BS, func(x, y, z int) uint64 { return l + uint64(x/16) })))
			}},
		{name: "lms.getraw.scale", method: "GET", params: one("1"), url: nodeURL("lms", "raw/0_1_2/"+bsz+"/0_0_0?scale={0}")},
		{name: "lms.getblocks.scale", method: "GET", params: one("1"), url: nodeURL("lms", "blocks/"+bsz+"/0_0_0?scale={0}")},
		{name: "lms.specificblocks.scale", method: "GET", params: func(w *c20World, rng *rand.Rand) []string { return []string{"0,0,0", "2"} },
			url: nodeURL("lms", "specificblocks?blocks={0}&scale={1}")},
		{name: "lms.sparsevol.scale", method: "GET", params: func(w *c20World, rng *rand.Rand) []string { return []string{"1", "1"} },
			url: nodeURL("lms", "sparsevol/{0}?scale={1}")},
	}
	for _, g := range []struct {
		name string
		bpv  int
	}{{"g16", 2}, {"rgba", 4}} {
		g := g
		eps = append(eps,
			&c20EP{name: g.name + ".raw", method: "POST", params: vol3("64_32_0"), url: nodeURL(g.name, "raw/{0}/{1}/{2}"),
				bin: func(w *c20World, rng *rand.Rand) *bnode {
					return bgroup(bleaf("voxels", "blob", "raw", c20Bytes(c20BS*c20BS*c20BS*g.bpv, rng.Intn(100))))
				}},
			&c20EP{name: g.name + ".blocks", method: "POST", params: func(w *c20World, rng *rand.Rand) []string { return []string{"2_1_0", "2"} }, url: nodeURL(g.name, "blocks/{0}/{1}"),
				bin: func(w *c20World, rng *rand.Rand) *bnode {
					return bgroup(bleaf("voxels", "blob", "raw", c20Bytes(2*c20BS*c20BS*c20BS*g.bpv, rng.Intn(100))))
				}},
			&c20EP{name: g.name + ".getraw", method: "GET", params: vol3("0_0_0"), url: nodeURL(g.name, "raw/{0}/{1}/{2}")})
	}
	// ---- repository, version and server level
	abs := func(f func(w *c20World) string) func(w *c20World, p []string) string {
		return func(w *c20World, p []string) string { return f(w) }
	}
	alias := func(w *c20World, rng *rand.Rand) *jnode {
		return jobj("root", jstr("alias", fmt.Sprintf("alias%d", rng.Intn(1000))).key("alias"), jstr("description", "a description").key("description"))
	}
	logObj := func(w *c20World, rng *rand.Rand) *jnode {
		return jobj("root", jlist("log", jstr("log.1", fmt.Sprintf("entry %d", rng.Intn(1000)))).key("log"))
	}
	noteObj := func(w *c20World, rng *rand.Rand) *jnode {
		return jobj("root", jstr("note", fmt.Sprintf("note %d", rng.Intn(1000))).key("note"))
	}
	parents := func(w *c20World) *jnode {
		p1, p2 := w.committedBranch(), w.committedBranch()
		a, b := jstr("parents.1", p1), jstr("parents.2", p2)
		a.Alt, b.Alt = p2, p1
		return jlist("parents", a, b).key("parents")
	}
	eps = append(eps,
		&c20EP{name: "repos.new", method: "POST", params: noParams, url: abs(func(w *c20World) string { return "/api/repos" }), js: alias},
		&c20EP{name: "repo.info", method: "POST", params: noParams, url: abs(func(w *c20World) string { return "/api/repo/" + w.root + "/info" }), js: alias},
		&c20EP{name: "repo.log", method: "POST", params: noParams, url: abs(func(w *c20World) string { return "/api/repo/" + w.root + "/log" }), js: logObj},
		&c20EP{name: "repo.merge", method: "POST", params: noParams, url: abs(func(w *c20World) string { return "/api/repo/" + w.root + "/merge" }),
			js: func(w *c20World, rng *rand.Rand) *jnode {
				return jobj("root", jstr("mergeType", "conflict-free").key("mergeType"), jstr("note", "hostile merge").key("note"), parents(w))
			}},
		&c20EP{name: "repo.resolve", method: "POST", params: noParams, url: abs(func(w *c20World) string { return "/api/repo/" + w.root + "/resolve" }),
			js: func(w *c20World, rng *rand.Rand) *jnode {
				return jobj("root", jlist("data", jstr("data.1", "kv")).key("data"), jstr("note", "hostile resolve").key("note"), parents(w))
			}},
		&c20EP{name: "node.note", method: "POST", params: noParams, url: abs(func(w *c20World) string { return "/api/node/" + w.a + "/note" }), js: noteObj},
		&c20EP{name: "node.log", method: "POST", params: noParams, url: abs(func(w *c20World) string { return "/api/node/" + w.a + "/log" }), js: logObj},
		&c20EP{name: "node.newversion", method: "POST", params: noParams, url: abs(func(w *c20World) string { return "/api/node/" + w.lastCommitted + "/newversion" }),
			js: func(w *c20World, rng *rand.Rand) *jnode {
				w.committedBranch()
				return noteObj(w, rng)
			}},
		&c20EP{name: "node.tag", method: "POST", params: noParams, url: abs(func(w *c20World) string { return "/api/node/" + w.lastCommitted + "/tag" }),
			js: func(w *c20World, rng *rand.Rand) *jnode {
				w.committedBranch()
				w.ninst++
				return jobj("root", jstr("tag", fmt.Sprintf("tag%d", w.ninst)).key("tag"), jstr("note", "a tag").key("note"))
			}},
		&c20EP{name: "server.settings", method: "POST", params: noParams, url: abs(func(w *c20World) string { return "/api/server/settings" }),
			js: func(w *c20World, rng *rand.Rand) *jnode {
				return jobj("root", jstr("gc", fmt.Sprint(100+rng.Intn(50))).key("gc"), jstr("throttle", fmt.Sprint(5+rng.Intn(20))).key("throttle"))
			}},
		&c20EP{name: "server.reloadauth", method: "POST", params: noParams, url: abs(func(w *c20World) string { return "/api/server/reload-auth" })},
		&c20EP{name: "server.reloadblocklist", method: "POST", params: noParams, url: abs(func(w *c20World) string { return "/api/server/reload-blocklist" })})
	// ---- third world
	pt := func(v string) func(w *c20World, rng *rand.Rand) []string {
		return func(w *c20World, rng *rand.Rand) []string { return []string{v} }
	}
	lvol := func(w *c20World, rng *rand.Rand) *bnode {
		l := uint64(40 + rng.Intn(5))
		return bgroup(bleaf("voxels", "blob", "raw", c20Volume(c20BS, c20BS, c20BS, func(x, y, z int) uint64 { return l + uint64(x/16) })))
	}
	fineSplit := func(w *c20World, rng *rand.Rand) *bnode {
		return rlePayload([][4]int32{{0, 0, int32(rng.Intn(8)), 8}, {0, 1, 3, 8}, {32, 2, 5, 8}})
	}
	coarseSplit := func(w *c20World, rng *rand.Rand) *bnode {
		// (label 5 occupies the four blocks with z = 1 after the merge at v1: three of them)
		return rlePayload([][4]int32{{0, 0, 1, 1}, {1, 0, 1, 1}, {0, 1, 1, 1}})
	}
	sizeOff := func(w *c20World, rng *rand.Rand) []string { return []string{bsz, "0_0_0"} }
	tile := func(w *c20World, rng *rand.Rand) []string { return []string{"xy", "0", "1_0_0"} }
	eps = append(eps,
		&c20EP{name: "lb.raw", method: "POST", params: vol3("64_32_0"), url: nodeURL("lb", "raw/{0}/{1}/{2}"), bin: lvol},
		&c20EP{name: "lb.getraw", method: "GET", params: vol3("0_0_0"), url: nodeURL("lb", "raw/{0}/{1}/{2}")},
		&c20EP{name: "lb.getlabel", method: "GET", params: pt("8_9_10"), url: nodeURL("lb", "label/{0}")},
		&c20EP{name: "lb.getblocks", method: "GET", params: sizeOff, url: nodeURL("lb", "blocks/{0}/{1}")},
		&c20EP{name: "lb.resolution", method: "POST", params: noParams, url: nodeURL("lb", "resolution"), js: resolution},
		&c20EP{name: "lv.split", method: "POST", params: pt("1"), url: nodeURL("lv", "split/{0}"), bin: fineSplit},
		&c20EP{name: "lv.splitcoarse", method: "POST", params: pt("5"), url: nodeURL("lv", "split-coarse/{0}"), bin: coarseSplit},
		&c20EP{name: "lv.merge", method: "POST", params: noParams, url: nodeURL("lv", "merge"),
			js: func(w *c20World, rng *rand.Rand) *jnode { return jlabels(1, 2, 4) }},
		&c20EP{name: "lv.resync", method: "POST", params: pt("1"), url: nodeURL("lv", "resync/{0}"),
			bin: func(w *c20World, rng *rand.Rand) *bnode { return rlePayload([][4]int32{{0, 0, 0, 2}, {0, 1, 0, 2}, {0, 0, 1, 1}}) }},
		&c20EP{name: "lv.sparsevol", method: "GET", params: pt("1"), url: nodeURL("lv", "sparsevol/{0}")},
		&c20EP{name: "lv.sparsevolbypoint", method: "GET", params: pt("8_9_10"), url: nodeURL("lv", "sparsevol-by-point/{0}")},
		&c20EP{name: "lv.sparsevolcoarse", method: "GET", params: pt("1"), url: nodeURL("lv", "sparsevol-coarse/{0}")},
		&c20EP{name: "la.blocks", method: "POST", params: noParams, url: nodeURL("la", "blocks"), bin: blockStream},
		&c20EP{name: "la.raw", method: "POST", params: vol3("64_32_0"), url: nodeURL("la", "raw/{0}/{1}/{2}"), bin: lvol},
		&c20EP{name: "la.getraw", method: "GET", params: vol3("0_0_0"), url: nodeURL("la", "raw/{0}/{1}/{2}")},
		&c20EP{name: "la.getblocks", method: "GET", params: sizeOff, url: nodeURL("la", "blocks/{0}/{1}")},
		&c20EP{name: "la.specificblocks", method: "GET", params: pt("0,0,0"), url: nodeURL("la", "specificblocks?blocks={0}")},
		&c20EP{name: "la.merge", method: "POST", params: noParams, url: nodeURL("la", "merge"),
			js: func(w *c20World, rng *rand.Rand) *jnode { return jlabels(1, 2, 4) }},
		&c20EP{name: "la.split", method: "POST", params: pt("1"), url: nodeURL("la", "split/{0}"), bin: fineSplit},
		&c20EP{name: "la.splitcoarse", method: "POST", params: pt("5"), url: nodeURL("la", "split-coarse/{0}"), bin: coarseSplit},
		&c20EP{name: "la.sparsevol", method: "GET", params: pt("1"), url: nodeURL("la", "sparsevol/{0}")},
		&c20EP{name: "lann.elements", method: "POST", params: noParams, url: nodeURL("ann", "elements"),
			js: func(w *c20World, rng *rand.Rand) *jnode {
				x := 3 + rng.Intn(10)
				return jlist("root",
					jelement(x, 5, 6, "PostSyn", "t1", "PostSynTo", [3]int{x + 14, 5, 6}),
					jelement(x+14, 5, 6, "PreSyn", "t2", "PreSynTo", [3]int{x, 5, 6}))
			}},
		&c20EP{name: "lann.delete", method: "DELETE", params: pt("40_40_10"), url: nodeURL("ann", "element/{0}")},
		&c20EP{name: "lsz.count", method: "GET", params: func(w *c20World, rng *rand.Rand) []string { return []string{"1", "PostSyn"} }, url: nodeURL("lsz", "count/{0}/{1}")},
		&c20EP{name: "lsz.counts", method: "GET", params: pt("AllSyn"), url: nodeURL("lsz", "counts/{0}"),
			js: func(w *c20World, rng *rand.Rand) *jnode { return jlabels(1, 2) }},
		&c20EP{name: "lsz.top", method: "GET", params: func(w *c20World, rng *rand.Rand) []string { return []string{"3", "PreSyn"} }, url: nodeURL("lsz", "top/{0}/{1}")},
		&c20EP{name: "lsz.threshold", method: "GET", params: func(w *c20World, rng *rand.Rand) []string { return []string{"1", "AllSyn", "0", "10"} },
			url: nodeURL("lsz", "threshold/{0}/{1}?offset={2}&n={3}")},
		&c20EP{name: "lsz.reload", method: "POST", params: noParams, url: nodeURL("lsz", "reload")},
		&c20EP{name: "lsz.sync", method: "POST", params: noParams, url: nodeURL("lsz", "sync"),
			js: func(w *c20World, rng *rand.Rand) *jnode { return jobj("root", jstr("sync", "ann").key("sync")) }},
		&c20EP{name: "tsv.load", method: "POST", params: noParams, url: nodeURL("tsv", "load"),
			bin: func(w *c20World, rng *rand.Rand) *bnode {
				return tarTree([][2]string{{"3.dat", fmt.Sprintf("blob of supervoxel 3, %d", rng.Intn(1000))}, {"4.dat", "blob of supervoxel 4"}})
			}},
		&c20EP{name: "tsv.supervoxel", method: "POST", params: pt("6"), url: nodeURL("tsv", "supervoxel/{0}"),
			bin: func(w *c20World, rng *rand.Rand) *bnode {
				v := make([]byte, 20+rng.Intn(200))
				rng.Read(v)
				return bgroup(bleaf("value", "rest", "raw", v))
			}},
		&c20EP{name: "tsv.getsupervoxel", method: "GET", params: pt("1"), url: nodeURL("tsv", "supervoxel/{0}")},
		&c20EP{name: "tsv.tarfile", method: "GET", params: pt("1"), url: nodeURL("tsv", "tarfile/{0}")},
		&c20EP{name: "tsv.missing", method: "GET", params: pt("5"), url: nodeURL("tsv", "missing/{0}")},
		&c20EP{name: "tsv.exists", method: "GET", params: noParams, url: nodeURL("tsv", "exists"),
			js: func(w *c20World, rng *rand.Rand) *jnode { return jlabels(1, 3) }},
		&c20EP{name: "tiles.metadata", method: "POST", params: noParams, url: nodeURL("tiles", "metadata"),
			js: func(w *c20World, rng *rand.Rand) *jnode {
				r := int64(10 + rng.Intn(3))
				lvl := jobj("level0",
					jres("Resolution", [3]string{"res.x", "res.y", "res.z"}, [3]int64{r, r, r}).key("Resolution"),
					jres("TileSize", [3]string{"ts.x", "ts.y", "ts.z"}, [3]int64{32, 32, 32}).key("TileSize")).key("0")
				return jobj("root",
					jres("MinTileCoord", [3]string{"min.x", "min.y", "min.z"}, [3]int64{0, 0, 0}).key("MinTileCoord"),
					jres("MaxTileCoord", [3]string{"max.x", "max.y", "max.z"}, [3]int64{3, 3, 3}).key("MaxTileCoord"),
					jobj("Levels", lvl).key("Levels"))
			}},
		&c20EP{name: "tiles.tile", method: "POST", params: tile, url: nodeURL("tiles", "tile/{0}/{1}/{2}"),
			bin: func(w *c20World, rng *rand.Rand) *bnode { return bgroup(bleaf("image", "rest", "raw", c20PNG(32, 32, rng.Intn(100)))) }},
		&c20EP{name: "tiles.gettile", method: "GET", params: func(w *c20World, rng *rand.Rand) []string { return []string{"xy", "0", "0_0_0"} }, url: nodeURL("tiles", "tile/{0}/{1}/{2}")},
		&c20EP{name: "tiles.tilekey", method: "GET", params: func(w *c20World, rng *rand.Rand) []string { return []string{"xy", "0", "0_0_0"} }, url: nodeURL("tiles", "tilekey/{0}/{1}/{2}")},
		&c20EP{name: "tiles.getraw", method: "GET", params: func(w *c20World, rng *rand.Rand) []string { return []string{"0_1", "30_30", "0_0_0"} }, url: nodeURL("tiles", "raw/{0}/{1}/{2}")})
	// ---- read-side format options and endpoints of the first-round datatypes that were not in the table
	pick := func(rng *rand.Rand, vs ...string) string { return vs[rng.Intn(len(vs))] }
	tf := func(rng *rand.Rand) string { return pick(rng, "true", "false") }
	eps = append(eps,
		&c20EP{name: "lm.getblocks.fmt", method: "GET", url: nodeURL("lm", "blocks/64_64_64/0_0_0?compression={0}&supervoxels={1}"),
			params: func(w *c20World, rng *rand.Rand) []string {
				return []string{pick(rng, "lz4", "gzip", "blocks", "uncompressed"), tf(rng)}
			}},
		&c20EP{name: "lm.specificblocks.fmt", method: "GET", url: nodeURL("lm", "specificblocks?blocks=0,0,0,1,0,0&compression={0}&supervoxels={1}"),
			params: func(w *c20World, rng *rand.Rand) []string {
				return []string{pick(rng, "lz4", "gzip", "blocks", "uncompressed"), tf(rng)}
			}},
		&c20EP{name: "lm.sparsevol.fmt", method: "GET", url: nodeURL("lm", "sparsevol/{0}?format={1}&minx={2}&maxx={3}&exact={4}"),
			params: func(w *c20World, rng *rand.Rand) []string {
				return []string{"1", pick(rng, "rles", "srles", "blocks"), fmt.Sprint(rng.Intn(20)), fmt.Sprint(30 + rng.Intn(30)), tf(rng)}
			}},
		&c20EP{name: "lm.getraw.fmt", method: "GET", url: nodeURL("lm", "raw/0_1_2/"+bsz+"/0_0_0?compression={0}"),
			params: func(w *c20World, rng *rand.Rand) []string { return []string{pick(rng, "lz4", "gzip", "google", "googlegzip")} }},
		&c20EP{name: "lm.headsparsevol", method: "HEAD", params: pt("1"), url: nodeURL("lm", "sparsevol/{0}")},
		&c20EP{name: "gray.getraw.fmt", method: "GET", url: nodeURL("gray", "raw/0_1/48_40/3_4_5/{0}?compression={1}"),
			params: func(w *c20World, rng *rand.Rand) []string { return []string{pick(rng, "png", "jpg", "jpg:80"), pick(rng, "lz4", "gzip")} }},
		&c20EP{name: "kv.delkey", method: "DELETE", params: pt("t1"), url: nodeURL("kv", "key/{0}")},
		&c20EP{name: "kv.headkey", method: "HEAD", params: pt("t1"), url: nodeURL("kv", "key/{0}")},
		&c20EP{name: "kv.getkeyvalues.pb", method: "GET", params: noParams, url: nodeURL("kv", "keyvalues"),
			bin: func(w *c20World, rng *rand.Rand) *bnode {
				k1, k2 := bleaf("k", "blob", "raw", []byte("c1")), bleaf("k", "blob", "raw", []byte("t1"))
				return bgroup(pbTag("k.tag", 1, 2), blen("k.len", "varint", k1), k1, pbTag("k.tag", 1, 2), blen("k.len", "varint", k2), k2)
			}},
		&c20EP{name: "kv.getkeyvalues.tar", method: "GET", params: noParams, url: nodeURL("kv", "keyvalues?jsontar=true"),
			js: func(w *c20World, rng *rand.Rand) *jnode { return jlist("root", jstr("key", "c1"), jstr("key", "t1")) }},
		&c20EP{name: "nj.schema", method: "POST", url: nodeURL("nj", "{0}"),
			params: func(w *c20World, rng *rand.Rand) []string { return []string{pick(rng, "json_schema", "schema", "schema_batch")} },
			js: func(w *c20World, rng *rand.Rand) *jnode {
				return jobj("root", jstr("type", "object").key("type"),
					jobj("properties", jobj("bodyid", jstr("bodyid.type", "integer").key("type")).key("bodyid")).key("properties"))
			}},
		&c20EP{name: "nj.delkey", method: "DELETE", params: pt("1001"), url: nodeURL("nj", "key/{0}")},
		&c20EP{name: "nj.key.cond", method: "POST", url: nodeURL("nj", "key/{0}?u=hostile&conditionals={1}&replace={2}"),
			params: func(w *c20World, rng *rand.Rand) []string { return []string{"1001", pick(rng, "type", "type,status", "syn"), tf(rng)} },
			js: func(w *c20World, rng *rand.Rand) *jnode {
				return jobj("root", jint("bodyid", 1001).key("bodyid"), jstr("type", "MBON").key("type"), jstr("status", "Anchor").key("status"),
					jlist("soma", jint("soma.x", 1), jint("soma.y", 2), jint("soma.z", int64(rng.Intn(9)))).key("soma"), jint("syn", int64(rng.Intn(50))).key("syn"))
			}},
		&c20EP{name: "nj.fieldtimes", method: "GET", params: noParams, url: nodeURL("nj", "fieldtimes")},
		&c20EP{name: "ann.roi", method: "GET", params: pt("roi"), url: nodeURL("ann", "roi/{0}")},
		&c20EP{name: "ann.scan", method: "GET", params: func(w *c20World, rng *rand.Rand) []string { return []string{tf(rng), tf(rng)} }, url: nodeURL("ann", "scan?byCoord={0}&keysOnly={1}")},
		&c20EP{name: "ann.reload", method: "POST", params: func(w *c20World, rng *rand.Rand) []string { return []string{tf(rng), tf(rng)} }, url: nodeURL("ann", "reload?check={0}&inmemory={1}")},
		&c20EP{name: "ann.labels", method: "POST", params: noParams, url: nodeURL("ann", "labels"),
			js: func(w *c20World, rng *rand.Rand) *jnode {
				x := 3 + rng.Intn(10)
				el := jstr("elems", string(c20JSON([]map[string]interface{}{c20Elem(x, 7, 8, "PostSyn", []string{"t1"}, "", [3]int{})})))
				el.Key = "1"
				el.KeyF = &jnode{Name: "labelkey", Kind: "jkey"}
				return jobj("root", el)
			}},
		&c20EP{name: "roi.delete", method: "DELETE", params: noParams, url: nodeURL("roi", "roi")},
		&c20EP{name: "roi.partition.opt", method: "GET", params: func(w *c20World, rng *rand.Rand) []string { return []string{"2", "true"} }, url: nodeURL("roi", "partition?batchsize={0}&optimized={1}")},
		&c20EP{name: "lm.existinglabels", method: "GET", params: noParams, url: nodeURL("lm", "existing-labels")},
		&c20EP{name: "lm.mapstats", method: "GET", params: noParams, url: nodeURL("lm", "map-stats")},
		&c20EP{name: "lm.indicescompressed", method: "GET", params: noParams, url: nodeURL("lm", "indices-compressed"),
			js: func(w *c20World, rng *rand.Rand) *jnode { return jlabels(1, 5) }},
		&c20EP{name: "lm.mutations", method: "GET", params: pt("hostile"), url: nodeURL("lm", "mutations?userid={0}")})
	eps = append(eps,
		&c20EP{name: "g16.getblocks", method: "GET", params: func(w *c20World, rng *rand.Rand) []string { return []string{"0_0_0", "2"} }, url: nodeURL("g16", "blocks/{0}/{1}")},
		&c20EP{name: "rgba.getslice", method: "GET", params: func(w *c20World, rng *rand.Rand) []string { return []string{"0_1", "48_40", "3_4_5"} }, url: nodeURL("rgba", "raw/{0}/{1}/{2}")})
	return eps
}

func c20FollowImplsMore(m map[string]func(w *c20World) c20Req) {
	get := func(inst, rest string) func(w *c20World) c20Req {
		return func(w *c20World) c20Req { return c20Req{Method: "GET", URL: "/api/node/" + w.a + "/" + inst + "/" + rest} }
	}
	post := func(inst, rest string, body func(w *c20World) []byte) func(w *c20World) c20Req {
		return func(w *c20World) c20Req {
			var b []byte
			if body != nil {
				b = body(w)
			}
			return c20Req{Method: "POST", URL: "/api/node/" + w.a + "/" + inst + "/" + rest, Body: b}
		}
	}
	lit := func(s string) func(w *c20World) []byte { return func(w *c20World) []byte { return []byte(s) } }
	validStream := func(w *c20World) []byte {
		return c20EncB(blockStream(w, rand.New(rand.NewSource(int64(w.nreq)))))
	}
	more := map[string]func(w *c20World) c20Req{
		// --- multi-scale labelmap
		"lms.fu.raw0":      get("lms", "raw/0_1_2/128_64_64/0_0_0"),
		"lms.fu.raw1":      get("lms", "raw/0_1_2/64_32_32/0_0_0?scale=1"),
		"lms.fu.raw2":      get("lms", "raw/0_1_2/32_32_32/0_0_0?scale=2"),
		"lms.fu.blocks1":   get("lms", "blocks/64_32_32/0_0_0?scale=1&compression=uncompressed"),
		"lms.fu.specific2": get("lms", "specificblocks?blocks=0,0,0,1,0,0&scale=2&compression=gzip"),
		"lms.fu.sparsevol": get("lms", "sparsevol/11?format=rles"),
		"lms.fu.sparsevol1": get("lms", "sparsevol/1?format=rles&scale=1"),
		"lms.fu.rawpost": post("lms", "raw/0_1_2/32_32_32/64_0_0", func(w *c20World) []byte {
			return c20Volume(32, 32, 32, func(x, y, z int) uint64 { return 81 + uint64(x/16) })
		}),
		"lms.fu.blockspost.downres": post("lms", "blocks?downres=true", validStream),
		"lms.fu.merge":              post("lms", "merge", lit("[1,2]")),
	}
	for _, g := range []struct {
		name string
		bpv  int
	}{{"g16", 2}, {"rgba", 4}} {
		g := g
		more[g.name+".fu.info"] = get(g.name, "info")
		more[g.name+".fu.get"] = get(g.name, "raw/0_1_2/128_64_64/0_0_0")
		more[g.name+".fu.blocks"] = get(g.name, "blocks/2_1_0/2")
		more[g.name+".fu.slice"] = get(g.name, "raw/0_1/100_60/0_0_5")
		more[g.name+".fu.post"] = post(g.name, "raw/0_1_2/32_32_32/64_32_0", func(w *c20World) []byte { return c20Bytes(32*32*32*g.bpv, 9) })
	}
	del := func(inst, rest string) func(w *c20World) c20Req {
		return func(w *c20World) c20Req {
			return c20Req{Method: "DELETE", URL: "/api/node/" + w.a + "/" + inst + "/" + rest}
		}
	}
	vol32 := func(l uint64) func(w *c20World) []byte {
		return func(w *c20World) []byte {
			return c20Volume(32, 32, 32, func(x, y, z int) uint64 { return l + uint64(x/16) })
		}
	}
	split := func(w *c20World) []byte { return c20EncB(rlePayload([][4]int32{{0, 4, 2, 8}, {0, 5, 3, 8}})) }
	// --- third world
	more["lb.fu.info"] = get("lb", "info")
	more["lb.fu.metadata"] = get("lb", "metadata")
	more["lb.fu.get"] = get("lb", "raw/0_1_2/128_64_64/0_0_0")
	more["lb.fu.label"] = get("lb", "label/70_40_5")
	more["lb.fu.blocks"] = get("lb", "blocks/128_64_32/0_0_0")
	more["lb.fu.post"] = post("lb", "raw/0_1_2/32_32_32/64_0_0", vol32(81))
	more["lb.fu.lvsparsevol"] = get("lv", "sparsevol/81")
	more["lv.fu.sparsevol1"] = get("lv", "sparsevol/1")
	more["lv.fu.sparsevol5"] = get("lv", "sparsevol/5?minz=32&maxz=40")
	more["lv.fu.coarse"] = get("lv", "sparsevol-coarse/1")
	more["lv.fu.bypoint"] = get("lv", "sparsevol-by-point/40_40_40")
	more["lv.fu.lbget"] = get("lb", "raw/0_1_2/64_64_64/0_0_0")
	more["lv.fu.merge"] = post("lv", "merge", lit("[3,4]"))
	more["lv.fu.split"] = post("lv", "split/1", split)
	more["la.fu.get"] = get("la", "raw/0_1_2/128_64_64/0_0_0")
	more["la.fu.blocks"] = get("la", "blocks/128_64_32/0_0_0")
	more["la.fu.specific"] = get("la", "specificblocks?blocks=2,0,0,3,0,0,0,0,0&compression=gzip")
	more["la.fu.sparsevol1"] = get("la", "sparsevol/1")
	more["la.fu.coarse"] = get("la", "sparsevol-coarse/11")
	more["la.fu.post"] = post("la", "raw/0_1_2/32_32_32/64_0_0", vol32(81))
	more["la.fu.merge"] = post("la", "merge", lit("[3,4]"))
	more["la.fu.split"] = post("la", "split/1", split)
	more["lann.fu.post"] = post("ann", "elements", func(w *c20World) []byte {
		return c20JSON([]map[string]interface{}{c20Elem(12, 12, 12, "PostSyn", []string{"fu"}, "PostSynTo", [3]int{20, 10, 10})})
	})
	more["lann.fu.label"] = get("ann", "label/1?relationships=true")
	more["lann.fu.count"] = get("lsz", "count/1/PostSyn")
	more["lann.fu.top"] = get("lsz", "top/5/AllSyn")
	more["lann.fu.delete"] = del("ann", "element/12_12_12")
	more["lsz.fu.threshold"] = get("lsz", "threshold/1/AllSyn")
	more["tsv.fu.get"] = get("tsv", "supervoxel/3")
	more["tsv.fu.tarfile"] = get("tsv", "tarfile/1")
	more["tsv.fu.missing"] = get("tsv", "missing/5")
	more["tsv.fu.exists"] = func(w *c20World) c20Req {
		return c20Req{Method: "GET", URL: "/api/node/" + w.a + "/tsv/exists", Body: []byte("[1,2,3,6]")}
	}
	more["tsv.fu.post"] = post("tsv", "supervoxel/7", lit("follow-up blob"))
	more["tiles.fu.metadata"] = get("tiles", "metadata")
	more["tiles.fu.tile"] = get("tiles", "tile/xy/0/1_0_0")
	more["tiles.fu.tile1"] = get("tiles", "tile/xy/1/0_0_0")
	more["tiles.fu.raw"] = get("tiles", "raw/0_1/60_30/0_0_0")
	more["tiles.fu.post"] = post("tiles", "tile/xy/0/1_0_0", func(w *c20World) []byte { return c20PNG(32, 32, 7) })
	more["srv.fu.info"] = func(w *c20World) c20Req { return c20Req{Method: "GET", URL: "/api/server/info"} }
	more["srv.fu.throttled"] = get("gray", "raw/0_1_2/32_32_32/0_0_0?throttle=on")
	more["srv.fu.kv"] = post("kv", "key/fu2", lit("after a settings change"))
	for k, v := range more {
		m[k] = v
	}
}

// c20SyncMulti: two partners at once for the sync request of an instance.
var c20SyncMulti = map[string][]string{
	"ann": {"lm,lm2", "lm2,lm", "lm,lmi"},
	"lsz": {"ann,ann", "ann,lb"},
}

// tarTree: a tar archive as a tree of structural fields (header, padded content, ..., end marker).
func tarTree(files [][2]string) *bnode {
	raw := c20Tar(files)
	var kids []*bnode
	pos := 0
	for _, f := range files {
		n := (len(f[1]) + 511) / 512 * 512
		kids = append(kids, bleaf("hdr", "hdr", "raw", raw[pos:pos+512]), bleaf("content", "blob", "raw", raw[pos+512:pos+512+n]))
		pos += 512 + n
	}
	kids = append(kids, bleaf("end", "rest", "raw", raw[pos:]))
	return bgroup(kids...)
}
