module verifharness

go 1.23.0

require (
	github.com/blang/semver v3.5.1+incompatible
	github.com/janelia-flyem/dvid v0.0.0
	github.com/janelia-flyem/go v0.0.0-20180718195536-d388bdc31871
	github.com/valyala/gorpc v0.0.0-20160519171614-908281bef774
	google.golang.org/protobuf v1.33.0
)

require (
	cloud.google.com/go v0.110.0 // indirect
	cloud.google.com/go/compute/metadata v0.2.3 // indirect
	cloud.google.com/go/iam v0.13.0 // indirect
	cloud.google.com/go/storage v1.28.1 // indirect
	github.com/BurntSushi/toml v1.0.0 // indirect
	github.com/DmitriyVTitov/size v1.5.0 // indirect
	github.com/Shopify/sarama v1.32.0 // indirect
	github.com/aws/aws-sdk-go v1.40.34 // indirect
	github.com/aws/aws-sdk-go-v2 v1.9.0 // indirect
	github.com/aws/aws-sdk-go-v2/config v1.7.0 // indirect
	github.com/aws/aws-sdk-go-v2/credentials v1.4.0 // indirect
	github.com/aws/aws-sdk-go-v2/feature/ec2/imds v1.5.0 // indirect
	github.com/aws/aws-sdk-go-v2/internal/ini v1.2.2 // indirect
	github.com/aws/aws-sdk-go-v2/service/internal/presigned-url v1.3.0 // indirect
	github.com/aws/aws-sdk-go-v2/service/sso v1.4.0 // indirect
	github.com/aws/aws-sdk-go-v2/service/sts v1.7.0 // indirect
	github.com/aws/smithy-go v1.8.0 // indirect
	github.com/cespare/xxhash v1.1.0 // indirect
	github.com/cespare/xxhash/v2 v2.2.0 // indirect
	github.com/coocood/freecache v1.2.1 // indirect
	github.com/davecgh/go-spew v1.1.1 // indirect
	github.com/dgraph-io/badger/v3 v3.2103.2 // indirect
	github.com/dgraph-io/ristretto v0.1.0 // indirect
	github.com/dustin/go-humanize v1.0.0 // indirect
	github.com/eapache/go-resiliency v1.2.0 // indirect
	github.com/eapache/go-xerial-snappy v0.0.0-20180814174437-776d5712da21 // indirect
	github.com/eapache/queue v1.1.0 // indirect
	github.com/gogo/protobuf v1.3.2 // indirect
	github.com/golang-jwt/jwt/v4 v4.5.2 // indirect
	github.com/golang/glog v1.2.4 // indirect
	github.com/golang/groupcache v0.0.0-20210331224755-41bb18bfe9da // indirect
	github.com/golang/protobuf v1.5.3 // indirect
	github.com/golang/snappy v0.0.4 // indirect
	github.com/google/flatbuffers v1.12.1 // indirect
	github.com/google/go-cmp v0.6.0 // indirect
	github.com/google/uuid v1.3.0 // indirect
	github.com/google/wire v0.5.0 // indirect
	github.com/googleapis/enterprise-certificate-proxy v0.2.3 // indirect
	github.com/googleapis/gax-go/v2 v2.7.1 // indirect
	github.com/hashicorp/go-uuid v1.0.2 // indirect
	github.com/janelia-flyem/protolog v0.0.0-20191102211808-ce1a9ba02c03 // indirect
	github.com/jcmturner/aescts/v2 v2.0.0 // indirect
	github.com/jcmturner/dnsutils/v2 v2.0.0 // indirect
	github.com/jcmturner/gofork v1.0.0 // indirect
	github.com/jcmturner/gokrb5/v8 v8.4.2 // indirect
	github.com/jcmturner/rpc/v2 v2.0.3 // indirect
	github.com/jmespath/go-jmespath v0.4.0 // indirect
	github.com/klauspost/compress v1.14.4 // indirect
	github.com/natefinch/lumberjack v2.0.0+incompatible // indirect
	github.com/pierrec/lz4 v2.6.1+incompatible // indirect
	github.com/pkg/errors v0.9.1 // indirect
	github.com/rcrowley/go-metrics v0.0.0-20201227073835-cf1acfcdf475 // indirect
	github.com/rs/cors v1.8.2 // indirect
	github.com/santhosh-tekuri/jsonschema/v5 v5.0.1 // indirect
	github.com/twinj/uuid v1.0.0 // indirect
	github.com/zenazn/goji v1.0.1 // indirect
	go.opencensus.io v0.24.0 // indirect
	gocloud.dev v0.24.0 // indirect
	golang.org/x/crypto v0.36.0 // indirect
	golang.org/x/net v0.38.0 // indirect
	golang.org/x/oauth2 v0.7.0 // indirect
	golang.org/x/sys v0.31.0 // indirect
	golang.org/x/text v0.23.0 // indirect
	golang.org/x/xerrors v0.0.0-20220907171357-04be3eba64a2 // indirect
	google.golang.org/api v0.114.0 // indirect
	google.golang.org/genproto v0.0.0-20230410155749-daa745c078e1 // indirect
	google.golang.org/grpc v1.56.3 // indirect
)

replace github.com/janelia-flyem/dvid => /repo
