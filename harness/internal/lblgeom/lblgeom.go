// Package lblgeom is the geometry table shared by the label-block checks (C09, C10):
// it refines the abstract blocks of specs/LabelBlock.tla (regions with palettes) into
// concrete voxel arrays and projects concrete arrays back onto regions.  It contains no
// label semantics: a region is a set of voxels of one block, given per 8x8x8 sub-block
// by a partition scheme; a palette position of a voxel is given by the region's layout
// rule (the same rule as LabelBlock!PalIdx).
package lblgeom

import "fmt"

// Partition schemes of one 8x8x8 sub-block (local coordinates x,y,z in 0..7).
const (
	W  = 0 // whole sub-block: 1 part
	Hx = 1 // halves x<4 | x>=4
	Hy = 2
	Hz = 3
	V  = 4 // single voxel with local scan index Param | rest
	S  = 5 // the first Param voxels in local scan order | rest
	K  = 6 // parity of x+y+z
	C  = 7 // corner classes of the 2x2x2 cells: Corner[Param]
	HC = 8 // half along axis Param/16 (0,1,2) x corner classes Corner[Param%16]; part = half*ncls+class
	Q  = 9 // slab x < Param | rest
	O  = 10 // the eight 4x4x4 cubes: part = (z/4)*4+(y/4)*2+(x/4)
)

// Corner partitions: class of corner (z&1)*4+(y&1)*2+(x&1).  CornerWeights in
// specs/LabelBlock.tla must list the same class sizes (checked at run time).
var Corner = [][8]int{
	{0, 0, 0, 0, 0, 0, 0, 0}, // 0: 8
	{0, 0, 0, 0, 1, 1, 1, 1}, // 1: 4,4
	{0, 0, 0, 0, 1, 1, 2, 2}, // 2: 4,2,2
	{0, 0, 0, 1, 1, 1, 2, 2}, // 3: 3,3,2
	{0, 1, 2, 3, 4, 5, 6, 7}, // 4: 1 x 8
	{0, 0, 0, 0, 0, 1, 1, 1}, // 5: 5,3
	{0, 0, 1, 1, 2, 2, 3, 3}, // 6: 2,2,2,2
	{0, 1, 1, 0, 1, 0, 0, 1}, // 7: checker 4,4
	{0, 1, 1, 1, 1, 1, 1, 1}, // 8: 1,7
}

// CornerClasses returns the number of classes of corner partition cp.
func CornerClasses(cp int) int {
	m := 0
	for _, c := range Corner[cp] {
		if c+1 > m {
			m = c + 1
		}
	}
	return m
}

// CornerWeights returns the class sizes of corner partition cp.
func CornerWeights(cp int) []int {
	w := make([]int, CornerClasses(cp))
	for _, c := range Corner[cp] {
		w[c]++
	}
	return w
}

// SB is the partition of one sub-block and the region (1-based) of each part.
type SB struct {
	Scheme  int   `json:"s"`
	Param   int   `json:"p,omitempty"`
	Regions []int `json:"r"`
}

// NumParts returns the number of parts of a scheme.
func NumParts(scheme, param int) int {
	switch scheme {
	case W:
		return 1
	case Hx, Hy, Hz, V, S, K, Q:
		return 2
	case C:
		return CornerClasses(param)
	case O:
		return 8
	case HC:
		return 2 * CornerClasses(param%16)
	}
	panic(fmt.Sprintf("bad scheme %d", scheme))
}

// PartOf returns the part of local voxel (x,y,z).
func PartOf(scheme, param, x, y, z int) int {
	b2i := func(b bool) int {
		if b {
			return 0
		}
		return 1
	}
	switch scheme {
	case W:
		return 0
	case Hx:
		return b2i(x < 4)
	case Hy:
		return b2i(y < 4)
	case Hz:
		return b2i(z < 4)
	case V:
		return b2i(z*64+y*8+x == param)
	case S:
		return b2i(z*64+y*8+x < param)
	case K:
		return (x + y + z) & 1
	case C:
		return Corner[param][(z&1)*4+(y&1)*2+(x&1)]
	case HC:
		cp := param % 16
		h := 0
		switch param / 16 {
		case 0:
			h = x / 4
		case 1:
			h = y / 4
		default:
			h = z / 4
		}
		return h*CornerClasses(cp) + Corner[cp][(z&1)*4+(y&1)*2+(x&1)]
	case Q:
		return b2i(x < param)
	case O:
		return (z/4)*4 + (y/4)*2 + x/4
	}
	panic(fmt.Sprintf("bad scheme %d", scheme))
}

// Geometry is a block size with the partition of every sub-block.
type Geometry struct {
	Size [3]int `json:"size"`
	SBs  []SB   `json:"sbs"` // one per sub-block, sub-block number = sz*gy*gx + sy*gx + sx
}

// NumSB returns the number of sub-blocks.
func (g *Geometry) NumSB() int { return (g.Size[0] / 8) * (g.Size[1] / 8) * (g.Size[2] / 8) }

// NumVoxels returns the number of voxels.
func (g *Geometry) NumVoxels() int { return g.Size[0] * g.Size[1] * g.Size[2] }

// Validate checks the structure.
func (g *Geometry) Validate() error {
	for d := 0; d < 3; d++ {
		if g.Size[d] <= 0 || g.Size[d]%8 != 0 {
			return fmt.Errorf("bad size %v", g.Size)
		}
	}
	if len(g.SBs) != g.NumSB() {
		return fmt.Errorf("%d sub-block partitions for %d sub-blocks", len(g.SBs), g.NumSB())
	}
	for i, sb := range g.SBs {
		if len(sb.Regions) != NumParts(sb.Scheme, sb.Param) {
			return fmt.Errorf("sub-block %d: %d regions for %d parts", i, len(sb.Regions), NumParts(sb.Scheme, sb.Param))
		}
		for _, r := range sb.Regions {
			if r < 1 {
				return fmt.Errorf("sub-block %d: region %d", i, r)
			}
		}
	}
	return nil
}

// RegionMap returns the region (1-based) of every voxel in block scan order (x fastest).
func (g *Geometry) RegionMap() []int32 {
	nx, ny, nz := g.Size[0], g.Size[1], g.Size[2]
	gx, gy := nx/8, ny/8
	out := make([]int32, nx*ny*nz)
	// per sub-block part table
	var tbl [512]int32
	for sbn, sb := range g.SBs {
		sx, sy, sz := sbn%gx, (sbn/gx)%gy, sbn/(gx*gy)
		for z := 0; z < 8; z++ {
			for y := 0; y < 8; y++ {
				for x := 0; x < 8; x++ {
					tbl[z*64+y*8+x] = int32(sb.Regions[PartOf(sb.Scheme, sb.Param, x, y, z)])
				}
			}
		}
		for z := 0; z < 8; z++ {
			for y := 0; y < 8; y++ {
				base := (sz*8+z)*nx*ny + (sy*8+y)*nx + sx*8
				copy(out[base:base+8], tbl[z*64+y*8:z*64+y*8+8])
			}
		}
	}
	return out
}

// NumRegions returns the largest region id.
func (g *Geometry) NumRegions() int {
	m := 0
	for _, sb := range g.SBs {
		for _, r := range sb.Regions {
			if r > m {
				m = r
			}
		}
	}
	return m
}

// RegionSizes returns the voxel count of regions 1..NumRegions (index r-1).
func (g *Geometry) RegionSizes() []int {
	out := make([]int, g.NumRegions())
	for _, sb := range g.SBs {
		var cnt [16]int
		for z := 0; z < 8; z++ {
			for y := 0; y < 8; y++ {
				for x := 0; x < 8; x++ {
					cnt[PartOf(sb.Scheme, sb.Param, x, y, z)]++
				}
			}
		}
		for p, r := range sb.Regions {
			out[r-1] += cnt[p]
		}
	}
	return out
}

// PalIdx is LabelBlock!PalIdx: the palette position (0-based here) of the j-th voxel
// (0-based, block scan order) of a region with n voxels and a palette of k labels.
func PalIdx(layout, n, k, j int) int {
	switch layout {
	case 0:
		return j % k
	case 1:
		return (n - 1 - j) % k
	default:
		c := n / k
		if j/c >= k {
			return k - 1
		}
		return j / c
	}
}

// Atoms returns for every voxel its region (1-based) and palette position (0-based),
// given the palette length and layout of every region.
func (g *Geometry) Atoms(palLen, layout []int) (region []int32, pos []int32, err error) {
	region = g.RegionMap()
	sizes := g.RegionSizes()
	if len(palLen) != len(sizes) || len(layout) != len(sizes) {
		return nil, nil, fmt.Errorf("%d palettes / %d layouts for %d regions", len(palLen), len(layout), len(sizes))
	}
	for r, k := range palLen {
		if k < 1 || k > sizes[r] {
			return nil, nil, fmt.Errorf("region %d: palette of %d labels for %d voxels", r+1, k, sizes[r])
		}
	}
	pos = make([]int32, len(region))
	seen := make([]int, len(sizes))
	for i, r := range region {
		j := seen[r-1]
		seen[r-1]++
		if palLen[r-1] > 1 {
			pos[i] = int32(PalIdx(layout[r-1], sizes[r-1], palLen[r-1], j))
		}
	}
	return region, pos, nil
}
