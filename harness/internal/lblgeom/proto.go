package lblgeom

// Protocol of the dvidnode calls "labels.run" and "labels.downres" (cmd/dvidnode/calls_labels.go),
// shared with the checks C09 / C10 (cmd/vcheck).  Everything here is CONCRETE (64-bit labels,
// voxel counts); the abstract side lives in specs/LabelBlock*.tla and cmd/vcheck.

// Case is one block with an optional sequence of operations applied to it.
type Case struct {
	ID     int        `json:"id"`
	Geom   Geometry   `json:"geom"`
	BCoord [3]int32   `json:"bcoord"`
	Pal    [][]uint64 `json:"pal"` // palette of every region
	Lay    []int      `json:"lay"`
	Seed   int64      `json:"seed"`
	Sets   [][]uint64 `json:"sets,omitempty"` // label sets for the sparse views
	// codec observations (C09)
	Codec      bool       `json:"codec,omitempty"`
	AllPoints  bool       `json:"all_points,omitempty"` // Value / GetPointLabels on every voxel (else a seeded sample)
	Pair       bool       `json:"pair,omitempty"`       // sparse views also over two x-adjacent copies of the block
	SubvolOffs [][3]int32 `json:"subvol_offs,omitempty"`
	// operations (C10)
	Steps     []Step `json:"steps,omitempty"`
	StepViews bool   `json:"step_views,omitempty"` // views of the evolving block after every step
	LastOnly  bool   `json:"last_only,omitempty"`  // ... after the last step only
	Fast      bool   `json:"fast,omitempty"`       // also run the alternative split path side by side
	// growth (C09-1, -4, -5, -6; C10-2)
	Bounds    []BoundsCase `json:"bounds,omitempty"`     // non-empty dvid.Bounds for the sparse views of every label set
	Probes    [][2]uint64  `json:"probes,omitempty"`     // ReplaceLabel(t, n) on the fresh block: returned count (getNumVoxels)
	Holes     []int        `json:"holes,omitempty"`      // sub-blocks (0-based, holding only label 0) re-serialized with a label count of 0
	OutPoints bool         `json:"out_points,omitempty"` // Value / GetPointLabels on points outside the block
	RLEPres   int          `json:"rle_pres,omitempty"`   // presentation of split run-lengths: 0 maximal runs, 1 broken into adjacent runs, 2 single voxels
}

// BoundsCase is one non-empty dvid.Bounds applied to NB x-adjacent copies of the block.  Box, Pass
// and the cuts come from TLC (specs/LabelBlockBounds.tla).
type BoundsCase struct {
	Box    [6]*int32  `json:"box"` // minx maxx miny maxy minz maxz, nil = open
	Exact  bool       `json:"exact"`
	NB     int        `json:"nb"`
	Pass   []bool     `json:"pass"`    // blocks that pass the block-level screen
	CutMin [][3]int32 `json:"cut_min"` // voxel cut of every block (DVID coordinates)
	CutMax [][3]int32 `json:"cut_max"`
}

// BoundObs is the comparison of one bounded sparse view with {voxels of the label set inside the cut}.
type BoundObs struct {
	RLE BoundRes `json:"rle"`
	Bin BoundRes `json:"bin"`
}

// BoundRes: OK = the output is exactly the expected set (exact bounds) / lies between the cut
// foreground and the whole foreground of the passing blocks (inexact bounds, binary blocks).
type BoundRes struct {
	OK     bool   `json:"ok"`
	Err    string `json:"err,omitempty"`
	Detail string `json:"detail,omitempty"`
	Voxels int    `json:"voxels"` // voxels of the output
}

// ProbeObs is one ReplaceLabel probe.
type ProbeObs struct {
	Replaced uint64 `json:"replaced"`
	Err      string `json:"err,omitempty"`
	Panic    string `json:"panic,omitempty"`
	Decoded  *Proj  `json:"decoded,omitempty"` // first probe only: the block after the replacement
}

// HoleObs: the block re-serialized with NumSBLabels[i] = 0 for the hole sub-blocks.
type HoleObs struct {
	Err      string `json:"err,omitempty"`     // harness-side problem
	Refused  string `json:"refused,omitempty"` // UnmarshalBinary refused the serialization
	DecodeOK bool   `json:"decode_ok"`         // MakeLabelVolume = the original array
	Detail   string `json:"detail,omitempty"`
	Panic    string `json:"panic,omitempty"`
	Views    *Views `json:"views,omitempty"`
}

// Step is one operation on the evolving block.
type Step struct {
	Op      string      `json:"op"` // merge replace replacelabels split splitsv splitsvs dosplit
	T       uint64      `json:"t,omitempty"`
	N       uint64      `json:"n,omitempty"`
	M       []uint64    `json:"m,omitempty"`
	Map     [][2]uint64 `json:"map,omitempty"`
	SVMap   [][3]uint64 `json:"svmap,omitempty"` // label, split, remain
	S       []int       `json:"s,omitempty"`     // region set of the sparse volume
	Fresh0  uint64      `json:"fresh0,omitempty"`
	Marshal bool        `json:"marshal,omitempty"` // pass the block through MarshalBinary/UnmarshalBinary first
	NoKey   bool        `json:"nokey,omitempty"`   // splitsv: the run-lengths are filed under another block's key
	FailAt  int         `json:"failat,omitempty"`  // dosplit: the label allocator fails at its FailAt-th call
}

// Proj is a projection of a voxel array onto the atoms (region, palette position).
type Proj struct {
	Atoms   [][]uint64 `json:"atoms"`         // label of the first voxel of every atom
	Uniform bool       `json:"uniform"`       // every atom holds one label
	Bad     string     `json:"bad,omitempty"` // first non-uniform atom
}

// Mask is a projection of a voxel set onto the atoms: 0 none, 1 all, 2 some voxels of the atom.
type Mask struct {
	Atoms [][]int `json:"atoms"`
	Err   string  `json:"err,omitempty"`
	// OK: the voxel set equals {v : decoded[v] in set} (voxel-level reference loop in the node)
	OK     bool   `json:"ok"`
	Detail string `json:"detail,omitempty"`
}

// SetObs is the sparse views of one label set.
type SetObs struct {
	RLE     Mask  `json:"rle"`
	Bin     Mask  `json:"bin"`
	PairRLE *Mask `json:"pair_rle,omitempty"`
	PairBin *Mask `json:"pair_bin,omitempty"`
}

// Views is what the view functions of one compressed block return, compared with its own
// decoded volume (reference loops) and projected for the comparison with the specification.
type Views struct {
	NumLabels   [][2]uint64 `json:"num_labels"` // CalcNumLabels(nil), sorted by label
	NumLabelsOK bool        `json:"num_labels_ok"`
	DeltaOK     bool        `json:"delta_ok"` // CalcNumLabels(prev) = counts(cur) - counts(prev)
	ValueOK     bool        `json:"value_ok"`
	PointsOK    bool        `json:"points_ok"`
	StreamOK    bool        `json:"stream_ok"`  // WriteLabelVolume = MakeLabelVolume
	MarshalOK   bool        `json:"marshal_ok"` // Unmarshal(Marshal(b)) decodes to the same volume and marshals to the same bytes
	Detail      string      `json:"detail,omitempty"`
	Sets        []SetObs    `json:"sets,omitempty"`
	NPoints     int         `json:"npoints"`
	// growth
	Bounded [][]BoundObs `json:"bounded,omitempty"` // [label set][bounds case]
	Probes  []ProbeObs   `json:"probes,omitempty"`
	OutRun  bool         `json:"out_run,omitempty"`
	OutOK   bool         `json:"out_ok,omitempty"` // points outside the block read as label 0, points inside are unaffected
}

// Stat is one entry of the counts returned by DoSplitWithStats / SplitStats.
type Stat struct {
	Label  uint64 `json:"label"`
	Split  uint64 `json:"split"`
	Remain uint64 `json:"remain"`
	Voxels uint64 `json:"voxels"`
}

// StepObs is the observation of one step.
type StepObs struct {
	Err         string `json:"err,omitempty"`
	Panic       string `json:"panic,omitempty"`
	Nil         bool   `json:"nil,omitempty"`          // the operation returned no block (block unchanged)
	AllocFailed bool   `json:"alloc_failed,omitempty"` // dosplit with a failing allocator: error and no block from both SplitStats and DoSplitWithStats
	Decoded     Proj   `json:"decoded"`
	Kept        uint64 `json:"kept"`
	Split       uint64 `json:"split"`
	Replaced    uint64 `json:"replaced"`
	ReplacedAny bool   `json:"replaced_any"`
	Stats       []Stat `json:"stats,omitempty"`
	StatsOnly   []Stat `json:"stats_only,omitempty"` // SplitStats on the same block
	Views       *Views `json:"views,omitempty"`
	// alternative path run side by side on the same input (splitFast)
	FastRun   bool   `json:"fast_run,omitempty"`
	FastErr   string `json:"fast_err,omitempty"`
	FastPanic string `json:"fast_panic,omitempty"`
	FastNil   bool   `json:"fast_nil,omitempty"`
	FastSame  bool   `json:"fast_same,omitempty"` // same decoded volume and counts as the regular path
	FastDiff  string `json:"fast_diff,omitempty"`
}

// SubvolObs is one SubvolumeToBlock observation.
type SubvolObs struct {
	Off   [3]int32 `json:"off"`
	Err   string   `json:"err,omitempty"`
	Equal bool     `json:"equal"` // decodes to the block's array
}

// CaseObs is the observation of one case.
type CaseObs struct {
	ID        int         `json:"id"`
	Err       string      `json:"err,omitempty"` // harness-side problem (bad geometry): infrastructure, not a verdict
	Panic     string      `json:"panic,omitempty"`
	MakeErr   string      `json:"make_err,omitempty"`
	RoundTrip bool        `json:"round_trip"` // MakeLabelVolume(MakeBlock(a)) == a, byte for byte
	Detail    string      `json:"detail,omitempty"`
	Sizes     []int       `json:"sizes"`
	Decoded   Proj        `json:"decoded"`
	Views     *Views      `json:"views,omitempty"`
	Subvols   []SubvolObs `json:"subvols,omitempty"`
	Steps     []StepObs   `json:"steps,omitempty"`
	Hole      *HoleObs    `json:"hole,omitempty"`
}

// Octant is one hi-res octant of a down-sampling case.
type Octant struct {
	Kind  int        `json:"kind"` // 0 absent, 1 solid, 2 full
	Label uint64     `json:"label,omitempty"`
	Made  bool       `json:"made,omitempty"` // solid octant built by MakeBlock of a uniform array instead of MakeSolidBlock
	Geom  *Geometry  `json:"geom,omitempty"`
	Pal   [][]uint64 `json:"pal,omitempty"`
}

// DownresCase is one down-sampling case: prev is the lower-resolution block before.
type DownresCase struct {
	ID        int        `json:"id"`
	Size      [3]int     `json:"size"`
	Prev      Geometry   `json:"prev"`
	PrevPal   [][]uint64 `json:"prev_pal"`
	PrevSolid bool       `json:"prev_solid,omitempty"` // prev built by MakeSolidBlock(PrevPal[0][0])
	Oct       [8]Octant  `json:"oct"`
	Fast      bool       `json:"fast,omitempty"`
}

// DownresPath is the result of one down-sampling code path projected onto the vote sites
// [octant][hi-res sub-block][site].
type DownresPath struct {
	Name    string       `json:"name"`
	Run     bool         `json:"run"`
	Err     string       `json:"err,omitempty"`
	Panic   string       `json:"panic,omitempty"`
	Sites   [][][]uint64 `json:"sites,omitempty"`
	Uniform bool         `json:"uniform"`
	Bad     string       `json:"bad,omitempty"`
}

// DownresObs is the observation of one down-sampling case.
type DownresObs struct {
	ID    int           `json:"id"`
	Err   string        `json:"err,omitempty"`
	Paths []DownresPath `json:"paths"`
}
