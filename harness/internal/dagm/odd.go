package dagm

import (
	"encoding/json"
	"fmt"
	"math/rand"
	"regexp"
	"sort"
	"strconv"
	"strings"

	"verifharness/internal/node"
)

// Third round: odd arguments of DvidDAG's NextX (strings that are not identifiers where an
// identifier is expected), the requests "mergebadtype" and "nodenote", and the cross-repo part
// of the projection (/api/repos/info: no repo appears or vanishes unless the specification says
// so; every listed UUID is an identifier and names its own version).

var oddFixed = map[string]bool{"empty": true, "short": true, "nonhex": true, "colon": true, "tilde": true}

// IsOddArg tells whether u is one of the specification's odd identifier arguments.
func IsOddArg(u string) bool {
	if oddFixed[u] {
		return true
	}
	if strings.HasPrefix(u, "pref") {
		_, err := strconv.Atoi(u[4:])
		return err == nil
	}
	return false
}

// oddArg expands an odd argument into a concrete string (one per session and name, kept in Pool
// so that the projection can map it back): the only thing decided here is the spelling.
func (s *Sess) oddArg(u string) string {
	if h, ok := s.Pool[u]; ok {
		return h
	}
	var h string
	switch {
	case u == "empty":
		return ""
	case u == "short":
		// a few hex digits that no identifier of this session starts with
		for {
			h = RandHex()[:5]
			clash := false
			for _, x := range s.UUIDs {
				if strings.HasPrefix(x, h) {
					clash = true
				}
			}
			if !clash {
				break
			}
		}
	case u == "nonhex":
		// as long as an identifier, but not hexadecimal (the documentation's example tag is "my-great-tag")
		b := []byte("my-great-tag-")
		r := RandHex()
		for len(b) < 32 {
			b = append(b, "ghijklmnopqrstuv"[hexVal(r[len(b)-13])])
		}
		h = string(b)
	case u == "colon":
		h = RandHex()[:10] + ":b1"
	case u == "tilde":
		h = RandHex()[:10] + "~1"
	default: // pref<k>: a proper prefix of version k's identifier
		k, _ := strconv.Atoi(u[4:])
		if k >= 1 && k <= len(s.UUIDs) && len(s.UUIDs[k-1]) > 12 {
			h = s.UUIDs[k-1][:12]
		} else {
			h = s.bogus[:12]
		}
	}
	s.Pool[u] = h
	return h
}

func hexVal(c byte) int {
	if c >= '0' && c <= '9' {
		return int(c - '0')
	}
	return int(c-'a') + 10
}

// branchArg spells a branch name: "tag-<pool name>" (the branch a tag request with that
// identifier would make) becomes "tag-<concrete identifier>"; every other name is sent as it is.
func (s *Sess) branchArg(b string) string {
	if strings.HasPrefix(b, "tag-") && len(b) > 4 {
		name := b[4:]
		if name != "auto" && !strings.HasPrefix(name, "dup") {
			if u, ok := s.concreteUUIDArg(name); ok {
				return "tag-" + u
			}
		}
	}
	return b
}

// ConcreteArg is concreteUUIDArg for other transports (RPC commands).
func (s *Sess) ConcreteArg(u string) (string, bool) { return s.concreteUUIDArg(u) }

func (s *Sess) applyOdd(op Op) (accepted bool, status int, err error) {
	switch op.Op {
	case "mergebadtype":
		ps := make([]string, len(op.Parents))
		for i, p := range op.Parents {
			ps[i] = s.NodeUUID(p)
		}
		if len(ps) == 0 {
			return false, 0, fmt.Errorf("mergebadtype without parents")
		}
		types := []string{"conflict-aware", "", "Conflict-Free", "ours"}
		b, _ := json.Marshal(map[string]interface{}{"mergeType": types[rand.Intn(len(types))], "parents": ps, "note": "x"})
		r, err := s.HTTP("POST", "/api/repo/"+ps[0]+"/merge", b)
		if err != nil {
			return false, 0, err
		}
		if r.Status == 200 {
			var out struct{ Child string }
			if json.Unmarshal(r.Bytes(), &out) == nil && out.Child != "" {
				s.UUIDs = append(s.UUIDs, out.Child)
			}
			return true, 200, nil
		}
		return false, r.Status, nil
	case "deleterepowrong":
		u := s.NodeUUID(op.Node)
		// without a passcode, then with another one
		for _, pc := range []string{"", s.Passcode + "x"} {
			if pc == s.Passcode {
				continue
			}
			err = s.N.Call("ds.deleterepo", map[string]string{"UUID": u, "Passcode": pc}, nil)
			s.Script = append(s.Script, Step{Method: "CALL", URL: fmt.Sprintf("ds.deleterepo %s (passcode %q instead of %q)", u, pc, s.Passcode), Resp: fmt.Sprint(err)})
			if err == nil {
				break
			}
			if _, ok := err.(*node.CallError); !ok {
				return false, 0, err
			}
		}
		if err != nil {
			return false, 400, nil
		}
		for i, r := range s.Roots {
			if r == u && !s.Dead[i] {
				s.Dead[i] = true
			}
		}
		return true, 200, nil
	case "nodenote":
		// the node's note is its abstract name (heads are observed through it): post the same text, so that
		// an accepted request changes nothing the replay relies on
		note := fmt.Sprintf("n%d", op.Node)
		b, _ := json.Marshal(map[string]string{"note": note})
		r, err := s.HTTP("POST", "/api/node/"+s.NodeUUID(op.Node)+"/note", b)
		return r.Status == 200, r.Status, err
	}
	return false, 0, fmt.Errorf("unknown op %q", op.Op)
}

// ReposInfo reads /api/repos/info.
func (s *Sess) ReposInfo() (map[string]RepoInfo, error) {
	r, err := s.N.HTTP("GET", "/api/repos/info", nil)
	if err != nil {
		return nil, err
	}
	if r.Status != 200 {
		return nil, fmt.Errorf("repos/info status %d: %s", r.Status, r.Bytes())
	}
	all := map[string]RepoInfo{}
	if err := json.Unmarshal(r.Bytes(), &all); err != nil {
		return nil, fmt.Errorf("repos/info parse: %v", err)
	}
	return all, nil
}

// MarkBaseline remembers the repos the server lists now (earlier sessions on the same node
// process); CrossRepo compares against it.
func (s *Sess) MarkBaseline() error {
	all, err := s.ReposInfo()
	if err != nil {
		return err
	}
	s.Baseline = map[string]bool{}
	for root := range all {
		s.Baseline[root] = true
	}
	return nil
}

var reHex32 = regexp.MustCompile(`^[0-9a-f]{32}$`)

// CrossRepo is the server-wide part of the projection: the repos listed by /api/repos/info are
// the baseline's plus exactly the live repos of this session; the graphs of ALL listed repos
// together are well formed (UUIDs and version ids unique across repos); every UUID listed for a
// session repo is an identifier (32 hex digits, or the string a tag request gave: the node is
// then on branch "tag-<string>") and names its own version through datastore.MatchingUUID, in
// full and - for a 32-digit one - shortened to 8 digits.
func (s *Sess) CrossRepo() ([]string, error) {
	if s.Baseline == nil {
		return nil, fmt.Errorf("CrossRepo without MarkBaseline")
	}
	all, err := s.ReposInfo()
	if err != nil {
		return nil, err
	}
	var d []string
	live := map[string]bool{}
	for i, root := range s.Roots {
		if !s.Dead[i] {
			live[root] = true
		}
	}
	for i, root := range s.Roots {
		// a deleted root whose UUID was assigned again is live
		if s.Dead[i] && !live[root] {
			if _, listed := all[root]; listed {
				d = append(d, fmt.Sprintf("deleted repo %s is still listed by /api/repos/info", root))
			}
		}
	}
	for root := range live {
		if _, listed := all[root]; !listed {
			d = append(d, fmt.Sprintf("repo %s missing from /api/repos/info", root))
		}
	}
	for root, ri := range all {
		if !s.Baseline[root] && !live[root] {
			d = append(d, fmt.Sprintf("/api/repos/info lists a repo %q (%d versions) that no accepted request created", root, len(ri.DAG.Nodes)))
		}
	}
	for _, e := range WellFormed(all) {
		d = append(d, "server-wide graph: "+e)
	}
	// identifiers of the session's repos
	var mine []string
	for root, ri := range all {
		if s.Baseline[root] {
			continue
		}
		for u, nd := range ri.DAG.Nodes {
			mine = append(mine, u)
			if !reHex32.MatchString(u) {
				if u == "" || strings.ContainsAny(u, ":~") || nd.Branch != "tag-"+u {
					d = append(d, fmt.Sprintf("repo %s lists a version with UUID %q (branch %q): neither 32 hex digits nor a usable tag", root, u, nd.Branch))
					continue
				}
			}
		}
	}
	sort.Strings(mine)
	for _, u := range mine {
		if u == "" {
			continue
		}
		addrs := []string{u}
		if reHex32.MatchString(u) {
			unique := true
			for _, o := range mine {
				if o != u && strings.HasPrefix(o, u[:8]) {
					unique = false
				}
			}
			if unique {
				addrs = append(addrs, u[:8])
			}
		}
		for _, a := range addrs {
			var out struct {
				UUID    string
				Version int
			}
			err := s.N.Call("ds.matchuuid", map[string]string{"Str": a}, &out)
			if err != nil {
				if _, ok := err.(*node.CallError); !ok {
					return nil, err
				}
				d = append(d, fmt.Sprintf("UUID %q listed by the server does not name its version when used as address %q: %v", u, a, err))
			} else if out.UUID != u {
				d = append(d, fmt.Sprintf("address %q names %q, not the version with UUID %q", a, out.UUID, u))
			}
		}
	}
	sort.Strings(d)
	return d, nil
}
