// Package dagm binds the DvidDAG specification to the real server: it maps abstract
// nodes / UUID-pool names to concrete UUIDs, turns specification requests into HTTP
// requests, and projects /api/repos/info back onto the specification's variables.
package dagm

import (
	"crypto/rand"
	"encoding/hex"
	"encoding/json"
	"fmt"
	"sort"
	"strconv"
	"strings"

	"verifharness/internal/node"
)

// Head is one tracked branch head.
type Head struct {
	Root   int    `json:"root"`
	Branch string `json:"branch"`
	Node   int    `json:"node"`
}

// State is the StateRec of the specification.
type State struct {
	NN    int      `json:"nn"`
	Par   [][]int  `json:"par"`
	Kids  [][]int  `json:"kids"`
	Br    []string `json:"br"`
	Lk    []bool   `json:"lk"`
	Kind  []string `json:"kind"`
	Rp    []int    `json:"rp"`
	Uid   []string `json:"uid"`
	Heads []Head   `json:"heads"`
	Dead  []int    `json:"dead"`
}

// Key is a canonical string for a state.
func (s State) Key() string {
	hs := append([]Head(nil), s.Heads...)
	sort.Slice(hs, func(i, j int) bool {
		if hs[i].Root != hs[j].Root {
			return hs[i].Root < hs[j].Root
		}
		return hs[i].Branch < hs[j].Branch
	})
	c := s
	c.Heads = hs
	c.Dead = append([]int(nil), s.Dead...)
	sort.Ints(c.Dead)
	b, _ := json.Marshal(c)
	return string(b)
}

// Op is one request of the specification (the `last` record).
type Op struct {
	Op      string `json:"op"`
	Node    int    `json:"node,omitempty"`
	UUID    string `json:"uuid,omitempty"`
	Branch  string `json:"branch,omitempty"`
	Tag     string `json:"tag,omitempty"`
	Parents []int  `json:"parents,omitempty"`
	Ok      bool   `json:"ok"`
	New     int    `json:"new,omitempty"`
	Probe   bool   `json:"probe,omitempty"` // growth: outcome not specified (only well-formedness is checked)
	Cls     string `json:"cls,omitempty"`   // third round: class of a refused request (request kind x argument kinds)
}

// Key identifies the request (without outcome).
func (o Op) Key() string {
	return fmt.Sprintf("%s|%d|%s|%s|%s|%v", o.Op, o.Node, o.UUID, o.Branch, o.Tag, o.Parents)
}

// Sess is one replay session on a node: a set of repos built for one case.
type Sess struct {
	N      *node.Node
	UUIDs  []string          // abstract node k -> concrete uuid (index k-1)
	Pool   map[string]string // pool name -> concrete hex
	Script []Step            // what was sent
	Roots  []string          // concrete uuids of repo roots created in this session
	Dead   map[int]bool      // positions in Roots of repos deleted in this session
	ninst  int
	bogus  string
	// growth
	syncMade map[int]bool
	syncGen  int
	// third round: repos listed by the server when the session started (MarkBaseline)
	Baseline map[string]bool
	Passcode string // third round: passcode of the repos this session makes ("" = none)
}

// Step records one request and its answer.
type Step struct {
	Method string `json:"method"`
	URL    string `json:"url"`
	Body   string `json:"body,omitempty"`
	Status int    `json:"status"`
	Resp   string `json:"resp,omitempty"`
}

// RandHex returns a fresh 32-hex string.
func RandHex() string {
	var b [16]byte
	rand.Read(b[:])
	return hex.EncodeToString(b[:])
}

// NewSess starts a session.
func NewSess(n *node.Node) *Sess {
	return &Sess{N: n, Pool: map[string]string{}, Dead: map[int]bool{}, bogus: "f0f0" + RandHex()[4:]}
}

func (s *Sess) concreteUUIDArg(u string) (string, bool) {
	switch {
	case u == "" || u == "auto":
		return "", false
	case strings.HasPrefix(u, "dup"):
		k, _ := strconv.Atoi(u[3:])
		if k >= 1 && k <= len(s.UUIDs) {
			return s.UUIDs[k-1], true
		}
		return s.bogus, true
	case IsOddArg(u):
		return s.oddArg(u), true
	default:
		h, ok := s.Pool[u]
		if !ok {
			h = RandHex()
			s.Pool[u] = h
		}
		return h, true
	}
}

// NodeUUID maps an abstract node (0 = unknown) to a concrete UUID.
func (s *Sess) NodeUUID(k int) string {
	if k >= 1 && k <= len(s.UUIDs) {
		// a node of a deleted repo whose UUID has since been assigned to a newer node can no
		// longer be addressed: to the server it is an unknown UUID
		for j := k; j < len(s.UUIDs); j++ {
			if s.UUIDs[j] == s.UUIDs[k-1] {
				return s.bogus
			}
		}
		return s.UUIDs[k-1]
	}
	return s.bogus
}

// HTTP sends a request and records it.
func (s *Sess) HTTP(method, url string, body []byte) (node.Resp, error) {
	r, err := s.N.HTTP(method, url, body)
	st := Step{Method: method, URL: url, Status: r.Status}
	if len(body) < 2000 {
		st.Body = string(body)
	}
	rb := r.Bytes()
	if len(rb) < 500 {
		st.Resp = string(rb)
	}
	s.Script = append(s.Script, st)
	return r, err
}

// Apply sends the request of op.  It returns whether the server accepted it and,
// for creating requests, registers the new node's UUID.
func (s *Sess) Apply(op Op) (accepted bool, status int, err error) {
	newNote := fmt.Sprintf("n%d", len(s.UUIDs)+1)
	var r node.Resp
	switch op.Op {
	case "newrepo":
		m := map[string]string{"alias": "r", "description": "d"}
		if u, ok := s.concreteUUIDArg(op.UUID); ok {
			m["root"] = u
		}
		if s.Passcode != "" {
			m["passcode"] = s.Passcode
		}
		b, _ := json.Marshal(m)
		r, err = s.HTTP("POST", "/api/repos", b)
		if err != nil {
			return false, 0, err
		}
		if r.Status == 200 {
			var out struct{ Root string }
			if json.Unmarshal(r.Bytes(), &out) != nil || out.Root == "" {
				return false, r.Status, fmt.Errorf("bad newrepo response %q", r.Bytes())
			}
			s.UUIDs = append(s.UUIDs, out.Root)
			s.Roots = append(s.Roots, out.Root)
			// label the root with its abstract name (used to observe uuid:branch addressing)
			nb, _ := json.Marshal(map[string]string{"note": newNote})
			s.HTTP("POST", "/api/node/"+out.Root+"/note", nb)
			return true, 200, nil
		}
		return false, r.Status, nil
	case "commit":
		r, err = s.HTTP("POST", "/api/node/"+s.NodeUUID(op.Node)+"/commit", []byte(`{}`))
		if err != nil {
			return false, 0, err
		}
		return r.Status == 200, r.Status, nil
	case "newversion", "branch", "tag":
		m := map[string]string{"note": newNote}
		if op.Op == "tag" {
			u, _ := s.concreteUUIDArg(op.Tag)
			if op.Tag != "empty" { // the odd argument "empty" of a tag request: no tag field at all
				m["tag"] = u
			}
		} else if u, ok := s.concreteUUIDArg(op.UUID); ok {
			m["uuid"] = u
		}
		if op.Op == "branch" {
			m["branch"] = s.branchArg(op.Branch)
		}
		b, _ := json.Marshal(m)
		r, err = s.HTTP("POST", "/api/node/"+s.NodeUUID(op.Node)+"/"+op.Op, b)
		if err != nil {
			return false, 0, err
		}
		if r.Status == 200 {
			var out struct{ Child string }
			if json.Unmarshal(r.Bytes(), &out) != nil || (out.Child == "" && !IsOddArg(op.Tag) && !IsOddArg(op.UUID)) {
				return false, r.Status, fmt.Errorf("bad %s response %q", op.Op, r.Bytes())
			}
			// (an accepted request with an odd argument may name its child "": reported by the caller)
			s.UUIDs = append(s.UUIDs, out.Child)
			return true, 200, nil
		}
		return false, r.Status, nil
	case "merge":
		ps := make([]string, len(op.Parents))
		for i, p := range op.Parents {
			ps[i] = s.NodeUUID(p)
		}
		at := ""
		for _, p := range op.Parents {
			if p >= 1 && p <= len(s.UUIDs) {
				at = s.UUIDs[p-1]
				break
			}
		}
		if at == "" {
			if len(s.UUIDs) == 0 {
				return false, 0, fmt.Errorf("merge with no repo")
			}
			at = s.UUIDs[0]
		}
		b, _ := json.Marshal(map[string]interface{}{"mergeType": "conflict-free", "parents": ps, "note": newNote})
		r, err = s.HTTP("POST", "/api/repo/"+at+"/merge", b)
		if err != nil {
			return false, 0, err
		}
		if r.Status == 200 {
			var out struct{ Child string }
			if json.Unmarshal(r.Bytes(), &out) != nil || out.Child == "" {
				return false, r.Status, fmt.Errorf("bad merge response %q", r.Bytes())
			}
			s.UUIDs = append(s.UUIDs, out.Child)
			return true, 200, nil
		}
		return false, r.Status, nil
	case "mergebadtype", "nodenote", "deleterepowrong":
		return s.applyOdd(op)
	case "deleterepo":
		u := s.NodeUUID(op.Node)
		err = s.N.Call("ds.deleterepo", map[string]string{"UUID": u, "Passcode": s.Passcode}, nil)
		s.Script = append(s.Script, Step{Method: "CALL", URL: "ds.deleterepo " + u, Resp: fmt.Sprint(err)})
		if err != nil {
			if _, ok := err.(*node.CallError); ok {
				return false, 400, nil
			}
			return false, 0, err
		}
		for i, r := range s.Roots {
			if r == u && !s.Dead[i] {
				s.Dead[i] = true
			}
		}
		return true, 200, nil
	case "note":
		r, err = s.HTTP("POST", "/api/node/"+s.NodeUUID(op.Node)+"/log", []byte(`{"log":["x"]}`))
		return r.Status == 200, r.Status, err
	case "log":
		r, err = s.HTTP("POST", "/api/node/"+s.NodeUUID(op.Node)+"/log", []byte(`{"log":["entry"]}`))
		return r.Status == 200, r.Status, err
	case "repolog":
		r, err = s.HTTP("POST", "/api/repo/"+s.NodeUUID(op.Node)+"/log", []byte(`{"log":["repo entry"]}`))
		return r.Status == 200, r.Status, err
	case "newinstance":
		s.ninst++
		b, _ := json.Marshal(map[string]string{"typename": "keyvalue", "dataname": fmt.Sprintf("i%d", s.ninst)})
		r, err = s.HTTP("POST", "/api/repo/"+s.NodeUUID(op.Node)+"/instance", b)
		return r.Status == 200, r.Status, err
	case "renameinstance", "deleteinstance":
		// act on the newest instance of this session if any (else the request is refused: fine, still neutral)
		name := fmt.Sprintf("i%d", s.ninst)
		u := s.NodeUUID(op.Node)
		if op.Op == "renameinstance" {
			err = s.N.Call("ds.rename", map[string]string{"UUID": u, "Old": name, "New": name + "r", "Passcode": ""}, nil)
		} else {
			err = s.N.Call("ds.deletedata", map[string]string{"UUID": u, "Name": name, "Passcode": ""}, nil)
		}
		s.Script = append(s.Script, Step{Method: "CALL", URL: op.Op + " " + u + " " + name, Resp: fmt.Sprint(err)})
		if err != nil {
			if _, ok := err.(*node.CallError); ok {
				return false, 400, nil
			}
			return false, 0, err
		}
		return true, 200, nil
	}
	if ok, st, err, handled := s.applyGrowth(op); handled {
		return ok, st, err
	}
	return false, 0, fmt.Errorf("unknown op %q", op.Op)
}

// RepoNode is one node of the DAG JSON.
type RepoNode struct {
	Branch    string
	Note      string
	Log       []string
	UUID      string
	VersionID int
	Locked    bool
	Parents   []int
	Children  []int
}

// RepoInfo is the relevant part of /api/repo/<u>/info.
type RepoInfo struct {
	Root string
	DAG  struct {
		Root  string
		Nodes map[string]RepoNode
	}
	DataInstances map[string]json.RawMessage
	Alias         string
	Log           []string
}

// Observed is the projection of the server's DAG state onto the specification.
type Observed struct {
	State  State
	Extra  []string // problems seen while projecting (unknown nodes, dangling links, ...)
	Missing []bool  // nodes of the session absent from the server's repo infos
	Raw    map[string]RepoInfo
	WFErrs []string // well-formedness errors of the raw graph (Go-side Inv_C07)
}

// Project reads /api/repos/info and projects the repos that contain session nodes.
func (s *Sess) Project() (*Observed, error) {
	all := map[string]RepoInfo{}
	var extraDead []string
	liveUUID := map[string]bool{}
	for i, root := range s.Roots {
		if !s.Dead[i] {
			liveUUID[root] = true
		}
	}
	for i, root := range s.Roots {
		r, err := s.N.HTTP("GET", "/api/repo/"+root+"/info", nil)
		if err != nil {
			return nil, err
		}
		if s.Dead[i] {
			// a deleted repo must be gone (unless its UUID has since been assigned to a new node)
			if r.Status == 200 {
				var ri RepoInfo
				json.Unmarshal(r.Bytes(), &ri)
				if ri.Root == root && !liveUUID[root] {
					extraDead = append(extraDead, fmt.Sprintf("deleted repo %s still answers repo info", root))
				}
			}
			continue
		}
		if r.Status != 200 {
			return nil, fmt.Errorf("repo/%s/info status %d: %s", root, r.Status, r.Bytes())
		}
		var ri RepoInfo
		if err := json.Unmarshal(r.Bytes(), &ri); err != nil {
			return nil, fmt.Errorf("repo info parse: %v", err)
		}
		all[root] = ri
	}
	idx := map[string]int{}
	for i, u := range s.UUIDs {
		idx[u] = i + 1
	}
	ob := &Observed{Raw: map[string]RepoInfo{}}
	ob.Extra = append(ob.Extra, extraDead...)
	n := len(s.UUIDs)
	st := State{NN: n, Par: make([][]int, n), Kids: make([][]int, n), Br: make([]string, n), Lk: make([]bool, n),
		Kind: make([]string, n), Rp: make([]int, n), Uid: make([]string, n)}
	seen := make([]bool, n)
	poolRev := map[string]string{}
	for k, v := range s.Pool {
		poolRev[v] = k
	}
	for rootUUID, ri := range all {
		mine := false
		for u := range ri.DAG.Nodes {
			if _, ok := idx[u]; ok {
				mine = true
			}
		}
		if _, ok := idx[rootUUID]; ok {
			mine = true
		}
		if !mine {
			continue
		}
		ob.Raw[rootUUID] = ri
		// version id -> uuid within this repo
		v2u := map[int]string{}
		for u, nd := range ri.DAG.Nodes {
			if nd.UUID != u {
				ob.WFErrs = append(ob.WFErrs, fmt.Sprintf("node keyed %s has UUID field %s", u, nd.UUID))
			}
			if prev, dup := v2u[nd.VersionID]; dup {
				ob.WFErrs = append(ob.WFErrs, fmt.Sprintf("version id %d names two nodes %s and %s", nd.VersionID, prev, u))
			}
			v2u[nd.VersionID] = u
		}
		rootIdx := idx[ri.DAG.Root]
		if ri.DAG.Root != rootUUID {
			ob.WFErrs = append(ob.WFErrs, fmt.Sprintf("repo keyed %s has DAG root %s", rootUUID, ri.DAG.Root))
		}
		nroots := 0
		for u, nd := range ri.DAG.Nodes {
			k, ok := idx[u]
			if !ok {
				ob.Extra = append(ob.Extra, fmt.Sprintf("unknown node %s (version %d, parents %v, children %v, locked %v) in repo %s", u, nd.VersionID, nd.Parents, nd.Children, nd.Locked, rootUUID))
			}
			if len(nd.Parents) == 0 {
				nroots++
				if u != ri.DAG.Root {
					ob.WFErrs = append(ob.WFErrs, fmt.Sprintf("node %s has no parents but is not the root", u))
				}
			}
			// mirror / committed-parent checks on the raw graph
			cnt := map[int]int{}
			for _, pv := range nd.Parents {
				cnt[pv]++
				pu, ok := v2u[pv]
				if !ok {
					ob.WFErrs = append(ob.WFErrs, fmt.Sprintf("node %s has parent version %d not in repo", u, pv))
					continue
				}
				p := ri.DAG.Nodes[pu]
				if !p.Locked {
					ob.WFErrs = append(ob.WFErrs, fmt.Sprintf("node %s hangs off uncommitted parent %s", u, pu))
				}
				c := 0
				for _, cv := range p.Children {
					if cv == nd.VersionID {
						c++
					}
				}
				if c != 1 {
					ob.WFErrs = append(ob.WFErrs, fmt.Sprintf("parent %s lists child %s %d times", pu, u, c))
				}
				if pv >= nd.VersionID {
					ob.WFErrs = append(ob.WFErrs, fmt.Sprintf("node %s (v%d) has parent with later version id %d", u, nd.VersionID, pv))
				}
			}
			for pv, c := range cnt {
				if c > 1 {
					ob.WFErrs = append(ob.WFErrs, fmt.Sprintf("node %s lists parent version %d %d times", u, pv, c))
				}
			}
			for _, cv := range nd.Children {
				cu, ok := v2u[cv]
				if !ok {
					ob.WFErrs = append(ob.WFErrs, fmt.Sprintf("node %s has child version %d not in repo", u, cv))
					continue
				}
				c := 0
				for _, pv := range ri.DAG.Nodes[cu].Parents {
					if pv == nd.VersionID {
						c++
					}
				}
				if c != 1 {
					ob.WFErrs = append(ob.WFErrs, fmt.Sprintf("child %s lists parent %s %d times", cu, u, c))
				}
			}
			if !ok {
				continue
			}
			seen[k-1] = true
			for _, pv := range nd.Parents {
				st.Par[k-1] = append(st.Par[k-1], idx[v2u[pv]])
			}
			for _, cv := range nd.Children {
				st.Kids[k-1] = append(st.Kids[k-1], idx[v2u[cv]])
			}
			st.Br[k-1] = nd.Branch
			if strings.HasPrefix(nd.Branch, "tag-") {
				if name, ok := poolRev[nd.Branch[4:]]; ok {
					st.Br[k-1] = "tag-" + name
				}
			}
			st.Lk[k-1] = nd.Locked
			st.Rp[k-1] = rootIdx
			if name, ok := poolRev[u]; ok {
				st.Uid[k-1] = name
			} else {
				st.Uid[k-1] = "auto"
			}
		}
		if nroots != 1 {
			ob.WFErrs = append(ob.WFErrs, fmt.Sprintf("repo %s has %d parentless nodes", rootUUID, nroots))
		}
	}
	ob.Missing = make([]bool, n)
	for i := range seen {
		if !seen[i] {
			ob.Missing[i] = true
		}
		if st.Par[i] == nil {
			st.Par[i] = []int{}
		}
		if st.Kids[i] == nil {
			st.Kids[i] = []int{}
		}
	}
	ob.State = st
	sort.Strings(ob.Extra)
	sort.Strings(ob.WFErrs)
	return ob, nil
}

// HeadOf resolves "<root>:<branch>" through the server and returns the abstract node
// (0 if the address is refused, -1 if it resolves to something unknown).
func (s *Sess) HeadOf(root int, branch string) (int, error) {
	b := s.ConcreteBranch(branch)
	r, err := s.N.HTTP("GET", "/api/node/"+s.NodeUUID(root)+":"+b+"/note", nil)
	if err != nil {
		return 0, err
	}
	if r.Status != 200 {
		return 0, nil
	}
	var out struct {
		Note string `json:"note"`
	}
	if json.Unmarshal(r.Bytes(), &out) != nil {
		return -1, nil
	}
	if strings.HasPrefix(out.Note, "Tag of version ") {
		// a tag's commit overwrites the note with: Tag of version <parent> with "<tag uuid>"
		i := strings.Index(out.Note, "\"")
		j := strings.LastIndex(out.Note, "\"")
		if i >= 0 && j > i {
			tag := out.Note[i+1 : j]
			for k := len(s.UUIDs) - 1; k >= 0; k-- {
				if s.UUIDs[k] == tag {
					return k + 1, nil
				}
			}
		}
		return -1, nil
	}
	if !strings.HasPrefix(out.Note, "n") {
		return -1, nil
	}
	k, err2 := strconv.Atoi(out.Note[1:])
	if err2 != nil {
		return -1, nil
	}
	return k, nil
}

// BranchVersions returns the abstract nodes of GET branch-versions/<name> (leaf first).
func (s *Sess) BranchVersions(root int, branch string) ([]int, int, error) {
	b := s.ConcreteBranch(branch)
	r, err := s.N.HTTP("GET", "/api/repo/"+s.NodeUUID(root)+"/branch-versions/"+b, nil)
	if err != nil {
		return nil, 0, err
	}
	if r.Status != 200 {
		return nil, r.Status, nil
	}
	var us []string
	if err := json.Unmarshal(r.Bytes(), &us); err != nil {
		return nil, r.Status, fmt.Errorf("branch-versions parse %q", r.Bytes())
	}
	idx := map[string]int{}
	for i, u := range s.UUIDs {
		idx[u] = i + 1
	}
	out := make([]int, len(us))
	for i, u := range us {
		out[i] = idx[u]
	}
	return out, 200, nil
}

func eqInts(a, b []int) bool {
	if len(a) != len(b) {
		return false
	}
	for i := range a {
		if a[i] != b[i] {
			return false
		}
	}
	return true
}

// Diff compares an observed projection with the specification state (DAG part).
func Diff(want State, ob *Observed) []string {
	var d []string
	got := ob.State
	if got.NN != want.NN {
		d = append(d, fmt.Sprintf("node count: spec %d, server %d", want.NN, got.NN))
	}
	deadRoot := map[int]bool{}
	for _, r := range want.Dead {
		deadRoot[r] = true
	}
	for i := 0; i < want.NN && i < got.NN; i++ {
		// a version removed by hide-branch is as absent as one of a deleted repo
		isDead := deadRoot[want.Rp[i]] || want.Kind[i] == "hidden"
		if i < len(ob.Missing) && ob.Missing[i] != isDead {
			if isDead {
				d = append(d, fmt.Sprintf("n%d belongs to a deleted repo but is still listed", i+1))
			} else {
				d = append(d, fmt.Sprintf("n%d missing from the server's repo info", i+1))
			}
			continue
		}
		if isDead {
			continue
		}
		if !eqInts(want.Par[i], got.Par[i]) {
			d = append(d, fmt.Sprintf("n%d parents: spec %v, server %v", i+1, want.Par[i], got.Par[i]))
		}
		if !eqInts(want.Kids[i], got.Kids[i]) {
			d = append(d, fmt.Sprintf("n%d children: spec %v, server %v", i+1, want.Kids[i], got.Kids[i]))
		}
		if want.Br[i] != got.Br[i] {
			d = append(d, fmt.Sprintf("n%d branch: spec %q, server %q", i+1, want.Br[i], got.Br[i]))
		}
		if want.Lk[i] != got.Lk[i] {
			d = append(d, fmt.Sprintf("n%d locked: spec %v, server %v", i+1, want.Lk[i], got.Lk[i]))
		}
		if want.Rp[i] != got.Rp[i] {
			d = append(d, fmt.Sprintf("n%d repo root: spec n%d, server n%d", i+1, want.Rp[i], got.Rp[i]))
		}
		if want.Uid[i] != got.Uid[i] {
			d = append(d, fmt.Sprintf("n%d uuid: spec %s, server %s", i+1, want.Uid[i], got.Uid[i]))
		}
	}
	d = append(d, ob.Extra...)
	d = append(d, ob.WFErrs...)
	return d
}

// RepoCount returns the number of repos the server lists.
func (s *Sess) RepoCount() (int, error) {
	r, err := s.N.HTTP("GET", "/api/repos/info", nil)
	if err != nil {
		return 0, err
	}
	var all map[string]json.RawMessage
	if err := json.Unmarshal(r.Bytes(), &all); err != nil {
		return 0, err
	}
	return len(all), nil
}

// ConcreteBranch maps a specification branch name to the server's ("" = master,
// "tag-<pool name>" = "tag-<concrete uuid>").
func (s *Sess) ConcreteBranch(b string) string {
	if b == "" {
		return "master"
	}
	if strings.HasPrefix(b, "tag-") {
		if h, ok := s.Pool[b[4:]]; ok {
			return "tag-" + h
		}
	}
	// growth: the branch of a resolve extension node is named after its parent
	if strings.HasPrefix(b, "conflict-") {
		if k, err := strconv.Atoi(b[len("conflict-"):]); err == nil && k >= 1 && k <= len(s.UUIDs) {
			return "conflict-" + s.UUIDs[k-1]
		}
	}
	return b
}

// BuildShape creates a repo whose DAG has the given parent structure (par[0] must be
// empty: the root).  afterCreate(k) is called right after node k (1-based) exists and
// before it is committed, so that the caller can write data there.  Nodes are
// committed lazily, when first needed as a parent.  Single-parent nodes are created
// with POST branch (fresh branch name), others with POST merge.
func (s *Sess) BuildShape(par [][]int, afterCreate func(k int) error) error {
	base := len(s.UUIDs)
	locked := make([]bool, len(par))
	for k := 1; k <= len(par); k++ {
		ps := par[k-1]
		for _, p := range ps {
			if !locked[p-1] {
				ok, st, err := s.Apply(Op{Op: "commit", Node: base + p})
				if err != nil {
					return err
				}
				if !ok {
					return fmt.Errorf("commit of n%d refused (%d)", p, st)
				}
				locked[p-1] = true
			}
		}
		var op Op
		switch len(ps) {
		case 0:
			op = Op{Op: "newrepo", UUID: "auto"}
		case 1:
			op = Op{Op: "branch", Node: base + ps[0], Branch: fmt.Sprintf("b%d", k), UUID: "auto"}
		default:
			q := make([]int, len(ps))
			for i, p := range ps {
				q[i] = base + p
			}
			op = Op{Op: "merge", Parents: q}
		}
		ok, st, err := s.Apply(op)
		if err != nil {
			return err
		}
		if !ok {
			return fmt.Errorf("creating n%d with %s refused (%d)", k, op.Key(), st)
		}
		if afterCreate != nil {
			if err := afterCreate(k); err != nil {
				return err
			}
		}
	}
	return nil
}

// NewInstance creates a data instance at the repo of node k.
func (s *Sess) NewInstance(k int, typename, name string, extra map[string]string) error {
	m := map[string]string{"typename": typename, "dataname": name}
	for a, b := range extra {
		m[a] = b
	}
	b, _ := json.Marshal(m)
	r, err := s.HTTP("POST", "/api/repo/"+s.NodeUUID(k)+"/instance", b)
	if err != nil {
		return err
	}
	if r.Status != 200 {
		return fmt.Errorf("new instance %s/%s: status %d %s", typename, name, r.Status, r.Bytes())
	}
	return nil
}

// WellFormed checks the C07 well-formedness conditions directly on raw repo infos
// (single root per repo, acyclic by version order, mirrored parent/child links without
// duplicates, parents committed, UUIDs and version ids unique across repos).
func WellFormed(repos map[string]RepoInfo) []string {
	var errs []string
	seenU := map[string]string{}
	seenV := map[int]string{}
	for root, ri := range repos {
		v2u := map[int]string{}
		for u, nd := range ri.DAG.Nodes {
			if prev, dup := seenU[u]; dup {
				errs = append(errs, fmt.Sprintf("uuid %s in repos %s and %s", u, prev, root))
			}
			seenU[u] = root
			if prev, dup := seenV[nd.VersionID]; dup {
				errs = append(errs, fmt.Sprintf("version id %d names %s and %s", nd.VersionID, prev, u))
			}
			seenV[nd.VersionID] = u
			v2u[nd.VersionID] = u
		}
		nroots := 0
		for u, nd := range ri.DAG.Nodes {
			if len(nd.Parents) == 0 {
				nroots++
				if u != ri.DAG.Root {
					errs = append(errs, fmt.Sprintf("node %s has no parents but is not root of %s", u, root))
				}
			}
			cnt := map[int]int{}
			for _, pv := range nd.Parents {
				cnt[pv]++
				pu, ok := v2u[pv]
				if !ok {
					errs = append(errs, fmt.Sprintf("node %s: parent version %d not in repo", u, pv))
					continue
				}
				p := ri.DAG.Nodes[pu]
				if !p.Locked {
					errs = append(errs, fmt.Sprintf("node %s hangs off uncommitted parent %s", u, pu))
				}
				if pv >= nd.VersionID {
					errs = append(errs, fmt.Sprintf("node %s (v%d) has parent v%d", u, nd.VersionID, pv))
				}
				c := 0
				for _, cv := range p.Children {
					if cv == nd.VersionID {
						c++
					}
				}
				if c != 1 {
					errs = append(errs, fmt.Sprintf("parent %s lists child %s %d times", pu, u, c))
				}
			}
			for pv, c := range cnt {
				if c > 1 {
					errs = append(errs, fmt.Sprintf("node %s lists parent v%d %d times", u, pv, c))
				}
			}
			for _, cv := range nd.Children {
				cu, ok := v2u[cv]
				if !ok {
					errs = append(errs, fmt.Sprintf("node %s: child version %d not in repo", u, cv))
					continue
				}
				c := 0
				for _, pv := range ri.DAG.Nodes[cu].Parents {
					if pv == nd.VersionID {
						c++
					}
				}
				if c != 1 {
					errs = append(errs, fmt.Sprintf("child %s lists parent %s %d times", cu, u, c))
				}
			}
		}
		if nroots != 1 {
			errs = append(errs, fmt.Sprintf("repo %s has %d parentless nodes", root, nroots))
		}
	}
	sort.Strings(errs)
	return errs
}
