package dagm

import (
	"encoding/json"
	"fmt"
	"time"

	"verifharness/internal/node"
)

// Second-round (growth) requests: the RPC commands make-master and hide-branch (through the
// node's call op, which does what server/rpc.go does: MatchingUUID, then the datastore function)
// and the graph-neutral sync requests of data instances.

func (s *Sess) call(fn string, args interface{}) (bool, int, error) {
	err := s.N.Call(fn, args, nil)
	b, _ := json.Marshal(args)
	s.Script = append(s.Script, Step{Method: "CALL", URL: fn + " " + string(b), Resp: fmt.Sprint(err)})
	if err != nil {
		if ce, ok := err.(*node.CallError); ok {
			if ce.Panic {
				return false, 599, nil
			}
			return false, 400, nil
		}
		return false, 0, err
	}
	return true, 200, nil
}

// syncNames returns the instances used by the sync requests in the repo of abstract node k.
func (s *Sess) syncNames(k int) (lm, lm2, an string) {
	return fmt.Sprintf("lm%dg%d", k, s.syncGen), fmt.Sprintf("lmb%dg%d", k, s.syncGen), fmt.Sprintf("an%dg%d", k, s.syncGen)
}

func (s *Sess) ensureSyncInstances(k int) error {
	if s.syncMade == nil {
		s.syncMade = map[int]bool{}
	}
	if s.syncMade[k] {
		return nil
	}
	lm, lm2, an := s.syncNames(k)
	for _, x := range [][2]string{{"labelblk", lm}, {"labelvol", lm2}, {"annotation", an}} {
		if err := s.NewInstance(k, x[0], x[1], nil); err != nil {
			return err
		}
	}
	s.syncMade[k] = true
	return nil
}

// WaitInstanceGone waits for the background deletion of a data instance: until the repo no
// longer lists it and the store has stopped being written (the delete command only answers
// "started"; what follows must meet an idle server).
func (s *Sess) WaitInstanceGone(uuid, name string) error {
	for i := 0; i < 400; i++ {
		if err := s.N.Idle(); err != nil {
			return err
		}
		r, err := s.N.HTTP("GET", "/api/repo/"+uuid+"/info", nil)
		if err != nil {
			return err
		}
		var ri RepoInfo
		json.Unmarshal(r.Bytes(), &ri)
		if _, listed := ri.DataInstances[name]; !listed {
			break
		}
		time.Sleep(10 * time.Millisecond)
	}
	// The deleting goroutine drops the instance from the repo and then saves the repo: give that
	// write up to 0.3 s to show up, then require three quiet periods in a row.
	c0, err := s.N.Count()
	if err != nil {
		return err
	}
	for i := 0; i < 10; i++ {
		time.Sleep(30 * time.Millisecond)
		c, err := s.N.Count()
		if err != nil {
			return err
		}
		if c != c0 {
			break
		}
	}
	quiet := 0
	last, err := s.N.Count()
	if err != nil {
		return err
	}
	for i := 0; i < 200 && quiet < 3; i++ {
		time.Sleep(30 * time.Millisecond)
		c, err := s.N.Count()
		if err != nil {
			return err
		}
		if c == last {
			quiet++
		} else {
			quiet = 0
			last = c
		}
	}
	return nil
}

func (s *Sess) applyGrowth(op Op) (accepted bool, status int, err error, handled bool) {
	switch op.Op {
	case "makemaster":
		ok, st, err := s.call("ds.makemaster", map[string]string{"UUID": s.NodeUUID(op.Node), "OldMasterName": op.Branch})
		return ok, st, err, true
	case "hidebranch":
		ok, st, err := s.call("ds.hidebranch", map[string]string{"UUID": s.NodeUUID(op.Node), "Branch": op.Branch})
		return ok, st, err, true
	case "setsync", "replacesync", "clearsync", "deletesynced":
		if err := s.ensureSyncInstances(op.Node); err != nil {
			return false, 0, err, true
		}
		lm, lm2, an := s.syncNames(op.Node)
		u := s.NodeUUID(op.Node)
		var r node.Resp
		switch op.Op {
		case "setsync":
			r, err = s.HTTP("POST", "/api/node/"+u+"/"+an+"/sync", []byte(fmt.Sprintf(`{"sync":%q}`, lm)))
		case "replacesync":
			r, err = s.HTTP("POST", "/api/node/"+u+"/"+an+"/sync?replace=true", []byte(fmt.Sprintf(`{"sync":%q}`, lm2)))
		case "clearsync":
			r, err = s.HTTP("POST", "/api/node/"+u+"/"+an+"/sync?replace=true", []byte(`{"sync":""}`))
		case "deletesynced":
			// the labelmap the annotation instance is synced with goes away (repo <uuid> delete <name>)
			if _, err = s.HTTP("POST", "/api/node/"+u+"/"+an+"/sync?replace=true", []byte(fmt.Sprintf(`{"sync":%q}`, lm))); err != nil {
				return false, 0, err, true
			}
			ok, st, err := s.call("ds.deletedata", map[string]string{"UUID": u, "Name": lm, "Passcode": ""})
			if err == nil && ok {
				err = s.WaitInstanceGone(u, lm)
			}
			delete(s.syncMade, op.Node)
			s.syncGen++
			return ok, st, err, true
		}
		return r.Status == 200, r.Status, err, true
	}
	return false, 0, nil, false
}
