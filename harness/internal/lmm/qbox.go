package lmm

import (
	"fmt"
	"math/rand"
	"strings"
	"sync"
)

// QBox is a query box of a bounded read (minx..maxz of the sparsevol family): every side is
// optional, like dvid.OptionalBounds.  Order of the sides: minx, maxx, miny, maxy, minz, maxz.
type QBox struct {
	Has [6]bool
	V   [6]int
}

// Contains tells whether a voxel lies inside the box.
func (q QBox) Contains(x, y, z int) bool {
	p := [3]int{x, y, z}
	for d := 0; d < 3; d++ {
		if q.Has[2*d] && p[d] < q.V[2*d] {
			return false
		}
		if q.Has[2*d+1] && p[d] > q.V[2*d+1] {
			return false
		}
	}
	return true
}

// Query renders the box as query-string options ("&minx=..&maxy=..").
func (q QBox) Query() string {
	names := [6]string{"minx", "maxx", "miny", "maxy", "minz", "maxz"}
	var sb strings.Builder
	for i := range names {
		if q.Has[i] {
			fmt.Fprintf(&sb, "&%s=%d", names[i], q.V[i])
		}
	}
	return sb.String()
}

func (q QBox) String() string { return strings.TrimPrefix(q.Query(), "&") }

func full(x0, x1, y0, y1, z0, z1 int) QBox {
	return QBox{Has: [6]bool{true, true, true, true, true, true}, V: [6]int{x0, x1, y0, y1, z0, z1}}
}

// meetsBlock: the box intersects the extent of block coordinate b.
func (q QBox) meetsBlock(b [3]int, bs int) bool {
	for d := 0; d < 3; d++ {
		lo, hi := b[d]*bs, b[d]*bs+bs-1
		if q.Has[2*d] && hi < q.V[2*d] {
			return false
		}
		if q.Has[2*d+1] && lo > q.V[2*d+1] {
			return false
		}
	}
	return true
}

// buildQBoxes chooses the query boxes of the bounded reads and tabulates, by brute force over
// the voxels, how many voxels of every region lie inside each box and which blocks each box
// meets (BoxVoxDef / BoxBlkDef of the generated module LabelGeom).
func (g *Geom) buildQBoxes(seed int64) {
	bs := g.BS
	g.QBoxes = []QBox{
		full(-16, 7, 16, 31, 16, 31),       // crosses x = 0 into the negative block, unaligned to blocks
		full(3, 20, 5, 9, 7, 12),           // inside one block, straddling 8^3 sub-blocks, holds the single voxel
		full(bs, 2*bs-1, 0, bs-1, 0, bs-1), // exactly one block
		{Has: [6]bool{false, false, false, true, true, false}, V: [6]int{0, 0, 0, 20, 10, 0}},   // maxy and minz only
		{Has: [6]bool{true, true, false, false, false, false}, V: [6]int{20, 40, 0, 0, 0, 0}},   // an x slab over two blocks
		{Has: [6]bool{false, true, false, false, false, false}, V: [6]int{0, -20, 0, 0, 0, 0}},  // maxx negative, not a block boundary
		{Has: [6]bool{true, false, false, false, false, false}, V: [6]int{1000, 0, 0, 0, 0, 0}}, // beyond everything
	}
	rng := rand.New(rand.NewSource(seed*7919 + 17))
	var v [6]int
	for d := 0; d < 3; d++ {
		a := g.Min[d] + rng.Intn(g.Size[d])
		b := g.Min[d] + rng.Intn(g.Size[d])
		if a > b {
			a, b = b, a
		}
		v[2*d], v[2*d+1] = a, b
	}
	g.QBoxes = append(g.QBoxes, QBox{Has: [6]bool{true, true, true, true, true, true}, V: v})
	g.BoxVox = make([][]int, len(g.QBoxes))
	g.BoxBlk = make([][]int, len(g.QBoxes))
	for qi, q := range g.QBoxes {
		g.BoxVox[qi] = make([]int, g.R)
		for z := g.Min[2]; z <= g.Max[2]; z++ {
			for y := g.Min[1]; y <= g.Max[1]; y++ {
				for x := g.Min[0]; x <= g.Max[0]; x++ {
					if r := g.regOf[g.idx(x, y, z)]; r != 0 && q.Contains(x, y, z) {
						g.BoxVox[qi][r-1]++
					}
				}
			}
		}
		for bi, b := range g.Blocks {
			if q.meetsBlock(b, bs) {
				g.BoxBlk[qi] = append(g.BoxBlk[qi], bi+1)
			}
		}
	}
}

// tlaBoxes renders BoxVoxDef / BoxBlkDef.
func (g *Geom) tlaBoxes() string {
	var sb strings.Builder
	sb.WriteString("BoxVoxDef == <<")
	for qi := range g.QBoxes {
		if qi > 0 {
			sb.WriteString(", ")
		}
		sb.WriteString("<<")
		for r := 0; r < g.R; r++ {
			if r > 0 {
				sb.WriteString(", ")
			}
			fmt.Fprint(&sb, g.BoxVox[qi][r])
		}
		sb.WriteString(">>")
	}
	sb.WriteString(">>\nBoxBlkDef == <<")
	for qi := range g.QBoxes {
		if qi > 0 {
			sb.WriteString(", ")
		}
		sb.WriteString("{")
		for i, b := range g.BoxBlk[qi] {
			if i > 0 {
				sb.WriteString(", ")
			}
			fmt.Fprint(&sb, b)
		}
		sb.WriteString("}")
	}
	sb.WriteString(">>\n")
	return sb.String()
}

// BlockAt returns the block number (1-based) holding a voxel, 0 if none.
func (g *Geom) BlockAt(x, y, z int) int {
	return g.blockOf[[3]int{fdiv(x, g.BS), fdiv(y, g.BS), fdiv(z, g.BS)}]
}

var (
	statMu sync.Mutex
	stats  = map[string]int64{}
)

// Count records one compared read of the named option combination (evidence).
func Count(key string) {
	statMu.Lock()
	stats[key]++
	statMu.Unlock()
}

// TakeStats returns and resets the counters.
func TakeStats() map[string]int64 {
	statMu.Lock()
	defer statMu.Unlock()
	out := stats
	stats = map[string]int64{}
	return out
}
