package lmm

// Extended read set of the labelmap (gaps C08-1, C08-3, C08-5, C08-7, C08-9, C08-10, C18-1):
// every read option of the endpoints is decoded back to voxels / numbers and compared with
// the observation the specification (Labelmap.tla Obs + LabelmapReads.tla Reads) computed for
// the state.  Nothing here computes an expected value of an operation: the expected region
// sets, counts and block sets come from TLC; this file only expands regions to voxels by the
// shared geometry and decodes the wire formats (using the repository's own decoders where
// they exist).

import (
	"bytes"
	"compress/gzip"
	"encoding/binary"
	"encoding/json"
	"fmt"
	"image"
	"image/png"
	"io"
	"sort"
	"strings"

	pb "google.golang.org/protobuf/proto"

	"github.com/janelia-flyem/dvid/datatype/common/labels"
	"github.com/janelia-flyem/dvid/datatype/common/proto"
	"github.com/janelia-flyem/dvid/dvid"
	lz4 "github.com/janelia-flyem/go/golz4-updated"
)

// ClipObs is the expected answer of a bounded read of one region set (LabelmapReads!ClipOf).
type ClipObs struct {
	Regions []int  `json:"regions"`
	Voxels  uint64 `json:"voxels"`
	Blocks  []int  `json:"blocks"`
	Loose   uint64 `json:"loose"`
}

// Reads is the Reads record of LabelmapReads.tla.
type Reads struct {
	Bodies []struct {
		Label uint64    `json:"label"`
		Clip  []ClipObs `json:"clip"`
	} `json:"bodies"`
	SVs []SVObs `json:"svs"`
}

// SVObs is the expected answer of the supervoxels=true reads of one supervoxel.
type SVObs struct {
	SV      uint64    `json:"sv"`
	Body    uint64    `json:"body"`
	Size    uint64    `json:"size"`
	Regions []int     `json:"regions"`
	Blocks  []int     `json:"blocks"`
	Clip    []ClipObs `json:"clip"`
}

func gunzip(b []byte) ([]byte, error) {
	zr, err := gzip.NewReader(bytes.NewReader(b))
	if err != nil {
		return nil, err
	}
	defer zr.Close()
	return io.ReadAll(zr)
}

func unlz4(b []byte, size int) (out []byte, err error) {
	defer func() {
		if e := recover(); e != nil {
			err = fmt.Errorf("lz4: %v", e)
		}
	}()
	if len(b) == 0 {
		return nil, fmt.Errorf("lz4: empty input")
	}
	out = make([]byte, size)
	if err := lz4.Uncompress(b, out); err != nil {
		return nil, err
	}
	return out, nil
}

// voxelSink accumulates the voxels of a sparse answer and checks them against a clip.
type voxelSink struct {
	g       *Geom
	seen    map[int]bool
	allowed map[int]bool // regions of the body / supervoxel
	q       *QBox
	exact   bool
	blocks  map[int]bool // blocks a block-granular answer may touch (nil = any)
	inside  uint64
	total   uint64
	bad     string
}

func (v *voxelSink) add(x, y, z int) {
	if v.bad != "" {
		return
	}
	reg := v.g.RegionAt(x, y, z)
	if reg == 0 {
		v.bad = fmt.Sprintf("voxel (%d,%d,%d) lies outside the stored volume", x, y, z)
		return
	}
	if !v.allowed[reg] {
		v.bad = fmt.Sprintf("voxel (%d,%d,%d) belongs to region %d, which is not part of the label", x, y, z, reg)
		return
	}
	i := v.g.idx(x, y, z)
	if v.seen[i] {
		v.bad = fmt.Sprintf("voxel (%d,%d,%d) is covered twice", x, y, z)
		return
	}
	v.seen[i] = true
	v.total++
	in := v.q == nil || v.q.Contains(x, y, z)
	if in {
		v.inside++
	} else if v.exact {
		v.bad = fmt.Sprintf("voxel (%d,%d,%d) lies outside the requested bounds %s", x, y, z, v.q)
		return
	}
	if v.blocks != nil && !v.blocks[v.g.BlockAt(x, y, z)] {
		v.bad = fmt.Sprintf("voxel (%d,%d,%d) lies in block %d, which does not meet the requested bounds %s", x, y, z, v.g.BlockAt(x, y, z), v.q)
	}
}

func (v *voxelSink) addRLEs(rles []RLE) {
	for _, r := range rles {
		if r.N <= 0 {
			v.bad = fmt.Sprintf("run with length %d", r.N)
			return
		}
		for x := r.X; x < r.X+r.N; x++ {
			v.add(x, r.Y, r.Z)
		}
	}
}

func (v *voxelSink) addBinaryBlocks(bb []labels.BinaryBlock, label uint64) {
	bs := int32(v.g.BS)
	seenBlk := map[[3]int32]bool{}
	for _, b := range bb {
		if b.Label != label {
			v.bad = fmt.Sprintf("binary block stream is for label %d, asked for %d", b.Label, label)
			return
		}
		if b.Size[0] != bs || b.Size[1] != bs || b.Size[2] != bs {
			v.bad = fmt.Sprintf("binary block of size %v", b.Size)
			return
		}
		k := [3]int32{b.Offset[0], b.Offset[1], b.Offset[2]}
		if seenBlk[k] {
			v.bad = fmt.Sprintf("binary block at offset %v sent twice", b.Offset)
			return
		}
		seenBlk[k] = true
		i := 0
		for z := int32(0); z < bs; z++ {
			for y := int32(0); y < bs; y++ {
				for x := int32(0); x < bs; x++ {
					if b.Voxels[i] {
						v.add(int(b.Offset[0]+x), int(b.Offset[1]+y), int(b.Offset[2]+z))
					}
					i++
				}
			}
		}
	}
}

func regionSet(rs []int) map[int]bool {
	m := map[int]bool{}
	for _, r := range rs {
		m[r] = true
	}
	return m
}

// sparseVariant is one combination of the sparsevol options.
type sparseVariant struct {
	format string // rles, srles, blocks
	exact  bool
	comp   string // "", lz4, gzip (rles only)
	box    int    // -1 = unbounded
	sup    bool   // supervoxels=true
}

func (sv sparseVariant) query(g *Geom) string {
	q := "?format=" + sv.format
	if sv.box >= 0 {
		q += g.QBoxes[sv.box].Query()
		if !sv.exact {
			q += "&exact=false"
		}
	}
	if sv.comp != "" {
		q += "&compression=" + sv.comp
	}
	if sv.sup {
		q += "&supervoxels=true"
	}
	return q
}

func (in *Inst) sparseVariant(salt int) sparseVariant {
	formats := []string{"rles", "srles", "blocks"}
	comps := []string{"", "lz4", "gzip"}
	v := sparseVariant{format: formats[in.pick(salt, 3)], box: in.pick(salt+1, len(in.G.QBoxes)+2) - 1}
	if v.box >= len(in.G.QBoxes) {
		v.box = -1
	}
	v.exact = in.pick(salt+2, 2) == 0
	if v.format == "rles" {
		v.comp = comps[in.pick(salt+3, 3)]
	}
	return v
}

// checkSparse requests one sparse volume variant and compares it with the expected clip.
// regions = the regions of the label (unclipped); size = its voxel count; clip = per box.
func (in *Inst) checkSparse(url string, v sparseVariant, label uint64, regions []int, size uint64, clip []ClipObs) (string, error) {
	g := in.G
	r, err := in.http("GET", url+v.query(g), nil)
	if err != nil {
		return "", err
	}
	{
		ep := url[strings.LastIndex(url[:strings.LastIndex(url, "/")], "/")+1 : strings.LastIndex(url, "/")]
		bk := "unbounded"
		if v.box >= 0 {
			bk = map[bool]string{true: "exact", false: "loose"}[v.exact]
		}
		Count(fmt.Sprintf("%s format=%s %s compression=%q supervoxels=%v", ep, v.format, bk, v.comp, v.sup))
	}
	wantInside := size
	var q *QBox
	var blocks map[int]bool
	if v.box >= 0 {
		wantInside = clip[v.box].Voxels
		q = &g.QBoxes[v.box]
		blocks = regionSet(clip[v.box].Blocks)
	}
	if r.Status == 404 || (r.Status == 200 && len(r.Bytes()) == 0) {
		if wantInside == 0 {
			return "", nil
		}
		return fmt.Sprintf("status %d with %d bytes, specification says %d voxels", r.Status, len(r.Bytes()), wantInside), nil
	}
	if r.Status != 200 {
		return fmt.Sprintf("status %d %.200s", r.Status, r.Bytes()), nil
	}
	body := r.Bytes()
	sink := &voxelSink{g: g, seen: map[int]bool{}, allowed: regionSet(regions), q: q, exact: v.exact && v.format != "blocks", blocks: blocks}
	switch v.format {
	case "rles":
		switch v.comp {
		case "gzip":
			if body, err = gunzip(body); err != nil {
				return "gzip: " + err.Error(), nil
			}
		case "lz4":
			// the uncompressed length is not transmitted: 12 + 16 * runs, at most one run per voxel
			buf, err := unlz4(body, 12+16*int(size+1))
			if err != nil {
				return err.Error(), nil
			}
			n := int(binary.LittleEndian.Uint32(buf[8:]))
			if 12+16*n > len(buf) {
				return fmt.Sprintf("lz4 rles header announces %d runs", n), nil
			}
			body = buf[:12+16*n]
		}
		rles, perr := DecodeRLEs(body, true)
		if perr != nil {
			return perr.Error(), nil
		}
		if body[0] != 0 || body[1] != 3 || body[2] != 0 {
			return fmt.Sprintf("rles header bytes % x", body[:4]), nil
		}
		sink.addRLEs(rles)
	case "srles":
		rles, perr := DecodeRLEs(body, false)
		if perr != nil {
			return perr.Error(), nil
		}
		sink.addRLEs(rles)
	case "blocks":
		bb, perr := labels.ReceiveBinaryBlocks(bytes.NewReader(body))
		if perr != nil {
			return "binary blocks: " + perr.Error(), nil
		}
		sink.addBinaryBlocks(bb, label)
	}
	if sink.bad != "" {
		return sink.bad, nil
	}
	if sink.inside != wantInside {
		return fmt.Sprintf("%d voxels inside the bounds, specification says %d", sink.inside, wantInside), nil
	}
	return "", nil
}

// blockStream parses the (x,y,z int32, n uint32, data) stream of GET blocks / specificblocks.
func parseBlockStream(b []byte) (coords [][3]int, data [][]byte, err error) {
	for len(b) > 0 {
		if len(b) < 16 {
			return nil, nil, fmt.Errorf("trailing %d bytes in the block stream", len(b))
		}
		c := [3]int{int(int32(binary.LittleEndian.Uint32(b[0:]))), int(int32(binary.LittleEndian.Uint32(b[4:]))), int(int32(binary.LittleEndian.Uint32(b[8:])))}
		n := int(binary.LittleEndian.Uint32(b[12:]))
		b = b[16:]
		if n > len(b) {
			return nil, nil, fmt.Errorf("block %v announces %d bytes, %d left", c, n, len(b))
		}
		coords = append(coords, c)
		data = append(data, b[:n])
		b = b[n:]
	}
	return
}

// decodeBlockPayload turns one block of the stream into BS^3 uint64 (little endian bytes).
func decodeBlockPayload(data []byte, compression string, bs int) ([]byte, error) {
	n := bs * bs * bs * 8
	switch compression {
	case "", "lz4":
		return unlz4(data, n)
	case "uncompressed":
		if len(data) != n {
			return nil, fmt.Errorf("uncompressed block has %d bytes", len(data))
		}
		return data, nil
	case "gzip":
		out, err := gunzip(data)
		if err == nil && len(out) != n {
			err = fmt.Errorf("gzip block inflates to %d bytes", len(out))
		}
		return out, err
	case "blocks":
		ser, err := gunzip(data)
		if err != nil {
			return nil, err
		}
		var blk labels.Block
		if err := blk.UnmarshalBinary(ser); err != nil {
			return nil, err
		}
		out, size := blk.MakeLabelVolume()
		if int(size[0]) != bs || int(size[1]) != bs || int(size[2]) != bs || len(out) != n {
			return nil, fmt.Errorf("label block of size %v", size)
		}
		return out, nil
	}
	return nil, fmt.Errorf("unknown compression %q", compression)
}

// blocksToVolume assembles decoded blocks into the array of a bounding box given in block
// coordinates (min, dims), checking that every block is inside it and sent once.
func blocksToVolume(coords [][3]int, vols [][]byte, bmin, bdim [3]int, bs int) ([]byte, string) {
	sx, sy, sz := bdim[0]*bs, bdim[1]*bs, bdim[2]*bs
	vol := make([]byte, sx*sy*sz*8)
	seen := map[[3]int]bool{}
	for i, c := range coords {
		if seen[c] {
			return nil, fmt.Sprintf("block %v sent twice", c)
		}
		seen[c] = true
		var o [3]int
		for d := 0; d < 3; d++ {
			o[d] = c[d] - bmin[d]
			if o[d] < 0 || o[d] >= bdim[d] {
				return nil, fmt.Sprintf("block %v lies outside the requested span", c)
			}
		}
		src := vols[i]
		for z := 0; z < bs; z++ {
			for y := 0; y < bs; y++ {
				dst := (((o[2]*bs+z)*sy+(o[1]*bs+y))*sx + o[0]*bs) * 8
				copy(vol[dst:dst+bs*8], src[((z*bs+y)*bs)*8:])
			}
		}
	}
	return vol, ""
}

// readBlocks reads GET blocks (specific = false) or GET specificblocks for the whole geometry
// at level 0 and returns the assembled volume of the bounding box.
func (in *Inst) readBlocks(uuid string, specific bool, supervoxels bool, compression string) ([]byte, string, error) {
	g := in.G
	base := "/api/node/" + uuid + "/" + in.Name
	var bmin, bdim [3]int
	for d := 0; d < 3; d++ {
		bmin[d] = fdiv(g.Min[d], g.BS)
		bdim[d] = g.Size[d] / g.BS
	}
	var url string
	if specific {
		var cs []string
		for _, b := range g.Blocks {
			cs = append(cs, fmt.Sprintf("%d,%d,%d", b[0], b[1], b[2]))
		}
		cs = append(cs, "7,7,7") // a block that was never stored: nothing is returned for it
		url = base + "/specificblocks?blocks=" + strings.Join(cs, ",")
		if compression != "" {
			url += "&compression=" + compression
		}
		if supervoxels {
			url += "&supervoxels=true"
		}
		if compression == "" {
			compression = "blocks" // documented default of specificblocks
		}
	} else {
		url = fmt.Sprintf("%s/blocks/%d_%d_%d/%d_%d_%d?", base, g.Size[0], g.Size[1], g.Size[2], g.Min[0], g.Min[1], g.Min[2])
		if compression != "" {
			url += "compression=" + compression + "&"
		}
		if supervoxels {
			url += "supervoxels=true"
		}
	}
	r, err := in.http("GET", url, nil)
	if err != nil {
		return nil, "", err
	}
	if r.Status != 200 {
		return nil, fmt.Sprintf("status %d %.200s", r.Status, r.Bytes()), nil
	}
	coords, data, perr := parseBlockStream(r.Bytes())
	if perr != nil {
		return nil, perr.Error(), nil
	}
	if len(coords) != len(g.Blocks) {
		return nil, fmt.Sprintf("%d blocks returned (%v), %d are stored", len(coords), coords, len(g.Blocks)), nil
	}
	vols := make([][]byte, len(data))
	for i := range data {
		v, derr := decodeBlockPayload(data[i], compression, g.BS)
		if derr != nil {
			return nil, fmt.Sprintf("block %v: %v", coords[i], derr), nil
		}
		vols[i] = v
	}
	vol, bad := blocksToVolume(coords, vols, bmin, bdim, g.BS)
	return vol, bad, nil
}

// decodeGoogle decodes the neuroglancer compressed segmentation format (one channel, 8^3 blocks).
func decodeGoogle(b []byte, sx, sy, sz int) (out []byte, err error) {
	defer func() {
		if e := recover(); e != nil {
			err = fmt.Errorf("compressed segmentation: %v", e)
		}
	}()
	u32 := func(i int) uint32 { return binary.LittleEndian.Uint32(b[4*i:]) }
	ch := int(u32(0)) // start of the channel in 4-byte units
	gx, gy, gz := sx/8, sy/8, sz/8
	out = make([]byte, sx*sy*sz*8)
	for bz := 0; bz < gz; bz++ {
		for by := 0; by < gy; by++ {
			for bx := 0; bx < gx; bx++ {
				h := ch + 2*((bz*gy+by)*gx+bx)
				w0, w1 := u32(h), u32(h+1)
				table := ch + int(w0&0xffffff)
				bits := int(w0 >> 24)
				vals := ch + int(w1)
				if bits != 0 && bits != 1 && bits != 2 && bits != 4 && bits != 8 && bits != 16 && bits != 32 {
					return nil, fmt.Errorf("block (%d,%d,%d) has %d encoded bits", bx, by, bz, bits)
				}
				i := 0
				for z := 0; z < 8; z++ {
					for y := 0; y < 8; y++ {
						for x := 0; x < 8; x++ {
							idx := 0
							if bits > 0 {
								pos := i * bits
								word := u32(vals + pos/32)
								idx = int((word >> (uint(pos) % 32)) & uint32((uint64(1)<<uint(bits))-1))
							}
							lo, hi := u32(table+2*idx), u32(table+2*idx+1)
							o := (((bz*8+z)*sy+(by*8+y))*sx + bx*8 + x) * 8
							binary.LittleEndian.PutUint32(out[o:], lo)
							binary.LittleEndian.PutUint32(out[o+4:], hi)
							i++
						}
					}
				}
			}
		}
	}
	return out, nil
}

// pngLabels decodes a 2-d label image into w*h little-endian uint64.
func pngLabels(b []byte, w, h int) ([]byte, error) {
	img, err := png.Decode(bytes.NewReader(b))
	if err != nil {
		return nil, err
	}
	var pix []byte
	var stride int
	switch m := img.(type) {
	case *image.NRGBA64:
		pix, stride = m.Pix, m.Stride
	case *image.RGBA64:
		pix, stride = m.Pix, m.Stride
	default:
		return nil, fmt.Errorf("image of type %T", img)
	}
	if img.Bounds().Dx() != w || img.Bounds().Dy() != h {
		return nil, fmt.Errorf("image of %dx%d pixels", img.Bounds().Dx(), img.Bounds().Dy())
	}
	out := make([]byte, w*h*8)
	for y := 0; y < h; y++ {
		copy(out[y*w*8:(y+1)*w*8], pix[y*stride:])
	}
	return out, nil
}

// readRaw reads GET raw of an arbitrary 3-d box with a compression option and returns uint64 bytes.
func (in *Inst) readRaw(uuid string, min, size [3]int, supervoxels bool, compression string, scale int) ([]byte, string, error) {
	url := fmt.Sprintf("/api/node/%s/%s/raw/0_1_2/%d_%d_%d/%d_%d_%d?", uuid, in.Name, size[0], size[1], size[2], min[0], min[1], min[2])
	if compression != "" {
		url += "compression=" + compression + "&"
	}
	if supervoxels {
		url += "supervoxels=true&"
	}
	if scale > 0 {
		url += fmt.Sprintf("scale=%d", scale)
	}
	r, err := in.http("GET", url, nil)
	if err != nil {
		return nil, "", err
	}
	if r.Status != 200 {
		return nil, fmt.Sprintf("status %d %.200s", r.Status, r.Bytes()), nil
	}
	n := size[0] * size[1] * size[2] * 8
	body := r.Bytes()
	switch compression {
	case "lz4":
		if body, err = unlz4(body, n); err != nil {
			return nil, err.Error(), nil
		}
	case "gzip":
		if body, err = gunzip(body); err != nil {
			return nil, err.Error(), nil
		}
	case "google":
		if body, err = decodeGoogle(body, size[0], size[1], size[2]); err != nil {
			return nil, err.Error(), nil
		}
	}
	if len(body) != n {
		return nil, fmt.Sprintf("%d bytes, expected %d", len(body), n), nil
	}
	return body, "", nil
}

// checkSubvolume compares a uint64 box (x fastest) with the label every region should read as.
func (g *Geom) checkSubvolume(vol []byte, min, size [3]int, labelOf func(region int) uint64) string {
	i := 0
	for z := min[2]; z < min[2]+size[2]; z++ {
		for y := min[1]; y < min[1]+size[1]; y++ {
			for x := min[0]; x < min[0]+size[0]; x++ {
				l := binary.LittleEndian.Uint64(vol[i*8:])
				i++
				var w uint64
				if r := g.RegionAt(x, y, z); r != 0 {
					w = labelOf(r)
				}
				if l != w {
					return fmt.Sprintf("voxel (%d,%d,%d) of region %d reads %d, specification says %d", x, y, z, g.RegionAt(x, y, z), l, w)
				}
			}
		}
	}
	return ""
}

// pick chooses, deterministically from the instance's rotation counter and a salt, one of n
// alternatives (splitmix64): every option combination is reached with about equal frequency.
func (in *Inst) pick(salt, n int) int {
	x := uint64(in.rot)*0x9E3779B97F4A7C15 + uint64(salt)*0xBF58476D1CE4E5B9 + uint64(in.RotSeed)
	x ^= x >> 30
	x *= 0xBF58476D1CE4E5B9
	x ^= x >> 27
	x *= 0x94D049BB133111EB
	x ^= x >> 31
	return int(x % uint64(n))
}

// compareExt performs the extended read set (a rotating sample of the option combinations per
// call; every combination is reached many times over the transitions of a run).
func (in *Inst) compareExt(uuid string, want Obs, lab *Labels) ([]string, error) {
	var d []string
	g := in.G
	rd := want.Rd
	base := "/api/node/" + uuid + "/" + in.Name
	in.rot++
	note := func(f string, a ...interface{}) { d = append(d, fmt.Sprintf(f, a...)) }
	svLabel := func(r int) uint64 { return lab.Real(want.SV[r-1]) }
	bodyLabel := func(r int) uint64 { return lab.Real(want.Body[r-1]) }

	// 1. GET blocks / specificblocks: two option combinations per call
	comps := []string{"", "lz4", "blocks", "uncompressed", "gzip"}
	for j := 0; j < 2; j++ {
		sup := in.pick(10+j, 2) == 0
		comp := comps[in.pick(12+j, 5)]
		specific := in.pick(14+j, 3) == 2
		if specific && comp == "lz4" {
			comp = "" // specificblocks: "" means the documented default "blocks"
		}
		vol, bad, err := in.readBlocks(uuid, specific, sup, comp)
		if err != nil {
			return nil, err
		}
		what := fmt.Sprintf("GET %s compression=%q supervoxels=%v", map[bool]string{true: "specificblocks", false: "blocks"}[specific], comp, sup)
		Count(what)
		if bad != "" {
			note("%s: %s", what, bad)
			continue
		}
		got, bad := g.VolumeToRegions(vol)
		if bad != "" {
			note("%s: %s", what, bad)
			continue
		}
		for r := range got {
			w := bodyLabel(r + 1)
			if sup {
				w = svLabel(r + 1)
			}
			if got[r] != w {
				note("%s: region %d reads %d, specification says %d", what, r+1, got[r], w)
			}
		}
	}

	// 2. GET raw with compression, unaligned boxes and 2-d slices
	{
		rcomps := []string{"lz4", "gzip", "google", ""}
		comp := rcomps[in.pick(20, 4)]
		sup := in.pick(21, 2) == 0
		shape := in.pick(22, 3)
		lf := bodyLabel
		if sup {
			lf = svLabel
		}
		min, size := g.Min, g.Size
		switch shape {
		case 1: // unaligned box crossing x = 0 and a block boundary in y (multiple of 8 for the 8^3 coding)
			min, size = [3]int{-13, 9, 3}, [3]int{40, 32, 16}
		case 2: // one aligned block: the single-block fast path
			b := g.Blocks[in.pick(25, len(g.Blocks))]
			if in.pick(26, 4) == 0 {
				b = [3]int{1, 1, 0} // a block that was never stored reads as background like any unstored region
			}
			min, size = [3]int{b[0] * g.BS, b[1] * g.BS, b[2] * g.BS}, [3]int{g.BS, g.BS, g.BS}
		}
		vol, bad, err := in.readRaw(uuid, min, size, sup, comp, 0)
		if err != nil {
			return nil, err
		}
		what := fmt.Sprintf("GET raw %v+%v compression=%q supervoxels=%v", min, size, comp, sup)
		Count(fmt.Sprintf("GET raw 3d %s compression=%q", []string{"whole box", "unaligned box", "one block"}[shape], comp))
		Count("GET raw 2d " + []string{"xy", "xz", "yz"}[in.pick(23, 3)])
		if bad == "" {
			bad = g.checkSubvolume(vol, min, size, lf)
		}
		if bad != "" {
			note("%s: %s", what, bad)
		}
		// a 2-d slice (xy, xz or yz plane) through a seeded voxel
		p := g.Point[in.pick(24, g.R)]
		planes := []struct {
			dims string
			w, h int
			ax   [2]int
		}{{"0_1", 24, 20, [2]int{0, 1}}, {"0_2", 16, 24, [2]int{0, 2}}, {"1_2", 20, 16, [2]int{1, 2}}}
		pli := in.pick(23, 3)
		pl := planes[pli]
		off := [3]int{p[0], p[1], p[2]}
		off[pl.ax[0]] -= 7
		off[pl.ax[1]] -= 5
		q := ""
		if sup {
			q = "?supervoxels=true"
		}
		r, err := in.http("GET", fmt.Sprintf("%s/raw/%s/%d_%d/%d_%d_%d%s", base, pl.dims, pl.w, pl.h, off[0], off[1], off[2], q), nil)
		if err != nil {
			return nil, err
		}
		what = fmt.Sprintf("GET raw/%s/%d_%d at %v%s", pl.dims, pl.w, pl.h, off, q)
		// 2-d reads come as PNG (64 bits per pixel: the label's little-endian bytes as R, G, B, A of 16 bits)
		b, perr := pngLabels(r.Bytes(), pl.w, pl.h)
		if r.Status != 200 || perr != nil {
			note("%s: status %d, %d bytes: %v", what, r.Status, len(r.Bytes()), perr)
		} else {
			for j := 0; j < pl.h && len(d) < 20; j++ {
				for i := 0; i < pl.w; i++ {
					c := off
					c[pl.ax[0]] += i
					c[pl.ax[1]] += j
					var w uint64
					if reg := g.RegionAt(c[0], c[1], c[2]); reg != 0 {
						w = lf(reg)
					}
					if l := binary.LittleEndian.Uint64(b[(j*pl.w+i)*8:]); l != w {
						note("%s: voxel %v reads %d, specification says %d", what, c, l, w)
						break
					}
				}
			}
		}
	}

	// 3. sparse volumes of every body: one rotating option combination, HEAD, bounded coarse
	for bi, b := range want.Bodies {
		if bi >= len(rd.Bodies) || rd.Bodies[bi].Label != b.Label {
			return nil, fmt.Errorf("Reads and Obs of the specification list different bodies")
		}
		clip := rd.Bodies[bi].Clip
		rb := lab.Real(b.Label)
		v := in.sparseVariant(100 + 10*bi)
		bad, err := in.checkSparse(fmt.Sprintf("%s/sparsevol/%d", base, rb), v, rb, b.Regions, b.Size, clip)
		if err != nil {
			return nil, err
		}
		if bad != "" {
			note("sparsevol/%d%s: %s", rb, v.query(g), bad)
		}
		// HEAD with bounds: block-granular existence
		qi := in.pick(110+10*bi, len(g.QBoxes))
		r, err := in.http("HEAD", fmt.Sprintf("%s/sparsevol/%d?x=1%s", base, rb, g.QBoxes[qi].Query()), nil)
		if err != nil {
			return nil, err
		}
		wantHead := 204
		if len(clip[qi].Blocks) > 0 {
			wantHead = 200
		}
		Count("HEAD sparsevol bounded")
		Count("sparsevol-coarse bounded")
		if r.Status != wantHead {
			note("HEAD sparsevol/%d?%s: status %d, specification says %d (blocks of the body meeting the bounds: %v)", rb, g.QBoxes[qi], r.Status, wantHead, clip[qi].Blocks)
		}
		// sparsevol-coarse with bounds
		qi = in.pick(111+10*bi, len(g.QBoxes))
		bad, err = in.checkCoarse(fmt.Sprintf("%s/sparsevol-coarse/%d?x=1%s", base, rb, g.QBoxes[qi].Query()), clip[qi].Blocks)
		if err != nil {
			return nil, err
		}
		if bad != "" {
			note("sparsevol-coarse/%d?%s: %s", rb, g.QBoxes[qi], bad)
		}
	}

	// 4. supervoxels=true on the index-backed reads: one present supervoxel per call, all sizes
	if len(rd.SVs) > 0 {
		so := rd.SVs[in.pick(301, len(rd.SVs))]
		rs := lab.Real(so.SV)
		v := in.sparseVariant(300)
		v.sup = true
		bad, err := in.checkSparse(fmt.Sprintf("%s/sparsevol/%d", base, rs), v, rs, so.Regions, so.Size, so.Clip)
		if err != nil {
			return nil, err
		}
		if bad != "" {
			note("sparsevol/%d%s: %s", rs, v.query(g), bad)
		}
		r, err := in.http("GET", fmt.Sprintf("%s/size/%d?supervoxels=true", base, rs), nil)
		if err != nil {
			return nil, err
		}
		var sz struct{ Voxels uint64 }
		json.Unmarshal(r.Bytes(), &sz)
		if r.Status != 200 || sz.Voxels != so.Size {
			note("size/%d?supervoxels=true: %d %s, specification says %d", rs, r.Status, r.Bytes(), so.Size)
		}
		r, err = in.http("GET", fmt.Sprintf("%s/sparsevol-size/%d?supervoxels=true", base, rs), nil)
		if err != nil {
			return nil, err
		}
		var ss struct {
			Voxels    uint64 `json:"voxels"`
			NumBlocks uint64 `json:"numblocks"`
			MinVoxel  [3]int `json:"minvoxel"`
			MaxVoxel  [3]int `json:"maxvoxel"`
		}
		json.Unmarshal(r.Bytes(), &ss)
		if r.Status != 200 || ss.Voxels != so.Size || ss.NumBlocks != uint64(len(so.Blocks)) {
			note("sparsevol-size/%d?supervoxels=true: %d %s, specification says %d voxels in %d blocks", rs, r.Status, r.Bytes(), so.Size, len(so.Blocks))
		} else if mn, mx := g.blockBounds(so.Blocks); mn != ss.MinVoxel || mx != ss.MaxVoxel {
			note("sparsevol-size/%d?supervoxels=true: bounding box %v..%v, blocks %v give %v..%v", rs, ss.MinVoxel, ss.MaxVoxel, so.Blocks, mn, mx)
		}
		qi := in.pick(302, len(g.QBoxes))
		bad, err = in.checkCoarse(fmt.Sprintf("%s/sparsevol-coarse/%d?supervoxels=true%s", base, rs, g.QBoxes[qi].Query()), so.Clip[qi].Blocks)
		if err != nil {
			return nil, err
		}
		if bad != "" {
			note("sparsevol-coarse/%d?supervoxels=true&%s: %s", rs, g.QBoxes[qi], bad)
		}
		// sparsevol-by-point at the representative voxel of one of its regions
		p := g.Point[so.Regions[in.pick(303, len(so.Regions))]-1]
		v = in.sparseVariant(310)
		v.sup = true
		bad, err = in.checkSparse(fmt.Sprintf("%s/sparsevol-by-point/%d_%d_%d", base, p[0], p[1], p[2]), v, rs, so.Regions, so.Size, so.Clip)
		if err != nil {
			return nil, err
		}
		if bad != "" {
			note("sparsevol-by-point/%v%s (supervoxel %d): %s", p, v.query(g), rs, bad)
		}
	}
	{
		// sizes?supervoxels=true for every supervoxel present and the ones split away earlier
		var ask, wantSz []uint64
		for _, so := range rd.SVs {
			ask = append(ask, lab.Real(so.SV))
			wantSz = append(wantSz, so.Size)
		}
		for _, dead := range lab.Dead {
			ask = append(ask, dead)
			wantSz = append(wantSz, 0)
		}
		ask = append(ask, in.MaxSeen+2000)
		wantSz = append(wantSz, 0)
		jb, _ := json.Marshal(ask)
		r, err := in.http("GET", base+"/sizes?supervoxels=true", jb)
		if err != nil {
			return nil, err
		}
		var got []uint64
		json.Unmarshal(r.Bytes(), &got)
		if r.Status != 200 || !eqU64(got, wantSz) {
			note("sizes?supervoxels=true %v: %d %.300s, specification says %v", ask, r.Status, r.Bytes(), wantSz)
		}
		// a supervoxel that was split away has no voxels under any read
		for i, dead := range lab.Dead {
			if i != in.pick(304, len(lab.Dead)) {
				continue
			}
			for _, ep := range []string{"size", "sparsevol-size", "sparsevol", "sparsevol-coarse"} {
				r, err := in.http("GET", fmt.Sprintf("%s/%s/%d?supervoxels=true", base, ep, dead), nil)
				if err != nil {
					return nil, err
				}
				if r.Status == 200 && len(r.Bytes()) > 0 {
					note("%s/%d?supervoxels=true answers 200 %.120q for a supervoxel that was split away", ep, dead, r.Bytes())
				}
			}
		}
	}

	// 5. sparsevol-by-point (mapped) through a voxel of a body
	if len(want.Bodies) > 0 {
		bi := in.pick(321, len(want.Bodies))
		b := want.Bodies[bi]
		clip := rd.Bodies[bi].Clip
		p := g.Point[b.Regions[in.pick(322, len(b.Regions))]-1]
		v := in.sparseVariant(320)
		bad, err := in.checkSparse(fmt.Sprintf("%s/sparsevol-by-point/%d_%d_%d", base, p[0], p[1], p[2]), v, lab.Real(b.Label), b.Regions, b.Size, clip)
		if err != nil {
			return nil, err
		}
		if bad != "" {
			note("sparsevol-by-point/%v%s (body %d): %s", p, v.query(g), lab.Real(b.Label), bad)
		}
	}

	// 6. listings: existing-labels, listlabels options, sparsevols-coarse, indices, indices-compressed
	var bodies []uint64
	sizeOf := map[uint64]uint64{}
	blocksOf := map[uint64][]int{}
	for _, b := range want.Bodies {
		rb := lab.Real(b.Label)
		bodies = append(bodies, rb)
		sizeOf[rb] = b.Size
		blocksOf[rb] = b.Blocks
	}
	sort.Slice(bodies, func(i, j int) bool { return bodies[i] < bodies[j] })
	Count("existing-labels")
	Count("sizes?supervoxels=true")
	Count(fmt.Sprintf("labels with %d points", len(g.ManyPts)))
	if len(lab.Dead) > 0 {
		Count("reads of a supervoxel that was split away")
	}
	r, err := in.http("GET", base+"/existing-labels", nil)
	if err != nil {
		return nil, err
	}
	var ex []uint64
	if r.Status != 200 || json.Unmarshal(r.Bytes(), &ex) != nil || !eqU64(sortedU64(ex), bodies) {
		note("existing-labels: %d %.200s, specification says %v", r.Status, r.Bytes(), bodies)
	}
	if len(bodies) > 0 {
		// listlabels?start=<second label>&number=2&sizes=true
		si := in.pick(400, len(bodies))
		num := 1 + in.pick(401, 3)
		r, err := in.http("GET", fmt.Sprintf("%s/listlabels?start=%d&number=%d&sizes=true", base, bodies[si], num), nil)
		if err != nil {
			return nil, err
		}
		var wantLL []uint64
		for j := si; j < len(bodies) && j < si+num; j++ {
			wantLL = append(wantLL, bodies[j], sizeOf[bodies[j]])
		}
		var got []uint64
		raw := r.Bytes()
		for i := 0; i+8 <= len(raw); i += 8 {
			got = append(got, binary.LittleEndian.Uint64(raw[i:]))
		}
		if r.Status != 200 || len(raw)%8 != 0 || !eqU64(got, wantLL) {
			note("listlabels?start=%d&number=%d&sizes=true: %d %v, specification says %v", bodies[si], num, r.Status, got, wantLL)
		}
		// sparsevols-coarse over the whole label range, optionally bounded
		qi := in.pick(402, len(g.QBoxes)+1) - 1
		qs := ""
		if qi >= 0 {
			qs = "?x=1" + g.QBoxes[qi].Query()
		}
		r, err = in.http("GET", fmt.Sprintf("%s/sparsevols-coarse/%d/%d%s", base, bodies[0], bodies[len(bodies)-1], qs), nil)
		if err != nil {
			return nil, err
		}
		if r.Status != 200 {
			note("sparsevols-coarse: status %d %.200s", r.Status, r.Bytes())
		} else {
			got, bad := g.parseCoarseVols(r.Bytes())
			wantCV := map[uint64][]int{}
			for bi, b := range want.Bodies {
				bl := b.Blocks
				if qi >= 0 {
					bl = rd.Bodies[bi].Clip[qi].Blocks
				}
				wantCV[lab.Real(b.Label)] = bl
			}
			if bad != "" {
				note("sparsevols-coarse%s: %s", qs, bad)
			} else {
				for l, bl := range wantCV {
					if fmt.Sprint(got[l]) != fmt.Sprint(bl) && !(len(got[l]) == 0 && len(bl) == 0) {
						note("sparsevols-coarse%s: label %d has blocks %v, specification says %v", qs, l, got[l], bl)
					}
				}
				for l := range got {
					if _, ok := wantCV[l]; !ok {
						note("sparsevols-coarse%s lists label %d, which is not a body", qs, l)
					}
				}
			}
		}
		// indices / indices-compressed for all bodies plus a label without index
		ask := append(append([]uint64(nil), bodies...), in.MaxSeen+3000)
		jb, _ := json.Marshal(ask)
		compressed := in.pick(403, 2) == 0
		ep := "/indices"
		if compressed {
			ep = "/indices-compressed"
		}
		Count("GET " + ep)
		Count("listlabels?start&number&sizes")
		Count(map[bool]string{true: "sparsevols-coarse bounded", false: "sparsevols-coarse"}[qi >= 0])
		r, err = in.http("GET", base+ep, jb)
		if err != nil {
			return nil, err
		}
		if r.Status != 200 {
			note("GET %s: status %d %.200s", ep, r.Status, r.Bytes())
		} else {
			idxs, bad := decodeIndices(r.Bytes(), compressed, ask)
			if bad != "" {
				note("GET %s: %s", ep, bad)
			}
			for i, idx := range idxs {
				l := ask[i]
				wantIdx := map[string]uint64{}
				for _, b := range want.Bodies {
					if lab.Real(b.Label) == l {
						for _, e := range b.Index {
							for _, c := range e.Counts {
								wantIdx[fmt.Sprintf("b%d/sv%d", e.Block, lab.Real(c.SV))] = c.N
							}
						}
					}
				}
				got := map[string]uint64{}
				if idx != nil {
					for zyx, svc := range idx.Blocks {
						x, y, z := labels.DecodeBlockIndex(zyx)
						bi := g.blockOf[[3]int{int(x), int(y), int(z)}]
						for s, n := range svc.Counts {
							if n != 0 {
								got[fmt.Sprintf("b%d/sv%d", bi, s)] = uint64(n)
							}
						}
					}
				}
				if fmt.Sprint(got) != fmt.Sprint(wantIdx) {
					note("GET %s: label %d has index %v, specification says %v", ep, l, got, wantIdx)
				}
			}
		}
	}

	// 7. labels with >= 100 points (the concurrent batch path), mapped and supervoxels
	{
		sup := in.pick(500, 2) == 0
		q := ""
		lf := bodyLabel
		if sup {
			q = "?supervoxels=true"
			lf = svLabel
		}
		jb, _ := json.Marshal(g.ManyPts)
		r, err := in.http("GET", base+"/labels"+q, jb)
		if err != nil {
			return nil, err
		}
		var got []uint64
		json.Unmarshal(r.Bytes(), &got)
		if r.Status != 200 || len(got) != len(g.ManyPts) {
			note("labels%s with %d points: %d %.200s", q, len(g.ManyPts), r.Status, r.Bytes())
		} else {
			for i, p := range g.ManyPts {
				var w uint64
				if reg := g.RegionAt(p[0], p[1], p[2]); reg != 0 {
					w = lf(reg)
				}
				if got[i] != w {
					note("labels%s with %d points: point %v (region %d) reads %d, specification says %d", q, len(g.ManyPts), p, g.RegionAt(p[0], p[1], p[2]), got[i], w)
					break
				}
			}
		}
	}
	return d, nil
}

// checkCoarse compares a sparsevol-coarse answer with the expected block set.
func (in *Inst) checkCoarse(url string, wantBlocks []int) (string, error) {
	g := in.G
	r, err := in.http("GET", url, nil)
	if err != nil {
		return "", err
	}
	if r.Status == 404 {
		if len(wantBlocks) == 0 {
			return "", nil
		}
		return fmt.Sprintf("status 404, specification says blocks %v", wantBlocks), nil
	}
	if r.Status != 200 {
		return fmt.Sprintf("status %d %.200s", r.Status, r.Bytes()), nil
	}
	rles, perr := DecodeRLEs(r.Bytes(), true)
	if perr != nil {
		return perr.Error(), nil
	}
	got := map[int]bool{}
	for _, rl := range rles {
		for x := rl.X; x < rl.X+rl.N; x++ {
			bi, ok := g.blockOf[[3]int{x, rl.Y, rl.Z}]
			if !ok {
				return fmt.Sprintf("names block (%d,%d,%d), which is not stored", x, rl.Y, rl.Z), nil
			}
			if got[bi] {
				return fmt.Sprintf("names block %d twice", bi), nil
			}
			got[bi] = true
		}
	}
	if fmt.Sprint(SortedRegions(got)) != fmt.Sprint(wantBlocks) && !(len(got) == 0 && len(wantBlocks) == 0) {
		return fmt.Sprintf("has blocks %v, specification says %v", SortedRegions(got), wantBlocks), nil
	}
	return "", nil
}

// blockBounds returns the voxel bounding box of a block set (block granular).
func (g *Geom) blockBounds(blocks []int) (mn, mx [3]int) {
	for i, b := range blocks {
		c := g.Blocks[b-1]
		for d := 0; d < 3; d++ {
			lo, hi := c[d]*g.BS, c[d]*g.BS+g.BS-1
			if i == 0 || lo < mn[d] {
				mn[d] = lo
			}
			if i == 0 || hi > mx[d] {
				mx[d] = hi
			}
		}
	}
	return
}

// parseCoarseVols parses the sparsevols-coarse stream: uint64 label, int32 spans, spans.
func (g *Geom) parseCoarseVols(b []byte) (map[uint64][]int, string) {
	out := map[uint64][]int{}
	for len(b) > 0 {
		if len(b) < 12 {
			return nil, fmt.Sprintf("trailing %d bytes", len(b))
		}
		l := binary.LittleEndian.Uint64(b)
		n := int(int32(binary.LittleEndian.Uint32(b[8:])))
		b = b[12:]
		if n < 0 || 16*n > len(b) {
			return nil, fmt.Sprintf("label %d announces %d spans, %d bytes left", l, n, len(b))
		}
		if _, dup := out[l]; dup {
			return nil, fmt.Sprintf("label %d listed twice", l)
		}
		rles, _ := DecodeRLEs(b[:16*n], false)
		b = b[16*n:]
		got := map[int]bool{}
		for _, rl := range rles {
			for x := rl.X; x < rl.X+rl.N; x++ {
				bi, ok := g.blockOf[[3]int{x, rl.Y, rl.Z}]
				if !ok {
					return nil, fmt.Sprintf("label %d names block (%d,%d,%d), which is not stored", l, x, rl.Y, rl.Z)
				}
				got[bi] = true
			}
		}
		out[l] = SortedRegions(got)
	}
	return out, ""
}

// decodeIndices parses GET indices (LabelIndices protobuf) or GET indices-compressed.
func decodeIndices(b []byte, compressed bool, ask []uint64) ([]*proto.LabelIndex, string) {
	out := make([]*proto.LabelIndex, len(ask))
	if !compressed {
		var li proto.LabelIndices
		if err := pb.Unmarshal(b, &li); err != nil {
			return out, err.Error()
		}
		if len(li.Indices) != len(ask) {
			return out, fmt.Sprintf("%d indices returned for %d labels", len(li.Indices), len(ask))
		}
		for i, idx := range li.Indices {
			if idx.Label != ask[i] {
				return out, fmt.Sprintf("position %d carries label %d, asked for %d", i, idx.Label, ask[i])
			}
			out[i] = idx
		}
		return out, ""
	}
	for i := range ask {
		if len(b) < 16 {
			return out, fmt.Sprintf("stream ends before label %d", ask[i])
		}
		n := int(binary.LittleEndian.Uint64(b))
		l := binary.LittleEndian.Uint64(b[8:])
		b = b[16:]
		if l != ask[i] {
			return out, fmt.Sprintf("position %d carries label %d, asked for %d", i, l, ask[i])
		}
		if n > len(b) {
			return out, fmt.Sprintf("label %d announces %d bytes, %d left", l, n, len(b))
		}
		if n > 0 {
			// stored form: DVID serialization envelope (lz4, no checksum) around the protobuf
			rec := b[:n]
			b = b[n:]
			raw, _, err := dvid.DeserializeData(rec, true)
			if err != nil {
				return out, fmt.Sprintf("label %d: %v", l, err)
			}
			var idx proto.LabelIndex
			if err := pb.Unmarshal(raw, &idx); err != nil {
				return out, fmt.Sprintf("label %d: %v", l, err)
			}
			out[i] = &idx
		}
	}
	if len(b) != 0 {
		return out, fmt.Sprintf("%d trailing bytes", len(b))
	}
	return out, ""
}
