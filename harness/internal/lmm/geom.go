// Package lmm binds the Labelmap specification to a real labelmap instance: region
// geometry (shared source of truth for the TLA+ constants and the voxel volume),
// volume I/O, proofreading requests, and decoding of every read endpoint back to region
// granularity.
package lmm

import (
	"encoding/binary"
	"fmt"
	"math/rand"
	"sort"
	"strings"
)

// Box is an inclusive voxel box.
type Box struct{ X0, Y0, Z0, X1, Y1, Z1 int }

func (b Box) contains(x, y, z int) bool {
	return x >= b.X0 && x <= b.X1 && y >= b.Y0 && y <= b.Y1 && z >= b.Z0 && z <= b.Z1
}

// Geom is a partition of a small block-aligned volume into regions.
type Geom struct {
	BS     int      // block edge
	Blocks [][3]int // block coordinates (level 0), index+1 = block number of the spec
	// priority list: a voxel belongs to the region of the first box containing it;
	// otherwise to the default region of its block
	Boxes   []Box
	BoxReg  []int // region (1-based) of each box
	DefReg  []int // default region per block
	R       int
	Min     [3]int // voxel bounding box of all blocks
	Max     [3]int
	Size    [3]int
	regOf   []int32 // region per voxel of the bounding box (0 = outside the blocks)
	NVox    [][]int // [region-1][block-1]
	Point   [][3]int // one representative voxel per region
	blockOf map[[3]int]int
	// query boxes of the bounded reads with their tables (see qbox.go)
	QBoxes []QBox
	BoxVox [][]int // [box][region-1] voxels of the region inside the box
	BoxBlk [][]int // [box] blocks (1-based) whose extent meets the box
	seed   int64
	// ManyPts: >= 100 seeded points (a few per region, some outside the stored blocks) for the batch lookup
	ManyPts [][3]int
	// InitMap: initial supervoxel -> body mapping other than the identity (nil = identity)
	InitMap map[uint64]uint64
}

// NewGeom builds the standard geometry with nExtra additional seeded boxes.  Regions:
// single voxel, one 8^3 sub-block, a box spanning two blocks, a box crossing x=0 into
// negative coordinates, a half block, and the remainders of the four blocks.
func NewGeom(seed int64, small bool) *Geom { return NewGeomKind(seed, small, false) }

// NewGeomKind: with wholeBlock the small geometry gets a seventh region that is exactly
// block 4 (so that a voxel write can make one octant of a parent block solid).
func NewGeomKind(seed int64, small, wholeBlock bool) *Geom {
	g := &Geom{BS: 32, seed: seed}
	g.Blocks = [][3]int{{0, 0, 0}, {1, 0, 0}, {-1, 0, 0}, {0, 1, 0}}
	if small {
		// 6 regions: used by the exhaustive TLC configuration
		g.Boxes = []Box{
			{8, 8, 8, 8, 8, 8},          // single voxel
			{16, 0, 0, 47, 31, 15},      // spans blocks 1 and 2
			{-16, 16, 16, 7, 31, 31},    // spans blocks 3 and 1 across x = 0
		}
		g.BoxReg = []int{1, 2, 3}
		g.DefReg = []int{4, 5, 6, 6} // blocks 3 and 4 share the last region
		g.R = 6
		if wholeBlock {
			g.DefReg = []int{4, 5, 6, 7}
			g.R = 7
		}
	} else {
		g.Boxes = []Box{
			{8, 8, 8, 8, 8, 8},
			{0, 0, 0, 7, 7, 7},          // one 8^3 sub-block
			{16, 0, 0, 47, 31, 15},
			{-16, 16, 16, 7, 31, 31},
			{0, 32, 0, 31, 47, 31},      // half of block 4
		}
		g.BoxReg = []int{1, 2, 3, 4, 5}
		g.DefReg = []int{6, 7, 8, 9}
		g.R = 9
		rng := rand.New(rand.NewSource(seed))
		// seeded extra boxes (lowest priority among boxes, above defaults)
		for i := 0; i < 3; i++ {
			var nb Box
			for {
				b := g.Blocks[rng.Intn(len(g.Blocks))]
				x0 := b[0]*32 + rng.Intn(24)
				y0 := b[1]*32 + rng.Intn(24)
				z0 := b[2]*32 + rng.Intn(24)
				nb = Box{x0, y0, z0, x0 + 1 + rng.Intn(12), y0 + 1 + rng.Intn(7), z0 + 1 + rng.Intn(7)}
				if g.boxHasOwnVoxel(nb) {
					break
				}
				// wholly hidden behind the earlier boxes (it would be a region without voxels): draw again
			}
			g.Boxes = append(g.Boxes, nb)
			g.R++
			g.BoxReg = append(g.BoxReg, g.R)
		}
	}
	g.finish()
	return g
}

// NewGeomCustom builds a geometry from explicit blocks and boxes (block edge bs; a voxel belongs
// to the region of the first box containing it, otherwise to the default region of its block).
func NewGeomCustom(bs int, blocks [][3]int, boxes []Box, boxReg []int, defReg []int, regions int) *Geom {
	g := &Geom{BS: bs, Blocks: blocks, Boxes: boxes, BoxReg: boxReg, DefReg: defReg, R: regions}
	g.finish()
	return g
}

// boxHasOwnVoxel: some voxel of the box lies in a block of the volume and in none of the boxes
// chosen so far (those have priority).
func (g *Geom) boxHasOwnVoxel(nb Box) bool {
	blk := map[[3]int]bool{}
	for _, b := range g.Blocks {
		blk[b] = true
	}
	for z := nb.Z0; z <= nb.Z1; z++ {
		for y := nb.Y0; y <= nb.Y1; y++ {
		next:
			for x := nb.X0; x <= nb.X1; x++ {
				if !blk[[3]int{fdiv(x, g.BS), fdiv(y, g.BS), fdiv(z, g.BS)}] {
					continue
				}
				for _, b := range g.Boxes {
					if b.contains(x, y, z) {
						continue next
					}
				}
				return true
			}
		}
	}
	return false
}

func (g *Geom) finish() {
	g.blockOf = map[[3]int]int{}
	for i, b := range g.Blocks {
		g.blockOf[b] = i + 1
	}
	for d := 0; d < 3; d++ {
		g.Min[d], g.Max[d] = 1<<30, -(1 << 30)
	}
	for _, b := range g.Blocks {
		for d := 0; d < 3; d++ {
			if b[d]*g.BS < g.Min[d] {
				g.Min[d] = b[d] * g.BS
			}
			if b[d]*g.BS+g.BS-1 > g.Max[d] {
				g.Max[d] = b[d]*g.BS + g.BS - 1
			}
		}
	}
	for d := 0; d < 3; d++ {
		g.Size[d] = g.Max[d] - g.Min[d] + 1
	}
	g.regOf = make([]int32, g.Size[0]*g.Size[1]*g.Size[2])
	g.NVox = make([][]int, g.R)
	for r := range g.NVox {
		g.NVox[r] = make([]int, len(g.Blocks))
	}
	g.Point = make([][3]int, g.R)
	seen := make([]bool, g.R)
	for z := g.Min[2]; z <= g.Max[2]; z++ {
		for y := g.Min[1]; y <= g.Max[1]; y++ {
			for x := g.Min[0]; x <= g.Max[0]; x++ {
				bi, ok := g.blockOf[[3]int{fdiv(x, g.BS), fdiv(y, g.BS), fdiv(z, g.BS)}]
				if !ok {
					continue
				}
				reg := g.DefReg[bi-1]
				for i, b := range g.Boxes {
					if b.contains(x, y, z) {
						reg = g.BoxReg[i]
						break
					}
				}
				g.regOf[g.idx(x, y, z)] = int32(reg)
				g.NVox[reg-1][bi-1]++
				if !seen[reg-1] {
					seen[reg-1] = true
					g.Point[reg-1] = [3]int{x, y, z}
				}
			}
		}
	}
	for r := range seen {
		if !seen[r] {
			panic(fmt.Sprintf("region %d has no voxels", r+1))
		}
	}
	g.buildQBoxes(g.seed)
	rng := rand.New(rand.NewSource(g.seed*31 + 5))
	g.ManyPts = nil
	for len(g.ManyPts) < 130 {
		p := [3]int{g.Min[0] + rng.Intn(g.Size[0]), g.Min[1] + rng.Intn(g.Size[1]), g.Min[2] + rng.Intn(g.Size[2])}
		g.ManyPts = append(g.ManyPts, p)
	}
	for r := 0; r < g.R; r++ {
		g.ManyPts = append(g.ManyPts, g.Point[r])
	}
}

func fdiv(a, b int) int {
	q := a / b
	if a%b != 0 && (a < 0) != (b < 0) {
		q--
	}
	return q
}

func (g *Geom) idx(x, y, z int) int {
	return ((z-g.Min[2])*g.Size[1]+(y-g.Min[1]))*g.Size[0] + (x - g.Min[0])
}

// RegionAt returns the region of a voxel (0 outside the blocks).
func (g *Geom) RegionAt(x, y, z int) int {
	if x < g.Min[0] || x > g.Max[0] || y < g.Min[1] || y > g.Max[1] || z < g.Min[2] || z > g.Max[2] {
		return 0
	}
	return int(g.regOf[g.idx(x, y, z)])
}

// TLAConstants renders the generated module LabelGeom.
func (g *Geom) TLAConstants(initSV []uint64) string {
	var sb strings.Builder
	sb.WriteString("---- MODULE LabelGeom ----\nNVoxDef == <<")
	for r := 0; r < g.R; r++ {
		if r > 0 {
			sb.WriteString(", ")
		}
		sb.WriteString("<<")
		for b := range g.Blocks {
			if b > 0 {
				sb.WriteString(", ")
			}
			fmt.Fprint(&sb, g.NVox[r][b])
		}
		sb.WriteString(">>")
	}
	sb.WriteString(">>\nInitSVDef == <<")
	for r := 0; r < g.R; r++ {
		if r > 0 {
			sb.WriteString(", ")
		}
		fmt.Fprint(&sb, initSV[r])
	}
	sb.WriteString(">>\n")
	sb.WriteString(g.tlaBoxes())
	if g.InitMap != nil {
		// initial agglomeration other than the identity (substituted for Labelmap!InitMap)
		var ks []uint64
		for k := range g.InitMap {
			ks = append(ks, k)
		}
		sort.Slice(ks, func(i, j int) bool { return ks[i] < ks[j] })
		sb.WriteString("InitMapDef == [s \\in {")
		for i, k := range ks {
			if i > 0 {
				sb.WriteString(", ")
			}
			fmt.Fprint(&sb, k)
		}
		sb.WriteString("} |-> CASE ")
		for i, k := range ks {
			if i > 0 {
				sb.WriteString(" [] ")
			}
			fmt.Fprintf(&sb, "s = %d -> %d", k, g.InitMap[k])
		}
		sb.WriteString("]\n")
	}
	sb.WriteString("====\n")
	return sb.String()
}

// BlockVolume renders the uint64 little-endian voxel array of one block given the label of
// every region.
func (g *Geom) BlockVolume(block int, labelOf func(region int) uint64) []byte {
	b := g.Blocks[block-1]
	buf := make([]byte, g.BS*g.BS*g.BS*8)
	i := 0
	for z := b[2] * g.BS; z < (b[2]+1)*g.BS; z++ {
		for y := b[1] * g.BS; y < (b[1]+1)*g.BS; y++ {
			for x := b[0] * g.BS; x < (b[0]+1)*g.BS; x++ {
				binary.LittleEndian.PutUint64(buf[i:], labelOf(int(g.regOf[g.idx(x, y, z)])))
				i += 8
			}
		}
	}
	return buf
}

// VolumeToRegions projects a uint64 volume of the whole bounding box onto regions.  It
// returns the label of every region and a description of the first non-uniform region or
// stray voxel outside the blocks, if any.
func (g *Geom) VolumeToRegions(vol []byte) ([]uint64, string) {
	n := g.Size[0] * g.Size[1] * g.Size[2]
	if len(vol) != n*8 {
		return nil, fmt.Sprintf("volume has %d bytes, expected %d", len(vol), n*8)
	}
	out := make([]uint64, g.R)
	set := make([]bool, g.R)
	for i := 0; i < n; i++ {
		l := binary.LittleEndian.Uint64(vol[i*8:])
		r := g.regOf[i]
		if r == 0 {
			if l != 0 {
				return nil, fmt.Sprintf("voxel index %d outside the written blocks has label %d", i, l)
			}
			continue
		}
		if !set[r-1] {
			set[r-1] = true
			out[r-1] = l
		} else if out[r-1] != l {
			x := i%g.Size[0] + g.Min[0]
			y := (i/g.Size[0])%g.Size[1] + g.Min[1]
			z := i/(g.Size[0]*g.Size[1]) + g.Min[2]
			return nil, fmt.Sprintf("region %d is not uniform: voxel (%d,%d,%d) has label %d, another voxel of the region has %d", r, x, y, z, l, out[r-1])
		}
	}
	return out, ""
}

// RLE is one run along x.
type RLE struct{ X, Y, Z, N int }

// RegionRLEs returns the runs covering exactly the given regions.
func (g *Geom) RegionRLEs(regions map[int]bool) []RLE {
	var out []RLE
	for z := g.Min[2]; z <= g.Max[2]; z++ {
		for y := g.Min[1]; y <= g.Max[1]; y++ {
			run := 0
			for x := g.Min[0]; x <= g.Max[0]+1; x++ {
				in := false
				if x <= g.Max[0] {
					in = regions[int(g.regOf[g.idx(x, y, z)])]
				}
				if in {
					run++
				} else if run > 0 {
					out = append(out, RLE{x - run, y, z, run})
					run = 0
				}
			}
		}
	}
	return out
}

// EncodeRLEs renders the legacy binary sparse volume format.
func EncodeRLEs(rles []RLE) []byte {
	buf := make([]byte, 12+16*len(rles))
	buf[0] = 0
	buf[1] = 3
	buf[2] = 0
	buf[3] = 0
	binary.LittleEndian.PutUint32(buf[4:], 0)
	binary.LittleEndian.PutUint32(buf[8:], uint32(len(rles)))
	for i, r := range rles {
		o := 12 + 16*i
		binary.LittleEndian.PutUint32(buf[o:], uint32(int32(r.X)))
		binary.LittleEndian.PutUint32(buf[o+4:], uint32(int32(r.Y)))
		binary.LittleEndian.PutUint32(buf[o+8:], uint32(int32(r.Z)))
		binary.LittleEndian.PutUint32(buf[o+12:], uint32(int32(r.N)))
	}
	return buf
}

// DecodeRLEs parses "rles" (with header) or "srles" (header=false).
func DecodeRLEs(b []byte, header bool) ([]RLE, error) {
	if header {
		if len(b) < 12 {
			return nil, fmt.Errorf("short rles header (%d bytes)", len(b))
		}
		n := int(binary.LittleEndian.Uint32(b[8:]))
		b = b[12:]
		if len(b) != 16*n {
			return nil, fmt.Errorf("rles header says %d spans, body has %d bytes", n, len(b))
		}
	}
	if len(b)%16 != 0 {
		return nil, fmt.Errorf("rle stream length %d not a multiple of 16", len(b))
	}
	out := make([]RLE, len(b)/16)
	for i := range out {
		o := 16 * i
		out[i] = RLE{int(int32(binary.LittleEndian.Uint32(b[o:]))), int(int32(binary.LittleEndian.Uint32(b[o+4:]))),
			int(int32(binary.LittleEndian.Uint32(b[o+8:]))), int(int32(binary.LittleEndian.Uint32(b[o+12:])))}
	}
	return out, nil
}

// RLEsToRegions checks that the runs cover exactly a union of regions (each voxel once) and
// returns that set.
func (g *Geom) RLEsToRegions(rles []RLE) (map[int]bool, string) {
	cnt := make([]int, g.R)
	seen := map[int]bool{}
	for _, r := range rles {
		if r.N <= 0 {
			return nil, fmt.Sprintf("run with length %d", r.N)
		}
		for x := r.X; x < r.X+r.N; x++ {
			reg := g.RegionAt(x, r.Y, r.Z)
			if reg == 0 {
				return nil, fmt.Sprintf("run voxel (%d,%d,%d) lies outside the volume", x, r.Y, r.Z)
			}
			i := g.idx(x, r.Y, r.Z)
			if seen[i] {
				return nil, fmt.Sprintf("voxel (%d,%d,%d) covered twice", x, r.Y, r.Z)
			}
			seen[i] = true
			cnt[reg-1]++
		}
	}
	out := map[int]bool{}
	for r := 0; r < g.R; r++ {
		tot := 0
		for _, n := range g.NVox[r] {
			tot += n
		}
		if cnt[r] == 0 {
			continue
		}
		if cnt[r] != tot {
			return nil, fmt.Sprintf("region %d only partly covered (%d of %d voxels)", r+1, cnt[r], tot)
		}
		out[r+1] = true
	}
	return out, ""
}

// SortedRegions lists a region set.
func SortedRegions(m map[int]bool) []int {
	var out []int
	for r := range m {
		out = append(out, r)
	}
	sort.Ints(out)
	return out
}

// Level is the class table of one down-res level.
type LevelTab struct {
	Min, Size [3]int
	Classes   [][]int // class c (1-based) -> the 8 children (regions at level 1, level-1 classes at level 2; 0 = unwritten)
	cls       []int32 // class per voxel of the level's bounding box
	// refined tables (DownresN): block of the level holding the voxels of the class, block of the level below holding
	// their children (1-based in Geom.LevelBlocks, 0 = no such block)
	Blk, Src []int
}

// Downres computes the class tables of levels 1 and 2 by brute force over the geometry.
func (g *Geom) Downres() (l1, l2 *LevelTab) {
	build := func(min0, size0 [3]int, child func(x, y, z int) int) *LevelTab {
		lv := &LevelTab{}
		for d := 0; d < 3; d++ {
			lv.Min[d] = fdiv(min0[d], 2)
			lv.Size[d] = fdiv(min0[d]+size0[d]-1, 2) - lv.Min[d] + 1
		}
		lv.cls = make([]int32, lv.Size[0]*lv.Size[1]*lv.Size[2])
		index := map[string]int{}
		for z := 0; z < lv.Size[2]; z++ {
			for y := 0; y < lv.Size[1]; y++ {
				for x := 0; x < lv.Size[0]; x++ {
					var kids []int
					for dz := 0; dz < 2; dz++ {
						for dy := 0; dy < 2; dy++ {
							for dx := 0; dx < 2; dx++ {
								kids = append(kids, child(2*(x+lv.Min[0])+dx, 2*(y+lv.Min[1])+dy, 2*(z+lv.Min[2])+dz))
							}
						}
					}
					sort.Ints(kids)
					k := fmt.Sprint(kids)
					c, ok := index[k]
					if !ok {
						lv.Classes = append(lv.Classes, kids)
						c = len(lv.Classes)
						index[k] = c
					}
					lv.cls[(z*lv.Size[1]+y)*lv.Size[0]+x] = int32(c)
				}
			}
		}
		return lv
	}
	l1 = build(g.Min, g.Size, func(x, y, z int) int { return g.RegionAt(x, y, z) })
	l2 = build(l1.Min, l1.Size, func(x, y, z int) int {
		x, y, z = x-l1.Min[0], y-l1.Min[1], z-l1.Min[2]
		if x < 0 || y < 0 || z < 0 || x >= l1.Size[0] || y >= l1.Size[1] || z >= l1.Size[2] {
			return 0
		}
		return int(l1.cls[(z*l1.Size[1]+y)*l1.Size[0]+x])
	})
	return
}

func tlaClasses(name string, cl [][]int) string {
	var sb strings.Builder
	sb.WriteString(name + " == <<")
	for i, c := range cl {
		if i > 0 {
			sb.WriteString(", ")
		}
		sb.WriteString("<<")
		for j, x := range c {
			if j > 0 {
				sb.WriteString(", ")
			}
			fmt.Fprint(&sb, x)
		}
		sb.WriteString(">>")
	}
	sb.WriteString(">>\n")
	return sb.String()
}

// TLAConstantsDownres renders LabelGeom including the class tables.
func (g *Geom) TLAConstantsDownres(initSV []uint64, l1, l2 *LevelTab) string {
	s := g.TLAConstants(initSV)
	s = strings.Replace(s, "====\n", "", 1)
	if l1 == nil {
		return s + "Classes1Def == <<>>\nClasses2Def == <<>>\n====\n"
	}
	return s + tlaClasses("Classes1Def", l1.Classes) + tlaClasses("Classes2Def", l2.Classes) + "====\n"
}

// CheckLevel compares a uint64 volume of the level's bounding box with the expected label
// of every class; it returns a description of the first mismatch.
func (lv *LevelTab) CheckLevel(vol []byte, want func(class int) uint64) string {
	n := lv.Size[0] * lv.Size[1] * lv.Size[2]
	if len(vol) != n*8 {
		return fmt.Sprintf("volume has %d bytes, expected %d", len(vol), n*8)
	}
	bad := 0
	first := ""
	for i := 0; i < n; i++ {
		l := binary.LittleEndian.Uint64(vol[i*8:])
		c := int(lv.cls[i])
		if w := want(c); l != w {
			if bad == 0 {
				x := i%lv.Size[0] + lv.Min[0]
				y := (i/lv.Size[0])%lv.Size[1] + lv.Min[1]
				z := i/(lv.Size[0]*lv.Size[1]) + lv.Min[2]
				first = fmt.Sprintf("voxel (%d,%d,%d) of class %d (children %v) has label %d, documented vote gives %d", x, y, z, c, lv.Classes[c-1], l, w)
			}
			bad++
		}
	}
	if bad > 0 {
		return fmt.Sprintf("%d voxels differ; first: %s", bad, first)
	}
	return ""
}
