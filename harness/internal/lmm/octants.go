package lmm

// Growth of the down-sampling side (property C14, gaps C14-1, C14-4, C14-6, C14-8):
//   - a geometry with a complete 2x2x2 set of level-0 blocks (so that one request can touch all
//     eight octants of one parent block) plus one block at odd negative y / z coordinates;
//   - class tables for any number of levels, refined by the block that holds a level voxel and by
//     the block that holds its eight children (LabelmapLevels.tla keeps the STORED levels as
//     state: a level voxel is recomputed only when its child block was touched by a mutation);
//   - voxel writes of a whole block-aligned box in one POST raw, blocks written directly at a
//     lower-resolution scale, and the comparison of the stored levels with the specification's.

import (
	"bytes"
	"compress/gzip"
	"encoding/binary"
	"fmt"
	"sort"
	"strings"

	"github.com/janelia-flyem/dvid/datatype/common/labels"
	"github.com/janelia-flyem/dvid/dvid"
)

// NewGeomOctants: blocks (0..1)^3 and (1,-1,-1).  Regions: 1 a single voxel, 2 a box around the
// centre of the cube (voxels in all eight blocks), 3 a slab over the four blocks of the z = 0
// layer, 4 one 8^3 sub-block, 5 a box over two blocks adjacent in z, 6 the whole negative
// block, 7 the rest of the cube (voxels in all eight blocks).
func NewGeomOctants(seed int64) *Geom {
	g := &Geom{BS: 32, seed: seed}
	g.Blocks = [][3]int{{0, 0, 0}, {1, 0, 0}, {0, 1, 0}, {1, 1, 0}, {0, 0, 1}, {1, 0, 1}, {0, 1, 1}, {1, 1, 1}, {1, -1, -1}}
	s := int(seed % 5)
	if s < 0 {
		s = -s
	}
	g.Boxes = []Box{
		{40 + s, 8, 8, 40 + s, 8, 8},        // single voxel (odd or even x by seed)
		{24, 24 - s, 24, 39, 39, 39 + s},    // centre of the cube, in all eight blocks
		{16, 16, 0, 47, 47, 7 + s},          // slab over the four blocks of the z = 0 layer
		{0, 40, 40, 7, 47, 47},              // one 8^3 sub-block of block (0,1,1)
		{0, 0, 24 - s, 7, 7, 39},            // two blocks adjacent in z
	}
	g.BoxReg = []int{1, 2, 3, 4, 5}
	g.DefReg = []int{7, 7, 7, 7, 7, 7, 7, 7, 6}
	g.R = 7
	g.finish()
	return g
}

// LevelBlocks lists the block coordinates that exist at level k (k = 0: the geometry's blocks).
func (g *Geom) LevelBlocks(k int) [][3]int {
	if k == 0 {
		return g.Blocks
	}
	return g.levelBlocks(k)
}

func indexOfBlock(list [][3]int, c [3]int) int {
	for i, b := range list {
		if b == c {
			return i + 1
		}
	}
	return 0
}

// DownresN computes the class tables of levels 1..n by brute force.  A class is a distinct
// (sorted children, block of the level holding the voxel, block of the level below holding the
// children); Blk / Src give the two block numbers (1-based in LevelBlocks, 0 = no such block).
func (g *Geom) DownresN(n int) []*LevelTab {
	var tabs []*LevelTab
	min0, size0 := g.Min, g.Size
	child := func(x, y, z int) int { return g.RegionAt(x, y, z) }
	for k := 1; k <= n; k++ {
		lv := &LevelTab{}
		for d := 0; d < 3; d++ {
			lv.Min[d] = fdiv(min0[d], 2)
			lv.Size[d] = fdiv(min0[d]+size0[d]-1, 2) - lv.Min[d] + 1
		}
		own := g.LevelBlocks(k)
		below := g.LevelBlocks(k - 1)
		lv.cls = make([]int32, lv.Size[0]*lv.Size[1]*lv.Size[2])
		index := map[string]int{}
		for z := 0; z < lv.Size[2]; z++ {
			for y := 0; y < lv.Size[1]; y++ {
				for x := 0; x < lv.Size[0]; x++ {
					ax, ay, az := x+lv.Min[0], y+lv.Min[1], z+lv.Min[2]
					var kids []int
					for dz := 0; dz < 2; dz++ {
						for dy := 0; dy < 2; dy++ {
							for dx := 0; dx < 2; dx++ {
								kids = append(kids, child(2*ax+dx, 2*ay+dy, 2*az+dz))
							}
						}
					}
					sort.Ints(kids)
					blk := indexOfBlock(own, [3]int{fdiv(ax, g.BS), fdiv(ay, g.BS), fdiv(az, g.BS)})
					src := indexOfBlock(below, [3]int{fdiv(2*ax, g.BS), fdiv(2*ay, g.BS), fdiv(2*az, g.BS)})
					key := fmt.Sprint(kids, blk, src)
					c, ok := index[key]
					if !ok {
						lv.Classes = append(lv.Classes, kids)
						lv.Blk = append(lv.Blk, blk)
						lv.Src = append(lv.Src, src)
						c = len(lv.Classes)
						index[key] = c
					}
					lv.cls[(z*lv.Size[1]+y)*lv.Size[0]+x] = int32(c)
				}
			}
		}
		tabs = append(tabs, lv)
		prev := lv
		child = func(x, y, z int) int { return prev.ClassAt(x, y, z) }
		min0, size0 = lv.Min, lv.Size
	}
	return tabs
}

func tlaInts(a []int) string {
	var sb strings.Builder
	sb.WriteString("<<")
	for i, x := range a {
		if i > 0 {
			sb.WriteString(", ")
		}
		fmt.Fprint(&sb, x)
	}
	sb.WriteString(">>")
	return sb.String()
}

// TLALevelTables renders the generated module LabelGeom with the tables LabelmapLevels.tla reads:
// NLDef, ClsKidsDef[k][c], ClsSrcDef[k][c], ClsBlkDef[k][c], BlkParentDef[k][b] (b a block of
// level k-1, value = its parent among the blocks of level k), NBlkDef[k], BlockCoordDef[b].
func (g *Geom) TLALevelTables(initSV []uint64, tabs []*LevelTab) string {
	s := g.TLAConstants(initSV)
	s = strings.Replace(s, "====\n", "", 1)
	var sb strings.Builder
	sb.WriteString(s)
	sb.WriteString("Classes1Def == <<>>\nClasses2Def == <<>>\n")
	fmt.Fprintf(&sb, "NLDef == %d\n", len(tabs))
	seq := func(name string, f func(k int, lv *LevelTab) string) {
		sb.WriteString(name + " == <<")
		for k, lv := range tabs {
			if k > 0 {
				sb.WriteString(", ")
			}
			sb.WriteString(f(k+1, lv))
		}
		sb.WriteString(">>\n")
	}
	seq("ClsKidsDef", func(k int, lv *LevelTab) string {
		var parts []string
		for _, c := range lv.Classes {
			parts = append(parts, tlaInts(c))
		}
		return "<<" + strings.Join(parts, ", ") + ">>"
	})
	seq("ClsSrcDef", func(k int, lv *LevelTab) string { return tlaInts(lv.Src) })
	seq("ClsBlkDef", func(k int, lv *LevelTab) string { return tlaInts(lv.Blk) })
	seq("BlkParentDef", func(k int, lv *LevelTab) string {
		own := g.LevelBlocks(k)
		var par []int
		for _, b := range g.LevelBlocks(k - 1) {
			par = append(par, indexOfBlock(own, [3]int{b[0] >> 1, b[1] >> 1, b[2] >> 1}))
		}
		return tlaInts(par)
	})
	seq("NBlkDef", func(k int, lv *LevelTab) string { return fmt.Sprint(len(g.LevelBlocks(k))) })
	sb.WriteString("BlockCoordDef == <<")
	for i, b := range g.Blocks {
		if i > 0 {
			sb.WriteString(", ")
		}
		// (shifted to be non-negative: only differences are used)
		sb.WriteString(tlaInts([]int{b[0] + 8, b[1] + 8, b[2] + 8}))
	}
	sb.WriteString(">>\n====\n")
	return sb.String()
}

// boxOf returns the bounding box (in block coordinates) of a block set and whether every block
// coordinate of that box belongs to the set.
func (g *Geom) boxOf(blocks []int) (min, max [3]int, complete bool) {
	in := map[[3]int]bool{}
	for i, b := range blocks {
		c := g.Blocks[b-1]
		in[c] = true
		for d := 0; d < 3; d++ {
			if i == 0 || c[d] < min[d] {
				min[d] = c[d]
			}
			if i == 0 || c[d] > max[d] {
				max[d] = c[d]
			}
		}
	}
	n := (max[0] - min[0] + 1) * (max[1] - min[1] + 1) * (max[2] - min[2] + 1)
	return min, max, n == len(in)
}

// IngestBox writes the given blocks (labels by region from sv) with as few POST raw requests as
// possible: repeatedly the largest block-aligned box that consists of blocks of the set only goes
// out as ONE request (all eight octants of a parent block in one mutation when the set holds a
// 2x2x2 cube).  The requests are counted under "POST raw box of n blocks".
func (in *Inst) IngestBox(uuid string, sv []uint64, blocks []int, mutate bool) error {
	g := in.G
	left := map[[3]int]bool{}
	for _, b := range blocks {
		left[g.Blocks[b-1]] = true
	}
	for len(left) > 0 {
		var coords [][3]int
		for c := range left {
			coords = append(coords, c)
		}
		sort.Slice(coords, func(i, j int) bool { return fmt.Sprint(coords[i]) < fmt.Sprint(coords[j]) })
		best, bestN := [2][3]int{coords[0], coords[0]}, 1
		for _, lo := range coords {
			for _, hi := range coords {
				if hi[0] < lo[0] || hi[1] < lo[1] || hi[2] < lo[2] {
					continue
				}
				n, ok := 0, true
				for z := lo[2]; z <= hi[2] && ok; z++ {
					for y := lo[1]; y <= hi[1] && ok; y++ {
						for x := lo[0]; x <= hi[0]; x++ {
							if !left[[3]int{x, y, z}] {
								ok = false
								break
							}
							n++
						}
					}
				}
				if ok && n > bestN {
					best, bestN = [2][3]int{lo, hi}, n
				}
			}
		}
		lo, hi := best[0], best[1]
		min := [3]int{lo[0] * g.BS, lo[1] * g.BS, lo[2] * g.BS}
		size := [3]int{(hi[0] - lo[0] + 1) * g.BS, (hi[1] - lo[1] + 1) * g.BS, (hi[2] - lo[2] + 1) * g.BS}
		vol := make([]byte, size[0]*size[1]*size[2]*8)
		i := 0
		for z := min[2]; z < min[2]+size[2]; z++ {
			for y := min[1]; y < min[1]+size[1]; y++ {
				for x := min[0]; x < min[0]+size[0]; x++ {
					if r := g.RegionAt(x, y, z); r != 0 {
						binary.LittleEndian.PutUint64(vol[i:], sv[r-1])
					}
					i += 8
				}
			}
		}
		q := ""
		if mutate {
			q = "?mutate=true"
		}
		url := fmt.Sprintf("/api/node/%s/%s/raw/0_1_2/%d_%d_%d/%d_%d_%d%s", uuid, in.Name, size[0], size[1], size[2], min[0], min[1], min[2], q)
		r, err := in.http("POST", url, vol)
		if err != nil {
			return err
		}
		if r.Status != 200 {
			return fmt.Errorf("POST raw %v+%v%s: %d %s", min, size, q, r.Status, r.Bytes())
		}
		Count(fmt.Sprintf("POST raw box of %d blocks (mutate=%v)", bestN, mutate))
		for z := lo[2]; z <= hi[2]; z++ {
			for y := lo[1]; y <= hi[1]; y++ {
				for x := lo[0]; x <= hi[0]; x++ {
					delete(left, [3]int{x, y, z})
				}
			}
		}
	}
	for _, l := range sv {
		if l > in.MaxSeen {
			in.MaxSeen = l
		}
	}
	return nil
}

// solidBlockStream renders one solid block in the POST blocks / ingest-supervoxels stream format.
func solidBlockStream(c [3]int, label uint64, bs int) ([]byte, error) {
	b := labels.MakeSolidBlock(label, dvid.Point3d{int32(bs), int32(bs), int32(bs)})
	ser, err := b.MarshalBinary()
	if err != nil {
		return nil, err
	}
	var zbuf bytes.Buffer
	zw := gzip.NewWriter(&zbuf)
	zw.Write(ser)
	zw.Close()
	var buf bytes.Buffer
	for _, x := range c {
		binary.Write(&buf, binary.LittleEndian, int32(x))
	}
	binary.Write(&buf, binary.LittleEndian, int32(zbuf.Len()))
	buf.Write(zbuf.Bytes())
	return buf.Bytes(), nil
}

// WriteLevel stores a solid block of the given label directly at a lower-resolution scale:
// how = "blocks" (POST blocks?scale=k) or "ingest" (POST ingest-supervoxels?scale=k).
func (in *Inst) WriteLevel(uuid string, scale, block int, label uint64, how string) (int, error) {
	lb := in.G.LevelBlocks(scale)
	if block < 1 || block > len(lb) {
		return 0, fmt.Errorf("level %d has no block %d", scale, block)
	}
	body, err := solidBlockStream(lb[block-1], label, in.G.BS)
	if err != nil {
		return 0, err
	}
	ep := "blocks"
	if how == "ingest" {
		ep = "ingest-supervoxels"
	}
	Count(fmt.Sprintf("POST %s?scale=%d", ep, scale))
	r, err := in.http("POST", fmt.Sprintf("/api/node/%s/%s/%s?scale=%d", uuid, in.Name, ep, scale), body)
	if err != nil {
		return 0, err
	}
	return r.Status, nil
}

// CompareStored reads every stored level 1..len(tabs) in full through GET raw?scale=k
// (supervoxels and mapped) and compares each voxel with the label LabelmapLevels.tla holds
// for its class (want[k-1][class-1]).  With no level configured, a scale-1 read must be refused.
func (in *Inst) CompareStored(uuid string, want [][]uint64, obs Obs, lab *Labels, tabs []*LevelTab) ([]string, int, error) {
	var d []string
	n := 0
	bodyOf := map[uint64]uint64{0: 0}
	for _, b := range obs.Bodies {
		for _, s := range b.SVs {
			bodyOf[s] = b.Label
		}
	}
	if len(want) != len(tabs) {
		return nil, 0, fmt.Errorf("specification has %d levels, the class tables %d", len(want), len(tabs))
	}
	for k, lv := range tabs {
		exp := want[k]
		if len(exp) != len(lv.Classes) {
			return nil, n, fmt.Errorf("level %d: specification has %d classes, the geometry %d", k+1, len(exp), len(lv.Classes))
		}
		for _, sup := range []bool{true, false} {
			q := fmt.Sprintf("?scale=%d", k+1)
			if sup {
				q += "&supervoxels=true"
			}
			url := fmt.Sprintf("/api/node/%s/%s/raw/0_1_2/%d_%d_%d/%d_%d_%d%s", uuid, in.Name, lv.Size[0], lv.Size[1], lv.Size[2], lv.Min[0], lv.Min[1], lv.Min[2], q)
			r, err := in.http("GET", url, nil)
			if err != nil {
				return nil, n, err
			}
			n++
			if r.Status != 200 {
				d = append(d, fmt.Sprintf("GET raw%s: status %d %.200s", q, r.Status, r.Bytes()))
				continue
			}
			bad := lv.checkLevelOpt(r.Bytes(), func(c int) (uint64, bool) {
				l := exp[c-1]
				if !sup {
					m, ok := bodyOf[l]
					if !ok {
						// a stale level voxel still holds a supervoxel that no longer exists: what the
						// mapping makes of it is not part of the property
						return 0, false
					}
					l = m
				}
				return lab.Real(l), true
			})
			if bad != "" {
				d = append(d, fmt.Sprintf("level %d (%s): %s", k+1, map[bool]string{true: "supervoxels", false: "mapped"}[sup], bad))
			}
		}
	}
	return d, n, nil
}

// AboveMaxEmpty reads the blocks around the origin at a scale above the configured maximum: the
// request is either refused or shows that nothing was ever stored there (all zero).
func (in *Inst) AboveMaxEmpty(uuid string, scale int) (string, error) {
	g := in.G
	url := fmt.Sprintf("/api/node/%s/%s/raw/0_1_2/%d_%d_%d/%d_%d_%d?scale=%d&supervoxels=true", uuid, in.Name, 2*g.BS, 2*g.BS, 2*g.BS, -g.BS, -g.BS, -g.BS, scale)
	r, err := in.http("GET", url, nil)
	if err != nil {
		return "", err
	}
	if r.Status >= 400 && r.Status < 500 {
		return "", nil
	}
	if r.Status != 200 {
		return fmt.Sprintf("GET raw?scale=%d: status %d", scale, r.Status), nil
	}
	for i, b := range r.Bytes() {
		if b != 0 {
			return fmt.Sprintf("GET raw?scale=%d on an instance whose maximum level is %d: voxel %d holds label data", scale, scale-1, i/8), nil
		}
	}
	return "", nil
}

// checkLevelOpt is CheckLevel with classes whose expected label is left open (ok = false).
func (lv *LevelTab) checkLevelOpt(vol []byte, want func(class int) (uint64, bool)) string {
	n := lv.Size[0] * lv.Size[1] * lv.Size[2]
	if len(vol) != n*8 {
		return fmt.Sprintf("volume has %d bytes, expected %d", len(vol), n*8)
	}
	bad := 0
	first := ""
	for i := 0; i < n; i++ {
		l := binary.LittleEndian.Uint64(vol[i*8:])
		c := int(lv.cls[i])
		w, ok := want(c)
		if ok && l != w {
			if bad == 0 {
				x := i%lv.Size[0] + lv.Min[0]
				y := (i/lv.Size[0])%lv.Size[1] + lv.Min[1]
				z := i/(lv.Size[0]*lv.Size[1]) + lv.Min[2]
				first = fmt.Sprintf("voxel (%d,%d,%d) of class %d (children %v, child block %d) has label %d, the specification's stored level has %d", x, y, z, c, lv.Classes[c-1], lv.Src[c-1], l, w)
			}
			bad++
		}
	}
	if bad > 0 {
		return fmt.Sprintf("%d voxels differ; first: %s", bad, first)
	}
	return ""
}

// BoxRequest renders the POST raw request (body, URL without query) that writes the bounding box
// of the given blocks, which must consist of blocks of the geometry only.
func (in *Inst) BoxRequest(uuid string, sv []uint64, blocks []int) ([]byte, string) {
	g := in.G
	lo, hi, complete := g.boxOf(blocks)
	if !complete {
		panic("BoxRequest: the blocks do not form a box")
	}
	min := [3]int{lo[0] * g.BS, lo[1] * g.BS, lo[2] * g.BS}
	size := [3]int{(hi[0] - lo[0] + 1) * g.BS, (hi[1] - lo[1] + 1) * g.BS, (hi[2] - lo[2] + 1) * g.BS}
	vol := make([]byte, size[0]*size[1]*size[2]*8)
	i := 0
	for z := min[2]; z < min[2]+size[2]; z++ {
		for y := min[1]; y < min[1]+size[1]; y++ {
			for x := min[0]; x < min[0]+size[0]; x++ {
				if r := g.RegionAt(x, y, z); r != 0 {
					binary.LittleEndian.PutUint64(vol[i:], sv[r-1])
				}
				i += 8
			}
		}
	}
	return vol, fmt.Sprintf("/api/node/%s/%s/raw/0_1_2/%d_%d_%d/%d_%d_%d", uuid, in.Name, size[0], size[1], size[2], min[0], min[1], min[2])
}
