package lmm

// Lower-resolution levels read through the other endpoints (gap C14-5): GET blocks?scale=k,
// GET specificblocks?scale=k, label / labels?scale=k and sparsevol?scale=k must show the
// same stored level as GET raw?scale=k, i.e. the documented vote TLC evaluated per class.

import (
	"bytes"
	"encoding/binary"
	"encoding/json"
	"fmt"
	"strings"

	"github.com/janelia-flyem/dvid/datatype/common/labels"
)

// ClassAt returns the class (1-based) of a voxel of the level, 0 outside the level's box.
func (lv *LevelTab) ClassAt(x, y, z int) int {
	x, y, z = x-lv.Min[0], y-lv.Min[1], z-lv.Min[2]
	if x < 0 || y < 0 || z < 0 || x >= lv.Size[0] || y >= lv.Size[1] || z >= lv.Size[2] {
		return 0
	}
	return int(lv.cls[(z*lv.Size[1]+y)*lv.Size[0]+x])
}

// levelBlocks lists the block coordinates that exist at level k (the level-0 blocks shifted).
func (g *Geom) levelBlocks(k int) [][3]int {
	seen := map[[3]int]bool{}
	var out [][3]int
	for _, b := range g.Blocks {
		c := [3]int{b[0] >> uint(k), b[1] >> uint(k), b[2] >> uint(k)}
		if !seen[c] {
			seen[c] = true
			out = append(out, c)
		}
	}
	return out
}

// CompareLevelReads reads level k = 1, 2 through a rotating choice of endpoints / options.
func (in *Inst) CompareLevelReads(uuid string, want Obs, lab *Labels, l1, l2 *LevelTab) ([]string, int, error) {
	var d []string
	nreads := 0
	g := in.G
	base := "/api/node/" + uuid + "/" + in.Name
	in.rot++
	bodyOf := map[uint64]uint64{0: 0}
	for _, b := range want.Bodies {
		for _, s := range b.SVs {
			bodyOf[s] = b.Label
		}
	}
	note := func(f string, a ...interface{}) { d = append(d, fmt.Sprintf(f, a...)) }
	for k, lv := range []*LevelTab{l1, l2} {
		scale := k + 1
		exp := want.Lvl1
		if k == 1 {
			exp = want.Lvl2
		}
		// spec label of a level voxel (supervoxel), 0 outside
		specAt := func(x, y, z int) uint64 {
			c := lv.ClassAt(x, y, z)
			if c == 0 {
				return 0
			}
			return exp[c-1]
		}
		realAt := func(sup bool) func(x, y, z int) uint64 {
			return func(x, y, z int) uint64 {
				l := specAt(x, y, z)
				if !sup {
					l = bodyOf[l]
				}
				return lab.Real(l)
			}
		}
		// (a) blocks / specificblocks ?scale=k
		{
			sup := in.pick(600+k, 2) == 0
			specific := in.pick(602+k, 2) == 0
			comp := []string{"", "lz4", "blocks", "uncompressed", "gzip"}[in.pick(604+k, 5)]
			if specific && comp == "lz4" {
				comp = ""
			}
			blks := g.levelBlocks(scale)
			var bmin, bmax [3]int
			for i, b := range blks {
				for dd := 0; dd < 3; dd++ {
					if i == 0 || b[dd] < bmin[dd] {
						bmin[dd] = b[dd]
					}
					if i == 0 || b[dd] > bmax[dd] {
						bmax[dd] = b[dd]
					}
				}
			}
			bdim := [3]int{bmax[0] - bmin[0] + 1, bmax[1] - bmin[1] + 1, bmax[2] - bmin[2] + 1}
			var url string
			dcomp := comp
			if specific {
				var cs []string
				for _, b := range blks {
					cs = append(cs, fmt.Sprintf("%d,%d,%d", b[0], b[1], b[2]))
				}
				url = fmt.Sprintf("%s/specificblocks?blocks=%s&scale=%d", base, strings.Join(cs, ","), scale)
				if dcomp == "" {
					dcomp = "blocks"
				}
			} else {
				url = fmt.Sprintf("%s/blocks/%d_%d_%d/%d_%d_%d?scale=%d", base, bdim[0]*g.BS, bdim[1]*g.BS, bdim[2]*g.BS, bmin[0]*g.BS, bmin[1]*g.BS, bmin[2]*g.BS, scale)
			}
			if comp != "" {
				url += "&compression=" + comp
			}
			if sup {
				url += "&supervoxels=true"
			}
			what := fmt.Sprintf("GET %s scale=%d compression=%q supervoxels=%v", map[bool]string{true: "specificblocks", false: "blocks"}[specific], scale, comp, sup)
			Count(fmt.Sprintf("GET %s?scale compression=%q", map[bool]string{true: "specificblocks", false: "blocks"}[specific], comp))
			nreads++
			r, err := in.http("GET", url, nil)
			if err != nil {
				return nil, nreads, err
			}
			if r.Status != 200 {
				note("%s: status %d %.200s", what, r.Status, r.Bytes())
			} else if coords, data, perr := parseBlockStream(r.Bytes()); perr != nil {
				note("%s: %v", what, perr)
			} else if len(coords) != len(blks) {
				note("%s: %d blocks returned (%v), level %d has %v", what, len(coords), coords, scale, blks)
			} else {
				vols := make([][]byte, len(data))
				bad := ""
				for i := range data {
					v, derr := decodeBlockPayload(data[i], dcomp, g.BS)
					if derr != nil {
						bad = fmt.Sprintf("block %v: %v", coords[i], derr)
						break
					}
					vols[i] = v
				}
				var vol []byte
				if bad == "" {
					vol, bad = blocksToVolume(coords, vols, bmin, bdim, g.BS)
				}
				if bad == "" {
					bad = checkBox(vol, [3]int{bmin[0] * g.BS, bmin[1] * g.BS, bmin[2] * g.BS}, [3]int{bdim[0] * g.BS, bdim[1] * g.BS, bdim[2] * g.BS}, realAt(sup))
				}
				if bad != "" {
					note("%s: %s", what, bad)
				}
			}
		}
		// (b) label / labels ?scale=k at seeded voxels of the level
		{
			sup := in.pick(610+k, 2) == 0
			q := fmt.Sprintf("?scale=%d", scale)
			if sup {
				q += "&supervoxels=true"
			}
			var pts [][3]int
			for i := 0; i < 40; i++ {
				pts = append(pts, [3]int{lv.Min[0] + in.pick(1000+3*i, lv.Size[0]), lv.Min[1] + in.pick(1001+3*i, lv.Size[1]), lv.Min[2] + in.pick(1002+3*i, lv.Size[2])})
			}
			jb, _ := json.Marshal(pts)
			nreads += 2
			Count("labels?scale")
			Count("label?scale")
			r, err := in.http("GET", base+"/labels"+q, jb)
			if err != nil {
				return nil, nreads, err
			}
			var got []uint64
			json.Unmarshal(r.Bytes(), &got)
			if r.Status != 200 || len(got) != len(pts) {
				note("labels%s: %d %.200s", q, r.Status, r.Bytes())
			} else {
				for i, p := range pts {
					if w := realAt(sup)(p[0], p[1], p[2]); got[i] != w {
						note("labels%s: level voxel %v (class %d) reads %d, documented vote gives %d", q, p, lv.ClassAt(p[0], p[1], p[2]), got[i], w)
						break
					}
				}
			}
			p := pts[0]
			r, err = in.http("GET", fmt.Sprintf("%s/label/%d_%d_%d%s", base, p[0], p[1], p[2], q), nil)
			if err != nil {
				return nil, nreads, err
			}
			var one struct{ Label uint64 }
			json.Unmarshal(r.Bytes(), &one)
			if w := realAt(sup)(p[0], p[1], p[2]); r.Status != 200 || one.Label != w {
				note("label/%v%s: %d %s, documented vote gives %d", p, q, r.Status, r.Bytes(), w)
			}
		}
		// (c) sparsevol?scale=k of one body (or supervoxel): the level voxels voted to it
		if len(want.Bodies) > 0 {
			sup := in.pick(620+k, 3) == 0
			b := want.Bodies[in.pick(622+k, len(want.Bodies))]
			target := b.Label
			if sup {
				target = b.SVs[in.pick(624+k, len(b.SVs))]
			}
			format := []string{"rles", "srles", "blocks"}[in.pick(626+k, 3)]
			q := fmt.Sprintf("?format=%s&scale=%d", format, scale)
			if sup {
				q += "&supervoxels=true"
			}
			rt := lab.Real(target)
			wantSet := map[[3]int]bool{}
			var wantList [][3]int
			for z := lv.Min[2]; z < lv.Min[2]+lv.Size[2]; z++ {
				for y := lv.Min[1]; y < lv.Min[1]+lv.Size[1]; y++ {
					for x := lv.Min[0]; x < lv.Min[0]+lv.Size[0]; x++ {
						l := specAt(x, y, z)
						if (sup && l == target && l != 0) || (!sup && l != 0 && bodyOf[l] == target) {
							wantSet[[3]int{x, y, z}] = true
							wantList = append(wantList, [3]int{x, y, z})
						}
					}
				}
			}
			if format != "blocks" && in.pick(632+k, 3) == 0 {
				// bounds given in the voxel coordinates of the level (exact): clip the voted set by a seeded box
				var qb QBox
				for dd := 0; dd < 3; dd++ {
					a := lv.Min[dd] + in.pick(640+2*dd, lv.Size[dd])
					b := lv.Min[dd] + in.pick(641+2*dd, lv.Size[dd])
					if a > b {
						a, b = b, a
					}
					qb.Has[2*dd], qb.Has[2*dd+1] = true, in.pick(650+dd, 4) != 0
					qb.V[2*dd], qb.V[2*dd+1] = a, b
				}
				q += qb.Query()
				for p := range wantSet {
					if !qb.Contains(p[0], p[1], p[2]) {
						delete(wantSet, p)
					}
				}
				kept := wantList[:0]
				for _, p := range wantList {
					if wantSet[p] {
						kept = append(kept, p)
					}
				}
				wantList = kept
				Count("sparsevol?scale with bounds")
			}
			what := fmt.Sprintf("sparsevol/%d%s", rt, q)
			url := fmt.Sprintf("%s/sparsevol/%d%s", base, rt, q)
			if len(wantList) > 0 && in.pick(628+k, 2) == 0 {
				// the same sparse volume named by a voxel of the level instead of by the label
				p := wantList[in.pick(630+k, len(wantList))]
				what = fmt.Sprintf("sparsevol-by-point/%d_%d_%d%s (label %d)", p[0], p[1], p[2], q, rt)
				url = fmt.Sprintf("%s/sparsevol-by-point/%d_%d_%d%s", base, p[0], p[1], p[2], q)
				Count("sparsevol-by-point?scale format=" + format)
			} else {
				Count("sparsevol?scale format=" + format)
			}
			nreads++
			r, err := in.http("GET", url, nil)
			if err != nil {
				return nil, nreads, err
			}
			body := r.Bytes()
			if r.Status == 404 || (r.Status == 200 && len(body) == 0) {
				if len(wantSet) != 0 {
					note("%s: status %d, empty; the level holds %d voxels of it", what, r.Status, len(wantSet))
				}
			} else if r.Status != 200 {
				note("%s: status %d %.200s", what, r.Status, body)
			} else {
				got := map[[3]int]bool{}
				bad := ""
				add := func(x, y, z int) {
					p := [3]int{x, y, z}
					if got[p] && bad == "" {
						bad = fmt.Sprintf("voxel %v covered twice", p)
					}
					got[p] = true
				}
				switch format {
				case "rles", "srles":
					rles, perr := DecodeRLEs(body, format == "rles")
					if perr != nil {
						bad = perr.Error()
					}
					for _, rl := range rles {
						for x := rl.X; x < rl.X+rl.N; x++ {
							add(x, rl.Y, rl.Z)
						}
					}
				case "blocks":
					bb, perr := labels.ReceiveBinaryBlocks(bytes.NewReader(body))
					if perr != nil {
						bad = perr.Error()
					}
					for _, blk := range bb {
						i := 0
						for z := int32(0); z < blk.Size[2]; z++ {
							for y := int32(0); y < blk.Size[1]; y++ {
								for x := int32(0); x < blk.Size[0]; x++ {
									if blk.Voxels[i] {
										add(int(blk.Offset[0]+x), int(blk.Offset[1]+y), int(blk.Offset[2]+z))
									}
									i++
								}
							}
						}
					}
				}
				if bad == "" {
					for p := range got {
						if !wantSet[p] {
							bad = fmt.Sprintf("level voxel %v (class %d, voted label %d) is in the answer", p, lv.ClassAt(p[0], p[1], p[2]), specAt(p[0], p[1], p[2]))
							break
						}
					}
				}
				if bad == "" && len(got) != len(wantSet) {
					bad = fmt.Sprintf("%d voxels, the documented vote gives it %d voxels at this level", len(got), len(wantSet))
				}
				if bad != "" {
					note("%s: %s", what, bad)
				}
			}
		}
	}
	return d, nreads, nil
}

// checkBox compares a uint64 box (x fastest) with the expected label of every voxel.
func checkBox(vol []byte, min, size [3]int, want func(x, y, z int) uint64) string {
	i := 0
	bad := 0
	first := ""
	for z := min[2]; z < min[2]+size[2]; z++ {
		for y := min[1]; y < min[1]+size[1]; y++ {
			for x := min[0]; x < min[0]+size[0]; x++ {
				l := binary.LittleEndian.Uint64(vol[i*8:])
				i++
				if w := want(x, y, z); l != w {
					if bad == 0 {
						first = fmt.Sprintf("voxel (%d,%d,%d) reads %d, documented vote gives %d", x, y, z, l, w)
					}
					bad++
				}
			}
		}
	}
	if bad > 0 {
		return fmt.Sprintf("%d voxels differ; first: %s", bad, first)
	}
	return ""
}
