package lmm

import (
	"bytes"
	"compress/gzip"
	"encoding/binary"
	"encoding/json"
	"fmt"
	"sort"
	"strings"
	"time"

	pb "google.golang.org/protobuf/proto"

	"github.com/janelia-flyem/dvid/datatype/common/labels"
	"github.com/janelia-flyem/dvid/datatype/common/proto"
	"github.com/janelia-flyem/dvid/dvid"
	lz4 "github.com/janelia-flyem/go/golz4-updated"

	"verifharness/internal/node"
)

// Key is the specification state of one version.
type Key struct {
	SV  []uint64 `json:"sv"`
	MP  MapU64   `json:"mp"`
	Nxt uint64   `json:"nxt"`
}

// MapU64 is a TLA+ function over integers as printed by ToJson: an object, or an array when
// the domain happens to be 1..n.
type MapU64 map[string]uint64

// UnmarshalJSON accepts both shapes.
func (m *MapU64) UnmarshalJSON(b []byte) error {
	out := map[string]uint64{}
	if len(b) > 0 && b[0] == '[' {
		var arr []uint64
		if err := json.Unmarshal(b, &arr); err != nil {
			return err
		}
		for i, v := range arr {
			out[fmt.Sprint(i+1)] = v
		}
	} else {
		if err := json.Unmarshal(b, &out); err != nil {
			return err
		}
	}
	*m = out
	return nil
}

// Canon returns a canonical string of the state.
func (k Key) Canon() string {
	var ks []string
	for s := range k.MP {
		ks = append(ks, s)
	}
	sort.Strings(ks)
	var sb strings.Builder
	fmt.Fprint(&sb, k.SV, "|")
	for _, s := range ks {
		fmt.Fprintf(&sb, "%s>%d,", s, k.MP[s])
	}
	fmt.Fprint(&sb, "|", k.Nxt)
	return sb.String()
}

// Op is the `last` record of the specification.
type Op struct {
	Op      string   `json:"op"`
	Target  uint64   `json:"target,omitempty"`
	Merged  []uint64 `json:"merged,omitempty"`
	Body    uint64   `json:"body,omitempty"`
	SVs     []uint64 `json:"svs,omitempty"`
	New     uint64   `json:"new,omitempty"`
	SV      uint64   `json:"sv,omitempty"`
	Regions []int    `json:"regions,omitempty"`
	Split   uint64   `json:"split,omitempty"`
	Remain  uint64   `json:"remain,omitempty"`
	Old     uint64   `json:"old,omitempty"`
	Label   uint64   `json:"label,omitempty"`
	How     string   `json:"how,omitempty"`    // agglo: "index" (POST index per label) or "indices" (one batch)
	Chosen  bool     `json:"chosen,omitempty"` // splitsv: the client names the new supervoxels
	NewObs  *Obs     `json:"-"`                // agglo: the observation of the target state (the posted indices)
	// LabelmapLevels.tla: the blocks a voxel write posts (overwrite; How = "box" | "nomutate"), the scale and block of a
	// direct lower-resolution write (writelevel; How = "blocks" | "ingest"); splitsv with How = "nodownres"
	Posted []int `json:"posted,omitempty"`
	Scale  int   `json:"scale,omitempty"`
	Block  int   `json:"block,omitempty"`
	// renumber: further (old, new) pairs of the same request; Onto: the new label is a label that was used before
	Pairs [][2]uint64 `json:"pairs,omitempty"`
	Onto  bool        `json:"onto,omitempty"`
	NewSV   []uint64 `json:"-"` // target supervoxel array (for overwrite)
	OldSV   []uint64 `json:"-"` // source supervoxel array (for overwrite)
}

// BodyObs is the expected observation of one body.
type BodyObs struct {
	Label   uint64   `json:"label"`
	Size    uint64   `json:"size"`
	SVs     []uint64 `json:"svs"`
	Regions []int    `json:"regions"`
	Blocks  []int    `json:"blocks"`
	Index   []struct {
		Block  int `json:"block"`
		Counts []struct {
			SV uint64 `json:"sv"`
			N  uint64 `json:"n"`
		} `json:"counts"`
	} `json:"index"`
}

// Obs is the Obs record of the specification.
type Obs struct {
	SV      []uint64  `json:"sv"`
	Body    []uint64  `json:"body"`
	Nxt     uint64    `json:"nxt"`
	Bodies  []BodyObs `json:"bodies"`
	Lvl1    []uint64  `json:"lvl1"`
	Lvl2    []uint64  `json:"lvl2"`
	SVSizes []struct {
		SV   uint64 `json:"sv"`
		Size uint64 `json:"size"`
	} `json:"svsizes"`
	// Rd is the Reads record of LabelmapReads.tla for the same state (nil: extended reads are skipped)
	Rd *Reads `json:"-"`
}

// Inst is a labelmap instance under test.
type Inst struct {
	BlocksDownres bool // IngestBlocks asks for the lower-resolution levels to be computed
	N    *node.Node
	G    *Geom
	Name string
	Root string
	// MaxSeen tracks the largest label ever present or allocated in this instance (C12).
	MaxSeen uint64
	Alloc   []uint64 // allocated labels in issue order
	MutIDs  []uint64 // mutation ids in issue order
	NReq    int
	rot     int // rotation of the option combinations of the extended read set
	RotSeed int // starting point of the rotation (seed and worker)
	NoExt   bool // skip the extended read set (checks that only need the basic reads)
	// ExtEvery > 1: the extended read set runs on every ExtEvery-th full comparison only (thorough tier)
	ExtEvery int
	nCompare int
	// MultiBlock: voxel writes post the x-row of blocks in one request, with rotating compression
	MultiBlock bool
	// LabelBase is added to the initial labels of a layout (large label values, C08-12)
	nIngest int
}

// Labels is a bijection between specification labels and the labels the server uses at
// one version (new labels are bound from responses).
type Labels struct {
	ToReal map[uint64]uint64
	ToSpec map[uint64]uint64
	// BindFromVolume: the next comparison may bind still-unbound specification labels to the
	// labels found in the stored voxels (ids the server allocated without reporting them)
	BindFromVolume bool
	// Dead lists the (real) supervoxel ids that were split away at this version or an ancestor
	Dead []uint64
}

// NewLabels returns the identity on nothing.
func NewLabels() *Labels {
	return &Labels{ToReal: map[uint64]uint64{0: 0}, ToSpec: map[uint64]uint64{0: 0}}
}

// Clone copies the bijection (child version inherits).
func (l *Labels) Clone() *Labels {
	c := NewLabels()
	for k, v := range l.ToReal {
		c.ToReal[k] = v
	}
	for k, v := range l.ToSpec {
		c.ToSpec[k] = v
	}
	c.Dead = append([]uint64(nil), l.Dead...)
	return c
}

// Bind binds a specification label to a real one.
func (l *Labels) Bind(spec, real uint64) {
	l.ToReal[spec] = real
	l.ToSpec[real] = spec
}

// Real maps a specification label (identity when unbound).
func (l *Labels) Real(spec uint64) uint64 {
	if r, ok := l.ToReal[spec]; ok {
		return r
	}
	return spec
}

func (l *Labels) reals(specs []uint64) []uint64 {
	out := make([]uint64, len(specs))
	for i, s := range specs {
		out[i] = l.Real(s)
	}
	return out
}

func (in *Inst) http(method, url string, body []byte) (node.Resp, error) {
	in.NReq++
	r, err := in.N.HTTP(method, url, body)
	if err != nil {
		// name the request: a node that stops answering is an infrastructure error, and which
		// request it hung on is what one needs to know
		err = fmt.Errorf("%s %s: %w", method, url, err)
	}
	return r, err
}

// Create makes the instance at root.
func (in *Inst) Create(cfg map[string]string) error {
	m := map[string]string{"typename": "labelmap", "dataname": in.Name, "BlockSize": fmt.Sprintf("%d,%d,%d", in.G.BS, in.G.BS, in.G.BS)}
	for k, v := range cfg {
		m[k] = v
	}
	b, _ := json.Marshal(m)
	r, err := in.http("POST", "/api/repo/"+in.Root+"/instance", b)
	if err != nil {
		return err
	}
	if r.Status != 200 {
		return fmt.Errorf("create labelmap: %d %s", r.Status, r.Bytes())
	}
	return nil
}

func (in *Inst) blockOffset(block int) string {
	b := in.G.Blocks[block-1]
	return fmt.Sprintf("%d_%d_%d", b[0]*in.G.BS, b[1]*in.G.BS, b[2]*in.G.BS)
}

// Ingest posts the raw voxels of every block (POST raw, or mutate=true for overwrites).
func (in *Inst) Ingest(uuid string, sv []uint64, blocks []int, mutate bool) error {
	for _, blk := range blocks {
		vol := in.G.BlockVolume(blk, func(r int) uint64 {
			if r == 0 {
				return 0
			}
			return sv[r-1]
		})
		q := ""
		if mutate {
			q = "?mutate=true"
		}
		url := fmt.Sprintf("/api/node/%s/%s/raw/0_1_2/%d_%d_%d/%s%s", uuid, in.Name, in.G.BS, in.G.BS, in.G.BS, in.blockOffset(blk), q)
		r, err := in.http("POST", url, vol)
		if err != nil {
			return err
		}
		if r.Status != 200 {
			return fmt.Errorf("POST raw block %d: %d %s", blk, r.Status, r.Bytes())
		}
	}
	for _, l := range sv {
		if l > in.MaxSeen {
			in.MaxSeen = l
		}
	}
	return nil
}

// IngestRows posts voxels like Ingest, but every maximal run of x-adjacent blocks goes out as
// one multi-block POST raw request, with a rotating compression option ("", lz4, gzip).
func (in *Inst) IngestRows(uuid string, sv []uint64, blocks []int, mutate bool) error {
	g := in.G
	want := map[[3]int]bool{}
	for _, b := range blocks {
		want[g.Blocks[b-1]] = true
	}
	var starts [][3]int
	for c := range want {
		if !want[[3]int{c[0] - 1, c[1], c[2]}] {
			starts = append(starts, c)
		}
	}
	sort.Slice(starts, func(i, j int) bool { return fmt.Sprint(starts[i]) < fmt.Sprint(starts[j]) })
	for _, c := range starts {
		n := 1
		for want[[3]int{c[0] + n, c[1], c[2]}] {
			n++
		}
		min := [3]int{c[0] * g.BS, c[1] * g.BS, c[2] * g.BS}
		size := [3]int{n * g.BS, g.BS, g.BS}
		vol := make([]byte, size[0]*size[1]*size[2]*8)
		i := 0
		for z := min[2]; z < min[2]+size[2]; z++ {
			for y := min[1]; y < min[1]+size[1]; y++ {
				for x := min[0]; x < min[0]+size[0]; x++ {
					if r := g.RegionAt(x, y, z); r != 0 {
						binary.LittleEndian.PutUint64(vol[i:], sv[r-1])
					}
					i += 8
				}
			}
		}
		in.nIngest++
		q := ""
		switch in.nIngest % 3 {
		case 1:
			buf := make([]byte, lz4.CompressBound(vol))
			n, err := lz4.Compress(vol, buf)
			if err != nil {
				return err
			}
			vol, q = buf[:n], "compression=lz4"
		case 2:
			var zbuf bytes.Buffer
			zw := gzip.NewWriter(&zbuf)
			zw.Write(vol)
			zw.Close()
			vol, q = zbuf.Bytes(), "compression=gzip"
		}
		if mutate {
			if q != "" {
				q += "&"
			}
			q += "mutate=true"
		}
		url := fmt.Sprintf("/api/node/%s/%s/raw/0_1_2/%d_%d_%d/%d_%d_%d?%s", uuid, in.Name, size[0], size[1], size[2], min[0], min[1], min[2], q)
		r, err := in.http("POST", url, vol)
		if err != nil {
			return err
		}
		if r.Status != 200 {
			return fmt.Errorf("POST raw %v+%v?%s: %d %s", min, size, q, r.Status, r.Bytes())
		}
	}
	for _, l := range sv {
		if l > in.MaxSeen {
			in.MaxSeen = l
		}
	}
	return nil
}

// Idle waits for the instance's background work.
func (in *Inst) Idle() error { return in.N.Idle() }

type opResp struct {
	MutationID       uint64
	CleavedLabel     uint64
	SplitSupervoxel  uint64
	RemainSupervoxel uint64
}

// Problem is something the C12 oracle noticed while binding identifiers.
type Problem struct {
	What string
}

func (in *Inst) noteAlloc(l uint64, probs *[]string, what string) {
	if l <= in.MaxSeen {
		*probs = append(*probs, fmt.Sprintf("%s allocated label %d which is not greater than a label already present/allocated (%d)", what, l, in.MaxSeen))
	}
	for _, a := range in.Alloc {
		if a == l {
			*probs = append(*probs, fmt.Sprintf("%s allocated label %d twice", what, l))
		}
	}
	in.Alloc = append(in.Alloc, l)
	if l > in.MaxSeen {
		in.MaxSeen = l
	}
}

func (in *Inst) noteMut(m uint64, probs *[]string, what string) {
	if n := len(in.MutIDs); n > 0 && m <= in.MutIDs[n-1] {
		*probs = append(*probs, fmt.Sprintf("%s got mutation id %d, not greater than the previous one %d", what, m, in.MutIDs[n-1]))
	}
	in.MutIDs = append(in.MutIDs, m)
}

// Apply executes a specification operation at uuid.  It returns the HTTP status, and the
// identifier problems (C12) noticed while binding new labels.
func (in *Inst) Apply(uuid string, op Op, lab *Labels) (int, []string, error) {
	base := "/api/node/" + uuid + "/" + in.Name
	var probs []string
	switch op.Op {
	case "merge":
		arr := append([]uint64{lab.Real(op.Target)}, lab.reals(op.Merged)...)
		b, _ := json.Marshal(arr)
		r, err := in.http("POST", base+"/merge", b)
		if err != nil || r.Status != 200 {
			return r.Status, nil, err
		}
		var o opResp
		json.Unmarshal(r.Bytes(), &o)
		in.noteMut(o.MutationID, &probs, "merge")
		return 200, probs, nil
	case "cleave":
		b, _ := json.Marshal(lab.reals(op.SVs))
		r, err := in.http("POST", fmt.Sprintf("%s/cleave/%d", base, lab.Real(op.Body)), b)
		if err != nil || r.Status != 200 {
			return r.Status, nil, err
		}
		var o opResp
		json.Unmarshal(r.Bytes(), &o)
		in.noteMut(o.MutationID, &probs, "cleave")
		in.noteAlloc(o.CleavedLabel, &probs, "cleave")
		lab.Bind(op.New, o.CleavedLabel)
		return 200, probs, nil
	case "splitsv":
		reg := map[int]bool{}
		for _, r := range op.Regions {
			reg[r] = true
		}
		payload := EncodeRLEs(in.G.RegionRLEs(reg))
		old := lab.Real(op.SV)
		if op.Chosen {
			// the client names the two new supervoxels: labels above everything present or allocated
			a, b := in.MaxSeen+3, in.MaxSeen+5
			r, err := in.http("POST", fmt.Sprintf("%s/split-supervoxel/%d?split=%d&remain=%d", base, old, a, b), payload)
			if err != nil || r.Status != 200 {
				return r.Status, nil, err
			}
			var o opResp
			json.Unmarshal(r.Bytes(), &o)
			in.noteMut(o.MutationID, &probs, "split-supervoxel")
			if o.SplitSupervoxel != a || o.RemainSupervoxel != b {
				probs = append(probs, fmt.Sprintf("split-supervoxel?split=%d&remain=%d answered %s", a, b, r.Bytes()))
			}
			in.Alloc = append(in.Alloc, a, b)
			in.MaxSeen = b
			lab.Bind(op.Split, a)
			lab.Bind(op.Remain, b)
			lab.Dead = append(lab.Dead, old)
			return 200, probs, nil
		}
		dq := ""
		if op.How == "nodownres" {
			dq = "?downres=false" // the lower-resolution levels are left as they are
		}
		r, err := in.http("POST", fmt.Sprintf("%s/split-supervoxel/%d%s", base, old, dq), payload)
		if err != nil || r.Status != 200 {
			return r.Status, nil, err
		}
		var o opResp
		json.Unmarshal(r.Bytes(), &o)
		in.noteMut(o.MutationID, &probs, "split-supervoxel")
		in.noteAlloc(o.SplitSupervoxel, &probs, "split-supervoxel(split)")
		in.noteAlloc(o.RemainSupervoxel, &probs, "split-supervoxel(remain)")
		lab.Bind(op.Split, o.SplitSupervoxel)
		lab.Bind(op.Remain, o.RemainSupervoxel)
		lab.Dead = append(lab.Dead, old)
		return 200, probs, nil
	case "agglo":
		// state-changing ingest: POST mappings (supervoxels of the merged bodies -> target) plus the
		// indices of the target state (target = union, merged = empty), as one batch or one by one
		if op.NewObs == nil {
			return 0, nil, fmt.Errorf("agglo needs the observation of the target state")
		}
		rt := lab.Real(op.Target)
		m := &proto.MappingOps{Mappings: []*proto.MappingOp{{Mutid: 0, Mapped: rt, Original: lab.reals(op.SVs)}}}
		mb, _ := pb.Marshal(m)
		var idxs []*proto.LabelIndex
		for _, b := range op.NewObs.Bodies {
			if b.Label != op.Target {
				continue
			}
			li := &proto.LabelIndex{Label: rt, Blocks: map[uint64]*proto.SVCount{}}
			for _, e := range b.Index {
				bc := in.G.Blocks[e.Block-1]
				svc := &proto.SVCount{Counts: map[uint64]uint32{}}
				for _, c := range e.Counts {
					svc.Counts[lab.Real(c.SV)] = uint32(c.N)
				}
				li.Blocks[labels.EncodeBlockIndex(int32(bc[0]), int32(bc[1]), int32(bc[2]))] = svc
			}
			idxs = append(idxs, li)
		}
		if len(idxs) != 1 {
			return 0, nil, fmt.Errorf("agglo: target body %d not in the target observation", op.Target)
		}
		for _, mm := range op.Merged {
			idxs = append(idxs, &proto.LabelIndex{Label: lab.Real(mm)})
		}
		in.nIngest++
		mappingsFirst := in.nIngest%2 == 0
		if mappingsFirst {
			if r, err := in.http("POST", base+"/mappings", mb); err != nil || r.Status != 200 {
				return r.Status, nil, err
			}
		}
		if op.How == "indices" {
			ib, _ := pb.Marshal(&proto.LabelIndices{Indices: idxs})
			if r, err := in.http("POST", base+"/indices", ib); err != nil || r.Status != 200 {
				return r.Status, nil, err
			}
		} else {
			for _, li := range idxs {
				ib, _ := pb.Marshal(li)
				if r, err := in.http("POST", fmt.Sprintf("%s/index/%d", base, li.Label), ib); err != nil || r.Status != 200 {
					return r.Status, nil, err
				}
			}
		}
		if !mappingsFirst {
			if r, err := in.http("POST", base+"/mappings", mb); err != nil || r.Status != 200 {
				return r.Status, nil, err
			}
		}
		return 200, nil, nil
	case "overwrite":
		// re-post (mutate) every block that holds one of the regions with the new label
		if op.Label != 0 {
			if _, bound := lab.ToReal[op.Label]; !bound {
				present := false
				for _, l := range op.OldSV {
					if l == op.Label {
						present = true
					}
				}
				if !present {
					lab.Bind(op.Label, in.MaxSeen+3) // a label new to the volume, chosen by the client
				}
			}
		}
		if op.NewSV == nil {
			return 0, nil, fmt.Errorf("overwrite needs the target supervoxel array")
		}
		reg := map[int]bool{}
		for _, r := range op.Regions {
			reg[r] = true
		}
		var blocks []int
		for b := range in.G.Blocks {
			for r := range reg {
				if in.G.NVox[r-1][b] > 0 {
					blocks = append(blocks, b+1)
					break
				}
			}
		}
		if op.Posted != nil {
			// the specification names the blocks of the request (a whole box in one POST raw)
			if err := in.IngestBox(uuid, lab.reals(op.NewSV), op.Posted, op.How != "nomutate"); err != nil {
				return 400, nil, nil
			}
			return 200, nil, nil
		}
		if in.MultiBlock {
			if err := in.IngestRows(uuid, lab.reals(op.NewSV), blocks, true); err != nil {
				return 400, nil, nil
			}
			return 200, nil, nil
		}
		if err := in.Ingest(uuid, lab.reals(op.NewSV), blocks, true); err != nil {
			return 400, nil, nil
		}
		return 200, nil, nil
	case "writelevel":
		st, err := in.WriteLevel(uuid, op.Scale, op.Block, lab.Real(op.Label), op.How)
		return st, nil, err
	case "split":
		reg := map[int]bool{}
		for _, r := range op.Regions {
			reg[r] = true
		}
		r, err := in.http("POST", fmt.Sprintf("%s/split/%d", base, lab.Real(op.Body)), EncodeRLEs(in.G.RegionRLEs(reg)))
		if err != nil || r.Status != 200 {
			return r.Status, nil, err
		}
		var o struct {
			Label      uint64 `json:"label"`
			MutationID uint64
		}
		json.Unmarshal(r.Bytes(), &o)
		if o.MutationID != 0 {
			in.noteMut(o.MutationID, &probs, "split")
		}
		in.noteAlloc(o.Label, &probs, "split")
		lab.Bind(op.New, o.Label)
		if op.OldSV != nil {
			seen := map[uint64]bool{}
			for _, rr := range op.Regions {
				if s := op.OldSV[rr-1]; s != 0 && !seen[s] {
					seen[s] = true
					lab.Dead = append(lab.Dead, lab.Real(s))
				}
			}
		}
		// the ids of the split / remain supervoxels are not in the response: bound from the voxels
		lab.BindFromVolume = true
		return 200, probs, nil
	case "reindex":
		// re-ingest the body's own index: must change nothing
		rb := lab.Real(op.Body)
		r, err := in.http("GET", fmt.Sprintf("%s/index/%d", base, rb), nil)
		if err != nil || r.Status != 200 {
			return r.Status, nil, err
		}
		r2, err := in.http("POST", fmt.Sprintf("%s/index/%d", base, rb), r.Bytes())
		return r2.Status, nil, err
	case "remap":
		// re-ingest the current mapping of the body's supervoxels: must change nothing
		rb := lab.Real(op.Body)
		r, err := in.http("GET", fmt.Sprintf("%s/supervoxels/%d", base, rb), nil)
		if err != nil || r.Status != 200 {
			return r.Status, nil, err
		}
		var svs []uint64
		json.Unmarshal(r.Bytes(), &svs)
		m := &proto.MappingOps{Mappings: []*proto.MappingOp{{Mutid: 0, Mapped: rb, Original: svs}}}
		b, _ := pb.Marshal(m)
		r2, err := in.http("POST", base+"/mappings", b)
		return r2.Status, nil, err
	case "renumber":
		// the new label is chosen by the client: above everything seen so far, or (Onto) a label that was in use
		// before and is free now; further pairs travel in the same request [new1, old1, new2, old2, ...]
		newReal := in.MaxSeen + 3
		if op.Onto {
			newReal = lab.Real(op.New)
		}
		arr := []uint64{newReal, lab.Real(op.Old)}
		binds := [][2]uint64{{op.New, newReal}}
		for i, pr := range op.Pairs {
			nr := in.MaxSeen + 5 + 2*uint64(i)
			arr = append(arr, nr, lab.Real(pr[0]))
			binds = append(binds, [2]uint64{pr[1], nr})
		}
		b, _ := json.Marshal(arr)
		r, err := in.http("POST", base+"/renumber", b)
		if err != nil || r.Status != 200 {
			return r.Status, nil, err
		}
		var o opResp
		json.Unmarshal(r.Bytes(), &o)
		if o.MutationID != 0 {
			in.noteMut(o.MutationID, &probs, "renumber")
		}
		for _, bd := range binds {
			lab.Bind(bd[0], bd[1])
			if bd[1] > in.MaxSeen {
				in.MaxSeen = bd[1]
			}
		}
		return 200, probs, nil
	}
	return 0, nil, fmt.Errorf("unknown op %q", op.Op)
}

func (in *Inst) getVolume(uuid string, supervoxels bool, scale int) ([]byte, int, error) {
	g := in.G
	q := ""
	if supervoxels {
		q = "?supervoxels=true"
	}
	url := fmt.Sprintf("/api/node/%s/%s/raw/0_1_2/%d_%d_%d/%d_%d_%d%s", uuid, in.Name, g.Size[0], g.Size[1], g.Size[2], g.Min[0], g.Min[1], g.Min[2], q)
	r, err := in.http("GET", url, nil)
	return r.Bytes(), r.Status, err
}

func eqU64(a, b []uint64) bool {
	if len(a) != len(b) {
		return false
	}
	for i := range a {
		if a[i] != b[i] {
			return false
		}
	}
	return true
}

func sortedU64(a []uint64) []uint64 {
	b := append([]uint64(nil), a...)
	sort.Slice(b, func(i, j int) bool { return b[i] < b[j] })
	return b
}

// Level selects how much of the read set is compared.
type Level int

const (
	// Light: volumes (supervoxels and mapped) only.
	Light Level = iota
	// Full: every read endpoint of the property.
	Full
)

// Compare reads the instance at uuid and compares with the specification's observation.
// It returns the differences (empty = conforms).
func (in *Inst) Compare(uuid string, want Obs, lab *Labels, lvl Level) ([]string, error) {
	var d []string
	g := in.G
	base := "/api/node/" + uuid + "/" + in.Name
	// 1. stored voxels (supervoxels) and mapped voxels, region-uniform
	vol, st, err := in.getVolume(uuid, true, 0)
	if err != nil {
		return nil, err
	}
	if st != 200 {
		return append(d, fmt.Sprintf("GET raw?supervoxels=true: status %d", st)), nil
	}
	gotSV, bad := g.VolumeToRegions(vol)
	if bad == "" && lab.BindFromVolume {
		lab.BindFromVolume = false
		for r := range want.SV {
			m := want.SV[r]
			if _, bound := lab.ToReal[m]; bound || m == 0 {
				continue
			}
			real := gotSV[r]
			if real == m {
				continue // an original label: identity
			}
			if _, taken := lab.ToSpec[real]; taken || real <= in.MaxSeen {
				d = append(d, fmt.Sprintf("region %d: the new supervoxel of the specification (%d) is stored as %d, which is not a fresh label", r+1, m, real))
				continue
			}
			lab.Bind(m, real)
		}
		for _, m := range want.SV {
			if real, ok := lab.ToReal[m]; ok && real > in.MaxSeen {
				in.Alloc = append(in.Alloc, real)
			}
		}
		for _, a := range in.Alloc {
			if a > in.MaxSeen {
				in.MaxSeen = a
			}
		}
	}
	if bad != "" {
		d = append(d, "supervoxel volume: "+bad)
	} else {
		for r := range want.SV {
			if gotSV[r] != lab.Real(want.SV[r]) {
				d = append(d, fmt.Sprintf("region %d stores supervoxel %d, specification says %d (real %d)", r+1, gotSV[r], want.SV[r], lab.Real(want.SV[r])))
			}
		}
	}
	vol, st, err = in.getVolume(uuid, false, 0)
	if err != nil {
		return nil, err
	}
	if st != 200 {
		return append(d, fmt.Sprintf("GET raw: status %d", st)), nil
	}
	gotBody, bad := g.VolumeToRegions(vol)
	if bad != "" {
		d = append(d, "mapped volume: "+bad)
	} else {
		for r := range want.Body {
			if gotBody[r] != lab.Real(want.Body[r]) {
				d = append(d, fmt.Sprintf("region %d reads as body %d, specification says %d (real %d)", r+1, gotBody[r], want.Body[r], lab.Real(want.Body[r])))
			}
		}
	}
	if lvl == Light || len(d) > 0 {
		return d, nil
	}
	// 2. per body
	for _, b := range want.Bodies {
		rb := lab.Real(b.Label)
		// size
		r, err := in.http("GET", fmt.Sprintf("%s/size/%d", base, rb), nil)
		if err != nil {
			return nil, err
		}
		var sz struct{ Voxels uint64 }
		json.Unmarshal(r.Bytes(), &sz)
		if r.Status != 200 || sz.Voxels != b.Size {
			d = append(d, fmt.Sprintf("size/%d: %d %s, specification says %d voxels", rb, r.Status, r.Bytes(), b.Size))
		}
		// supervoxels
		r, err = in.http("GET", fmt.Sprintf("%s/supervoxels/%d", base, rb), nil)
		if err != nil {
			return nil, err
		}
		var svs []uint64
		json.Unmarshal(r.Bytes(), &svs)
		if r.Status != 200 || !eqU64(sortedU64(svs), sortedU64(lab.reals(b.SVs))) {
			d = append(d, fmt.Sprintf("supervoxels/%d: %d %s, specification says %v", rb, r.Status, r.Bytes(), sortedU64(lab.reals(b.SVs))))
		}
		// sparsevol rles / srles
		for _, f := range []string{"rles", "srles"} {
			r, err = in.http("GET", fmt.Sprintf("%s/sparsevol/%d?format=%s", base, rb, f), nil)
			if err != nil {
				return nil, err
			}
			if r.Status != 200 {
				d = append(d, fmt.Sprintf("sparsevol/%d?format=%s: status %d", rb, f, r.Status))
				continue
			}
			rles, perr := DecodeRLEs(r.Bytes(), f == "rles")
			if perr != nil {
				d = append(d, fmt.Sprintf("sparsevol/%d?format=%s: %v", rb, f, perr))
				continue
			}
			regs, bad := g.RLEsToRegions(rles)
			if bad != "" {
				d = append(d, fmt.Sprintf("sparsevol/%d?format=%s: %s", rb, f, bad))
			} else if fmt.Sprint(SortedRegions(regs)) != fmt.Sprint(b.Regions) {
				d = append(d, fmt.Sprintf("sparsevol/%d?format=%s covers regions %v, specification says %v", rb, f, SortedRegions(regs), b.Regions))
			}
		}
		// sparsevol-size
		r, err = in.http("GET", fmt.Sprintf("%s/sparsevol-size/%d", base, rb), nil)
		if err != nil {
			return nil, err
		}
		var ss struct {
			Voxels    uint64 `json:"voxels"`
			NumBlocks uint64 `json:"numblocks"`
		}
		json.Unmarshal(r.Bytes(), &ss)
		if r.Status != 200 || ss.Voxels != b.Size || ss.NumBlocks != uint64(len(b.Blocks)) {
			d = append(d, fmt.Sprintf("sparsevol-size/%d: %d %s, specification says %d voxels in %d blocks", rb, r.Status, r.Bytes(), b.Size, len(b.Blocks)))
		}
		// sparsevol-coarse: block coordinates as runs
		r, err = in.http("GET", fmt.Sprintf("%s/sparsevol-coarse/%d", base, rb), nil)
		if err != nil {
			return nil, err
		}
		if r.Status != 200 {
			d = append(d, fmt.Sprintf("sparsevol-coarse/%d: status %d", rb, r.Status))
		} else if rles, perr := DecodeRLEs(r.Bytes(), true); perr != nil {
			d = append(d, fmt.Sprintf("sparsevol-coarse/%d: %v", rb, perr))
		} else {
			got := map[int]bool{}
			for _, rl := range rles {
				for x := rl.X; x < rl.X+rl.N; x++ {
					bi, ok := g.blockOf[[3]int{x, rl.Y, rl.Z}]
					if !ok {
						d = append(d, fmt.Sprintf("sparsevol-coarse/%d names block (%d,%d,%d) outside the volume", rb, x, rl.Y, rl.Z))
						continue
					}
					if got[bi] {
						d = append(d, fmt.Sprintf("sparsevol-coarse/%d names block %d twice", rb, bi))
					}
					got[bi] = true
				}
			}
			if fmt.Sprint(SortedRegions(got)) != fmt.Sprint(b.Blocks) {
				d = append(d, fmt.Sprintf("sparsevol-coarse/%d has blocks %v, specification says %v", rb, SortedRegions(got), b.Blocks))
			}
		}
		// index (protobuf)
		r, err = in.http("GET", fmt.Sprintf("%s/index/%d", base, rb), nil)
		if err != nil {
			return nil, err
		}
		if r.Status != 200 {
			d = append(d, fmt.Sprintf("index/%d: status %d", rb, r.Status))
		} else {
			var idx proto.LabelIndex
			if perr := pb.Unmarshal(r.Bytes(), &idx); perr != nil {
				d = append(d, fmt.Sprintf("index/%d: %v", rb, perr))
			} else {
				got := map[string]uint64{}
				for zyx, svc := range idx.Blocks {
					x, y, z := labels.DecodeBlockIndex(zyx)
					bi := g.blockOf[[3]int{int(x), int(y), int(z)}]
					for s, n := range svc.Counts {
						if n != 0 {
							got[fmt.Sprintf("b%d/sv%d", bi, s)] = uint64(n)
						}
					}
				}
				wantIdx := map[string]uint64{}
				for _, e := range b.Index {
					for _, c := range e.Counts {
						wantIdx[fmt.Sprintf("b%d/sv%d", e.Block, lab.Real(c.SV))] = c.N
					}
				}
				if fmt.Sprint(got) != fmt.Sprint(wantIdx) {
					d = append(d, fmt.Sprintf("index/%d is %v, specification says %v", rb, got, wantIdx))
				}
				if idx.Label != rb {
					d = append(d, fmt.Sprintf("index/%d carries label %d", rb, idx.Label))
				}
			}
		}
		// supervoxel-sizes
		r, err = in.http("GET", fmt.Sprintf("%s/supervoxel-sizes/%d", base, rb), nil)
		if err != nil {
			return nil, err
		}
		var svsz struct {
			Supervoxels []uint64 `json:"supervoxels"`
			Sizes       []uint64 `json:"sizes"`
		}
		json.Unmarshal(r.Bytes(), &svsz)
		gotSz := map[uint64]uint64{}
		for i := range svsz.Supervoxels {
			if i < len(svsz.Sizes) {
				gotSz[svsz.Supervoxels[i]] = svsz.Sizes[i]
			}
		}
		wantSz := map[uint64]uint64{}
		for _, e := range want.SVSizes {
			for _, s := range b.SVs {
				if s == e.SV {
					wantSz[lab.Real(s)] = e.Size
				}
			}
		}
		if r.Status != 200 || fmt.Sprint(gotSz) != fmt.Sprint(wantSz) {
			d = append(d, fmt.Sprintf("supervoxel-sizes/%d: %d %s, specification says %v", rb, r.Status, r.Bytes(), wantSz))
		}
	}
	// 3. point lookups: one point per region, single and batch, mapped and supervoxel
	var pts [][3]int
	for r := 0; r < g.R; r++ {
		pts = append(pts, g.Point[r])
	}
	pb2, _ := json.Marshal(pts)
	for _, sup := range []bool{false, true} {
		q := ""
		wantL := want.Body
		if sup {
			q = "?supervoxels=true"
			wantL = want.SV
		}
		r, err := in.http("GET", base+"/labels"+q, pb2)
		if err != nil {
			return nil, err
		}
		var got []uint64
		json.Unmarshal(r.Bytes(), &got)
		if r.Status != 200 || !eqU64(got, lab.reals(wantL)) {
			d = append(d, fmt.Sprintf("labels%s: %d %s, specification says %v", q, r.Status, r.Bytes(), lab.reals(wantL)))
		}
		for ri := 0; ri < g.R; ri += 3 {
			p := g.Point[ri]
			r, err := in.http("GET", fmt.Sprintf("%s/label/%d_%d_%d%s", base, p[0], p[1], p[2], q), nil)
			if err != nil {
				return nil, err
			}
			var one struct{ Label uint64 }
			json.Unmarshal(r.Bytes(), &one)
			if r.Status != 200 || one.Label != lab.Real(wantL[ri]) {
				d = append(d, fmt.Sprintf("label/%v%s: %d %s, specification says %d", p, q, r.Status, r.Bytes(), lab.Real(wantL[ri])))
			}
		}
	}
	// 4. mapping of every supervoxel present
	var svList []uint64
	var wantMap []uint64
	for _, b := range want.Bodies {
		for _, s := range b.SVs {
			svList = append(svList, lab.Real(s))
			wantMap = append(wantMap, lab.Real(b.Label))
		}
	}
	mb, _ := json.Marshal(svList)
	r, err := in.http("GET", base+"/mapping", mb)
	if err != nil {
		return nil, err
	}
	var gotMap []uint64
	json.Unmarshal(r.Bytes(), &gotMap)
	if r.Status != 200 || !eqU64(gotMap, wantMap) {
		d = append(d, fmt.Sprintf("mapping %v: %d %s, specification says %v", svList, r.Status, r.Bytes(), wantMap))
	}
	// 5. sizes (batch) for all bodies plus one label that does not exist
	var bl []uint64
	var wantSizes []uint64
	for _, b := range want.Bodies {
		bl = append(bl, lab.Real(b.Label))
		wantSizes = append(wantSizes, b.Size)
	}
	bl = append(bl, in.MaxSeen+1000)
	wantSizes = append(wantSizes, 0)
	sb, _ := json.Marshal(bl)
	r, err = in.http("GET", base+"/sizes", sb)
	if err != nil {
		return nil, err
	}
	var gotSizes []uint64
	json.Unmarshal(r.Bytes(), &gotSizes)
	if r.Status != 200 || !eqU64(gotSizes, wantSizes) {
		d = append(d, fmt.Sprintf("sizes %v: %d %s, specification says %v", bl, r.Status, r.Bytes(), wantSizes))
	}
	// 6. listlabels: exactly the bodies, ascending
	r, err = in.http("GET", base+"/listlabels", nil)
	if err != nil {
		return nil, err
	}
	if r.Status == 200 {
		raw := r.Bytes()
		var got []uint64
		for i := 0; i+8 <= len(raw); i += 8 {
			got = append(got, binary.LittleEndian.Uint64(raw[i:]))
		}
		wantLL := sortedU64(bl[:len(bl)-1])
		if !eqU64(got, wantLL) {
			d = append(d, fmt.Sprintf("listlabels is %v, specification says %v", got, wantLL))
		}
	} else {
		d = append(d, fmt.Sprintf("listlabels: status %d", r.Status))
	}
	// 7. the read options (see reads.go)
	in.nCompare++
	if want.Rd != nil && len(d) == 0 && !in.NoExt && (in.ExtEvery <= 1 || in.nCompare%in.ExtEvery == 0) {
		de, err := in.compareExt(uuid, want, lab)
		if err != nil {
			return nil, err
		}
		d = append(d, de...)
	}
	return d, nil
}

// MaxLabel reads maxlabel, polling until it is at least want (background update), for at
// most wait.
func (in *Inst) MaxLabel(uuid string, want uint64, wait time.Duration) (uint64, error) {
	deadline := time.Now().Add(wait)
	for {
		r, err := in.http("GET", "/api/node/"+uuid+"/"+in.Name+"/maxlabel", nil)
		if err != nil {
			return 0, err
		}
		var o struct {
			MaxLabel uint64 `json:"maxlabel"`
		}
		json.Unmarshal(r.Bytes(), &o)
		if o.MaxLabel >= want || time.Now().After(deadline) {
			return o.MaxLabel, nil
		}
		time.Sleep(2 * time.Millisecond)
	}
}

// CompareLevels reads the stored lower-resolution levels and compares every voxel with the
// documented vote evaluated by the specification (C14).
func (in *Inst) CompareLevels(uuid string, want Obs, lab *Labels, l1, l2 *LevelTab) ([]string, error) {
	var d []string
	bodyOf := map[uint64]uint64{0: 0}
	for _, b := range want.Bodies {
		for _, s := range b.SVs {
			bodyOf[s] = b.Label
		}
	}
	for k, lv := range []*LevelTab{l1, l2} {
		exp := want.Lvl1
		if k == 1 {
			exp = want.Lvl2
		}
		for _, sup := range []bool{true, false} {
			q := fmt.Sprintf("?scale=%d", k+1)
			if sup {
				q += "&supervoxels=true"
			}
			url := fmt.Sprintf("/api/node/%s/%s/raw/0_1_2/%d_%d_%d/%d_%d_%d%s", uuid, in.Name, lv.Size[0], lv.Size[1], lv.Size[2], lv.Min[0], lv.Min[1], lv.Min[2], q)
			r, err := in.http("GET", url, nil)
			if err != nil {
				return nil, err
			}
			if r.Status != 200 {
				d = append(d, fmt.Sprintf("GET raw%s: status %d %.200s", q, r.Status, r.Bytes()))
				continue
			}
			bad := lv.CheckLevel(r.Bytes(), func(c int) uint64 {
				l := exp[c-1]
				if !sup {
					l = bodyOf[l]
				}
				return lab.Real(l)
			})
			if bad != "" {
				d = append(d, fmt.Sprintf("level %d (%s): %s", k+1, map[bool]string{true: "supervoxels", false: "mapped"}[sup], bad))
			}
		}
	}
	return d, nil
}

// IngestBlocks stores the blocks through POST blocks (gzip-compressed DVID label blocks).
func (in *Inst) IngestBlocks(uuid string, sv []uint64, blocks []int) error {
	var buf bytes.Buffer
	bs := dvid.Point3d{int32(in.G.BS), int32(in.G.BS), int32(in.G.BS)}
	for _, blk := range blocks {
		vol := in.G.BlockVolume(blk, func(r int) uint64 {
			if r == 0 {
				return 0
			}
			return sv[r-1]
		})
		b, err := labels.MakeBlock(vol, bs)
		if err != nil {
			return err
		}
		ser, err := b.MarshalBinary()
		if err != nil {
			return err
		}
		var zbuf bytes.Buffer
		zw := gzip.NewWriter(&zbuf)
		zw.Write(ser)
		zw.Close()
		bc := in.G.Blocks[blk-1]
		for _, c := range bc {
			binary.Write(&buf, binary.LittleEndian, int32(c))
		}
		binary.Write(&buf, binary.LittleEndian, int32(zbuf.Len()))
		buf.Write(zbuf.Bytes())
	}
	// (POST blocks leaves the lower-resolution levels alone unless asked: "downres false (default)")
	q := ""
	if in.BlocksDownres {
		q = "?downres=true"
	}
	r, err := in.http("POST", "/api/node/"+uuid+"/"+in.Name+"/blocks"+q, buf.Bytes())
	if err != nil {
		return err
	}
	if r.Status != 200 {
		return fmt.Errorf("POST blocks: %d %s", r.Status, r.Bytes())
	}
	for _, l := range sv {
		if l > in.MaxSeen {
			in.MaxSeen = l
		}
	}
	return nil
}
