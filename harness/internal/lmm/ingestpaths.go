package lmm

// Ingestion paths that leave the bookkeeping to the client (gap C08-14): the voxels go in through
// POST ingest-supervoxels or POST blocks?noindexing=true, the label indices through POST indices /
// POST index/<label> (taken from the specification's observation of the initial state), the
// allocation counter through POST maxlabel.  The observable result must equal POST raw's.

import (
	"bytes"
	"compress/gzip"
	"encoding/binary"
	"fmt"

	pb "google.golang.org/protobuf/proto"

	"github.com/janelia-flyem/dvid/datatype/common/labels"
	"github.com/janelia-flyem/dvid/datatype/common/proto"
	"github.com/janelia-flyem/dvid/dvid"
)

func (in *Inst) blockStream(sv []uint64, blocks []int) ([]byte, error) {
	var buf bytes.Buffer
	bs := dvid.Point3d{int32(in.G.BS), int32(in.G.BS), int32(in.G.BS)}
	for _, blk := range blocks {
		vol := in.G.BlockVolume(blk, func(r int) uint64 {
			if r == 0 {
				return 0
			}
			return sv[r-1]
		})
		b, err := labels.MakeBlock(vol, bs)
		if err != nil {
			return nil, err
		}
		ser, err := b.MarshalBinary()
		if err != nil {
			return nil, err
		}
		var zbuf bytes.Buffer
		zw := gzip.NewWriter(&zbuf)
		zw.Write(ser)
		zw.Close()
		for _, c := range in.G.Blocks[blk-1] {
			binary.Write(&buf, binary.LittleEndian, int32(c))
		}
		binary.Write(&buf, binary.LittleEndian, int32(zbuf.Len()))
		buf.Write(zbuf.Bytes())
	}
	return buf.Bytes(), nil
}

// IngestBare stores the blocks without any bookkeeping by the server: how = "ingest-supervoxels"
// or "blocks?noindexing=true".
func (in *Inst) IngestBare(uuid string, sv []uint64, blocks []int, how string) error {
	body, err := in.blockStream(sv, blocks)
	if err != nil {
		return err
	}
	Count("ingest: POST " + how)
	r, err := in.http("POST", "/api/node/"+uuid+"/"+in.Name+"/"+how, body)
	if err != nil {
		return err
	}
	if r.Status != 200 {
		return fmt.Errorf("POST %s: %d %s", how, r.Status, r.Bytes())
	}
	for _, l := range sv {
		if l > in.MaxSeen {
			in.MaxSeen = l
		}
	}
	return nil
}

// PostIndicesOf posts the label index of every body of the observation (batch: one POST indices;
// otherwise POST index/<label> per body), and optionally the allocation counter.
func (in *Inst) PostIndicesOf(uuid string, obs Obs, lab *Labels, batch bool, maxlabel bool) error {
	base := "/api/node/" + uuid + "/" + in.Name
	var idxs []*proto.LabelIndex
	for _, b := range obs.Bodies {
		li := &proto.LabelIndex{Label: lab.Real(b.Label), Blocks: map[uint64]*proto.SVCount{}}
		for _, e := range b.Index {
			bc := in.G.Blocks[e.Block-1]
			svc := &proto.SVCount{Counts: map[uint64]uint32{}}
			for _, c := range e.Counts {
				svc.Counts[lab.Real(c.SV)] = uint32(c.N)
			}
			li.Blocks[labels.EncodeBlockIndex(int32(bc[0]), int32(bc[1]), int32(bc[2]))] = svc
		}
		idxs = append(idxs, li)
	}
	if batch {
		ib, _ := pb.Marshal(&proto.LabelIndices{Indices: idxs})
		Count("ingest: POST indices")
		if r, err := in.http("POST", base+"/indices", ib); err != nil || r.Status != 200 {
			return fmt.Errorf("POST indices: %d %v", r.Status, err)
		}
	} else {
		for _, li := range idxs {
			ib, _ := pb.Marshal(li)
			Count("ingest: POST index/<label>")
			if r, err := in.http("POST", fmt.Sprintf("%s/index/%d", base, li.Label), ib); err != nil || r.Status != 200 {
				return fmt.Errorf("POST index/%d: %d %v", li.Label, r.Status, err)
			}
		}
	}
	if maxlabel {
		Count("ingest: POST maxlabel")
		if r, err := in.http("POST", fmt.Sprintf("%s/maxlabel/%d", base, in.MaxSeen), nil); err != nil || r.Status != 200 {
			return fmt.Errorf("POST maxlabel/%d: %d %v", in.MaxSeen, r.Status, err)
		}
	}
	return nil
}
