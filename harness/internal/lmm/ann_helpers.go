package lmm

import "fmt"

// Helpers for the annotation check (C13): operations of Annotation.tla on the synced label
// volume that Inst.Apply does not offer, and the binding of supervoxel ids the server allocates
// without reporting them (body split) outside of Inst.Compare.

// bindClientLabel binds a label of the specification that is new to the volume (chosen by the
// client, not allocated by the server) to a real label above everything seen so far.
func (in *Inst) bindClientLabel(label uint64, oldSV []uint64, lab *Labels) {
	if label == 0 {
		return
	}
	if _, bound := lab.ToReal[label]; bound {
		return
	}
	for _, l := range oldSV {
		if l == label {
			return // an original label of the volume: identity
		}
	}
	lab.Bind(label, in.MaxSeen+3)
}

// IngestFresh writes the voxels of one block that was never written before: POST raw without
// mutate (via "raw") or POST blocks (via "blocks").  op.NewSV is the target supervoxel array of
// the specification, op.OldSV the source one, op.Label the label written.
func (in *Inst) IngestFresh(uuid string, op Op, block int, via string, lab *Labels) (int, error) {
	if op.NewSV == nil {
		return 0, fmt.Errorf("ingest needs the target supervoxel array")
	}
	in.bindClientLabel(op.Label, op.OldSV, lab)
	sv := lab.reals(op.NewSV)
	var err error
	if via == "blocks" {
		err = in.IngestBlocks(uuid, sv, []int{block})
	} else {
		err = in.Ingest(uuid, sv, []int{block}, false)
	}
	if err != nil {
		return 400, nil
	}
	return 200, nil
}

// BindFromSupervoxels binds the still unbound supervoxels of the specification's array wantSV
// to the labels stored in the voxels (ids allocated by a body split).  It returns a description
// of every region whose stored label cannot be a fresh allocation.
func (in *Inst) BindFromSupervoxels(uuid string, wantSV []uint64, lab *Labels) ([]string, error) {
	lab.BindFromVolume = false
	vol, st, err := in.getVolume(uuid, true, 0)
	if err != nil {
		return nil, err
	}
	if st != 200 {
		return []string{fmt.Sprintf("GET raw?supervoxels=true: status %d", st)}, nil
	}
	gotSV, bad := in.G.VolumeToRegions(vol)
	if bad != "" {
		return []string{"supervoxel volume: " + bad}, nil
	}
	var d []string
	for r := range wantSV {
		m := wantSV[r]
		if _, bound := lab.ToReal[m]; bound || m == 0 {
			continue
		}
		real := gotSV[r]
		if real == m {
			continue
		}
		if _, taken := lab.ToSpec[real]; taken || real <= in.MaxSeen {
			d = append(d, fmt.Sprintf("region %d: the new supervoxel of the specification (%d) is stored as %d, which is not a fresh label", r+1, m, real))
			continue
		}
		lab.Bind(m, real)
	}
	for _, m := range wantSV {
		if real, ok := lab.ToReal[m]; ok && real > in.MaxSeen {
			in.MaxSeen = real
		}
	}
	return d, nil
}
