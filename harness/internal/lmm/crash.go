package lmm

// Reads of the single-key storage layers of a labelmap instance (blocks, label indices,
// mapping log, counters) and the projection of a specification observation onto the same
// layers.  Used by the crash checks (C04 on label data, the crash clause of C12): after a
// process death inside an operation every cell must hold its value from before the
// operation or the value the operation gives it (specs/LabelmapCrash.tla).

import (
	"bufio"
	"bytes"
	"encoding/binary"
	"encoding/json"
	"fmt"
	"sort"
	"strings"

	pb "google.golang.org/protobuf/proto"

	"github.com/janelia-flyem/dvid/datatype/common/labels"
	"github.com/janelia-flyem/dvid/datatype/common/proto"
)

// Layers is the content of the pure storage layers in the server's labels.
type Layers struct {
	Blk       map[int]map[int]uint64       // block -> region -> stored supervoxel
	Idx       map[uint64]map[string]uint64 // body -> "b<block>/sv<supervoxel>" -> voxels (no entry: no index stored)
	Map       map[uint64]uint64            // supervoxel -> body as listed by GET mappings
	Listed    []uint64                     // GET listlabels (the label index keys present)
	NextLabel uint64                       // GET nextlabel
	MaxLabel  uint64                       // GET maxlabel (0 when none)
}

// VolumeToCells projects a volume of the whole bounding box onto (block, region) cells.
func (g *Geom) VolumeToCells(vol []byte) (map[int]map[int]uint64, string) {
	n := g.Size[0] * g.Size[1] * g.Size[2]
	if len(vol) != n*8 {
		return nil, fmt.Sprintf("volume has %d bytes, expected %d", len(vol), n*8)
	}
	out := map[int]map[int]uint64{}
	for i := 0; i < n; i++ {
		l := binary.LittleEndian.Uint64(vol[i*8:])
		r := int(g.regOf[i])
		x := i%g.Size[0] + g.Min[0]
		y := (i/g.Size[0])%g.Size[1] + g.Min[1]
		z := i/(g.Size[0]*g.Size[1]) + g.Min[2]
		if r == 0 {
			if l != 0 {
				return nil, fmt.Sprintf("voxel (%d,%d,%d) outside the written blocks has label %d", x, y, z, l)
			}
			continue
		}
		b := g.blockOf[[3]int{fdiv(x, g.BS), fdiv(y, g.BS), fdiv(z, g.BS)}]
		m := out[b]
		if m == nil {
			m = map[int]uint64{}
			out[b] = m
		}
		if old, ok := m[r]; !ok {
			m[r] = l
		} else if old != l {
			return nil, fmt.Sprintf("region %d is not uniform inside block %d: voxel (%d,%d,%d) has label %d, another voxel %d", r, b, x, y, z, l, old)
		}
	}
	return out, ""
}

func decodeIndex(g *Geom, raw []byte) (map[string]uint64, uint64, error) {
	var idx proto.LabelIndex
	if err := pb.Unmarshal(raw, &idx); err != nil {
		return nil, 0, err
	}
	got := map[string]uint64{}
	for zyx, svc := range idx.Blocks {
		x, y, z := labels.DecodeBlockIndex(zyx)
		bi, ok := g.blockOf[[3]int{int(x), int(y), int(z)}]
		if !ok {
			return nil, 0, fmt.Errorf("index names block (%d,%d,%d) outside the volume", x, y, z)
		}
		for s, n := range svc.Counts {
			if n != 0 {
				got[fmt.Sprintf("b%d/sv%d", bi, s)] = uint64(n)
			}
		}
	}
	return got, idx.Label, nil
}

// ReadLayers reads the storage layers at uuid.  bodies = the labels whose index is fetched.
// Problems (a read that did not answer 200 / 404, undecodable content) are returned as text.
func (in *Inst) ReadLayers(uuid string, bodies []uint64) (*Layers, []string, error) {
	var probs []string
	L := &Layers{Idx: map[uint64]map[string]uint64{}, Map: map[uint64]uint64{}}
	base := "/api/node/" + uuid + "/" + in.Name
	vol, st, err := in.getVolume(uuid, true, 0)
	if err != nil {
		return nil, nil, err
	}
	if st != 200 {
		probs = append(probs, fmt.Sprintf("GET raw?supervoxels=true: status %d %.200s", st, vol))
	} else {
		cells, bad := in.G.VolumeToCells(vol)
		if bad != "" {
			probs = append(probs, "supervoxel volume: "+bad)
		}
		L.Blk = cells
	}
	for _, b := range bodies {
		if b == 0 {
			continue
		}
		r, err := in.http("GET", fmt.Sprintf("%s/index/%d", base, b), nil)
		if err != nil {
			return nil, nil, err
		}
		switch r.Status {
		case 404:
		case 200:
			got, lbl, derr := decodeIndex(in.G, r.Bytes())
			if derr != nil {
				probs = append(probs, fmt.Sprintf("index/%d: %v", b, derr))
			} else {
				if lbl != b {
					probs = append(probs, fmt.Sprintf("index/%d carries label %d", b, lbl))
				}
				if len(got) > 0 {
					L.Idx[b] = got
				}
			}
		default:
			probs = append(probs, fmt.Sprintf("index/%d: status %d %.200s", b, r.Status, r.Bytes()))
		}
	}
	r, err := in.http("GET", base+"/mappings", nil)
	if err != nil {
		return nil, nil, err
	}
	if r.Status != 200 {
		probs = append(probs, fmt.Sprintf("mappings: status %d %.200s", r.Status, r.Bytes()))
	} else {
		sc := bufio.NewScanner(bytes.NewReader(r.Bytes()))
		for sc.Scan() {
			var s, l uint64
			if n, _ := fmt.Sscan(sc.Text(), &s, &l); n == 2 {
				L.Map[s] = l
			} else if strings.TrimSpace(sc.Text()) != "" {
				probs = append(probs, fmt.Sprintf("mappings: unreadable line %q", sc.Text()))
			}
		}
	}
	r, err = in.http("GET", base+"/listlabels", nil)
	if err != nil {
		return nil, nil, err
	}
	if r.Status != 200 {
		probs = append(probs, fmt.Sprintf("listlabels: status %d %.200s", r.Status, r.Bytes()))
	} else {
		raw := r.Bytes()
		for i := 0; i+8 <= len(raw); i += 8 {
			L.Listed = append(L.Listed, binary.LittleEndian.Uint64(raw[i:]))
		}
	}
	r, err = in.http("GET", base+"/nextlabel", nil)
	if err != nil {
		return nil, nil, err
	}
	var nl struct {
		NextLabel uint64 `json:"nextlabel"`
	}
	if r.Status != 200 || json.Unmarshal(r.Bytes(), &nl) != nil {
		probs = append(probs, fmt.Sprintf("nextlabel: status %d %.200s", r.Status, r.Bytes()))
	}
	L.NextLabel = nl.NextLabel
	r, err = in.http("GET", base+"/maxlabel", nil)
	if err != nil {
		return nil, nil, err
	}
	var ml struct {
		MaxLabel uint64 `json:"maxlabel"`
	}
	if r.Status == 200 {
		json.Unmarshal(r.Bytes(), &ml)
	} else if r.Status >= 500 {
		probs = append(probs, fmt.Sprintf("maxlabel: status %d %.200s", r.Status, r.Bytes()))
	}
	L.MaxLabel = ml.MaxLabel
	return L, probs, nil
}

// PresentLabels returns every label present in any layer (blocks, index keys and their
// supervoxels, non-identity mapping targets).
func (L *Layers) PresentLabels() []uint64 {
	set := map[uint64]bool{}
	for _, m := range L.Blk {
		for _, l := range m {
			set[l] = true
		}
	}
	for b, ix := range L.Idx {
		set[b] = true
		for k := range ix {
			var bi int
			var s uint64
			fmt.Sscanf(k, "b%d/sv%d", &bi, &s)
			set[s] = true
		}
	}
	for _, l := range L.Listed {
		set[l] = true
	}
	for s, l := range L.Map {
		if s != l {
			set[l] = true
			set[s] = true
		}
	}
	delete(set, 0)
	var out []uint64
	for l := range set {
		out = append(out, l)
	}
	sort.Slice(out, func(i, j int) bool { return out[i] < out[j] })
	return out
}

// ModelLayers is the projection of a specification observation onto the storage layers
// (specification labels), for the first UpTo blocks.
type ModelLayers struct {
	Blk map[int]map[int]uint64
	Idx map[uint64]map[string]uint64 // keys "b<block>/sv<spec supervoxel>"
	Map map[uint64]uint64            // supervoxel present -> body
}

// LayersOf projects an observation (blocks 1..upTo ingested).
func (g *Geom) LayersOf(o Obs, upTo int) *ModelLayers {
	m := &ModelLayers{Blk: map[int]map[int]uint64{}, Idx: map[uint64]map[string]uint64{}, Map: map[uint64]uint64{}}
	for b := 1; b <= len(g.Blocks); b++ {
		cells := map[int]uint64{}
		for r := 1; r <= g.R; r++ {
			if g.NVox[r-1][b-1] > 0 {
				if b <= upTo {
					cells[r] = o.SV[r-1]
				} else {
					cells[r] = 0
				}
			}
		}
		m.Blk[b] = cells
	}
	for _, bd := range o.Bodies {
		ix := map[string]uint64{}
		for _, e := range bd.Index {
			if e.Block > upTo {
				continue
			}
			for _, c := range e.Counts {
				ix[fmt.Sprintf("b%d/sv%d", e.Block, c.SV)] = c.N
			}
		}
		if len(ix) > 0 {
			m.Idx[bd.Label] = ix
		}
		for _, s := range bd.SVs {
			m.Map[s] = bd.Label
		}
	}
	return m
}

func realIdx(ix map[string]uint64, lab *Labels) string {
	if len(ix) == 0 {
		return "none"
	}
	var ks []string
	for k, n := range ix {
		var bi int
		var s uint64
		fmt.Sscanf(k, "b%d/sv%d", &bi, &s)
		ks = append(ks, fmt.Sprintf("b%d/sv%d=%d", bi, lab.Real(s), n))
	}
	sort.Strings(ks)
	return strings.Join(ks, ",")
}

func gotIdx(ix map[string]uint64) string {
	if len(ix) == 0 {
		return "none"
	}
	var ks []string
	for k, n := range ix {
		ks = append(ks, fmt.Sprintf("%s=%d", k, n))
	}
	sort.Strings(ks)
	return strings.Join(ks, ",")
}

func cellVec(g *Geom, b int, cells map[int]uint64, f func(uint64) uint64) string {
	var sb strings.Builder
	for r := 1; r <= g.R; r++ {
		if g.NVox[r-1][b-1] > 0 {
			fmt.Fprintf(&sb, "r%d=%d ", r, f(cells[r]))
		}
	}
	return sb.String()
}

// CellVerdict is the result of comparing recovered layers with the two model states.
type CellVerdict struct {
	Diffs   []string // cells holding neither value
	IsPre   bool     // every cell holds its value from before the operation
	IsPost  bool     // every cell holds the value the operation gives it
	Pattern string   // which cells moved (for evidence)
}

// CompareCells checks every single-key cell of the recovered layers: it must hold the value
// of `pre` or of `post` (specification labels mapped through lab).  Bodies = the union of the
// bodies of both states (specification labels).  mapw = the mapping cells the operation's log
// records write, with their values (from the specification).
func (g *Geom) CompareCells(got *Layers, pre, post *ModelLayers, mapw map[uint64]uint64, lab *Labels) CellVerdict {
	v := CellVerdict{IsPre: true, IsPost: true}
	var moved []string
	id := func(l uint64) uint64 { return l }
	for b := 1; b <= len(g.Blocks); b++ {
		gs := cellVec(g, b, got.Blk[b], id)
		ps, qs := cellVec(g, b, pre.Blk[b], lab.Real), cellVec(g, b, post.Blk[b], lab.Real)
		if gs != ps {
			v.IsPre = false
		}
		if gs != qs {
			v.IsPost = false
		}
		if gs != ps && gs != qs {
			v.Diffs = append(v.Diffs, fmt.Sprintf("block %d stores [%s], before the operation [%s], after it [%s]", b, gs, ps, qs))
		} else if ps != qs && gs == qs {
			moved = append(moved, fmt.Sprintf("blk%d", b))
		}
	}
	bodies := map[uint64]bool{}
	for l := range pre.Idx {
		bodies[l] = true
	}
	for l := range post.Idx {
		bodies[l] = true
	}
	var bl []uint64
	for l := range bodies {
		bl = append(bl, l)
	}
	sort.Slice(bl, func(i, j int) bool { return bl[i] < bl[j] })
	allowed := map[uint64]bool{}
	for _, l := range bl {
		rl := lab.Real(l)
		allowed[rl] = true
		gs := gotIdx(got.Idx[rl])
		ps, qs := realIdx(pre.Idx[l], lab), realIdx(post.Idx[l], lab)
		if gs != ps {
			v.IsPre = false
		}
		if gs != qs {
			v.IsPost = false
		}
		if gs != ps && gs != qs {
			v.Diffs = append(v.Diffs, fmt.Sprintf("index of body %d (specification %d) is {%s}, before the operation {%s}, after it {%s}", rl, l, gs, ps, qs))
		} else if ps != qs && gs == qs {
			moved = append(moved, fmt.Sprintf("idx%d", l))
		}
	}
	for _, l := range got.Listed {
		if !allowed[l] {
			v.IsPre, v.IsPost = false, false
			v.Diffs = append(v.Diffs, fmt.Sprintf("a label index exists for %d, which is a body neither before nor after the operation", l))
		}
	}
	// mapping records: before = the body of a present supervoxel (a supervoxel without a record
	// maps to itself); after = the value the operation's log records give it (mapw, computed by
	// the specification: the new body, or 0 for a retired supervoxel), unchanged otherwise
	svs := map[uint64]bool{}
	for s := range pre.Map {
		svs[s] = true
	}
	for s := range mapw {
		svs[s] = true
	}
	var sl []uint64
	for s := range svs {
		sl = append(sl, s)
	}
	sort.Slice(sl, func(i, j int) bool { return sl[i] < sl[j] })
	for _, s := range sl {
		rs := lab.Real(s)
		gotv, listed := got.Map[rs]
		if !listed {
			gotv = rs
		}
		pv := rs
		if b, ok := pre.Map[s]; ok {
			pv = lab.Real(b)
		}
		qv := pv
		if b, ok := mapw[s]; ok {
			qv = lab.Real(b)
		}
		if gotv != pv {
			v.IsPre = false
		}
		if gotv != qv {
			v.IsPost = false
		}
		if gotv != pv && gotv != qv {
			v.Diffs = append(v.Diffs, fmt.Sprintf("supervoxel %d (specification %d) is mapped to %d, before the operation %d, after it %d", rs, s, gotv, pv, qv))
		} else if pv != qv && gotv == qv {
			moved = append(moved, fmt.Sprintf("map%d", s))
		}
	}
	v.Pattern = strings.Join(moved, "+")
	return v
}

// ProbeReads issues every read endpoint for the given bodies and reports those that answer
// with a server error (the torn state of a multi-key operation may read as anything, but it
// must read).
func (in *Inst) ProbeReads(uuid string, bodies []uint64) ([]string, error) {
	var bad []string
	base := "/api/node/" + uuid + "/" + in.Name
	g := in.G
	get := func(url string, body []byte) error {
		r, err := in.http("GET", url, body)
		if err != nil {
			return err
		}
		if r.Status >= 500 {
			bad = append(bad, fmt.Sprintf("GET %s: status %d %.300s", url, r.Status, r.Bytes()))
		}
		return nil
	}
	vurl := fmt.Sprintf("%s/raw/0_1_2/%d_%d_%d/%d_%d_%d", base, g.Size[0], g.Size[1], g.Size[2], g.Min[0], g.Min[1], g.Min[2])
	urls := []string{vurl, vurl + "?supervoxels=true", base + "/listlabels", base + "/mappings", base + "/supervoxel-splits", base + "/maxlabel", base + "/nextlabel", base + "/mutations", base + "/info"}
	for _, b := range bodies {
		if b == 0 {
			continue
		}
		for _, ep := range []string{"size", "supervoxels", "sparsevol", "sparsevol-size", "sparsevol-coarse", "index", "supervoxel-sizes"} {
			urls = append(urls, fmt.Sprintf("%s/%s/%d", base, ep, b))
		}
		urls = append(urls, fmt.Sprintf("%s/sparsevol/%d?format=srles", base, b), fmt.Sprintf("%s/sparsevol/%d?supervoxels=true", base, b), fmt.Sprintf("%s/size/%d?supervoxels=true", base, b))
	}
	for _, u := range urls {
		if err := get(u, nil); err != nil {
			return bad, err
		}
	}
	var pts [][3]int
	for r := 0; r < g.R; r++ {
		pts = append(pts, g.Point[r])
		p := g.Point[r]
		if err := get(fmt.Sprintf("%s/label/%d_%d_%d", base, p[0], p[1], p[2]), nil); err != nil {
			return bad, err
		}
		if err := get(fmt.Sprintf("%s/sparsevol-by-point/%d_%d_%d", base, p[0], p[1], p[2]), nil); err != nil {
			return bad, err
		}
	}
	pj, _ := json.Marshal(pts)
	bj, _ := json.Marshal(bodies)
	for _, u := range []struct {
		url  string
		body []byte
	}{{base + "/labels", pj}, {base + "/labels?supervoxels=true", pj}, {base + "/mapping", bj}, {base + "/sizes", bj}, {base + "/sizes?supervoxels=true", bj}} {
		if err := get(u.url, u.body); err != nil {
			return bad, err
		}
	}
	return bad, nil
}

// SafeGeom is NewGeom for callers that only need some valid seeded geometry: for a few seeds
// the seeded extra boxes of the large geometry are completely covered by higher-priority
// boxes and NewGeom panics ("region N has no voxels"); the next seed in a fixed progression
// is taken then.
func SafeGeom(seed int64, small bool) (g *Geom) {
	for k := int64(0); k < 50; k++ {
		func() {
			defer func() {
				if e := recover(); e != nil {
					g = nil
				}
			}()
			g = NewGeom(seed+1000*k, small)
		}()
		if g != nil {
			return g
		}
	}
	panic(fmt.Sprintf("no valid geometry for seed %d", seed))
}
