// Package tlc runs TLC / SANY with a timeout and a private metadir in a scratch
// copy of the specification directory, and parses the summary.
package tlc

import (
	"bytes"
	"context"
	"fmt"
	"os"
	"os/exec"
	"path/filepath"
	"regexp"
	"strconv"
	"strings"
	"sync"
	"time"
)

const classpath = "/opt/veriftools/tla/tla2tools.jar:/opt/veriftools/tla/CommunityModules-deps.jar"

// Result is the outcome of a TLC run.
type Result struct {
	Output     string
	Generated  int64
	Distinct   int64
	Depth      int
	OK         bool   // "Model checking completed. No error has been found."
	Violation  string // first "Error: ..." line for invariant/property violation
	ExitCode   int
	TimedOut   bool
	WallS      float64
	Printed    []string // lines produced by PrintT / Print (raw)
	Coverage   map[string][2]int64 // "Module.Action" -> distinct, generated (only with VERIF_COVERAGE=1)
}

// Opts configures a run.
type Opts struct {
	SpecDir   string            // directory with .tla files (copied to scratch)
	Module    string            // e.g. "DvidKV_mc"
	Config    string            // cfg file name (defaults to Module.cfg)
	Workers   int               // 0 = auto
	Timeout   time.Duration     // default 10 min
	Simulate  string            // e.g. "num=100" → -simulate num=100
	Depth     int               // -depth
	Seed      int64             // -seed (simulation)
	DFS       bool              // StateDeque
	Extra     []string          // extra args
	Files     map[string][]byte // extra files to write into the scratch dir (generated constants, traces)
	Xss       string
	HeapGB    int
	KeepDir   bool
}

var (
	reCovAct = regexp.MustCompile(`^<(\w+) line \d+, col \d+ to line \d+, col \d+ of module (\w+)>: (\d+):(\d+)`)
	covMu    sync.Mutex
	covTotal = map[string][2]int64{}
	covRuns  = map[string]int{}
	reStates = regexp.MustCompile(`(\d+) states generated, (\d+) distinct states found`)
	reDepth  = regexp.MustCompile(`The depth of the complete state graph search is (\d+)`)
)

// Scratch returns a fresh scratch directory outside /repo and /verif.
func Scratch(prefix string) (string, error) {
	base := os.Getenv("VERIF_SCRATCH")
	if base == "" {
		base = os.TempDir()
	}
	return os.MkdirTemp(base, prefix)
}

// Run executes TLC.
func Run(o Opts) (*Result, error) {
	dir, err := Scratch("tlc-")
	if err != nil {
		return nil, err
	}
	if !o.KeepDir {
		defer os.RemoveAll(dir)
	}
	ents, err := os.ReadDir(o.SpecDir)
	if err != nil {
		return nil, err
	}
	for _, e := range ents {
		if e.IsDir() {
			continue
		}
		if strings.HasSuffix(e.Name(), ".tla") || strings.HasSuffix(e.Name(), ".cfg") {
			b, err := os.ReadFile(filepath.Join(o.SpecDir, e.Name()))
			if err != nil {
				return nil, err
			}
			os.WriteFile(filepath.Join(dir, e.Name()), b, 0644)
		}
	}
	for name, b := range o.Files {
		if err := os.WriteFile(filepath.Join(dir, name), b, 0644); err != nil {
			return nil, err
		}
	}
	cfg := o.Config
	if cfg == "" {
		cfg = o.Module + ".cfg"
	}
	if o.Timeout == 0 {
		o.Timeout = 10 * time.Minute
	}
	workers := "auto"
	if o.Workers > 0 {
		workers = strconv.Itoa(o.Workers)
	}
	heap := o.HeapGB
	if heap == 0 {
		heap = 8
	}
	args := []string{"-XX:+UseParallelGC", fmt.Sprintf("-Xmx%dg", heap)}
	if o.Xss != "" {
		args = append(args, "-Xss"+o.Xss)
	}
	if o.DFS {
		args = append(args, "-Dtlc2.tool.queue.IStateQueue=StateDeque")
	}
	args = append(args, "-cp", classpath, "tlc2.TLC", "-metadir", filepath.Join(dir, "meta"),
		"-workers", workers, "-config", cfg, "-noGenerateSpecTE")
	if o.Simulate != "" {
		args = append(args, "-simulate", o.Simulate)
	}
	if o.Depth > 0 {
		args = append(args, "-depth", strconv.Itoa(o.Depth))
	}
	if o.Seed != 0 {
		args = append(args, "-seed", strconv.FormatInt(o.Seed, 10))
	}
	args = append(args, o.Extra...)
	coverage := os.Getenv("VERIF_COVERAGE") == "1" && o.Simulate == ""
	if coverage {
		args = append(args, "-coverage", "1")
	}
	args = append(args, o.Module)
	ctx, cancel := context.WithTimeout(context.Background(), o.Timeout)
	defer cancel()
	cmd := exec.CommandContext(ctx, "java", args...)
	cmd.Dir = dir
	var out bytes.Buffer
	cmd.Stdout = &out
	cmd.Stderr = &out
	t0 := time.Now()
	err = cmd.Run()
	res := &Result{Output: out.String(), WallS: time.Since(t0).Seconds()}
	if ctx.Err() == context.DeadlineExceeded {
		res.TimedOut = true
	}
	if cmd.ProcessState != nil {
		res.ExitCode = cmd.ProcessState.ExitCode()
	}
	_ = err
	ms := reStates.FindAllStringSubmatch(res.Output, -1)
	if len(ms) > 0 {
		m := ms[len(ms)-1]
		res.Generated, _ = strconv.ParseInt(m[1], 10, 64)
		res.Distinct, _ = strconv.ParseInt(m[2], 10, 64)
	}
	if m := reDepth.FindStringSubmatch(res.Output); m != nil {
		res.Depth, _ = strconv.Atoi(m[1])
	}
	if coverage {
		res.Coverage = parseCoverage(res.Output)
		covMu.Lock()
		covRuns[o.Module+"/"+cfg]++
		for k, v := range res.Coverage {
			t := covTotal[k]
			covTotal[k] = [2]int64{t[0] + v[0], t[1] + v[1]}
		}
		covMu.Unlock()
	}
	res.OK = strings.Contains(res.Output, "Model checking completed. No error has been found.")
	for _, line := range strings.Split(res.Output, "\n") {
		if strings.HasPrefix(line, "Error:") && res.Violation == "" {
			res.Violation = line
		}
	}
	return res, nil
}

// Tail returns the last n bytes of the output.
func (r *Result) Tail(n int) string {
	if len(r.Output) > n {
		return r.Output[len(r.Output)-n:]
	}
	return r.Output
}

// parseCoverage extracts the per-action counts of the last coverage block.
func parseCoverage(out string) map[string][2]int64 {
	i := strings.LastIndex(out, "The coverage statistics at")
	if i < 0 {
		return nil
	}
	m := map[string][2]int64{}
	for _, line := range strings.Split(out[i:], "\n") {
		if g := reCovAct.FindStringSubmatch(line); g != nil {
			d, _ := strconv.ParseInt(g[3], 10, 64)
			n, _ := strconv.ParseInt(g[4], 10, 64)
			k := g[2] + "." + g[1]
			t := m[k]
			m[k] = [2]int64{t[0] + d, t[1] + n}
		}
	}
	return m
}

// CoverageTotals returns the per-action counts summed over every TLC run of this process
// (VERIF_COVERAGE=1) and the number of runs per module/config.
func CoverageTotals() (map[string][2]int64, map[string]int) {
	covMu.Lock()
	defer covMu.Unlock()
	a := map[string][2]int64{}
	for k, v := range covTotal {
		a[k] = v
	}
	b := map[string]int{}
	for k, v := range covRuns {
		b[k] = v
	}
	return a, b
}
