//go:build badger

package crashkv

// Engine "crashfilelog": wraps the real filelog engine so that every log append is numbered
// by the same counter as the store writes (class LOG in the write trace) and the process
// can be made to exit before / after the N-th write when that write is a log append - or
// in the middle of it, leaving the first TornBytes bytes of the framed record (6-byte header
// + payload) in the file, which is what a process death inside fileLogs.Append leaves
// behind (header write and payload write are separate system calls).

import (
	"encoding/binary"
	"fmt"
	"os"
	"path/filepath"

	"github.com/blang/semver"
	"github.com/janelia-flyem/dvid/dvid"
	"github.com/janelia-flyem/dvid/storage"
)

// tornBytes > 0: when the armed write is a log append, write only that many bytes of the
// framed record and exit.
var tornBytes int

// ArmTorn arms a crash inside the n-th write from now if it is a log append (torn after
// `torn` bytes of the framed record); for a store write it behaves like Arm(n, false).
func ArmTorn(n uint64, torn int) {
	mu.Lock()
	crashAt = count + n
	crashAft = false
	tornBytes = torn
	mu.Unlock()
}

// LogEngine is the wrapping log engine.
type LogEngine struct {
	ver semver.Version
}

func init() {
	ver, _ := semver.Make("0.1.0")
	storage.RegisterEngine(LogEngine{ver})
}

func (e LogEngine) GetName() string           { return "crashfilelog" }
func (e LogEngine) IsDistributed() bool       { return false }
func (e LogEngine) GetSemVer() semver.Version { return e.ver }
func (e LogEngine) String() string            { return "crashfilelog" }

func (e LogEngine) NewStore(config dvid.StoreConfig) (dvid.Store, bool, error) {
	inner := storage.GetEngine("filelog")
	if inner == nil {
		return nil, false, fmt.Errorf("filelog engine not compiled in")
	}
	st, created, err := inner.NewStore(config)
	if err != nil {
		return nil, false, err
	}
	wl, ok := st.(storage.WriteLog)
	if !ok {
		return nil, false, fmt.Errorf("filelog engine returned %T, not a WriteLog", st)
	}
	rl, ok := st.(storage.ReadLog)
	if !ok {
		return nil, false, fmt.Errorf("filelog engine returned %T, not a ReadLog", st)
	}
	path, _ := config.GetAll()["path"].(string)
	return &Log{WriteLog: wl, rl: rl, path: path}, created, nil
}

// Log wraps the real file log.
type Log struct {
	storage.WriteLog
	rl   storage.ReadLog
	path string
}

func (l *Log) String() string { return "crash-wrapped " + l.WriteLog.String() }

func (l *Log) ReadBinary(dataID, version dvid.UUID) ([]byte, error) {
	return l.rl.ReadBinary(dataID, version)
}
func (l *Log) ReadAll(dataID, version dvid.UUID) ([]storage.LogMessage, error) {
	return l.rl.ReadAll(dataID, version)
}
func (l *Log) StreamAll(dataID, version dvid.UUID, ch chan storage.LogMessage) error {
	return l.rl.StreamAll(dataID, version, ch)
}

// appendOp numbers one append; when the crash point is this append and a torn length is set,
// the prefix of the framed record is written directly and the process exits.
func (l *Log) appendOp(topic string, msg storage.LogMessage, f func() error) error {
	mu.Lock()
	defer mu.Unlock()
	count++
	n := count
	if crashAt != 0 && n == crashAt && !crashAft {
		if tornBytes > 0 {
			rec := make([]byte, 6+len(msg.Data))
			binary.LittleEndian.PutUint16(rec[:2], msg.EntryType)
			binary.LittleEndian.PutUint32(rec[2:6], uint32(len(msg.Data)))
			copy(rec[6:], msg.Data)
			k := tornBytes
			if k > len(rec) {
				k = len(rec)
			}
			if fh, err := os.OpenFile(filepath.Join(l.path, topic), os.O_WRONLY|os.O_CREATE|os.O_APPEND|os.O_SYNC, 0755); err == nil {
				fh.Write(rec[:k])
				fh.Close()
			}
		}
		CrashExit()
	}
	err := f()
	if tracing {
		trace = append(trace, WriteEvent{N: n, Op: "LogAppend", Key: topic, NKeys: len(msg.Data), Class: "LOG", TKC: int(msg.EntryType)})
	}
	if crashAt != 0 && n == crashAt && crashAft {
		CrashExit()
	}
	return err
}

func (l *Log) Append(dataID, version dvid.UUID, msg storage.LogMessage) error {
	return l.appendOp(string(dataID+"-"+version), msg, func() error { return l.WriteLog.Append(dataID, version, msg) })
}

func (l *Log) TopicAppend(topic string, msg storage.LogMessage) error {
	return l.appendOp(topic, msg, func() error { return l.WriteLog.TopicAppend(topic, msg) })
}
