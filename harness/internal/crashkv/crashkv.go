//go:build badger

// Package crashkv registers a storage engine "crashbadger" that wraps the real
// Badger engine: every mutating store call is numbered under one mutex, optionally
// appended to a write trace, and the process can be made to exit immediately
// before or after the N-th write.  No change to /repo is needed: the wrapper embeds
// *badger.BadgerDB so all optional interfaces are promoted unchanged.
package crashkv

import (
	"encoding/hex"
	"fmt"
	"os"
	"sync"

	"github.com/blang/semver"
	"github.com/janelia-flyem/dvid/dvid"
	"github.com/janelia-flyem/dvid/storage"
	"github.com/janelia-flyem/dvid/storage/badger"
)

// WriteEvent is one mutating store call.
type WriteEvent struct {
	N     uint64 `json:"n"`
	Op    string `json:"op"`
	Key   string `json:"key,omitempty"` // hex of the full key (first key for batches)
	NKeys int    `json:"nkeys,omitempty"`
	Class string `json:"class,omitempty"` // metadata / data / LOG (log append)
	TKC   int    `json:"tkc,omitempty"`   // data keys: the type-specific key class byte (labelmap: 186 block, 187 index, 237 max label, 238 repo max label, 239 next label); log appends: entry type
}

var (
	mu       sync.Mutex
	count    uint64
	tracing  bool
	trace    []WriteEvent
	crashAt  uint64 // 0 = disarmed
	crashAft bool
	// CrashExit is called to terminate the process (os.Exit(137) by default).
	CrashExit = func() { os.Exit(137) }
)

// Arm makes the process exit before (after=false) or after (after=true) write n,
// counted from the current counter value.
func Arm(n uint64, after bool) {
	mu.Lock()
	crashAt = count + n
	crashAft = after
	tornBytes = 0
	mu.Unlock()
}

// ArmAbsolute arms on the absolute write number n.
func ArmAbsolute(n uint64, after bool) {
	mu.Lock()
	crashAt = n
	crashAft = after
	mu.Unlock()
}

// Disarm cancels any pending crash.
func Disarm() {
	mu.Lock()
	crashAt = 0
	mu.Unlock()
}

// Count returns the number of writes so far.
func Count() uint64 {
	mu.Lock()
	defer mu.Unlock()
	return count
}

// SetTracing turns the write trace on or off (and clears it).
func SetTracing(on bool) {
	mu.Lock()
	tracing = on
	trace = nil
	mu.Unlock()
}

// TakeTrace returns and clears the write trace.
func TakeTrace() []WriteEvent {
	mu.Lock()
	defer mu.Unlock()
	t := trace
	trace = nil
	return t
}

func classify(k []byte) string {
	if len(k) == 0 {
		return ""
	}
	switch k[0] {
	case 0:
		if len(k) > 1 {
			switch k[1] {
			case 1:
				return "R2U"
			case 2:
				return "V2U"
			case 3:
				return "IDS"
			case 4:
				return "REPO"
			case 5:
				return "FMT"
			case 7:
				return "MUT"
			}
		}
		return "metadata"
	case 1:
		return "data"
	default:
		return "blob"
	}
}

// tkeyClass returns the type-specific key class of a data key (0 otherwise).
func tkeyClass(k []byte) int {
	if len(k) > 5 && k[0] == 1 {
		return int(k[5])
	}
	return 0
}

// do runs one write under the lock so numbering, trace order and crash point are
// consistent.
func do(op string, key []byte, nkeys int, f func() error) error {
	mu.Lock()
	defer mu.Unlock()
	count++
	n := count
	if crashAt != 0 && n == crashAt && !crashAft {
		CrashExit()
	}
	err := f()
	if tracing {
		trace = append(trace, WriteEvent{N: n, Op: op, Key: hex.EncodeToString(key), NKeys: nkeys, Class: classify(key), TKC: tkeyClass(key)})
	}
	if crashAt != 0 && n == crashAt && crashAft {
		CrashExit()
	}
	return err
}

// Engine is the wrapping engine.
type Engine struct {
	ver semver.Version
}

func init() {
	ver, _ := semver.Make("0.1.0")
	storage.RegisterEngine(Engine{ver})
}

func (e Engine) GetName() string           { return "crashbadger" }
func (e Engine) IsDistributed() bool       { return false }
func (e Engine) GetSemVer() semver.Version { return e.ver }
func (e Engine) String() string            { return "crashbadger" }

func (e Engine) NewStore(config dvid.StoreConfig) (dvid.Store, bool, error) {
	inner := storage.GetEngine("badger")
	if inner == nil {
		return nil, false, fmt.Errorf("badger engine not compiled in")
	}
	st, initMeta, err := inner.NewStore(config)
	if err != nil {
		return nil, false, err
	}
	bdb, ok := st.(*badger.BadgerDB)
	if !ok {
		return nil, false, fmt.Errorf("badger engine returned %T", st)
	}
	return &DB{BadgerDB: bdb}, initMeta, nil
}

// DB wraps the real store.
type DB struct {
	*badger.BadgerDB
}

func (db *DB) String() string { return "crash-wrapped " + db.BadgerDB.String() }

func (db *DB) Put(ctx storage.Context, tk storage.TKey, v []byte) error {
	return do("Put", ctx.ConstructKey(tk), 1, func() error { return db.BadgerDB.Put(ctx, tk, v) })
}

func (db *DB) Delete(ctx storage.Context, tk storage.TKey) error {
	return do("Delete", ctx.ConstructKey(tk), 1, func() error { return db.BadgerDB.Delete(ctx, tk) })
}

func (db *DB) RawPut(k storage.Key, v []byte) error {
	return do("RawPut", k, 1, func() error { return db.BadgerDB.RawPut(k, v) })
}

func (db *DB) RawDelete(k storage.Key) error {
	return do("RawDelete", k, 1, func() error { return db.BadgerDB.RawDelete(k) })
}

func (db *DB) PutRange(ctx storage.Context, kvs []storage.TKeyValue) error {
	var k []byte
	if len(kvs) > 0 {
		k = ctx.ConstructKey(kvs[0].K)
	}
	return do("PutRange", k, len(kvs), func() error { return db.BadgerDB.PutRange(ctx, kvs) })
}

func (db *DB) DeleteRange(ctx storage.Context, kStart, kEnd storage.TKey) error {
	return do("DeleteRange", ctx.ConstructKey(kStart), 0, func() error { return db.BadgerDB.DeleteRange(ctx, kStart, kEnd) })
}

func (db *DB) DeleteAll(ctx storage.Context) error {
	return do("DeleteAll", ctx.ConstructKey(storage.MinTKey(0)), 0, func() error { return db.BadgerDB.DeleteAll(ctx) })
}

type batch struct {
	storage.Batch
	first []byte
	n     int
	ctx   storage.Context
}

func (db *DB) NewBatch(ctx storage.Context) storage.Batch {
	b := db.BadgerDB.NewBatch(ctx)
	if b == nil {
		return nil
	}
	return &batch{Batch: b, ctx: ctx}
}

func (b *batch) Put(tk storage.TKey, v []byte) {
	if b.first == nil {
		b.first = b.ctx.ConstructKey(tk)
	}
	b.n++
	b.Batch.Put(tk, v)
}

func (b *batch) Delete(tk storage.TKey) {
	if b.first == nil {
		b.first = b.ctx.ConstructKey(tk)
	}
	b.n++
	b.Batch.Delete(tk)
}

func (b *batch) Commit() error {
	return do("BatchCommit", b.first, b.n, func() error { return b.Batch.Commit() })
}
