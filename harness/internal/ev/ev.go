// Package ev writes evidence files (EVIDENCE.schema.json) and handles the
// known-findings file and violation reporting.
package ev

import (
	"encoding/json"
	"fmt"
	"os"
	"path/filepath"
	"sort"
	"strconv"
	"sync"
	"time"
)

// VerifDir is the root of the verification tree.
var VerifDir = func() string {
	if d := os.Getenv("VERIF_DIR"); d != "" {
		return d
	}
	return "/verif"
}()

// Evidence is one evidence file.
type Evidence struct {
	PropertyID  string                 `json:"property_id"`
	Tier        string                 `json:"tier"`
	Seed        int64                  `json:"seed"`
	Level       string                 `json:"level"`
	Coverage    map[string]interface{} `json:"coverage"`
	Assumptions []string               `json:"assumptions,omitempty"`
	WallS       float64                `json:"wall_s"`
	Violations  int                    `json:"violations"`
}

// Run collects what one check invocation did.
type Run struct {
	mu         sync.Mutex
	Prop       string
	Tier       string
	Seed       int64
	Level      string
	start      time.Time
	Cov        map[string]interface{}
	Assume     []string
	samples    []interface{}
	distinct   map[string]struct{}
	evals      int64
	violations int
	known      map[string]bool // known finding ids printed
	Findings   []Finding
}

// Finding is one entry of known_findings.json.
type Finding struct {
	Property  string `json:"property"`
	ID        string `json:"id"`
	Status    string `json:"status"` // known | fixed
	Commit    string `json:"commit,omitempty"`
	Deviation string `json:"deviation,omitempty"`
	What      string `json:"what"`
}

// Seed returns VERIF_SEED or 1.
func Seed() int64 {
	if s := os.Getenv("VERIF_SEED"); s != "" {
		if v, err := strconv.ParseInt(s, 10, 64); err == nil {
			return v
		}
	}
	return 1
}

// NewRun starts the evidence for one property check.
func NewRun(prop, tier, level string) *Run {
	r := &Run{Prop: prop, Tier: tier, Seed: Seed(), Level: level, start: time.Now(),
		Cov: map[string]interface{}{}, distinct: map[string]struct{}{}, known: map[string]bool{}}
	b, err := os.ReadFile(filepath.Join(VerifDir, "known_findings.json"))
	if err == nil {
		var fs struct {
			Findings []Finding `json:"findings"`
		}
		if json.Unmarshal(b, &fs) == nil {
			r.Findings = fs.Findings
		}
	}
	return r
}

// KnownActive reports whether a finding id is listed with status "known".
func (r *Run) KnownActive(id string) bool {
	for _, f := range r.Findings {
		if f.ID == id && f.Property == r.Prop && f.Status == "known" {
			return true
		}
	}
	return false
}

// KnownActiveFor is KnownActive for an explicit property.
func (r *Run) KnownActiveFor(prop, id string) bool {
	for _, f := range r.Findings {
		if f.ID == id && f.Property == prop && f.Status == "known" {
			return true
		}
	}
	return false
}

// ReportKnown prints the KNOWN-FINDING line once per finding id.
func (r *Run) ReportKnown(id string) {
	r.mu.Lock()
	defer r.mu.Unlock()
	if r.known[id] {
		return
	}
	r.known[id] = true
	for _, f := range r.Findings {
		if f.ID == id && f.Status == "known" {
			fmt.Printf("KNOWN-FINDING: property=%s %s [%s]\n", f.Property, f.What, f.ID)
			return
		}
	}
}

// KnownSeen returns ids of known findings observed in this run.
func (r *Run) KnownSeen() []string {
	r.mu.Lock()
	defer r.mu.Unlock()
	var out []string
	for k := range r.known {
		out = append(out, k)
	}
	sort.Strings(out)
	return out
}

// Eval counts one evaluated case; key identifies distinct non-trivial cases ("" = trivial).
func (r *Run) Eval(key string) {
	r.mu.Lock()
	r.evals++
	if key != "" {
		r.distinct[key] = struct{}{}
	}
	r.mu.Unlock()
}

// EvalN counts n evaluations without distinctness information.
func (r *Run) EvalN(n int) {
	r.mu.Lock()
	r.evals += int64(n)
	r.mu.Unlock()
}

// Sample keeps up to 5 written-out cases.
func (r *Run) Sample(s interface{}) {
	r.mu.Lock()
	if len(r.samples) < 5 {
		r.samples = append(r.samples, s)
	}
	r.mu.Unlock()
}

// Set stores a coverage key.
func (r *Run) Set(k string, v interface{}) {
	r.mu.Lock()
	r.Cov[k] = v
	r.mu.Unlock()
}

// Add adds to an integer coverage key.
func (r *Run) Add(k string, n int64) {
	r.mu.Lock()
	if cur, ok := r.Cov[k].(int64); ok {
		r.Cov[k] = cur + n
	} else {
		r.Cov[k] = n
	}
	r.mu.Unlock()
}

// Violation writes a replay file and prints the VIOLATION line.
func (r *Run) Violation(name string, replay interface{}) string {
	r.mu.Lock()
	r.violations++
	nv := r.violations
	r.mu.Unlock()
	dir := filepath.Join(VerifDir, "replays", r.Prop)
	os.MkdirAll(dir, 0755)
	path := filepath.Join(dir, fmt.Sprintf("%s-seed%d-%d.json", name, r.Seed, nv))
	b, _ := json.MarshalIndent(replay, "", " ")
	os.WriteFile(path, b, 0644)
	if nv <= 20 {
		fmt.Printf("VIOLATION property=%s replay=%s\n", r.Prop, path)
	}
	return path
}

// Violations returns the number of violations so far.
func (r *Run) Violations() int {
	r.mu.Lock()
	defer r.mu.Unlock()
	return r.violations
}

// Write writes the evidence file.
func (r *Run) Write() error {
	r.mu.Lock()
	defer r.mu.Unlock()
	cov := map[string]interface{}{}
	for k, v := range r.Cov {
		cov[k] = v
	}
	if _, ok := cov["evaluations"]; !ok {
		cov["evaluations"] = r.evals
	}
	if _, ok := cov["distinct_nontrivial"]; !ok {
		cov["distinct_nontrivial"] = len(r.distinct)
	}
	if _, ok := cov["samples"]; !ok {
		cov["samples"] = r.samples
	}
	var ks []string
	for k := range r.known {
		ks = append(ks, k)
	}
	sort.Strings(ks)
	cov["known_findings_observed"] = ks
	e := Evidence{PropertyID: r.Prop, Tier: r.Tier, Seed: r.Seed, Level: r.Level, Coverage: cov,
		Assumptions: r.Assume, WallS: time.Since(r.start).Seconds(), Violations: r.violations}
	b, err := json.MarshalIndent(e, "", " ")
	if err != nil {
		return err
	}
	dir := filepath.Join(VerifDir, "evidence")
	if os.Getenv("SEEDTEST") != "" {
		// a run against a deliberately broken tree (tools/seedtest.sh) must not overwrite the evidence of the real tree
		dir = filepath.Join(VerifDir, "bin", "seedtest-evidence")
	}
	os.MkdirAll(dir, 0755)
	return os.WriteFile(filepath.Join(dir, r.Prop+".json"), b, 0644)
}

// Finish writes evidence and returns the exit code (0 ok, 1 violation).
func (r *Run) Finish() int {
	if err := r.Write(); err != nil {
		fmt.Fprintf(os.Stderr, "evidence write failed: %v\n", err)
		return 2
	}
	if r.Violations() > 0 {
		return 1
	}
	return 0
}
