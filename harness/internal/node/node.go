// Package node is the client side of the dvidnode protocol: process control,
// request/response, restart and crash handling.
package node

import (
	"bufio"
	"bytes"
	"encoding/base64"
	"encoding/json"
	"errors"
	"fmt"
	"io"
	"os"
	"os/exec"
	"path/filepath"
	"regexp"
	"strings"
	"sync"
	"syscall"
	"time"
)

// Config describes one node's stores and server settings.
type Config struct {
	Dir           string // data directory (created if absent)
	Engine        string // "badger" or "crashbadger" (default)
	RWMode        string // "", "readonly", "fullwrite"
	AdminToken    string // DVID_ADMIN_TOKEN in the environment
	AllowSplit    bool   // allowLabelmapSplit
	LabelmapCache int    // [cache.labelmap] size in MB (0 = off)
	IIDStart      uint32 // instance_id_start
	IIDGen        string // instance_id_gen
	SecondStore   bool   // add a second badger store "second" (for copy onto another store)
	NoLog         bool   // no filelog / mutation log
	ExtraTOML     string
	MainStoreTOML string // extra lines inside [store.main] (e.g. `inmemory = [":b1"]` for neuronjson)
	Env           []string // extra environment for the next spawn (e.g. VERIF_CRASH_AT=3)
}

// Node is a running dvidnode process.
type Node struct {
	Bin    string
	Cfg    Config
	cmd    *exec.Cmd
	stdin  io.WriteCloser
	out    *bufio.Reader
	enc    *json.Encoder
	mu     sync.Mutex
	nextID uint64
	Stderr *lockedBuf
	dead   bool
	// Writes is the store write counter reported at start-up.
	StartWrites uint64
	// counters
	NReq int
}

type lockedBuf struct {
	mu      sync.Mutex
	b       bytes.Buffer
	part    []byte
	dropped int64 // bytes discarded from the front of b (only the tail of a long stderr is kept)
}

func (l *lockedBuf) Write(p []byte) (int, error) {
	l.mu.Lock()
	defer l.mu.Unlock()
	// drop the per-request access log lines of the goji logger; keep everything else
	n := len(p)
	l.part = append(l.part, p...)
	for {
		i := bytes.IndexByte(l.part, '\n')
		if i < 0 {
			break
		}
		line := l.part[:i+1]
		if !(bytes.Contains(line, []byte("] Started ")) || bytes.Contains(line, []byte("] Returning "))) {
			l.keep(line)
		}
		l.part = l.part[i+1:]
	}
	return n, nil
}

func (l *lockedBuf) keep(p []byte) (int, error) {
	if l.b.Len() > 8<<20 {
		// keep the tail only
		tail := append([]byte(nil), l.b.Bytes()[l.b.Len()-(1<<20):]...)
		l.dropped += int64(l.b.Len() - len(tail))
		l.b.Reset()
		l.b.Write(tail)
	}
	return l.b.Write(p)
}

func (l *lockedBuf) String() string {
	l.mu.Lock()
	defer l.mu.Unlock()
	return l.b.String()
}

// Mark returns the current position in the captured stderr (complete lines only).
func (l *lockedBuf) Mark() int64 {
	l.mu.Lock()
	defer l.mu.Unlock()
	return l.dropped + int64(l.b.Len())
}

// Since returns what was captured after the position mark.
func (l *lockedBuf) Since(mark int64) string {
	l.mu.Lock()
	defer l.mu.Unlock()
	off := mark - l.dropped
	if off < 0 {
		off = 0
	}
	if off >= int64(l.b.Len()) {
		return ""
	}
	return string(l.b.Bytes()[off:])
}

// panicMarks are the texts with which the server (dvid.ReportPanic, the recover handlers of the
// request middleware and of the sync goroutines) and the Go runtime report a panic on stderr.
var panicMarks = regexp.MustCompile(`Panic detected|(?m)^panic: |Stack trace from|goroutine \d+ \[running\]|(?m)^fatal error: `)

// requestPanic is the report of the request middleware (the request is then answered with status 500).
var requestPanic = regexp.MustCompile(`Panic detected on request`)

// PanicReport describes the panic reports found in a piece of stderr.
type PanicReport struct {
	Any        bool   // some panic report
	Background bool   // a report that does not come from the recover handler of a request
	Excerpt    string // the first report with some context
}

// ScanPanics looks for panic reports in a piece of captured stderr.
func ScanPanics(text string) PanicReport {
	var pr PanicReport
	loc := panicMarks.FindStringIndex(text)
	if loc == nil {
		return pr
	}
	pr.Any = true
	end := loc[0] + 1500
	if end > len(text) {
		end = len(text)
	}
	pr.Excerpt = text[loc[0]:end]
	// every "Panic detected" line that is not the request middleware's is a background report; a bare
	// runtime "panic:" / "fatal error:" is one too (it ends the process)
	for _, m := range regexp.MustCompile(`(?m)^.*Panic detected[^\n]*`).FindAllString(text, -1) {
		if !requestPanic.MatchString(m) {
			pr.Background = true
			i := strings.Index(text, m)
			e := i + 1500
			if e > len(text) {
				e = len(text)
			}
			pr.Excerpt = text[i:e]
			break
		}
	}
	if !pr.Background && regexp.MustCompile(`(?m)^(panic: |fatal error: )`).MatchString(text) {
		pr.Background = true
	}
	return pr
}

// StderrMark / StderrSince: positions in the captured stderr of the node.
func (n *Node) StderrMark() int64            { return n.Stderr.Mark() }
func (n *Node) StderrSince(mark int64) string { return n.Stderr.Since(mark) }

// Req mirrors dvidnode's request.
type Req struct {
	ID     uint64          `json:"id"`
	Op     string          `json:"op"`
	Method string          `json:"method,omitempty"`
	URL    string          `json:"url,omitempty"`
	Body   string          `json:"body,omitempty"`
	Reqs   []Req           `json:"reqs,omitempty"`
	Fn     string          `json:"fn,omitempty"`
	Args   json.RawMessage `json:"args,omitempty"`
	N      uint64          `json:"n,omitempty"`
	After  bool            `json:"after,omitempty"`
	On     bool            `json:"on,omitempty"`
	Sched  []uint64        `json:"sched,omitempty"`
	Gated  bool            `json:"gated,omitempty"`
	WaitMS int             `json:"wait_ms,omitempty"`
}

// GateEvent mirrors dvidnode's gate event.
type GateEvent struct {
	Seq  uint64 `json:"seq"`
	Req  uint64 `json:"req"`
	Kind string `json:"kind"`
	Site string `json:"site,omitempty"`
	Arg  uint64 `json:"arg,omitempty"`
}

// Resp mirrors dvidnode's response.
type Resp struct {
	ID     uint64          `json:"id"`
	Status int             `json:"status,omitempty"`
	Body   string          `json:"body,omitempty"`
	CType  string          `json:"ctype,omitempty"`
	Err    string          `json:"err,omitempty"`
	Resps  []Resp          `json:"resps,omitempty"`
	Result json.RawMessage `json:"result,omitempty"`
	N      uint64          `json:"n,omitempty"`
	Gates  []GateEvent     `json:"gates,omitempty"`
	// Panic is set by the node's doHTTP when the server's "Panic detected on request" report is found
	// inside a body whose status is below 500: the handler had started its answer before it panicked,
	// so the recovery middleware could not change the status any more.
	Panic string `json:"panic,omitempty"`
}

// ServerFault reports an internal error of the server: a 5xx status, or a recovered panic whose
// report was appended to an answer that had already been started with a 2xx status.
func (r Resp) ServerFault() bool { return r.Status >= 500 || r.Panic != "" }

// Bytes returns the decoded body.
func (r Resp) Bytes() []byte {
	b, _ := base64.StdEncoding.DecodeString(r.Body)
	return b
}

// ErrDead is returned when the node process has gone away.
var ErrDead = errors.New("node process died")

func (c Config) toml() string {
	engine := c.Engine
	if engine == "" {
		engine = "crashbadger"
	}
	var sb strings.Builder
	sb.WriteString("[server]\nhttpAddress = \":0\"\nrpcAddress = \":0\"\n")
	if c.RWMode != "" {
		fmt.Fprintf(&sb, "rwmode = %q\n", c.RWMode)
	}
	if c.AllowSplit {
		sb.WriteString("allowLabelmapSplit = true\n")
	}
	if c.IIDStart != 0 {
		fmt.Fprintf(&sb, "instance_id_start = %d\n", c.IIDStart)
	}
	if c.IIDGen != "" {
		fmt.Fprintf(&sb, "instance_id_gen = %q\n", c.IIDGen)
	}
	sb.WriteString("\n[logging]\nlogfile = \"\"\n")
	if !c.NoLog {
		fmt.Fprintf(&sb, "\n[mutations]\njsonstore = %q\n", filepath.Join(c.Dir, "mutlog"))
	}
	sb.WriteString("\n[backend]\n  [backend.default]\n  store = \"main\"\n")
	if !c.NoLog {
		sb.WriteString("  log = \"mlog\"\n")
	}
	fmt.Fprintf(&sb, "\n[store]\n  [store.main]\n  engine = %q\n  path = %q\n", engine, filepath.Join(c.Dir, "db"))
	if c.MainStoreTOML != "" {
		sb.WriteString("  " + c.MainStoreTOML + "\n")
	}
	if !c.NoLog {
		fmt.Fprintf(&sb, "  [store.mlog]\n  engine = \"filelog\"\n  path = %q\n", filepath.Join(c.Dir, "flog"))
	}
	if c.SecondStore {
		fmt.Fprintf(&sb, "  [store.second]\n  engine = \"badger\"\n  path = %q\n", filepath.Join(c.Dir, "db2"))
	}
	if c.LabelmapCache > 0 {
		fmt.Fprintf(&sb, "\n[cache]\n  [cache.labelmap]\n  size = %d\n", c.LabelmapCache)
	}
	if c.ExtraTOML != "" {
		sb.WriteString("\n" + c.ExtraTOML + "\n")
	}
	return sb.String()
}

// Start launches a node on cfg.Dir (creating it when needed).
func Start(bin string, cfg Config) (*Node, error) {
	if err := os.MkdirAll(cfg.Dir, 0755); err != nil {
		return nil, err
	}
	tomlPath := filepath.Join(cfg.Dir, "config.toml")
	if err := os.WriteFile(tomlPath, []byte(cfg.toml()), 0644); err != nil {
		return nil, err
	}
	n := &Node{Bin: bin, Cfg: cfg, Stderr: &lockedBuf{}}
	if err := n.spawn(); err != nil {
		return nil, err
	}
	return n, nil
}

func (n *Node) spawn() error {
	tomlPath := filepath.Join(n.Cfg.Dir, "config.toml")
	cmd := exec.Command(n.Bin, tomlPath)
	cmd.Env = append(os.Environ(), "DVID_ADMIN_TOKEN="+n.Cfg.AdminToken)
	cmd.Env = append(cmd.Env, n.Cfg.Env...)
	cmd.Stderr = n.Stderr
	stdin, err := cmd.StdinPipe()
	if err != nil {
		return err
	}
	stdout, err := cmd.StdoutPipe()
	if err != nil {
		return err
	}
	if err := cmd.Start(); err != nil {
		return err
	}
	n.cmd = cmd
	n.stdin = stdin
	n.out = bufio.NewReaderSize(stdout, 1<<20)
	n.enc = json.NewEncoder(stdin)
	n.dead = false
	// wait for ready
	r, err := n.read(30 * time.Second)
	if err != nil {
		n.Kill()
		return fmt.Errorf("node start failed: %v; stderr tail: %s", err, tail(n.Stderr.String(), 2000))
	}
	n.StartWrites = r.N
	return nil
}

func tail(s string, n int) string {
	if len(s) > n {
		return s[len(s)-n:]
	}
	return s
}

// StderrTail returns the last n bytes of stderr.
func (n *Node) StderrTail(k int) string { return tail(n.Stderr.String(), k) }

func (n *Node) read(timeout time.Duration) (Resp, error) {
	type res struct {
		r   Resp
		err error
	}
	ch := make(chan res, 1)
	go func() {
		line, err := n.out.ReadBytes('\n')
		if err != nil {
			ch <- res{err: err}
			return
		}
		var r Resp
		if err := json.Unmarshal(line, &r); err != nil {
			ch <- res{err: fmt.Errorf("bad response %q: %v", tail(string(line), 200), err)}
			return
		}
		ch <- res{r: r}
	}()
	select {
	case r := <-ch:
		if r.err != nil {
			n.dead = true
			return Resp{}, ErrDead
		}
		return r.r, nil
	case <-time.After(timeout):
		// ask the Go runtime of the node for its goroutine stacks (SIGQUIT) so that a wedged request can be diagnosed
		dump := ""
		if n.cmd != nil && n.cmd.Process != nil {
			before := len(n.Stderr.String())
			n.cmd.Process.Signal(syscall.SIGQUIT)
			time.Sleep(2 * time.Second)
			all := n.Stderr.String()
			if len(all) > before {
				dump = all[before:]
			}
			if dir := os.Getenv("VERIF_DIR"); dir != "" && dump != "" {
				f := filepath.Join(dir, "bin", fmt.Sprintf("node-timeout-%d.log", time.Now().UnixNano()))
				os.WriteFile(f, []byte(dump), 0644)
				dump = " (goroutine dump in " + f + ")"
			} else {
				dump = ""
			}
		}
		n.dead = true
		return Resp{}, fmt.Errorf("node response timeout after %v%s", timeout, dump)
	}
}

// Do sends one command and waits for the answer.
func (n *Node) Do(rq Req) (Resp, error) {
	return n.DoTimeout(rq, 120*time.Second)
}

// DoTimeout is Do with an explicit timeout.
func (n *Node) DoTimeout(rq Req, timeout time.Duration) (Resp, error) {
	n.mu.Lock()
	defer n.mu.Unlock()
	if n.dead {
		return Resp{}, ErrDead
	}
	n.nextID++
	if rq.ID == 0 {
		rq.ID = n.nextID
	}
	n.NReq++
	if err := n.enc.Encode(rq); err != nil {
		n.dead = true
		return Resp{}, ErrDead
	}
	return n.read(timeout)
}

// NextID reserves a request id (for par batches).
func (n *Node) NextID() uint64 {
	n.mu.Lock()
	defer n.mu.Unlock()
	n.nextID++
	return n.nextID
}

// HTTP sends one HTTP request through ServeSingleHTTP.
func (n *Node) HTTP(method, url string, body []byte) (Resp, error) {
	rq := Req{Op: "http", Method: method, URL: url}
	if len(body) > 0 {
		rq.Body = base64.StdEncoding.EncodeToString(body)
	}
	return n.Do(rq)
}

// MkReq builds an http Req for use in Par.
func (n *Node) MkReq(method, url string, body []byte) Req {
	rq := Req{ID: n.NextID(), Op: "http", Method: method, URL: url}
	if len(body) > 0 {
		rq.Body = base64.StdEncoding.EncodeToString(body)
	}
	return rq
}

// Par runs requests concurrently (ungated).
func (n *Node) Par(reqs []Req) (Resp, error) {
	return n.Do(Req{Op: "par", Reqs: reqs})
}

// ParGated runs requests concurrently under a gate schedule.
func (n *Node) ParGated(reqs []Req, sched []uint64, sites []string, waitMS int) (Resp, error) {
	var args json.RawMessage
	if len(sites) > 0 {
		args, _ = json.Marshal(sites)
	}
	return n.Do(Req{Op: "par", Reqs: reqs, Gated: true, Sched: sched, Args: args, WaitMS: waitMS})
}

// Idle waits for quiescence of all instances.
func (n *Node) Idle() error {
	r, err := n.Do(Req{Op: "idle"})
	if err != nil {
		return err
	}
	if r.Err != "" {
		return errors.New(r.Err)
	}
	return nil
}

// Call invokes a registered package-level entry point.
func (n *Node) Call(fn string, args interface{}, result interface{}) error {
	b, err := json.Marshal(args)
	if err != nil {
		return err
	}
	r, err := n.Do(Req{Op: "call", Fn: fn, Args: b})
	if err != nil {
		return err
	}
	if r.Err != "" {
		return &CallError{Msg: r.Err, Panic: r.Status == 599}
	}
	if result != nil {
		return json.Unmarshal(r.Result, result)
	}
	return nil
}

// CallError is an error returned by the called function (not a transport error).
type CallError struct {
	Msg   string
	Panic bool
}

func (e *CallError) Error() string { return e.Msg }

// Arm arms the crash engine n writes from now.
func (n *Node) Arm(k uint64, after bool) error {
	_, err := n.Do(Req{Op: "arm", N: k, After: after})
	return err
}

// Count returns the store write counter.
func (n *Node) Count() (uint64, error) {
	r, err := n.Do(Req{Op: "count"})
	return r.N, err
}

// WTrace turns write tracing on, or takes the trace when on=false.
func (n *Node) WTrace(on bool) (json.RawMessage, error) {
	r, err := n.Do(Req{Op: "wtrace", On: on})
	return r.Result, err
}

// Stop shuts the node down cleanly.
func (n *Node) Stop() error {
	if n.dead || n.cmd == nil {
		return n.reap()
	}
	_, err := n.DoTimeout(Req{Op: "stop"}, 60*time.Second)
	n.stdin.Close()
	n.reap()
	return err
}

// Kill sends SIGKILL.
func (n *Node) Kill() error {
	if n.cmd != nil && n.cmd.Process != nil {
		n.cmd.Process.Signal(syscall.SIGKILL)
	}
	return n.reap()
}

func (n *Node) reap() error {
	if n.cmd == nil {
		return nil
	}
	if n.stdin != nil {
		n.stdin.Close()
	}
	done := make(chan error, 1)
	go func() { done <- n.cmd.Wait() }()
	var err error
	select {
	case err = <-done:
	case <-time.After(30 * time.Second):
		n.cmd.Process.Kill()
		err = <-done
	}
	n.cmd = nil
	n.dead = true
	return err
}

// WaitExit waits for the process to exit on its own (crash injection) and returns
// the exit code.
func (n *Node) WaitExit(timeout time.Duration) (int, error) {
	if n.cmd == nil {
		return -1, nil
	}
	done := make(chan error, 1)
	go func() { done <- n.cmd.Wait() }()
	select {
	case err := <-done:
		code := n.cmd.ProcessState.ExitCode()
		n.cmd = nil
		n.dead = true
		_ = err
		return code, nil
	case <-time.After(timeout):
		return -1, fmt.Errorf("process did not exit")
	}
}

// DumpGoroutines sends SIGQUIT (the Go runtime prints every goroutine's stack and exits) and returns
// the tail of stderr: diagnostics for a request that did not return.  The node is gone afterwards.
func (n *Node) DumpGoroutines(tailBytes int) string {
	if n.cmd == nil || n.cmd.Process == nil {
		return ""
	}
	n.cmd.Process.Signal(syscall.SIGQUIT)
	time.Sleep(1500 * time.Millisecond)
	n.dead = true
	return n.StderrTail(tailBytes)
}

// Alive reports whether the process is believed alive.
func (n *Node) Alive() bool { return !n.dead && n.cmd != nil }

// Restart starts a new process on the same directories.  clean=true stops the old
// one cleanly first, otherwise it is SIGKILLed.
func (n *Node) Restart(clean bool) error {
	if n.cmd != nil {
		if clean {
			n.Stop()
		} else {
			n.Kill()
		}
	}
	return n.spawn()
}

// RestartWith restarts with a modified configuration (same directory).
func (n *Node) RestartWith(clean bool, mod func(*Config)) error {
	if n.cmd != nil {
		if clean {
			n.Stop()
		} else {
			n.Kill()
		}
	}
	mod(&n.Cfg)
	tomlPath := filepath.Join(n.Cfg.Dir, "config.toml")
	if err := os.WriteFile(tomlPath, []byte(n.Cfg.toml()), 0644); err != nil {
		return err
	}
	return n.spawn()
}

// Destroy kills the process and removes the data directory.
func (n *Node) Destroy() {
	n.Kill()
	os.RemoveAll(n.Cfg.Dir)
}
