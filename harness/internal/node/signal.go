package node

import "syscall"

// Quit sends SIGQUIT (the Go runtime dumps all goroutine stacks to stderr and exits); used to
// document a hang before the process is killed.
func (n *Node) Quit() {
	if n.cmd != nil && n.cmd.Process != nil {
		n.cmd.Process.Signal(syscall.SIGQUIT)
	}
}
