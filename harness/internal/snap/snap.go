// Package snap takes a complete observable snapshot of a DVID server through its
// HTTP API: repos, DAG, heads, flags, notes, logs, instances with settings, and the
// data read endpoints of every instance at every version.  Wall-clock fields, the
// mutation-id counters and map order are normalised away (DESIGN §3.5).
package snap

import (
	"crypto/sha1"
	"encoding/binary"
	"encoding/hex"
	"encoding/json"
	"fmt"
	"regexp"
	"sort"
	"strings"

	pb "google.golang.org/protobuf/proto"

	"github.com/janelia-flyem/dvid/datatype/common/proto"

	"verifharness/internal/node"
)

// Entry is one observation.
type Entry struct {
	Key    string `json:"key"`
	Status int    `json:"status"`
	Digest string `json:"digest"`
	Body   string `json:"body,omitempty"` // truncated, for diagnostics
	Full   string `json:"-"` // full body (kept by TakeCanon only)
}

// Snap is an ordered list of observations.
type Snap struct {
	Entries  []Entry
	keepFull bool
}

// Options selects what is read.
type Options struct {
	SkipData    bool                // metadata only
	Versions    map[string]bool     // restrict data reads to these version uuids (nil = all)
	Instances   map[string]bool     // restrict to these instance names (nil = all)
	SkipHeads   bool                // do not resolve uuid:branch addresses
	ExtraReads  []Read              // additional reads
	LabelPoints map[string][]string // instance name -> points "x_y_z" for label queries
	Bodies      map[string][]uint64 // instance name -> labels to query per version (labelmap)
	Volume      map[string][2]string // instance name -> size, offset for raw reads ("64_64_64","0_0_0")
	// reads added for the growth of C03 (all off by default, so that the snapshots of the other checks are unchanged)
	AnnLabels map[string][]uint64 // annotation instance name -> labels for label/<l> (with and without relationships)
	AnnTags   map[string][]string // annotation instance name -> tags for tag/<t>
	SzLabels  map[string][]uint64 // labelsz instance name -> labels for count/<l>/<index type>
	AnnBox    [2]string           // size, offset of the annotation elements/<size>/<offset> read ("" = 2000^3 around the origin)
	RawLZ4    bool                // labelmap raw reads with ?compression=lz4 (same voxels, 1/100 of the bytes through the pipe)
	LogReads  bool                // log-derived reads: labelmap mutations, mutations-range, history; keyvalue mutations
	Root      map[string]string   // version uuid -> root uuid of its repo (filled by Take; used by the range reads)
	keepFull  bool
}

// Read is one HTTP read.
type Read struct {
	Key    string
	Method string
	URL    string
	Body   []byte
	Norm   func([]byte) []byte // optional normaliser
}

// log lines are stored with a wall-clock prefix
var logStamp = regexp.MustCompile(`^\d{4}-\d\d-\d\dT[0-9:.+\-Z]+\s+`)

var dropKeys = map[string]bool{"Created": true, "Updated": true, "MutationID": true, "SavedMutationID": true}

func scrub(v interface{}) interface{} {
	switch t := v.(type) {
	case map[string]interface{}:
		for k := range t {
			if dropKeys[k] {
				delete(t, k)
				continue
			}
			if k == "Log" || k == "log" {
				if arr, ok := t[k].([]interface{}); ok {
					for i := range arr {
						if str, ok := arr[i].(string); ok {
							arr[i] = logStamp.ReplaceAllString(str, "")
						}
					}
				}
			}
			t[k] = scrub(t[k])
		}
		return t
	case []interface{}:
		for i := range t {
			t[i] = scrub(t[i])
		}
		return t
	}
	return v
}

// NormJSON re-marshals JSON with sorted keys and volatile fields removed.
func NormJSON(b []byte) []byte {
	var v interface{}
	if err := json.Unmarshal(b, &v); err != nil {
		return b
	}
	out, err := json.Marshal(scrub(v))
	if err != nil {
		return b
	}
	return out
}

// NormJSONSortedArray sorts a top-level JSON array of scalars/objects canonically.
func NormJSONSortedArray(b []byte) []byte {
	var v []interface{}
	if err := json.Unmarshal(b, &v); err != nil {
		return NormJSON(b)
	}
	ss := make([]string, len(v))
	for i := range v {
		x, _ := json.Marshal(scrub(v[i]))
		ss[i] = string(x)
	}
	sort.Strings(ss)
	return []byte("[" + strings.Join(ss, ",") + "]")
}

func digest(b []byte) string {
	h := sha1.Sum(b)
	return hex.EncodeToString(h[:8])
}

func (s *Snap) add(key string, status int, body []byte) {
	e := Entry{Key: key, Status: status, Digest: digest(body)}
	if s.keepFull {
		e.Full = string(body)
	}
	if len(body) <= 300 {
		e.Body = string(body)
	} else {
		e.Body = string(body[:300]) + "..."
	}
	s.Entries = append(s.Entries, e)
}

// RepoInfo is the part of repo info the snapshot walks.
type RepoInfo struct {
	Root string
	DAG  struct {
		Nodes map[string]struct {
			Branch    string
			UUID      string
			VersionID int
			Locked    bool
			Parents   []int
			Children  []int
		}
	}
	DataInstances map[string]struct {
		Base struct {
			TypeName  string
			Name      string
			DataUUID  string
			Versioned bool
		}
		Extended json.RawMessage
	}
}

// Take takes a snapshot.
func Take(n *node.Node, opt Options) (*Snap, error) {
	s := &Snap{keepFull: opt.keepFull}
	do := func(rd Read) error {
		r, err := n.HTTP(rd.Method, rd.URL, rd.Body)
		if err != nil {
			return fmt.Errorf("%s: %v", rd.Key, err)
		}
		b := r.Bytes()
		if rd.Norm != nil && r.Status == 200 {
			b = rd.Norm(b)
		}
		if r.Status != 200 {
			// error texts may embed request ids; keep only the status
			b = nil
		}
		s.add(rd.Key, r.Status, b)
		return nil
	}
	r, err := n.HTTP("GET", "/api/repos/info", nil)
	if err != nil {
		return nil, err
	}
	if r.Status != 200 {
		return nil, fmt.Errorf("repos/info: status %d", r.Status)
	}
	s.add("repos/info", r.Status, NormJSON(r.Bytes()))
	var repos map[string]RepoInfo
	if err := json.Unmarshal(r.Bytes(), &repos); err != nil {
		return nil, fmt.Errorf("repos/info parse: %v", err)
	}
	var roots []string
	opt.Root = map[string]string{}
	for root, ri := range repos {
		roots = append(roots, root)
		for u := range ri.DAG.Nodes {
			opt.Root[u] = root
		}
	}
	sort.Strings(roots)
	for _, root := range roots {
		ri := repos[root]
		if err := do(Read{Key: "repo/" + root + "/info", Method: "GET", URL: "/api/repo/" + root + "/info", Norm: NormJSON}); err != nil {
			return nil, err
		}
		if err := do(Read{Key: "repo/" + root + "/log", Method: "GET", URL: "/api/repo/" + root + "/log", Norm: NormJSON}); err != nil {
			return nil, err
		}
		var uuids []string
		branches := map[string]bool{"master": true}
		for u, nd := range ri.DAG.Nodes {
			uuids = append(uuids, u)
			if nd.Branch != "" {
				branches[nd.Branch] = true
			}
		}
		sort.Strings(uuids)
		for _, u := range uuids {
			for _, what := range []string{"note", "log", "commit"} {
				if err := do(Read{Key: "node/" + u + "/" + what, Method: "GET", URL: "/api/node/" + u + "/" + what, Norm: NormJSON}); err != nil {
					return nil, err
				}
			}
		}
		if !opt.SkipHeads {
			var bl []string
			for b := range branches {
				bl = append(bl, b)
			}
			sort.Strings(bl)
			for _, b := range bl {
				// uuid:branch addressing: which node does the branch head resolve to (its commit flag and note identify it)
				if err := do(Read{Key: "head/" + root + ":" + b + "/note", Method: "GET", URL: "/api/node/" + root + ":" + b + "/note", Norm: NormJSON}); err != nil {
					return nil, err
				}
				// master's ancestry listing is ill-defined once merge nodes carry the master
				// name (it depends on map iteration order even without a restart): named branches only
				if b != "master" {
					if err := do(Read{Key: "branch-versions/" + root + "/" + b, Method: "GET", URL: "/api/repo/" + root + "/branch-versions/" + b, Norm: NormJSON}); err != nil {
						return nil, err
					}
				}
			}
		}
		if opt.SkipData {
			continue
		}
		var names []string
		for name := range ri.DataInstances {
			names = append(names, name)
		}
		sort.Strings(names)
		for _, name := range names {
			if opt.Instances != nil && !opt.Instances[name] {
				continue
			}
			di := ri.DataInstances[name]
			vs := uuids
			if !di.Base.Versioned {
				vs = []string{root}
			}
			for _, u := range vs {
				if opt.Versions != nil && !opt.Versions[u] {
					continue
				}
				reads, err := typeReads(n, di.Base.TypeName, name, u, opt)
				if err != nil {
					return nil, err
				}
				for _, rd := range reads {
					if err := do(rd); err != nil {
						return nil, err
					}
				}
			}
		}
	}
	for _, rd := range opt.ExtraReads {
		if err := do(rd); err != nil {
			return nil, err
		}
	}
	return s, nil
}

// Canon rewrites every version UUID as V<version id> and every data UUID as D<name>
// throughout keys and bodies, so that snapshots of independent runs of the same
// workload are comparable.  It needs the raw repos/info of the same server.
func (s *Snap) Canon(n *node.Node) error {
	r, err := n.HTTP("GET", "/api/repos/info", nil)
	if err != nil {
		return err
	}
	var repos map[string]RepoInfo
	if err := json.Unmarshal(r.Bytes(), &repos); err != nil {
		return err
	}
	var pairs []string
	for _, ri := range repos {
		for u, nd := range ri.DAG.Nodes {
			pairs = append(pairs, u, fmt.Sprintf("V%d", nd.VersionID))
		}
		for name, di := range ri.DataInstances {
			if di.Base.DataUUID != "" {
				pairs = append(pairs, di.Base.DataUUID, "D:"+name)
			}
		}
	}
	pairs = append(pairs, n.Cfg.Dir, "<DIR>")
	rep := strings.NewReplacer(pairs...)
	// bodies were truncated for display; digests must be recomputed from full bodies, so
	// Canon snapshots are taken with full bodies kept (see TakeCanon).
	for i := range s.Entries {
		s.Entries[i].Key = rep.Replace(s.Entries[i].Key)
		body := rep.Replace(s.Entries[i].Full)
		if len(body) > 0 && (body[0] == '{' || body[0] == '[') {
			body = string(NormJSON([]byte(body))) // object keys that were UUIDs sort differently now
		}
		s.Entries[i].Body = body
		s.Entries[i].Digest = digest([]byte(body))
		if len(s.Entries[i].Body) > 300 {
			s.Entries[i].Body = s.Entries[i].Body[:300] + "..."
		}
		s.Entries[i].Full = body
	}
	sort.SliceStable(s.Entries, func(i, j int) bool { return s.Entries[i].Key < s.Entries[j].Key })
	return nil
}

// TakeCanon takes a snapshot and canonicalises identifiers.
func TakeCanon(n *node.Node, opt Options) (*Snap, error) {
	opt.keepFull = true
	s, err := Take(n, opt)
	if err != nil {
		return nil, err
	}
	if err := s.Canon(n); err != nil {
		return nil, err
	}
	return s, nil
}

// Diff lists the differences between two snapshots.
func Diff(a, b *Snap) []string {
	am := map[string]Entry{}
	for _, e := range a.Entries {
		am[e.Key] = e
	}
	bm := map[string]Entry{}
	for _, e := range b.Entries {
		bm[e.Key] = e
	}
	var out []string
	for _, e := range a.Entries {
		f, ok := bm[e.Key]
		if !ok {
			out = append(out, fmt.Sprintf("%s: present before (%d), missing after", e.Key, e.Status))
			continue
		}
		if e.Status != f.Status || e.Digest != f.Digest {
			out = append(out, fmt.Sprintf("%s: before %d %s | after %d %s", e.Key, e.Status, e.Body, f.Status, f.Body))
		}
	}
	for _, e := range b.Entries {
		if _, ok := am[e.Key]; !ok {
			out = append(out, fmt.Sprintf("%s: missing before, present after (%d) %s", e.Key, e.Status, e.Body))
		}
	}
	return out
}

// DiffFiltered is Diff restricted to keys for which keep returns true.
func DiffFiltered(a, b *Snap, keep func(key string) bool) []string {
	var out []string
	for _, d := range Diff(a, b) {
		k := d
		if i := strings.Index(d, ": "); i >= 0 {
			k = d[:i]
		}
		if keep(k) {
			out = append(out, d)
		}
	}
	return out
}

// typeReads returns the data reads of one instance at one version.
func typeReads(n *node.Node, typename, name, uuid string, opt Options) ([]Read, error) {
	base := "/api/node/" + uuid + "/" + name
	kp := "data/" + name + "@" + uuid + "/"
	get := func(sub string, norm func([]byte) []byte) Read {
		return Read{Key: kp + sub, Method: "GET", URL: base + "/" + sub, Norm: norm}
	}
	reads := []Read{get("info", NormJSON)}
	switch typename {
	case "keyvalue":
		reads = append(reads, get("keys", NormJSON), get("tags", NormJSON))
		if opt.LogReads {
			reads = append(reads, get("mutations", NormMutations))
		}
		r, err := n.HTTP("GET", base+"/keys", nil)
		if err != nil {
			return nil, err
		}
		var keys []string
		if r.Status == 200 {
			json.Unmarshal(r.Bytes(), &keys)
		}
		for _, k := range keys {
			reads = append(reads, get("key/"+k, nil))
		}
		if len(keys) > 0 {
			reads = append(reads, get("keyrangevalues/"+keys[0]+"/"+keys[len(keys)-1]+"?json=true", nil))
		}
	case "roi":
		reads = append(reads, get("roi", NormJSON))
	case "annotation":
		box := "2000_2000_2000/-1000_-1000_-1000"
		if opt.AnnBox[0] != "" {
			box = opt.AnnBox[0] + "/" + opt.AnnBox[1]
		}
		reads = append(reads, get("all-elements", NormJSON), get("elements/"+box, NormJSONSortedArray), get("tags", NormJSON))
		for _, l := range opt.AnnLabels[name] {
			reads = append(reads, get(fmt.Sprintf("label/%d", l), NormJSONSortedArray), get(fmt.Sprintf("label/%d?relationships=true", l), NormJSONSortedArray))
		}
		for _, t := range opt.AnnTags[name] {
			reads = append(reads, get("tag/"+t, NormJSONSortedArray))
		}
	case "neuronjson":
		reads = append(reads, get("keys", NormJSON), get("all", NormJSONSortedArray), get("fields", NormJSONSortedArray), get("tags", NormJSON))
	case "labelsz":
		for _, it := range []string{"PostSyn", "PreSyn", "Gap", "Note", "AllSyn"} {
			reads = append(reads, get("top/10/"+it, NormJSON))
		}
		for _, l := range opt.SzLabels[name] {
			for _, it := range []string{"PostSyn", "PreSyn", "AllSyn"} {
				reads = append(reads, get(fmt.Sprintf("count/%d/%s", l, it), NormJSON))
			}
		}
	case "labelmap":
		reads = append(reads, get("maxlabel", NormJSON), get("nextlabel", NormJSON), get("tags", NormJSON), get("supervoxel-splits", NormJSON), get("mappings", sortLines), get("listlabels", nil))
		if vol, ok := opt.Volume[name]; ok {
			reads = append(reads, get("raw/0_1_2/"+vol[0]+"/"+vol[1], nil), get("raw/0_1_2/"+vol[0]+"/"+vol[1]+"?supervoxels=true", nil))
		}
		for _, b := range opt.Bodies[name] {
			reads = append(reads, get(fmt.Sprintf("size/%d", b), NormJSON), get(fmt.Sprintf("supervoxels/%d", b), NormJSONSortedArray),
				get(fmt.Sprintf("sparsevol/%d?format=rles", b), normRLEs), get(fmt.Sprintf("sparsevol-coarse/%d", b), normRLEs),
				get(fmt.Sprintf("index/%d", b), normLabelIndex), get(fmt.Sprintf("lastmod/%d", b), dropTimes))
		}
		for _, p := range opt.LabelPoints[name] {
			reads = append(reads, get("label/"+p, NormJSON), get("label/"+p+"?supervoxels=true", NormJSON))
		}
		if opt.LogReads {
			// answers derived from the mutation logs (the JSON mutation log of the server and the
			// instance's own per-version log), wall-clock fields removed
			// (map-stats is left out: it reports which versions' mappings happen to be cached in memory,
			// a server statistic the property exempts)
			reads = append(reads, get("mutations", NormMutations))
			if root := opt.Root[uuid]; root != "" {
				reads = append(reads, get("mutations-range/"+root+"/"+uuid, NormMutations))
				for _, b := range opt.Bodies[name] {
					reads = append(reads, get(fmt.Sprintf("history/%d/%s/%s", b, root, uuid), NormMutations))
				}
			}
		}
	default:
		if strings.HasSuffix(typename, "blk") {
			if vol, ok := opt.Volume[name]; ok {
				reads = append(reads, get("raw/0_1_2/"+vol[0]+"/"+vol[1], nil))
			}
			reads = append(reads, get("metadata", NormJSON))
		}
	}
	return reads, nil
}

// normRLEs sorts the runs of a legacy RLE sparse volume (their order carries no meaning).
func normRLEs(b []byte) []byte {
	if len(b) < 12 || (len(b)-12)%16 != 0 {
		return b
	}
	n := (len(b) - 12) / 16
	runs := make([]string, n)
	for i := 0; i < n; i++ {
		r := b[12+16*i : 12+16*(i+1)]
		// sort key: z, y, x as signed
		runs[i] = fmt.Sprintf("%011d %011d %011d %d", int64(int32(binary.LittleEndian.Uint32(r[8:])))+1<<31, int64(int32(binary.LittleEndian.Uint32(r[4:])))+1<<31,
			int64(int32(binary.LittleEndian.Uint32(r[0:])))+1<<31, binary.LittleEndian.Uint32(r[12:]))
	}
	sort.Strings(runs)
	return []byte(fmt.Sprintf("%x|%s", b[:12], strings.Join(runs, ";")))
}

// normLabelIndex renders a protobuf label index canonically (map order is not deterministic)
// and drops its modification time.
func normLabelIndex(b []byte) []byte {
	var idx proto.LabelIndex
	if err := pb.Unmarshal(b, &idx); err != nil {
		return b
	}
	var ents []string
	for zyx, svc := range idx.Blocks {
		for sv, n := range svc.Counts {
			ents = append(ents, fmt.Sprintf("%016x/%d=%d", zyx, sv, n))
		}
	}
	sort.Strings(ents)
	return []byte(fmt.Sprintf("label=%d mutid=%d user=%s app=%s %s", idx.Label, idx.LastMutid, idx.LastModUser, idx.LastModApp, strings.Join(ents, ",")))
}

// sortLines sorts the lines of an unordered text listing.
func sortLines(b []byte) []byte {
	lines := strings.Split(strings.TrimSpace(string(b)), "\n")
	sort.Strings(lines)
	return []byte(strings.Join(lines, "\n"))
}

// dropTimes removes time-valued fields of lastmod answers but keeps users/mutation ids.
func dropTimes(b []byte) []byte {
	var v map[string]interface{}
	if json.Unmarshal(b, &v) != nil {
		return b
	}
	for k := range v {
		if strings.Contains(strings.ToLower(k), "time") {
			delete(v, k)
		}
	}
	out, _ := json.Marshal(v)
	return out
}

// Transform returns a copy of a canonical snapshot with f applied to every full body.
func Transform(s *Snap, f func(key, body string) string) *Snap {
	out := &Snap{Entries: make([]Entry, len(s.Entries))}
	for i, e := range s.Entries {
		b := f(e.Key, e.Full)
		e.Full = b
		e.Digest = digest([]byte(b))
		e.Body = b
		if len(b) > 300 {
			e.Body = b[:300] + "..."
		}
		out.Entries[i] = e
	}
	return out
}

// NormMutations normalises a JSON list of mutation records: wall-clock fields are removed
// (record order is kept: it is the order of the log).
func NormMutations(b []byte) []byte {
	var v interface{}
	if err := json.Unmarshal(b, &v); err != nil {
		return b
	}
	out, err := json.Marshal(scrubTimes(scrub(v)))
	if err != nil {
		return b
	}
	return out
}

func scrubTimes(v interface{}) interface{} {
	switch t := v.(type) {
	case map[string]interface{}:
		for k := range t {
			lk := strings.ToLower(k)
			if lk == "timestamp" || lk == "time" {
				delete(t, k)
				continue
			}
			t[k] = scrubTimes(t[k])
		}
		return t
	case []interface{}:
		for i := range t {
			t[i] = scrubTimes(t[i])
		}
		return t
	}
	return v
}
