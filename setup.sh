#!/bin/bash
# Builds the framework offline and warms the Go build cache.
set -e
cd "$(dirname "$0")"
export GOFLAGS=-mod=mod GOPROXY=off GOSUMDB=off GOTOOLCHAIN=local
mkdir -p bin evidence
cd harness
cp -f /repo/go.sum go.sum
go build -tags badger,verif -o ../bin/dvidnode ./cmd/dvidnode
go build -tags badger,verif -o ../bin/vcheck ./cmd/vcheck
echo setup ok
